(* Proofs for property C08: the push-data walk against the item grammar, and the subscription
   filter against its declarative meaning. *)
From V.lib Require Import Base.
From V.model Require Import Script ScriptSpec.
From Coq Require Import ZifyBool ZifyNat.

(* ---------------------------------------------------------------------------------------- *)
(* little-endian size fields *)
Lemma le_bytes_length w n : length (le_bytes w n) = w.
Proof.
  revert n; induction w as [|w IH]; intros n; [reflexivity|].
  cbn [le_bytes length]. f_equal. apply IH.
Qed.

Lemma le_val_cons b bs : le_val (b :: bs) = b + 256 * le_val bs.
Proof. reflexivity. Qed.

Lemma le_val_le_bytes w n : le_val (le_bytes w n) = n mod 256 ^ Z.of_nat w.
Proof.
  revert n; induction w as [|w IH]; intros n.
  - cbn [le_bytes]. change (le_val []) with 0. change (256 ^ Z.of_nat 0) with 1.
    symmetry. apply Z.mod_1_r.
  - cbn [le_bytes]. rewrite le_val_cons, IH.
    rewrite Nat2Z.inj_succ, Z.pow_succ_r by lia.
    symmetry. apply Z.rem_mul_r; [lia|]. apply Z.pow_pos_nonneg; lia.
Qed.

Lemma le_val_le_bytes_small w n : 0 <= n < 256 ^ Z.of_nat w -> le_val (le_bytes w n) = n.
Proof. intros Hn. rewrite le_val_le_bytes. apply Z.mod_small. exact Hn. Qed.

Lemma zlen_nonneg {A} (l : list A) : 0 <= zlen l.
Proof. unfold zlen. lia. Qed.

Lemma zlen_app {A} (l k : list A) : zlen (l ++ k) = zlen l + zlen k.
Proof. unfold zlen. rewrite app_length. lia. Qed.

Lemma to_nat_zlen {A} (l : list A) : Z.to_nat (zlen l) = length l.
Proof. unfold zlen. apply Nat2Z.id. Qed.

(* ---------------------------------------------------------------------------------------- *)
(* one item *)
Lemma sized_push_encode w d rest :
  zlen d < 256 ^ Z.of_nat w ->
  sized_push w (le_bytes w (zlen d) ++ d ++ rest) = IPush d rest.
Proof.
  intros Hlt. unfold sized_push.
  assert (Hlen : (length (le_bytes w (zlen d) ++ d ++ rest) <? w)%nat = false).
  { rewrite app_length, le_bytes_length. lia. }
  rewrite Hlen.
  rewrite (take_app_alt (le_bytes w (zlen d)) (d ++ rest) w) by (symmetry; apply le_bytes_length).
  rewrite (drop_app_alt (le_bytes w (zlen d)) (d ++ rest) w) by (symmetry; apply le_bytes_length).
  rewrite le_val_le_bytes_small by (split; [apply zlen_nonneg | exact Hlt]).
  destruct (zlen d =? 0) eqn:Hz.
  - destruct d as [|x d]; [reflexivity|]. unfold zlen in Hz. cbn [length] in Hz. lia.
  - assert (Hgt : (zlen d >? zlen (d ++ rest)) = false).
    { rewrite zlen_app. pose proof (zlen_nonneg rest). lia. }
    rewrite Hgt, to_nat_zlen.
    rewrite (take_app_alt d rest (length d)) by reflexivity.
    rewrite (drop_app_alt d rest (length d)) by reflexivity.
    reflexivity.
Qed.

Lemma parse_item_76 r : parse_item (76 :: r) = sized_push 1 r.
Proof. reflexivity. Qed.
Lemma parse_item_77 r : parse_item (77 :: r) = sized_push 2 r.
Proof. reflexivity. Qed.
Lemma parse_item_78 r : parse_item (78 :: r) = sized_push 4 r.
Proof. reflexivity. Qed.

Lemma parse_item_direct op r :
  1 <= op <= 75 ->
  parse_item (op :: r) =
    if op >? zlen r then IError else IPush (take (Z.to_nat op) r) (drop (Z.to_nat op) r).
Proof.
  intros Hop. unfold parse_item.
  assert (H0 : (op =? 0) = false) by lia.
  assert (H1 : (op <=? 75) = true) by lia.
  rewrite H0, H1. reflexivity.
Qed.

Lemma parse_item_num n r : 1 <= n <= 16 -> parse_item ((80 + n) :: r) = IPush [n] r.
Proof.
  intros Hn. unfold parse_item.
  assert (H0 : (80 + n =? 0) = false) by lia.
  assert (H1 : (80 + n <=? 75) = false) by lia.
  assert (H2 : ((81 <=? 80 + n) && (80 + n <=? 96)) = true) by lia.
  rewrite H0, H1, H2. f_equal. f_equal. lia.
Qed.

Lemma parse_item_op b r : b = 80 \/ 97 <= b -> parse_item (b :: r) = INotPush r.
Proof.
  intros Hb. unfold parse_item.
  assert (H0 : (b =? 0) = false) by lia.
  assert (H1 : (b <=? 75) = false) by lia.
  assert (H2 : ((81 <=? b) && (b <=? 96)) = false) by lia.
  assert (H3 : (b =? 79) = false) by lia.
  assert (H4 : (b =? 76) = false) by lia.
  assert (H5 : (b =? 77) = false) by lia.
  assert (H6 : (b =? 78) = false) by lia.
  rewrite H0, H1, H2, H3, H4, H5, H6. reflexivity.
Qed.

Lemma encode_pushdata_app w d rest :
  encode_item (ItPushData w d) ++ rest =
  (match w with 1%nat => 76 | 2%nat => 77 | _ => 78 end) :: le_bytes w (zlen d) ++ d ++ rest.
Proof. unfold encode_item. rewrite <- app_comm_cons, <- app_assoc. reflexivity. Qed.

Lemma parse_item_encode it rest :
  wf_item it ->
  parse_item (encode_item it ++ rest) =
    match item_push it with Some d => IPush d rest | None => INotPush rest end.
Proof.
  intros Hwf. destruct it as [|d|n| |w d|b].
  - reflexivity.
  - destruct Hwf as [Hlen _].
    change (encode_item (ItDirect d) ++ rest) with (zlen d :: d ++ rest).
    cbn [item_push].
    rewrite parse_item_direct by (unfold zlen; lia).
    assert (Hgt : (zlen d >? zlen (d ++ rest)) = false).
    { rewrite zlen_app. pose proof (zlen_nonneg rest). lia. }
    rewrite Hgt, to_nat_zlen.
    rewrite (take_app_alt d rest (length d)) by reflexivity.
    rewrite (drop_app_alt d rest (length d)) by reflexivity.
    reflexivity.
  - change (encode_item (ItNum n) ++ rest) with ((80 + n) :: rest).
    cbn [item_push]. apply parse_item_num. exact Hwf.
  - reflexivity.
  - destruct Hwf as (Hw & Hlt & _).
    rewrite encode_pushdata_app. cbn [item_push].
    destruct Hw as [-> | [-> | ->]].
    + rewrite parse_item_76. apply sized_push_encode. exact Hlt.
    + rewrite parse_item_77. apply sized_push_encode. exact Hlt.
    + rewrite parse_item_78. apply sized_push_encode. exact Hlt.
  - destruct Hwf as [_ Hb].
    change (encode_item (ItOp b) ++ rest) with (b :: rest).
    cbn [item_push]. apply parse_item_op. exact Hb.
Qed.

(* ---------------------------------------------------------------------------------------- *)
(* the walk over a sequence of items *)
Lemma pushes_fuel_S f s :
  pushes_fuel (S f) s =
    match parse_item s with
    | IPush d rest => d :: pushes_fuel f rest
    | INotPush rest => pushes_fuel f rest
    | IError => []
    end.
Proof. reflexivity. Qed.

Lemma pushes_fuel_nil f : pushes_fuel f [] = [].
Proof. destruct f; reflexivity. Qed.

Lemma pushes_fuel_error f s : parse_item s = IError -> pushes_fuel f s = [].
Proof. intros He. destruct f; [reflexivity|]. rewrite pushes_fuel_S, He. reflexivity. Qed.

Lemma encode_items_cons it its : encode_items (it :: its) = encode_item it ++ encode_items its.
Proof. reflexivity. Qed.

Lemma pushes_of_cons it its :
  pushes_of (it :: its) =
    match item_push it with Some d => d :: pushes_of its | None => pushes_of its end.
Proof. reflexivity. Qed.

Lemma encode_item_length it : (1 <= length (encode_item it))%nat.
Proof. destruct it; cbn [encode_item length]; lia. Qed.

Lemma encode_items_length its : (length its <= length (encode_items its))%nat.
Proof.
  induction its as [|it its IH]; [reflexivity|].
  rewrite encode_items_cons, app_length. cbn [length].
  pose proof (encode_item_length it). lia.
Qed.

Lemma pushes_fuel_items its :
  Forall wf_item its ->
  forall fuel tail, (length its <= fuel)%nat ->
    pushes_fuel fuel (encode_items its ++ tail) =
    pushes_of its ++ pushes_fuel (fuel - length its) tail.
Proof.
  induction 1 as [|it its Hwf _ IH]; intros fuel tail Hfuel.
  - cbn [length]. rewrite Nat.sub_0_r. reflexivity.
  - cbn [length] in Hfuel. destruct fuel as [|f]; [lia|].
    rewrite encode_items_cons, <- app_assoc, pushes_fuel_S, parse_item_encode by exact Hwf.
    rewrite pushes_of_cons. cbn [length]. rewrite Nat.sub_succ.
    destruct (item_push it) as [d|].
    + rewrite IH by lia. reflexivity.
    + apply IH. lia.
Qed.

Lemma pushes_items its tail :
  Forall wf_item its ->
  pushes (encode_items its ++ tail) =
  pushes_of its ++ pushes_fuel (S (length (encode_items its ++ tail)) - length its) tail.
Proof.
  intros Hwf. unfold pushes. apply pushes_fuel_items; [exact Hwf|].
  rewrite app_length. pose proof (encode_items_length its). lia.
Qed.

Lemma parser_refines_grammar :
  forall (its : list item) (tail : bytes),
    Forall wf_item its ->
    exists more, pushes (encode_items its ++ tail) = pushes_of its ++ more.
Proof.
  intros its tail Hwf. eexists. apply pushes_items. exact Hwf.
Qed.

Lemma parser_exact :
  forall its : list item, Forall wf_item its -> pushes (encode_items its) = pushes_of its.
Proof.
  intros its Hwf. rewrite <- (app_nil_r (encode_items its)) at 1.
  rewrite pushes_items by exact Hwf. rewrite pushes_fuel_nil. apply app_nil_r.
Qed.

(* ---------------------------------------------------------------------------------------- *)
(* truncated items *)
Lemma sized_push_truncated w d m :
  zlen d < 256 ^ Z.of_nat w -> (m < w + length d)%nat ->
  sized_push w (take m (le_bytes w (zlen d) ++ d)) = IError.
Proof.
  intros Hlt Hm. unfold sized_push.
  destruct (length (take m (le_bytes w (zlen d) ++ d)) <? w)%nat eqn:Hshort; [reflexivity|].
  rewrite take_length, app_length, le_bytes_length in Hshort.
  assert (Hwm : (w <= m)%nat) by lia.
  rewrite (take_app_ge (le_bytes w (zlen d)) d m) by (rewrite le_bytes_length; exact Hwm).
  rewrite le_bytes_length.
  rewrite (take_app_alt (le_bytes w (zlen d)) (take (m - w) d) w) by (symmetry; apply le_bytes_length).
  rewrite (drop_app_alt (le_bytes w (zlen d)) (take (m - w) d) w) by (symmetry; apply le_bytes_length).
  rewrite le_val_le_bytes_small by (split; [apply zlen_nonneg | exact Hlt]).
  assert (Hz : (zlen d =? 0) = false) by (unfold zlen; lia).
  assert (Hgt : (zlen d >? zlen (take (m - w) d)) = true).
  { unfold zlen. rewrite take_length. lia. }
  rewrite Hz, Hgt. reflexivity.
Qed.

Lemma parse_item_truncated it n :
  wf_item it -> item_push it <> None ->
  (0 < n < length (encode_item it))%nat ->
  parse_item (take n (encode_item it)) = IError.
Proof.
  intros Hwf Hpush Hn. destruct it as [|d|k| |w d|b].
  - cbn [encode_item length] in Hn. lia.
  - destruct Hwf as [Hlen _]. cbn [encode_item length] in Hn.
    destruct n as [|m]; [lia|].
    change (take (S m) (encode_item (ItDirect d))) with (zlen d :: take m d).
    rewrite parse_item_direct by (unfold zlen; lia).
    assert (Hgt : (zlen d >? zlen (take m d)) = true).
    { unfold zlen. rewrite take_length. lia. }
    rewrite Hgt. reflexivity.
  - cbn [encode_item length] in Hn. lia.
  - cbn [encode_item length] in Hn. lia.
  - destruct Hwf as (Hw & Hlt & _). cbn [encode_item length] in Hn.
    rewrite app_length, le_bytes_length in Hn.
    destruct n as [|m]; [lia|].
    assert (Hm : (m < w + length d)%nat) by lia.
    unfold encode_item. rewrite firstn_cons.
    destruct Hw as [-> | [-> | ->]].
    + rewrite parse_item_76. apply sized_push_truncated; assumption.
    + rewrite parse_item_77. apply sized_push_truncated; assumption.
    + rewrite parse_item_78. apply sized_push_truncated; assumption.
  - exfalso. apply Hpush. reflexivity.
Qed.

Lemma truncated_tail :
  forall (its : list item) (it : item) (n : nat),
    Forall wf_item its -> wf_item it -> item_push it <> None ->
    (0 < n < length (encode_item it))%nat ->
    pushes (encode_items its ++ take n (encode_item it)) = pushes_of its.
Proof.
  intros its it n Hwfs Hwf Hpush Hn.
  rewrite pushes_items by exact Hwfs.
  rewrite pushes_fuel_error by (apply parse_item_truncated; assumption).
  apply app_nil_r.
Qed.

(* ---------------------------------------------------------------------------------------- *)
(* the filter *)
Lemma bytes_eqb_eq x y : bytes_eqb x y = true <-> x = y.
Proof.
  revert y; induction x as [|a x IH]; intros [|b y]; cbn [bytes_eqb].
  - split; reflexivity.
  - split; discriminate.
  - split; discriminate.
  - rewrite andb_true_iff, Z.eqb_eq, IH. split.
    + intros [-> ->]. reflexivity.
    + intros Heq. injection Heq as -> ->. split; reflexivity.
Qed.

Lemma bytes_eqb_refl x : bytes_eqb x x = true.
Proof. apply bytes_eqb_eq. reflexivity. Qed.

Lemma subscribed_spec s k : subscribed s k = true <-> In k (subs s).
Proof.
  unfold subscribed. rewrite existsb_exists. split.
  - intros (x & Hx & He). apply bytes_eqb_eq in He. subst x. exact Hx.
  - intros Hk. exists k. split; [exact Hk | apply bytes_eqb_refl].
Qed.

Lemma script_matches_spec H160 s sc :
  script_matches H160 s sc = true <->
  exists p k, In p (pushes sc) /\ In k (subs s) /\ k = push_key H160 p.
Proof.
  unfold script_matches. rewrite existsb_exists. split.
  - intros (p & Hp & Hs). apply subscribed_spec in Hs.
    exists p, (push_key H160 p). split; [exact Hp|]. split; [exact Hs | reflexivity].
  - intros (p & k & Hp & Hk & ->). exists p. split; [exact Hp|].
    apply subscribed_spec. exact Hk.
Qed.

Lemma filter_iff :
  forall (H160 : bytes -> bytes) (cf : bytes -> bool) (s : fstate) (outs ins : list bytes),
    is_relevant H160 cf s outs ins = true <-> relevant_spec H160 cf s outs ins.
Proof.
  intros H160 cf s outs ins. unfold is_relevant, relevant_spec.
  rewrite !orb_true_iff, andb_true_iff, !existsb_exists. split.
  - intros [[[Hc (o & Ho & Hcf)] | (sc & Hsc & Hm)] | (sc & Hsc & Hm)].
    + left. split; [exact Hc|]. exists o. split; assumption.
    + right. apply script_matches_spec in Hm as (p & k & Hp & Hk & He).
      exists sc, p, k. split; [apply in_or_app; left; exact Hsc|].
      split; [exact Hp|]. split; assumption.
    + right. apply script_matches_spec in Hm as (p & k & Hp & Hk & He).
      exists sc, p, k. split; [apply in_or_app; right; exact Hsc|].
      split; [exact Hp|]. split; assumption.
  - intros [[Hc (o & Ho & Hcf)] | (sc & p & k & Hsc & Hp & Hk & He)].
    + left. left. split; [exact Hc|]. exists o. split; assumption.
    + assert (Hm : script_matches H160 s sc = true).
      { apply script_matches_spec. exists p, k. split; [exact Hp|]. split; assumption. }
      apply in_app_or in Hsc as [Hsc | Hsc].
      * left. right. exists sc. split; assumption.
      * right. exists sc. split; assumption.
Qed.

(* ---------------------------------------------------------------------------------------- *)
(* subscribe / unsubscribe as multiset operations *)
Lemma remove_first_perm k l l' : l ≡ₚ l' -> remove_first k l ≡ₚ remove_first k l'.
Proof.
  induction 1 as [|x l l' Hp IH|x y l|l l' l'' _ IH1 _ IH2].
  - reflexivity.
  - cbn [remove_first]. destruct (bytes_eqb x k); [exact Hp|]. apply perm_skip. exact IH.
  - cbn [remove_first].
    destruct (bytes_eqb y k) eqn:Hy, (bytes_eqb x k) eqn:Hx.
    + apply bytes_eqb_eq in Hy, Hx. subst x y. reflexivity.
    + reflexivity.
    + reflexivity.
    + apply perm_swap.
  - etransitivity; eassumption.
Qed.

Lemma remove_first_head k l : remove_first k (k :: l) = l.
Proof. cbn [remove_first]. rewrite bytes_eqb_refl. reflexivity. Qed.

Lemma fold_remove_perm {A} (key : A -> bytes) ds :
  forall l l', l ≡ₚ l' ->
    fold_left (fun l d => remove_first (key d) l) ds l ≡ₚ
    fold_left (fun l d => remove_first (key d) l) ds l'.
Proof.
  induction ds as [|d ds IH]; intros l l' Hp; cbn [fold_left].
  - exact Hp.
  - apply IH. apply remove_first_perm. exact Hp.
Qed.

Lemma fold_remove_inverse {A} (key : A -> bytes) ds :
  forall S, fold_left (fun l d => remove_first (key d) l) ds (S ++ map key ds) ≡ₚ S.
Proof.
  induction ds as [|d ds IH]; intros S.
  - cbn [map fold_left]. rewrite app_nil_r. reflexivity.
  - cbn [map fold_left].
    etransitivity; [|apply (IH S)].
    apply fold_remove_perm.
    etransitivity.
    + apply remove_first_perm. symmetry. apply Permutation_middle.
    + rewrite remove_first_head. reflexivity.
Qed.

Lemma sub_unsub_inverse :
  forall (H160 : bytes -> bytes) (s : fstate) (ds : list bytes),
    subs (unsubscribe H160 (subscribe H160 s ds) ds) ≡ₚ subs s /\
    contracts (unsubscribe H160 (subscribe H160 s ds) ds) = contracts s.
Proof.
  intros H160 s ds. split; [|reflexivity].
  unfold unsubscribe, subscribe. cbn [subs].
  apply (fold_remove_inverse (push_key H160)).
Qed.

(* ---------------------------------------------------------------------------------------- *)
(* relevance depends on the subscriptions only as a multiset *)
Lemma existsb_perm {A} (f : A -> bool) l l' : l ≡ₚ l' -> existsb f l = existsb f l'.
Proof.
  induction 1 as [|x l l' _ IH|x y l|l l' l'' _ IH1 _ IH2].
  - reflexivity.
  - cbn [existsb]. rewrite IH. reflexivity.
  - cbn [existsb]. destruct (f x), (f y); reflexivity.
  - congruence.
Qed.

Lemma existsb_ext' {A} (f g : A -> bool) l : (forall x, f x = g x) -> existsb f l = existsb g l.
Proof.
  intros Hfg. induction l as [|x l IH]; [reflexivity|].
  cbn [existsb]. rewrite Hfg, IH. reflexivity.
Qed.

Lemma relevance_perm :
  forall (H160 : bytes -> bytes) (cf : bytes -> bool) (s s' : fstate) (outs ins : list bytes),
    subs s ≡ₚ subs s' -> contracts s = contracts s' ->
    is_relevant H160 cf s outs ins = is_relevant H160 cf s' outs ins.
Proof.
  intros H160 cf s s' outs ins Hp Hc.
  assert (Hsub : forall k, subscribed s k = subscribed s' k).
  { intros k. unfold subscribed. apply existsb_perm. exact Hp. }
  assert (Hm : forall sc, script_matches H160 s sc = script_matches H160 s' sc).
  { intros sc. unfold script_matches. apply existsb_ext'. intros p. apply Hsub. }
  unfold is_relevant. rewrite Hc.
  rewrite (existsb_ext' _ _ outs Hm), (existsb_ext' _ _ ins Hm). reflexivity.
Qed.

(* ---------------------------------------------------------------------------------------- *)
Lemma push_key_idem H160 d : length (H160 d) = 20%nat -> push_key H160 (push_key H160 d) = push_key H160 d.
Proof.
  intros H20. unfold push_key at 2 3.
  destruct (length d =? 20)%nat eqn:Hd.
  - unfold push_key. rewrite Hd. reflexivity.
  - unfold push_key. rewrite H20. reflexivity.
Qed.

Lemma raw_eq_hash :
  forall (H160 : bytes -> bytes) (s : fstate) (d : bytes),
    length (H160 d) = 20%nat ->
    subscribe H160 s [d] = subscribe H160 s [push_key H160 d] /\
    unsubscribe H160 s [d] = unsubscribe H160 s [push_key H160 d].
Proof.
  intros H160 s d H20. unfold subscribe, unsubscribe. cbn [map fold_left].
  rewrite push_key_idem by exact H20. split; reflexivity.
Qed.

(* ---------------------------------------------------------------------------------------- *)
(* the C08 monitor never objects to the model *)
Lemma zlist_eqb_refl' l : zlist_eqb l l = true.
Proof. induction l as [|x l IH]; cbn; [reflexivity|]. rewrite Z.eqb_refl. exact IH. Qed.
Lemma count_pos_subscribed k l : (0 <? count_k k l) = existsb (fun x => bytes_eqb x k) l.
Proof.
  unfold count_k. induction l as [|x l IH]; [reflexivity|]. cbn [existsb]. rewrite filter_cons.
  destruct (bytes_eqb x k) eqn:E.
  - destruct (decide (true = true)) as [_|n]; [|destruct n; reflexivity]. cbn [orb].
    apply Z.ltb_lt. unfold zlen. cbn [length]. lia.
  - destruct (decide (false = true)) as [e|_]; [discriminate e|]. cbn [orb]. exact IH.
Qed.

Lemma spec_relevant_is_relevant H is_c s outs ins :
  spec_relevant H is_c s outs ins = is_relevant H is_c s outs ins.
Proof.
  unfold spec_relevant, is_relevant. rewrite existsb_app, orb_assoc. f_equal; [f_equal|];
    apply existsb_ext'; intros sc; unfold script_matches; apply existsb_ext'; intros p;
    unfold subscribed; apply count_pos_subscribed.
Qed.

Lemma mset_eqb_refl l : mset_eqb l l = true.
Proof. unfold mset_eqb. apply forallb_forall. intros k _. apply Z.eqb_refl. Qed.

Lemma chunk_concat (l : list bytes) : Forall (fun k => length k = 20%nat) l ->
  forall fuel, (length (concat l) < fuel)%nat -> chunk fuel 20 (concat l) = l.
Proof.
  induction 1 as [|k l Hk Hl IH]; intros fuel Hf.
  - destruct fuel; reflexivity.
  - destruct fuel as [|fuel]; [lia|]. cbn [concat] in *.
    assert (Hlen : (length (concat l) < fuel)%nat) by (rewrite app_length in Hf; lia).
    cbn [chunk]. destruct (k ++ concat l) eqn:E.
    + destruct k; [discriminate Hk|discriminate E].
    + rewrite <- E. rewrite take_app_alt by (symmetry; exact Hk). rewrite drop_app_alt by (symmetry; exact Hk).
      f_equal. apply IH. exact Hlen.
Qed.

Definition all20 (s : fstate) : Prop := Forall (fun k => length k = 20%nat) (subs s).

Lemma remove_first_all20 k l : Forall (fun k => length k = 20%nat) l -> Forall (fun k => length k = 20%nat) (remove_first k l).
Proof.
  induction 1 as [|x l Hx Hl IH]; cbn; [constructor|]. destruct (bytes_eqb x k); [exact Hl|constructor; assumption].
Qed.

Lemma step08_sim htbl ctbl s o :
  all20 s -> keys20 htbl [o] = true ->
  step08 htbl ctbl s o (snd (step htbl ctbl s o)) = (0, fst (step htbl ctbl s o)) /\ all20 (fst (step htbl ctbl s o)).
Proof.
  intros H20 Hk. destruct o as [ds|ds| | |outs ins|d|]; cbn [step step08 fst snd].
  - split; [reflexivity|]. unfold all20, subscribe. cbn [subs]. apply Forall_app. split; [exact H20|].
    cbn in Hk. rewrite andb_true_r in Hk. rewrite forallb_forall in Hk.
    apply Forall_forall. intros k Hin. apply elem_of_list_In, in_map_iff in Hin. destruct Hin as (d & <- & Hd).
    apply Nat.eqb_eq, Hk, Hd.
  - split; [reflexivity|]. unfold all20, unsubscribe. cbn [subs].
    clear Hk. unfold all20 in H20. revert H20. generalize (subs s). induction ds as [|d ds IH]; intros l Hl; cbn [fold_left]; [exact Hl|].
    apply IH, remove_first_all20, Hl.
  - split; [reflexivity|exact H20].
  - split; [reflexivity|exact H20].
  - split; [|exact H20]. rewrite spec_relevant_is_relevant, zlist_eqb_refl'. reflexivity.
  - split; [reflexivity|exact H20].
  - split; [|exact H20]. rewrite Z.eqb_refl. cbn [andb].
    rewrite chunk_concat; [rewrite mset_eqb_refl; reflexivity|exact H20|lia].
Qed.

Lemma mon08_silent htbl ctbl : forall ops s i,
  all20 s -> keys20 htbl ops = true -> mon08_from htbl ctbl s i ops (run_from htbl ctbl s ops) = None.
Proof.
  induction ops as [|o ops IH]; intros s i H20 Hk; [reflexivity|].
  cbn [run_from]. destruct (step htbl ctbl s o) as [s1 ob] eqn:Hs. cbn [mon08_from].
  cbn [keys20 forallb] in Hk. apply andb_true_iff in Hk. destruct Hk as [Hk1 Hk2].
  destruct (step08_sim htbl ctbl s o H20) as [Hm H20'].
  { cbn [keys20 forallb]. rewrite Hk1. reflexivity. }
  rewrite Hs in Hm, H20'. cbn [fst snd] in Hm, H20'. rewrite Hm. cbn. apply IH; assumption.
Qed.

Lemma c08_monitor_silent : forall htbl ctbl ops,
  keys20 htbl ops = true -> c08_monitor htbl ctbl ops (run htbl ctbl ops) = None.
Proof. intros. unfold c08_monitor, run. apply mon08_silent; [constructor|assumption]. Qed.
