From V.lib Require Import Base.
From V.model Require Import SendMachine SendAuth.

(* the flag is set only by an accept for the current session handled since the connection started *)
Lemma auth_monitor_from_silent : forall ops s since i,
  (a_acc s = true -> since = true) ->
  auth_monitor_from (a_sess s) since i ops (arun_from s ops) = None.
Proof.
  induction ops as [|o ops IH]; intros s since i Hinv; [reflexivity|].
  destruct o as [b| |n| |].
  - destruct b; cbn [arun_from astep];
      try (destruct (sstep (a_w s) _) as [w1 ob] eqn:E; cbn [auth_monitor_from];
           apply (IH (AW w1 (a_sess s) _)); cbn [a_acc]; first [discriminate | exact Hinv]).
  - cbn [arun_from astep auth_monitor_from]. apply (IH (AW (a_w s) (a_sess s + 1) (a_acc s))). exact Hinv.
  - cbn [arun_from astep auth_monitor_from].
    set (good := (0 <? n) && (n =? a_sess s)).
    destruct (a_acc s) eqn:Ea.
    + rewrite (Hinv eq_refl). cbn [orb b2z Z.eqb negb andb].
      apply (IH (AW (a_w s) (a_sess s) true)). reflexivity.
    + cbn [orb]. destruct good eqn:Eg.
      * rewrite orb_true_r. cbn [b2z Z.eqb negb andb].
        apply (IH (AW (a_w s) (a_sess s) true)). reflexivity.
      * rewrite orb_false_r. cbn [b2z Z.eqb negb andb].
        apply (IH (AW (a_w s) (a_sess s) false)). cbn [a_acc]. discriminate.
  - cbn [arun_from astep auth_monitor_from].
    destruct (a_acc s) eqn:Ea.
    + rewrite (Hinv eq_refl). cbn [b2z Z.eqb negb andb]. apply IH. rewrite Ea. reflexivity.
    + cbn [b2z Z.eqb negb andb]. apply IH. rewrite Ea. discriminate.
  - cbn [arun_from astep auth_monitor_from].
    destruct (a_acc s) eqn:Ea.
    + rewrite (Hinv eq_refl). cbn [b2z Z.eqb negb andb]. apply IH. rewrite Ea. reflexivity.
    + cbn [b2z Z.eqb negb andb]. apply IH. rewrite Ea. discriminate.
Qed.

Theorem auth_monitor_silent : forall ops, auth_monitor ops (arun ops) = None.
Proof. intro ops. apply (auth_monitor_from_silent ops a_init). discriminate. Qed.

(* a new connection never starts accepted, whatever was handled before it *)
Theorem connect_resets_accepted : forall s, a_acc (fst (astep s (ABase SConnect))) = false.
Proof. intro s. cbn [astep]. destruct (sstep (a_w s) SConnect). reflexivity. Qed.

(* an accept made for an earlier session never sets the flag *)
Theorem stale_accept_rejected : forall s n, n <> a_sess s -> a_acc (fst (astep s (AAccept n))) = a_acc s.
Proof.
  intros s n Hn. cbn [astep fst a_acc]. destruct (n =? a_sess s) eqn:E; [apply Z.eqb_eq in E; contradiction|].
  rewrite andb_false_r, orb_false_r. reflexivity.
Qed.
