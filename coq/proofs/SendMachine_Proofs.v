(* Proofs for the send machine (C18): in every reachable state of every interleaving, requests are
   only written to connections whose handshake completed, and only written requests are
   acknowledged. *)
From V.lib Require Import Base.
From V.model Require Import SendMachine.

Definition SInv (w : smw) : Prop :=
  (forall c m, In (c, m) (sm_written w) -> sm_is_handshake m = false -> In c (sm_completed w)) /\
  (0 < w_tok w -> w_open w = true -> In (w_conn w) (sm_completed w)) /\
  (w_phase w = SServing -> w_open w = true -> In (w_conn w) (sm_completed w)) /\
  (w_hs w = true -> w_open w = true -> In (w_conn w) (sm_completed w)) /\
  (2 <= w_tear w -> w_open w = false) /\
  (forall r, In r (sm_acked w) -> exists c, In (c, r) (sm_written w)) /\
  0 <= w_tok w.

Lemma SInv_init : SInv sm_init.
Proof.
  repeat split; cbn; try contradiction; try discriminate; try lia.
Qed.

Lemma bump_pos t : 0 <= t -> 0 < bump t.
Proof. unfold bump. destruct (Z.ltb_spec t 5); lia. Qed.

Lemma bump_nonneg t : 0 <= t -> 0 <= bump t.
Proof. unfold bump. destruct (Z.ltb_spec t 5); lia. Qed.

Lemma SInv_step w a : SInv w -> SInv (sm_step w a).
Proof.
  intros Hall. pose proof Hall as (I1 & I2 & I3 & I4 & I5 & I6 & I7).
  destruct a as [| |r| | | | |]; cbn [sm_step].
  - (* connect *)
    destruct (match w_phase w with SNone => true | SExited => w_tear w =? 3 | _ => false end);
      [|exact Hall].
    repeat split; cbn; try assumption; try discriminate; try lia.
  - (* complete *)
    destruct (w_phase w) eqn:Ep; try (exact Hall);
      (destruct (w_open w) eqn:Eo; [|exact Hall]);
      (split; [|split; [|split; [|split; [|split; [|split]]]]]); cbn; try assumption;
      try (intros; apply in_or_app; right; left; reflexivity);
      try (apply bump_nonneg; assumption).
    all: try (intros c m H1 H2; apply in_or_app; left; eapply I1; eauto).
    all: try (intros H; specialize (I5 H); congruence).
  - (* send *)
    destruct (negb (w_hs w) && rq_hs r) eqn:Ed.
    + apply andb_true_iff in Ed. destruct Ed as [_ Ehs].
      destruct (w_open w) eqn:Eo.
      * split; [|split; [|split; [|split; [|split; [|split]]]]]; cbn; try assumption.
        -- intros c m Hin Hm. apply in_app_or in Hin. destruct Hin as [Hin|[Heq|[]]]; [eapply I1; eauto|].
           inversion Heq. subst. unfold sm_is_handshake in Hm. congruence.
        -- intros r' Hin. apply in_app_or in Hin. destruct Hin as [Hin|[<-|[]]].
           ++ destruct (I6 r' Hin) as (c & Hc). exists c. apply in_or_app. left. exact Hc.
           ++ exists (w_conn w). apply in_or_app. right. left. reflexivity.
      * repeat split; cbn; try assumption.
    + repeat split; cbn; assumption.
  - (* sender *)
    destruct (w_phase w) eqn:Ep; try (exact Hall).
    + (* waiting *)
      destruct (0 <? w_tok w) eqn:Et; [|exact Hall]. apply Z.ltb_lt in Et.
      destruct (w_first w) as [r|] eqn:Ef.
      * destruct (w_open w) eqn:Eo.
        -- assert (Hc : In (w_conn w) (sm_completed w)) by (apply I2; first [assumption|reflexivity]).
           split; [|split; [|split; [|split; [|split; [|split]]]]]; cbn; try assumption; try lia.
           ++ intros c m Hin Hm. apply in_app_or in Hin. destruct Hin as [Hin|[Heq|[]]]; [eapply I1; eauto|].
              inversion Heq. subst. exact Hc.
           ++ intros; exact Hc.
           ++ intros; exact Hc.
           ++ intros r' Hin. apply in_app_or in Hin. destruct Hin as [Hin|[<-|[]]].
              ** destruct (I6 r' Hin) as (c & Hc'). exists c. apply in_or_app. left. exact Hc'.
              ** exists (w_conn w). apply in_or_app. right. left. reflexivity.
        -- repeat split; cbn; try assumption; try discriminate; try lia.
      * split; [|split; [|split; [|split; [|split; [|split]]]]]; cbn; try assumption; try lia.
        -- intros _ Ho. apply I2; first [assumption|reflexivity].
        -- intros _ Ho. apply I2; first [assumption|reflexivity].
    + (* serving *)
      destruct (w_queue w) as [|r q'] eqn:Eq; [exact Hall|].
      destruct (w_open w) eqn:Eo.
      * assert (Hc : In (w_conn w) (sm_completed w)) by (apply I3; first [assumption|reflexivity]).
        split; [|split; [|split; [|split; [|split; [|split]]]]]; cbn; try assumption.
        -- intros c m Hin Hm. apply in_app_or in Hin. destruct Hin as [Hin|[Heq|[]]]; [eapply I1; eauto|].
           inversion Heq. subst. exact Hc.
        -- intros r' Hin. apply in_app_or in Hin. destruct Hin as [Hin|[<-|[]]].
           ++ destruct (I6 r' Hin) as (c & Hc'). exists c. apply in_or_app. left. exact Hc'.
           ++ exists (w_conn w). apply in_or_app. right. left. reflexivity.
      * repeat split; cbn; try assumption; try discriminate.
  - (* sender stop *)
    destruct (w_phase w) eqn:Ep; try (exact Hall).
    destruct (w_stop w); [|exact Hall]. repeat split; cbn; try assumption; try discriminate.
  - (* sender time-out *)
    destruct (w_phase w) eqn:Ep; try (exact Hall).
    repeat split; cbn; try assumption; try discriminate.
  - (* teardown *)
    destruct (w_phase w) eqn:Ep; try (exact Hall).
    all: destruct (w_tear w =? 0) eqn:E0; [apply Z.eqb_eq in E0; repeat split; cbn; try assumption; try (rewrite Ep in *; assumption); try lia|].
    all: destruct (w_tear w =? 1) eqn:E1; [repeat split; cbn; try assumption; try discriminate; try reflexivity|].
    all: destruct (w_tear w =? 2) eqn:E2;
      [apply Z.eqb_eq in E2; assert (Hcl : w_open w = false) by (apply I5; lia);
       repeat split; cbn; try assumption; try (intros; congruence); try (apply bump_nonneg; assumption)
      |exact Hall].
  - (* peer closes *)
    repeat split; cbn; try assumption; try discriminate.
Qed.

Lemma SInv_run : forall acts w, SInv w -> SInv (sm_run_from w acts).
Proof.
  induction acts as [|a acts IH]; intros w H; [exact H|]. cbn. apply IH, SInv_step, H.
Qed.

Theorem sm_gated : forall (acts : list act),
  let w := sm_run acts in
  forall c m, In (c, m) (sm_written w) -> sm_is_handshake m = false -> In c (sm_completed w).
Proof. intros acts w. apply (SInv_run acts sm_init SInv_init). Qed.

Theorem sm_sent_means_written : forall (acts : list act),
  let w := sm_run acts in
  forall r, In r (sm_acked w) -> exists c, In (c, sm_req_msg r) (sm_written w).
Proof. intros acts w. apply (SInv_run acts sm_init SInv_init). Qed.

(* the scenario runner only takes steps of the transition system *)
Lemma settle_reach fuel : forall w, exists acts, settle fuel w = sm_run_from w acts.
Proof.
  induction fuel as [|f IH]; intros w; [exists []; reflexivity|]. cbn [settle].
  set (w1 := sm_step w ASender).
  destruct (w_phase w1) eqn:Ep; try (destruct (IH w1) as (acts & ->); exists (ASender :: acts); reflexivity).
  destruct (w_queue w1) eqn:Eq.
  - destruct (IH (sm_step w1 ASenderStop)) as (acts & ->). exists (ASender :: ASenderStop :: acts). reflexivity.
  - destruct (IH w1) as (acts & ->). exists (ASender :: acts). reflexivity.
Qed.

(* the same, with "completed" taken at the moment of the write *)
Definition WInv (w : smw) : Prop :=
  Forall2 (fun e b => sm_is_handshake (snd e) = false -> b = true) (sm_written w) (sm_wdone w).

Lemma existsb_in c l : In c l -> existsb (Z.eqb c) l = true.
Proof. intros H. apply existsb_exists. exists c. split; [exact H|apply Z.eqb_refl]. Qed.

Lemma WInv_step w a : SInv w -> WInv w -> WInv (sm_step w a).
Proof.
  intros (I1 & I2 & I3 & I4 & I5 & I6 & I7) HW. unfold WInv in *.
  destruct a as [| |r| | | | |]; cbn [sm_step].
  - destruct (match w_phase w with SNone => true | SExited => w_tear w =? 3 | _ => false end); exact HW.
  - destruct (w_phase w); try exact HW; destruct (w_open w); exact HW.
  - destruct (negb (w_hs w) && rq_hs r) eqn:Ed; [|exact HW].
    apply andb_true_iff in Ed. destruct Ed as [_ Ehs].
    destruct (w_open w); [|exact HW]. cbn. apply Forall2_app; [exact HW|].
    constructor; [|constructor]. cbn. unfold sm_is_handshake. congruence.
  - destruct (w_phase w) eqn:Ep; try exact HW.
    + destruct (0 <? w_tok w) eqn:Et; [|exact HW]. apply Z.ltb_lt in Et.
      destruct (w_first w) as [r|]; [|exact HW].
      destruct (w_open w) eqn:Eo; [|exact HW]. cbn. apply Forall2_app; [exact HW|].
      constructor; [|constructor]. intros _. apply existsb_in. apply I2; first [assumption|reflexivity].
    + destruct (w_queue w) as [|r q']; [exact HW|].
      destruct (w_open w) eqn:Eo; [|exact HW]. cbn. apply Forall2_app; [exact HW|].
      constructor; [|constructor]. intros _. apply existsb_in. apply I3; first [assumption|reflexivity].
  - destruct (w_phase w); try exact HW. destruct (w_stop w); exact HW.
  - destruct (w_phase w); exact HW.
  - destruct (w_phase w); try exact HW;
      (destruct (w_tear w =? 0); [exact HW|]); (destruct (w_tear w =? 1); [exact HW|]);
      (destruct (w_tear w =? 2); exact HW).
  - exact HW.
Qed.

Lemma WInv_run : forall acts w, SInv w -> WInv w -> WInv (sm_run_from w acts).
Proof.
  induction acts as [|a acts IH]; intros w H HW; [exact HW|]. cbn.
  apply IH; [apply SInv_step, H|apply WInv_step; assumption].
Qed.

Theorem sm_gated_at_write : forall (acts : list act),
  let w := sm_run acts in
  Forall2 (fun e b => sm_is_handshake (snd e) = false -> b = true) (sm_written w) (sm_wdone w).
Proof. intros acts w. apply (WInv_run acts sm_init SInv_init). constructor. Qed.
