(* Proofs for the shutdown protocol (C19), over ALL interleavings (lists of actions) of model/Shutdown.v.
   Part 1: the safety invariant (handlers silent after stopped, save after every mutator ended). *)
From V.lib Require Import Base.
From V.model Require Import Shutdown.

Section Proofs.
Variable cap : Z.
Variable ucfg : bool.
Variable daf : bool.

Notation step := (Shutdown.step cap ucfg daf true true).
Notation apply := (Shutdown.apply cap ucfg daf true true).
Notation run_from := (Shutdown.run_from cap ucfg daf true true).
Notation run := (Shutdown.run cap ucfg daf true true).
Notation prompt_from := (Shutdown.prompt_from cap ucfg daf true true).
Notation prompt := (Shutdown.prompt cap ucfg daf true true).
Notation step_thread := (Shutdown.step_thread cap daf true true).
Notation work_step := (Shutdown.work_step daf true true).
Notation fail_exit := (Shutdown.fail_exit true).
Notation step_run := (Shutdown.step_run ucfg).
Notation connect := (Shutdown.connect ucfg).

Definition live (s : tstate) : Z := match s with TLive _ _ => 1 | _ => 0 end.

Definition all_dead (T : threads) : Prop :=
  busy (t_mi T) = false /\ busy (t_rt T) = false /\ busy (t_so T) = false /\ busy (t_pb T) = false /\
  busy (t_pu T) = false /\ busy (t_cd T) = false /\ busy (t_mu T) = false /\ busy (t_un T) = false.

Definition idle_pc (p : rpc) : bool :=
  match p with RLoop | RConnect | RSave | RDecide | RExit | RDone => true | _ => false end.
Definition indone_pc (p : rpc) : bool :=
  match p with RCloseOut | RCloseTx | RWaitProc => true | _ => false end.
Definition saved_pc (p : rpc) : bool :=
  match p with RLoop | RConnect | RDecide | RExit | RDone => true | _ => false end.

Record Inv (w : sw) : Prop := {
  inv_in : n_in (w_cnt w) = live (t_mi (w_thr w)) + live (t_cd (w_thr w)) + live (t_mu (w_thr w));
  inv_proc : n_proc (w_cnt w) = live (t_rt (w_thr w)) + live (t_so (w_thr w)) + live (t_pb (w_thr w)) + live (t_pu (w_thr w));
  inv_un : n_un (w_cnt w) = live (t_un (w_thr w));
  inv_ov : d_overlap (w_dat w) = false;
  inv_idle : idle_pc (pc_of w) = true -> all_dead (w_thr w);
  inv_indone : indone_pc (pc_of w) = true ->
               busy (t_mi (w_thr w)) = false /\ busy (t_cd (w_thr w)) = false /\
               busy (t_mu (w_thr w)) = false /\ busy (t_un (w_thr w)) = false;
  inv_unmu : (busy (t_mu (w_thr w)) = false \/ t_mu (w_thr w) = TSpawned) -> busy (t_un (w_thr w)) = false;
  inv_stopped : stopped w = true <-> pc_of w = RDone;
  inv_disk : saved_pc (pc_of w) = true -> d_disk (w_dat w) = d_mem (w_dat w);
  inv_late : d_late (w_dat w) = false
}.

Lemma Inv_init : Inv sw_init.
Proof.
  constructor; cbn; try reflexivity; try (intros; repeat split; reflexivity).
  split; discriminate.
Qed.

Ltac inv_destruct H :=
  destruct H as [Hin Hproc Hun Hov Hidle Hindone Hunmu Hstopped Hdisk Hlate].

(* changes that the invariant does not look at *)
Lemma inv_ctl w c : c_pc c = pc_of w -> c_stopped c = stopped w -> Inv w -> Inv (set_ctl w c).
Proof.
  intros Hp Hs H. inv_destruct H. unfold pc_of, stopped in *.
  constructor; cbn; try assumption; unfold pc_of, stopped; cbn; rewrite ?Hp, ?Hs; assumption.
Qed.

Lemma inv_set_stopping w b : Inv w -> Inv (set_stopping w b).
Proof. intros H. apply inv_ctl; [reflexivity|reflexivity|exact H]. Qed.
Lemma inv_set_needs w b : Inv w -> Inv (set_needs w b).
Proof. intros H. apply inv_ctl; [reflexivity|reflexivity|exact H]. Qed.
Lemma inv_set_hard w b : Inv w -> Inv (set_hard w b).
Proof. intros H. apply inv_ctl; [reflexivity|reflexivity|exact H]. Qed.
Lemma inv_set_call w n : Inv w -> Inv (set_call w n).
Proof. intros H. apply inv_ctl; [reflexivity|reflexivity|exact H]. Qed.
Lemma inv_set_conn w c : Inv w -> Inv (set_conn w c).
Proof. intros H. inv_destruct H. constructor; assumption. Qed.
Lemma inv_set_inbox w n : Inv w -> Inv (set_inbox w n).
Proof. intros H. inv_destruct H. constructor; assumption. Qed.
Lemma inv_set_ch w c : Inv w -> Inv (set_ch w c).
Proof. intros H. inv_destruct H. constructor; assumption. Qed.
Lemma inv_set_ch_len w c n : Inv w -> Inv (set_ch_len w c n).
Proof. intros H. destruct c; apply inv_set_ch; exact H. Qed.
Lemma inv_set_ch_open w c b : Inv w -> Inv (set_ch_open w c b).
Proof. intros H. destruct c; apply inv_set_ch; exact H. Qed.
Lemma inv_set_ustop w b : Inv w -> Inv (set_ustop w b).
Proof. intros H. inv_destruct H. constructor; assumption. Qed.
Lemma inv_set_pufail w : Inv w -> Inv (set_pufail w).
Proof. intros H. inv_destruct H. constructor; assumption. Qed.

Lemma inv_request_stop w : Inv w -> Inv (request_stop w).
Proof. intros H. unfold request_stop. destruct (stopped w || stopping w); [exact H|apply inv_set_stopping, H]. Qed.
Lemma inv_restart w : Inv w -> Inv (restart w).
Proof.
  intros H. unfold restart. destruct (stopping w); [exact H|]. apply inv_set_stopping, inv_set_needs, H.
Qed.

Lemma thread_request_stop w t : thread (request_stop w) t = thread w t.
Proof. unfold request_stop. destruct (stopped w || stopping w); reflexivity. Qed.
Lemma thread_restart w t : thread (restart w) t = thread w t.
Proof. unfold restart. destruct (stopping w); reflexivity. Qed.

Lemma thr_request_stop w : w_thr (request_stop w) = w_thr w.
Proof. unfold request_stop. destruct (stopped w || stopping w); reflexivity. Qed.
Lemma thr_restart w : w_thr (restart w) = w_thr w.
Proof. unfold restart. destruct (stopping w); reflexivity. Qed.

Lemma busy_live s : live s = 1 -> busy s = true.
Proof. destruct s; cbn; congruence. Qed.

(* a registered thread moves to another program point *)
Lemma inv_set_live w t p f p' f' : Inv w -> thread w t = TLive p f -> Inv (set_thread w t (TLive p' f')).
Proof.
  intros H Et. inv_destruct H. unfold thread in Et.
  destruct t; cbn in Et; constructor; cbn; rewrite ?Et in *; cbn in *; try assumption.
  all: try (intros Hi; specialize (Hidle Hi); unfold all_dead in *; cbn in *; rewrite ?Et in *; cbn in *; intuition discriminate).
  all: try (intros Hi; specialize (Hindone Hi); cbn in *; rewrite ?Et in *; cbn in *; intuition discriminate).
  all: try (intros [Hb|Hb]; discriminate).
  all: try (intros Hb; discriminate).
Qed.

(* a registered thread returns *)
Lemma inv_exit w t p f :
  Inv w -> thread w t = TLive p f -> (t = MU -> busy (t_un (w_thr w)) = false) -> Inv (exit_thread w t).
Proof.
  intros H Et Hmu. inv_destruct H. unfold thread in Et.
  destruct t; cbn in Et; constructor; cbn; rewrite ?Et in *; cbn in *; try lia; try assumption.
  all: try (intros Hi; specialize (Hidle Hi); unfold all_dead in *; cbn in *; rewrite ?Et in *; cbn in *; intuition discriminate).
  all: try (intros Hi; specialize (Hindone Hi); cbn in *; rewrite ?Et in *; cbn in *; intuition discriminate).
  all: try (intros _; apply Hmu; reflexivity).
  all: try reflexivity.
Qed.

Lemma inv_register w t : Inv w -> thread w t = TSpawned -> Inv (register w t).
Proof.
  intros H Et. inv_destruct H. unfold thread in Et.
  destruct t; cbn in Et; constructor; cbn; rewrite ?Et in *; cbn in *; try lia; try assumption.
  all: try (intros Hi; specialize (Hidle Hi); unfold all_dead in *; cbn in *; rewrite ?Et in *; cbn in *; intuition discriminate).
  all: try (intros Hi; specialize (Hindone Hi); cbn in *; rewrite ?Et in *; cbn in *; intuition discriminate).
  all: try (intros [Hb|Hb]; discriminate).
  all: try (intros Hb; apply Hunmu in Hb; discriminate).
Qed.

Lemma live_not_idle w t p f : Inv w -> t <> AP -> thread w t = TLive p f -> idle_pc (pc_of w) = false.
Proof.
  intros H Hap Et. destruct (idle_pc (pc_of w)) eqn:Ei; [|reflexivity].
  apply (inv_idle w H) in Ei. unfold all_dead, thread in *.
  destruct t; try congruence; cbn in Et; rewrite Et in Ei; cbn in Ei; intuition discriminate.
Qed.

Lemma idle_saved p : saved_pc p = true -> idle_pc p = true.
Proof. destruct p; cbn; congruence. Qed.

Lemma inv_callback w t p f : Inv w -> t <> AP -> thread w t = TLive p f -> Inv (callback w t).
Proof.
  intros H Hap Et. pose proof (live_not_idle w t p f H Hap Et) as Hni. inv_destruct H.
  unfold callback, set_dat. constructor; cbn; try assumption.
  - intros Hs. apply idle_saved in Hs. unfold pc_of in *. cbn in Hs. congruence.
  - rewrite Hlate. cbn. destruct (can_call t); [|reflexivity]. cbn.
    destruct (stopped w) eqn:Es; [|reflexivity]. destruct Hstopped as [Hst _]. specialize (Hst eq_refl).
    unfold pc_of in *. rewrite Hst in Hni. discriminate.
Qed.

Lemma thread_callback w t t' : thread (callback w t) t' = thread w t'.
Proof. reflexivity. Qed.

Lemma inv_spawn_un w p f : Inv w -> thread w MU = TLive p f -> Inv (spawn_un w).
Proof.
  intros H Et. unfold spawn_un. unfold thread in *. cbn in Et.
  destruct (tget (w_thr w) UN) eqn:Eu; try exact H; cbn in Eu.
  all: apply inv_set_ustop; inv_destruct H; constructor; cbn; rewrite ?Et, ?Eu in *; cbn in *; try assumption.
  all: try (intros Hi; specialize (Hidle Hi); unfold all_dead in *; cbn in *; rewrite ?Et in *; cbn in *; intuition discriminate).
  all: try (intros Hi; specialize (Hindone Hi); cbn in *; rewrite ?Et in *; cbn in *; intuition discriminate).
  all: try (intros [Hb|Hb]; discriminate).
Qed.


Lemma live_nonneg s : 0 <= live s <= 1.
Proof. destruct s; cbn; lia. Qed.

Lemma dead_of s : live s = 0 -> spawned s = false -> busy s = false.
Proof. destruct s; cbn; congruence. Qed.

Lemma inv_set_pc w p' :
  Inv w ->
  (idle_pc p' = true -> all_dead (w_thr w)) ->
  (indone_pc p' = true -> busy (t_mi (w_thr w)) = false /\ busy (t_cd (w_thr w)) = false /\
                          busy (t_mu (w_thr w)) = false /\ busy (t_un (w_thr w)) = false) ->
  (stopped w = true <-> p' = RDone) ->
  (saved_pc p' = true -> d_disk (w_dat w) = d_mem (w_dat w)) ->
  Inv (set_pc w p').
Proof.
  intros H H1 H2 H3 H4. inv_destruct H. constructor; cbn; assumption.
Qed.

Lemma live_dead s : busy s = false -> live s = 0.
Proof. destruct s; cbn; congruence. Qed.

Lemma all_dead_counts w : Inv w -> all_dead (w_thr w) -> n_in (w_cnt w) = 0 /\ n_proc (w_cnt w) = 0 /\ n_un (w_cnt w) = 0.
Proof.
  intros H (D1 & D2 & D3 & D4 & D5 & D6 & D7 & D8). inv_destruct H.
  rewrite Hin, Hproc, Hun.
  rewrite (live_dead _ D1), (live_dead _ D2), (live_dead _ D3), (live_dead _ D4), (live_dead _ D5),
    (live_dead _ D6), (live_dead _ D7), (live_dead _ D8). repeat split; reflexivity.
Qed.

Lemma not_stopped_of_pc w : Inv w -> pc_of w <> RDone -> stopped w = false.
Proof.
  intros H Hp. destruct (stopped w) eqn:Es; [|reflexivity]. apply (inv_stopped w H) in Es. contradiction.
Qed.

Lemma Inv_step_run w ok w' : Inv w -> prompt_ok w (ARun ok) = true -> step_run w ok = Some w' -> Inv w'.
Proof.
  intros H Hp E. unfold Shutdown.step_run in E. unfold prompt_ok in Hp.
  destruct (pc_of w) eqn:Ep.
  - (* RLoop *)
    injection E as <-. assert (Hd : all_dead (w_thr w)) by (apply (inv_idle w H); rewrite Ep; reflexivity).
    assert (Hs : stopped w = false) by (apply not_stopped_of_pc; [exact H|congruence]).
    assert (Hk : d_disk (w_dat w) = d_mem (w_dat w)) by (apply (inv_disk w H); rewrite Ep; reflexivity).
    apply inv_set_pc; try assumption; destruct (stopping w); cbn; try discriminate; auto.
    all: rewrite Hs; split; discriminate.
  - (* RConnect *)
    injection E as <-. assert (Hd : all_dead (w_thr w)) by (apply (inv_idle w H); rewrite Ep; reflexivity).
    assert (Hs : stopped w = false) by (apply not_stopped_of_pc; [exact H|congruence]).
    assert (Hk : d_disk (w_dat w) = d_mem (w_dat w)) by (apply (inv_disk w H); rewrite Ep; reflexivity).
    destruct ok.
    + destruct (all_dead_counts w H Hd) as (C1 & C2 & C3).
      destruct Hd as (D1 & D2 & D3 & D4 & D5 & D6 & D7 & D8). inv_destruct H.
      unfold Shutdown.connect. constructor; cbn; try discriminate.
      * rewrite C1. destruct ucfg; cbn; [reflexivity|]. destruct (t_mu (w_thr w)); cbn in *; try discriminate; reflexivity.
      * exact C2.
      * exact Hun.
      * rewrite Hov, D1, D2, D3, D4, D5, D6, D7. cbn. destruct ucfg; reflexivity.
      * intros _. exact D8.
      * unfold stopped in *. rewrite Hs. split; discriminate.
      * rewrite Hlate. unfold stopped in Hs. rewrite Hs. reflexivity.
    + apply inv_set_pc; try assumption; cbn; try discriminate; auto. rewrite Hs; split; discriminate.
  - (* RWaitStop *)
    destruct (stopping w); [|discriminate]. injection E as <-.
    assert (Hs : stopped w = false) by (apply not_stopped_of_pc; [exact H|congruence]).
    apply inv_set_pc; try assumption; cbn; try discriminate. rewrite Hs; split; discriminate.
  - (* RCloseConn *)
    injection E as <-.
    assert (Hs : stopped w = false) by (apply not_stopped_of_pc; [exact H|congruence]).
    apply inv_set_pc; [apply inv_set_conn, H| | | |]; cbn; try discriminate. unfold stopped in *; cbn. rewrite Hs; split; discriminate.
  - (* RWaitIn *)
    destruct (n_in (w_cnt w) =? 0) eqn:En; [|discriminate]. injection E as <-. apply Z.eqb_eq in En.
    cbn in Hp. unfold no_spawned_incoming, thread in Hp. cbn in Hp.
    assert (Hs : stopped w = false) by (apply not_stopped_of_pc; [exact H|congruence]).
    pose proof (inv_in w H) as Hin. pose proof (inv_unmu w H) as Hunmu.
    pose proof (live_nonneg (t_mi (w_thr w))). pose proof (live_nonneg (t_cd (w_thr w))). pose proof (live_nonneg (t_mu (w_thr w))).
    apply negb_true_iff in Hp. apply orb_false_iff in Hp. destruct Hp as [Hp P3]. apply orb_false_iff in Hp. destruct Hp as [P1 P2].
    assert (B1 : busy (t_mi (w_thr w)) = false) by (apply dead_of; [lia|exact P1]).
    assert (B2 : busy (t_cd (w_thr w)) = false) by (apply dead_of; [lia|exact P2]).
    assert (B3 : busy (t_mu (w_thr w)) = false) by (apply dead_of; [lia|exact P3]).
    apply inv_set_pc; try assumption; cbn; try discriminate.
    + intros _. repeat split; auto.
    + rewrite Hs; split; discriminate.
  - (* RCloseOut *)
    destruct (ch_locked w COut); [discriminate|]. injection E as <-.
    assert (Hs : stopped w = false) by (apply not_stopped_of_pc; [exact H|congruence]).
    pose proof (inv_indone w H) as Hi. rewrite Ep in Hi. specialize (Hi eq_refl).
    apply inv_set_pc; [apply inv_set_ch, H| | | |]; cbn; try discriminate.
    + intros _. exact Hi.
    + unfold stopped in *; cbn. rewrite Hs; split; discriminate.
  - (* RCloseTx *)
    destruct (ch_locked w CTx); [discriminate|]. injection E as <-.
    assert (Hs : stopped w = false) by (apply not_stopped_of_pc; [exact H|congruence]).
    pose proof (inv_indone w H) as Hi. rewrite Ep in Hi. specialize (Hi eq_refl).
    apply inv_set_pc; [apply inv_set_ch, H| | | |]; cbn; try discriminate.
    + intros _. exact Hi.
    + unfold stopped in *; cbn. rewrite Hs; split; discriminate.
  - (* RWaitProc *)
    destruct (n_proc (w_cnt w) =? 0) eqn:En; [|discriminate]. injection E as <-. apply Z.eqb_eq in En.
    cbn in Hp. unfold no_spawned_processing, thread in Hp. cbn in Hp.
    assert (Hs : stopped w = false) by (apply not_stopped_of_pc; [exact H|congruence]).
    pose proof (inv_proc w H) as Hpr.
    pose proof (inv_indone w H) as Hi. rewrite Ep in Hi. specialize (Hi eq_refl). destruct Hi as (I1 & I2 & I3 & I4).
    pose proof (live_nonneg (t_rt (w_thr w))). pose proof (live_nonneg (t_so (w_thr w))).
    pose proof (live_nonneg (t_pb (w_thr w))). pose proof (live_nonneg (t_pu (w_thr w))).
    apply negb_true_iff in Hp. apply orb_false_iff in Hp. destruct Hp as [Hp P4]. apply orb_false_iff in Hp. destruct Hp as [Hp P3].
    apply orb_false_iff in Hp. destruct Hp as [P1 P2].
    apply inv_set_pc; try assumption; cbn; try discriminate.
    + intros _. repeat split; auto; apply dead_of; auto; lia.
    + rewrite Hs; split; discriminate.
  - (* RSave *)
    destruct (d_rlock (w_dat w)); [discriminate|]. injection E as <-.
    assert (Hs : stopped w = false) by (apply not_stopped_of_pc; [exact H|congruence]).
    assert (Hd : all_dead (w_thr w)) by (apply (inv_idle w H); rewrite Ep; reflexivity).
    inv_destruct H. constructor; cbn; try assumption; try discriminate; try reflexivity.
    + intros _. exact Hd.
    + unfold stopped in *. cbn. rewrite Hs. split; discriminate.
  - (* RDecide *)
    injection E as <-.
    assert (Hs : stopped w = false) by (apply not_stopped_of_pc; [exact H|congruence]).
    assert (Hd : all_dead (w_thr w)) by (apply (inv_idle w H); rewrite Ep; reflexivity).
    assert (Hk : d_disk (w_dat w) = d_mem (w_dat w)) by (apply (inv_disk w H); rewrite Ep; reflexivity).
    destruct (negb (needs w) || hard w).
    + apply inv_set_pc; try assumption; cbn; try discriminate; auto. rewrite Hs; split; discriminate.
    + apply inv_set_pc; [apply inv_set_stopping, inv_set_needs, H| | | |]; cbn; try discriminate; auto.
      unfold stopped in *; cbn. rewrite Hs; split; discriminate.
  - (* RExit *)
    injection E as <-.
    assert (Hd : all_dead (w_thr w)) by (apply (inv_idle w H); rewrite Ep; reflexivity).
    assert (Hk : d_disk (w_dat w) = d_mem (w_dat w)) by (apply (inv_disk w H); rewrite Ep; reflexivity).
    inv_destruct H. constructor; cbn; try assumption; try discriminate; auto.
    unfold stopped; cbn. split; reflexivity.
  - discriminate.
Qed.


(* side conditions "this thread is still the registered one" after changes that do not touch the threads *)
Ltac thr :=
  unfold set_pufail, set_ch_len, callback, set_ustop, set_inbox;
  rewrite ?thread_restart, ?thread_request_stop;
  try match goal with |- context [match ?c with COut => _ | CTx => _ end] => destruct c end;
  unfold thread in *; cbn; rewrite ?thr_restart, ?thr_request_stop; cbn; eassumption.

Lemma inv_set_ap w s : Inv w -> Inv (set_thread w AP s).
Proof. intros H. inv_destruct H. constructor; assumption. Qed.

Lemma inv_after_add w t p f f' ok : Inv w -> thread w t = TLive p f -> Inv (after_add w t f' ok).
Proof.
  intros H Et. unfold after_add.
  destruct t, ok; try (eapply inv_set_live; eassumption); try (apply inv_set_ap; exact H).
  eapply inv_exit; [exact H|eassumption|discriminate].
Qed.

Lemma inv_end_body w t p f : Inv w -> thread w t = TLive p f -> Inv (end_body w t).
Proof. intros H Et. unfold end_body. eapply inv_set_live; eassumption. Qed.

Lemma inv_fail_exit w t p f : Inv w -> thread w t = TLive p f -> Inv (fail_exit w t).
Proof.
  intros H Et. unfold Shutdown.fail_exit.
  destruct t; try (eapply inv_end_body; eassumption).
  - eapply inv_exit; [apply inv_request_stop, H|thr|discriminate].
  - eapply inv_exit; [apply inv_restart, H|thr|discriminate].
  - eapply inv_exit; [exact H|eassumption|discriminate].
  - eapply inv_exit; [apply inv_restart, H|thr|discriminate].
  - eapply inv_exit; [exact H|eassumption|discriminate].
Qed.

Lemma inv_work_step w t p f k w' : Inv w -> thread w t = TLive p f -> work_step w t f k = Some w' -> Inv w'.
Proof.
  intros H Et E. unfold Shutdown.work_step in E.
  assert (Hprod : forall w'', match k, f with
      | KFail, _ => Some (fail_exit w t)
      | KCall, S f' => Some (set_thread (callback w t) t (TLive PWork f'))
      | KOut, S f' => if uses_out t then Some (set_thread w t (TLive PQOut f')) else Some (end_body w t)
      | KTx, S f' => if uses_tx t then Some (set_thread w t (TLive (PLock CTx) f')) else Some (end_body w t)
      | KSpawn, S f' => match t with
                        | MU => Some (spawn_un (set_thread w MU (TLive PWork f')))
                        | _ => Some (end_body w t)
                        end
      | _, _ => Some (end_body w t)
      end = Some w'' -> t <> AP -> Inv w'').
  { intros w'' E' Hap. destruct k, f as [|f']; try (injection E' as <-; eapply inv_end_body; eassumption).
    - injection E' as <-. eapply inv_set_live; [eapply inv_callback; eassumption|thr].
    - destruct (uses_out t); injection E' as <-; [eapply inv_set_live; eassumption|eapply inv_end_body; eassumption].
    - destruct (uses_tx t); injection E' as <-; [eapply inv_set_live; eassumption|eapply inv_end_body; eassumption].
    - destruct t; injection E' as <-; try (eapply inv_end_body; eassumption).
      eapply inv_spawn_un; [eapply inv_set_live; eassumption|]. unfold thread. cbn. reflexivity.
    - injection E' as <-. eapply inv_fail_exit; eassumption.
    - injection E' as <-. eapply inv_fail_exit; eassumption. }
  destruct t; try (apply Hprod; [exact E|discriminate]).
  - (* SO *) injection E as <-. destruct k; (eapply inv_set_live; [first [apply inv_restart, H|exact H]|thr]).
  - (* PU *)
    destruct k; destruct (d_pufail (w_dat w)); try destruct daf; injection E as <-;
      first [ eapply inv_exit; [apply inv_set_pufail, inv_request_stop, H|thr|discriminate]
            | eapply inv_set_live; [apply inv_set_pufail, inv_request_stop, H|thr]
            | eapply inv_set_live; [eapply inv_callback; [eassumption|discriminate|eassumption]|thr]
            | eapply inv_set_live; eassumption ].
  - discriminate.
Qed.

Lemma inv_consume w t c p f w' : Inv w -> thread w t = TLive p f -> t <> MU -> consume w t c = Some w' -> Inv w'.
Proof.
  intros H Et Hm E. unfold consume in E.
  destruct (0 <? ch_len w c).
  - injection E as <-. eapply inv_set_live; [apply inv_set_ch_len, H|thr].
  - destruct (ch_open w c); [discriminate|]. injection E as <-. eapply inv_exit; [exact H|eassumption|intros; contradiction].
Qed.

Lemma inv_top_step w t p f n w' : Inv w -> thread w t = TLive p f -> top_step w t n = Some w' -> Inv w'.
Proof.
  intros H Et E. unfold top_step in E.
  destruct t.
  - injection E as <-. destruct (stopping w); [eapply inv_exit; [exact H|eassumption|discriminate]|].
    destruct (w_conn w); first [eapply inv_exit; [exact H|eassumption|discriminate]|eapply inv_set_live; eassumption].
  - injection E as <-. destruct (stopping w); [eapply inv_exit; [exact H|eassumption|discriminate]|eapply inv_set_live; eassumption].
  - eapply inv_consume; [exact H|eassumption|discriminate|exact E].
  - injection E as <-. destruct (stopping w); [eapply inv_exit; [exact H|eassumption|discriminate]|eapply inv_set_live; eassumption].
  - eapply inv_consume; [exact H|eassumption|discriminate|exact E].
  - injection E as <-. destruct (stopping w); [eapply inv_exit; [exact H|eassumption|discriminate]|eapply inv_set_live; eassumption].
  - injection E as <-. destruct (stopping w); eapply inv_set_live; eassumption.
  - destruct (w_ustop w); [|discriminate]. injection E as <-. eapply inv_exit; [exact H|eassumption|discriminate].
  - discriminate.
Qed.

Lemma inv_read_step w p f w' : Inv w -> thread w MI = TLive p f -> read_step w = Some w' -> Inv w'.
Proof.
  intros H Et E. unfold read_step in E.
  destruct (w_conn w).
  - injection E as <-. eapply inv_exit; [apply inv_restart, H|thr|discriminate].
  - destruct (0 <? w_inbox w); [|discriminate]. injection E as <-. eapply inv_set_live; [apply inv_set_inbox, H|thr].
  - destruct (0 <? w_inbox w); injection E as <-.
    + eapply inv_set_live; [apply inv_set_inbox, H|thr].
    + eapply inv_exit; [apply inv_restart, H|thr|discriminate].
Qed.

Lemma Inv_step_thread w t k n w' :
  Inv w -> prompt_ok w (AStep t k n) = true -> step_thread w t k n = Some w' -> Inv w'.
Proof.
  intros H Hp E. unfold Shutdown.step_thread in E.
  destruct (thread w t) as [| |p f|] eqn:Et; try discriminate.
  destruct p.
  - eapply inv_top_step; eassumption.
  - destruct t; try discriminate. eapply inv_read_step; eassumption.
  - injection E as <-. destruct (stopping w); eapply inv_set_live; eassumption.
  - eapply inv_work_step; eassumption.
  - injection E as <-. destruct (stopping w); [eapply inv_after_add; eassumption|eapply inv_set_live; eassumption].
  - destruct (ch_locked w c); [discriminate|]. destruct (ch_open w c); injection E as <-;
      [eapply inv_set_live; eassumption|eapply inv_after_add; eassumption].
  - destruct (ch_len w c <? cap); [|discriminate]. injection E as <-.
    eapply inv_after_add; [apply inv_set_ch_len, H|thr].
  - injection E as <-. eapply inv_set_live; [apply inv_set_ustop, H|thr].
  - destruct (n_un (w_cnt w) =? 0) eqn:En; [|discriminate]. injection E as <-. apply Z.eqb_eq in En.
    eapply inv_exit; [exact H|eassumption|]. intros ->.
    unfold prompt_ok in Hp. rewrite Et in Hp. rewrite En in Hp. cbn in Hp. apply negb_true_iff in Hp.
    apply dead_of; [|exact Hp]. rewrite <- (inv_un w H). exact En.
Qed.

Lemma Inv_step w a : Inv w -> prompt_ok w a = true -> Inv (apply w a).
Proof.
  intros H Hp. unfold Shutdown.apply. destruct (step w a) as [w'|] eqn:E; [|exact H].
  destruct a; cbn in E.
  - eapply Inv_step_run; eassumption.
  - destruct (stopped w); [discriminate|]. destruct (stopcall w =? 0); [|discriminate]. injection E as <-.
    apply inv_set_call, inv_set_hard, H.
  - destruct (stopcall w =? 1); [|discriminate]. injection E as <-. apply inv_set_call, inv_request_stop, H.
  - destruct (w_conn w); try discriminate. injection E as <-. apply inv_set_inbox, H.
  - destruct (w_conn w); try discriminate. injection E as <-. apply inv_set_conn, H.
  - unfold thread in E. cbn in E. destruct (t_un (w_thr w)) as [| |p f|] eqn:Et; try discriminate. destruct p; try discriminate.
    destruct (w_ustop w); [discriminate|]. injection E as <-. eapply inv_set_live; [exact H|]. unfold thread. cbn. exact Et.
  - unfold thread in E. cbn in E. destruct (t_ap (w_thr w)); try discriminate. injection E as <-. apply inv_set_ap, H.
  - unfold thread in E. destruct t; cbn in E; try discriminate;
      match type of E with match ?x with _ => _ end = _ => destruct x eqn:Et end; try discriminate;
      injection E as <-; (apply inv_register; [exact H|exact Et]).
  - eapply Inv_step_thread; eassumption.
Qed.

Lemma Inv_run : forall acts w, Inv w -> prompt_from w acts = true -> Inv (run_from w acts).
Proof.
  induction acts as [|a acts IH]; intros w H Hp; [exact H|].
  cbn in Hp. apply andb_true_iff in Hp. destruct Hp as [Hp1 Hp2]. cbn. apply IH; [apply Inv_step; assumption|exact Hp2].
Qed.

Lemma Inv_reachable acts : prompt acts = true -> Inv (run acts).
Proof. intros Hp. apply Inv_run; [apply Inv_init|exact Hp]. Qed.

(* ---- the safety theorems ---- *)

(* stopped_silent: once stopped = true, Run has returned, no goroutine exists in any state (so none
   that could invoke a handler), and no handler invocation has happened while stopped was true *)
Theorem stopped_silent : forall acts,
  prompt acts = true ->
  let w := run acts in
  stopped w = true ->
  pc_of w = RDone /\ all_dead (w_thr w) /\ d_late (w_dat w) = false.
Proof.
  intros acts Hp w Hs. pose proof (Inv_reachable acts Hp) as H. fold w in H.
  assert (Hpc : pc_of w = RDone) by (apply (inv_stopped w H); exact Hs).
  split; [exact Hpc|]. split; [|apply (inv_late w H)].
  apply (inv_idle w H). rewrite Hpc. reflexivity.
Qed.

Theorem never_late : forall acts, prompt acts = true -> d_late (w_dat (run acts)) = false.
Proof. intros acts Hp. apply (inv_late _ (Inv_reachable acts Hp)). Qed.

(* saved_on_stop: whenever the run loop is in its save phase (or past it) every goroutine of the
   round has ended, both counters are zero, and from the end of the save phase until the next
   connection (and for ever once stopped) what is stored is the final in-memory data *)
Theorem saved_on_stop : forall acts,
  prompt acts = true ->
  let w := run acts in
  (pc_of w = RSave -> all_dead (w_thr w) /\ n_in (w_cnt w) = 0 /\ n_proc (w_cnt w) = 0 /\ n_un (w_cnt w) = 0) /\
  (saved_pc (pc_of w) = true -> d_disk (w_dat w) = d_mem (w_dat w)) /\
  (stopped w = true -> d_disk (w_dat w) = d_mem (w_dat w)).
Proof.
  intros acts Hp w. pose proof (Inv_reachable acts Hp) as H. fold w in H.
  split; [|split].
  - intros Hpc. assert (Hd : all_dead (w_thr w)) by (apply (inv_idle w H); rewrite Hpc; reflexivity).
    split; [exact Hd|]. apply all_dead_counts; assumption.
  - apply (inv_disk w H).
  - intros Hs. apply (inv_disk w H). apply (inv_stopped w H) in Hs. rewrite Hs. reflexivity.
Qed.

End Proofs.
