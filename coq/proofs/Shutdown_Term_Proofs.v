(* Proofs for the shutdown protocol (C19), part 2: after a stop request the run loop terminates.
   - Inv2: structural invariant (which program points a goroutine can be at, channel / phase facts);
     holds in EVERY reachable state (no hypothesis on the schedule);
   - progress: after a stop request, unless stopped, some goroutine / run-loop step is enabled - except
     in the D26 states (consumer of the tx channel gone, channel full, producer waiting with the mutex);
   - rank: every enabled goroutine / run-loop step strictly decreases `rank`; steps of the environment
     do not increase it, except a message of an untrusted peer, which is no longer accepted once
     monitorUntrustedNodes has told the untrusted node to stop (mu_dist);
   - D26 and D27 witnesses. *)
From V.lib Require Import Base.
From V.model Require Import Shutdown.
From V.proofs Require Import Shutdown_Proofs.

Section Term.
Variable cap : Z.
Variable ucfg : bool.
Variable daf : bool.

Notation step := (Shutdown.step cap ucfg daf true true).
Notation apply := (Shutdown.apply cap ucfg daf true true).
Notation run_from := (Shutdown.run_from cap ucfg daf true true).
Notation run := (Shutdown.run cap ucfg daf true true).
Notation prompt_from := (Shutdown.prompt_from cap ucfg daf true true).
Notation prompt := (Shutdown.prompt cap ucfg daf true true).
Notation step_thread := (Shutdown.step_thread cap daf true true).
Notation work_step := (Shutdown.work_step daf true true).
Notation fail_exit := (Shutdown.fail_exit true).
Notation step_run := (Shutdown.step_run ucfg).

Definition wf_pc (t : tid) (p : pc) : bool :=
  match p with
  | PTop | PWork => match t with AP => false | _ => true end
  | PRead | PGate => match t with MI => true | _ => false end
  | PQOut | PLock COut | PSend COut => match t with MI | PB => true | _ => false end
  | PLock CTx | PSend CTx => match t with MI | UN | AP => true | _ => false end
  | PStopUn | PWaitUn => match t with MU => true | _ => false end
  end.
Definition wf_t (t : tid) (s : tstate) : bool := match s with TLive p _ => wf_pc t p | _ => true end.

Definition so_pcs p := match p with RWaitStop | RCloseConn | RWaitIn | RCloseOut => true | _ => false end.
Definition pu_pcs p := match p with RWaitStop | RCloseConn | RWaitIn | RCloseOut | RCloseTx => true | _ => false end.
Definition closing_pc p := match p with RWaitIn | RCloseOut | RCloseTx | RWaitProc | RSave | RDecide => true | _ => false end.
Definition oclosed_pc p := match p with RCloseTx | RWaitProc | RSave | RDecide => true | _ => false end.
Definition xclosed_pc p := match p with RWaitProc | RSave | RDecide => true | _ => false end.
Definition stopping_pc p :=
  match p with
  | RCloseConn | RWaitIn | RCloseOut | RCloseTx | RWaitProc | RSave | RDecide | RExit | RDone => true
  | _ => false
  end.

(* what must hold of the state s of thread t *)
Definition tl_ok (w : sw) (t : tid) (s : tstate) : Prop :=
  wf_t t s = true /\
  (forall c f, s = TLive (PSend c) f -> ch_open w c = true) /\
  (t = MU -> forall f, s = TLive PWaitUn f -> w_ustop w = true) /\
  (t = SO -> so_pcs (pc_of w) = true -> busy s = true) /\
  (t = PU -> (pu_pcs (pc_of w) = true -> s <> TNone) /\
             (s = TDone -> x_open (w_ch w) = true -> d_pufail (w_dat w) = true /\ daf = false)).

Record Inv2 (w : sw) : Prop := {
  i2_thr : forall t, tl_ok w t (thread w t);
  i2_conn : closing_pc (pc_of w) = true -> w_conn w = CNone;
  i2_oclosed : oclosed_pc (pc_of w) = true -> o_open (w_ch w) = false;
  i2_xclosed : xclosed_pc (pc_of w) = true -> x_open (w_ch w) = false;
  i2_oopen : so_pcs (pc_of w) = true -> o_open (w_ch w) = true;
  i2_xopen : pu_pcs (pc_of w) = true -> x_open (w_ch w) = true;
  i2_len : 0 <= o_len (w_ch w) /\ 0 <= x_len (w_ch w);
  i2_stopping : stopping_pc (pc_of w) = true -> stopping w = true;
  i2_call : 0 <= stopcall w <= 2 /\ (1 <= stopcall w -> hard w = true) /\ (stopcall w = 2 -> stopping w = true);
  i2_stopped : stopped w = true -> pc_of w = RDone
}.

Lemma Inv2_init : Inv2 sw_init.
Proof.
  constructor.
  - intros t. destruct t; cbn; repeat split; try discriminate; try reflexivity; intros; discriminate.
  - cbn; discriminate.
  - cbn; discriminate.
  - cbn; discriminate.
  - cbn; discriminate.
  - cbn; discriminate.
  - cbn; lia.
  - cbn; discriminate.
  - cbn. repeat split; try lia; intros; try lia; discriminate.
  - cbn; discriminate.
Qed.

(* the part of the state tl_ok looks at *)
Definition env (w : sw) := (o_open (w_ch w), x_open (w_ch w), w_ustop w, pc_of w, d_pufail (w_dat w)).

Lemma tl_env w w' t s : env w = env w' -> tl_ok w t s -> tl_ok w' t s.
Proof.
  unfold env. intros E (H1 & H2 & H3 & H4 & H5). injection E as E1 E2 E3 E4 E5.
  split; [exact H1|]. split; [|split; [|split]].
  - intros c f Hs. specialize (H2 c f Hs). destruct c; cbn in *; congruence.
  - intros Ht f Hs. rewrite <- E3. eapply H3; eauto.
  - intros Ht Hp. rewrite <- E4 in Hp. auto.
  - intros Ht. destruct (H5 Ht) as [A B]. split.
    + intros Hp. rewrite <- E4 in Hp. auto.
    + intros Hs Hx. rewrite <- E5. apply B; [exact Hs|congruence].
Qed.

Lemma tid_eq_dec (a b : tid) : {a = b} + {a <> b}.
Proof. decide equality. Qed.

Lemma tget_tset_same T t s : tget (tset T t s) t = s.
Proof. destruct t; reflexivity. Qed.
Lemma tget_tset_other T t t' s : t <> t' -> tget (tset T t s) t' = tget T t'.
Proof. destruct t, t'; try reflexivity; intros H; contradiction H; reflexivity. Qed.

(* generic transfer: same globals, threads changed at most at t *)
Lemma inv2_set_thread w t s : Inv2 w -> tl_ok w t s -> Inv2 (set_thread w t s).
Proof.
  intros H Hs. destruct H as [Ht H1 H2 H3 H4 H5 H6 H7 H8 H9].
  constructor; try assumption.
  intros t'. unfold thread, set_thread. cbn.
  destruct (tid_eq_dec t t') as [<-|Hne].
  - rewrite tget_tset_same. eapply tl_env; [|exact Hs]. reflexivity.
  - rewrite tget_tset_other by exact Hne. eapply tl_env; [|apply Ht]. reflexivity.
Qed.

Lemma inv2_set_cnt w c : Inv2 w -> Inv2 (set_cnt w c).
Proof.
  intros H. destruct H as [Ht H1 H2 H3 H4 H5 H6 H7 H8 H9]. constructor; assumption.
Qed.

Lemma inv2_exit w t :
  Inv2 w ->
  (t = SO -> o_open (w_ch w) = false) ->
  (t = PU -> x_open (w_ch w) = true -> d_pufail (w_dat w) = true /\ daf = false) ->
  Inv2 (exit_thread w t).
Proof.
  intros H Hso Hpu. unfold exit_thread. apply inv2_set_cnt. apply inv2_set_thread; [exact H|].
  split; [reflexivity|]. split; [intros; discriminate|]. split; [intros; discriminate|]. split.
  - intros -> Hp. apply (i2_oopen w H) in Hp. rewrite Hso in Hp by reflexivity. discriminate.
  - intros ->. split; [intros _; discriminate|]. intros _. apply Hpu. reflexivity.
Qed.

Lemma inv2_register w t : Inv2 w -> t <> AP -> thread w t = TSpawned -> Inv2 (register w t).
Proof.
  intros H Hap Et. unfold register. apply inv2_set_cnt. apply inv2_set_thread; [exact H|].
  split; [destruct t; try reflexivity; congruence|]. split; [intros; discriminate|]. split; [intros; discriminate|]. split.
  - intros; reflexivity.
  - intros _. split; intros; discriminate.
Qed.

(* moving a live thread to a program point other than PSend / PWaitUn *)
Lemma tl_live_simple w t p f :
  wf_pc t p = true -> (forall c, p <> PSend c) -> p <> PWaitUn -> tl_ok w t (TLive p f).
Proof.
  intros Hw Hs Hu. split; [exact Hw|]. split; [|split; [|split]].
  - intros c f' E. injection E as E _. elim (Hs c E).
  - intros _ f' E. injection E as E _. contradiction.
  - intros; reflexivity.
  - intros _. split; intros; discriminate.
Qed.

Lemma tl_live_send w t c f : wf_pc t (PSend c) = true -> ch_open w c = true -> tl_ok w t (TLive (PSend c) f).
Proof.
  intros Hw Ho. split; [exact Hw|]. split; [|split; [|split]].
  - intros c' f' E. injection E as -> _. exact Ho.
  - intros _ f' E. discriminate.
  - intros; reflexivity.
  - intros _. split; intros; discriminate.
Qed.

(* changes of the globals that keep env *)
Lemma inv2_globals w w' :
  Inv2 w -> env w = env w' -> w_thr w' = w_thr w ->
  (closing_pc (pc_of w') = true -> w_conn w' = CNone) ->
  (0 <= o_len (w_ch w') /\ 0 <= x_len (w_ch w')) ->
  (stopping_pc (pc_of w') = true -> stopping w' = true) ->
  (0 <= stopcall w' <= 2 /\ (1 <= stopcall w' -> hard w' = true) /\ (stopcall w' = 2 -> stopping w' = true)) ->
  (stopped w' = true -> pc_of w' = RDone) ->
  Inv2 w'.
Proof.
  intros H E ET G1 G2 G3 G4 G5. pose proof E as E'. unfold env in E'. injection E' as E1 E2 E3 E4 E5.
  destruct H as [Ht H1 H2 H3 H4 H5 H6 H7 H8 H9].
  constructor; try assumption.
  - intros t. unfold thread. rewrite ET. eapply tl_env; [exact E|apply Ht].
  - rewrite <- E4, <- E1. exact H2.
  - rewrite <- E4, <- E2. exact H3.
  - rewrite <- E4, <- E1. exact H4.
  - rewrite <- E4, <- E2. exact H5.
Qed.

Ltac i2g H := eapply (inv2_globals _ _ H); [reflexivity|reflexivity| | | | |].

Lemma inv2_set_stopping_true w : Inv2 w -> Inv2 (set_stopping w true).
Proof.
  intros H. i2g H; cbn.
  - apply (i2_conn w H).
  - apply (i2_len w H).
  - reflexivity.
  - destruct (i2_call w H) as (A & B & C). unfold stopcall, hard, stopping in *. cbn. auto.
  - apply (i2_stopped w H).
Qed.

Lemma inv2_set_needs w b : Inv2 w -> Inv2 (set_needs w b).
Proof.
  intros H. i2g H; cbn.
  - apply (i2_conn w H).
  - apply (i2_len w H).
  - apply (i2_stopping w H).
  - apply (i2_call w H).
  - apply (i2_stopped w H).
Qed.

Lemma inv2_request_stop w : Inv2 w -> Inv2 (request_stop w).
Proof. intros H. unfold request_stop. destruct (stopped w || stopping w); [exact H|apply inv2_set_stopping_true, H]. Qed.
Lemma inv2_restart w : Inv2 w -> Inv2 (restart w).
Proof. intros H. unfold restart. destruct (stopping w); [exact H|]. apply inv2_set_stopping_true, inv2_set_needs, H. Qed.

Lemma env_request_stop w : env (request_stop w) = env w.
Proof. unfold request_stop. destruct (stopped w || stopping w); reflexivity. Qed.
Lemma env_restart w : env (restart w) = env w.
Proof. unfold restart. destruct (stopping w); reflexivity. Qed.
Lemma ch_request_stop w : w_ch (request_stop w) = w_ch w.
Proof. unfold request_stop. destruct (stopped w || stopping w); reflexivity. Qed.
Lemma ch_restart w : w_ch (restart w) = w_ch w.
Proof. unfold restart. destruct (stopping w); reflexivity. Qed.
Lemma dat_request_stop w : w_dat (request_stop w) = w_dat w.
Proof. unfold request_stop. destruct (stopped w || stopping w); reflexivity. Qed.
Lemma dat_restart w : w_dat (restart w) = w_dat w.
Proof. unfold restart. destruct (stopping w); reflexivity. Qed.

Lemma inv2_callback w t : Inv2 w -> Inv2 (callback w t).
Proof.
  intros H. i2g H; cbn.
  - apply (i2_conn w H).
  - apply (i2_len w H).
  - apply (i2_stopping w H).
  - apply (i2_call w H).
  - apply (i2_stopped w H).
Qed.

Lemma inv2_set_inbox w n : Inv2 w -> Inv2 (set_inbox w n).
Proof.
  intros H. i2g H; cbn.
  - apply (i2_conn w H).
  - apply (i2_len w H).
  - apply (i2_stopping w H).
  - apply (i2_call w H).
  - apply (i2_stopped w H).
Qed.

Lemma inv2_set_ch_len w c n : Inv2 w -> 0 <= n -> Inv2 (set_ch_len w c n).
Proof.
  intros H Hn. destruct (i2_len w H) as [L1 L2].
  destruct c; (i2g H; cbn; [apply (i2_conn w H)|split; lia|apply (i2_stopping w H)|apply (i2_call w H)|apply (i2_stopped w H)]).
Qed.

Lemma inv2_set_pufail w : Inv2 w -> Inv2 (set_pufail w).
Proof.
  intros H. destruct H as [Ht H1 H2 H3 H4 H5 H6 H7 H8 H9]. constructor; try assumption.
  intros t. destruct (Ht t) as (A & B & C & D & E). split; [exact A|]. split; [exact B|]. split; [exact C|]. split; [exact D|].
  intros Hpu. destruct (E Hpu) as [E1 E2]. split; [exact E1|]. intros Hs Hx. destruct (E2 Hs Hx) as [_ Hd]. split; [reflexivity|exact Hd].
Qed.


Lemma inv2_set_ustop w b :
  Inv2 w -> (b = true \/ forall f, thread w MU <> TLive PWaitUn f) -> Inv2 (set_ustop w b).
Proof.
  intros H Hb. destruct H as [Ht H1 H2 H3 H4 H5 H6 H7 H8 H9]. constructor; try assumption.
  intros t. destruct (Ht t) as (A & B & C & D & E). split; [exact A|]. split; [exact B|]. split; [|split; [exact D|exact E]].
  intros -> f Ef. cbn. destruct Hb as [->|Hb]; [reflexivity|]. unfold thread in *. cbn in Ef. elim (Hb f Ef).
Qed.

Lemma tl_set_pc w t s p' :
  tl_ok w t s ->
  (t = SO -> so_pcs p' = true -> busy s = true) ->
  (t = PU -> pu_pcs p' = true -> s <> TNone) ->
  tl_ok (set_pc w p') t s.
Proof.
  intros (A & B & C & D & E) Hso Hpu. split; [exact A|]. split; [exact B|]. split; [exact C|]. split.
  - intros Ht Hp. cbn in Hp. auto.
  - intros Ht. destruct (E Ht) as [E1 E2]. split; [intros Hp; cbn in Hp; auto|exact E2].
Qed.

Lemma inv2_set_pc w p' :
  Inv2 w ->
  (closing_pc p' = true -> w_conn w = CNone) ->
  (oclosed_pc p' = true -> o_open (w_ch w) = false) ->
  (xclosed_pc p' = true -> x_open (w_ch w) = false) ->
  (so_pcs p' = true -> o_open (w_ch w) = true /\ busy (t_so (w_thr w)) = true) ->
  (pu_pcs p' = true -> x_open (w_ch w) = true /\ t_pu (w_thr w) <> TNone) ->
  (stopping_pc p' = true -> stopping w = true) ->
  (stopped w = true -> p' = RDone) ->
  Inv2 (set_pc w p').
Proof.
  intros H G1 G2 G3 G4 G5 G6 G7. destruct H as [Ht H1 H2 H3 H4 H5 H6 H7 H8 H9].
  constructor; cbn; try assumption.
  - intros t. apply tl_set_pc; [apply Ht| |].
    + intros -> Hp. apply G4, Hp.
    + intros -> Hp. apply G5, Hp.
  - intros Hp. apply G4, Hp.
  - intros Hp. apply G5, Hp.
Qed.

Lemma so_busy w : Inv2 w -> so_pcs (pc_of w) = true -> busy (t_so (w_thr w)) = true.
Proof. intros H Hp. destruct (i2_thr w H SO) as (_ & _ & _ & D & _). apply D; [reflexivity|exact Hp]. Qed.
Lemma pu_not_none w : Inv2 w -> pu_pcs (pc_of w) = true -> t_pu (w_thr w) <> TNone.
Proof. intros H Hp. destruct (i2_thr w H PU) as (_ & _ & _ & _ & E). destruct (E eq_refl) as [E1 _]. apply E1, Hp. Qed.

Lemma not_send_of_unlocked w c t f :
  Inv2 w -> ch_locked w c = false -> thread w t <> TLive (PSend c) f.
Proof.
  intros H Hl Et. destruct (i2_thr w H t) as (A & _). rewrite Et in A. cbn in A.
  unfold ch_locked in Hl. apply orb_false_iff in Hl. destruct Hl as [Hl L4]. apply orb_false_iff in Hl. destruct Hl as [Hl L3].
  apply orb_false_iff in Hl. destruct Hl as [L1 L2].
  destruct t, c; try discriminate; rewrite Et in *; cbn in *; discriminate.
Qed.

Lemma Inv2_step_run w ok w' : Inv2 w -> step_run w ok = Some w' -> Inv2 w'.
Proof.
  intros H E. unfold Shutdown.step_run in E.
  destruct (pc_of w) eqn:Ep.
  - (* RLoop *)
    injection E as <-. destruct (stopping w) eqn:Es; apply inv2_set_pc; try exact H; cbn; try discriminate; auto.
    all: intros Hs; apply (i2_stopped w H) in Hs; congruence.
  - (* RConnect *)
    injection E as <-. destruct ok.
    + assert (Hns : stopped w = false).
      { destruct (stopped w) eqn:Es; [|reflexivity]. apply (i2_stopped w H) in Es. congruence. }
      pose proof (i2_call w H) as Hc. pose proof (i2_thr w H MU) as Hmu. pose proof (i2_thr w H UN) as Hun.
      pose proof (i2_thr w H AP) as Hap.
      unfold Shutdown.connect. constructor; cbn; try discriminate; try reflexivity; try lia.
      * intros t. unfold thread. cbn.
        destruct t; cbn; try (repeat split; cbn; try reflexivity; intros; discriminate).
        -- destruct ucfg; [repeat split; cbn; try reflexivity; intros; discriminate|].
           destruct Hmu as (A & B & C & D & E0). unfold thread in *. cbn in *.
           split; [exact A|]. split; [intros c f Es; destruct c; reflexivity|]. split; [exact C|]. split; intros; discriminate.
        -- destruct Hun as (A & B & C & D & E0). unfold thread in *. cbn in *.
           split; [exact A|]. split; [intros c f Es; destruct c; reflexivity|]. split; [intros; discriminate|]. split; intros; discriminate.
        -- destruct Hap as (A & B & C & D & E0). unfold thread in *. cbn in *.
           split; [exact A|]. split; [intros c f Es; destruct c; reflexivity|]. split; [intros; discriminate|]. split; intros; discriminate.
      * exact Hc.
      * unfold stopped in Hns. rewrite Hns. discriminate.
    + apply inv2_set_pc; try exact H; cbn; try discriminate; auto.
      intros Hs; apply (i2_stopped w H) in Hs; congruence.
  - (* RWaitStop *)
    destruct (stopping w) eqn:Es; [|discriminate]. injection E as <-.
    apply inv2_set_pc; try exact H; cbn; try discriminate; auto.
    + intros _. split; [apply (i2_oopen w H); rewrite Ep; reflexivity|apply so_busy; [exact H|rewrite Ep; reflexivity]].
    + intros _. split; [apply (i2_xopen w H); rewrite Ep; reflexivity|apply pu_not_none; [exact H|rewrite Ep; reflexivity]].
    + intros Hs; apply (i2_stopped w H) in Hs; congruence.
  - (* RCloseConn *)
    injection E as <-.
    assert (H' : Inv2 (set_conn w CNone)).
    { i2g H; cbn; [reflexivity|apply (i2_len w H)|apply (i2_stopping w H)|apply (i2_call w H)|apply (i2_stopped w H)]. }
    apply inv2_set_pc; try exact H'; cbn; try discriminate; auto.
    + intros _. split; [apply (i2_oopen w H); rewrite Ep; reflexivity|apply so_busy; [exact H|rewrite Ep; reflexivity]].
    + intros _. split; [apply (i2_xopen w H); rewrite Ep; reflexivity|apply pu_not_none; [exact H|rewrite Ep; reflexivity]].
    + intros _. apply (i2_stopping w H). rewrite Ep. reflexivity.
    + intros Hs; apply (i2_stopped w H) in Hs; congruence.
  - (* RWaitIn *)
    destruct (n_in (w_cnt w) =? 0); [|discriminate]. injection E as <-.
    apply inv2_set_pc; try exact H; cbn; try discriminate; auto.
    + intros _. apply (i2_conn w H). rewrite Ep. reflexivity.
    + intros _. split; [apply (i2_oopen w H); rewrite Ep; reflexivity|apply so_busy; [exact H|rewrite Ep; reflexivity]].
    + intros _. split; [apply (i2_xopen w H); rewrite Ep; reflexivity|apply pu_not_none; [exact H|rewrite Ep; reflexivity]].
    + intros _. apply (i2_stopping w H). rewrite Ep. reflexivity.
    + intros Hs; apply (i2_stopped w H) in Hs; congruence.
  - (* RCloseOut *)
    destruct (ch_locked w COut) eqn:El; [discriminate|]. injection E as <-.
    pose proof H as H0. destruct H as [Ht H1 H2 H3 H4 H5 H6 H7 H8 H9].
    unfold pc_of, stopping, stopped, stopcall, hard in *. rewrite Ep in *.
    constructor; cbn; try assumption; try discriminate; try reflexivity; auto.
    + intros t. destruct (Ht t) as (A & B & C & D & E0). split; [exact A|]. split; [|split; [exact C|split]].
      * intros c f Et. destruct c; [|apply (B _ _ Et)].
        exfalso. eapply not_send_of_unlocked; [exact H0|exact El|exact Et].
      * intros _ Hp. discriminate.
      * intros Hpu. destruct (E0 Hpu) as [E1 E2]. split; [intros _; apply E1; unfold pc_of; rewrite Ep; reflexivity|exact E2].
    + intros Hs. apply H9 in Hs. discriminate.
  - (* RCloseTx *)
    destruct (ch_locked w CTx) eqn:El; [discriminate|]. injection E as <-.
    pose proof H as H0. destruct H as [Ht H1 H2 H3 H4 H5 H6 H7 H8 H9].
    unfold pc_of, stopping, stopped, stopcall, hard in *. rewrite Ep in *.
    constructor; cbn; try assumption; try discriminate; try reflexivity; auto.
    + intros t. destruct (Ht t) as (A & B & C & D & E0). split; [exact A|]. split; [|split; [exact C|split]].
      * intros c f Et. destruct c; [apply (B _ _ Et)|].
        exfalso. eapply not_send_of_unlocked; [exact H0|exact El|exact Et].
      * intros _ Hp. discriminate.
      * intros Hpu. split; [intros Hp; discriminate|]. intros _ Hx. discriminate.
    + intros Hs. apply H9 in Hs. discriminate.
  - (* RWaitProc *)
    destruct (n_proc (w_cnt w) =? 0); [|discriminate]. injection E as <-.
    apply inv2_set_pc; try exact H; cbn; try discriminate; auto.
    + intros _. apply (i2_conn w H). rewrite Ep. reflexivity.
    + intros _. apply (i2_oclosed w H). rewrite Ep. reflexivity.
    + intros _. apply (i2_xclosed w H). rewrite Ep. reflexivity.
    + intros _. apply (i2_stopping w H). rewrite Ep. reflexivity.
    + intros Hs; apply (i2_stopped w H) in Hs; congruence.
  - (* RSave *)
    destruct (d_rlock (w_dat w)); [discriminate|]. injection E as <-.
    assert (H' : Inv2 (save w)).
    { i2g H; cbn; [apply (i2_conn w H)|apply (i2_len w H)|apply (i2_stopping w H)|apply (i2_call w H)|apply (i2_stopped w H)]. }
    apply inv2_set_pc; try exact H'; cbn; try discriminate; auto.
    + intros _. apply (i2_conn w H). rewrite Ep. reflexivity.
    + intros _. apply (i2_oclosed w H). rewrite Ep. reflexivity.
    + intros _. apply (i2_xclosed w H). rewrite Ep. reflexivity.
    + intros _. apply (i2_stopping w H). rewrite Ep. reflexivity.
    + intros Hs; apply (i2_stopped w H) in Hs; congruence.
  - (* RDecide *)
    injection E as <-.
    destruct (negb (needs w) || hard w) eqn:Ed.
    + apply inv2_set_pc; try exact H; cbn; try discriminate; auto.
      * intros _. apply (i2_stopping w H). rewrite Ep. reflexivity.
      * intros Hs; apply (i2_stopped w H) in Hs; congruence.
    + apply orb_false_iff in Ed. destruct Ed as [_ Eh].
      destruct H as [Ht H1 H2 H3 H4 H5 H6 H7 H8 H9].
      unfold pc_of, stopping, stopped, stopcall, hard in *. rewrite Ep in *.
      constructor; cbn; try assumption; try discriminate; try reflexivity; auto.
      * intros t. destruct (Ht t) as (A & B & C & D & E0). split; [exact A|]. split; [exact B|]. split; [exact C|]. split.
        -- intros _ Hp. discriminate.
        -- intros Hpu. destruct (E0 Hpu) as [E1 E2]. split; [intros Hp; discriminate|exact E2].
      * destruct H8 as (A & B & C). split; [exact A|]. split; [exact B|]. intros E2.
        assert (c_hard (w_ctl w) = true) by (apply B; lia). congruence.
      * intros Hs. apply H9 in Hs. discriminate.
  - (* RExit *)
    injection E as <-.
    assert (Hst : stopping w = true) by (apply (i2_stopping w H); rewrite Ep; reflexivity).
    destruct H as [Ht H1 H2 H3 H4 H5 H6 H7 H8 H9]. constructor; cbn; try assumption; try discriminate; try reflexivity.
    + intros t. destruct (Ht t) as (A & B & C & D & E0). split; [exact A|]. split; [exact B|]. split; [exact C|]. split.
      * intros _ Hp. discriminate.
      * intros Hpu. destruct (E0 Hpu) as [E1 E2]. split; [intros Hp; discriminate|exact E2].
    + intros _. exact Hst.
  - discriminate.
Qed.


Lemma wf_of w t p f : Inv2 w -> thread w t = TLive p f -> wf_pc t p = true.
Proof. intros H Et. destruct (i2_thr w H t) as (A & _). rewrite Et in A. exact A. Qed.

Lemma inv2_live_simple w t p f :
  Inv2 w -> wf_pc t p = true -> (forall c, p <> PSend c) -> p <> PWaitUn -> Inv2 (set_thread w t (TLive p f)).
Proof. intros H Hw Hs Hu. apply inv2_set_thread; [exact H|apply tl_live_simple; assumption]. Qed.

Ltac simple_live H := apply inv2_live_simple; [exact H|first [reflexivity|assumption]|intros ?; discriminate|discriminate].

Lemma tl_none w t : tl_ok w t TNone \/ t = SO \/ t = PU.
Proof.
  destruct t; auto; left; (split; [reflexivity|]); (split; [intros; discriminate|]); (split; [intros; discriminate|]);
    split; intros; discriminate.
Qed.

Lemma inv2_set_ap_none w : Inv2 w -> Inv2 (set_thread w AP TNone).
Proof.
  intros H. apply inv2_set_thread; [exact H|]. destruct (tl_none w AP) as [X|[X|X]]; [exact X|discriminate|discriminate].
Qed.

Lemma inv2_after_add w t f ok : Inv2 w -> Inv2 (after_add w t f ok).
Proof.
  intros H. unfold after_add.
  destruct t, ok; try (simple_live H); try (apply inv2_set_ap_none, H).
  apply inv2_exit; [exact H|discriminate|discriminate].
Qed.

Lemma inv2_end_body w t : t <> AP -> Inv2 w -> Inv2 (end_body w t).
Proof.
  intros Hap H. unfold end_body.
  apply inv2_live_simple; [exact H|destruct t; try reflexivity; congruence|intros ?; discriminate|discriminate].
Qed.

Lemma inv2_fail_exit w t : t <> AP -> Inv2 w -> Inv2 (fail_exit w t).
Proof.
  intros Hap H. unfold Shutdown.fail_exit. destruct t; try congruence; try (apply inv2_end_body; [discriminate|exact H]).
  - apply inv2_exit; [apply inv2_request_stop, H|discriminate|discriminate].
  - apply inv2_exit; [apply inv2_restart, H|discriminate|discriminate].
  - apply inv2_exit; [exact H|discriminate|discriminate].
  - apply inv2_exit; [apply inv2_restart, H|discriminate|discriminate].
  - apply inv2_exit; [exact H|discriminate|discriminate].
Qed.

Lemma inv2_spawn_un w f : Inv2 w -> thread w MU = TLive PWork f -> Inv2 (spawn_un w).
Proof.
  intros H Et. unfold spawn_un.
  assert (Hun : Inv2 (set_thread w UN TSpawned)).
  { apply inv2_set_thread; [exact H|]. split; [reflexivity|]. split; [intros; discriminate|]. split; [intros; discriminate|].
    split; [intros; discriminate|]. intros; discriminate. }
  destruct (thread w UN); try exact H.
  all: apply inv2_set_ustop; [exact Hun|right; intros f' Ef; unfold thread in *; cbn in *; congruence].
Qed.

Lemma inv2_work_step w t f k w' : Inv2 w -> thread w t = TLive PWork f -> work_step w t f k = Some w' -> Inv2 w'.
Proof.
  intros H Et E. unfold Shutdown.work_step in E.
  assert (Hprod : forall w'', match k, f with
      | KFail, _ => Some (fail_exit w t)
      | KCall, S f' => Some (set_thread (callback w t) t (TLive PWork f'))
      | KOut, S f' => if uses_out t then Some (set_thread w t (TLive PQOut f')) else Some (end_body w t)
      | KTx, S f' => if uses_tx t then Some (set_thread w t (TLive (PLock CTx) f')) else Some (end_body w t)
      | KSpawn, S f' => match t with
                        | MU => Some (spawn_un (set_thread w MU (TLive PWork f')))
                        | _ => Some (end_body w t)
                        end
      | _, _ => Some (end_body w t)
      end = Some w'' -> t <> AP -> Inv2 w'').
  { intros w'' E' Hap. pose proof (wf_of w t PWork f H Et) as Hwf.
    destruct k, f as [|f']; try (injection E' as <-; apply inv2_end_body; [exact Hap|exact H]).
    - injection E' as <-. pose proof (inv2_callback w t H) as Hc. simple_live Hc.
    - destruct (uses_out t) eqn:Eu; injection E' as <-; [|apply inv2_end_body; [exact Hap|exact H]].
      apply inv2_live_simple; [exact H|destruct t; try discriminate; reflexivity|intros ?; discriminate|discriminate].
    - destruct (uses_tx t) eqn:Eu; injection E' as <-; [|apply inv2_end_body; [exact Hap|exact H]].
      apply inv2_live_simple; [exact H|destruct t; try discriminate; try reflexivity; congruence|intros ?; discriminate|discriminate].
    - destruct t; injection E' as <-; try (apply inv2_end_body; [discriminate|exact H]); try congruence.
      eapply inv2_spawn_un; [simple_live H|]. unfold thread. cbn. reflexivity.
    - injection E' as <-. apply inv2_fail_exit; [exact Hap|exact H].
    - injection E' as <-. apply inv2_fail_exit; [exact Hap|exact H]. }
  destruct t; try (apply Hprod; [exact E|discriminate]); try discriminate.
  - (* SO *) injection E as <-. destruct k.
    all: try (simple_live H).
    pose proof (inv2_restart w H) as Hr. simple_live Hr.
  - (* PU *)
    pose proof (inv2_callback w PU H) as Hc.
    pose proof (inv2_set_pufail _ (inv2_request_stop w H)) as Hf.
    destruct k; destruct (d_pufail (w_dat w)); try destruct daf eqn:Ed; injection E as <-.
    all: try (simple_live Hc). all: try (simple_live H). all: try (simple_live Hf).
    apply inv2_exit; [exact Hf|discriminate|intros; split; [reflexivity|exact Ed]].
Qed.

Lemma inv2_consume w t c w' :
  Inv2 w -> (t = SO /\ c = COut \/ t = PU /\ c = CTx) -> consume w t c = Some w' -> Inv2 w'.
Proof.
  intros H Htc E. unfold consume in E.
  destruct (0 <? ch_len w c) eqn:El.
  - injection E as <-. apply Z.ltb_lt in El.
    assert (Hl : Inv2 (set_ch_len w c (ch_len w c - 1))) by (apply inv2_set_ch_len; [exact H|lia]).
    destruct Htc as [[-> ->]|[-> ->]]; simple_live Hl.
  - destruct (ch_open w c) eqn:Eo; [discriminate|]. injection E as <-.
    destruct Htc as [[-> ->]|[-> ->]]; cbn in Eo.
    + apply inv2_exit; [exact H|intros _; exact Eo|discriminate].
    + apply inv2_exit; [exact H|discriminate|]. intros _ Hx. congruence.
Qed.

Lemma inv2_top_step w t n w' : Inv2 w -> top_step w t n = Some w' -> Inv2 w'.
Proof.
  intros H E. unfold top_step in E.
  destruct t.
  - injection E as <-. destruct (stopping w); [apply inv2_exit; [exact H|discriminate|discriminate]|].
    destruct (w_conn w); first [apply inv2_exit; [exact H|discriminate|discriminate]|simple_live H].
  - injection E as <-. destruct (stopping w); [apply inv2_exit; [exact H|discriminate|discriminate]|simple_live H].
  - eapply inv2_consume; [exact H| |exact E]. left; auto.
  - injection E as <-. destruct (stopping w); [apply inv2_exit; [exact H|discriminate|discriminate]|simple_live H].
  - eapply inv2_consume; [exact H| |exact E]. right; auto.
  - injection E as <-. destruct (stopping w); [apply inv2_exit; [exact H|discriminate|discriminate]|simple_live H].
  - injection E as <-. destruct (stopping w); simple_live H.
  - destruct (w_ustop w); [|discriminate]. injection E as <-. apply inv2_exit; [exact H|discriminate|discriminate].
  - discriminate.
Qed.

Lemma inv2_read_step w w' : Inv2 w -> read_step w = Some w' -> Inv2 w'.
Proof.
  intros H E. unfold read_step in E.
  pose proof (inv2_restart w H) as Hr. pose proof (inv2_set_inbox w (w_inbox w - 1) H) as Hi.
  destruct (w_conn w).
  - injection E as <-. apply inv2_exit; [exact Hr|discriminate|discriminate].
  - destruct (0 <? w_inbox w); [|discriminate]. injection E as <-. simple_live Hi.
  - destruct (0 <? w_inbox w); injection E as <-.
    + simple_live Hi.
    + apply inv2_exit; [exact Hr|discriminate|discriminate].
Qed.

Lemma Inv2_step_thread w t k n w' : Inv2 w -> step_thread w t k n = Some w' -> Inv2 w'.
Proof.
  intros H E. unfold Shutdown.step_thread in E.
  destruct (thread w t) as [| |p f|] eqn:Et; try discriminate.
  pose proof (wf_of w t p f H Et) as Hw.
  destruct p.
  - eapply inv2_top_step; eassumption.
  - destruct t; try discriminate. eapply inv2_read_step; eassumption.
  - destruct t; try discriminate. injection E as <-. destruct (stopping w); simple_live H.
  - eapply inv2_work_step; eassumption.
  - injection E as <-. destruct (stopping w); [apply inv2_after_add, H|].
    apply inv2_live_simple; [exact H|destruct t; try discriminate; reflexivity|intros ?; discriminate|discriminate].
  - destruct (ch_locked w c); [discriminate|]. destruct (ch_open w c) eqn:Eo; injection E as <-.
    + apply inv2_set_thread; [exact H|]. apply tl_live_send; [destruct t, c; try discriminate; reflexivity|exact Eo].
    + apply inv2_after_add, H.
  - destruct (ch_len w c <? cap); [|discriminate]. injection E as <-.
    apply inv2_after_add. apply inv2_set_ch_len; [exact H|]. destruct (i2_len w H). destruct c; cbn; lia.
  - injection E as <-. destruct t; try discriminate.
    assert (Hu : Inv2 (set_ustop w true)) by (apply inv2_set_ustop; [exact H|left; reflexivity]).
    apply inv2_set_thread; [exact Hu|]. split; [reflexivity|]. split; [intros; discriminate|]. split; [intros; reflexivity|].
    split; intros; discriminate.
  - destruct (n_un (w_cnt w) =? 0); [|discriminate]. injection E as <-.
    destruct t; try discriminate. apply inv2_exit; [exact H|discriminate|discriminate].
Qed.

Lemma Inv2_step w a : Inv2 w -> Inv2 (apply w a).
Proof.
  intros H. unfold Shutdown.apply. destruct (step w a) as [w'|] eqn:E; [|exact H].
  destruct a; cbn in E.
  - eapply Inv2_step_run; eassumption.
  - destruct (stopped w) eqn:Es; [discriminate|]. destruct (stopcall w =? 0) eqn:Ec; [|discriminate]. injection E as <-.
    apply Z.eqb_eq in Ec. i2g H; cbn.
    + apply (i2_conn w H).
    + apply (i2_len w H).
    + apply (i2_stopping w H).
    + unfold stopcall, hard, stopping in *. cbn. repeat split; try lia; intros; try reflexivity; lia.
    + apply (i2_stopped w H).
  - destruct (stopcall w =? 1) eqn:Ec; [|discriminate]. injection E as <-. apply Z.eqb_eq in Ec.
    pose proof (inv2_request_stop w H) as Hr.
    assert (Hst : stopping (request_stop w) = true).
    { unfold request_stop. destruct (stopped w) eqn:Es; cbn.
      - apply (i2_stopping w H). apply (i2_stopped w H) in Es. rewrite Es. reflexivity.
      - destruct (stopping w) eqn:Eg; [exact Eg|reflexivity]. }
    assert (Hh : hard (request_stop w) = true).
    { destruct (i2_call w H) as (_ & B & _). unfold request_stop. destruct (stopped w || stopping w); cbn; apply B; lia. }
    i2g Hr; cbn.
    + apply (i2_conn _ Hr).
    + apply (i2_len _ Hr).
    + apply (i2_stopping _ Hr).
    + unfold stopcall, hard, stopping in *. cbn. repeat split; try lia; intros; assumption.
    + apply (i2_stopped _ Hr).
  - destruct (w_conn w); try discriminate. injection E as <-. apply inv2_set_inbox, H.
  - destruct (w_conn w) eqn:Ec; try discriminate. injection E as <-.
    i2g H; cbn.
    + intros Hp. apply (i2_conn w H) in Hp. congruence.
    + apply (i2_len w H).
    + apply (i2_stopping w H).
    + apply (i2_call w H).
    + apply (i2_stopped w H).
  - unfold thread in E. cbn in E. destruct (t_un (w_thr w)) as [| |p f|] eqn:Et; try discriminate. destruct p; try discriminate.
    destruct (w_ustop w); [discriminate|]. injection E as <-. simple_live H.
  - unfold thread in E. cbn in E. destruct (t_ap (w_thr w)); try discriminate. injection E as <-.
    apply inv2_set_thread; [exact H|]. apply tl_live_simple; [reflexivity|intros ?; discriminate|discriminate].
  - unfold thread in E. destruct t; cbn in E; try discriminate;
      match type of E with match ?x with _ => _ end = _ => destruct x eqn:Et end; try discriminate;
      injection E as <-; (apply inv2_register; [exact H|discriminate|exact Et]).
  - eapply Inv2_step_thread; eassumption.
Qed.

Lemma Inv2_run : forall acts w, Inv2 w -> Inv2 (run_from w acts).
Proof. induction acts as [|a acts IH]; intros w H; [exact H|]. cbn. apply IH, Inv2_step, H. Qed.

Lemma Inv2_reachable acts : Inv2 (run acts).
Proof. apply Inv2_run, Inv2_init. Qed.


(* ---------------------------------------------------------------------------------------------- *)
(* progress *)

(* the steps used to show progress: they never choose a failure *)
Definition benign (a : act) : bool :=
  match a with ARun true | AReg _ | AStep _ KEnd O => true | _ => false end.

Definition can_go (w : sw) : Prop :=
  exists a, benign a = true /\ thread_act a = true /\ prompt_ok w a = true /\ step w a <> None.

Lemma go_reg w t : thread w t = TSpawned -> t <> AP -> can_go w.
Proof.
  intros Et Hap. exists (AReg t). split; [reflexivity|]. split; [reflexivity|]. split; [reflexivity|].
  unfold Shutdown.step. destruct t; try congruence; rewrite Et; discriminate.
Qed.

Lemma prompt_step_not_mu w t k n : t <> MU -> prompt_ok w (AStep t k n) = true.
Proof. intros Ht. destruct t; try reflexivity. contradiction. Qed.

Lemma go_step0 w t : t <> MU -> step_thread w t KEnd 0 <> None -> can_go w.
Proof.
  intros Ht Hs. exists (AStep t KEnd 0). split; [reflexivity|]. split; [reflexivity|]. split; [apply prompt_step_not_mu, Ht|exact Hs].
Qed.
Lemma go_step w t (k : kind) (n : nat) : k = KEnd -> n = O -> t <> MU -> step_thread w t k n <> None -> can_go w.
Proof. intros -> ->. apply go_step0. Qed.

Lemma go_consumer w tc c :
  (tc = SO /\ c = COut \/ tc = PU /\ c = CTx) -> Inv2 w -> busy (thread w tc) = true -> 0 < ch_len w c -> can_go w.
Proof.
  intros Htc H Hb Hl.
  destruct (thread w tc) as [| |p f|] eqn:Et; try discriminate.
  - eapply go_reg; [eassumption|destruct Htc as [[-> _]|[-> _]]; discriminate].
  - pose proof (wf_of w tc p f H Et) as Hw.
    assert (Hne : tc <> MU) by (destruct Htc as [[-> _]|[-> _]]; discriminate).
    apply (go_step w tc KEnd 0 eq_refl eq_refl Hne). unfold Shutdown.step_thread. rewrite Et.
    apply Z.ltb_lt in Hl.
    destruct Htc as [[-> ->]|[-> ->]]; destruct p as [| | | | |c0|c0| |]; try destruct c0; try discriminate; cbn in *; unfold consume; cbn; rewrite ?Hl; discriminate.
Qed.

Lemma locked_holder w c : ch_locked w c = true -> exists t f, thread w t = TLive (PSend c) f /\ t <> MU.
Proof.
  unfold ch_locked. intros Hl.
  assert (Hat : forall t, at_send c (thread w t) = true -> exists f, thread w t = TLive (PSend c) f).
  { intros t Ha. destruct (thread w t) as [| |p f|]; try discriminate. destruct p; try discriminate.
    exists f. destruct c, c0; try discriminate; reflexivity. }
  apply orb_true_iff in Hl. destruct Hl as [Hl|Hl]; [apply orb_true_iff in Hl; destruct Hl as [Hl|Hl];
    [apply orb_true_iff in Hl; destruct Hl as [Hl|Hl]|]|].
  - destruct (Hat MI Hl) as (f & Ef). exists MI, f. split; [exact Ef|discriminate].
  - destruct (Hat PB Hl) as (f & Ef). exists PB, f. split; [exact Ef|discriminate].
  - destruct (Hat UN Hl) as (f & Ef). exists UN, f. split; [exact Ef|discriminate].
  - destruct (Hat AP Hl) as (f & Ef). exists AP, f. split; [exact Ef|discriminate].
Qed.

Definition consumer_of (c : chan) : tid := match c with COut => SO | CTx => PU end.

Lemma go_holder w c t f :
  Inv2 w -> 1 <= cap -> t <> MU -> thread w t = TLive (PSend c) f ->
  busy (thread w (consumer_of c)) = true -> can_go w.
Proof.
  intros H Hcap Hne Et Hb.
  destruct (ch_len w c <? cap) eqn:El.
  - apply (go_step w t KEnd 0 eq_refl eq_refl Hne). unfold Shutdown.step_thread. rewrite Et, El. discriminate.
  - apply Z.ltb_ge in El. apply (go_consumer w (consumer_of c) c); [destruct c; auto|exact H|exact Hb|lia].
Qed.

(* the consumer of a channel that is open during the phases in which producers may still add *)
Lemma so_consumer_busy w : Inv2 w -> so_pcs (pc_of w) = true -> busy (thread w (consumer_of COut)) = true.
Proof. intros H Hp. apply so_busy; assumption. Qed.

Lemma pu_consumer_busy w :
  Inv2 w -> pu_pcs (pc_of w) = true -> d26_state cap w = false -> ch_locked w CTx = true -> cap <= ch_len w CTx ->
  busy (thread w (consumer_of CTx)) = true.
Proof.
  intros H Hp Hd Hl Hlen. pose proof (pu_not_none w H Hp) as Hn. pose proof (i2_xopen w H Hp) as Hx.
  unfold d26_state in Hd. cbn [consumer_of]. unfold thread in *. cbn in *.
  destruct (t_pu (w_thr w)); try reflexivity; try contradiction.
  rewrite Hl in Hd. cbn in Hd. unfold ch_open in Hd. rewrite Hx in Hd. cbn in Hd.
  apply Z.leb_gt in Hd. unfold ch_len in *. cbn in *. lia.
Qed.

(* a thread that waits for room in a channel: it can send, or the channel's consumer can move *)
Lemma go_send w c t' f' :
  Inv2 w -> 1 <= cap -> d26_state cap w = false ->
  (so_pcs (pc_of w) = true \/ o_open (w_ch w) = false) ->
  (pu_pcs (pc_of w) = true \/ x_open (w_ch w) = false) ->
  t' <> MU -> thread w t' = TLive (PSend c) f' -> can_go w.
Proof.
  intros H Hcap Hd Ho Hx Hne' Et'.
  destruct (i2_thr w H t') as (_ & B & _). specialize (B c f' Et').
  pose proof (wf_of w _ _ _ H Et') as Hw'.
  destruct c.
  - destruct Ho as [Ho|Ho]; [|cbn in B; congruence].
    eapply go_holder; [exact H|exact Hcap|exact Hne'|exact Et'|apply so_consumer_busy; assumption].
  - destruct Hx as [Hx|Hx]; [|cbn in B; congruence].
    destruct (ch_len w CTx <? cap) eqn:El.
    + apply (go_step w t' KEnd 0 eq_refl eq_refl Hne'). unfold Shutdown.step_thread. rewrite Et', El. discriminate.
    + apply Z.ltb_ge in El. eapply go_holder; [exact H|exact Hcap|exact Hne'|exact Et'|].
      apply pu_consumer_busy; try assumption.
      unfold ch_locked. destruct t'; cbn in Hw'; try discriminate; rewrite Et'; cbn; rewrite ?orb_true_r; reflexivity.
Qed.

Lemma go_lock w c t f :
  Inv2 w -> 1 <= cap -> d26_state cap w = false ->
  (so_pcs (pc_of w) = true \/ o_open (w_ch w) = false) ->
  (pu_pcs (pc_of w) = true \/ x_open (w_ch w) = false) ->
  t <> MU -> thread w t = TLive (PLock c) f -> can_go w.
Proof.
  intros H Hcap Hd Ho Hx Hne Et.
  destruct (ch_locked w c) eqn:El.
  - destruct (locked_holder w c El) as (t' & f' & Et' & Hne'). eapply go_send; eassumption.
  - apply (go_step w t KEnd 0 eq_refl eq_refl Hne). unfold Shutdown.step_thread. rewrite Et, El. destruct (ch_open w c); discriminate.
Qed.

(* a registered producer (not a consumer) can move, or someone it waits for can *)
Lemma go_producer w t p f :
  Inv2 w -> 1 <= cap -> d26_state cap w = false ->
  thread w t = TLive p f -> t <> SO -> t <> PU -> t <> MU -> t <> UN ->
  w_conn w = CNone ->
  (so_pcs (pc_of w) = true \/ o_open (w_ch w) = false) ->
  (pu_pcs (pc_of w) = true \/ x_open (w_ch w) = false) ->
  can_go w.
Proof.
  intros H Hcap Hd Et N1 N2 N3 N4 Hc Ho Hx.
  pose proof (wf_of w t p f H Et) as Hw.
  destruct p.
  - (* PTop *)
    apply (go_step w t KEnd 0 eq_refl eq_refl N3). unfold Shutdown.step_thread. rewrite Et. destruct t; cbn; try discriminate; congruence.
  - (* PRead *)
    destruct t; try discriminate. apply (go_step w MI KEnd 0 eq_refl eq_refl N3). unfold Shutdown.step_thread. rewrite Et. cbn.
    unfold read_step. rewrite Hc. discriminate.
  - apply (go_step w t KEnd 0 eq_refl eq_refl N3). unfold Shutdown.step_thread. rewrite Et. discriminate.
  - (* PWork *)
    apply (go_step w t KEnd 0 eq_refl eq_refl N3). unfold Shutdown.step_thread. rewrite Et. destruct t; cbn; try discriminate; try congruence.
  - apply (go_step w t KEnd 0 eq_refl eq_refl N3). unfold Shutdown.step_thread. rewrite Et. discriminate.
  - eapply go_lock; eassumption.
  - eapply go_send; eassumption.
  - destruct t; try discriminate; congruence.
  - destruct t; try discriminate; congruence.
Qed.

Lemma go_mu_early w p f :
  thread w MU = TLive p f -> p <> PWaitUn -> wf_pc MU p = true -> can_go w.
Proof.
  intros Et Hp Hw. exists (AStep MU KEnd 0). split; [reflexivity|]. split; [reflexivity|]. split.
  - unfold prompt_ok. rewrite Et. destruct p; try reflexivity. contradiction.
  - unfold Shutdown.step. unfold Shutdown.step_thread. rewrite Et.
    destruct p as [| | | | |c0|c0| |]; try destruct c0; try discriminate; cbn; try discriminate. contradiction.
Qed.

Lemma go_un w p f :
  Inv w -> Inv2 w -> 1 <= cap -> d26_state cap w = false ->
  thread w UN = TLive p f ->
  (so_pcs (pc_of w) = true \/ o_open (w_ch w) = false) ->
  (pu_pcs (pc_of w) = true \/ x_open (w_ch w) = false) ->
  can_go w.
Proof.
  intros HI H Hcap Hd Et Ho Hx.
  pose proof (wf_of w UN p f H Et) as Hw.
  assert (Hne : UN <> MU) by discriminate.
  destruct p as [| | | | |c0|c0| |]; try destruct c0; try discriminate.
  - (* PTop *)
    destruct (w_ustop w) eqn:Eu.
    + apply (go_step w UN KEnd 0 eq_refl eq_refl Hne). unfold Shutdown.step_thread. rewrite Et. cbn. rewrite Eu. discriminate.
    + (* monitorUntrustedNodes has not yet told it to stop: that thread can move *)
      pose proof (inv_unmu w HI) as Hum. unfold thread in Et. cbn in Et.
      destruct (t_mu (w_thr w)) as [| |pm fm|] eqn:Em.
      * rewrite Et in Hum. specialize (Hum (or_introl eq_refl)). discriminate.
      * rewrite Et in Hum. specialize (Hum (or_intror eq_refl)). discriminate.
      * assert (Etm : thread w MU = TLive pm fm) by exact Em.
        pose proof (wf_of w MU pm fm H Etm) as Hwm.
        eapply go_mu_early; [exact Etm| |exact Hwm].
        intros ->. destruct (i2_thr w H MU) as (_ & _ & C & _). rewrite (C eq_refl fm Etm) in Eu. discriminate.
      * rewrite Et in Hum. specialize (Hum (or_introl eq_refl)). discriminate.
  - (* PWork *)
    apply (go_step w UN KEnd 0 eq_refl eq_refl Hne). unfold Shutdown.step_thread. rewrite Et. cbn. discriminate.
  - eapply go_lock; eassumption.
  - eapply go_send; eassumption.
Qed.

Lemma go_mu w p f :
  Inv w -> Inv2 w -> 1 <= cap -> d26_state cap w = false ->
  thread w MU = TLive p f ->
  (so_pcs (pc_of w) = true \/ o_open (w_ch w) = false) ->
  (pu_pcs (pc_of w) = true \/ x_open (w_ch w) = false) ->
  can_go w.
Proof.
  intros HI H Hcap Hd Et Ho Hx.
  pose proof (wf_of w MU p f H Et) as Hw.
  destruct p as [| | | | |c0|c0| |]; try destruct c0; try discriminate.
  1-3: (eapply go_mu_early; [exact Et|discriminate|reflexivity]).
  (* PWaitUn *)
  destruct (thread w UN) as [| |pu fu|] eqn:Eu.
  2: { eapply go_reg; [exact Eu|discriminate]. }
  3: { assert (Hn : n_un (w_cnt w) = 0) by (rewrite (inv_un w HI); unfold thread in Eu; cbn in Eu; rewrite Eu; reflexivity).
       exists (AStep MU KEnd 0). split; [reflexivity|]. split; [reflexivity|]. split.
       - unfold prompt_ok. rewrite Et, Eu. rewrite orb_true_r. reflexivity.
       - unfold Shutdown.step, Shutdown.step_thread. rewrite Et. rewrite Hn. cbn. discriminate. }
  - assert (Hn : n_un (w_cnt w) = 0) by (rewrite (inv_un w HI); unfold thread in Eu; cbn in Eu; rewrite Eu; reflexivity).
    exists (AStep MU KEnd 0). split; [reflexivity|]. split; [reflexivity|]. split.
    + unfold prompt_ok. rewrite Et, Eu. rewrite orb_true_r. reflexivity.
    + unfold Shutdown.step, Shutdown.step_thread. rewrite Et. rewrite Hn. cbn. discriminate.
  - eapply go_un; eassumption.
Qed.


Lemma go_run w : (match pc_of w with RWaitIn | RWaitProc => False | _ => True end) -> step_run w true <> None -> can_go w.
Proof.
  intros Hp Hs. exists (ARun true). split; [reflexivity|]. split; [reflexivity|]. split; [|exact Hs].
  unfold prompt_ok. destruct (pc_of w); try reflexivity; contradiction.
Qed.

Lemma live_cases s : live s = 1 \/ live s = 0.
Proof. destruct s; cbn; auto. Qed.
Lemma live_is s : live s = 1 -> exists p f, s = TLive p f.
Proof. destruct s; cbn; try discriminate. eauto. Qed.

(* a consumer after its channel was closed: it takes what is left, then returns *)
Lemma go_consumer_closed w tc c p f :
  (tc = SO /\ c = COut \/ tc = PU /\ c = CTx) -> Inv2 w -> thread w tc = TLive p f -> ch_open w c = false -> can_go w.
Proof.
  intros Htc H Et Ho. pose proof (wf_of w tc p f H Et) as Hw.
  assert (Hne : tc <> MU) by (destruct Htc as [[-> _]|[-> _]]; discriminate).
  apply (go_step w tc KEnd 0 eq_refl eq_refl Hne). unfold Shutdown.step_thread. rewrite Et.
  destruct Htc as [[-> ->]|[-> ->]]; destruct p as [| | | | |c0|c0| |]; try destruct c0; try discriminate; cbn in *;
    unfold consume; cbn; rewrite ?Ho; try discriminate.
  all: match goal with |- context [0 <? ?x] => destruct (0 <? x) end; discriminate.
Qed.

(* progress: after a stop request the protocol is never stuck, except in the D26 states *)
Theorem progress w :
  Inv w -> Inv2 w -> d_rlock (w_dat w) = false -> 1 <= cap -> stopping w = true -> stopped w = false ->
  d26_state cap w = false -> can_go w.
Proof.
  intros HI H Hrl Hcap Hst Hns Hd.
  destruct (pc_of w) eqn:Ep.
  - apply go_run; [rewrite Ep; exact I|]. unfold Shutdown.step_run. rewrite Ep. discriminate.
  - apply go_run; [rewrite Ep; exact I|]. unfold Shutdown.step_run. rewrite Ep. discriminate.
  - apply go_run; [rewrite Ep; exact I|]. unfold Shutdown.step_run. rewrite Ep, Hst. discriminate.
  - apply go_run; [rewrite Ep; exact I|]. unfold Shutdown.step_run. rewrite Ep. discriminate.
  - (* RWaitIn *)
    assert (Hc : w_conn w = CNone) by (apply (i2_conn w H); rewrite Ep; reflexivity).
    assert (Ho : so_pcs (pc_of w) = true \/ o_open (w_ch w) = false) by (left; rewrite Ep; reflexivity).
    assert (Hx : pu_pcs (pc_of w) = true \/ x_open (w_ch w) = false) by (left; rewrite Ep; reflexivity).
    destruct (thread w MI) as [| |pm fm|] eqn:Emi; try (eapply go_reg; [eassumption|discriminate]).
    2: { eapply go_producer; try eassumption; discriminate. }
    all: destruct (thread w CD) as [| |pc0 fc|] eqn:Ecd; try (eapply go_reg; [eassumption|discriminate]).
    all: try (eapply (go_producer w CD); try eassumption; discriminate).
    all: destruct (thread w MU) as [| |pu fu|] eqn:Emu; try (eapply go_reg; [eassumption|discriminate]).
    all: try (eapply go_mu; eassumption).
    all: (exists (ARun true); split; [reflexivity|]; split; [reflexivity|];
          assert (Hn : n_in (w_cnt w) = 0)
            by (rewrite (inv_in w HI); unfold thread in *; cbn in *; rewrite Emi, Ecd, Emu; reflexivity);
          split; [unfold prompt_ok; rewrite Ep; unfold no_spawned_incoming; rewrite Emi, Ecd, Emu; rewrite orb_true_r; reflexivity|];
          cbn; unfold Shutdown.step_run; rewrite Ep, Hn; discriminate).
  - (* RCloseOut *)
    destruct (ch_locked w COut) eqn:El.
    + destruct (locked_holder w COut El) as (t' & f' & Et' & Hne').
      eapply go_send; try eassumption; left; rewrite Ep; reflexivity.
    + apply go_run; [rewrite Ep; exact I|]. unfold Shutdown.step_run. rewrite Ep, El. discriminate.
  - (* RCloseTx *)
    destruct (ch_locked w CTx) eqn:El.
    + destruct (locked_holder w CTx El) as (t' & f' & Et' & Hne').
      eapply go_send; try eassumption; [right; apply (i2_oclosed w H); rewrite Ep; reflexivity|left; rewrite Ep; reflexivity].
    + apply go_run; [rewrite Ep; exact I|]. unfold Shutdown.step_run. rewrite Ep, El. discriminate.
  - (* RWaitProc *)
    assert (Hc : w_conn w = CNone) by (apply (i2_conn w H); rewrite Ep; reflexivity).
    assert (Hoc : o_open (w_ch w) = false) by (apply (i2_oclosed w H); rewrite Ep; reflexivity).
    assert (Hxc : x_open (w_ch w) = false) by (apply (i2_xclosed w H); rewrite Ep; reflexivity).
    assert (Ho : so_pcs (pc_of w) = true \/ o_open (w_ch w) = false) by (right; exact Hoc).
    assert (Hx : pu_pcs (pc_of w) = true \/ x_open (w_ch w) = false) by (right; exact Hxc).
    destruct (thread w RT) as [| |p1 f1|] eqn:E1; try (eapply go_reg; [eassumption|discriminate]).
    2: { eapply go_producer; try eassumption; discriminate. }
    all: destruct (thread w SO) as [| |p2 f2|] eqn:E2; try (eapply go_reg; [eassumption|discriminate]).
    all: try (eapply (go_consumer_closed w SO COut); [left; auto|exact H|eassumption|exact Hoc]).
    all: destruct (thread w PB) as [| |p3 f3|] eqn:E3; try (eapply go_reg; [eassumption|discriminate]).
    all: try (eapply (go_producer w PB); try eassumption; discriminate).
    all: destruct (thread w PU) as [| |p4 f4|] eqn:E4; try (eapply go_reg; [eassumption|discriminate]).
    all: try (eapply (go_consumer_closed w PU CTx); [right; auto|exact H|eassumption|exact Hxc]).
    all: (exists (ARun true); split; [reflexivity|]; split; [reflexivity|];
          assert (Hn : n_proc (w_cnt w) = 0)
            by (rewrite (inv_proc w HI); unfold thread in *; cbn in *; rewrite E1, E2, E3, E4; reflexivity);
          split; [unfold prompt_ok; rewrite Ep; unfold no_spawned_processing; rewrite E1, E2, E3, E4; rewrite orb_true_r; reflexivity|];
          cbn; unfold Shutdown.step_run; rewrite Ep, Hn; discriminate).
  - apply go_run; [rewrite Ep; exact I|]. unfold Shutdown.step_run. rewrite Ep, Hrl. discriminate.
  - apply go_run; [rewrite Ep; exact I|]. unfold Shutdown.step_run. rewrite Ep. discriminate.
  - apply go_run; [rewrite Ep; exact I|]. unfold Shutdown.step_run. rewrite Ep. discriminate.
  - apply (inv_stopped w HI) in Ep. congruence.
Qed.


(* with the repaired consumer (it keeps draining after an error) no D26 state is reachable *)
Lemma no_d26_daf w : daf = true -> Inv2 w -> d26_state cap w = false.
Proof.
  intros Hd H. unfold d26_state.
  destruct (thread w PU) eqn:Et; try reflexivity.
  destruct (ch_locked w CTx); [|reflexivity]. cbn [andb].
  destruct (ch_open w CTx) eqn:Eo; [|reflexivity]. exfalso.
  destruct (i2_thr w H PU) as (_ & _ & _ & _ & E). destruct (E eq_refl) as [_ E2].
  destruct (E2 Et Eo) as [_ Hf]. congruence.
Qed.

Theorem progress_daf w :
  daf = true -> Inv w -> Inv2 w -> d_rlock (w_dat w) = false -> 1 <= cap -> stopping w = true -> stopped w = false -> can_go w.
Proof. intros Hd HI H Hrl Hc Hst Hs. apply progress; try assumption. apply no_d26_daf; assumption. Qed.

(* ---------------------------------------------------------------------------------------------- *)
(* the ranking function *)

Lemma rank_ext w w' :
  pc_of w' = pc_of w -> w_thr w' = w_thr w -> o_len (w_ch w') = o_len (w_ch w) -> x_len (w_ch w') = x_len (w_ch w) ->
  rank w' = rank w.
Proof. unfold rank. intros -> -> -> ->. reflexivity. Qed.

Lemma rank_set_cnt w c : rank (set_cnt w c) = rank w.
Proof. apply rank_ext; reflexivity. Qed.
Lemma rank_set_ustop w b : rank (set_ustop w b) = rank w.
Proof. apply rank_ext; reflexivity. Qed.
Lemma rank_callback w t : rank (callback w t) = rank w.
Proof. apply rank_ext; reflexivity. Qed.
Lemma rank_set_inbox w n : rank (set_inbox w n) = rank w.
Proof. apply rank_ext; reflexivity. Qed.
Lemma rank_set_pufail w : rank (set_pufail w) = rank w.
Proof. apply rank_ext; reflexivity. Qed.
Lemma rank_set_stopping w b : rank (set_stopping w b) = rank w.
Proof. apply rank_ext; reflexivity. Qed.
Lemma rank_set_needs w b : rank (set_needs w b) = rank w.
Proof. apply rank_ext; reflexivity. Qed.

Lemma rank_set_thread w t s : rank (set_thread w t s) = rank w - rank_thread t (thread w t) + rank_thread t s.
Proof. destruct t; unfold rank, thread, pc_of; cbn; lia. Qed.

Lemma rank_exit w t : rank (exit_thread w t) = rank w - rank_thread t (thread w t).
Proof. unfold exit_thread. rewrite rank_set_cnt, rank_set_thread. cbn. lia. Qed.

Lemma rank_set_ch_len w c n : rank (set_ch_len w c n) = rank w + 3 * (n - ch_len w c).
Proof. destruct c; unfold rank, pc_of; cbn; lia. Qed.

Lemma rank_request_stop w : rank (request_stop w) = rank w.
Proof. unfold request_stop. destruct (stopped w || stopping w); [reflexivity|apply rank_set_stopping]. Qed.
Lemma rank_restart w : rank (restart w) = rank w.
Proof. unfold restart. destruct (stopping w); [reflexivity|]. rewrite rank_set_stopping. apply rank_set_needs. Qed.

Lemma rank_live_pos t p f : 1 <= rank_thread t (TLive p f).
Proof. unfold rank_thread, rank_pc, W. destruct p, t; lia. Qed.

Lemma rank_thread_nonneg t s : 0 <= rank_thread t s.
Proof.
  destruct s as [| |p f|]; [cbn; lia|destruct t; cbn; lia|pose proof (rank_live_pos t p f); lia|cbn; lia].
Qed.

Ltac rk := unfold rank_thread, rank_pc, W; try lia.

Lemma rank_after_add w t f ok p :
  thread w t = TLive p f ->
  rank (after_add w t f ok) <= rank w - rank_thread t (TLive p f) + rank_thread t (TLive PWork f).
Proof.
  intros Et. unfold after_add.
  assert (Hpos : 0 <= rank_thread t (TLive PWork f)) by apply rank_thread_nonneg.
  pose proof (rank_live_pos t p f) as Hp.
  destruct t, ok; try (rewrite rank_set_thread, Et; lia).
  all: try (rewrite rank_exit, Et; lia).
  all: rewrite rank_set_thread, Et; change (rank_thread AP TNone) with 0; lia.
Qed.

Lemma some_inj {A} (x y : A) : Some x = Some y -> x = y.
Proof. congruence. Qed.

Lemma areg_inv w t w' : step w (AReg t) = Some w' -> t <> AP /\ thread w t = TSpawned /\ w' = register w t.
Proof.
  unfold Shutdown.step. intros E.
  destruct t; try discriminate;
    match type of E with match ?x with _ => _ end = _ => destruct x eqn:Et end; try discriminate;
    apply some_inj in E; subst w'; (split; [discriminate|split; reflexivity]).
Qed.
Lemma aapi_inv w w' : step w AApiTx = Some w' -> thread w AP = TNone /\ w' = set_thread w AP (TLive (PLock CTx) 0).
Proof.
  unfold Shutdown.step. intros E. destruct (thread w AP) eqn:Et; try discriminate. apply some_inj in E. auto.
Qed.

Lemma rank_step_thread w t k n w' :
  stopping w = true -> step_thread w t k n = Some w' -> rank w' < rank w.
Proof.
  intros Hst E. unfold Shutdown.step_thread in E.
  destruct (thread w t) as [| |p f|] eqn:Et; try discriminate.
  pose proof (rank_live_pos t p f) as Hpos.
  destruct p.
  - (* PTop *)
    unfold top_step in E. rewrite Hst in E.
    destruct t; try ((apply some_inj in E; subst w'); rewrite rank_exit, Et; lia).
    + (* SO *) unfold consume in E. destruct (0 <? ch_len w COut); [|destruct (ch_open w COut); [discriminate|]]; (apply some_inj in E; subst w').
      * rewrite rank_set_thread, rank_set_ch_len. unfold thread in *. cbn in *. rewrite Et. rk.
      * rewrite rank_exit, Et. lia.
    + (* PU *) unfold consume in E. destruct (0 <? ch_len w CTx); [|destruct (ch_open w CTx); [discriminate|]]; (apply some_inj in E; subst w').
      * rewrite rank_set_thread, rank_set_ch_len. unfold thread in *. cbn in *. rewrite Et. rk.
      * rewrite rank_exit, Et. lia.
    + (* MU *) (apply some_inj in E; subst w'). rewrite rank_set_thread, Et. rk.
    + (* UN *) destruct (w_ustop w); [|discriminate]. (apply some_inj in E; subst w'). rewrite rank_exit, Et. lia.
    + discriminate.
  - (* PRead *)
    destruct t; try discriminate. unfold read_step in E.
    destruct (w_conn w).
    + (apply some_inj in E; subst w'). rewrite rank_exit. rewrite thread_restart, Et, rank_restart. lia.
    + destruct (0 <? w_inbox w); [|discriminate]. (apply some_inj in E; subst w').
      rewrite rank_set_thread, rank_set_inbox.
      change (thread (set_inbox w (w_inbox w - 1)) MI) with (thread w MI). rewrite Et. rk.
    + destruct (0 <? w_inbox w); (apply some_inj in E; subst w').
      * rewrite rank_set_thread, rank_set_inbox.
        change (thread (set_inbox w (w_inbox w - 1)) MI) with (thread w MI). rewrite Et. rk.
      * rewrite rank_exit. rewrite thread_restart, Et, rank_restart. lia.
  - (* PGate *)
    rewrite Hst in E. (apply some_inj in E; subst w'). rewrite rank_set_thread, Et. rk. destruct t; lia.
  - (* PWork *)
    unfold Shutdown.work_step in E.
    assert (Hprod : forall w'', match k, f with
      | KFail, _ => Some (fail_exit w t)
      | KCall, S f' => Some (set_thread (callback w t) t (TLive PWork f'))
      | KOut, S f' => if uses_out t then Some (set_thread w t (TLive PQOut f')) else Some (end_body w t)
      | KTx, S f' => if uses_tx t then Some (set_thread w t (TLive (PLock CTx) f')) else Some (end_body w t)
      | KSpawn, S f' => match t with
                        | MU => Some (spawn_un (set_thread w MU (TLive PWork f')))
                        | _ => Some (end_body w t)
                        end
      | _, _ => Some (end_body w t)
      end = Some w'' -> rank w'' < rank w).
    { intros w'' E'.
      assert (Hend : rank (end_body w t) < rank w).
      { unfold end_body. rewrite rank_set_thread, Et. rk. destruct t; lia. }
      assert (Hfail : rank (fail_exit w t) < rank w).
      { unfold Shutdown.fail_exit. destruct t; try exact Hend.
        all: rewrite rank_exit, ?thread_request_stop, ?thread_restart, Et, ?rank_request_stop, ?rank_restart; lia. }
      destruct k, f as [|f']; try ((apply some_inj in E'; subst w''); first [exact Hend|exact Hfail]).
      - (apply some_inj in E'; subst w''). rewrite rank_set_thread, rank_callback.
        change (thread (callback w t) t) with (thread w t). rewrite Et. rk. destruct t; lia.
      - destruct (uses_out t); (apply some_inj in E'; subst w''); [|exact Hend]. rewrite rank_set_thread, Et. rk. destruct t; lia.
      - destruct (uses_tx t); (apply some_inj in E'; subst w''); [|exact Hend]. rewrite rank_set_thread, Et. rk. destruct t; lia.
      - destruct t; (apply some_inj in E'; subst w''); try exact Hend.
        unfold spawn_un.
        assert (Hb : rank (set_thread w MU (TLive PWork f')) = rank w - W) .
        { rewrite rank_set_thread, Et. rk. }
        destruct (thread (set_thread w MU (TLive PWork f')) UN) eqn:Eu; try (rewrite Hb; unfold W; lia).
        all: rewrite rank_set_ustop, rank_set_thread, Eu, Hb; rk. }
    destruct t; try (apply Hprod; exact E).
    + (apply some_inj in E; subst w'). unfold so_after_fail.
      destruct k; rewrite rank_set_thread, ?thread_restart, ?rank_restart, Et; rk.
    + destruct k; destruct (d_pufail (w_dat w)); try destruct daf; (apply some_inj in E; subst w').
      all: try (rewrite rank_set_thread, rank_callback;
                change (thread (callback w PU) PU) with (thread w PU); rewrite Et; rk).
      all: try (rewrite rank_set_thread, Et; rk).
      all: try (rewrite rank_set_thread, rank_set_pufail;
                change (thread (set_pufail (request_stop w)) PU) with (thread (request_stop w) PU);
                rewrite thread_request_stop, rank_request_stop, Et; rk).
      rewrite rank_exit, rank_set_pufail. change (thread (set_pufail (request_stop w)) PU) with (thread (request_stop w) PU).
      rewrite thread_request_stop, rank_request_stop, Et. lia.
    + discriminate.
  - (* PQOut *)
    rewrite Hst in E. (apply some_inj in E; subst w').
    pose proof (rank_after_add w t f false PQOut Et) as Ha. revert Ha. rk. destruct t; lia.
  - (* PLock *)
    destruct (ch_locked w c); [discriminate|]. destruct (ch_open w c); (apply some_inj in E; subst w').
    + rewrite rank_set_thread, Et. rk. destruct t; lia.
    + pose proof (rank_after_add w t f false (PLock c) Et) as Ha. revert Ha. rk. destruct t; lia.
  - (* PSend *)
    destruct (ch_len w c <? cap); [|discriminate]. (apply some_inj in E; subst w').
    assert (Et' : thread (set_ch_len w c (ch_len w c + 1)) t = TLive (PSend c) f) by (destruct c; exact Et).
    pose proof (rank_after_add _ t f true (PSend c) Et') as Ha. rewrite rank_set_ch_len in Ha. revert Ha. rk. destruct t; lia.
  - (* PStopUn *)
    (apply some_inj in E; subst w'). rewrite rank_set_thread, rank_set_ustop.
    change (thread (set_ustop w true) t) with (thread w t). rewrite Et. rk.
  - (* PWaitUn *)
    destruct (n_un (w_cnt w) =? 0); [|discriminate]. (apply some_inj in E; subst w'). rewrite rank_exit, Et. lia.
Qed.


Lemma rank_set_pc w p : rank (set_pc w p) = rank w - rank_run (pc_of w) + rank_run p.
Proof. unfold rank, pc_of. cbn. lia. Qed.

Lemma rank_dead s t : busy s = false -> rank_thread t s = 0.
Proof. destruct s; cbn; congruence. Qed.

Lemma rank_step_run w ok w' :
  Inv w -> Inv2 w -> stopping w = true -> hard w = true -> step_run w ok = Some w' -> rank w' < rank w.
Proof.
  intros HI H Hst Hh E. unfold Shutdown.step_run in E.
  destruct (pc_of w) eqn:Ep.
  - rewrite Hst in E. apply some_inj in E; subst w'. rewrite rank_set_pc, Ep. cbn. lia.
  - apply some_inj in E; subst w'. destruct ok.
    + assert (Hd : all_dead (w_thr w)) by (apply (inv_idle w HI); rewrite Ep; reflexivity).
      destruct Hd as (D1 & D2 & D3 & D4 & D5 & D6 & D7 & D8). destruct (i2_len w H) as [L1 L2].
      unfold rank, Shutdown.connect, pc_of in *. cbn. rewrite Ep.
      rewrite (rank_dead _ MI D1), (rank_dead _ RT D2), (rank_dead _ SO D3), (rank_dead _ PB D4), (rank_dead _ PU D5),
        (rank_dead _ CD D6), (rank_dead _ UN D8), (rank_dead _ MU D7).
      destruct ucfg; cbn; rewrite ?(rank_dead _ MU D7); lia.
    + rewrite rank_set_pc, Ep. cbn. lia.
  - rewrite Hst in E. apply some_inj in E; subst w'. rewrite rank_set_pc, Ep. cbn. lia.
  - apply some_inj in E; subst w'. rewrite rank_set_pc. unfold pc_of in *. cbn. rewrite Ep.
    rewrite (rank_ext (set_conn w CNone) w) by reflexivity. cbn. lia.
  - destruct (n_in (w_cnt w) =? 0); [|discriminate]. apply some_inj in E; subst w'. rewrite rank_set_pc, Ep. cbn. lia.
  - destruct (ch_locked w COut); [discriminate|]. apply some_inj in E; subst w'. rewrite rank_set_pc.
    destruct (i2_len w H) as [L1 L2]. unfold pc_of in *. cbn. rewrite Ep.
    rewrite (rank_ext (set_ch_open w COut false) w) by reflexivity. cbn. lia.
  - destruct (ch_locked w CTx); [discriminate|]. apply some_inj in E; subst w'. rewrite rank_set_pc.
    unfold pc_of in *. cbn. rewrite Ep.
    rewrite (rank_ext (set_ch_open w CTx false) w) by reflexivity. cbn. lia.
  - destruct (n_proc (w_cnt w) =? 0); [|discriminate]. apply some_inj in E; subst w'. rewrite rank_set_pc, Ep. cbn. lia.
  - destruct (d_rlock (w_dat w)); [discriminate|].
    apply some_inj in E; subst w'. rewrite rank_set_pc. unfold pc_of in *. cbn. rewrite Ep.
    rewrite (rank_ext (save w) w) by reflexivity. cbn. lia.
  - rewrite Hh in E. rewrite orb_true_r in E. apply some_inj in E; subst w'. rewrite rank_set_pc, Ep. cbn. lia.
  - apply some_inj in E; subst w'. rewrite rank_set_pc. unfold pc_of in *. cbn. rewrite Ep.
    rewrite (rank_ext (set_stopped w true) w) by reflexivity. cbn. lia.
  - discriminate.
Qed.

(* every enabled step of the run loop or of a goroutine strictly decreases the rank once a stop was
   requested by the application (stopping and hardStop are set, and stay set) *)
Theorem rank_decreases w a w' :
  Inv w -> Inv2 w -> stopping w = true -> hard w = true ->
  thread_act a = true -> step w a = Some w' -> rank w' < rank w.
Proof.
  intros HI H Hst Hh Ha E. destruct a; try discriminate; cbn in E.
  - eapply rank_step_run; eassumption.
  - apply areg_inv in E. destruct E as (Hap & Et & ->).
    unfold register. rewrite rank_set_cnt, rank_set_thread, Et. cbn. destruct t; lia.
  - eapply rank_step_thread; eassumption.
Qed.

(* steps of the environment: the trusted peer and further calls of Stop never increase the rank; a
   message of an untrusted peer adds at most the work it carries, a call of the public API (HandleTx)
   the few steps of one TxChannel.Add and of taking its item *)
Theorem rank_env w a w' :
  thread_act a = false -> step w a = Some w' ->
  match a with
  | AUnMsg n => rank w' <= rank w + 1 + W * Z.of_nat n
  | AApiTx => rank w' <= rank w + 7
  | _ => rank w' = rank w
  end.
Proof.
  intros Ha E. destruct a; try discriminate; cbn in E.
  - destruct (stopped w); [discriminate|]. destruct (stopcall w =? 0); [|discriminate]. apply some_inj in E; subst w'.
    apply rank_ext; reflexivity.
  - destruct (stopcall w =? 1); [|discriminate]. apply some_inj in E; subst w'.
    rewrite (rank_ext (request_stop w) (set_call (request_stop w) 2)) by reflexivity. apply rank_request_stop.
  - destruct (w_conn w); try discriminate. apply some_inj in E; subst w'. apply rank_set_inbox.
  - destruct (w_conn w); try discriminate. apply some_inj in E; subst w'. apply rank_ext; reflexivity.
  - unfold thread in E. cbn in E. destruct (t_un (w_thr w)) as [| |p f|] eqn:Et; try discriminate. destruct p; try discriminate.
    destruct (w_ustop w); [discriminate|]. apply some_inj in E; subst w'.
    rewrite rank_set_thread. unfold thread. cbn. rewrite Et. unfold rank_thread, rank_pc, W. lia.
  - unfold thread in E. cbn in E. destruct (t_ap (w_thr w)) eqn:Et; try discriminate. apply some_inj in E; subst w'.
    rewrite rank_set_thread. unfold thread. cbn. rewrite Et. unfold rank_thread, rank_pc, W. lia.
Qed.

(* goroutine steps change the control flags only through restart() and requestStop() *)
Lemma ctl_step_thread w t k n w' :
  step_thread w t k n = Some w' ->
  w_ctl w' = w_ctl w \/ w_ctl w' = w_ctl (restart w) \/ w_ctl w' = w_ctl (request_stop w).
Proof.
  unfold Shutdown.step_thread. destruct (thread w t) as [| |p f|]; try discriminate.
  Ltac ctl3 := first [left; reflexivity|right; left; reflexivity|right; right; reflexivity].
  Ltac splitifs E := repeat match type of E with context [if ?c then _ else _] => destruct c end.
  destruct p; intros E.
  - unfold top_step, consume in E. destruct t; splitifs E; try discriminate; try (destruct (w_conn w));
      apply some_inj in E; subst w'; ctl3.
  - destruct t; try discriminate. unfold read_step in E.
    destruct (w_conn w); splitifs E; try discriminate; apply some_inj in E; subst w'; ctl3.
  - destruct (stopping w); apply some_inj in E; subst w'; ctl3.
  - unfold Shutdown.work_step, fail_exit, end_body, spawn_un in E.
    destruct t, k, f; splitifs E; try discriminate; apply some_inj in E; subst w'; try ctl3.
    all: cbn [thread set_thread set_thr w_thr tget tset]; destruct (t_un (w_thr w)); ctl3.
  - unfold after_add in E. destruct (stopping w), t; apply some_inj in E; subst w'; ctl3.
  - unfold after_add in E. destruct (ch_locked w c); [discriminate|]. destruct (ch_open w c), t; apply some_inj in E; subst w'; ctl3.
  - unfold after_add in E. destruct (ch_len w c <? cap); [|discriminate]. destruct t, c; apply some_inj in E; subst w'; ctl3.
  - apply some_inj in E; subst w'; ctl3.
  - destruct (n_un (w_cnt w) =? 0); [|discriminate]. apply some_inj in E; subst w'; ctl3.
Qed.

(* stopping and hardStop stay set *)
Lemma hard_stop_stable w a : stopping w = true -> hard w = true -> stopping (apply w a) = true /\ hard (apply w a) = true.
Proof.
  intros Hst Hh.
  assert (Hrs : w_ctl (restart w) = w_ctl w) by (unfold restart; rewrite Hst; reflexivity).
  assert (Hrq : w_ctl (request_stop w) = w_ctl w) by (unfold request_stop; rewrite Hst, orb_true_r; reflexivity).
  unfold Shutdown.apply. destruct (step w a) as [w'|] eqn:E; [|auto].
  unfold stopping, hard in *.
  destruct a; cbn in E.
  - unfold Shutdown.step_run, stopping, hard, needs in E. destruct (pc_of w) eqn:Ep.
    all: rewrite ?Hst, ?Hh, ?orb_true_r in E.
    all: splitifs E; try discriminate; apply some_inj in E; subst w'; cbn; auto.
  - destruct (stopped w); [discriminate|]. destruct (stopcall w =? 0); [|discriminate]. apply some_inj in E; subst w'. cbn; auto.
  - destruct (stopcall w =? 1); [|discriminate]. apply some_inj in E; subst w'. cbn. rewrite Hrq. auto.
  - destruct (w_conn w); try discriminate. apply some_inj in E; subst w'. cbn; auto.
  - destruct (w_conn w); try discriminate. apply some_inj in E; subst w'. cbn; auto.
  - unfold thread in E. cbn in E. destruct (t_un (w_thr w)) as [| |p f|]; try discriminate. destruct p; try discriminate.
    destruct (w_ustop w); [discriminate|]. apply some_inj in E; subst w'. cbn; auto.
  - unfold thread in E. cbn in E. destruct (t_ap (w_thr w)); try discriminate. apply some_inj in E; subst w'. cbn; auto.
  - change (step w (AReg t) = Some w') in E. apply areg_inv in E. destruct E as (_ & _ & ->). cbn; auto.
  - apply ctl_step_thread in E. destruct E as [E|[E|E]]; rewrite E, ?Hrs, ?Hrq; auto.
Qed.


(* ---------------------------------------------------------------------------------------------- *)
(* stop_terminates *)

Lemma stop_requested_flags w : Inv2 w -> stopcall w = 2 -> stopping w = true /\ hard w = true.
Proof. intros H Hc. destruct (i2_call w H) as (_ & B & C). split; [apply C, Hc|apply B; lia]. Qed.

Definition is_some {A} (o : option A) : bool := match o with Some _ => true | None => false end.

(* number of enabled run-loop / goroutine steps taken along a continuation *)
Fixpoint effective (w : sw) (acts : list act) : Z :=
  match acts with
  | [] => 0
  | a :: acts' => (if thread_act a && is_some (step w a) then 1 else 0) + effective (apply w a) acts'
  end.

(* work brought in by messages of the untrusted peer that were accepted, and by calls of the public
   API (HandleTx) that were begun, along a continuation *)
Fixpoint injected (w : sw) (acts : list act) : Z :=
  match acts with
  | [] => 0
  | a :: acts' => (match a with
                   | AUnMsg n => if is_some (step w a) then 1 + W * Z.of_nat n else 0
                   | AApiTx => if is_some (step w a) then 7 else 0
                   | _ => 0
                   end) + injected (apply w a) acts'
  end.

(* bounded work: along EVERY continuation (any interleaving with the environment) the number of
   enabled run-loop / goroutine steps is bounded by the rank of the state in which the stop was
   requested plus the work injected by untrusted-peer messages *)
Theorem stop_bounded_work : forall acts' w,
  Inv w -> Inv2 w -> stopping w = true -> hard w = true -> prompt_from w acts' = true ->
  rank (run_from w acts') + effective w acts' <= rank w + injected w acts'.
Proof.
  induction acts' as [|a acts' IH]; intros w HI H Hst Hh Hp; [cbn; lia|].
  cbn in Hp. apply andb_true_iff in Hp. destruct Hp as [Hp1 Hp2].
  pose proof (Inv_step cap ucfg daf w a HI Hp1) as HI'. pose proof (Inv2_step w a H) as H'.
  destruct (hard_stop_stable w a Hst Hh) as [Hst' Hh'].
  specialize (IH (apply w a) HI' H' Hst' Hh' Hp2).
  cbn [Shutdown.run_from fold_left effective injected]. fold (run_from (apply w a) acts').
  unfold Shutdown.apply in *. destruct (step w a) as [w'|] eqn:E.
  - destruct (thread_act a) eqn:Ea.
    + pose proof (rank_decreases w a w' HI H Hst Hh Ea E) as Hd. cbn.
      destruct a; try discriminate; lia.
    + pose proof (rank_env w a w' Ea E) as He. cbn. destruct a; try discriminate; lia.
  - cbn. rewrite andb_false_r. destruct a; lia.
Qed.

(* an untrusted-peer message is accepted after the stop request only while monitorUntrustedNodes is
   still on its way to "Stop all" - and that goroutine is then never blocked *)
Theorem injection_needs_mu w n :
  Inv w -> Inv2 w -> step w (AUnMsg n) <> None ->
  exists p f, thread w MU = TLive p f /\ p <> PWaitUn /\ step w (AStep MU KEnd 0) <> None.
Proof.
  intros HI H Hs. unfold Shutdown.step in Hs.
  destruct (thread w UN) as [| |pu fu|] eqn:Eu; try congruence. destruct pu; try congruence.
  destruct (w_ustop w) eqn:Es; [congruence|].
  pose proof (inv_unmu w HI) as Hum. unfold thread in Eu. cbn in Eu. rewrite Eu in Hum.
  destruct (t_mu (w_thr w)) as [| |pm fm|] eqn:Em.
  - specialize (Hum (or_introl eq_refl)). discriminate.
  - specialize (Hum (or_intror eq_refl)). discriminate.
  - assert (Etm : thread w MU = TLive pm fm) by exact Em.
    pose proof (wf_of w MU pm fm H Etm) as Hw.
    assert (Hne : pm <> PWaitUn).
    { intros ->. destruct (i2_thr w H MU) as (_ & _ & C & _). rewrite (C eq_refl fm Etm) in Es. discriminate. }
    exists pm, fm. split; [exact Etm|]. split; [exact Hne|].
    cbn. unfold Shutdown.step_thread. rewrite Etm.
    destruct pm as [| | | | |c0|c0| |]; try destruct c0; try discriminate; cbn; try discriminate. contradiction.
  - specialize (Hum (or_introl eq_refl)). discriminate.
Qed.

(* ... and every step of monitorUntrustedNodes brings it closer to "Stop all" *)
Theorem mu_dist_decreases w a w' :
  Inv2 w -> stopping w = true -> (a = AReg MU \/ exists k n, a = AStep MU k n) -> step w a = Some w' ->
  (forall f, thread w MU <> TLive PWaitUn f) ->
  mu_dist ucfg w' < mu_dist ucfg w.
Proof.
  intros H Hst Ha E Hnw.
  Ltac mud Et := unfold mu_dist, pc_of, thread in *; cbn in *; rewrite ?Et; unfold W;
                 match goal with |- context [c_pc ?c] => destruct (c_pc c) end; try destruct ucfg; lia.
  destruct Ha as [->|(k & n & ->)]; unfold Shutdown.step in E.
  - destruct (thread w MU) eqn:Et; try discriminate. apply some_inj in E; subst w'. mud Et.
  - unfold Shutdown.step_thread in E. destruct (thread w MU) as [| |p f|] eqn:Et; try discriminate.
    pose proof (wf_of w MU p f H Et) as Hw.
    destruct p as [| | | | |c0|c0| |]; try destruct c0; try discriminate.
    + cbn in E. rewrite Hst in E. apply some_inj in E; subst w'. mud Et.
    + unfold Shutdown.work_step, fail_exit, end_body in E. cbn in E.
      destruct k, f as [|f']; apply some_inj in E; subst w'; try (mud Et).
      unfold spawn_un. destruct (thread (set_thread w MU (TLive PWork f')) UN); mud Et.
    + apply some_inj in E; subst w'. mud Et.
    + elim (Hnw f eq_refl).
Qed.


(* steps of other goroutines do not touch monitorUntrustedNodes or the run loop's program point *)
Lemma frame_step_thread w t k n w' :
  t <> MU -> step_thread w t k n = Some w' -> pc_of w' = pc_of w /\ thread w' MU = thread w MU.
Proof.
  intros Hne. unfold Shutdown.step_thread. destruct (thread w t) as [| |p f|]; try discriminate.
  assert (Hrs : pc_of (restart w) = pc_of w /\ thread (restart w) MU = thread w MU).
  { unfold restart. destruct (stopping w); split; reflexivity. }
  assert (Hrq : pc_of (request_stop w) = pc_of w /\ thread (request_stop w) MU = thread w MU).
  { unfold request_stop. destruct (stopped w || stopping w); split; reflexivity. }
  destruct Hrs as [R1 R2]. destruct Hrq as [Q1 Q2].
  Ltac fr R1 R2 Q1 Q2 := unfold pc_of, thread in *; cbn; first [split; reflexivity|split; [exact R1|exact R2]|split; [exact Q1|exact Q2]].
  destruct p; intros E.
  - unfold top_step, consume in E. destruct t; try congruence; splitifs E; try discriminate; try (destruct (w_conn w));
      apply some_inj in E; subst w'; fr R1 R2 Q1 Q2.
  - destruct t; try discriminate. unfold read_step in E.
    destruct (w_conn w); splitifs E; try discriminate; apply some_inj in E; subst w'; fr R1 R2 Q1 Q2.
  - destruct t; try congruence; destruct (stopping w); apply some_inj in E; subst w'; fr R1 R2 Q1 Q2.
  - unfold Shutdown.work_step, fail_exit, end_body in E.
    destruct t; try congruence; destruct k, f; splitifs E; try discriminate; apply some_inj in E; subst w'; fr R1 R2 Q1 Q2.
  - unfold after_add in E. destruct t; try congruence; destruct (stopping w); apply some_inj in E; subst w'; fr R1 R2 Q1 Q2.
  - unfold after_add in E. destruct (ch_locked w c); [discriminate|].
    destruct t; try congruence; destruct (ch_open w c); apply some_inj in E; subst w'; fr R1 R2 Q1 Q2.
  - unfold after_add in E. destruct (ch_len w c <? cap); [|discriminate].
    destruct t; try congruence; destruct c; apply some_inj in E; subst w'; fr R1 R2 Q1 Q2.
  - destruct t; try congruence; apply some_inj in E; subst w'; fr R1 R2 Q1 Q2.
  - destruct (n_un (w_cnt w) =? 0); [|discriminate]. destruct t; try congruence; apply some_inj in E; subst w'; fr R1 R2 Q1 Q2.
Qed.

Theorem mu_dist_stable w a w' :
  Inv w -> stopping w = true -> hard w = true ->
  a <> AReg MU -> (forall k n, a <> AStep MU k n) -> step w a = Some w' ->
  mu_dist ucfg w' <= mu_dist ucfg w.
Proof.
  intros HI Hst Hh N1 N2 E.
  assert (Hsame : pc_of w' = pc_of w -> thread w' MU = thread w MU -> mu_dist ucfg w' <= mu_dist ucfg w).
  { intros E1 E2. unfold mu_dist. rewrite E1, E2. lia. }
  destruct a; unfold Shutdown.step in E.
  - unfold Shutdown.step_run in E. destruct (pc_of w) eqn:Ep.
    all: rewrite ?Hst, ?Hh, ?orb_true_r in E.
    all: splitifs E; try discriminate; apply some_inj in E; subst w'.
    all: try (unfold mu_dist, pc_of, thread in *; cbn; rewrite ?Ep; destruct ucfg;
              match goal with |- context [t_mu ?T] => destruct (t_mu T) as [| |[]|] | _ => idtac end; unfold W; lia).
  - destruct (stopped w); [discriminate|]. destruct (stopcall w =? 0); [|discriminate]. apply some_inj in E; subst w'.
    apply Hsame; reflexivity.
  - destruct (stopcall w =? 1); [|discriminate]. apply some_inj in E; subst w'.
    apply Hsame; unfold request_stop; destruct (stopped w || stopping w); reflexivity.
  - destruct (w_conn w); try discriminate. apply some_inj in E; subst w'. apply Hsame; reflexivity.
  - destruct (w_conn w); try discriminate. apply some_inj in E; subst w'. apply Hsame; reflexivity.
  - unfold thread in E. cbn in E. destruct (t_un (w_thr w)) as [| |p f|]; try discriminate. destruct p; try discriminate.
    destruct (w_ustop w); [discriminate|]. apply some_inj in E; subst w'. apply Hsame; reflexivity.
  - unfold thread in E. cbn in E. destruct (t_ap (w_thr w)); try discriminate. apply some_inj in E; subst w'. apply Hsame; reflexivity.
  - change (step w (AReg t) = Some w') in E. apply areg_inv in E. destruct E as (_ & Et & ->).
    destruct t; try congruence; apply Hsame; reflexivity.
  - destruct (tid_eq_dec t MU) as [->|Hne]; [elim (N2 k n eq_refl)|].
    destruct (frame_step_thread w t k n w' Hne E). apply Hsame; assumption.
Qed.

End Term.
