(* Proofs for the shutdown protocol (C19), part 4: monitorUntrustedNodes with its mutex and its list
   (the transition system `mstep` of model/Shutdown.v).
   For the code as it is (lock_early = false, dial_unlocked = false), over every sequence of actions:
   - the monitor holds untrustedLock only while it prunes: the lock is free when it reaches "stop all";
   - every untrusted node started for the list that has not finished is in the list;
   - no node keeps the announcement of a tx whose block was cleaned up; no peer is asked for such a tx;
   - after a stop request every enabled step of the monitor or of a node lowers `mrank`, and one is
     enabled until the monitor is done: at most mrank steps.
   For the two variants: a state from which the monitor never finishes (lock_early), a run that asks a
   peer for a confirmed tx and then leaves Stop waiting for a node nobody stops (dial_unlocked). *)
From V.lib Require Import Base.
From V.model Require Import Shutdown.

Lemma some_inj' {A} (x y : A) : Some x = Some y -> x = y.
Proof. intros H; injection H; auto. Qed.

Ltac msplit E := repeat match type of E with context [if ?c then _ else _] => destruct c eqn:? end.
Ltac some_inv := repeat match goal with
  | H : Some _ = Some _ |- _ => apply some_inj' in H; subst
  | H : None = Some _ |- _ => discriminate H
  end.


(* ---- lists ---- *)
Lemma upd_length {A} (f : A -> A) l i : length (upd i f l) = length l.
Proof. revert i; induction l; intros [|i]; cbn; auto. Qed.

Lemma Forall_upd {A} (P : A -> Prop) (f : A -> A) l i :
  Forall P l -> (forall x, nth_error l i = Some x -> P x -> P (f x)) -> Forall P (upd i f l).
Proof.
  revert i; induction l; intros [|i] H Hf; cbn; auto.
  - inversion H; subst. constructor; auto.
  - inversion H; subst. constructor; auto.
Qed.

Lemma Forall_map_same {A} (P : A -> Prop) (f : A -> A) l :
  Forall P l -> (forall x, P x -> P (f x)) -> Forall P (map f l).
Proof. induction 1; cbn; intros; constructor; auto. Qed.

Lemma nodes_rank_map f l : (forall n, n_rank (f n) = n_rank n) -> nodes_rank (map f l) = nodes_rank l.
Proof. intros H; induction l; cbn; auto; try (rewrite H, IHl); auto. Qed.

Lemma nodes_rank_upd f l i n :
  nth_error l i = Some n -> (n_rank (f n) < n_rank n)%nat -> (nodes_rank (upd i f l) < nodes_rank l)%nat.
Proof.
  revert i; induction l; intros [|i] H Hr; cbn in *; try discriminate.
  - injection H as ->. lia.
  - specialize (IHl i H Hr). lia.
Qed.

Lemma nodes_rank_app l1 l2 : nodes_rank (l1 ++ l2) = (nodes_rank l1 + nodes_rank l2)%nat.
Proof. induction l1; cbn; auto. rewrite IHl1; lia. Qed.

Lemma mpc_eq_done (p : mpc) : p = MDone \/ p <> MDone.
Proof. destruct p; auto; right; discriminate. Qed.

Section Mon.
Variables (lock_early dial_unlocked : bool).
Notation mstep := (Shutdown.mstep lock_early dial_unlocked).
Notation mstep_opt := (Shutdown.mstep_opt lock_early dial_unlocked).
Notation mon_step := (Shutdown.mon_step lock_early dial_unlocked).
Notation menabled := (Shutdown.menabled lock_early dial_unlocked).
Notation mrun_from := (Shutdown.mrun_from lock_early dial_unlocked).
Notation mrun := (Shutdown.mrun lock_early dial_unlocked).
Notation mpick := (Shutdown.mpick lock_early dial_unlocked).
Notation mdrive := (Shutdown.mdrive lock_early dial_unlocked).
Notation first_node := (Shutdown.first_node lock_early dial_unlocked).

Lemma mstep_cases s a : (mstep_opt s a = None /\ mstep s a = s) \/ (exists s', mstep_opt s a = Some s' /\ mstep s a = s').
Proof. unfold Shutdown.mstep. destruct (mstep_opt s a); [right; eauto | left; auto]. Qed.

Lemma invariant_run (P : mst -> Prop) :
  (forall s a s', P s -> mstep_opt s a = Some s' -> P s') ->
  forall l s, P s -> P (mrun_from s l).
Proof.
  intros Hs l; induction l; intros s H; cbn; auto.
  apply IHl. destruct (mstep_cases s a) as [[_ ->]|[s' [E ->]]]; eauto.
Qed.

(* what a node step leaves alone *)
Lemma node_step_frame s i ok s' :
  node_step s i ok = Some s' ->
  m_pc s' = m_pc s /\ m_lock s' = m_lock s /\ m_stop s' = m_stop s /\ m_bad s' = m_bad s /\ m_ready s' = m_ready s /\
  exists n st, nth_error (m_nodes s) i = Some n /\ m_nodes s' = upd i (fun n => n_set_st n st) (m_nodes s) /\
               (n_rank (n_set_st n st) < n_rank n)%nat /\ (st = UActive -> n_st n = UDial).
Proof.
  unfold node_step. destruct (nth_error (m_nodes s) i) as [n|] eqn:En; [|discriminate].
  destruct (n_st n) eqn:Est; intros E; msplit E; some_inv; cbn;
    repeat split; auto; try (exists n, UActive; unfold n_rank; cbn; rewrite Est; repeat split; auto; fail);
    try (exists n, UDone; unfold n_rank; cbn; rewrite Est; repeat split; auto; discriminate).
Qed.

(* ================= the lock ================= *)
Definition LockInv (s : mst) : Prop := m_lock s = true -> m_pc s = MPrune.

Lemma lock_step s a s' : lock_early = false -> LockInv s -> mstep_opt s a = Some s' -> LockInv s'.
Proof.
  intros LE H E. unfold LockInv in *. destruct a; cbn in E.
  - (* monitor *) unfold Shutdown.mon_step in E. rewrite LE in E.
    destruct (m_pc s) eqn:Ep; msplit E; some_inv; cbn; intros L; auto; try discriminate;
      try (specialize (H L); discriminate H).
    all: try congruence.
    all: try (destruct (fresh_nodes (m_addrs s)); some_inv; cbn in *; specialize (H L); discriminate H).
    all: try (destruct (pick_addr (m_addrs s)); some_inv; cbn in *; try congruence; specialize (H L); discriminate H).
  - unfold timer_step in E. destruct (m_pc s) eqn:Ep; some_inv; cbn; intros L; specialize (H L); discriminate H.
  - destruct (node_step_frame _ _ _ _ E) as (A & B & _). rewrite A, B; auto.
  - cbn in E. destruct (nth_error (m_nodes s) i) as [n|]; [|discriminate]. destruct (n_st n); some_inv; cbn; auto.
  - some_inv; cbn; auto.
  - destruct (m_pc s) eqn:Ep; some_inv; cbn. intros L; specialize (H L); discriminate H.
  - some_inv; cbn; auto.
  - some_inv; cbn; auto.
  - cbn in E. destruct (nth_error (m_nodes s) i) as [n|]; [|discriminate]. destruct (n_st n); msplit E; some_inv; cbn; auto.
  - msplit E; some_inv; cbn; congruence.
  - cbn in E. destruct (nth_error (m_nodes s) i) as [n|]; [|discriminate]. destruct (n_st n); some_inv; cbn; auto.
  - some_inv; cbn; auto.
  - some_inv; cbn; auto.
  - some_inv; cbn; auto.
  - some_inv; cbn; auto.
Qed.

Theorem lock_free_at_stop_all l :
  lock_early = false -> let s := mrun l in m_pc s = MStopAll -> m_lock s = false.
Proof.
  intros LE s Hp. assert (H : LockInv s).
  { unfold s, Shutdown.mrun. apply invariant_run; [intros; eapply lock_step; eauto | intros L; discriminate L]. }
  destruct (m_lock s) eqn:L; auto. specialize (H L). rewrite H in Hp; discriminate.
Qed.

(* ================= the list ================= *)
Definition listed_ok (n : unode) : Prop := n_scan n = false -> is_done n = false -> n_listed n = true.
Definition quiet_ok (n : unode) : Prop := n_stale n = [] /\ (n_scan n = true -> n_trk n = []).
Definition ListInv (s : mst) : Prop :=
  Forall listed_ok (m_nodes s) /\ Forall quiet_ok (m_nodes s) /\ m_bad s = false.

Lemma not_listed_dialling l : listed_dialling l = false -> Forall (fun n => n_listed n = true -> is_dial n = false) l.
Proof.
  induction l; cbn; intros H; constructor.
  - apply Bool.orb_false_iff in H as [H _]. intros L; rewrite L in H; auto.
  - apply IHl. apply Bool.orb_false_iff in H as [_ H]; auto.
Qed.

Lemma prune_listed_ok l :
  Forall listed_ok l -> Forall (fun n => n_listed n = true -> is_dial n = false) l -> Forall listed_ok (prune l).
Proof.
  intros H1 H2; induction l; cbn; constructor.
  - apply Forall_inv in H1. apply Forall_inv in H2. unfold listed_ok in *. destruct (n_listed a) eqn:La; cbn; [|rewrite La; exact H1].
    unfold inactive. destruct (n_st a) eqn:Est; cbn.
    + specialize (H2 eq_refl). unfold is_dial in H2. rewrite Est in H2; discriminate.
    + intros; exact La.
    + unfold is_done; cbn; rewrite Est. intros; discriminate.
  - apply IHl; eapply Forall_inv_tail; eauto.
Qed.

Lemma block_quiet_ok ts l : Forall listed_ok l -> Forall quiet_ok l -> Forall quiet_ok (map (block_node ts) l).
Proof.
  intros H1 H2; induction l; cbn; constructor.
  - apply Forall_inv in H1. apply Forall_inv in H2. destruct H2 as [St Tk]. unfold listed_ok in H1.
    unfold block_node. destruct (is_done a) eqn:Dn; [split; auto|].
    destruct (n_listed a) eqn:La; unfold quiet_ok; cbn.
    + split; auto. intros Sc. rewrite (Tk Sc); reflexivity.
    + destruct (n_scan a) eqn:Sc.
      * rewrite (Tk eq_refl), St. split; auto.
      * discriminate (H1 eq_refl eq_refl).
  - apply IHl; eapply Forall_inv_tail; eauto.
Qed.

Lemma zdiff_nil ts : zdiff [] ts = []. Proof. reflexivity. Qed.
Lemma zinter_nil ts : zinter [] ts = []. Proof. reflexivity. Qed.

Lemma list_step s a s' : dial_unlocked = false -> ListInv s -> mstep_opt s a = Some s' -> ListInv s'.
Proof.
  intros DU (HL & HQ & HB) E. unfold ListInv. destruct a; cbn in E.
  - (* monitor *) unfold Shutdown.mon_step in E. rewrite DU in E.
    destruct (m_pc s) eqn:Ep; msplit E; some_inv; cbn; auto.
    + (* scan starts *) destruct (fresh_nodes (m_addrs s)) eqn:Ef; some_inv; cbn; auto.
      rewrite <- Ef. repeat split; auto; apply Forall_app; split; auto; unfold fresh_nodes;
        induction (filter (fun ia => unchecked (snd ia)) (indexed 0 (m_addrs s))); cbn; constructor; auto;
        unfold listed_ok, quiet_ok; cbn; auto; intros; discriminate.
    + (* stop at scan *) repeat split; auto; unfold stop_scan; apply Forall_map_same; auto;
        intros x; destruct (n_scan x); auto.
    + (* prune *) cbn in *. repeat split; auto.
      * apply prune_listed_ok; auto. apply not_listed_dialling; auto.
      * unfold prune. apply Forall_map_same; auto. intros x; destruct (n_listed x && inactive x); auto.
    + (* add *) destruct (pick_addr (m_addrs s)); some_inv; cbn; auto.
      repeat split; auto; apply Forall_app; split; auto; constructor; auto; unfold listed_ok, quiet_ok; cbn; auto;
        try (split; auto; intros; discriminate).
    + (* stop all *) repeat split; auto; unfold stop_listed; apply Forall_map_same; auto;
        intros x; destruct (n_listed x); auto.
  - unfold timer_step in E. destruct (m_pc s) eqn:Ep; some_inv; cbn; auto.
    repeat split; auto; unfold stop_scan; apply Forall_map_same; auto; intros x; destruct (n_scan x); auto.
  - destruct (node_step_frame _ _ _ _ E) as (_ & _ & _ & Bd & _ & n & st & En & Em & Hr & Hd).
    rewrite Em, Bd. repeat split; auto; apply Forall_upd; auto.
    intros x Ex Hx. rewrite En in Ex; injection Ex as <-. unfold listed_ok in *; cbn. intros Sc Dn.
    apply Hx; auto. unfold is_done in *; cbn in Dn. unfold n_rank in Hr; cbn in Hr. destruct st; try discriminate.
    + destruct (n_st n); auto; lia.
    + rewrite (Hd eq_refl); auto.
  - cbn in E. destruct (nth_error (m_nodes s) i) as [n|] eqn:En; [|discriminate]. destruct (n_st n); some_inv; cbn.
    repeat split; auto; apply Forall_upd; auto. intros x _ Hx. unfold listed_ok in *; cbn. intros; discriminate.
  - some_inv; cbn; auto.
  - destruct (m_pc s); some_inv; cbn; auto.
  - some_inv; cbn; auto.
  - some_inv; cbn; auto.
  - (* inv *) cbn in E. destruct (nth_error (m_nodes s) i) as [n|] eqn:En; [|discriminate].
    destruct (n_st n); msplit E; some_inv; cbn. repeat split; auto; apply Forall_upd; auto.
    intros x Ex [Hs Ht]. rewrite En in Ex; injection Ex as <-. unfold quiet_ok; cbn. split; auto. intros Sc; rewrite Sc in Heqb; discriminate.
  - (* block clean-up *) msplit E; some_inv; cbn. repeat split; auto.
    + apply Forall_map_same; auto. intros x Hx. unfold block_node. msplit Hx; destruct (is_done x); destruct (n_listed x); auto.
    + apply block_quiet_ok; auto.
  - (* check *) cbn in E. destruct (nth_error (m_nodes s) i) as [n|] eqn:En; [|discriminate].
    destruct (n_st n); some_inv; cbn.
    assert (Hn : quiet_ok n).
    { clear - HQ En. revert i En; induction (m_nodes s); intros [|i] En; cbn in En; try discriminate; inversion HQ; subst; eauto.
      injection En as <-; auto. }
    destruct Hn as [St Tk]. repeat split; auto.
    + apply Forall_upd; auto.
    + apply Forall_upd; auto. intros x Ex [Hs Ht]. unfold quiet_ok; cbn. rewrite Hs. split; auto. intros Sc; rewrite (Ht Sc); reflexivity.
    + rewrite HB, St. cbn. induction ts; cbn; auto.
  - some_inv; cbn; auto.
  - some_inv; cbn; auto.
  - some_inv; cbn; auto.
  - some_inv; cbn; auto.
Qed.

Lemma list_inv_run l : dial_unlocked = false -> ListInv (mrun l).
Proof.
  intros DU. unfold Shutdown.mrun. apply invariant_run; [intros; eapply list_step; eauto|]. repeat split; constructor.
Qed.

Theorem running_nodes_listed l n :
  dial_unlocked = false -> In n (m_nodes (mrun l)) -> n_scan n = false -> is_done n = false -> n_listed n = true.
Proof. intros DU Hin. destruct (list_inv_run l DU) as (HL & _). rewrite Forall_forall in HL. exact (HL n (proj2 (elem_of_list_In _ _) Hin)). Qed.

Theorem no_confirmed_request l :
  dial_unlocked = false -> m_bad (mrun l) = false /\ forall n, In n (m_nodes (mrun l)) -> n_stale n = [].
Proof.
  intros DU. destruct (list_inv_run l DU) as (_ & HQ & HB). split; auto.
  intros n Hin. rewrite Forall_forall in HQ. exact (proj1 (HQ n (proj2 (elem_of_list_In _ _) Hin))).
Qed.

(* ================= termination ================= *)
Definition ProgInv (s : mst) : Prop :=
  (match m_pc s with MScan | MScanWait => True | _ => scan_done (m_nodes s) = true end) /\
  (m_pc s = MScanWait -> Forall (fun n => n_scan n = true -> n_stop n = true) (m_nodes s)) /\
  (m_pc s = MWait -> Forall (fun n => n_listed n = true -> n_stop n = true) (m_nodes s)).

Lemma scan_done_app l1 l2 : scan_done (l1 ++ l2) = scan_done l1 && scan_done l2.
Proof. unfold scan_done. apply forallb_app. Qed.

Lemma scan_done_map f l :
  (forall n, n_scan (f n) = n_scan n) -> (forall n, is_done n = true -> is_done (f n) = true) ->
  scan_done l = true -> scan_done (map f l) = true.
Proof.
  intros H1 H2. unfold scan_done. induction l; cbn; auto. intros H. apply andb_prop in H as [A B].
  rewrite IHl, H1; auto. destruct (n_scan a); cbn in *; auto. rewrite H2; auto.
Qed.

Lemma scan_done_upd st l i :
  (forall n, nth_error l i = Some n -> is_done n = true -> st = UDone) ->
  scan_done l = true -> scan_done (upd i (fun n => n_set_st n st) l) = true.
Proof.
  unfold scan_done. revert i; induction l; intros [|i] Hd H; cbn in *; auto; apply andb_prop in H as [A B].
  - rewrite B. destruct (n_scan a); cbn in *; auto. rewrite (Hd a eq_refl A). reflexivity.
  - rewrite A, IHl; auto.
Qed.

Lemma stop_scan_ok l : Forall (fun n => n_scan n = true -> n_stop n = true) (stop_scan l).
Proof.
  induction l; cbn; constructor; auto. destruct (n_scan a) eqn:Sc; cbn; auto. intros X; rewrite Sc in X; discriminate.
Qed.
Lemma stop_listed_ok l : Forall (fun n => n_listed n = true -> n_stop n = true) (stop_listed l).
Proof.
  induction l; cbn; constructor; auto. destruct (n_listed a) eqn:Sc; cbn; auto. intros X; rewrite Sc in X; discriminate.
Qed.

Lemma prog_step s a s' : ProgInv s -> mstep_opt s a = Some s' -> ProgInv s'.
Proof.
  intros (H1 & H2 & H3) E. unfold ProgInv. destruct a; cbn in E.
  - unfold Shutdown.mon_step in E.
    destruct (m_pc s) eqn:Ep; msplit E; some_inv.
    all: try match type of E with context [fresh_nodes ?x] => destruct (fresh_nodes x) eqn:Ef; some_inv end.
    all: try match type of E with context [pick_addr ?x] => destruct (pick_addr x) eqn:Epk; some_inv end.
    all: cbn; repeat split; auto; try discriminate.
    all: try (intros _; apply stop_scan_ok).
    all: try (intros _; apply stop_listed_ok).
    all: try (unfold prune; apply scan_done_map; auto; intros n; destruct (n_listed n && inactive n); auto; fail).
    all: rewrite ?Ep; try (intros X; discriminate X).
    all: try (fold (scan_done (m_nodes s ++ [UNode n UDial true false false [] []])); rewrite scan_done_app, H1; reflexivity).
    all: try (unfold stop_listed; apply scan_done_map; auto; intros n; destruct (n_listed n); auto; fail).
  - unfold timer_step in E. destruct (m_pc s) eqn:Ep; some_inv; cbn; repeat split; auto; try discriminate.
    intros _; apply stop_scan_ok.
  - destruct (node_step_frame _ _ _ _ E) as (A & _ & _ & _ & _ & n & st & En & Em & Hr & Hd).
    rewrite Em, A. repeat split.
    + destruct (m_pc s); auto; apply scan_done_upd; auto; intros x Ex Dx; rewrite En in Ex; injection Ex as <-;
        unfold n_rank, is_done in *; cbn in Hr; destruct (n_st n); try discriminate; lia.
    + intros P; apply Forall_upd; auto.
    + intros P; apply Forall_upd; auto.
  - cbn in E. destruct (nth_error (m_nodes s) i) as [n|] eqn:En; [|discriminate]. destruct (n_st n) eqn:Est; some_inv; cbn.
    repeat split.
    + destruct (m_pc s); auto; apply scan_done_upd; auto.
    + intros P; apply Forall_upd; auto.
    + intros P; apply Forall_upd; auto.
  - some_inv; cbn; auto.
  - destruct (m_pc s) eqn:Ep; some_inv; cbn; repeat split; auto; discriminate.
  - some_inv; cbn; auto.
  - some_inv; cbn; auto.
  - cbn in E. destruct (nth_error (m_nodes s) i) as [n|] eqn:En; [|discriminate]. destruct (n_st n) eqn:Est; msplit E; some_inv; cbn.
    repeat split.
    + destruct (m_pc s); auto; (rewrite <- H1; unfold scan_done; clear; revert i; induction (m_nodes s); intros [|i]; cbn; auto; rewrite IHl; auto).
    + intros P; apply Forall_upd; auto.
    + intros P; apply Forall_upd; auto.
  - msplit E; some_inv; cbn. repeat split.
    + destruct (m_pc s); auto; apply scan_done_map; auto; intros n; unfold block_node; destruct (is_done n) eqn:D; auto; destruct (n_listed n); auto; intros X; discriminate X.
    + intros P; apply Forall_map_same; auto. intros x; unfold block_node; destruct (is_done x); auto; destruct (n_listed x); auto.
    + intros P; apply Forall_map_same; auto. intros x; unfold block_node; destruct (is_done x); auto; destruct (n_listed x) eqn:L; cbn; auto; rewrite L; auto.
  - cbn in E. destruct (nth_error (m_nodes s) i) as [n|] eqn:En; [|discriminate]. destruct (n_st n) eqn:Est; some_inv; cbn.
    repeat split.
    + destruct (m_pc s); auto; (rewrite <- H1; unfold scan_done; clear; revert i; induction (m_nodes s); intros [|i]; cbn; auto; rewrite IHl; auto).
    + intros P; apply Forall_upd; auto.
    + intros P; apply Forall_upd; auto.
  - some_inv; cbn; auto.
  - some_inv; cbn; auto.
  - some_inv; cbn; auto.
  - some_inv; cbn; auto.
Qed.

(* every enabled step of the monitor or of a node lowers the rank once the stop flag is set *)
Theorem stop_step_lowers_rank s a s' :
  m_stop s = true -> mthread_act a = true -> mstep_opt s a = Some s' -> (mrank s' < mrank s)%nat /\ m_stop s' = true.
Proof.
  intros St Ta E. destruct a; try discriminate; cbn in E.
  - unfold Shutdown.mon_step in E. rewrite St in E. unfold mrank.
    destruct (m_pc s) eqn:Ep; msplit E; some_inv; cbn; rewrite ?Ep; cbn; split; auto; try lia.
    all: try (unfold stop_scan; rewrite nodes_rank_map; [lia | intros n; destruct (n_scan n); auto]).
    all: try (unfold prune; rewrite nodes_rank_map; [lia | intros n; destruct (n_listed n && inactive n); auto]).
    all: try (unfold stop_listed; rewrite nodes_rank_map; [lia | intros n; destruct (n_listed n); auto]).
  - destruct (node_step_frame _ _ _ _ E) as (A & _ & B & _ & _ & n & st & En & Em & Hr & _).
    unfold mrank. rewrite A, B, Em. split; auto.
    pose proof (nodes_rank_upd (fun n => n_set_st n st) _ _ _ En Hr). lia.
Qed.

Lemma first_node_some s l k i n :
  nth_error l i = Some n -> menabled s (ANode (k + i) true) = true -> exists a, first_node s k l = Some a.
Proof.
  revert k i; induction l; intros k [|i] En Hen; cbn in *; try discriminate.
  - rewrite Nat.add_0_r in Hen. rewrite Hen. eauto.
  - destruct (menabled s (ANode k true)); eauto. apply (IHl (S k) i); auto. replace (S k + i)%nat with (k + S i)%nat by lia. exact Hen.
Qed.

Lemma first_node_sound s l k a :
  first_node s k l = Some a -> mthread_act a = true /\ menabled s a = true /\ exists i, a = ANode i true.
Proof.
  revert k; induction l; intros k E; cbn in E; try discriminate.
  destruct (menabled s (ANode k true)) eqn:En; eauto. injection E as <-. repeat split; eauto.
Qed.

Lemma mpick_sound s a : mpick s = Some a -> mthread_act a = true /\ menabled s a = true.
Proof.
  unfold Shutdown.mpick. destruct (menabled s AMon) eqn:E; intros H.
  - injection H as <-; auto.
  - destruct (first_node_sound _ _ _ _ H) as (A & B & _); auto.
Qed.

Lemma exists_not_done (P : unode -> bool) l :
  forallb (fun n => P n || is_done n) l = false -> exists i n, nth_error l i = Some n /\ P n = false /\ is_done n = false.
Proof.
  induction l; cbn; intros H; try discriminate. apply Bool.andb_false_iff in H as [H|H].
  - apply Bool.orb_false_iff in H as [A B]. exists 0%nat, a; auto.
  - destruct (IHl H) as (i & n & A & B). exists (S i), n; auto.
Qed.

Lemma exists_listed_dialling l :
  listed_dialling l = true -> exists i n, nth_error l i = Some n /\ n_st n = UDial.
Proof.
  induction l; cbn; intros H; try discriminate. apply Bool.orb_true_iff in H as [H|H].
  - apply andb_prop in H as [_ H]. exists 0%nat, a. split; auto. unfold is_dial in H. destruct (n_st a); auto; discriminate.
  - destruct (IHl H) as (i & n & A & B). exists (S i), n; auto.
Qed.

Lemma nth_Forall {A} (P : A -> Prop) l i x : Forall P l -> nth_error l i = Some x -> P x.
Proof. revert i; induction l; intros [|i] H E; cbn in E; try discriminate; [injection E as <-; eapply Forall_inv; eauto | eapply IHl; eauto; eapply Forall_inv_tail; eauto]. Qed.

(* ... and one is enabled as long as the monitor is not done *)
Lemma node_enabled_scheduled s i n :
  nth_error (m_nodes s) i = Some n -> menabled s (ANode i true) = true -> exists a, mpick s = Some a.
Proof.
  intros En H. unfold Shutdown.mpick. destruct (menabled s AMon); eauto.
  apply (first_node_some s (m_nodes s) 0%nat i n); auto.
Qed.

Theorem stop_step_enabled s :
  lock_early = false -> dial_unlocked = false -> LockInv s -> ListInv s -> ProgInv s ->
  m_stop s = true -> m_pc s <> MDone -> exists a, mpick s = Some a.
Proof.
  intros LE DU HK (HL & _) (P1 & P2 & P3) St Np.
  assert (Lf : m_pc s <> MPrune -> m_lock s = false).
  { intros N. destruct (m_lock s) eqn:L; auto. elim N; auto. }
  assert (Mon : menabled s AMon = true -> exists a, mpick s = Some a).
  { intros H. unfold Shutdown.mpick. rewrite H. eauto. }
  destruct (m_pc s) eqn:Ep; try (elim Np; reflexivity).
  all: try (assert (Hlk : m_lock s = false) by (apply Lf; intros X; discriminate X)).
  all: try (apply Mon; unfold Shutdown.menabled; cbn; unfold Shutdown.mon_step; rewrite Ep, ?St, ?LE, ?DU, ?Hlk; cbn;
            repeat match goal with |- context [if ?c then _ else _] => match type of c with bool => destruct c end end; reflexivity).
  - (* waiting for the scanning nodes *)
    destruct (scan_done (m_nodes s)) eqn:Sd;
      [apply Mon; unfold Shutdown.menabled; cbn; unfold Shutdown.mon_step; rewrite Ep, Sd; reflexivity|].
    destruct (exists_not_done (fun n => negb (n_scan n)) _ Sd) as (i & n & En & Sc & Dn).
    pose proof (nth_Forall _ _ _ _ (P2 eq_refl) En) as Hs. cbn in Hs.
    assert (Sc' : n_scan n = true) by (destruct (n_scan n); auto; discriminate).
    specialize (Hs Sc'). apply (node_enabled_scheduled s i n En).
    unfold Shutdown.menabled; cbn. unfold node_step. rewrite En, Hs. unfold is_done in Dn. destruct (n_st n); auto; discriminate.
  - (* IsActive waits for a dial *)
    destruct (listed_dialling (m_nodes s)) eqn:Ld;
      [|apply Mon; unfold Shutdown.menabled; cbn; unfold Shutdown.mon_step; rewrite Ep, DU, Ld; reflexivity].
    destruct (exists_listed_dialling _ Ld) as (i & n & En & Est).
    apply (node_enabled_scheduled s i n En).
    unfold Shutdown.menabled; cbn. unfold node_step. rewrite En, Est. destruct (true && negb (n_stop n)); reflexivity.
  - (* waiting for the untrusted nodes *)
    destruct (regular_done (m_nodes s)) eqn:Rd;
      [apply Mon; unfold Shutdown.menabled; cbn; unfold Shutdown.mon_step; rewrite Ep, Rd; reflexivity|].
    destruct (exists_not_done n_scan _ Rd) as (i & n & En & Sc & Dn).
    pose proof (nth_Forall _ _ _ _ HL En) as Hl. specialize (Hl Sc Dn).
    pose proof (nth_Forall _ _ _ _ (P3 eq_refl) En) as Hs. cbn in Hs. specialize (Hs Hl).
    apply (node_enabled_scheduled s i n En).
    unfold Shutdown.menabled; cbn. unfold node_step. rewrite En, Hs. unfold is_done in Dn. destruct (n_st n); auto; discriminate.
Qed.

Definition AllInv (s : mst) : Prop := LockInv s /\ ListInv s /\ ProgInv s.

Lemma all_inv_step s a s' :
  lock_early = false -> dial_unlocked = false -> AllInv s -> mstep_opt s a = Some s' -> AllInv s'.
Proof.
  intros LE DU (A & B & C) E. repeat split.
  - eapply lock_step; eauto.
  - eapply list_step; eauto.
  - eapply list_step; eauto.
  - eapply list_step; eauto.
  - eapply prog_step; eauto.
  - eapply prog_step; eauto.
  - eapply prog_step; eauto.
Qed.

Lemma all_inv_run l : lock_early = false -> dial_unlocked = false -> AllInv (mrun l).
Proof.
  intros LE DU. unfold Shutdown.mrun. apply invariant_run; [intros; eapply all_inv_step; eauto|].
  repeat split; try constructor; try discriminate; try (intros L; discriminate L).
Qed.

Lemma mdrive_done f s : m_pc s = MDone -> m_pc (mdrive f s) = MDone.
Proof.
  revert s; induction f; intros s H; cbn; auto.
  destruct (mpick s) as [a|] eqn:Ea; auto. apply IHf.
  unfold Shutdown.mpick in Ea. unfold Shutdown.menabled at 1 in Ea. cbn in Ea. unfold Shutdown.mon_step in Ea. rewrite H in Ea.
  destruct (first_node_sound _ _ _ _ Ea) as (_ & En & i & ->).
  unfold Shutdown.menabled in En. unfold Shutdown.mstep. destruct (mstep_opt s (ANode i true)) as [s'|] eqn:E; auto.
  cbn in E. destruct (node_step_frame _ _ _ _ E) as (A & _). rewrite A; auto.
Qed.

(* after a stop request the monitor is done within mrank steps of the monitor and the nodes *)
Theorem monitor_terminates f s :
  lock_early = false -> dial_unlocked = false -> AllInv s -> m_stop s = true -> (mrank s <= f)%nat ->
  m_pc (mdrive f s) = MDone.
Proof.
  intros LE DU. revert s; induction f; intros s Inv St Hr.
  - cbn. unfold mrank in Hr. destruct (m_pc s); cbn in Hr; auto; lia.
  - destruct (mpc_eq_done (m_pc s)) as [D|D]; [apply mdrive_done; auto|].
    destruct Inv as (A & B & C). destruct (stop_step_enabled s LE DU A B C St D) as [a Ea].
    cbn. rewrite Ea. destruct (mpick_sound _ _ Ea) as [Ta En].
    unfold Shutdown.menabled in En. unfold Shutdown.mstep. destruct (mstep_opt s a) as [s'|] eqn:E; [|discriminate].
    destruct (stop_step_lowers_rank s a s' St Ta E) as [Lt St'].
    apply IHf; auto; [apply (all_inv_step s a s' LE DU (conj A (conj B C)) E) | lia].
Qed.

End Mon.

(* ================= the two variants ================= *)
(* with the lock taken before the stop test: once the monitor stands at "stop all" holding the lock nothing moves it *)
Lemma stop_all_stuck le du s a :
  m_pc s = MStopAll -> m_lock s = true ->
  m_pc (mstep le du s a) = MStopAll /\ m_lock (mstep le du s a) = true.
Proof.
  intros Hp Hl. unfold mstep. destruct (mstep_opt le du s a) as [s'|] eqn:E; auto.
  destruct a; cbn in E.
  - unfold mon_step in E. rewrite Hp, Hl in E. discriminate.
  - unfold timer_step in E. rewrite Hp in E. discriminate.
  - destruct (node_step_frame _ _ _ _ E) as (A & B & _). rewrite A, B; auto.
  - destruct (nth_error (m_nodes s) i) as [n|]; [|discriminate]. destruct (n_st n); some_inv; cbn; auto.
  - some_inv; cbn; auto.
  - rewrite Hp in E; discriminate.
  - some_inv; cbn; auto.
  - some_inv; cbn; auto.
  - destruct (nth_error (m_nodes s) i) as [n|]; [|discriminate]. destruct (n_st n); msplit E; some_inv; cbn; auto.
  - rewrite Hl in E; discriminate.
  - destruct (nth_error (m_nodes s) i) as [n|]; [|discriminate]. destruct (n_st n); some_inv; cbn; auto.
  - some_inv; cbn; auto.
  - some_inv; cbn; auto.
  - some_inv; cbn; auto.
  - some_inv; cbn; auto.
Qed.

Lemma stop_all_stuck_forever le du l : forall s,
  m_pc s = MStopAll -> m_lock s = true -> m_pc (mrun_from le du s l) = MStopAll.
Proof.
  induction l; intros s Hp Hl; cbn; auto.
  destruct (stop_all_stuck le du s a Hp Hl) as [A B]. apply IHl; auto.
Qed.

(* Stop arrives inside the scan window (one unchecked address): the scanning node ends, the monitor takes
   the lock, sees the stop flag and leaves its loop *)
Definition lock_early_schedule : list mact :=
  [AMWant 1; AMAddr (UAddr 2 0 false false false true); AMReady true; AMon; AMStop; AMon; ANode 0 true; AMon; AMon].

Theorem lock_early_refuted :
  let s := mrun true false lock_early_schedule in
  m_stop s = true /\ m_pc s = MStopAll /\ m_lock s = true /\
  forall l, m_pc (mrun_from true false s l) <> MDone.
Proof.
  cbv zeta. assert (E : m_pc (mrun true false lock_early_schedule) = MStopAll /\ m_lock (mrun true false lock_early_schedule) = true /\
                       m_stop (mrun true false lock_early_schedule) = true) by (vm_compute; auto).
  destruct E as (A & B & C). repeat split; auto.
  intros l. rewrite (stop_all_stuck_forever true false l _ A B). discriminate.
Qed.

(* the same schedule on the code as it is ends *)
Example lock_early_schedule_ok :
  m_pc (mdrive false false 40 (mrun false false lock_early_schedule)) = MDone.
Proof. vm_compute. reflexivity. Qed.

(* a slow dial: the monitor's next pass finds the node not active and drops it from the list; the dial
   completes, the node runs; a tx it remembered is confirmed, the clean-up does not reach it, its check asks
   for the tx; after a stop request nobody stops the node: no step of the monitor or of a node is enabled *)
Definition dial_unlocked_schedule : list mact :=
  [AMWant 1; AMAddr (UAddr 3 5 true false false true); AMReady true;
   AMon; AMon; AMon; AMon; AMon; AMon;            (* no unchecked address; lock; prune; add node 0; sleep *)
   ATimer; AMon; AMon; AMon; AMon; AMon;          (* next pass: node 0 is dialling: dropped *)
   ANode 0 true; AMInv 0 7; AMBlock [7]; AMCheck 0 [7];
   AMStop; AMon; AMon; AMon].

Theorem dial_unlocked_refuted :
  let s := mrun false true dial_unlocked_schedule in
  m_bad s = true /\ m_stop s = true /\ m_pc s = MWait /\ mpick false true s = None /\
  exists n, nth_error (m_nodes s) 0 = Some n /\ n_st n = UActive /\ n_listed n = false /\ n_scan n = false.
Proof. vm_compute. repeat split; auto. eexists; repeat split; reflexivity. Qed.

Example dial_unlocked_schedule_ok :
  let s := mrun false false dial_unlocked_schedule in
  m_bad s = false /\ m_pc (mdrive false false 40 s) = MDone.
Proof. vm_compute. auto. Qed.
