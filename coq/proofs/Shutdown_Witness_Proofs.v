(* Proofs for the shutdown protocol (C19), part 3:
   - from every reachable state after a stop request, if processUnconfirmedTxs has not left its loop
     on an error, a schedule of at most `rank` run-loop / goroutine steps reaches stopped = true;
   - D26: a reachable state after a stop request in which nothing can move, and from which
     stopped = true is never reached, whatever happens afterwards;
   - D27: without the prompt-registration hypothesis a handler is invoked after stopped = true and the
     stored data differ from the in-memory data;
   - reconnection keeps the chain (link to the synchronisation model of C02). *)
From V.lib Require Import Base.
From V.model Require Import Shutdown.
From V.model Require Sync SyncSpec.
From V.proofs Require Sync_Proofs.
From V.proofs Require Import Shutdown_Proofs Shutdown_Term_Proofs.

Section Reach.
Variable cap : Z.
Variable ucfg : bool.
Variable daf : bool.

Notation step := (Shutdown.step cap ucfg daf true true).
Notation apply := (Shutdown.apply cap ucfg daf true true).
Notation run_from := (Shutdown.run_from cap ucfg daf true true).
Notation run := (Shutdown.run cap ucfg daf true true).
Notation prompt_from := (Shutdown.prompt_from cap ucfg daf true true).
Notation prompt := (Shutdown.prompt cap ucfg daf true true).
Notation step_thread := (Shutdown.step_thread cap daf true true).
Notation Inv2 := (Shutdown_Term_Proofs.Inv2 daf).

Ltac splitifs E := repeat match type of E with context [if ?c then _ else _] => destruct c end.

Lemma rank_nonneg w : Inv2 w -> 0 <= rank w.
Proof.
  intros H. destruct (i2_len daf w H) as [L1 L2]. unfold rank.
  pose proof (rank_thread_nonneg MI (t_mi (w_thr w))). pose proof (rank_thread_nonneg RT (t_rt (w_thr w))).
  pose proof (rank_thread_nonneg SO (t_so (w_thr w))). pose proof (rank_thread_nonneg PB (t_pb (w_thr w))).
  pose proof (rank_thread_nonneg PU (t_pu (w_thr w))). pose proof (rank_thread_nonneg CD (t_cd (w_thr w))).
  pose proof (rank_thread_nonneg MU (t_mu (w_thr w))). pose proof (rank_thread_nonneg UN (t_un (w_thr w))).
  pose proof (rank_thread_nonneg AP (t_ap (w_thr w))).
  assert (0 <= rank_run (pc_of w)) by (destruct (pc_of w); cbn; lia). lia.
Qed.

Lemma no_d26 w : Inv2 w -> d_pufail (w_dat w) = false -> d26_state cap w = false.
Proof.
  intros H Hf. unfold d26_state.
  destruct (thread w PU) eqn:Et; try reflexivity.
  destruct (ch_locked w CTx); [|reflexivity]. cbn [andb].
  destruct (ch_open w CTx) eqn:Eo; [|reflexivity]. exfalso.
  destruct (i2_thr daf w H PU) as (_ & _ & _ & _ & E). destruct (E eq_refl) as [_ E2].
  destruct (E2 Et Eo) as [Hf' _]. rewrite Hf' in Hf. discriminate.
Qed.

(* the benign steps keep "processUnconfirmedTxs has not failed" *)
Ltac splitifs' E := repeat match type of E with context [if ?c then _ else _] => destruct c eqn:? end.

Lemma pufail_step_thread w t n w' :
  step_thread w t KEnd n = Some w' -> d_pufail (w_dat w') = d_pufail (w_dat w).
Proof.
  unfold Shutdown.step_thread. destruct (thread w t) as [| |p f|]; try discriminate.
  assert (R : w_dat (restart w) = w_dat w) by apply dat_restart.
  assert (Q : w_dat (request_stop w) = w_dat w) by apply dat_request_stop.
  Ltac pf R Q := cbn; rewrite ?R, ?Q; first [reflexivity|congruence].
  destruct p; intros E.
  - unfold top_step, consume in E. destruct t; splitifs' E; try discriminate; try (destruct (w_conn w));
      apply some_inj in E; subst w'; try destruct c; pf R Q.
  - destruct t; try discriminate. unfold read_step in E.
    destruct (w_conn w); splitifs' E; try discriminate; apply some_inj in E; subst w'; pf R Q.
  - destruct (stopping w); apply some_inj in E; subst w'; pf R Q.
  - unfold Shutdown.work_step, fail_exit, end_body in E.
    destruct t, f; splitifs' E; try discriminate; apply some_inj in E; subst w'; pf R Q.
  - unfold after_add in E. destruct (stopping w), t; apply some_inj in E; subst w'; pf R Q.
  - unfold after_add in E. destruct (ch_locked w c); [discriminate|]. destruct (ch_open w c), t; apply some_inj in E; subst w'; pf R Q.
  - unfold after_add in E. destruct (ch_len w c <? cap); [|discriminate]. destruct t, c; apply some_inj in E; subst w'; pf R Q.
  - apply some_inj in E; subst w'; pf R Q.
  - destruct (n_un (w_cnt w) =? 0); [|discriminate]. apply some_inj in E; subst w'; pf R Q.
Qed.

(* with ProcessBlock releasing the repository lock on every exit (the code) it is never left behind *)
Lemma rlock_step_thread w t k n w' :
  step_thread w t k n = Some w' -> d_rlock (w_dat w') = d_rlock (w_dat w).
Proof.
  unfold Shutdown.step_thread. destruct (thread w t) as [| |p f|]; try discriminate.
  assert (R : w_dat (restart w) = w_dat w) by apply dat_restart.
  assert (Q : w_dat (request_stop w) = w_dat w) by apply dat_request_stop.
  destruct p; intros E.
  - unfold top_step, consume in E. destruct t; splitifs' E; try discriminate; try (destruct (w_conn w));
      apply some_inj in E; subst w'; try destruct c; pf R Q.
  - destruct t; try discriminate. unfold read_step in E.
    destruct (w_conn w); splitifs' E; try discriminate; apply some_inj in E; subst w'; pf R Q.
  - destruct (stopping w); apply some_inj in E; subst w'; pf R Q.
  - unfold Shutdown.work_step, Shutdown.fail_exit, end_body, so_after_fail, spawn_un in E.
    destruct t, k, f; splitifs' E; try discriminate; apply some_inj in E; subst w'; try (pf R Q).
    all: cbn [thread set_thread set_thr w_thr tget tset]; destruct (t_un (w_thr w)); pf R Q.
  - unfold after_add in E. destruct (stopping w), t; apply some_inj in E; subst w'; pf R Q.
  - unfold after_add in E. destruct (ch_locked w c); [discriminate|]. destruct (ch_open w c), t; apply some_inj in E; subst w'; pf R Q.
  - unfold after_add in E. destruct (ch_len w c <? cap); [|discriminate]. destruct t, c; apply some_inj in E; subst w'; pf R Q.
  - apply some_inj in E; subst w'; pf R Q.
  - destruct (n_un (w_cnt w) =? 0); [|discriminate]. apply some_inj in E; subst w'; pf R Q.
Qed.

Lemma rlock_step w a : d_rlock (w_dat w) = false -> d_rlock (w_dat (apply w a)) = false.
Proof.
  intros Hf. unfold Shutdown.apply. destruct (step w a) as [w'|] eqn:E; [|exact Hf].
  destruct a; unfold Shutdown.step in E.
  - unfold Shutdown.step_run in E. rewrite ?Hf in E. destruct (pc_of w); try destruct ok; splitifs E; try discriminate;
      apply some_inj in E; subst w'; cbn; assumption.
  - splitifs E; try discriminate. apply some_inj in E; subst w'. exact Hf.
  - splitifs E; try discriminate. apply some_inj in E; subst w'. cbn. rewrite dat_request_stop. exact Hf.
  - destruct (w_conn w); try discriminate. apply some_inj in E; subst w'. exact Hf.
  - destruct (w_conn w); try discriminate. apply some_inj in E; subst w'. exact Hf.
  - destruct (thread w UN) as [| |p f|]; try discriminate. destruct p; try discriminate.
    destruct (w_ustop w); [discriminate|]. apply some_inj in E; subst w'. exact Hf.
  - destruct (thread w AP); try discriminate. apply some_inj in E; subst w'. exact Hf.
  - apply (areg_inv cap ucfg daf) in E. destruct E as (_ & _ & ->). exact Hf.
  - rewrite (rlock_step_thread w t k n w' E). exact Hf.
Qed.

Lemma rlock_run : forall acts w, d_rlock (w_dat w) = false -> d_rlock (w_dat (run_from w acts)) = false.
Proof. induction acts as [|a acts IH]; intros w H; [exact H|]. cbn. apply IH, rlock_step, H. Qed.

Lemma rlock_reachable acts : d_rlock (w_dat (run acts)) = false.
Proof. apply rlock_run. reflexivity. Qed.

Lemma pufail_benign w a w' :
  benign a = true -> step w a = Some w' -> d_pufail (w_dat w) = false -> d_pufail (w_dat w') = false.
Proof.
  intros Hb E Hf. destruct a; try discriminate; unfold Shutdown.step in E.
  - destruct ok; [|discriminate]. unfold Shutdown.step_run in E.
    destruct (pc_of w); splitifs E; try discriminate; apply some_inj in E; subst w'; cbn; try assumption; reflexivity.
  - apply (areg_inv cap ucfg daf) in E. destruct E as (_ & _ & ->). exact Hf.
  - destruct k; try discriminate. rewrite (pufail_step_thread w t n w' E). exact Hf.
Qed.

Lemma no_d26' w : Inv2 w -> (daf = true \/ d_pufail (w_dat w) = false) -> d26_state cap w = false.
Proof. intros H [Hd|Hf]; [apply (no_d26_daf cap daf); assumption|apply no_d26; assumption]. Qed.

(* from every state after a stop request in which the consumer of the tx channel has not failed, a
   schedule of at most `rank w` benign run-loop / goroutine steps reaches stopped = true *)
Lemma reach_stopped_n : forall (n : nat) w,
  rank w <= Z.of_nat n ->
  Inv w -> Inv2 w -> d_rlock (w_dat w) = false -> 1 <= cap -> stopping w = true -> hard w = true ->
  (daf = true \/ d_pufail (w_dat w) = false) ->
  exists acts', forallb benign acts' = true /\ forallb thread_act acts' = true /\ prompt_from w acts' = true /\
                Z.of_nat (length acts') <= rank w /\ stopped (run_from w acts') = true.
Proof.
  induction n as [|n IH]; intros w Hr HI H Hrl Hcap Hst Hh Hf.
  - pose proof (rank_nonneg w H) as Hn.
    destruct (stopped w) eqn:Es.
    + exists []. cbn. repeat split; auto; lia.
    + destruct (progress cap ucfg daf w HI H Hrl Hcap Hst Es (no_d26' w H Hf)) as (a & Hb & Ha & Hp & He).
      destruct (step w a) as [w'|] eqn:E; [|congruence].
      pose proof (rank_decreases cap ucfg daf w a w' HI H Hst Hh Ha E) as Hd.
      assert (H' : Inv2 w') by (pose proof (Inv2_step cap ucfg daf w a H) as X; unfold Shutdown.apply in X; rewrite E in X; exact X).
      pose proof (rank_nonneg w' H'). lia.
  - destruct (stopped w) eqn:Es.
    + pose proof (rank_nonneg w H) as Hn. exists []. cbn. repeat split; auto; lia.
    + destruct (progress cap ucfg daf w HI H Hrl Hcap Hst Es (no_d26' w H Hf)) as (a & Hb & Ha & Hp & He).
      destruct (step w a) as [w'|] eqn:E; [|congruence].
      pose proof (rank_decreases cap ucfg daf w a w' HI H Hst Hh Ha E) as Hd.
      assert (Eap : apply w a = w') by (unfold Shutdown.apply; rewrite E; reflexivity).
      assert (HI' : Inv w') by (rewrite <- Eap; apply Inv_step; assumption).
      assert (H' : Inv2 w') by (rewrite <- Eap; apply Inv2_step; assumption).
      destruct (hard_stop_stable cap ucfg daf w a Hst Hh) as [Hst' Hh']. rewrite Eap in Hst', Hh'.
      assert (Hf' : daf = true \/ d_pufail (w_dat w') = false).
      { destruct Hf as [Hf|Hf]; [left; exact Hf|right; exact (pufail_benign w a w' Hb E Hf)]. }
      assert (Hr' : rank w' <= Z.of_nat n) by lia.
      assert (Hrl' : d_rlock (w_dat w') = false) by (rewrite <- Eap; apply rlock_step; exact Hrl).
      destruct (IH w' Hr' HI' H' Hrl' Hcap Hst' Hh' Hf') as (acts' & B1 & B2 & B3 & B4 & B5).
      exists (a :: acts'). cbn [forallb Shutdown.prompt_from Shutdown.run_from fold_left length].
      rewrite Eap, Hb, Ha, Hp, B1, B2, B3. repeat split; auto.
      * rewrite Nat2Z.inj_succ. lia.
Qed.

Theorem stop_reaches_stopped : forall acts,
  1 <= cap -> prompt acts = true ->
  let w := run acts in
  stopcall w = 2 -> (daf = true \/ d_pufail (w_dat w) = false) ->
  exists acts', forallb thread_act acts' = true /\ prompt_from w acts' = true /\
                Z.of_nat (length acts') <= rank w /\ stopped (run_from w acts') = true.
Proof.
  intros acts Hcap Hp w Hc Hf.
  pose proof (Inv_reachable cap ucfg daf acts Hp) as HI. pose proof (Inv2_reachable cap ucfg daf acts) as H. fold w in HI, H.
  destruct (stop_requested_flags daf w H Hc) as [Hst Hh].
  pose proof (rank_nonneg w H) as Hn.
  destruct (reach_stopped_n (Z.to_nat (rank w)) w) as (acts' & _ & B2 & B3 & B4 & B5); try assumption; [lia|apply rlock_reachable|].
  exists acts'. auto.
Qed.

(* ---- the theorems of part 2 for reachable states ---- *)

Lemma prompt_from_app : forall acts w acts',
  prompt_from w (acts ++ acts') = prompt_from w acts && prompt_from (run_from w acts) acts'.
Proof.
  induction acts as [|a acts IH]; intros w acts'; [reflexivity|].
  cbn. rewrite IH. rewrite andb_assoc. reflexivity.
Qed.

Theorem stop_progress_reachable : forall acts,
  1 <= cap -> prompt acts = true ->
  let w := run acts in
  stopping w = true -> stopped w = false -> d26_state cap w = false ->
  exists a, benign a = true /\ thread_act a = true /\ prompt_ok w a = true /\ step w a <> None.
Proof.
  intros acts Hc Hp w. exact (progress cap ucfg daf w (Inv_reachable cap ucfg daf acts Hp) (Inv2_reachable cap ucfg daf acts) (rlock_reachable acts) Hc).
Qed.

Theorem stop_bounded_work_reachable : forall acts acts',
  prompt (acts ++ acts') = true ->
  let w := run acts in
  stopcall w = 2 ->
  0 <= rank (run_from w acts') /\
  rank (run_from w acts') + effective cap ucfg daf w acts' <= rank w + injected cap ucfg daf w acts'.
Proof.
  intros acts acts' Hp w Hc. unfold Shutdown.prompt in Hp. rewrite prompt_from_app in Hp.
  apply andb_true_iff in Hp. destruct Hp as [Hp1 Hp2].
  pose proof (Inv_reachable cap ucfg daf acts Hp1) as HI. pose proof (Inv2_reachable cap ucfg daf acts) as H. fold w in HI, H.
  destruct (stop_requested_flags daf w H Hc) as [Hst Hh].
  split.
  - apply rank_nonneg. apply Inv2_run. exact H.
  - apply stop_bounded_work; assumption.
Qed.

Theorem injection_needs_mu_reachable : forall acts n,
  prompt acts = true ->
  let w := run acts in
  step w (AUnMsg n) <> None ->
  exists p f, thread w MU = TLive p f /\ p <> PWaitUn /\ step w (AStep MU KEnd 0) <> None.
Proof.
  intros acts n Hp w. exact (injection_needs_mu cap ucfg daf w n (Inv_reachable cap ucfg daf acts Hp) (Inv2_reachable cap ucfg daf acts)).
Qed.

Theorem mu_dist_decreases_reachable : forall acts a w',
  let w := run acts in
  stopping w = true -> (a = AReg MU \/ exists k n, a = AStep MU k n) -> step w a = Some w' ->
  (forall f, thread w MU <> TLive PWaitUn f) ->
  mu_dist ucfg w' < mu_dist ucfg w.
Proof. intros acts a w' w. exact (mu_dist_decreases cap ucfg daf w a w' (Inv2_reachable cap ucfg daf acts)). Qed.

Theorem mu_dist_stable_reachable : forall acts a w',
  prompt acts = true ->
  let w := run acts in
  stopping w = true -> hard w = true ->
  a <> AReg MU -> (forall k n, a <> AStep MU k n) -> step w a = Some w' ->
  mu_dist ucfg w' <= mu_dist ucfg w.
Proof. intros acts a w' Hp w. exact (mu_dist_stable cap ucfg daf w a w' (Inv_reachable cap ucfg daf acts Hp)). Qed.

(* no goroutine - of the node or of the application inside Node.HandleTx - is ever parked in a send on a
   closed channel (a Go panic): Add keeps the mutex while it waits and Close needs the mutex *)
Theorem no_send_on_closed : forall acts t c f,
  thread (run acts) t = TLive (PSend c) f -> ch_open (run acts) c = true.
Proof.
  intros acts t c f Et. destruct (i2_thr daf _ (Inv2_reachable cap ucfg daf acts) t) as (_ & B & _). eapply B; exact Et.
Qed.

(* a call of the public API begun after the tx channel was closed returns an error at once: it
   changes nothing but its own program point, and is over after one more step *)
Theorem api_after_close : forall acts,
  let w := run acts in
  x_open (w_ch w) = false -> thread w AP = TNone ->
  exists w1 w2, step w AApiTx = Some w1 /\ step w1 (AStep AP KEnd 0) = Some w2 /\
                thread w2 AP = TNone /\ w_ch w2 = w_ch w /\ w_ctl w2 = w_ctl w /\ w_cnt w2 = w_cnt w /\ w_dat w2 = w_dat w.
Proof.
  intros acts w Hx Ha.
  pose proof (Inv2_reachable cap ucfg daf acts) as H. fold w in H.
  assert (Hl : ch_locked w CTx = false).
  { unfold ch_locked.
    assert (Hn : forall t, at_send CTx (thread w t) = false).
    { intros t. destruct (thread w t) as [| |p f|] eqn:Et; try reflexivity. destruct p; try reflexivity.
      destruct c; try reflexivity. destruct (i2_thr daf w H t) as (_ & B & _). specialize (B CTx f Et). cbn in B. congruence. }
    rewrite !Hn. reflexivity. }
  eexists _, _. split; [|split].
  - unfold Shutdown.step. rewrite Ha. reflexivity.
  - unfold Shutdown.step, Shutdown.step_thread, thread. cbn.
    assert (Hl' : ch_locked (set_thread w AP (TLive (PLock CTx) 0)) CTx = false).
    { unfold ch_locked, thread in *. cbn. rewrite orb_false_r. apply orb_false_iff in Hl. destruct Hl as [Hl _]. exact Hl. }
    unfold thread in Hl'. cbn in Hl'. rewrite Hl'. unfold ch_open. cbn. rewrite Hx. reflexivity.
  - cbn. repeat split; reflexivity.
Qed.

(* TxChannel.Add / MessageChannel.Add never drop: a goroutine waiting for room leaves that program point
   only by the step that puts its item into the channel, and what is in a channel leaves it only by
   the consumer taking it (with `progress`: the goroutine does get room, or the channel is closed first -
   which Close cannot do while the goroutine waits, C19_no_send_on_closed) *)
Theorem add_never_drops : forall w t c f k n w',
  thread w t = TLive (PSend c) f -> step w (AStep t k n) = Some w' ->
  ch_len w' c = ch_len w c + 1 /\ thread w' t <> TLive (PSend c) f.
Proof.
  intros w t c f k n w' Et E. unfold Shutdown.step, Shutdown.step_thread in E. rewrite Et in E.
  destruct (ch_len w c <? cap); [|discriminate]. apply some_inj in E. subst w'.
  unfold after_add, exit_thread, thread. destruct t, c; cbn; split; try lia; discriminate.
Qed.

Theorem only_consumer_takes : forall w a w' c,
  step w a = Some w' -> ch_len w' c < ch_len w c ->
  (exists k n, a = AStep (match c with COut => SO | CTx => PU end) k n) \/ (exists ok, a = ARun ok /\ pc_of w = RConnect).
Proof.
  intros w a w' c E Hl.
  destruct a; unfold Shutdown.step in E.
  - right. unfold Shutdown.step_run in E. destruct (pc_of w) eqn:Ep; try (exists ok; split; reflexivity).
    all: exfalso; splitifs E; try discriminate; apply some_inj in E; subst w'; destruct c; cbn in Hl; lia.
  - exfalso. splitifs E; try discriminate. apply some_inj in E; subst w'. destruct c; cbn in Hl; lia.
  - exfalso. splitifs E; try discriminate. apply some_inj in E; subst w'.
    unfold request_stop in Hl. destruct (stopped w || stopping w); destruct c; cbn in Hl; lia.
  - exfalso. destruct (w_conn w); try discriminate. apply some_inj in E; subst w'. destruct c; cbn in Hl; lia.
  - exfalso. destruct (w_conn w); try discriminate. apply some_inj in E; subst w'. destruct c; cbn in Hl; lia.
  - exfalso. destruct (thread w UN) as [| |p f|]; try discriminate. destruct p; try discriminate.
    destruct (w_ustop w); [discriminate|]. apply some_inj in E; subst w'. destruct c; cbn in Hl; lia.
  - exfalso. destruct (thread w AP); try discriminate. apply some_inj in E; subst w'. destruct c; cbn in Hl; lia.
  - exfalso. apply (areg_inv cap ucfg daf) in E. destruct E as (_ & _ & ->). destruct c; cbn in Hl; lia.
  - left. unfold Shutdown.step_thread in E. destruct (thread w t) as [| |p f|] eqn:Et; try discriminate.
    assert (R : w_ch (restart w) = w_ch w) by apply ch_restart.
    assert (Q : w_ch (request_stop w) = w_ch w) by apply ch_request_stop.
    destruct (tid_eq_dec t (match c with COut => SO | CTx => PU end)) as [->|Hne]; [eauto|]. exfalso.
    Ltac nolen R Q Hl := unfold ch_len in Hl; cbn in Hl; rewrite ?R, ?Q in Hl; cbn in Hl; lia.
    destruct p.
    + unfold top_step, consume in E. destruct t, c; try congruence; splitifs E; try discriminate; try (destruct (w_conn w));
        apply some_inj in E; subst w'; nolen R Q Hl.
    + destruct t; try discriminate. unfold read_step in E.
      destruct (w_conn w); splitifs E; try discriminate; apply some_inj in E; subst w'; destruct c; nolen R Q Hl.
    + destruct (stopping w); apply some_inj in E; subst w'; destruct c; nolen R Q Hl.
    + unfold Shutdown.work_step, Shutdown.fail_exit, end_body, so_after_fail, spawn_un in E.
      destruct t, k, f; splitifs E; try discriminate; apply some_inj in E; subst w'; try (destruct c; nolen R Q Hl).
      all: cbn [thread set_thread set_thr w_thr tget tset] in Hl; destruct (t_un (w_thr w)); destruct c; nolen R Q Hl.
    + unfold after_add in E. destruct (stopping w), t; apply some_inj in E; subst w'; destruct c; nolen R Q Hl.
    + unfold after_add in E. destruct (ch_locked w c0); [discriminate|]. destruct (ch_open w c0), t; apply some_inj in E; subst w'; destruct c; nolen R Q Hl.
    + unfold after_add in E. destruct (ch_len w c0 <? cap); [|discriminate]. destruct t, c0; apply some_inj in E; subst w'; destruct c; nolen R Q Hl.
    + apply some_inj in E; subst w'; destruct c; nolen R Q Hl.
    + destruct (n_un (w_cnt w) =? 0); [|discriminate]. apply some_inj in E; subst w'; destruct c; nolen R Q Hl.
Qed.

(* ---- D26: a permanent hang ---- *)

(* the consumer of the tx channel is gone, monitorIncoming waits for room in the full channel, the
   run loop waits for the incoming goroutines *)
Definition stuck (w : sw) : Prop :=
  pc_of w = RWaitIn /\ stopped w = false /\ t_pu (w_thr w) = TDone /\
  (exists f, t_mi (w_thr w) = TLive (PSend CTx) f) /\ cap <= x_len (w_ch w) /\
  1 + live (t_cd (w_thr w)) + live (t_mu (w_thr w)) <= n_in (w_cnt w).

Lemma stuck_frame w w' :
  stuck w -> pc_of w' = pc_of w -> stopped w' = stopped w -> t_pu (w_thr w') = t_pu (w_thr w) ->
  t_mi (w_thr w') = t_mi (w_thr w) -> x_len (w_ch w') = x_len (w_ch w) ->
  n_in (w_cnt w') - live (t_cd (w_thr w')) - live (t_mu (w_thr w')) =
  n_in (w_cnt w) - live (t_cd (w_thr w)) - live (t_mu (w_thr w)) -> stuck w'.
Proof.
  intros (A & B & C & D & E & F) E1 E2 E3 E4 E5 E6. unfold stuck.
  rewrite E1, E2, E3, E4, E5. repeat split; try assumption. lia.
Qed.

Ltac stk_ob Et :=
  unfold so_after_fail, restart, request_stop, set_pufail, callback, set_ch_len, set_ustop, set_inbox, pc_of, stopped, stopping, thread in *;
  repeat match goal with |- context [if ?c then _ else _] => destruct c end;
  cbn in *; rewrite ?Et; cbn; first [reflexivity|lia].

Lemma stuck_step_thread w t k n w' :
  stuck w -> t <> MI -> t <> PU -> step_thread w t k n = Some w' -> stuck w'.
Proof.
  intros Hs N1 N2. pose proof Hs as (A & B & C & (fm & D) & E & F).
  unfold Shutdown.step_thread. destruct (thread w t) as [| |p f|] eqn:Et; try discriminate.
  destruct p; intros E0.
  - unfold top_step, consume in E0.
    destruct t; try congruence; splitifs E0; try discriminate; apply some_inj in E0; subst w';
      eapply (stuck_frame _ _ Hs); stk_ob Et.
  - destruct t; try discriminate. congruence.
  - destruct t; try congruence; destruct (stopping w) eqn:Es; apply some_inj in E0; subst w';
      eapply (stuck_frame _ _ Hs); stk_ob Et.
  - unfold Shutdown.work_step, fail_exit, end_body, spawn_un in E0.
    destruct t; try congruence; destruct k, f; splitifs E0; try discriminate; apply some_inj in E0; subst w';
      try (eapply (stuck_frame _ _ Hs); stk_ob Et).
    all: cbn [thread set_thread set_thr w_thr tget tset]; destruct (t_un (w_thr w)); eapply (stuck_frame _ _ Hs); stk_ob Et.
  - unfold after_add in E0.
    destruct t; try congruence; destruct (stopping w) eqn:Es; apply some_inj in E0; subst w';
      eapply (stuck_frame _ _ Hs); stk_ob Et.
  - unfold after_add in E0. destruct (ch_locked w c); [discriminate|].
    destruct t; try congruence; destruct (ch_open w c); apply some_inj in E0; subst w';
      eapply (stuck_frame _ _ Hs); stk_ob Et.
  - (* a send: not on the full tx channel *)
    destruct c.
    + unfold after_add in E0. destruct (ch_len w COut <? cap); [|discriminate].
      destruct t; try congruence; apply some_inj in E0; subst w'; eapply (stuck_frame _ _ Hs); stk_ob Et.
    + assert (Hfull : (ch_len w CTx <? cap) = false) by (apply Z.ltb_ge; exact E).
      rewrite Hfull in E0. discriminate.
  - destruct t; try congruence; apply some_inj in E0; subst w'; eapply (stuck_frame _ _ Hs); stk_ob Et.
  - destruct (n_un (w_cnt w) =? 0); [|discriminate].
    destruct t; try congruence; apply some_inj in E0; subst w'; eapply (stuck_frame _ _ Hs); stk_ob Et.
Qed.

Lemma stuck_step w a : stuck w -> stuck (apply w a).
Proof.
  intros Hs. pose proof Hs as (A & B & C & (fm & D) & E & F).
  unfold Shutdown.apply. destruct (step w a) as [w'|] eqn:E0; [|exact Hs].
  destruct a; unfold Shutdown.step in E0.
  - unfold Shutdown.step_run in E0. rewrite A in E0.
    pose proof (live_nonneg (t_cd (w_thr w))). pose proof (live_nonneg (t_mu (w_thr w))).
    destruct (n_in (w_cnt w) =? 0) eqn:En; [apply Z.eqb_eq in En; lia|discriminate].
  - destruct (stopped w); [discriminate|]. destruct (stopcall w =? 0); [|discriminate]. apply some_inj in E0; subst w'.
    eapply (stuck_frame _ _ Hs); reflexivity.
  - destruct (stopcall w =? 1); [|discriminate]. apply some_inj in E0; subst w'.
    eapply (stuck_frame _ _ Hs); unfold request_stop; destruct (stopped w || stopping w); reflexivity.
  - destruct (w_conn w); try discriminate. apply some_inj in E0; subst w'. eapply (stuck_frame _ _ Hs); reflexivity.
  - destruct (w_conn w); try discriminate. apply some_inj in E0; subst w'. eapply (stuck_frame _ _ Hs); reflexivity.
  - unfold thread in E0. cbn in E0. destruct (t_un (w_thr w)) as [| |p f|]; try discriminate. destruct p; try discriminate.
    destruct (w_ustop w); [discriminate|]. apply some_inj in E0; subst w'. eapply (stuck_frame _ _ Hs); reflexivity.
  - unfold thread in E0. cbn in E0. destruct (t_ap (w_thr w)); try discriminate. apply some_inj in E0; subst w'.
    eapply (stuck_frame _ _ Hs); reflexivity.
  - apply (areg_inv cap ucfg daf) in E0. destruct E0 as (_ & Et & ->).
    unfold thread in Et. destruct t; cbn in Et; try congruence; eapply (stuck_frame _ _ Hs); cbn; rewrite ?Et; cbn; first [reflexivity|lia].
  - destruct (tid_eq_dec t MI) as [->|N1].
    + unfold Shutdown.step_thread, thread in E0. cbn in E0. rewrite D in E0.
      assert (Hfull : (ch_len w CTx <? cap) = false) by (apply Z.ltb_ge; exact E). rewrite Hfull in E0. discriminate.
    + destruct (tid_eq_dec t PU) as [->|N2].
      * unfold Shutdown.step_thread, thread in E0. cbn in E0. rewrite C in E0. discriminate.
      * eapply stuck_step_thread; eassumption.
Qed.

(* once in such a state, stopped = true is never reached: Stop() never returns *)
Theorem stuck_forever : forall acts' w, stuck w -> stopped (run_from w acts') = false.
Proof.
  induction acts' as [|a acts' IH]; intros w Hs.
  - destruct Hs as (_ & B & _). exact B.
  - cbn. apply IH. apply stuck_step, Hs.
Qed.

End Reach.

(* ---------------------------------------------------------------------------------------------- *)
(* the code as it is (the consumer keeps draining after an error): no hypothesis about D26 *)

Theorem stop_progress_fixed : forall (cap : Z) (ucfg : bool) (acts : list act),
  1 <= cap -> prompt cap ucfg true true true acts = true ->
  let w := run cap ucfg true true true acts in
  stopping w = true -> stopped w = false ->
  exists a, benign a = true /\ thread_act a = true /\ prompt_ok w a = true /\ step cap ucfg true true true w a <> None.
Proof.
  intros cap ucfg acts Hc Hp w Hst Hs.
  exact (progress_daf cap ucfg true w eq_refl (Inv_reachable cap ucfg true acts Hp) (Inv2_reachable cap ucfg true acts) (rlock_reachable cap ucfg true acts) Hc Hst Hs).
Qed.

Theorem stop_reaches_stopped_fixed : forall (cap : Z) (ucfg : bool) (acts : list act),
  1 <= cap -> prompt cap ucfg true true true acts = true ->
  let w := run cap ucfg true true true acts in
  stopcall w = 2 ->
  exists acts', forallb thread_act acts' = true /\ prompt_from cap ucfg true true true w acts' = true /\
                Z.of_nat (length acts') <= rank w /\ stopped (run_from cap ucfg true true true w acts') = true.
Proof.
  intros cap ucfg acts Hc Hp w Hcall. apply stop_reaches_stopped; auto.
Qed.

(* ---------------------------------------------------------------------------------------------- *)
(* D26 - the consumer as it was BEFORE fix 99e17c5 (daf = false: requestStop, break) - with the capacity of
   the code (100) and no untrusted nodes configured.
   Schedule: connect; every goroutine registers; the trusted peer sends 102 transactions while
   processUnconfirmedTxs is still busy with the first one: 100 fill the channel, monitorIncoming
   waits with the 102nd inside TxChannel.Add holding the mutex; processing the first one fails
   (processUnconfirmedTxs: requestStop, break); the application calls Stop; the other goroutines leave. *)
Definition d26_mi := AStep MI KEnd 0.
(* monitorIncoming handles one tx message: gate, body of one sub-step, TxChannel.Add (lock, send), end, back to the read *)
Definition d26_msg : list act := [d26_mi; AStep MI KEnd 1; AStep MI KTx 0; d26_mi; d26_mi; d26_mi; d26_mi].
Definition d26_acts : list act :=
  [ARun true; ARun true; AReg MI; AReg RT; AReg SO; AReg PB; AReg PU; AReg CD; AStep SO KEnd 0; AStep SO KEnd 0; d26_mi]
  ++ repeat APeerMsg 102
  ++ d26_msg ++ [AStep PU KEnd 0]
  ++ concat (repeat d26_msg 101)
  ++ [AStep PU KFail 0; AStopFlag; AStopReq; ARun true; ARun true;
      AStep RT KEnd 0; AStep PB KEnd 0; AStep CD KEnd 0].

Notation d26_w := (run 100 false false true true d26_acts).

Lemma d26_facts :
  prompt 100 false false true true d26_acts = true /\ stopcall d26_w = 2 /\ stopped d26_w = false /\ d26_state 100 d26_w = true /\
  pc_of d26_w = RWaitIn /\ t_pu (w_thr d26_w) = TDone /\ t_mi (w_thr d26_w) = TLive (PSend CTx) 0 /\
  x_len (w_ch d26_w) = 100 /\ n_in (w_cnt d26_w) = 1 /\ t_cd (w_thr d26_w) = TDone /\ t_mu (w_thr d26_w) = TNone /\
  n_proc (w_cnt d26_w) = 1 /\ t_so (w_thr d26_w) = TLive PTop 0.
Proof. vm_compute. repeat split; reflexivity. Qed.

Lemma d26_stuck : stuck 100 d26_w.
Proof.
  destruct d26_facts as (_ & _ & F3 & _ & F5 & F6 & F7 & F8 & F9 & F10 & F11 & _).
  unfold stuck. rewrite F5, F3, F6, F7, F8, F9, F10, F11. cbn. repeat split; try reflexivity; try lia. exists 0%nat. reflexivity.
Qed.

(* after the stop request nothing can move: no step of the run loop or of any goroutine is enabled *)
Theorem d26_refuted :
  exists acts, prompt 100 false false true true acts = true /\
    let w := run 100 false false true true acts in
    stopcall w = 2 /\ stopped w = false /\ d26_state 100 w = true /\
    (forall a, thread_act a = true -> step 100 false false true true w a = None) /\
    (forall acts', stopped (run_from 100 false false true true w acts') = false).
Proof.
  exists d26_acts. destruct d26_facts as (F1 & F2 & F3 & F4 & _).
  split; [exact F1|]. cbv zeta. split; [exact F2|]. split; [exact F3|]. split; [exact F4|]. split.
  - intros a Ha. destruct a; try discriminate Ha.
    + destruct ok; vm_compute; reflexivity.
    + destruct t; vm_compute; reflexivity.
    + destruct t; vm_compute; reflexivity.
  - intros acts'. apply stuck_forever. exact d26_stuck.
Qed.

(* ---------------------------------------------------------------------------------------------- *)
(* A sender that returns on the first failed write (sdrain = false; today's sendOutgoing - in node.go and
   in untrusted_node.go - keeps emptying its queue instead).  Schedule: connect, every goroutine
   registers, sendOutgoing takes the version message and is inside the socket write (the peer does not
   read), the peer sends 101 pings: 100 pongs fill the outgoing queue, monitorIncoming waits with the
   101st inside MessageChannel.Add holding the mutex; Stop; Run closes the connection, the write fails,
   sendOutgoing returns; the other goroutines leave.  Then NO action at all is enabled: a deadlock. *)
Definition sr_msg : list act :=
  [d26_mi; AStep MI KEnd 1; AStep MI KOut 0; d26_mi; d26_mi; d26_mi; d26_mi; d26_mi].
Definition sr_acts : list act :=
  [ARun true; ARun true; AReg MI; AReg RT; AReg SO; AReg PB; AReg PU; AReg CD; AStep SO KEnd 0; d26_mi]
  ++ repeat APeerMsg 101 ++ concat (repeat sr_msg 101)
  ++ [AStopFlag; AStopReq; ARun true; ARun true; AStep SO KFail 0; AStep RT KEnd 0; AStep PB KEnd 0; AStep CD KEnd 0].
Notation sr_w := (run 100 false true true false sr_acts).

Lemma sr_facts :
  prompt 100 false true true false sr_acts = true /\ stopcall sr_w = 2 /\ stopped sr_w = false /\
  pc_of sr_w = RWaitIn /\ t_so (w_thr sr_w) = TDone /\ t_mi (w_thr sr_w) = TLive (PSend COut) 0 /\
  o_len (w_ch sr_w) = 100 /\ o_open (w_ch sr_w) = true /\ n_in (w_cnt sr_w) = 1.
Proof. vm_compute. repeat split; reflexivity. Qed.

Theorem sender_returns_refuted :
  exists acts, prompt 100 false true true false acts = true /\
    let w := run 100 false true true false acts in
    stopcall w = 2 /\ stopped w = false /\ pc_of w = RWaitIn /\
    (* nothing can move - no step of the run loop, of a goroutine, of the peers or of Stop - except that
       the application may still push transactions through the public API, which does not help *)
    (forall a, a <> AApiTx -> step 100 false true true false w a = None).
Proof.
  exists sr_acts. destruct sr_facts as (F1 & F2 & F3 & F4 & _).
  split; [exact F1|]. cbv zeta. split; [exact F2|]. split; [exact F3|]. split; [exact F4|].
  intros a Ha. destruct a.
  - destruct ok; vm_compute; reflexivity.
  - vm_compute; reflexivity.
  - vm_compute; reflexivity.
  - vm_compute; reflexivity.
  - vm_compute; reflexivity.
  - vm_compute; reflexivity.
  - congruence.
  - destruct t; vm_compute; reflexivity.
  - destruct t; vm_compute; reflexivity.
Qed.

(* ---------------------------------------------------------------------------------------------- *)
(* An error exit of ProcessBlock that returns WITHOUT releasing the tx repository's unconfirmed lock
   (unlk = false; the code releases it on every exit): processBlocks leaves, nothing else is wrong - until
   the shutdown reaches its save phase: txs.Save needs the lock, Run and Stop never return. *)
Definition ul_acts : list act :=
  [ARun true; ARun true; AReg MI; AReg RT; AReg SO; AReg PB; AReg PU; AReg CD; AStep MI KEnd 0;
   AStep PB KEnd 2; AStep PB KCall 0; AStep PB KFail 0;
   AStopFlag; AStopReq; ARun true; ARun true; AStep MI KEnd 0; AStep CD KEnd 0; ARun true; ARun true; ARun true;
   AStep RT KEnd 0; AStep SO KEnd 0; AStep SO KEnd 0; AStep SO KEnd 0; AStep PU KEnd 0; ARun true].
Notation ul_w := (run 100 false true false true ul_acts).

Theorem exit_without_unlock_refuted :
  prompt 100 false true false true ul_acts = true /\
  stopcall ul_w = 2 /\ stopped ul_w = false /\ pc_of ul_w = RSave /\ all_dead (w_thr ul_w) /\
  (forall a, a <> AApiTx -> step 100 false true false true ul_w a = None) /\
  (* the code on the same schedule: stopped *)
  stopped (run 100 false true true true (ul_acts ++ [ARun true; ARun true; ARun true])) = true.
Proof.
  split; [vm_compute; reflexivity|]. split; [vm_compute; reflexivity|]. split; [vm_compute; reflexivity|].
  split; [vm_compute; reflexivity|]. split; [vm_compute; repeat split; reflexivity|]. split; [|vm_compute; reflexivity].
  intros a Ha. destruct a.
  - destruct ok; vm_compute; reflexivity.
  - vm_compute; reflexivity.
  - vm_compute; reflexivity.
  - vm_compute; reflexivity.
  - vm_compute; reflexivity.
  - vm_compute; reflexivity.
  - congruence.
  - destruct t; vm_compute; reflexivity.
  - destruct t; vm_compute; reflexivity.
Qed.

(* ---------------------------------------------------------------------------------------------- *)
(* TxChannel.Add waiting for room outside the mutex (capacity 1 for brevity): the application's second
   HandleTx waits for room (nothing is taken off the channel), Stop is requested, the incoming goroutines
   leave, the run loop closes the channels - with the sender still parked: "send on closed channel".
   On the same schedule the code (Add keeps the mutex) makes the run loop wait at Close. *)
Definition sol_acts : list act :=
  [ARun true; ARun true; AReg MI; AReg RT; AReg SO; AReg PB; AReg PU; AReg CD; AStep MI KEnd 0;
   AApiTx; AStep AP KEnd 0; AStep AP KEnd 0; AApiTx; AStep AP KEnd 0;
   AStopFlag; AStopReq; ARun true; ARun true; AStep MI KEnd 0; AStep CD KEnd 0; ARun true; ARun true; ARun true].

Theorem send_outside_lock_refuted :
  send_on_closed (run_sol 1 false true true true sol_acts) = true /\
  (* the code: same schedule, the sender holds the mutex, Close waits *)
  send_on_closed (run 1 false true true true sol_acts) = false /\
  pc_of (run 1 false true true true sol_acts) = RCloseTx /\
  step 1 false true true true (run 1 false true true true sol_acts) (ARun true) = None /\
  thread (run 1 false true true true sol_acts) AP = TLive (PSend CTx) 0.
Proof. vm_compute. repeat split; reflexivity. Qed.

(* ---------------------------------------------------------------------------------------------- *)
(* D27: processUnconfirmedTxs is started but does not run its first statement (the counter
   increment) until the run loop has observed processingCount == 0, saved and set stopped; it then
   takes the transaction still buffered in the closed channel and delivers it to the handlers. *)
Definition d27_acts : list act :=
  [ARun true; ARun true; AReg MI; AReg RT; AReg SO; AReg PB; AReg CD; AStep MI KEnd 0; APeerMsg;
   AStep MI KEnd 0; AStep MI KEnd 1; AStep MI KTx 0; AStep MI KEnd 0; AStep MI KEnd 0; AStep MI KEnd 0; AStep MI KEnd 0;
   AStopFlag; AStopReq; ARun true; ARun true; AStep MI KEnd 0; AStep CD KEnd 0; ARun true; ARun true; ARun true;
   AStep RT KEnd 0; AStep PB KEnd 0; AStep SO KEnd 0; AStep SO KEnd 0; AStep SO KEnd 0;
   ARun true; ARun true; ARun true; ARun true;
   AReg PU; AStep PU KEnd 0; AStep PU KEnd 0].

Theorem d27_refuted :
  exists acts, prompt 100 false true true true acts = false /\
    let w := run 100 false true true true acts in
    stopped w = true /\ d_late (w_dat w) = true /\ d_disk (w_dat w) <> d_mem (w_dat w) /\
    (* and the schedule is fine up to the moment the counter is read *)
    exists pre post, acts = pre ++ ARun true :: post /\ prompt 100 false true true true pre = true /\
                     pc_of (run 100 false true true true pre) = RWaitProc /\ thread (run 100 false true true true pre) PU = TSpawned.
Proof.
  exists d27_acts. split; [vm_compute; reflexivity|]. cbv zeta.
  split; [vm_compute; reflexivity|]. split; [vm_compute; reflexivity|]. split; [vm_compute; discriminate|].
  exists (firstn 30 d27_acts), (skipn 31 d27_acts). vm_compute. repeat split; reflexivity.
Qed.

(* ---------------------------------------------------------------------------------------------- *)
(* reconnect_resumes *)

(* a restart (lost connection, time-out) goes through the same phases: when the run loop is back at
   its head, every goroutine of the old round has ended, everything was saved, the stop flags are reset *)
Theorem restart_resumes : forall cap ucfg daf acts,
  prompt cap ucfg daf true true acts = true ->
  let w := run cap ucfg daf true true acts in
  pc_of w = RDecide -> needs w = true -> hard w = false ->
  let w' := apply cap ucfg daf true true w (ARun true) in
  pc_of w' = RLoop /\ stopping w' = false /\ needs w' = false /\ stopped w' = false /\
  all_dead (w_thr w') /\ d_disk (w_dat w') = d_mem (w_dat w') /\ d_mem (w_dat w') = d_mem (w_dat w).
Proof.
  intros cap ucfg daf acts Hp w Hpc Hn Hh w'.
  pose proof (Inv_reachable cap ucfg daf acts Hp) as HI. fold w in HI.
  assert (Ew : w' = set_pc (set_stopping (set_needs w false) false) RLoop).
  { unfold w', Shutdown.apply, Shutdown.step, Shutdown.step_run. rewrite Hpc, Hn, Hh. reflexivity. }
  rewrite Ew. cbn.
  assert (Hd : all_dead (w_thr w)) by (apply (inv_idle w HI); rewrite Hpc; reflexivity).
  assert (Hk : d_disk (w_dat w) = d_mem (w_dat w)) by (apply (inv_disk w HI); rewrite Hpc; reflexivity).
  assert (Hs : stopped w = false) by (apply not_stopped_of_pc; [exact HI|congruence]).
  repeat split; auto; apply Hd.
Qed.

(* the state reset of a reconnection (State.Reset + MarkConnected) keeps the chain, and resets the
   block request window to the stored tip *)
Theorem reconnect_keeps_chain : forall s, Sync.chain (Sync.reconnect s) = Sync.chain s.
Proof. reflexivity. Qed.

(* the synchronisation model's theorem (C02) covers histories with reconnections anywhere: after a
   reconnection blocks are again announced only at height tip + 1 on top of the stored tip, the chain
   never changes without such an announcement, and a headers message reverts at most to a fork point *)
Theorem reconnect_resumes_sync :
  forall (MAXR LIM HT HDT BT DELTA : Z) (parents : list (Z * Z)) (rk : Z -> Z) (start : Z) (ops1 ops2 : list Sync.op),
    0 <= MAXR ->
    SyncSpec.sync_valid (Sync.table_fn parents) rk (ops1 ++ Sync.OReconnect :: ops2) ->
    SyncSpec.c02_monitor MAXR (ops1 ++ Sync.OReconnect :: ops2)
      (Sync.run MAXR LIM HT HDT BT DELTA parents start (ops1 ++ Sync.OReconnect :: ops2)) = None.
Proof. intros. eapply Sync_Proofs.c02_monitor_passes; eassumption. Qed.

(* the scenario runner used by the correspondence check only takes steps of the transition system *)
Lemma settle_reach : forall fuel listen a b c d w, exists acts, settle fuel listen a b c d w = run_from scap false true true true w acts.
Proof.
  induction fuel as [|f IH]; intros listen a b c d w; [exists []; reflexivity|].
  cbn [settle]. destruct (pick listen a b c d w) as [x|]; [|exists []; reflexivity].
  destruct (IH listen a b c d (sapply w x)) as (acts & E). exists (x :: acts). rewrite E. reflexivity.
Qed.
