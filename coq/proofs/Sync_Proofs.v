From V.lib Require Import Base.
From V.model Require Import Requests Sync SyncSpec.
From V.gen Require Import Consts.
