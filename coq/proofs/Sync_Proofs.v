(* Proofs about the header / block synchronisation model (property C02).
   Invariant of the reachable states of model/Sync.v, for histories whose headers come from one
   block tree (SyncSpec.sync_valid):
     - the stored chain is genesis followed by headers (id, parent_of id), id <> 0, each linked to
       the one below it (hence ranks strictly increase, hence no id is stored twice);
     - before the start block is found (start_height = -1) there are no block requests and the
       request window's last saved hash is the tip of the chain;
     - at most MAXR requested blocks (when 0 <= MAXR).
   From it: chain_ok in every reachable state, and the monitor c02_monitor never objects to the
   model's own trace. *)
From V.lib Require Import Base.
From V.model Require Import Requests Sync SyncSpec.
From V.gen Require Import Consts.

Local Open Scope Z_scope.

(* ---------------------------------------------------------------------------------------- *)
(* Lists of headers                                                                          *)

Lemma zlen_app' {A} (a b : list A) : zlen (a ++ b) = zlen a + zlen b.
Proof. unfold zlen. rewrite app_length. lia. Qed.

Lemma zlen_nonneg' {A} (l : list A) : 0 <= zlen l.
Proof. unfold zlen. lia. Qed.

Lemma zlen_cons' {A} (x : A) (l : list A) : zlen (x :: l) = 1 + zlen l.
Proof. unfold zlen. cbn [length]. lia. Qed.

Fixpoint last_id (p : Z) (c : list hdr) : Z :=
  match c with
  | [] => p
  | h :: c' => last_id (fst h) c'
  end.

Definition tip_of (c : list hdr) : Z := match last c with Some h => fst h | None => -99 end.

Lemma tip_tip_of s : tip s = tip_of (chain s).
Proof. reflexivity. Qed.

Lemma last_id_last p c : last_id p c = match last c with Some h => fst h | None => p end.
Proof.
  revert p. induction c as [|h c IH]; intros p; [reflexivity|].
  cbn [last_id]. rewrite IH. destruct c as [|x c]; [reflexivity|].
  change (last (h :: x :: c)) with (last (x :: c)).
  destruct (last (x :: c)) eqn:E; [reflexivity|].
  apply last_None in E. discriminate.
Qed.

Lemma tip_of_cons g c : tip_of (g :: c) = last_id (fst g) c.
Proof.
  unfold tip_of. rewrite last_id_last. destruct c as [|x c]; [reflexivity|].
  change (last (g :: x :: c)) with (last (x :: c)).
  destruct (last (x :: c)) eqn:E; [reflexivity|].
  apply last_None in E. discriminate.
Qed.

Lemma tip_of_snoc c h : tip_of (c ++ [h]) = fst h.
Proof. unfold tip_of. rewrite last_snoc. reflexivity. Qed.

Lemma linked_from_snoc c : forall p h,
  linked_from p (c ++ [h]) = linked_from p c && (snd h =? last_id p c).
Proof.
  induction c as [|x c IH]; intros p h.
  - cbn. rewrite andb_true_r. reflexivity.
  - cbn [app linked_from last_id]. rewrite IH. rewrite andb_assoc. reflexivity.
Qed.

Lemma linked_from_take c : forall p n, linked_from p c = true -> linked_from p (take n c) = true.
Proof.
  induction c as [|x c IH]; intros p n H.
  - destruct n; reflexivity.
  - destruct n as [|n]; [reflexivity|].
    cbn [take linked_from] in *. apply andb_prop in H as [H1 H2].
    rewrite H1, (IH _ _ H2). reflexivity.
Qed.

(* height_of: the first index of an id *)
Definition hgo (id : Z) : list hdr -> Z -> option Z :=
  fix go (c : list hdr) (i : Z) : option Z :=
    match c with
    | [] => None
    | h :: c' => if fst h =? id then Some i else go c' (i + 1)
    end.

Lemma hgo_cons id h c i : hgo id (h :: c) i = if fst h =? id then Some i else hgo id c (i + 1).
Proof. reflexivity. Qed.

Lemma height_of_hgo s id : height_of s id = hgo id (chain s) 0.
Proof. reflexivity. Qed.

Lemma hgo_spec id c : forall i r,
  hgo id c i = Some r ->
  i <= r < i + zlen c /\ tip_of (take (Z.to_nat (r - i + 1)) c) = id.
Proof.
  induction c as [|h c IH]; intros i r H; [discriminate|].
  rewrite hgo_cons in H. rewrite zlen_cons'. pose proof (zlen_nonneg' c) as Hc.
  destruct (fst h =? id) eqn:E.
  - injection H as <-. apply Z.eqb_eq in E. split; [lia|].
    replace (i - i + 1) with 1 by lia. cbn. exact E.
  - apply IH in H as [Hr Ht]. split; [lia|].
    replace (Z.to_nat (r - i + 1)) with (S (Z.to_nat (r - (i + 1) + 1))) by lia.
    cbn [take]. rewrite tip_of_cons.
    remember (Z.to_nat (r - (i + 1) + 1)) as n eqn:Hn.
    destruct n as [|n]; [lia|].
    destruct c as [|x c]; [cbn in Hr; unfold zlen in Hr; cbn in Hr; lia|].
    cbn [take] in *. rewrite tip_of_cons in Ht. cbn [last_id]. exact Ht.
Qed.

(* ---------------------------------------------------------------------------------------- *)
(* Chains of a block tree                                                                    *)

Section Tree.
Variable parent_of : Z -> Z.

Definition hdr_ok (h : hdr) : Prop := fst h <> 0 /\ snd h = parent_of (fst h).

Definition chain_inv (c : list hdr) : Prop :=
  exists c', c = genesis_hdr :: c' /\ linked_from 0 c' = true /\ Forall hdr_ok c'.

Lemma chain_inv_snoc c h :
  chain_inv c -> hdr_ok h -> snd h = tip_of c -> chain_inv (c ++ [h]).
Proof.
  intros (c' & -> & Hl & Hok) Hh Ht.
  exists (c' ++ [h]). split; [reflexivity|]. split.
  - rewrite linked_from_snoc, Hl. rewrite tip_of_cons in Ht. cbn [genesis_hdr fst] in Ht.
    rewrite Ht. rewrite Z.eqb_refl. reflexivity.
  - apply Forall_app. split; [exact Hok|]. constructor; [exact Hh|constructor].
Qed.

Lemma chain_inv_take c n : chain_inv c -> (1 <= n)%nat -> chain_inv (take n c).
Proof.
  intros (c' & -> & Hl & Hok) Hn. destruct n as [|n]; [lia|].
  exists (take n c'). split; [reflexivity|]. split.
  - apply linked_from_take. exact Hl.
  - apply Forall_take. exact Hok.
Qed.

Lemma chain_inv_contains0 c : chain_inv c -> existsb (fun h : hdr => fst h =? 0) c = true.
Proof. intros (c' & -> & _). reflexivity. Qed.

Lemma chain_inv_digest_linked c :
  chain_inv c -> match c with [] => true | h :: c' => linked_from (fst h) c' end = true.
Proof. intros (c' & -> & Hl & _). exact Hl. Qed.

Lemma chain_inv_zlen c : chain_inv c -> 1 <= zlen c.
Proof. intros (c' & -> & _). rewrite zlen_cons'. pose proof (zlen_nonneg' c'). lia. Qed.

Lemma chain_inv_ids c : chain_inv c -> exists l, map fst c = 0 :: l.
Proof. intros (c' & -> & _). exists (map fst c'). reflexivity. Qed.

Section Rank.
Variable rk : Z -> Z.
Hypothesis rk_lt : forall id, id <> 0 -> rk (parent_of id) < rk id.

Lemma linked_rank c : forall p,
  linked_from p c = true -> Forall hdr_ok c ->
  Forall (fun h => rk p < rk (fst h)) c /\ nodup_ids c = true.
Proof.
  induction c as [|h c IH]; intros p Hl Hok.
  - split; [constructor|reflexivity].
  - cbn [linked_from] in Hl. apply andb_prop in Hl as [Hp Hl]. apply Z.eqb_eq in Hp.
    inversion Hok as [|h0 c0 Hh Hok' E0]. destruct Hh as [Hnz Hpar].
    destruct (IH _ Hl Hok') as [Hr Hnd].
    assert (Hlt : rk p < rk (fst h)).
    { rewrite <- Hp, Hpar. apply rk_lt. exact Hnz. }
    split.
    + constructor; [exact Hlt|]. eapply Forall_impl; [exact Hr|]. cbn. intros x Hx. lia.
    + cbn [nodup_ids]. rewrite Hnd, andb_true_r. apply negb_true_iff.
      apply not_true_is_false. intros Hex. apply existsb_exists in Hex as [x [Hin Hx]].
      apply Z.eqb_eq in Hx.
      rewrite List.Forall_forall in Hr. specialize (Hr x Hin). cbn in Hr. rewrite Hx in Hr. lia.
Qed.

Lemma chain_inv_ok c : chain_inv c -> chain_ok c.
Proof.
  intros (c' & -> & Hl & Hok). destruct (linked_rank c' 0 Hl Hok) as [Hr Hnd].
  split; [exists c'; reflexivity|]. split.
  - cbn. exact Hl.
  - cbn [nodup_ids genesis_hdr fst]. rewrite Hnd, andb_true_r. apply negb_true_iff.
    apply not_true_is_false. intros Hex. apply existsb_exists in Hex as [x [Hin Hx]].
    apply Z.eqb_eq in Hx. rewrite List.Forall_forall in Hok. destruct (Hok x Hin) as [Hnz _].
    contradiction.
Qed.

End Rank.
End Tree.

(* ---------------------------------------------------------------------------------------- *)
(* The request window: at most MAXR requested blocks                                         *)

Section Inv.
Variable parent_of : Z -> Z.
Variables MAXR LIM : Z.

Definition win (r : rstate) : Prop := 0 <= MAXR -> zlen (requested r) <= MAXR.

Lemma win_nil r : requested r = [] -> win r.
Proof. intros E H. rewrite E. exact H. Qed.

Lemma win_le r r1 : (length (requested r1) <= length (requested r))%nat -> win r -> win r1.
Proof. unfold win, zlen. intros Hl Hw H0. specialize (Hw H0). lia. Qed.

Lemma over_false r : over_threshold MAXR LIM r = false -> zlen (requested r) < MAXR.
Proof.
  unfold over_threshold. intros H. apply orb_false_elim in H as [H _].
  rewrite Z.geb_leb in H. apply Z.leb_gt in H. exact H.
Qed.

Lemma abr_win r prev h r1 res :
  add_block_request MAXR LIM r prev h = (r1, res) -> win r -> win r1.
Proof.
  unfold add_block_request. intros H Hw.
  destruct (last (to_request r)) as [l|].
  - destruct (negb (l =? prev)); injection H as <- <-; exact Hw.
  - destruct (negb _). { injection H as <- <-; exact Hw. }
    destruct (over_threshold MAXR LIM r) eqn:Hot; injection H as <- <-; [exact Hw|].
    intros H0. cbn [requested]. apply over_false in Hot.
    unfold zlen in *. rewrite app_length. cbn [length]. lia.
Qed.

Lemma fill_length l h size : forall l' d, fill l h size = Some (l', d) -> length l' = length l.
Proof.
  induction l as [|[x b] l IH]; intros l' d H; [discriminate|].
  cbn [fill] in H. destruct (x =? h).
  - injection H as <- _. reflexivity.
  - destruct (fill l h size) as [[l2 d2]|]; [|discriminate].
    injection H as <- _. cbn [length]. rewrite (IH _ _ eq_refl). reflexivity.
Qed.

Lemma add_block_win r h size r1 ok :
  add_block r h size = (r1, ok) -> win r -> win r1 /\ (requested r = [] -> r1 = r).
Proof.
  unfold add_block. intros H Hw.
  destruct (fill (requested r) h size) as [[l d]|] eqn:Ef.
  - injection H as <- <-. split.
    + eapply win_le; [|exact Hw]. cbn [requested]. apply fill_length in Ef. lia.
    + intros E. rewrite E in Ef. discriminate.
  - injection H as <- <-. auto.
Qed.

Lemma next_block_win r r1 p :
  next_block r = (r1, p) -> win r ->
  win r1 /\ (p = None -> r1 = r) /\ (requested r = [] -> p = None).
Proof.
  unfold next_block. intros H Hw.
  destruct (requested r) as [|[h [size|]] l] eqn:Er; injection H as <- <-;
    try (split; [exact Hw|split; [reflexivity|reflexivity]]).
  split; [|split; [discriminate|discriminate]].
  eapply win_le; [|exact Hw]. cbn [requested]. rewrite Er. cbn [length]. lia.
Qed.

Lemma get_next_win r r1 res : get_next MAXR LIM r = (r1, res) -> win r -> win r1.
Proof.
  unfold get_next. intros H Hw.
  destruct (to_request r) as [|h l]; [injection H as <- <-; exact Hw|].
  destruct (over_threshold MAXR LIM r) eqn:Hot; injection H as <- <-; [exact Hw|].
  intros H0. cbn [requested]. apply over_false in Hot.
  unfold zlen in *. rewrite app_length. cbn [length]. lia.
Qed.

Lemma clear_after_win r h : win r -> win (clear_after r h).
Proof.
  unfold clear_after. intros Hw.
  destruct (find_idx (fun x : Z * option Z => fst x =? h) (requested r) 0) as [i|].
  - eapply win_le; [|exact Hw]. cbn [requested]. rewrite take_length. lia.
  - destruct (find_idx (fun x => x =? h) (to_request r) 0) as [i|]; exact Hw.
Qed.

(* ---------------------------------------------------------------------------------------- *)
(* The invariant                                                                             *)

Definition prestart (s : sync) : Prop :=
  start_height s = -1 ->
  requested (rq s) = [] /\ to_request (rq s) = [] /\ last_saved (rq s) = tip s.

Definition Inv (s : sync) : Prop :=
  chain_inv parent_of (chain s) /\ prestart s /\ win (rq s).

Lemma Inv_ext s s' :
  chain s' = chain s -> rq s' = rq s -> start_height s' = start_height s -> Inv s -> Inv s'.
Proof.
  intros Hc Hr Hs (H1 & H2 & H3). unfold Inv, prestart, tip. rewrite Hc, Hr, Hs.
  split; [exact H1|]. split; [exact H2|exact H3].
Qed.

Lemma Inv_started s :
  chain_inv parent_of (chain s) -> win (rq s) -> start_height s <> -1 -> Inv s.
Proof. intros Hc Hw Hs. split; [exact Hc|]. split; [intros E; contradiction|exact Hw]. Qed.

Lemma request_block_spec s prev h s' b :
  request_block MAXR LIM s prev h = (s', b) ->
  chain_inv parent_of (chain s) -> win (rq s) -> start_height s <> -1 ->
  Inv s' /\ start_height s' <> -1 /\ chain s' = chain s.
Proof.
  unfold request_block. intros H Hc Hw Hs.
  destruct (add_block_request MAXR LIM (rq s) prev h) as [r1 res] eqn:E.
  apply abr_win in E; [|exact Hw].
  destruct res as [[|]|e|]; injection H as <- <-; cbn;
    (split; [apply Inv_started; cbn; assumption|split; [assumption|reflexivity]]).
Qed.

Lemma csh_spec s h s1 req :
  check_start_height s h = (s1, req) -> Inv s -> hdr_ok parent_of h ->
  (start_height s = -1 -> snd h = tip s) ->
  Inv s1 /\ (req = true -> start_height s1 <> -1) /\ (start_height s1 = -1 -> fst h = tip s1).
Proof.
  unfold check_start_height. intros H (Hc & Hp & Hw) Hh Ht.
  destruct (start_height s =? -1) eqn:Es.
  - apply Z.eqb_eq in Es. destruct (Hp Es) as (Hr & Htr & Hls). specialize (Ht Es).
    destruct (start_hash s =? fst h) eqn:Eh; injection H as <- <-.
    + assert (Hne : height s + 1 <> -1).
      { unfold height. pose proof (chain_inv_zlen _ _ Hc). lia. }
      cbn. split; [apply Inv_started; cbn; assumption|].
      split; [intros _; exact Hne|intros E; contradiction].
    + split; [|split; [discriminate|]].
      * split; [|split].
        -- cbn. apply chain_inv_snoc; [exact Hc|exact Hh|exact Ht].
        -- intros _. rewrite tip_tip_of. cbn. rewrite tip_of_snoc. auto.
        -- exact Hw.
      * intros _. rewrite tip_tip_of. cbn. rewrite tip_of_snoc. reflexivity.
  - injection H as <- <-. apply Z.eqb_neq in Es.
    split; [split; [exact Hc|split; [exact Hp|exact Hw]]|].
    split; [intros _; exact Es|intros E; contradiction].
Qed.

Lemma Inv_clear s : Inv s -> Inv (upd_rq (upd_was (upd_ready s false) false) (clear_all (rq s))).
Proof.
  intros (Hc & Hp & Hw). split; [exact Hc|]. split.
  - intros Hs. cbn in Hs. destruct (Hp Hs) as (_ & _ & Hl). cbn. auto.
  - apply win_nil. reflexivity.
Qed.

Lemma Inv_revert s id rh :
  Inv s -> height_of s id = Some rh ->
  let s1 := upd_rq (upd_was (upd_ready s false) false) (clear_all (rq s)) in
  let s2 := take_chain s1 rh in
  let s3 := upd_rq s2 (set_last_hash (rq s2) (tip s2)) in
  Inv s3 /\ tip s3 = id.
Proof.
  intros (Hc & Hp & Hw) Hh. rewrite height_of_hgo in Hh. apply hgo_spec in Hh as [Hr Ht].
  replace (rh - 0 + 1) with (rh + 1) in Ht by lia.
  cbn zeta. split.
  - split; [|split].
    + cbn. apply chain_inv_take; [exact Hc|lia].
    + intros _. cbn. auto.
    + apply win_nil. reflexivity.
  - rewrite tip_tip_of. cbn. exact Ht.
Qed.

Lemma headers_loop_inv hs : forall s lh acc m,
  Forall (hdr_ok parent_of) hs -> Inv s -> (start_height s = -1 -> lh = tip s) ->
  Inv (headers_loop MAXR LIM s lh hs acc m).1.1.
Proof.
  induction hs as [|h hs IH]; intros s lh acc m Hhs HI Hlh; [exact HI|].
  inversion Hhs as [|h0 hs0 Hh Hhs' E0]; subst h0 hs0.
  cbn [headers_loop].
  destruct (lh =? snd h) eqn:E1.
  - apply Z.eqb_eq in E1.
    destruct (check_start_height s h) as [s1 req] eqn:Ec.
    apply csh_spec in Ec as (HI1 & Hreq & Htip1);
      [|exact HI|exact Hh|intros Hs; rewrite <- E1; auto].
    destruct req.
    + destruct (request_block MAXR LIM s1 (snd h) (fst h)) as [s2 send] eqn:Er.
      destruct HI1 as (Hc1 & _ & Hw1).
      apply request_block_spec in Er as (HI2 & Hs2 & _); auto.
      apply IH; auto. intros E; contradiction.
    + apply IH; auto.
  - destruct (fst h =? lh) eqn:E2; [apply IH; auto|].
    destruct (contains s (fst h) || is_requested (rq s) (fst h) || is_to_be_requested (rq s) (fst h)) eqn:E3;
      [apply IH; auto|].
    destruct (is_requested (rq s) (snd h) || is_to_be_requested (rq s) (snd h)) eqn:E4.
    + assert (Hs : start_height s <> -1).
      { intros Hs. destruct HI as (_ & Hp & _). destruct (Hp Hs) as (Hr & Htr & _).
        unfold is_requested, is_to_be_requested in E4. rewrite Hr, Htr in E4. discriminate. }
      destruct (request_block MAXR LIM (upd_rq s (clear_after (rq s) (snd h))) (snd h) (fst h))
        as [s2 send] eqn:Er.
      destruct HI as (Hc & _ & Hw).
      apply request_block_spec in Er as (HI2 & Hs2 & _);
        [|exact Hc|cbn; apply clear_after_win; exact Hw|exact Hs].
      apply IH; auto. intros E; contradiction.
    + destruct (height_of s (snd h)) as [rh|] eqn:Eh; [|exact HI].
      destruct (rh =? height s) eqn:E5.
      * apply IH; [exact Hhs'|apply Inv_clear; exact HI|exact Hlh].
      * destruct (Inv_revert s (snd h) rh HI Eh) as [HI3 Ht3]. cbn zeta in HI3, Ht3.
        match goal with |- context [check_start_height ?s3 h] =>
          destruct (check_start_height s3 h) as [s4 req] eqn:Ec end.
        apply csh_spec in Ec as (HI4 & Hreq & Htip4);
          [|exact HI3|exact Hh|intros _; symmetry; exact Ht3].
        destruct req.
        -- destruct (request_block MAXR LIM s4 (snd h) (fst h)) as [s5 send] eqn:Er.
           destruct HI4 as (Hc4 & _ & Hw4).
           apply request_block_spec in Er as (HI5 & Hs5 & _); auto.
           apply IH; auto. intros E; contradiction.
        -- apply IH; auto.
Qed.

End Inv.

(* ---------------------------------------------------------------------------------------- *)
(* What a headers message may do to the stored chain                                         *)

(* start block known before: the start height stays and the chain is only cut back (a revert to a fork
   point) - nothing is appended by the headers handler, every block above the fork point must come
   through ProcessBlock.  start block not found before: either it is still not found, or it was found
   at a height that is at least the length of what is stored (nothing stored at / above the start height) *)
Definition hdr_rel (s s' : sync) : Prop :=
  (start_height s <> -1 -> start_height s' = start_height s /\ exists n, chain s' = take n (chain s)) /\
  (start_height s = -1 -> start_height s' = -1 \/ zlen (chain s') <= start_height s').

Lemma hdr_rel_refl s : hdr_rel s s.
Proof.
  split.
  - intros _. split; [reflexivity|]. exists (length (chain s)). rewrite take_ge; [reflexivity|lia].
  - intros H. left. exact H.
Qed.

Lemma hdr_rel_same s s' : chain s' = chain s -> start_height s' = start_height s -> hdr_rel s s'.
Proof.
  intros Hc Hs. split.
  - intros _. split; [exact Hs|]. exists (length (chain s)). rewrite Hc, take_ge; [reflexivity|lia].
  - intros H. left. congruence.
Qed.

Lemma zlen_take_le {A} n (l : list A) : zlen (take n l) <= zlen l.
Proof. unfold zlen. rewrite take_length. lia. Qed.

Lemma hdr_rel_trans s1 s2 s3 : hdr_rel s1 s2 -> hdr_rel s2 s3 -> hdr_rel s1 s3.
Proof.
  intros [A1 A2] [B1 B2]. split.
  - intros H. destruct (A1 H) as [Hs (n & Hn)]. assert (H2 : start_height s2 <> -1) by congruence.
    destruct (B1 H2) as [Hs' (m & Hm)]. split; [congruence|]. exists (m `min` n)%nat. rewrite Hm, Hn, take_take. reflexivity.
  - intros H. destruct (A2 H) as [H2|H2].
    + exact (B2 H2).
    + assert (Hne : start_height s2 <> -1) by (pose proof (zlen_nonneg' (chain s2)); lia).
      destruct (B1 Hne) as [Hs' (m & Hm)]. right. rewrite Hs', Hm. pose proof (zlen_take_le m (chain s2)). lia.
Qed.

Section HdrRel.
Variables MAXR LIM : Z.

Lemma request_block_rel s prev h : hdr_rel s (request_block MAXR LIM s prev h).1.
Proof.
  unfold request_block. destruct (add_block_request MAXR LIM (rq s) prev h) as [r1 [[|]|e|]];
    apply hdr_rel_same; reflexivity.
Qed.

Lemma check_start_height_rel s h : hdr_rel s (check_start_height s h).1.
Proof.
  unfold check_start_height. destruct (start_height s =? -1) eqn:E; [|apply hdr_rel_refl].
  apply Z.eqb_eq in E. destruct (start_hash s =? fst h); cbn [fst].
  - split; [intros H; contradiction|]. intros _. right. cbn. unfold height. lia.
  - split; [intros H; contradiction|]. intros _. left. exact E.
Qed.

Lemma revert_rel s rh :
  let s1 := upd_rq (clear_in_sync s) (clear_all (rq s)) in
  let s2 := take_chain s1 rh in
  hdr_rel s (upd_rq s2 (set_last_hash (rq s2) (tip s2))).
Proof.
  cbv zeta. split.
  - intros _. split; [reflexivity|]. eexists. reflexivity.
  - intros H. left. exact H.
Qed.

Lemma headers_loop_rel hs : forall s lh acc m, hdr_rel s (headers_loop MAXR LIM s lh hs acc m).1.1.
Proof.
  induction hs as [|h hs IH]; intros s lh acc m; [apply hdr_rel_refl|].
  cbn [headers_loop].
  destruct (lh =? snd h).
  - pose proof (check_start_height_rel s h) as H1.
    destruct (check_start_height s h) as [s1 req]. cbn [fst] in H1. destruct req.
    + pose proof (request_block_rel s1 (snd h) (fst h)) as H2.
      destruct (request_block MAXR LIM s1 (snd h) (fst h)) as [s2 send]. cbn [fst] in H2.
      eapply hdr_rel_trans; [eapply hdr_rel_trans; [exact H1|exact H2]|apply IH].
    + eapply hdr_rel_trans; [exact H1|apply IH].
  - destruct (fst h =? lh); [apply IH|].
    destruct (contains s (fst h) || is_requested (rq s) (fst h) || is_to_be_requested (rq s) (fst h)); [apply IH|].
    destruct (is_requested (rq s) (snd h) || is_to_be_requested (rq s) (snd h)).
    + match goal with |- context [request_block MAXR LIM ?s0 ?a ?b] =>
        pose proof (request_block_rel s0 a b) as H2; destruct (request_block MAXR LIM s0 a b) as [s2 send] end.
      cbn [fst] in H2. eapply hdr_rel_trans; [|apply IH].
      eapply hdr_rel_trans; [|exact H2]. apply hdr_rel_same; reflexivity.
    + destruct (height_of s (snd h)) as [rh|]; [|apply hdr_rel_same; reflexivity].
      destruct (rh =? height s).
      * eapply hdr_rel_trans; [|apply IH]. apply hdr_rel_same; reflexivity.
      * pose proof (revert_rel s rh) as H0. cbv zeta in H0.
        match goal with |- context [check_start_height ?s3 h] =>
          pose proof (check_start_height_rel s3 h) as H1; destruct (check_start_height s3 h) as [s4 req] end.
        cbn [fst] in H1. destruct req.
        -- pose proof (request_block_rel s4 (snd h) (fst h)) as H2.
           destruct (request_block MAXR LIM s4 (snd h) (fst h)) as [s5 send]. cbn [fst] in H2.
           eapply hdr_rel_trans; [|apply IH]. eapply hdr_rel_trans; [|exact H2].
           eapply hdr_rel_trans; [exact H0|exact H1].
        -- eapply hdr_rel_trans; [|apply IH]. eapply hdr_rel_trans; [exact H0|exact H1].
Qed.

(* the headers handler with the start block known never appends to the stored chain *)
Lemma handle_headers_rel s hs : hdr_rel s (handle_headers MAXR LIM s hs).1.
Proof.
  unfold handle_headers.
  match goal with |- context [if ?b then _ else _] => destruct b end.
  - cbn [fst]. apply hdr_rel_same; cbn;
      repeat match goal with |- context [if ?b then _ else _] => destruct b end; reflexivity.
  - pose proof (headers_loop_rel hs s (last_hash (rq s)) [] false) as H.
    destruct (headers_loop MAXR LIM s (last_hash (rq s)) hs [] false) as [[s1 res] m]. cbn [fst] in H.
    destruct res as [acc|]; cbn [fst]; [|exact H]. destruct m; [|exact H].
    eapply hdr_rel_trans; [exact H|apply hdr_rel_same; reflexivity].
Qed.

End HdrRel.

(* ---------------------------------------------------------------------------------------- *)
(* Every operation preserves the invariant                                                   *)

Section Ops.
Variable parent_of : Z -> Z.
Variables MAXR LIM : Z.
Notation Inv := (Inv parent_of MAXR).
Notation win := (win MAXR).

Lemma handle_headers_inv s hs s1 res :
  handle_headers MAXR LIM s hs = (s1, res) -> Forall (hdr_ok parent_of) hs -> Inv s -> Inv s1.
Proof.
  unfold handle_headers. intros H Hhs HI.
  match type of H with (if ?b then _ else _) = _ => destruct b end.
  - injection H as <- _. eapply Inv_ext; [| | |exact HI];
      cbn; repeat match goal with |- context [if ?b then _ else _] => destruct b end; reflexivity.
  - destruct (headers_loop MAXR LIM s (last_hash (rq s)) hs [] false) as [[s' r] m] eqn:El.
    assert (HI' : Inv s').
    { pose proof (headers_loop_inv parent_of MAXR LIM hs s (last_hash (rq s)) [] false Hhs HI) as X.
      rewrite El in X. apply X. intros Hs. destruct HI as (_ & Hp & _).
      destruct (Hp Hs) as (Hr & Htr & Hl). unfold last_hash. rewrite Htr, Hr. cbn. exact Hl. }
    destruct r as [acc|]; injection H as <- _; [|exact HI'].
    destruct m; [|exact HI']. eapply Inv_ext; [| | |exact HI']; reflexivity.
Qed.

Lemma handle_block_inv s id v s1 ok :
  handle_block s id v = (s1, ok) -> Inv s -> Inv s1 /\ chain s1 = chain s.
Proof.
  unfold handle_block. intros H HI. pose proof HI as (Hc & Hp & Hw).
  destruct (add_block (rq s) id 1) as [r1 b] eqn:E.
  apply (add_block_win MAXR) in E as [Hw1 Hsame]; [|exact Hw].
  destruct b; injection H as <- <-; [|split; [exact HI|reflexivity]].
  split; [|reflexivity].
  destruct (Z.eq_dec (start_height s) (-1)) as [Hs|Hs].
  - destruct (Hp Hs) as (Hr & _). specialize (Hsame Hr). subst r1.
    eapply Inv_ext; [| | |exact HI]; reflexivity.
  - apply Inv_started; cbn; assumption.
Qed.

Lemma request_more_spec fuel : forall s acc s' reqs,
  request_more MAXR LIM fuel s acc = (s', reqs) -> win (rq s) ->
  win (rq s') /\ chain s' = chain s /\ start_height s' = start_height s.
Proof.
  induction fuel as [|f IH]; intros s acc s' reqs H Hw.
  - injection H as <- <-. auto.
  - cbn [request_more] in H. destruct (get_next MAXR LIM (rq s)) as [r1 res] eqn:E.
    apply (get_next_win MAXR) in E; [|exact Hw].
    destruct res as [[h c]|].
    + apply IH in H as (Ha & Hb & Hc); [|cbn; exact E]. cbn in Hb, Hc. auto.
    + injection H as <- <-. auto.
Qed.

Lemma process_block_spec s h v s2 code :
  process_block s h v = (s2, code) ->
  (code = 1 /\ s2 = s) \/
  (code = 0 /\ chain s2 = chain s ++ [h] /\ rq s2 = rq s /\ start_height s2 = start_height s /\
   contains s (fst h) = false /\ snd h = tip s).
Proof.
  unfold process_block. intros H.
  destruct (contains s (fst h)) eqn:E1; [injection H as <- <-; left; auto|].
  destruct (snd h =? tip s) eqn:E2; cbn [negb] in H; [|injection H as <- <-; left; auto].
  destruct v; cbn [negb] in H; [|injection H as <- <-; left; auto].
  apply Z.eqb_eq in E2. injection H as <- <-. right.
  match goal with |- context [if ?b then _ else _] => destruct b end;
    (split; [reflexivity|]); cbn [chain rq start_height upd_ready upd_chain];
    (split; [reflexivity|]); (split; [reflexivity|]); (split; [reflexivity|]);
    (split; [reflexivity|exact E2]).
Qed.

Lemma process_next_spec s s3 popped reqs :
  process_next MAXR LIM parent_of s = (s3, popped, reqs) -> Inv s ->
  Inv s3 /\
  match popped with
  | None => s3 = s
  | Some (id, code) =>
      (code = 1 /\ chain s3 = chain s) \/ (code = 0 /\ chain s3 = chain s ++ [(id, parent_of id)])
  end.
Proof.
  unfold process_next. intros H HI. pose proof HI as (Hc & Hp & Hw).
  destruct (next_block (rq s)) as [r1 p] eqn:En.
  apply (next_block_win MAXR) in En as (Hw1 & Hnone & Hempty); [|exact Hw].
  destruct p as [id|]; [|injection H as <- <- <-; auto].
  assert (Hs : start_height s <> -1).
  { intros Hs. destruct (Hp Hs) as (Hr & _). specialize (Hempty Hr). discriminate. }
  cbv zeta in H.
  match type of H with context [process_block ?a ?b ?c] =>
    destruct (process_block a b c) as [s2 code] eqn:Epb end.
  destruct (request_more MAXR LIM (Z.to_nat (MAXR + 1)) s2 []) as [s3' reqs'] eqn:Erm.
  injection H as <- <- <-.
  apply process_block_spec in Epb.
  destruct Epb as [[-> ->]|(-> & Hch & Hrq & Hst & Hcont & Hsnd)].
  - apply request_more_spec in Erm as (Hw3 & Hc3 & Hs3); [|cbn; exact Hw1].
    cbn in Hc3, Hs3. split; [|left; auto].
    apply Inv_started; [rewrite Hc3; exact Hc|exact Hw3|rewrite Hs3; exact Hs].
  - apply request_more_spec in Erm as (Hw3 & Hc3 & Hs3); [|rewrite Hrq; cbn; exact Hw1].
    cbn in Hch, Hst, Hsnd.
    split; [|right; split; [reflexivity|rewrite Hc3, Hch; reflexivity]].
    apply Inv_started; [|exact Hw3|rewrite Hs3, Hst; exact Hs].
    rewrite Hc3, Hch. apply chain_inv_snoc; [exact Hc| |exact Hsnd].
    split; [|reflexivity]. cbn [fst]. intros ->.
    unfold contains in Hcont. cbn [chain upd_rq fst] in Hcont.
    exact (eq_true_false_abs _ (chain_inv_contains0 _ _ Hc) Hcont).
Qed.

Lemma check_same s s1 outs :
  check s = (s1, outs) ->
  chain s1 = chain s /\ rq s1 = rq s /\ start_height s1 = start_height s.
Proof.
  unfold check. intros H.
  destruct (negb (version_received s)); [injection H as <- <-; auto|].
  destruct (negb (handshake_complete s)); cbv beta iota zeta in H;
    repeat match type of H with context [if ?b then _ else _] => destruct b end;
    injection H as <- <-; cbn [chain rq start_height upd_hreq]; auto.
Qed.

Lemma reconnect_inv s : Inv s -> Inv (reconnect s).
Proof.
  intros (Hc & Hp & Hw). split; [exact Hc|]. split.
  - intros Hs. cbn in Hs. destruct (Hp Hs) as (_ & _ & Hl). cbn. auto.
  - apply win_nil. reflexivity.
Qed.

Lemma restart_chain s : chain (restart_node s) = chain s.
Proof. reflexivity. Qed.

Lemma restart_rq s : rq (restart_node s) = r_init (tip s).
Proof. reflexivity. Qed.

Lemma restart_inv s : Inv s -> Inv (restart_node s).
Proof.
  intros (Hc & Hp & Hw). split; [rewrite restart_chain; exact Hc|]. split.
  - intros _. rewrite restart_rq. unfold tip. rewrite restart_chain. cbn. auto.
  - apply win_nil. rewrite restart_rq. reflexivity.
Qed.

End Ops.

(* ---------------------------------------------------------------------------------------- *)
(* One step: invariant, shape of the observation, how the chain changed                      *)

Definition start_rel (o : op) (s s1 : sync) : Prop :=
  match o with
  | OHeaders _ => hdr_rel s s1
  | _ => True
  end.

Definition chain_rel (o : op) (c c1 : list hdr) (p : list Z) : Prop :=
  match o with
  | OProcess =>
      (p = [0] /\ c1 = c) \/
      (exists id rest, p = 1 :: id :: 1 :: rest /\ c1 = c) \/
      (exists id rest, p = 1 :: id :: 0 :: zlen c :: id :: rest /\ map fst c1 = map fst c ++ [id])
  | OHeaders _ => True
  | _ => c1 = c
  end.

Section Step.
Variables MAXR LIM HT HDT BT DELTA : Z.
Variable parent_of : Z -> Z.
Notation Inv := (Inv parent_of MAXR).
Notation step := (step MAXR LIM HT HDT BT DELTA parent_of).
Notation run_from := (run_from MAXR LIM HT HDT BT DELTA parent_of).
Notation op_ok := (fun o => Forall (fun h : hdr => fst h <> 0 /\ snd h = parent_of (fst h)) (op_headers o)).

Lemma step_spec_chain w o w1 ob :
  step w o = (w1, ob) -> Inv (w_sync w) -> op_ok o ->
  Inv (w_sync w1) /\
  exists code p, ob = code :: digest (w_sync w1) ++ p /\
                 chain_rel o (chain (w_sync w)) (chain (w_sync w1)) p.
Proof.
  intros H HI Hok. destruct w as [s uv]. cbn [w_sync] in *.
  destruct o; unfold Sync.step in H; cbv beta iota zeta in H; cbn [w_sync w_uverified] in H.
  - (* OVersion *)
    injection H as <- <-. cbn [w_sync]. split; [eapply Inv_ext; [| | |exact HI]; reflexivity|].
    exists OK, []. split; reflexivity.
  - (* OHeaders *)
    destruct (handle_headers MAXR LIM s hs) as [s1 res] eqn:E. injection H as <- <-. cbn [w_sync].
    split; [eapply handle_headers_inv; [exact E|exact Hok|exact HI]|].
    eexists _, _. split; [reflexivity|exact I].
  - (* OBlockMsg *)
    destruct (handle_block s id valid) as [s1 ok] eqn:E. injection H as <- <-. cbn [w_sync].
    apply (handle_block_inv parent_of MAXR) in E as [HI1 Hc]; [|exact HI].
    split; [exact HI1|]. exists OK, []. split; [reflexivity|exact Hc].
  - (* OProcess *)
    destruct (process_next MAXR LIM parent_of s) as [[s1 popped] reqs] eqn:E.
    injection H as <- <-. cbn [w_sync].
    apply process_next_spec in E as [HI1 Hrel]; [|exact HI].
    split; [exact HI1|].
    destruct popped as [[id code]|].
    + destruct Hrel as [[-> Hc]|[-> Hc]].
      * eexists _, _. split; [reflexivity|]. cbn [tl]. right. left.
        eexists _, _. split; [reflexivity|exact Hc].
      * assert (Hh : height s1 = zlen (chain s)).
        { unfold height. rewrite Hc, zlen_app'. unfold zlen. cbn [length]. lia. }
        exists OK, (1 :: id :: 0 :: zlen (chain s) :: id :: zlen reqs :: reqs).
        split; [cbn [hd tl Z.eqb app]; rewrite Hh; reflexivity|].
        right. right. eexists _, _. split; [reflexivity|].
        rewrite Hc, map_app. reflexivity.
    + subst s1. exists OK, [0]. split; [reflexivity|]. left. auto.
  - (* OCheck *)
    destruct (check s) as [s1 outs] eqn:E. injection H as <- <-. cbn [w_sync].
    apply check_same in E as (Hc & Hr & Hs).
    split; [eapply Inv_ext; [exact Hc|exact Hr|exact Hs|exact HI]|].
    eexists _, _. split; [reflexivity|exact Hc].
  - (* OAdvance *)
    injection H as <- <-. cbn [w_sync]. split; [eapply Inv_ext; [| | |exact HI]; reflexivity|].
    exists OK, []. split; reflexivity.
  - (* OTimeouts *)
    destruct (timed_out HT HDT BT s); injection H as <- <-; cbn [w_sync].
    + split; [apply reconnect_inv; exact HI|]. exists OK, [1]. split; reflexivity.
    + split; [exact HI|]. exists OK, [0]. split; reflexivity.
  - (* OReconnect *)
    injection H as <- <-. cbn [w_sync]. split; [apply reconnect_inv; exact HI|].
    exists OK, []. split; reflexivity.
  - (* ORestartNode *)
    injection H as <- <-. cbn [w_sync]. split; [apply restart_inv; exact HI|].
    exists OK, []. split; [rewrite app_nil_r; reflexivity|reflexivity].
  - (* OUBlockMsg *)
    injection H as <- <-. cbn [w_sync]. split; [exact HI|]. exists OK, []. split; reflexivity.
  - (* OUHeaders *)
    destruct (untrusted_headers DELTA s uv hs) as [v err]. injection H as <- <-. cbn [w_sync].
    split; [exact HI|]. eexists _, _. split; reflexivity.
  - (* OUTx *)
    injection H as <- <-. cbn [w_sync]. split; [exact HI|]. eexists _, _. split; reflexivity.
  - (* OUInv *)
    injection H as <- <-. cbn [w_sync]. split; [exact HI|]. eexists _, _. split; reflexivity.
Qed.

Lemma step_spec w o w1 ob :
  step w o = (w1, ob) -> Inv (w_sync w) -> op_ok o ->
  Inv (w_sync w1) /\
  exists code p, ob = code :: digest (w_sync w1) ++ p /\
                 chain_rel o (chain (w_sync w)) (chain (w_sync w1)) p /\
                 start_rel o (w_sync w) (w_sync w1).
Proof.
  intros H HI Hok. destruct (step_spec_chain w o w1 ob H HI Hok) as (HI1 & code & p & Hob & Hrel).
  split; [exact HI1|]. exists code, p. split; [exact Hob|]. split; [exact Hrel|].
  destruct o; try exact I. cbn [start_rel].
  unfold Sync.step in H. cbv beta iota zeta in H.
  pose proof (handle_headers_rel MAXR LIM (w_sync w) hs) as Hr.
  destruct (handle_headers MAXR LIM (w_sync w) hs) as [s1 res]. injection H as <- _. exact Hr.
Qed.

Lemma w_after_inv ops : forall w,
  Inv (w_sync w) -> Forall op_ok ops ->
  Inv (w_sync (fold_left (fun w o => fst (step w o)) ops w)).
Proof.
  induction ops as [|o ops IH]; intros w HI Hops; [exact HI|].
  inversion Hops as [|o0 ops0 Ho Hops' E0]; subst o0 ops0.
  cbn [fold_left]. apply IH; [|exact Hops'].
  destruct (step w o) as [w1 ob] eqn:Es. cbn [fst].
  apply step_spec in Es as [HI1 _]; assumption.
Qed.

End Step.

Lemma w_init_inv parent_of MAXR start : Inv parent_of MAXR (w_sync (w_init start)).
Proof.
  split; [|split].
  - exists []. split; [reflexivity|]. split; [reflexivity|constructor].
  - intros _. cbn. auto.
  - apply win_nil. reflexivity.
Qed.

(* ---------------------------------------------------------------------------------------- *)
(* The monitor                                                                               *)

Lemma parse_obs_digest code s p :
  parse_obs (code :: digest s ++ p) =
  Some (DG (negb (b2z (ready s) =? 0))
           (negb (b2z (match chain s with [] => true | h :: c' => linked_from (fst h) c' end) =? 0))
           (negb (b2z (nodup_ids (chain s)) =? 0))
           (zlen (requested (rq s))) (start_height s)
           (map fst (chain s)) p).
Proof.
  unfold digest. cbn [app]. unfold parse_obs.
  assert (H1 : zlen (chain s) <? 0 = false) by (apply Z.ltb_ge; apply zlen_nonneg').
  assert (H2 : zlen (map fst (chain s) ++ p) <? zlen (chain s) = false).
  { apply Z.ltb_ge. rewrite zlen_app'. pose proof (zlen_nonneg' p). unfold zlen in *.
    rewrite map_length. unfold hdr in *. lia. }
  assert (H3 : Z.to_nat (zlen (chain s)) = length (map fst (chain s))).
  { unfold zlen. rewrite map_length, Nat2Z.id. reflexivity. }
  rewrite H1, H2, H3. cbn [orb]. rewrite take_app, drop_app. reflexivity.
Qed.

Lemma zeq_refl l : zeq l l = true.
Proof. induction l as [|x l IH]; [reflexivity|]. cbn [zeq]. rewrite Z.eqb_refl, IH. reflexivity. Qed.

Section Monitor.
Variables MAXR LIM HT HDT BT DELTA : Z.
Variable parent_of : Z -> Z.
Variable rk : Z -> Z.
Hypothesis rk_lt : forall id, id <> 0 -> rk (parent_of id) < rk id.
Hypothesis MAXR_nonneg : 0 <= MAXR.
Notation Inv := (Inv parent_of MAXR).
Notation step := (step MAXR LIM HT HDT BT DELTA parent_of).
Notation run_from := (run_from MAXR LIM HT HDT BT DELTA parent_of).
Notation op_ok := (fun o => Forall (fun h : hdr => fst h <> 0 /\ snd h = parent_of (fst h)) (op_headers o)).

Lemma is_prefix_take n (l : list Z) : is_prefix (take n l) l = true.
Proof.
  revert n. induction l as [|x l IH]; intros [|n]; try reflexivity.
  cbn [take is_prefix]. rewrite Z.eqb_refl. apply IH.
Qed.

Lemma c02_step_ok o s s1 p ps :
  Inv s -> Inv s1 -> chain_rel o (chain s) (chain s1) p -> start_rel o s s1 ->
  ps = -2 \/ ps = start_height s ->
  c02_step MAXR ps (map fst (chain s)) o
    (DG (negb (b2z (ready s1) =? 0))
        (negb (b2z (match chain s1 with [] => true | h :: c' => linked_from (fst h) c' end) =? 0))
        (negb (b2z (nodup_ids (chain s1)) =? 0))
        (zlen (requested (rq s1))) (start_height s1)
        (map fst (chain s1)) p) = 0.
Proof.
  intros (Hc & _ & _) (Hc1 & _ & Hw1) Hrel Hsrel Hps.
  unfold c02_step. cbn [d_linked d_inverse d_nreq d_payload d_chain d_start].
  rewrite (chain_inv_digest_linked _ _ Hc1).
  destruct (chain_inv_ok _ rk rk_lt _ Hc1) as (_ & _ & Hnd). rewrite Hnd.
  cbn [b2z Z.eqb negb].
  specialize (Hw1 MAXR_nonneg).
  destruct (Z.gtb_spec (zlen (requested (rq s1))) MAXR) as [Hgt|_]; [lia|].
  destruct (chain_inv_ids _ _ Hc) as [l El]. destruct (chain_inv_ids _ _ Hc1) as [l1 El1].
  destruct o; cbn [chain_rel] in Hrel;
    try (rewrite Hrel, zeq_refl; reflexivity).
  - (* OHeaders *)
    assert (H221 : (zlen (common_prefix (map fst (chain s)) (map fst (chain s1))) <? 1) = false).
    { rewrite El, El1. cbn [common_prefix Z.eqb]. rewrite zlen_cons'.
      pose proof (zlen_nonneg' (common_prefix l l1)) as Hn. apply Z.ltb_ge. lia. }
    rewrite H221. cbn [start_rel] in Hsrel. destruct Hsrel as [Hknown Hpre].
    assert (H222 : ((0 <=? ps) && negb (is_prefix (map fst (chain s1)) (map fst (chain s)))) = false).
    { destruct (Z.leb_spec 0 ps) as [Hge|Hlt]; [|reflexivity]. cbn [andb].
      assert (Hs : start_height s <> -1) by (destruct Hps as [Hps|Hps]; lia).
      destruct (Hknown Hs) as [_ (n & Hn)]. rewrite Hn.
      assert (E : map fst (take n (chain s)) = take n (map fst (chain s))).
      { clear. revert n. induction (chain s) as [|x c IH]; intros [|n]; cbn; try reflexivity. f_equal. apply IH. }
      rewrite E, is_prefix_take. reflexivity. }
    rewrite H222.
    assert (H223 : ((ps =? -1) && (0 <=? start_height s1) && (start_height s1 <? zlen (map fst (chain s1)))) = false).
    { destruct (Z.eqb_spec ps (-1)) as [E|_]; [|reflexivity]. cbn [andb].
      assert (Hs : start_height s = -1) by (destruct Hps as [Hps|Hps]; lia).
      assert (Hz : zlen (map fst (chain s1)) = zlen (chain s1)) by (unfold zlen; rewrite map_length; reflexivity).
      rewrite Hz. destruct (Hpre Hs) as [H|H].
      - rewrite H. reflexivity.
      - destruct (0 <=? start_height s1); [cbn [andb]; apply Z.ltb_ge; lia|reflexivity]. }
    rewrite H223. reflexivity.
  - (* OProcess *)
    destruct Hrel as [[-> ->]|[(id & rest & -> & ->)|(id & rest & -> & Hm)]].
    + rewrite zeq_refl. reflexivity.
    + rewrite zeq_refl. reflexivity.
    + rewrite Z.eqb_refl. cbn [negb].
      assert (Hz : zlen (chain s) = zlen (map fst (chain s))).
      { unfold zlen. rewrite map_length. reflexivity. }
      rewrite Hz, Z.eqb_refl. cbn [negb]. rewrite Hm, zeq_refl. reflexivity.
Qed.

Lemma c02_from_ok ops : forall w i ps,
  Inv (w_sync w) -> Forall op_ok ops -> ps = -2 \/ ps = start_height (w_sync w) ->
  c02_from MAXR ps (map fst (chain (w_sync w))) i ops (run_from w ops) = None.
Proof.
  induction ops as [|o ops IH]; intros w i ps HI Hops Hps; [reflexivity|].
  inversion Hops as [|o0 ops0 Ho Hops' E0]; subst o0 ops0.
  cbn [Sync.run_from]. destruct (step w o) as [w1 ob] eqn:Es.
  apply step_spec in Es as (HI1 & code & p & -> & Hrel & Hsrel); [|exact HI|exact Ho].
  cbn [c02_from]. rewrite parse_obs_digest.
  rewrite (c02_step_ok o (w_sync w) (w_sync w1) p ps HI HI1 Hrel Hsrel Hps).
  cbn [Z.eqb negb d_chain d_start]. apply IH; [assumption|assumption|right; reflexivity].
Qed.

End Monitor.

(* ---------------------------------------------------------------------------------------- *)
(* The statements closed by props/C02.v                                                      *)

Theorem chain_linked :
  forall (MAXR LIM HT HDT BT DELTA : Z) (parents : list (Z * Z)) (rk : Z -> Z) (start : Z) (ops : list op),
    sync_valid (table_fn parents) rk ops ->
    chain_ok (chain (w_sync (w_after MAXR LIM HT HDT BT DELTA parents start ops))).
Proof.
  intros MAXR LIM HT HDT BT DELTA parents rk start ops (Hrk & Hhs & _).
  unfold w_after.
  pose proof (w_after_inv MAXR LIM HT HDT BT DELTA (table_fn parents) ops (w_init start)
                (w_init_inv _ _ _) Hhs) as (Hc & _).
  eapply chain_inv_ok; [exact Hrk|exact Hc].
Qed.

Theorem c02_monitor_passes :
  forall (MAXR LIM HT HDT BT DELTA : Z) (parents : list (Z * Z)) (rk : Z -> Z) (start : Z) (ops : list op),
    0 <= MAXR ->
    sync_valid (table_fn parents) rk ops ->
    c02_monitor MAXR ops (run MAXR LIM HT HDT BT DELTA parents start ops) = None.
Proof.
  intros MAXR LIM HT HDT BT DELTA parents rk start ops HM (Hrk & Hhs & _).
  unfold c02_monitor.
  change (run MAXR LIM HT HDT BT DELTA parents start ops)
    with (run_from MAXR LIM HT HDT BT DELTA (table_fn parents) (w_init start) ops).
  change [0] with (map fst (chain (w_sync (w_init start)))).
  eapply c02_from_ok; [exact Hrk|exact HM|apply w_init_inv|exact Hhs|left; reflexivity].
Qed.

Theorem c02_monitor_passes_consts :
  forall (parents : list (Z * Z)) (rk : Z -> Z) (start : Z) (ops : list op),
    sync_valid (table_fn parents) rk ops ->
    c02_monitor maxRequestedBlocks ops
      (run maxRequestedBlocks maxPendingBlockSize handshakeTimeout headerTimeout blockTimeout
           UntrustedHeaderDelta parents start ops) = None.
Proof.
  intros parents rk start ops Hv. eapply c02_monitor_passes; [|exact Hv].
  unfold maxRequestedBlocks. lia.
Qed.
