(* ProcessBlock in two phases - the parent check (with the known-block and merkle tests) and the add -
   as the real code runs them, with something else allowed in between.  /repo fix e0141dc makes the
   headers handler wait for a block that is between the two (BlockRepository.LockChain); these theorems
   say why that is needed: the add keeps the chain hash-linked when nothing touches the chain since the
   check, and does not when a headers message (a reorg) is handled in between. *)
From V.lib Require Import Base.
From V.model Require Import Requests Sync SyncSpec.
From V.proofs Require Import Sync_Proofs.

Definition process_check (s : sync) (h : hdr) (valid : bool) : bool :=
  negb (contains s (fst h)) && (snd h =? tip s) && valid.

Definition process_add (s : sync) (h : hdr) : sync * Z :=
  let s1 := upd_chain s (chain s ++ [h]) in
  let s2 := if negb (ready s1) && pending_sync s1 && requests_empty (rq s1) then upd_ready s1 true else s1 in
  (s2, 0).

(* the model's atomic step is exactly check-then-add *)
Lemma process_block_two_phase s h v :
  process_block s h v = if process_check s h v then process_add s h else (s, 1).
Proof.
  unfold process_block, process_check, process_add.
  destruct (contains s (fst h)); cbn [negb andb]; [reflexivity|].
  destruct (snd h =? tip s); cbn [negb andb]; [|reflexivity].
  destruct v; reflexivity.
Qed.

Lemma process_add_chain s h : chain (fst (process_add s h)) = chain s ++ [h].
Proof.
  unfold process_add. cbn [fst].
  destruct (negb (ready (upd_chain s (chain s ++ [h]))) && pending_sync (upd_chain s (chain s ++ [h])) &&
            requests_empty (rq (upd_chain s (chain s ++ [h])))); reflexivity.
Qed.

(* the chain changed by nobody between the check (on s) and the add (on s', same chain): linked stays *)
Lemma two_phase_locked s s' h v c' :
  chain s = genesis_hdr :: c' ->
  chain s' = chain s ->
  linked_from (-1) (chain s) = true ->
  process_check s h v = true ->
  linked_from (-1) (chain (fst (process_add s' h))) = true.
Proof.
  intros Hg Hsame Hl Hc.
  rewrite process_add_chain, Hsame, linked_from_snoc, Hl. cbn [andb].
  unfold process_check in Hc.
  apply andb_true_iff in Hc as [Hc _]. apply andb_true_iff in Hc as [_ Hp].
  rewrite tip_tip_of, Hg, tip_of_cons in Hp.
  rewrite Hg. cbn [last_id]. exact Hp.
Qed.

(* a headers message handled between the two phases: the real history of findings/parent_race.py
   (chain 0-1-2, block 3 checked, header 4 = child of 1 handled, block 3 added) *)
Definition tp_s0 : sync := upd_chain (s_init 0) [(0, -1); (1, 0); (2, 1)].

Lemma two_phase_interleaved_refuted :
  exists (s : sync) (h : hdr) (hs : list hdr),
    chain_ok (chain s) /\
    process_check s h true = true /\
    map fst (chain (fst (handle_headers 10 100000000 s hs))) = [0; 1] /\
    linked_from (-1) (chain (fst (process_add (fst (handle_headers 10 100000000 s hs)) h))) = false.
Proof.
  exists tp_s0, (3, 2), [(4, 1)].
  split; [|vm_compute; repeat split; reflexivity].
  split; [exists [(1, 0); (2, 1)]; reflexivity|]. vm_compute. split; reflexivity.
Qed.
