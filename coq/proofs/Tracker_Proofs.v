(* Proofs for property C14: on every valid history the monitor c14_monitor accepts the trace of the
   model (model/Tracker.v).  Simulation invariant Inv between the model state and the monitor's
   bookkeeping; every step preserves it and yields code 0. *)
From V.lib Require Import Base.
From Coq Require Import Sorting.Sorted.
From V.model Require Import MemPool Tracker.

(* ---------------------------------------------------------------------------------------- *)
(* basic facts *)
Lemma zlen_eqb0 {A} (l : list A) : (zlen l =? 0) = match l with [] => true | _ => false end.
Proof. destruct l; reflexivity. Qed.

Lemma mem_elem x l : mem x l = true <-> x ∈ l.
Proof.
  unfold mem. rewrite existsb_exists. split.
  - intros (y & Hy & He). apply Z.eqb_eq in He. subst. apply elem_of_list_In. exact Hy.
  - intros H. exists x. split; [apply elem_of_list_In; exact H | apply Z.eqb_refl].
Qed.

Lemma mem_false x l : mem x l = false <-> x ∉ l.
Proof. rewrite <- mem_elem. destruct (mem x l); split; congruence. Qed.

Lemma mem_app x l1 l2 : mem x (l1 ++ l2) = mem x l1 || mem x l2.
Proof. apply existsb_app. Qed.

Lemma mem_cons x y l : mem x (y :: l) = (x =? y) || mem x l.
Proof. reflexivity. Qed.

Lemma mem_nil x : mem x [] = false.
Proof. reflexivity. Qed.

Lemma mem_filter x (P : Z -> Prop) `{!forall y, Decision (P y)} l :
  mem x (filter P l) = if decide (P x) then mem x l else false.
Proof.
  destruct (decide (P x)) as [p|p].
  - destruct (mem x l) eqn:E.
    + apply mem_elem. apply elem_of_list_filter. split; [exact p|]. apply mem_elem. exact E.
    + apply mem_false. intros Hin. apply elem_of_list_filter in Hin. destruct Hin as [_ Hin].
      apply mem_elem in Hin. congruence.
  - apply mem_false. intros Hin. apply elem_of_list_filter in Hin. tauto.
Qed.

Lemma filter_ext_in {A} (P Q : A -> Prop) `{!forall x, Decision (P x)} `{!forall x, Decision (Q x)}
    (l : list A) : (forall x, x ∈ l -> (P x <-> Q x)) -> filter P l = filter Q l.
Proof.
  induction l as [|a l IH]; intros Hext; [reflexivity|].
  rewrite !filter_cons.
  assert (Ha : P a <-> Q a) by (apply Hext; left).
  rewrite IH by (intros x Hx; apply Hext; right; exact Hx).
  destruct (decide (P a)), (decide (Q a)); tauto.
Qed.

(* ---------------------------------------------------------------------------------------- *)
(* the mempool: only the request map and "the body is held" matter *)
Notation te := transaction_exists.

(* a request for t would go out now (no request recorded, or the recorded one is older than the window) *)
Definition due (mp : mempool) (now t : Z) : bool :=
  match requests mp !! t with Some t0 => now - t0 >? REQ_WINDOW | None => true end.

Lemma add_request_spec mp now t tr :
  exists mp1,
    add_request mp now t tr = (mp1, (te mp t, negb (te mp t) && due mp now t)) /\
    requests mp1 = (if negb (te mp t) && due mp now t then <[t := now]> (requests mp) else requests mp) /\
    forall t', te mp1 t' = te mp t'.
Proof.
  unfold add_request, transaction_exists, due.
  destruct (txs mp !! t) as [m0|] eqn:Et.
  - destruct (negb (zlen (outpoints m0) =? 0)) eqn:Eh; simpl.
    + eexists. split; [reflexivity|]. split; [reflexivity|]. intros t'. simpl.
      destruct (decide (t' = t)) as [->|Hne].
      * rewrite lookup_insert, Et. destruct (tr && negb (mtrusted m0)); reflexivity.
      * rewrite lookup_insert_ne by congruence. reflexivity.
    + destruct (requests mp !! t) as [t0|] eqn:Er; [destruct (now - t0 >? REQ_WINDOW) eqn:Ew|];
        (eexists; split; [reflexivity|]; split; [reflexivity|]; intros t'; simpl;
         destruct (decide (t' = t)) as [->|Hne];
         [ rewrite lookup_insert, Et; destruct (tr && negb (mtrusted m0)); reflexivity
         | rewrite lookup_insert_ne by congruence; reflexivity ]).
  - simpl.
    destruct (requests mp !! t) as [t0|] eqn:Er; [destruct (now - t0 >? REQ_WINDOW) eqn:Ew|];
      (eexists; split; [reflexivity|]; split; [reflexivity|]; intros t'; simpl;
       destruct (decide (t' = t)) as [->|Hne];
       [ rewrite lookup_insert, Et; reflexivity
       | rewrite lookup_insert_ne by congruence; reflexivity ]).
Qed.

Lemma add_transaction_spec mp now t body tr :
  body <> [] ->
  exists mp1 r,
    add_transaction mp now t body tr = (mp1, r) /\
    requests mp1 = delete t (requests mp) /\
    forall t', te mp1 t' = if decide (t' = t) then true else te mp t'.
Proof.
  intros Hbody. unfold add_transaction, transaction_exists.
  assert (Hb : negb (zlen body =? 0) = true) by (destruct body; [congruence|reflexivity]).
  destruct (txs mp !! t) as [m0|] eqn:Et.
  - destruct (negb (zlen (outpoints m0) =? 0)) eqn:Eh.
    + eexists _, _. split; [reflexivity|]. split; [reflexivity|]. intros t'. simpl.
      destruct (decide (t' = t)) as [->|Hne].
      * rewrite lookup_insert. destruct (tr && negb (mtrusted m0)); exact Eh.
      * rewrite lookup_insert_ne by congruence. reflexivity.
    + destruct (add_inputs (inputs mp) [] t body) as [ins c].
      eexists _, _. split; [reflexivity|]. split; [reflexivity|]. intros t'. simpl.
      destruct (decide (t' = t)) as [->|Hne].
      * rewrite lookup_insert. simpl. exact Hb.
      * rewrite lookup_insert_ne by congruence. reflexivity.
  - destruct (add_inputs (inputs mp) [] t body) as [ins c].
    eexists _, _. split; [reflexivity|]. split; [reflexivity|]. intros t'. simpl.
    destruct (decide (t' = t)) as [->|Hne].
    + rewrite lookup_insert. simpl. exact Hb.
    + rewrite lookup_insert_ne by congruence. reflexivity.
Qed.

Lemma remove_transaction_spec mp t :
  requests (fst (remove_transaction mp t)) = delete t (requests mp) /\
  forall t', te (fst (remove_transaction mp t)) t' = if decide (t' = t) then false else te mp t'.
Proof.
  unfold remove_transaction, transaction_exists.
  destruct (txs mp !! t) as [m0|] eqn:Et; simpl; (split; [reflexivity|]); intros t';
    destruct (decide (t' = t)) as [->|Hne].
  - rewrite lookup_delete. reflexivity.
  - rewrite lookup_delete_ne by congruence. reflexivity.
  - rewrite Et. reflexivity.
  - reflexivity.
Qed.

Definition remove_all (mp : mempool) (ts : list Z) : mempool :=
  fold_left (fun m t => fst (remove_transaction m t)) ts mp.

Lemma remove_all_spec ts : forall mp t,
  requests (remove_all mp ts) !! t = (if mem t ts then None else requests mp !! t) /\
  te (remove_all mp ts) t = (if mem t ts then false else te mp t).
Proof.
  induction ts as [|a ts IH]; intros mp t; [split; reflexivity|].
  unfold remove_all. simpl fold_left. fold (remove_all (fst (remove_transaction mp a)) ts).
  destruct (IH (fst (remove_transaction mp a)) t) as [IH1 IH2].
  destruct (remove_transaction_spec mp a) as [Hr Ht].
  rewrite IH1, IH2, Hr, Ht, mem_cons.
  destruct (decide (t = a)) as [->|Hne].
  - rewrite Z.eqb_refl, lookup_delete. simpl. destruct (mem a ts); split; reflexivity.
  - rewrite lookup_delete_ne by congruence.
    assert (E : (t =? a) = false) by (apply Z.eqb_neq; exact Hne). rewrite E. simpl.
    split; reflexivity.
Qed.

(* ---------------------------------------------------------------------------------------- *)
(* tracker lists *)
Definition trk (ts : list (list Z)) (c : nat) : list Z := default [] (ts !! c).

Lemma tracker_of_trk s c : tracker_of s c = trk (trackers s) c.
Proof. reflexivity. Qed.

Lemma trk_insert_eq ts c l : (c < length ts)%nat -> trk (<[c := l]> ts) c = l.
Proof. intros Hc. unfold trk. rewrite list_lookup_insert by exact Hc. reflexivity. Qed.

Lemma trk_insert_ne ts c c' l : c <> c' -> trk (<[c := l]> ts) c' = trk ts c'.
Proof. intros Hc. unfold trk. rewrite list_lookup_insert_ne by exact Hc. reflexivity. Qed.

Lemma trk_ge ts c : (length ts <= c)%nat -> trk ts c = [].
Proof. intros Hc. unfold trk. rewrite lookup_ge_None_2 by exact Hc. reflexivity. Qed.

Lemma trk_map_filter (P : Z -> Prop) `{!forall y, Decision (P y)} ts c :
  trk (map (filter P) ts) c = filter P (trk ts c).
Proof.
  unfold trk. change (map (filter P) ts) with (filter P <$> ts). rewrite list_lookup_fmap.
  destruct (ts !! c); reflexivity.
Qed.

Lemma trk_replicate n c : trk (replicate n []) c = [].
Proof.
  unfold trk. destruct (replicate n [] !! c) as [l|] eqn:E; [|reflexivity].
  apply lookup_replicate in E. destruct E as [-> _]. reflexivity.
Qed.

Notation sorted := (StronglySorted Z.lt).

Lemma elem_of_insert_sorted x l z : z ∈ insert_sorted x l <-> z = x \/ z ∈ l.
Proof.
  induction l as [|y l IH]; simpl.
  - rewrite elem_of_list_singleton, elem_of_nil. tauto.
  - destruct (x <? y) eqn:E1.
    + rewrite (elem_of_cons (y :: l)). tauto.
    + destruct (x =? y) eqn:E2.
      * apply Z.eqb_eq in E2. subst. rewrite elem_of_cons. tauto.
      * rewrite !elem_of_cons, IH. tauto.
Qed.

Lemma insert_sorted_sorted x l : sorted l -> sorted (insert_sorted x l).
Proof.
  induction l as [|y l IH]; intros Hs; simpl.
  - repeat constructor.
  - destruct (x <? y) eqn:E1.
    + apply Z.ltb_lt in E1. constructor; [exact Hs|].
      inversion Hs as [|? ? Hs' Hall]; subst. constructor; [exact E1|].
      eapply Forall_impl; [exact Hall|]. intros z Hz. simpl in Hz. lia.
    + destruct (x =? y) eqn:E2; [exact Hs|]. apply Z.ltb_ge in E1. apply Z.eqb_neq in E2.
      inversion Hs as [|? ? Hs' Hall]; subst. constructor; [apply IH; exact Hs'|].
      apply Forall_forall. intros z Hz. apply elem_of_insert_sorted in Hz.
      destruct Hz as [->|Hz]; [lia|]. rewrite Forall_forall in Hall. apply Hall. exact Hz.
Qed.

Lemma sorted_NoDup l : sorted l -> NoDup l.
Proof.
  induction 1 as [|a l Hs IH Hall]; [apply NoDup_nil_2|]. apply NoDup_cons_2; [|exact IH].
  intros Hin. rewrite Forall_forall in Hall. apply Hall in Hin. lia.
Qed.

Lemma sorted_filter (P : Z -> Prop) `{!forall y, Decision (P y)} l : sorted l -> sorted (filter P l).
Proof.
  induction 1 as [|a l Hs IH Hall]; [constructor|]. rewrite filter_cons.
  destruct (decide (P a)); [|exact IH]. constructor; [exact IH|].
  apply Forall_forall. intros z Hz. apply elem_of_list_filter in Hz.
  rewrite Forall_forall in Hall. apply Hall. tauto.
Qed.

(* boolean filter *)
Lemma elem_of_bfilter (f : Z -> bool) l x : x ∈ List.filter f l <-> x ∈ l /\ f x = true.
Proof. rewrite !elem_of_list_In. apply filter_In. Qed.

Lemma sorted_bfilter (f : Z -> bool) l : sorted l -> sorted (List.filter f l).
Proof.
  induction 1 as [|a l Hs IH Hall]; [constructor|]. simpl.
  destruct (f a); [|exact IH]. constructor; [exact IH|].
  apply Forall_forall. intros z Hz. apply elem_of_bfilter in Hz.
  rewrite Forall_forall in Hall. apply Hall. tauto.
Qed.

Lemma bfilter_ext_in (f g : Z -> bool) l :
  (forall x, x ∈ l -> f x = g x) -> List.filter f l = List.filter g l.
Proof.
  intros Hext. apply List.filter_ext_in. intros x Hx. apply Hext. apply elem_of_list_In. exact Hx.
Qed.

Lemma mem_bfilter (f : Z -> bool) l x : mem x (List.filter f l) = f x && mem x l.
Proof.
  destruct (mem x (List.filter f l)) eqn:E.
  - apply mem_elem, elem_of_bfilter in E. destruct E as [E1 E2]. apply mem_elem in E1.
    rewrite E1, E2. reflexivity.
  - destruct (f x) eqn:Ef; [|reflexivity]. destruct (mem x l) eqn:El; [|reflexivity].
    apply mem_false in E. destruct E. apply elem_of_bfilter. split; [apply mem_elem; exact El|exact Ef].
Qed.

(* ---------------------------------------------------------------------------------------- *)
(* TxTracker.Check: classification of the tracked txids against the mempool at the start *)
Definition rq (mp : mempool) (now t : Z) : bool := negb (te mp t) && due mp now t.
Definition kp (mp : mempool) (now t : Z) : bool := negb (te mp t) && negb (due mp now t).

Lemma check_loop_spec now : forall l mp keep0 req0,
  NoDup l ->
  exists mp1,
    check_loop mp now l keep0 req0 =
      (mp1, keep0 ++ List.filter (kp mp now) l, req0 ++ List.filter (rq mp now) l) /\
    (forall t, requests mp1 !! t =
               if mem t (List.filter (rq mp now) l) then Some now else requests mp !! t) /\
    (forall t, te mp1 t = te mp t).
Proof.
  induction l as [|a l IH]; intros mp keep0 req0 Hnd.
  - exists mp. simpl. rewrite !app_nil_r. split; [reflexivity|]. split; intros; reflexivity.
  - apply NoDup_cons in Hnd. destruct Hnd as [Ha Hnd].
    destruct (add_request_spec mp now a false) as (mp' & Hreq & Hrq' & Hte').
    fold (rq mp now a) in Hreq, Hrq'.
    assert (Hdue : forall t, t ∈ l -> due mp' now t = due mp now t).
    { intros t Ht. unfold due. rewrite Hrq'. destruct (rq mp now a); [|reflexivity].
      rewrite lookup_insert_ne; [reflexivity|]. intros ->. contradiction. }
    assert (Hk : List.filter (kp mp' now) l = List.filter (kp mp now) l).
    { apply bfilter_ext_in. intros t Ht. unfold kp. rewrite Hte', (Hdue t Ht). reflexivity. }
    assert (Hr : List.filter (rq mp' now) l = List.filter (rq mp now) l).
    { apply bfilter_ext_in. intros t Ht. unfold rq. rewrite Hte', (Hdue t Ht). reflexivity. }
    simpl check_loop. rewrite Hreq. simpl List.filter. rewrite <- Hk, <- Hr.
    assert (Ekp : kp mp now a = negb (te mp a) && negb (due mp now a)) by reflexivity.
    assert (Erq : rq mp now a = negb (te mp a) && due mp now a) by reflexivity.
    destruct (te mp a) eqn:Eh; [|destruct (due mp now a) eqn:Ed]; simpl in Ekp, Erq;
      rewrite Ekp, Erq; rewrite Erq in Hrq'.
    + destruct (IH mp' keep0 req0 Hnd) as (mp1 & Hcl & Hq & Ht).
      exists mp1. split; [exact Hcl|]. split.
      * intros t. rewrite Hq, Hrq'. reflexivity.
      * intros t. rewrite Ht. apply Hte'.
    + destruct (IH mp' keep0 (req0 ++ [a]) Hnd) as (mp1 & Hcl & Hq & Ht).
      exists mp1. split; [rewrite Hcl, <- app_assoc; reflexivity|]. split.
      * intros t. rewrite Hq, Hrq', mem_cons.
        destruct (decide (t = a)) as [->|Hne].
        -- rewrite Z.eqb_refl, lookup_insert. simpl. destruct (mem a _); reflexivity.
        -- assert (E : (t =? a) = false) by (apply Z.eqb_neq; exact Hne). rewrite E. simpl.
           rewrite lookup_insert_ne by congruence. reflexivity.
      * intros t. rewrite Ht. apply Hte'.
    + destruct (IH mp' (keep0 ++ [a]) req0 Hnd) as (mp1 & Hcl & Hq & Ht).
      exists mp1. split; [rewrite Hcl, <- app_assoc; reflexivity|]. split.
      * intros t. rewrite Hq, Hrq'. reflexivity.
      * intros t. rewrite Ht. apply Hte'.
Qed.

(* ---------------------------------------------------------------------------------------- *)
(* the monitor's request table *)
Definition lr (l : list (Z * Z)) (t : Z) : option Z :=
  match find (fun e => fst e =? t) l with Some e => Some (snd e) | None => None end.

Lemma last_req_lr m t : last_req m t = lr (k_last m) t.
Proof. reflexivity. Qed.

Lemma lr_cons a b l t : lr ((a, b) :: l) t = if a =? t then Some b else lr l t.
Proof. unfold lr. simpl. destruct (a =? t); reflexivity. Qed.

Lemma lr_filter (Q : Z * Z -> Prop) `{!forall e, Decision (Q e)} (f : Z -> bool) l t :
  (forall e, Q e <-> f (fst e) = true) ->
  lr (filter Q l) t = if f t then lr l t else None.
Proof.
  intros HQ. induction l as [|[a b] l IH]; [destruct (f t); reflexivity|].
  rewrite filter_cons. destruct (decide (Q (a, b))) as [q|q].
  - rewrite !lr_cons, IH. destruct (a =? t) eqn:E; [|reflexivity].
    apply Z.eqb_eq in E. subst. apply HQ in q. simpl in q. rewrite q. reflexivity.
  - rewrite lr_cons, IH. destruct (a =? t) eqn:E; [|reflexivity].
    apply Z.eqb_eq in E. subst. destruct (f t) eqn:Ef; [|reflexivity].
    destruct q. apply HQ. exact Ef.
Qed.

Lemma lr_set_last m t t' :
  lr (set_last m t) t' = if t' =? t then Some (k_clock m) else lr (k_last m) t'.
Proof.
  unfold set_last. rewrite lr_cons, Z.eqb_sym. destruct (t' =? t) eqn:E; [reflexivity|].
  rewrite (lr_filter _ (fun x => negb (x =? t))).
  - rewrite E. reflexivity.
  - intros e. rewrite negb_true_iff, Z.eqb_neq. reflexivity.
Qed.

Lemma active_lr m t :
  active m t = match lr (k_last m) t with Some t0 => k_clock m - t0 <=? REQ_WINDOW | None => false end.
Proof. reflexivity. Qed.

Lemma active_due m mp now t :
  k_clock m = now -> lr (k_last m) t = requests mp !! t -> active m t = negb (due mp now t).
Proof.
  intros Hc Hl. rewrite active_lr. unfold due. rewrite Hl, Hc.
  destruct (requests mp !! t) as [t0|]; [|reflexivity].
  rewrite Z.gtb_ltb.
  destruct (Z.ltb_spec REQ_WINDOW (now - t0)), (Z.leb_spec (now - t0) REQ_WINDOW);
    try reflexivity; lia.
Qed.

(* the getdata messages of one check *)
Definition req_fold : Z * tm -> Z -> Z * tm :=
  fun '(code, m) t => if code =? 0 then on_request m t else (code, m).

Lemma req_fold_ok reqs : forall m,
  NoDup reqs ->
  (forall t, t ∈ reqs -> mem t (k_held m) = false /\ active m t = false) ->
  exists L,
    fold_left req_fold reqs (0, m) = (0, TM L (k_held m) (k_tracked m) (k_clock m) (k_confirmed m)) /\
    forall t, lr L t = if mem t reqs then Some (k_clock m) else lr (k_last m) t.
Proof.
  induction reqs as [|a reqs IH]; intros m Hnd Hok.
  - exists (k_last m). split; [destruct m; reflexivity|]. intros; reflexivity.
  - apply NoDup_cons in Hnd. destruct Hnd as [Ha Hnd].
    destruct (Hok a) as [Hh Hact]; [left|].
    change (fold_left req_fold (a :: reqs) (0, m)) with (fold_left req_fold reqs (on_request m a)).
    unfold on_request. rewrite Hh, Hact.
    set (m' := TM (set_last m a) (k_held m) (k_tracked m) (k_clock m) (k_confirmed m)).
    destruct (IH m' Hnd) as (L & HL & Hlr).
    { intros t Ht. destruct (Hok t) as [Hh' Hact']; [right; exact Ht|]. split; [exact Hh'|].
      rewrite active_lr in *. simpl. rewrite lr_set_last.
      assert (E : (t =? a) = false) by (apply Z.eqb_neq; intros ->; contradiction).
      rewrite E. exact Hact'. }
    exists L. split; [exact HL|]. intros t. rewrite Hlr, mem_cons. simpl. rewrite lr_set_last.
    destruct (t =? a); simpl; [destruct (mem t reqs)|]; reflexivity.
Qed.

Lemma trk_insert_sub ts c l c' x :
  x ∈ trk (<[c := l]> ts) c' -> (c' = c /\ x ∈ l) \/ x ∈ trk ts c'.
Proof.
  destruct (decide (c = c')) as [<-|Hne].
  - destruct (decide (c < length ts)%nat) as [Hlt|Hge].
    + rewrite trk_insert_eq by exact Hlt. auto.
    + rewrite list_insert_ge by lia. auto.
  - rewrite trk_insert_ne by exact Hne. auto.
Qed.

Lemma trk_insert_sorted ts c l :
  (forall c', sorted (trk ts c')) -> sorted l -> forall c', sorted (trk (<[c := l]> ts) c').
Proof.
  intros Hts Hl c'. destruct (decide (c = c')) as [<-|Hne].
  - destruct (decide (c < length ts)%nat) as [Hlt|Hge].
    + rewrite trk_insert_eq by exact Hlt. exact Hl.
    + rewrite list_insert_ge by lia. apply Hts.
  - rewrite trk_insert_ne by exact Hne. apply Hts.
Qed.

(* ---------------------------------------------------------------------------------------- *)
(* unfolding of the monitor step on the observation shapes of the model *)
Lemma c14_step_OInv m c t r :
  c14_step m (OInv c t) [OK; r] =
    let m' := TM (k_last m) (k_held m) (k_tracked m) (k_clock m) (filter (fun x => x ≠ t) (k_confirmed m)) in
    if negb (r =? 0) then
      let '(code, m1) := on_request m' t in
      (code, TM (k_last m1) (k_held m1) (untrack c t (k_tracked m1)) (k_clock m1) (k_confirmed m1))
    else if mem t (k_held m') then (0, m')
    else if active m' t
    then (0, TM (k_last m') (k_held m') ((c, t) :: untrack c t (k_tracked m')) (k_clock m') (k_confirmed m'))
    else (403, m').
Proof. reflexivity. Qed.

Lemma c14_step_OCheck m c x reqs :
  c14_step m (OCheck c) (x :: reqs) =
    let due := filter (fun e : nat * Z => (Nat.eqb (fst e) c && negb (mem (snd e) (k_held m)) && negb (active m (snd e))) = true)
                      (k_tracked m) in
    if existsb (fun e => negb (mem (snd e) reqs)) due then (405, m) else
    if existsb (fun t => mem t (k_confirmed m)) reqs then (407, m) else
    let '(code, m1) := fold_left req_fold reqs (0, m) in
    (code, TM (k_last m1) (k_held m1)
              (filter (fun e : nat * Z => negb (Nat.eqb (fst e) c && (mem (snd e) reqs || mem (snd e) (k_held m))) = true) (k_tracked m1))
              (k_clock m1) (k_confirmed m1)).
Proof. reflexivity. Qed.

Lemma c14_step_OBody m t body tr ob :
  c14_step m (OBody t body tr) ob =
    (0, TM (filter (fun e => fst e ≠ t) (k_last m))
           (if (zlen body =? 0) || mem t (k_held m) then k_held m else t :: k_held m)
           (untrack 0 t (k_tracked m)) (k_clock m) (k_confirmed m)).
Proof. destruct ob as [|? [|? [|? ?]]]; reflexivity. Qed.

Lemma c14_step_OConfirm m ts ob :
  c14_step m (OConfirm ts) ob =
    (0, TM (filter (fun e => negb (mem (fst e) ts) = true) (k_last m))
           (filter (fun x => negb (mem x ts) = true) (k_held m))
           (filter (fun e => negb (mem (snd e) ts) = true) (k_tracked m)) (k_clock m) (ts ++ k_confirmed m)).
Proof. destruct ob as [|? [|? [|? ?]]]; reflexivity. Qed.

Lemma c14_step_OAdvance m dt ob :
  c14_step m (OAdvance dt) ob = (0, TM (k_last m) (k_held m) (k_tracked m) (k_clock m + dt) (k_confirmed m)).
Proof. destruct ob as [|? [|? [|? ?]]]; reflexivity. Qed.

Lemma c14_step_OTracked m c x l :
  c14_step m (OTracked c) (x :: l) = ((if existsb (fun t => mem t (k_confirmed m)) l then 406 else 0), m).
Proof. reflexivity. Qed.

(* ---------------------------------------------------------------------------------------- *)
(* the simulation invariant *)
Record Inv (n : nat) (s : tstate) (m : tm) : Prop := {
  inv_clock : k_clock m = tnow s;
  inv_last : forall t, lr (k_last m) t = requests (tmp s) !! t;
  inv_held : forall t, mem t (k_held m) = te (tmp s) t;
  inv_tracked : forall c t, (c, t) ∈ k_tracked m -> t ∈ trk (trackers s) c;
  inv_conf : forall c t, t ∈ trk (trackers s) c -> mem t (k_confirmed m) = false;
  inv_len : length (trackers s) = n;
  inv_sorted : forall c, sorted (trk (trackers s) c);
}.

Ltac prj := cbn [tmp trackers tnow k_last k_held k_tracked k_clock k_confirmed set_tracker fst snd] in *.

Lemma Inv_init n : Inv n (t_init n) (TM [] [] [] 0 []).
Proof.
  constructor; prj; unfold t_init; prj.
  - reflexivity.
  - intros t. unfold mp_init. cbn [requests]. rewrite lookup_empty. reflexivity.
  - intros t. unfold transaction_exists, mp_init. cbn [txs]. rewrite lookup_empty. reflexivity.
  - intros c t Hin. apply elem_of_nil in Hin. contradiction.
  - intros; reflexivity.
  - apply replicate_length.
  - intros c. rewrite trk_replicate. constructor.
Qed.

Lemma untrack_elem c t l e : e ∈ untrack c t l -> e ∈ l /\ ~ (fst e = c /\ snd e = t).
Proof.
  unfold untrack. intros Hin. apply elem_of_list_filter in Hin. destruct Hin as [Hp Hin].
  split; [exact Hin|]. intros [H1 H2]. subst. rewrite Nat.eqb_refl, Z.eqb_refl in Hp. discriminate.
Qed.

Lemma step_OInv n s m c t :
  Inv n s m -> (c < n)%nat ->
  exists s1 ob m1, step s (OInv c t) = (s1, ob) /\ c14_step m (OInv c t) ob = (0, m1) /\ Inv n s1 m1.
Proof.
  intros [Hclk Hlast Hheld Htr Hconf Hlen Hsort] Hc.
  destruct (add_request_spec (tmp s) (tnow s) t (Nat.eqb c 0)) as (mp1 & Hreq & Hrq & Hte).
  assert (Hact : active (TM (k_last m) (k_held m) (k_tracked m) (k_clock m)
                            (filter (fun x => x ≠ t) (k_confirmed m))) t
                 = negb (due (tmp s) (tnow s) t)).
  { apply active_due; [exact Hclk | apply Hlast]. }
  assert (Hcf : forall c' t', t' ∈ trk (trackers s) c' ->
                  mem t' (filter (fun x => x ≠ t) (k_confirmed m)) = false).
  { intros c' t' Hin. rewrite mem_filter. destruct (decide (t' ≠ t)); [|reflexivity].
    eapply Hconf; exact Hin. }
  unfold step, inv_step. rewrite Hreq.
  destruct (te (tmp s) t) eqn:Eh; [|destruct (due (tmp s) (tnow s) t) eqn:Ed];
    cbn [negb andb b2z] in *.
  - (* the body is held *)
    eexists _, _, _. split; [reflexivity|]. split.
    + rewrite c14_step_OInv. change (negb (0 =? 0)) with false. cbv beta iota zeta. prj.
      rewrite Hheld, Eh. reflexivity.
    + constructor; prj; try assumption.
      * intros t'. rewrite Hrq. apply Hlast.
      * intros t'. rewrite Hte. apply Hheld.
  - (* requested *)
    eexists _, _, _. split; [reflexivity|]. split.
    + rewrite c14_step_OInv. change (negb (1 =? 0)) with true. cbv beta iota zeta.
      unfold on_request. rewrite Hact. prj. rewrite Hheld, Eh. cbn [negb]. reflexivity.
    + constructor; prj; try assumption.
      * intros t'. rewrite lr_set_last. prj. rewrite Hrq.
        destruct (t' =? t) eqn:E.
        -- apply Z.eqb_eq in E. subst. rewrite lookup_insert, Hclk. reflexivity.
        -- apply Z.eqb_neq in E. rewrite lookup_insert_ne by congruence. apply Hlast.
      * intros t'. rewrite Hte. apply Hheld.
      * intros c' t' Hin. apply untrack_elem in Hin. apply Htr. tauto.
  - (* another request is active: tracked *)
    eexists _, _, _. split; [reflexivity|]. split.
    + rewrite c14_step_OInv. change (negb (0 =? 0)) with false. cbv beta iota zeta.
      rewrite Hact. prj. rewrite Hheld, Eh. cbn [negb]. reflexivity.
    + rewrite tracker_of_trk. constructor; prj.
      * exact Hclk.
      * intros t'. rewrite Hrq. apply Hlast.
      * intros t'. rewrite Hte. apply Hheld.
      * intros c' t' Hin. apply elem_of_cons in Hin. destruct Hin as [Heq|Hin].
        -- inversion Heq; subst. rewrite trk_insert_eq by lia. apply elem_of_insert_sorted. auto.
        -- apply untrack_elem in Hin. destruct Hin as [Hin _]. apply Htr in Hin.
           destruct (decide (c = c')) as [<-|Hne].
           ++ rewrite trk_insert_eq by lia. apply elem_of_insert_sorted. auto.
           ++ rewrite trk_insert_ne by exact Hne. exact Hin.
      * intros c' t' Hin. apply trk_insert_sub in Hin. destruct Hin as [[-> Hin]|Hin].
        -- apply elem_of_insert_sorted in Hin. destruct Hin as [->|Hin].
           ++ rewrite mem_filter. destruct (decide (t ≠ t)); [contradiction|reflexivity].
           ++ eapply Hcf; exact Hin.
        -- eapply Hcf; exact Hin.
      * rewrite insert_length. exact Hlen.
      * apply trk_insert_sorted; [exact Hsort|]. apply insert_sorted_sorted, Hsort.
Qed.

Lemma step_OCheck n s m c :
  Inv n s m -> (c < n)%nat ->
  exists s1 ob m1, step s (OCheck c) = (s1, ob) /\ c14_step m (OCheck c) ob = (0, m1) /\ Inv n s1 m1.
Proof.
  intros [Hclk Hlast Hheld Htr Hconf Hlen Hsort] Hc.
  set (l := trk (trackers s) c).
  assert (Hsl : sorted l) by apply Hsort.
  destruct (check_loop_spec (tnow s) l (tmp s) [] [] (sorted_NoDup _ Hsl)) as (mp1 & Hcl & Hq & Ht).
  set (reqs := List.filter (rq (tmp s) (tnow s)) l) in *.
  set (keep := List.filter (kp (tmp s) (tnow s)) l) in *.
  assert (Hactive : forall t, active m t = negb (due (tmp s) (tnow s) t)).
  { intros t. apply active_due; [exact Hclk | apply Hlast]. }
  assert (Hreqs : forall t, t ∈ reqs -> mem t (k_held m) = false /\ active m t = false).
  { intros t Hin. apply elem_of_bfilter in Hin. destruct Hin as [_ Hrq]. unfold rq in Hrq.
    apply andb_true_iff in Hrq. destruct Hrq as [H1 H2]. apply negb_true_iff in H1.
    rewrite Hheld, Hactive, H1, H2. auto. }
  unfold step, tracker_check. rewrite tracker_of_trk. fold l. rewrite Hcl. cbn [app].
  cbv beta iota zeta.
  destruct (req_fold_ok reqs m (sorted_NoDup _ (sorted_bfilter _ _ Hsl)) Hreqs) as (L & HL & HlrL).
  eexists _, _, _. split; [reflexivity|]. split.
  - rewrite c14_step_OCheck. cbv zeta.
    match goal with |- (if existsb ?f ?d then _ else _) = _ =>
      assert (Hex : existsb f d = false) end.
    { apply not_true_is_false. intros Hex. apply existsb_exists in Hex.
      destruct Hex as ([c' t'] & Hin & Hneg). apply elem_of_list_In, elem_of_list_filter in Hin.
      destruct Hin as [Hp Hin]. prj. apply negb_true_iff, mem_false in Hneg.
      apply andb_true_iff in Hp. destruct Hp as [Hp H3]. apply andb_true_iff in Hp.
      destruct Hp as [H1 H2]. apply Nat.eqb_eq in H1. subst c'.
      apply negb_true_iff in H2, H3. apply Htr in Hin. destruct Hneg.
      apply elem_of_bfilter. split; [exact Hin|]. unfold rq.
      rewrite <- Hheld, H2. rewrite Hactive in H3. apply negb_false_iff in H3. rewrite H3. reflexivity. }
    assert (Hex7 : existsb (fun t => mem t (k_confirmed m)) reqs = false).
    { apply not_true_is_false. intros Hex7. apply existsb_exists in Hex7. destruct Hex7 as (t & Hin & Hm).
      apply elem_of_list_In, elem_of_bfilter in Hin. destruct Hin as [Hin _]. fold l in Hin.
      rewrite (Hconf c t Hin) in Hm. discriminate. }
    rewrite Hex, Hex7, HL. reflexivity.
  - constructor; prj.
    + exact Hclk.
    + intros t. rewrite HlrL, Hq, Hclk, Hlast. reflexivity.
    + intros t. rewrite Ht. apply Hheld.
    + intros c' t' Hin. apply elem_of_list_filter in Hin. destruct Hin as [Hp Hin]. prj.
      apply Htr in Hin. destruct (decide (c = c')) as [<-|Hne].
      * rewrite trk_insert_eq by lia. rewrite Nat.eqb_refl in Hp. cbn [andb] in Hp.
        apply negb_true_iff, orb_false_iff in Hp. destruct Hp as [H1 H2].
        apply elem_of_bfilter. split; [exact Hin|].
        unfold reqs in H1. rewrite mem_bfilter in H1. fold l in Hin. apply mem_elem in Hin.
        rewrite Hin, andb_true_r in H1. unfold rq in H1. unfold kp.
        rewrite Hheld in H2. rewrite H2 in *. cbn [negb andb] in *. rewrite H1. reflexivity.
      * rewrite trk_insert_ne by exact Hne. exact Hin.
    + intros c' t' Hin. apply trk_insert_sub in Hin. destruct Hin as [[-> Hin]|Hin].
      * apply elem_of_bfilter in Hin. destruct Hin as [Hin _]. eapply Hconf; exact Hin.
      * eapply Hconf; exact Hin.
    + rewrite insert_length. exact Hlen.
    + apply trk_insert_sorted; [exact Hsort|]. apply sorted_bfilter. exact Hsl.
Qed.

Lemma step_OBody n s m t body tr :
  Inv n s m -> body <> [] ->
  exists s1 ob m1, step s (OBody t body tr) = (s1, ob) /\ c14_step m (OBody t body tr) ob = (0, m1) /\ Inv n s1 m1.
Proof.
  intros [Hclk Hlast Hheld Htr Hconf Hlen Hsort] Hbody.
  destruct (add_transaction_spec (tmp s) (tnow s) t body tr Hbody) as (mp1 & r & Hadd & Hrq & Hte).
  unfold step, body_step. rewrite Hadd, tracker_of_trk. cbv beta iota zeta.
  eexists _, _, _. split; [reflexivity|]. split; [apply c14_step_OBody|].
  assert (Hz : (zlen body =? 0) = false) by (destruct body; [congruence|reflexivity]).
  rewrite Hz. cbn [orb].
  constructor; prj.
  - exact Hclk.
  - intros t'. rewrite (lr_filter _ (fun x => negb (x =? t))).
    + rewrite Hrq. destruct (t' =? t) eqn:E; cbn [negb].
      * apply Z.eqb_eq in E. subst. rewrite lookup_delete. reflexivity.
      * apply Z.eqb_neq in E. rewrite lookup_delete_ne by congruence. apply Hlast.
    + intros e. rewrite negb_true_iff, Z.eqb_neq. reflexivity.
  - intros t'. rewrite Hte. destruct (mem t (k_held m)) eqn:Em.
    + destruct (decide (t' = t)) as [->|Hne]; [exact Em | apply Hheld].
    + rewrite mem_cons. destruct (decide (t' = t)) as [->|Hne].
      * rewrite Z.eqb_refl. reflexivity.
      * assert (E : (t' =? t) = false) by (apply Z.eqb_neq; exact Hne). rewrite E. apply Hheld.
  - intros c' t' Hin. apply untrack_elem in Hin. destruct Hin as [Hin Hne]. prj. apply Htr in Hin.
    destruct (decide (0%nat = c')) as [<-|Hc'].
    + destruct (decide (0 < length (trackers s))%nat) as [Hlt|Hge].
      * rewrite trk_insert_eq by exact Hlt. apply elem_of_list_filter. split; [|exact Hin].
        intros ->. apply Hne. auto.
      * rewrite trk_ge in Hin by lia. apply elem_of_nil in Hin. contradiction.
    + rewrite trk_insert_ne by exact Hc'. exact Hin.
  - intros c' t' Hin. apply trk_insert_sub in Hin. destruct Hin as [[-> Hin]|Hin].
    + apply elem_of_list_filter in Hin. destruct Hin as [_ Hin]. eapply Hconf; exact Hin.
    + eapply Hconf; exact Hin.
  - rewrite insert_length. exact Hlen.
  - apply trk_insert_sorted; [exact Hsort|]. apply sorted_filter, Hsort.
Qed.

Lemma step_OConfirm n s m ts :
  Inv n s m ->
  exists s1 ob m1, step s (OConfirm ts) = (s1, ob) /\ c14_step m (OConfirm ts) ob = (0, m1) /\ Inv n s1 m1.
Proof.
  intros [Hclk Hlast Hheld Htr Hconf Hlen Hsort].
  unfold step, confirm_step. fold (remove_all (tmp s) ts).
  eexists _, _, _. split; [reflexivity|]. split; [apply c14_step_OConfirm|].
  constructor; prj.
  - exact Hclk.
  - intros t. destruct (remove_all_spec ts (tmp s) t) as [Hr _]. rewrite Hr.
    rewrite (lr_filter _ (fun x => negb (mem x ts))) by (intros e; reflexivity).
    destruct (mem t ts); cbn [negb]; [reflexivity|apply Hlast].
  - intros t. destruct (remove_all_spec ts (tmp s) t) as [_ Hr]. rewrite Hr, mem_filter.
    destruct (mem t ts); cbn [negb].
    + destruct (decide (false = true)); [discriminate|reflexivity].
    + destruct (decide (true = true)); [apply Hheld|contradiction].
  - intros c t Hin. apply elem_of_list_filter in Hin. destruct Hin as [Hp Hin]. prj.
    rewrite trk_map_filter. apply elem_of_list_filter. split; [exact Hp|]. apply Htr. exact Hin.
  - intros c t Hin. rewrite trk_map_filter in Hin. apply elem_of_list_filter in Hin.
    destruct Hin as [Hp Hin]. apply negb_true_iff in Hp. rewrite mem_app, Hp. cbn [orb].
    eapply Hconf; exact Hin.
  - rewrite map_length. exact Hlen.
  - intros c. rewrite trk_map_filter. apply sorted_filter, Hsort.
Qed.

Lemma step_OAdvance n s m dt :
  Inv n s m ->
  exists s1 ob m1, step s (OAdvance dt) = (s1, ob) /\ c14_step m (OAdvance dt) ob = (0, m1) /\ Inv n s1 m1.
Proof.
  intros [Hclk Hlast Hheld Htr Hconf Hlen Hsort].
  unfold step. eexists _, _, _. split; [reflexivity|]. split; [apply c14_step_OAdvance|].
  constructor; prj; try assumption. rewrite Hclk. reflexivity.
Qed.

Lemma step_OTracked n s m c :
  Inv n s m ->
  exists s1 ob m1, step s (OTracked c) = (s1, ob) /\ c14_step m (OTracked c) ob = (0, m1) /\ Inv n s1 m1.
Proof.
  intros HI. pose proof HI as [Hclk Hlast Hheld Htr Hconf Hlen Hsort].
  unfold step. rewrite tracker_of_trk. eexists _, _, _. split; [reflexivity|]. split; [|exact HI].
  rewrite c14_step_OTracked.
  assert (Hex : existsb (fun t => mem t (k_confirmed m)) (trk (trackers s) c) = false).
  { apply not_true_is_false. intros Hex. apply existsb_exists in Hex. destruct Hex as (t & Hin & Hm).
    apply elem_of_list_In in Hin. rewrite (Hconf c t Hin) in Hm. discriminate. }
  rewrite Hex. reflexivity.
Qed.

(* ---------------------------------------------------------------------------------------- *)
Definition op_valid (nconn : nat) (o : op) : bool :=
  match o with
  | OInv c _ | OCheck c | OTracked c => (c <? nconn)%nat
  | OAdvance dt => 0 <=? dt
  | OBody _ body _ => negb (zlen body =? 0)
  | _ => true
  end.

Lemma c14_valid_forallb n ops : c14_valid n ops = forallb (op_valid n) ops.
Proof. reflexivity. Qed.

Lemma step_ok n s m o :
  Inv n s m -> op_valid n o = true ->
  exists s1 ob m1, step s o = (s1, ob) /\ c14_step m o ob = (0, m1) /\ Inv n s1 m1.
Proof.
  intros HI Hv. destruct o as [c t|c|t body tr|ts|dt|c]; cbn [op_valid] in Hv.
  - apply step_OInv; [exact HI|]. apply Nat.ltb_lt. exact Hv.
  - apply step_OCheck; [exact HI|]. apply Nat.ltb_lt. exact Hv.
  - apply step_OBody; [exact HI|]. intros ->. discriminate.
  - apply step_OConfirm. exact HI.
  - apply step_OAdvance. exact HI.
  - apply step_OTracked. exact HI.
Qed.

Lemma c14_from_ok n ops : forall s m i,
  Inv n s m -> forallb (op_valid n) ops = true -> c14_from m i ops (run_from s ops) = None.
Proof.
  induction ops as [|o ops IH]; intros s m i HI Hv; [reflexivity|].
  cbn [forallb] in Hv. apply andb_true_iff in Hv. destruct Hv as [Hv1 Hv2].
  destruct (step_ok n s m o HI Hv1) as (s1 & ob & m1 & Hs & Hm & HI1).
  cbn [run_from]. rewrite Hs. cbn [c14_from]. rewrite Hm.
  change (negb (0 =? 0)) with false. cbv beta iota. apply IH; assumption.
Qed.

Theorem c14_monitor_passes : forall (nconn : nat) (ops : list op),
  c14_valid nconn ops = true -> c14_monitor ops (run nconn ops) = None.
Proof.
  intros nconn ops Hv. rewrite c14_valid_forallb in Hv.
  unfold c14_monitor, run. apply (c14_from_ok nconn); [apply Inv_init | exact Hv].
Qed.
