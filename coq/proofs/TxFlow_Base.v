(* Proofs for the transaction pipeline monitors (C03, C05 node level, C06, C07, C11), part 1:
   helper lemmas, decoding of observations, the monitor's bookkeeping folds, the hypothesis. *)
From V.lib Require Import Base.
From V.model Require Import MemPool MemPoolSpec TxFlow TxFlowSpec.
From V.proofs Require Import MemPool_Proofs.

(* ---------------------------------------------------------------------------------------- *)
(* small facts *)
Lemma zb_b2z b : zb (b2z b) = b.
Proof. destruct b; reflexivity. Qed.

Lemma add_z_elem t x l : x ∈ add_z t l <-> x ∈ l \/ x = t.
Proof.
  unfold add_z. destruct (mem t l) eqn:E.
  - apply mem_elem in E. split; [tauto|]. intros [H| ->]; assumption.
  - rewrite elem_of_app, elem_of_list_singleton. tauto.
Qed.

Lemma remove_z_elem t x l : x ∈ remove_z t l <-> x ∈ l /\ x <> t.
Proof. unfold remove_z. rewrite elem_of_list_filter. tauto. Qed.

Lemma mem_true_iff x l : mem x l = true <-> x ∈ l.
Proof. apply mem_elem. Qed.

Lemma mem_decide x l : mem x l = bool_decide (x ∈ l).
Proof.
  destruct (mem x l) eqn:E; symmetry.
  - apply bool_decide_eq_true, mem_elem, E.
  - apply bool_decide_eq_false, mem_false, E.
Qed.

Lemma fold_add_z_elem cs : forall l x, x ∈ fold_left (fun l c => add_z c l) cs l <-> x ∈ l \/ x ∈ cs.
Proof.
  induction cs as [|c cs IH]; intros l x; simpl.
  - rewrite elem_of_nil. tauto.
  - rewrite IH, add_z_elem, elem_of_cons. tauto.
Qed.

Lemma shares_b_iff a b : shares_b a b = true <-> shares a b.
Proof.
  unfold shares_b, shares. rewrite existsb_exists. split.
  - intros (o & Ho & Hm). exists o. split; [exact Ho|]. apply elem_of_list_In, mem_elem, Hm.
  - intros (o & Ho & Hb). exists o. split; [exact Ho|]. apply mem_elem, elem_of_list_In, Hb.
Qed.

Lemma shares_sym a b : shares a b -> shares b a.
Proof. intros (o & H1 & H2). exists o. auto. Qed.

Lemma conflicting_held_elem p t body x :
  x ∈ conflicting_held p t body <-> x <> t /\ exists b', (x, b') ∈ p /\ shares body b'.
Proof.
  unfold conflicting_held. rewrite elem_of_list_fmap. split.
  - intros ([x' b'] & -> & H). apply elem_of_list_filter in H. simpl in H. destruct H as [H Hp].
    apply andb_true_iff in H. destruct H as [H1 H2]. apply negb_true_iff, Z.eqb_neq in H1.
    apply shares_b_iff in H2. eauto.
  - intros (Hne & b' & Hp & Hs). exists (x, b'). split; [reflexivity|].
    apply elem_of_list_filter. simpl. split; [|exact Hp].
    apply andb_true_iff. split; [apply negb_true_iff, Z.eqb_neq, Hne | apply shares_b_iff, Hs].
Qed.

Lemma conflicting_held_conflicts_of p t body x :
  x ∈ conflicting_held p t body <-> x ∈ conflicts_of p t body.
Proof. rewrite conflicting_held_elem, conflicts_of_elem. reflexivity. Qed.

Lemma zlen_nil_iff {A} (l : list A) : (zlen l =? 0) = true <-> l = [].
Proof. rewrite zlen_eqb0. destruct l; split; congruence. Qed.

Lemma zlen0_same {A B} (l : list A) (l' : list B) :
  (forall x, x ∈ l -> exists y, y ∈ l') -> (forall y, y ∈ l' -> exists x, x ∈ l) ->
  (zlen l =? 0) = (zlen l' =? 0).
Proof.
  intros H1 H2. rewrite !zlen_eqb0. destruct l as [|a l], l' as [|b l']; try reflexivity.
  - destruct (H2 b) as (x & Hx); [left|]. apply elem_of_nil in Hx. destruct Hx.
  - destruct (H1 a) as (x & Hx); [left|]. apply elem_of_nil in Hx. destruct Hx.
Qed.

(* ---------------------------------------------------------------------------------------- *)
(* decoding of the model's observations *)
Definition pz (p : option Z) : Z := match p with Some b => b | None => -1 end.

Definition ev_of (e : event) : ev :=
  match e with
  | ETx t s => Ev 1 t (s_safe s) (s_unsafe s) (s_cancel s) (s_depth s) (pz (s_proof s)) (s_outs s)
  | EUpdate t s => Ev 2 t (s_safe s) (s_unsafe s) (s_cancel s) (s_depth s) (pz (s_proof s)) []
  | EHeaders h b => Ev 3 h false false false 0 b []
  end.

Lemma enc_events_cons e es : enc_events (e :: es) = enc_event e ++ enc_events es.
Proof. reflexivity. Qed.

Lemma enc_events_app es1 es2 : enc_events (es1 ++ es2) = enc_events es1 ++ enc_events es2.
Proof. unfold enc_events. rewrite map_app, concat_app. reflexivity. Qed.

Lemma dec_enc es : forall fuel, (length (enc_events es) < fuel)%nat ->
  dec_events fuel (enc_events es) = Some (map ev_of es).
Proof.
  induction es as [|e es IH]; intros fuel Hf.
  - destruct fuel; [simpl in Hf; lia|]. reflexivity.
  - rewrite enc_events_cons in *. destruct fuel as [|fuel]; [lia|].
    destruct e as [t s|t s|h b].
    + cbn [enc_event enc_state app] in *. cbn [dec_events].
      assert (Hl : (length (enc_events es) < fuel)%nat).
      { cbn [length] in Hf. rewrite app_length in Hf. lia. }
      assert (Hn : ((zlen (s_outs s) <? 0) || (zlen (s_outs s ++ enc_events es) <? zlen (s_outs s))) = false).
      { unfold zlen. rewrite app_length. apply orb_false_iff. split; apply Z.ltb_ge; lia. }
      rewrite Hn. unfold zlen. rewrite Nat2Z.id, drop_app, take_app, (IH fuel Hl).
      rewrite !zb_b2z. reflexivity.
    + cbn [enc_event enc_state app] in *. cbn [dec_events].
      assert (Hl : (length (enc_events es) < fuel)%nat) by (cbn [length] in Hf; lia).
      rewrite (IH fuel Hl), !zb_b2z. reflexivity.
    + cbn [enc_event app] in *. cbn [dec_events].
      assert (Hl : (length (enc_events es) < fuel)%nat) by (cbn [length] in Hf; lia).
      rewrite (IH fuel Hl). reflexivity.
Qed.

Lemma decode_enc c es : decode_obs (c :: enc_events es) = Some (c, map ev_of es).
Proof. unfold decode_obs. rewrite dec_enc by lia. reflexivity. Qed.

(* ---------------------------------------------------------------------------------------- *)
(* the monitor's bookkeeping over the notifications of a step, in terms of the model's events *)

(* (is new, txid, state) of a transaction notification *)
Definition tev (e : event) : option (bool * Z * tstate) :=
  match e with
  | ETx t s => Some (true, t, s)
  | EUpdate t s => Some (false, t, s)
  | EHeaders _ _ => None
  end.

Definition tkey (e : event) : option Z :=
  match tev e with Some (_, t, _) => Some t | None => None end.
Definition tkeys (evs : list event) : list Z := omap tkey evs.

Lemma tkeys_app evs1 evs2 : tkeys (evs1 ++ evs2) = tkeys evs1 ++ tkeys evs2.
Proof. apply omap_app. Qed.

(* a transaction notification for x with state s occurs in evs *)
Definition tev_in (evs : list event) (x : Z) (s : tstate) : Prop :=
  ETx x s ∈ evs \/ EUpdate x s ∈ evs.

Lemma tev_in_nil x s : ~ tev_in [] x s.
Proof. intros [H|H]; apply elem_of_nil in H; exact H. Qed.

Lemma tev_in_app evs1 evs2 x s : tev_in (evs1 ++ evs2) x s <-> tev_in evs1 x s \/ tev_in evs2 x s.
Proof. unfold tev_in. rewrite !elem_of_app. tauto. Qed.

Lemma tev_in_single e x s : tev_in [e] x s <-> e = ETx x s \/ e = EUpdate x s.
Proof. unfold tev_in. rewrite !elem_of_list_singleton. split; intros [H|H]; auto. Qed.

Lemma tev_in_tev evs x s : tev_in evs x s <-> exists e nw, e ∈ evs /\ tev e = Some (nw, x, s).
Proof.
  split.
  - intros [H|H]; eexists; eexists; (split; [exact H|reflexivity]).
  - intros (e & nw & He & Ht). destruct e; cbn in Ht; inversion Ht; subst; [left|right]; exact He.
Qed.

Lemma tkeys_elem evs t : t ∈ tkeys evs <-> exists s, tev_in evs t s.
Proof.
  unfold tkeys. rewrite elem_of_list_omap. split.
  - intros (e & He & Hk). destruct e as [t' s|t' s|h b]; cbn in Hk; inversion Hk; subst;
      exists s; [left|right]; exact He.
  - intros (s & [H|H]); eexists; (split; [exact H|reflexivity]).
Qed.

(* the state of the notification is confirmed by a block of the chain *)
Definition cnf (chain : list Z) (s : tstate) : bool := mem (pz (s_proof s)) chain.

Definition note1 (m : ms) (nw : bool) (t : Z) (s : tstate) : ms :=
  let c := cnf (m_chain m) s in
  let safe0 := if nw then remove_z t (m_safe m) else m_safe m in
  MS (m_pool m)
     (if nw then add_z t (m_delivered m) else m_delivered m)
     (if c then remove_z t (m_live m) else (if nw then add_z t (m_live m) else m_live m))
     (if nw && negb c then (t, m_clock m) :: m_seen m else m_seen m)
     (m_vouched m) (m_conflicted m)
     (if s_unsafe s || s_cancel s then add_z t (m_unsafe m) else m_unsafe m)
     (if s_safe s && negb c then add_z t safe0 else safe0)
     (m_local m) (m_clock m) (m_insync m) (m_chain m) (m_vnow m) (m_vpersist m)
     (if pz (s_proof s) =? -1 then m_proofs m else (t, pz (s_proof s)) :: m_proofs m) (m_body m).

Lemma note_event_ev_of m e :
  note_event m (ev_of e) = match tev e with Some (nw, t, s) => note1 m nw t s | None => m end.
Proof.
  destruct e as [t s|t s|h b]; unfold note_event, note1, cnf; cbn; try reflexivity.
Qed.

Definition notes (m : ms) (evs : list event) : ms := fold_left note_event (map ev_of evs) m.

Lemma notes_nil m : notes m [] = m.
Proof. reflexivity. Qed.

Lemma notes_snoc m evs e : notes m (evs ++ [e]) =
  match tev e with Some (nw, t, s) => note1 (notes m evs) nw t s | None => notes m evs end.
Proof. unfold notes. rewrite map_app, fold_left_app. simpl. apply note_event_ev_of. Qed.

Lemma notes_app m evs1 evs2 : notes m (evs1 ++ evs2) = notes (notes m evs1) evs2.
Proof. unfold notes. rewrite map_app, fold_left_app. reflexivity. Qed.

Lemma notes_frame m evs :
  let F := notes m evs in
  m_pool F = m_pool m /\ m_vouched F = m_vouched m /\ m_conflicted F = m_conflicted m /\
  m_local F = m_local m /\ m_clock F = m_clock m /\ m_insync F = m_insync m /\
  m_chain F = m_chain m /\ m_vnow F = m_vnow m /\ m_vpersist F = m_vpersist m /\ m_body F = m_body m.
Proof.
  induction evs as [|e evs IH] using rev_ind; [cbn; tauto|].
  cbv zeta in *. rewrite notes_snoc. destruct (tev e) as [[[nw t] s]|]; [|exact IH].
  unfold note1. cbn. exact IH.
Qed.

Lemma notes_clock m evs : m_clock (notes m evs) = m_clock m.
Proof. apply (notes_frame m evs). Qed.

Lemma notes_chain m evs : m_chain (notes m evs) = m_chain m.
Proof. apply (notes_frame m evs). Qed.

Lemma notes_delivered m evs x :
  x ∈ m_delivered (notes m evs) <-> x ∈ m_delivered m \/ exists s, ETx x s ∈ evs.
Proof.
  induction evs as [|e evs IH] using rev_ind.
  - rewrite notes_nil. split; [tauto|]. intros [H|(s & H)]; [exact H|]. apply elem_of_nil in H. destruct H.
  - rewrite notes_snoc.
    assert (Hex : (exists s, ETx x s ∈ evs ++ [e]) <-> (exists s, ETx x s ∈ evs) \/ (exists s, e = ETx x s)).
    { split.
      - intros (s & H). apply elem_of_app in H. destruct H as [H|H]; [left; eauto|].
        apply elem_of_list_singleton in H. right; eauto.
      - intros [(s & H)|(s & ->)]; exists s; apply elem_of_app; [left; exact H|right; left]. }
    rewrite Hex. destruct e as [t s|t s|h b]; cbn [tev].
    + unfold note1. cbn [m_delivered]. rewrite add_z_elem, IH. split.
      * intros [[H|H]| ->]; [tauto|tauto|]. right. right. eauto.
      * intros [H|[H|(s' & Heq)]]; [tauto|tauto|]. inversion Heq. tauto.
    + unfold note1. cbn [m_delivered]. rewrite IH. split; [tauto|].
      intros [H|[H|(s' & Heq)]]; [tauto|tauto|discriminate].
    + rewrite IH. split; [tauto|]. intros [H|[H|(s' & Heq)]]; [tauto|tauto|discriminate].
Qed.

(* generic: a set-like list field that grows by add_z t when a condition on the state holds *)
Lemma notes_grow (fld : ms -> list Z) (c : tstate -> bool) m evs x :
  (forall m nw t s, fld (note1 m nw t s) = if c s then add_z t (fld m) else fld m) ->
  x ∈ fld (notes m evs) <-> x ∈ fld m \/ exists s, tev_in evs x s /\ c s = true.
Proof.
  intros Hf. induction evs as [|e evs IH] using rev_ind.
  - rewrite notes_nil. split; [tauto|]. intros [H|(s & H & _)]; [exact H|]. destruct (tev_in_nil _ _ H).
  - rewrite notes_snoc.
    assert (Hex : (exists s, tev_in (evs ++ [e]) x s /\ c s = true) <->
                  (exists s, tev_in evs x s /\ c s = true) \/
                  (exists s, (e = ETx x s \/ e = EUpdate x s) /\ c s = true)).
    { split.
      - intros (s & H & Hc). apply tev_in_app in H. destruct H as [H|H]; [left; eauto|].
        apply tev_in_single in H. right; eauto.
      - intros [(s & H & Hc)|(s & H & Hc)]; exists s; (split; [|exact Hc]); apply tev_in_app;
          [left; exact H | right; apply tev_in_single; exact H]. }
    rewrite Hex. clear Hex.
    destruct (tev e) as [[[nw t] s]|] eqn:Et.
    + rewrite Hf. destruct (c s) eqn:Ec.
      * rewrite add_z_elem, IH. split.
        -- intros [[H|H]| ->]; [tauto|tauto|]. right. right. exists s. split; [|exact Ec].
           destruct e; cbn in Et; inversion Et; subst; auto.
        -- intros [H|[H|(s' & He & Hc)]]; [tauto|tauto|]. right.
           destruct He as [-> | ->]; cbn in Et; inversion Et; reflexivity.
      * rewrite IH. split; [tauto|]. intros [H|[H|(s' & He & Hc)]]; [tauto|tauto|].
        destruct He as [-> | ->]; cbn in Et; inversion Et; subst; congruence.
    + rewrite IH. split; [tauto|]. intros [H|[H|(s' & He & Hc)]]; [tauto|tauto|].
      destruct He as [-> | ->]; cbn in Et; discriminate.
Qed.

Lemma notes_unsafe m evs x :
  x ∈ m_unsafe (notes m evs) <->
  x ∈ m_unsafe m \/ exists s, tev_in evs x s /\ (s_unsafe s || s_cancel s) = true.
Proof. apply (notes_grow m_unsafe (fun s => s_unsafe s || s_cancel s)). reflexivity. Qed.

(* the notification of x is the last one of the list: nothing else of the list is about x *)
Lemma tkeys_snoc_fresh evs e nw t s :
  NoDup (tkeys (evs ++ [e])) -> tev e = Some (nw, t, s) -> NoDup (tkeys evs) /\ t ∉ tkeys evs.
Proof.
  intros Hnd He. rewrite tkeys_app in Hnd. apply NoDup_app in Hnd. destruct Hnd as (H1 & H2 & _).
  split; [exact H1|]. intros Hin. apply (H2 t Hin). unfold tkeys. cbn. unfold tkey. rewrite He. left.
Qed.

Lemma tkeys_snoc_none evs e : tev e = None -> tkeys (evs ++ [e]) = tkeys evs.
Proof. intros He. rewrite tkeys_app. unfold tkeys at 2. cbn. unfold tkey. rewrite He. apply app_nil_r. Qed.

(* safe: a new-transaction notification restarts the bookkeeping of the transaction *)
Lemma notes_safe m evs x : NoDup (tkeys evs) ->
  x ∈ m_safe (notes m evs) <->
  (x ∈ m_safe m /\ forall s, ETx x s ∉ evs) \/
  exists s, tev_in evs x s /\ (s_safe s && negb (cnf (m_chain m) s)) = true.
Proof.
  induction evs as [|e evs IH] using rev_ind; intros Hnd.
  - rewrite notes_nil. split.
    + intros H. left. split; [exact H|]. intros s. apply not_elem_of_nil.
    + intros [[H _]|(s & H & _)]; [exact H|]. destruct (tev_in_nil _ _ H).
  - rewrite notes_snoc. destruct (tev e) as [[[nw t] s]|] eqn:Et.
    + destruct (tkeys_snoc_fresh _ _ _ _ _ Hnd Et) as [Hnd' Hfr]. specialize (IH Hnd').
      assert (He : e = ETx t s /\ nw = true \/ e = EUpdate t s /\ nw = false).
      { destruct e; cbn in Et; inversion Et; subst; auto. }
      unfold note1. cbn [m_safe]. rewrite notes_chain.
      assert (Hother : x <> t ->
                ((x ∈ m_safe m /\ (forall s0, ETx x s0 ∉ evs ++ [e])) \/
                 (exists s0, tev_in (evs ++ [e]) x s0 /\ (s_safe s0 && negb (cnf (m_chain m) s0)) = true)) <->
                ((x ∈ m_safe m /\ (forall s0, ETx x s0 ∉ evs)) \/
                 (exists s0, tev_in evs x s0 /\ (s_safe s0 && negb (cnf (m_chain m) s0)) = true))).
      { intros Hne. split.
        - intros [[H1 H2]|(s0 & H1 & H2)].
          + left. split; [exact H1|]. intros s0 Hin. apply (H2 s0), elem_of_app. left. exact Hin.
          + right. exists s0. split; [|exact H2]. apply tev_in_app in H1. destruct H1 as [H1|H1]; [exact H1|].
            apply tev_in_single in H1. destruct He as [[-> _]|[-> _]]; destruct H1 as [H1|H1]; inversion H1; congruence.
        - intros [[H1 H2]|(s0 & H1 & H2)].
          + left. split; [exact H1|]. intros s0 Hin. apply elem_of_app in Hin. destruct Hin as [Hin|Hin]; [apply (H2 s0 Hin)|].
            apply elem_of_list_singleton in Hin. destruct He as [[-> _]|[-> _]]; inversion Hin; congruence.
          + right. exists s0. split; [|exact H2]. apply tev_in_app. left. exact H1. }
      destruct (decide (x = t)) as [->|Hne].
      * (* the notification is about x *)
        assert (Hno : forall s0, ~ tev_in evs t s0).
        { intros s0 H. apply Hfr, tkeys_elem. eauto. }
        assert (Hold : t ∈ m_safe (notes m evs) <-> t ∈ m_safe m).
        { rewrite IH. split.
          - intros [[H _]|(s0 & H & _)]; [exact H|]. destruct (Hno s0 H).
          - intros H. left. split; [exact H|]. intros s0 Hin. apply (Hno s0). left. exact Hin. }
        assert (Hev : (exists s0, tev_in (evs ++ [e]) t s0 /\ (s_safe s0 && negb (cnf (m_chain m) s0)) = true) <->
                      (s_safe s && negb (cnf (m_chain m) s)) = true).
        { split.
          - intros (s0 & H1 & H2). apply tev_in_app in H1. destruct H1 as [H1|H1]; [destruct (Hno s0 H1)|].
            apply tev_in_single in H1. destruct He as [[-> _]|[-> _]]; destruct H1 as [H1|H1]; inversion H1; subst; exact H2.
          - intros H. exists s. split; [|exact H]. apply tev_in_app. right. apply tev_in_single.
            destruct He as [[-> _]|[-> _]]; auto. }
        rewrite Hev. destruct He as [[-> ->]|[-> ->]].
        -- (* new: restart *)
           destruct (s_safe s && negb (cnf (m_chain m) s)) eqn:Ec.
           ++ rewrite add_z_elem. split; [auto|]. intros _. right. reflexivity.
           ++ rewrite remove_z_elem. split; [intros [_ H]; congruence|].
              intros [[_ H]|H]; [|discriminate]. exfalso. apply (H s), elem_of_app. right. left.
        -- destruct (s_safe s && negb (cnf (m_chain m) s)) eqn:Ec.
           ++ rewrite add_z_elem. split; [auto|]. intros _. right. reflexivity.
           ++ rewrite Hold. split.
              ** intros H. left. split; [exact H|]. intros s0 Hin. apply elem_of_app in Hin.
                 destruct Hin as [Hin|Hin]; [apply (Hno s0); left; exact Hin|].
                 apply elem_of_list_singleton in Hin. discriminate.
              ** intros [[H _]|H]; [exact H|discriminate].
      * rewrite (Hother Hne), <- IH.
        destruct nw; destruct (s_safe s && negb (cnf (m_chain m) s));
          rewrite ?add_z_elem, ?remove_z_elem; tauto.
    + specialize (IH (eq_ind _ (fun l => NoDup l) Hnd _ (tkeys_snoc_none evs e Et))).
      rewrite IH. split.
      * intros [[H1 H2]|(s0 & H1 & H2)].
        -- left. split; [exact H1|]. intros s0 Hin. apply elem_of_app in Hin. destruct Hin as [Hin|Hin]; [apply (H2 s0 Hin)|].
           apply elem_of_list_singleton in Hin. subst e. discriminate.
        -- right. exists s0. split; [|exact H2]. apply tev_in_app. left. exact H1.
      * intros [[H1 H2]|(s0 & H1 & H2)].
        -- left. split; [exact H1|]. intros s0 Hin. apply (H2 s0), elem_of_app. left. exact Hin.
        -- right. exists s0. split; [|exact H2]. apply tev_in_app in H1. destruct H1 as [H1|H1]; [exact H1|].
           apply tev_in_single in H1. destruct H1 as [H1|H1]; subst e; discriminate.
Qed.

Lemma add_z_NoDup t l : NoDup l -> NoDup (add_z t l).
Proof.
  intros H. unfold add_z. destruct (mem t l) eqn:E; [exact H|]. apply mem_false in E.
  apply NoDup_app. split; [exact H|]. split; [|apply NoDup_singleton].
  intros x Hx Hx'. apply elem_of_list_singleton in Hx'. subst. contradiction.
Qed.

Lemma remove_z_NoDup t l : NoDup l -> NoDup (remove_z t l).
Proof. intros H. unfold remove_z. apply NoDup_filter, H. Qed.

Lemma notes_live_NoDup m evs : NoDup (m_live m) -> NoDup (m_live (notes m evs)).
Proof.
  intros H. induction evs as [|e evs IH] using rev_ind; [exact H|].
  rewrite notes_snoc. destruct (tev e) as [[[nw t] s]|]; [|exact IH].
  unfold note1. cbn [m_live]. destruct (cnf _ s); [apply remove_z_NoDup, IH|].
  destruct nw; [apply add_z_NoDup, IH|exact IH].
Qed.

(* live: steps whose notifications are all unconfirmed only add *)
Lemma notes_live_add m evs x :
  (forall y s, tev_in evs y s -> cnf (m_chain m) s = false) ->
  x ∈ m_live (notes m evs) <-> x ∈ m_live m \/ exists s, ETx x s ∈ evs.
Proof.
  induction evs as [|e evs IH] using rev_ind; intros Hall.
  - rewrite notes_nil. split; [tauto|]. intros [H|(s & H)]; [exact H|]. apply elem_of_nil in H. destruct H.
  - rewrite notes_snoc.
    assert (Hall' : forall y s, tev_in evs y s -> cnf (m_chain m) s = false).
    { intros y s H. apply (Hall y s), tev_in_app. left. exact H. }
    specialize (IH Hall').
    assert (Hex : (exists s, ETx x s ∈ evs ++ [e]) <-> (exists s, ETx x s ∈ evs) \/ (exists s, e = ETx x s)).
    { split.
      - intros (s & H). apply elem_of_app in H. destruct H as [H|H]; [left; eauto|].
        apply elem_of_list_singleton in H. right; eauto.
      - intros [(s & H)|(s & ->)]; exists s; apply elem_of_app; [left; exact H|right; left]. }
    rewrite Hex. clear Hex.
    destruct e as [t s|t s|h b]; cbn [tev].
    + assert (Hu : cnf (m_chain m) s = false).
      { apply (Hall t s), tev_in_app. right. apply tev_in_single. auto. }
      unfold note1. cbn [m_live]. rewrite notes_chain, Hu, add_z_elem, IH. split.
      * intros [[H|H]| ->]; [tauto|tauto|]. right. right. eauto.
      * intros [H|[H|(s' & Heq)]]; [tauto|tauto|]. inversion Heq. tauto.
    + assert (Hu : cnf (m_chain m) s = false).
      { apply (Hall t s), tev_in_app. right. apply tev_in_single. auto. }
      unfold note1. cbn [m_live]. rewrite notes_chain, Hu, IH. split; [tauto|].
      intros [H|[H|(s' & Heq)]]; [tauto|tauto|discriminate].
    + rewrite IH. split; [tauto|]. intros [H|[H|(s' & Heq)]]; [tauto|tauto|discriminate].
Qed.

(* live: steps whose new-transaction notifications are all confirmed only remove *)
Lemma notes_live_rem m evs x :
  (forall y s, ETx y s ∈ evs -> cnf (m_chain m) s = true) ->
  x ∈ m_live (notes m evs) <-> x ∈ m_live m /\ ~ exists s, tev_in evs x s /\ cnf (m_chain m) s = true.
Proof.
  induction evs as [|e evs IH] using rev_ind; intros Hall.
  - rewrite notes_nil. split; [|tauto]. intros H. split; [exact H|].
    intros (s & H' & _). destruct (tev_in_nil _ _ H').
  - rewrite notes_snoc.
    assert (Hall' : forall y s, ETx y s ∈ evs -> cnf (m_chain m) s = true).
    { intros y s H. apply (Hall y s), elem_of_app. left. exact H. }
    specialize (IH Hall').
    assert (Hex : (exists s, tev_in (evs ++ [e]) x s /\ cnf (m_chain m) s = true) <->
                  (exists s, tev_in evs x s /\ cnf (m_chain m) s = true) \/
                  (exists s, (e = ETx x s \/ e = EUpdate x s) /\ cnf (m_chain m) s = true)).
    { split.
      - intros (s & H & Hc). apply tev_in_app in H. destruct H as [H|H]; [left; eauto|].
        apply tev_in_single in H. right; eauto.
      - intros [(s & H & Hc)|(s & H & Hc)]; exists s; (split; [|exact Hc]); apply tev_in_app;
          [left; exact H | right; apply tev_in_single; exact H]. }
    rewrite Hex. clear Hex.
    destruct e as [t s|t s|h b]; cbn [tev].
    + assert (Hu : cnf (m_chain m) s = true).
      { apply (Hall t s), elem_of_app. right. left. }
      unfold note1. cbn [m_live]. rewrite notes_chain, Hu, remove_z_elem, IH. split.
      * intros [[H1 H2] Hne]. split; [exact H1|]. intros [H|(s' & [Heq|Heq] & _)]; [tauto| |discriminate].
        inversion Heq. congruence.
      * intros [H1 H2]. split; [split; [exact H1|tauto]|]. intros ->. apply H2. right. eauto.
    + unfold note1. cbn [m_live]. rewrite notes_chain. destruct (cnf (m_chain m) s) eqn:Hu.
      * rewrite remove_z_elem, IH. split.
        -- intros [[H1 H2] Hne]. split; [exact H1|]. intros [H|(s' & [Heq|Heq] & _)]; [tauto|discriminate|].
           inversion Heq. congruence.
        -- intros [H1 H2]. split; [split; [exact H1|tauto]|]. intros ->. apply H2. right. eauto.
      * rewrite IH. split.
        -- intros [H1 H2]. split; [exact H1|]. intros [H|(s' & [Heq|Heq] & Hc)]; [tauto|discriminate|].
           inversion Heq. congruence.
        -- intros [H1 H2]. split; [exact H1|tauto].
    + rewrite IH. split.
      * intros [H1 H2]. split; [exact H1|]. intros [H|(s' & [Heq|Heq] & _)]; [tauto|discriminate|discriminate].
      * intros [H1 H2]. split; [exact H1|tauto].
Qed.

Lemma lookup_seen_cons m t c x pool dl lv vo cf us sf lo ck sy ch vn vp pr bd :
  lookup_seen (MS pool dl lv ((t, c) :: m_seen m) vo cf us sf lo ck sy ch vn vp pr bd) x =
  if t =? x then Some c else lookup_seen m x.
Proof. unfold lookup_seen. cbn. destruct (t =? x); reflexivity. Qed.

Lemma notes_seen_new m evs x :
  (exists s, ETx x s ∈ evs /\ cnf (m_chain m) s = false) -> lookup_seen (notes m evs) x = Some (m_clock m).
Proof.
  induction evs as [|e evs IH] using rev_ind; intros (s & Hin & Hu).
  - apply elem_of_nil in Hin. destruct Hin.
  - rewrite notes_snoc. apply elem_of_app in Hin.
    destruct e as [t s'|t s'|h b]; cbn [tev].
    + unfold note1. cbn [andb]. rewrite notes_chain. destruct (cnf (m_chain m) s') eqn:Hu'; cbn [negb].
      * unfold lookup_seen. cbn [m_seen]. apply IH. destruct Hin as [Hin|Hin]; [eauto|].
        apply elem_of_list_singleton in Hin. inversion Hin. subst. congruence.
      * rewrite lookup_seen_cons, notes_clock. destruct (t =? x) eqn:E; [reflexivity|].
        apply IH. destruct Hin as [Hin|Hin]; [eauto|]. apply elem_of_list_singleton in Hin.
        inversion Hin. subst. rewrite Z.eqb_refl in E. discriminate.
    + unfold note1. cbn [andb]. unfold lookup_seen. cbn [m_seen]. apply IH.
      destruct Hin as [Hin|Hin]; [eauto|]. apply elem_of_list_singleton in Hin. discriminate.
    + apply IH. destruct Hin as [Hin|Hin]; [eauto|]. apply elem_of_list_singleton in Hin. discriminate.
Qed.

Lemma notes_seen_old m evs x :
  (forall s, ETx x s ∈ evs -> cnf (m_chain m) s = true) -> lookup_seen (notes m evs) x = lookup_seen m x.
Proof.
  induction evs as [|e evs IH] using rev_ind; intros Hall; [reflexivity|].
  rewrite notes_snoc.
  assert (IH' : lookup_seen (notes m evs) x = lookup_seen m x).
  { apply IH. intros s H. apply Hall, elem_of_app. left. exact H. }
  destruct e as [t s'|t s'|h b]; cbn [tev]; [| |exact IH'].
  - unfold note1. cbn [andb]. rewrite notes_chain. destruct (cnf (m_chain m) s') eqn:Hu'; cbn [negb].
    + exact IH'.
    + rewrite lookup_seen_cons. destruct (t =? x) eqn:E; [|exact IH'].
      apply Z.eqb_eq in E. subst t. rewrite (Hall s') in Hu'; [discriminate|].
      apply elem_of_app. right. left.
  - exact IH'.
Qed.

(* the last proof notified *)
Lemma lookup_proof_cons m t p x pool dl lv se vo cf us sf lo ck sy ch vn vp bd :
  lookup_proof (MS pool dl lv se vo cf us sf lo ck sy ch vn vp ((t, p) :: m_proofs m) bd) x =
  if t =? x then Some p else lookup_proof m x.
Proof. unfold lookup_proof. cbn. destruct (t =? x); reflexivity. Qed.

Lemma notes_proof_out m evs x : x ∉ tkeys evs -> lookup_proof (notes m evs) x = lookup_proof m x.
Proof.
  induction evs as [|e evs IH] using rev_ind; intros Hk; [reflexivity|].
  rewrite notes_snoc. rewrite tkeys_app, not_elem_of_app in Hk. destruct Hk as [Hk1 Hk2]. specialize (IH Hk1).
  destruct (tev e) as [[[nw t] s]|] eqn:Et; [|exact IH].
  assert (Hne : t <> x).
  { intros ->. apply Hk2. unfold tkeys. cbn. unfold tkey. rewrite Et. left. }
  unfold note1. destruct (pz (s_proof s) =? -1).
  - unfold lookup_proof. cbn [m_proofs]. exact IH.
  - rewrite lookup_proof_cons. apply Z.eqb_neq in Hne. rewrite Hne. exact IH.
Qed.

Lemma notes_proof_in m evs x s : NoDup (tkeys evs) -> tev_in evs x s ->
  lookup_proof (notes m evs) x = if pz (s_proof s) =? -1 then lookup_proof m x else Some (pz (s_proof s)).
Proof.
  induction evs as [|e evs IH] using rev_ind; intros Hnd Hin; [destruct (tev_in_nil _ _ Hin)|].
  rewrite notes_snoc. destruct (tev e) as [[[nw t] s']|] eqn:Et.
  - destruct (tkeys_snoc_fresh _ _ _ _ _ Hnd Et) as [Hnd' Hfr].
    apply tev_in_app in Hin. destruct Hin as [Hin|Hin].
    + assert (Hne : t <> x).
      { intros ->. apply Hfr, tkeys_elem. eauto. }
      unfold note1. destruct (pz (s_proof s') =? -1).
      * unfold lookup_proof. cbn [m_proofs]. apply (IH Hnd' Hin).
      * rewrite lookup_proof_cons. apply Z.eqb_neq in Hne. rewrite Hne. apply (IH Hnd' Hin).
    + apply tev_in_single in Hin.
      assert (t = x /\ s' = s) as [-> ->].
      { destruct Hin as [-> | ->]; cbn in Et; inversion Et; auto. }
      unfold note1. destruct (pz (s_proof s) =? -1).
      * unfold lookup_proof. cbn [m_proofs]. apply notes_proof_out, Hfr.
      * rewrite lookup_proof_cons, Z.eqb_refl. reflexivity.
  - rewrite (tkeys_snoc_none evs e Et) in Hnd. apply tev_in_app in Hin. destruct Hin as [Hin|Hin]; [apply (IH Hnd Hin)|].
    apply tev_in_single in Hin. destruct Hin as [-> | ->]; discriminate.
Qed.

(* ---------------------------------------------------------------------------------------- *)
(* first_bad, has_ev, count_ev *)
Lemma first_bad_ok delay m o es :
  Forall (fun e => check_event delay m o e = 0) es -> first_bad delay m o es = 0.
Proof.
  unfold first_bad. induction 1 as [|e es He _ IH]; [reflexivity|].
  simpl. rewrite He. exact IH.
Qed.

Lemma has_ev_true es f : has_ev es f = true <-> exists e, e ∈ es /\ f e = true.
Proof.
  unfold has_ev. rewrite existsb_exists. split; intros (e & H1 & H2); exists e;
    (split; [apply elem_of_list_In; exact H1 | exact H2]).
Qed.

Lemma has_ev_map evs f : has_ev (map ev_of evs) f = true <-> exists e, e ∈ evs /\ f (ev_of e) = true.
Proof.
  rewrite has_ev_true. split.
  - intros (e & H1 & H2). apply elem_of_list_fmap in H1. destruct H1 as (e' & -> & H1). eauto.
  - intros (e & H1 & H2). exists (ev_of e). split; [|exact H2]. apply elem_of_list_fmap. eauto.
Qed.

Lemma has_ev_false_map evs f : has_ev (map ev_of evs) f = false <-> forall e, e ∈ evs -> f (ev_of e) = false.
Proof.
  split.
  - intros H e He. destruct (f (ev_of e)) eqn:E; [|reflexivity].
    assert (has_ev (map ev_of evs) f = true) by (apply has_ev_map; eauto). congruence.
  - intros H. destruct (has_ev (map ev_of evs) f) eqn:E; [|reflexivity].
    apply has_ev_map in E. destruct E as (e & He & Hf). rewrite (H e He) in Hf. discriminate.
Qed.

Lemma existsb_false_iff {A} (f : A -> bool) l : existsb f l = false <-> forall x, x ∈ l -> f x = false.
Proof.
  split.
  - intros H x Hx. destruct (f x) eqn:E; [|reflexivity].
    assert (existsb f l = true) by (apply existsb_exists; exists x; split; [apply elem_of_list_In, Hx|exact E]).
    congruence.
  - intros H. destruct (existsb f l) eqn:E; [|reflexivity].
    apply existsb_exists in E. destruct E as (x & Hx & Hf). apply elem_of_list_In in Hx.
    rewrite (H x Hx) in Hf. discriminate.
Qed.

(* ---------------------------------------------------------------------------------------- *)
(* the hypothesis flow_valid, as propositions *)
Lemma zlist_eq_iff a : forall b, zlist_eq a b = true <-> a = b.
Proof.
  induction a as [|x a IH]; intros [|y b]; simpl; split; try congruence; try reflexivity.
  - intros H. apply andb_true_iff in H. destruct H as [H1 H2]. apply Z.eqb_eq in H1. apply IH in H2. congruence.
  - intros H. inversion H. subst. rewrite Z.eqb_refl. apply IH. reflexivity.
Qed.

Lemma nodupb_iff l : nodupb l = true <-> NoDup l.
Proof.
  induction l as [|x l IH]; simpl.
  - split; [constructor|reflexivity].
  - rewrite andb_true_iff, negb_true_iff, mem_false, IH, NoDup_cons. reflexivity.
Qed.

Lemma forallb_elem {A} (f : A -> bool) l : forallb f l = true <-> forall x, x ∈ l -> f x = true.
Proof.
  rewrite forallb_forall. split; intros H x Hx; apply H; apply elem_of_list_In; exact Hx.
Qed.

Definition txids (txs : list btx) : list Z := map (fun x => fst (fst x)) txs.

(* the block message of a block / reorg step *)
Definition blk_of (o : op) : option (Z * Z * list btx * bool) :=
  match o with OBlock b p txs v | OReorg b p txs v => Some (b, p, txs, v) | _ => None end.

Record valid (delay : Z) (all : list op) : Prop := mkValid {
  v_delay : 0 <= delay;
  v_cons : forall t b1 r1 b2 r2,
      (t, b1, r1) ∈ flat_map mentions all -> (t, b2, r2) ∈ flat_map mentions all -> b1 = b2 /\ r1 = r2;
  v_nodup : forall t b r, (t, b, r) ∈ flat_map mentions all -> NoDup b;
  v_adv : forall dt, OAdvance dt ∈ all -> 0 <= dt;
  v_blk : forall o b p txs v, o ∈ all -> blk_of o = Some (b, p, txs, v) -> 0 < b /\ pairwise_disjoint txs = true;
  v_bcons : forall o1 o2 b p1 txs1 v1 p2 txs2 v2, o1 ∈ all -> o2 ∈ all ->
      blk_of o1 = Some (b, p1, txs1, v1) -> blk_of o2 = Some (b, p2, txs2, v2) -> txids txs1 = txids txs2 }.

Lemma block_msgs_elem all o b p txs v : o ∈ all -> blk_of o = Some (b, p, txs, v) -> (b, p, v, txs) ∈ block_msgs all.
Proof.
  intros Ho Hb. unfold block_msgs. apply elem_of_list_In, in_flat_map. exists o.
  split; [apply elem_of_list_In, Ho|]. destruct o; cbn in Hb; inversion Hb; subst; left; reflexivity.
Qed.

Lemma flow_valid_valid delay all : flow_valid delay all = true ->
  valid delay all /\ hyp_from (n_init delay) all = true.
Proof.
  unfold flow_valid. rewrite !andb_true_iff.
  intros [[[[[Hd Hc] Hn] Ho] Hb] Hh].
  split; [|exact Hh]. split.
  - apply Z.leb_le, Hd.
  - intros t b1 r1 b2 r2 H1 H2. unfold consistent in Hc.
    rewrite forallb_elem in Hc. specialize (Hc _ H1). rewrite forallb_elem in Hc.
    specialize (Hc _ H2). simpl in Hc. rewrite Z.eqb_refl in Hc.
    apply andb_true_iff in Hc. destruct Hc as [Hc1 Hc2].
    apply zlist_eq_iff in Hc1. apply Bool.eqb_prop in Hc2. auto.
  - intros t b r H. rewrite forallb_elem in Hn. specialize (Hn _ H). simpl in Hn.
    apply nodupb_iff, Hn.
  - intros dt H. rewrite forallb_elem in Ho. specialize (Ho _ H). simpl in Ho. apply Z.leb_le, Ho.
  - intros o b p txs v H Hbo. rewrite forallb_elem in Ho. specialize (Ho _ H).
    destruct o; cbn in Hbo; inversion Hbo; subst; cbn in Ho;
      apply andb_true_iff in Ho; destruct Ho as [Ho1 Ho2]; (split; [apply Z.ltb_lt, Ho1|exact Ho2]).
  - intros o1 o2 b p1 txs1 v1 p2 txs2 v2 H1 H2 B1 B2.
    pose proof (block_msgs_elem _ _ _ _ _ _ H1 B1) as M1. pose proof (block_msgs_elem _ _ _ _ _ _ H2 B2) as M2.
    unfold blocks_consistent in Hb. rewrite forallb_elem in Hb. specialize (Hb _ M1).
    rewrite forallb_elem in Hb. specialize (Hb _ M2). cbn in Hb. rewrite Z.eqb_refl in Hb.
    rewrite !andb_true_iff in Hb. destruct Hb as [_ Hb]. apply zlist_eq_iff in Hb. exact Hb.
Qed.
