(* Proofs for the transaction pipeline monitors (C03, C05 node level, C06, C07, C11), part 1:
   helper lemmas, decoding of observations, the monitor's bookkeeping folds, the hypothesis. *)
From V.lib Require Import Base.
From V.model Require Import MemPool MemPoolSpec TxFlow TxFlowSpec.
From V.proofs Require Import MemPool_Proofs.

(* ---------------------------------------------------------------------------------------- *)
(* small facts *)
Lemma zb_b2z b : zb (b2z b) = b.
Proof. destruct b; reflexivity. Qed.

Lemma add_z_elem t x l : x ∈ add_z t l <-> x ∈ l \/ x = t.
Proof.
  unfold add_z. destruct (mem t l) eqn:E.
  - apply mem_elem in E. split; [tauto|]. intros [H| ->]; assumption.
  - rewrite elem_of_app, elem_of_list_singleton. tauto.
Qed.

Lemma remove_z_elem t x l : x ∈ remove_z t l <-> x ∈ l /\ x <> t.
Proof. unfold remove_z. rewrite elem_of_list_filter. tauto. Qed.

Lemma mem_true_iff x l : mem x l = true <-> x ∈ l.
Proof. apply mem_elem. Qed.

Lemma mem_decide x l : mem x l = bool_decide (x ∈ l).
Proof.
  destruct (mem x l) eqn:E; symmetry.
  - apply bool_decide_eq_true, mem_elem, E.
  - apply bool_decide_eq_false, mem_false, E.
Qed.

Lemma fold_add_z_elem cs : forall l x, x ∈ fold_left (fun l c => add_z c l) cs l <-> x ∈ l \/ x ∈ cs.
Proof.
  induction cs as [|c cs IH]; intros l x; simpl.
  - rewrite elem_of_nil. tauto.
  - rewrite IH, add_z_elem, elem_of_cons. tauto.
Qed.

Lemma shares_b_iff a b : shares_b a b = true <-> shares a b.
Proof.
  unfold shares_b, shares. rewrite existsb_exists. split.
  - intros (o & Ho & Hm). exists o. split; [exact Ho|]. apply elem_of_list_In, mem_elem, Hm.
  - intros (o & Ho & Hb). exists o. split; [exact Ho|]. apply mem_elem, elem_of_list_In, Hb.
Qed.

Lemma shares_sym a b : shares a b -> shares b a.
Proof. intros (o & H1 & H2). exists o. auto. Qed.

Lemma conflicting_held_elem p t body x :
  x ∈ conflicting_held p t body <-> x <> t /\ exists b', (x, b') ∈ p /\ shares body b'.
Proof.
  unfold conflicting_held. rewrite elem_of_list_fmap. split.
  - intros ([x' b'] & -> & H). apply elem_of_list_filter in H. simpl in H. destruct H as [H Hp].
    apply andb_true_iff in H. destruct H as [H1 H2]. apply negb_true_iff, Z.eqb_neq in H1.
    apply shares_b_iff in H2. eauto.
  - intros (Hne & b' & Hp & Hs). exists (x, b'). split; [reflexivity|].
    apply elem_of_list_filter. simpl. split; [|exact Hp].
    apply andb_true_iff. split; [apply negb_true_iff, Z.eqb_neq, Hne | apply shares_b_iff, Hs].
Qed.

Lemma conflicting_held_conflicts_of p t body x :
  x ∈ conflicting_held p t body <-> x ∈ conflicts_of p t body.
Proof. rewrite conflicting_held_elem, conflicts_of_elem. reflexivity. Qed.

Lemma zlen_nil_iff {A} (l : list A) : (zlen l =? 0) = true <-> l = [].
Proof. rewrite zlen_eqb0. destruct l; split; congruence. Qed.

Lemma zlen0_same {A B} (l : list A) (l' : list B) :
  (forall x, x ∈ l -> exists y, y ∈ l') -> (forall y, y ∈ l' -> exists x, x ∈ l) ->
  (zlen l =? 0) = (zlen l' =? 0).
Proof.
  intros H1 H2. rewrite !zlen_eqb0. destruct l as [|a l], l' as [|b l']; try reflexivity.
  - destruct (H2 b) as (x & Hx); [left|]. apply elem_of_nil in Hx. destruct Hx.
  - destruct (H1 a) as (x & Hx); [left|]. apply elem_of_nil in Hx. destruct Hx.
Qed.

(* ---------------------------------------------------------------------------------------- *)
(* decoding of the model's observations *)
Definition pz (p : option Z) : Z := match p with Some b => b | None => -1 end.

Definition ev_of (e : event) : ev :=
  match e with
  | ETx t s => Ev 1 t (s_safe s) (s_unsafe s) (s_cancel s) (s_depth s) (pz (s_proof s)) (s_outs s)
  | EUpdate t s => Ev 2 t (s_safe s) (s_unsafe s) (s_cancel s) (s_depth s) (pz (s_proof s)) []
  | EHeaders h b => Ev 3 h false false false 0 b []
  end.

Lemma enc_events_cons e es : enc_events (e :: es) = enc_event e ++ enc_events es.
Proof. reflexivity. Qed.

Lemma enc_events_app es1 es2 : enc_events (es1 ++ es2) = enc_events es1 ++ enc_events es2.
Proof. unfold enc_events. rewrite map_app, concat_app. reflexivity. Qed.

Lemma dec_enc es : forall fuel, (length (enc_events es) < fuel)%nat ->
  dec_events fuel (enc_events es) = Some (map ev_of es).
Proof.
  induction es as [|e es IH]; intros fuel Hf.
  - destruct fuel; [simpl in Hf; lia|]. reflexivity.
  - rewrite enc_events_cons in *. destruct fuel as [|fuel]; [lia|].
    destruct e as [t s|t s|h b].
    + cbn [enc_event enc_state app] in *. cbn [dec_events].
      assert (Hl : (length (enc_events es) < fuel)%nat).
      { cbn [length] in Hf. rewrite app_length in Hf. lia. }
      assert (Hn : ((zlen (s_outs s) <? 0) || (zlen (s_outs s ++ enc_events es) <? zlen (s_outs s))) = false).
      { unfold zlen. rewrite app_length. apply orb_false_iff. split; apply Z.ltb_ge; lia. }
      rewrite Hn. unfold zlen. rewrite Nat2Z.id, drop_app, take_app, (IH fuel Hl).
      rewrite !zb_b2z. reflexivity.
    + cbn [enc_event enc_state app] in *. cbn [dec_events].
      assert (Hl : (length (enc_events es) < fuel)%nat) by (cbn [length] in Hf; lia).
      rewrite (IH fuel Hl), !zb_b2z. reflexivity.
    + cbn [enc_event app] in *. cbn [dec_events].
      assert (Hl : (length (enc_events es) < fuel)%nat) by (cbn [length] in Hf; lia).
      rewrite (IH fuel Hl). reflexivity.
Qed.

Lemma decode_enc c es : decode_obs (c :: enc_events es) = Some (c, map ev_of es).
Proof. unfold decode_obs. rewrite dec_enc by lia. reflexivity. Qed.

(* ---------------------------------------------------------------------------------------- *)
(* the monitor's bookkeeping over the notifications of a step, in terms of the model's events *)
Definition ust (s : tstate) : bool := pz (s_proof s) =? -1.     (* decoded as unconfirmed *)

(* (is new, txid, state) of a transaction notification *)
Definition tev (e : event) : option (bool * Z * tstate) :=
  match e with
  | ETx t s => Some (true, t, s)
  | EUpdate t s => Some (false, t, s)
  | EHeaders _ _ => None
  end.

Definition note1 (m : ms) (nw : bool) (t : Z) (s : tstate) : ms :=
  MS (m_pool m)
     (if nw then add_z t (m_delivered m) else m_delivered m)
     (if ust s then (if nw then add_z t (m_live m) else m_live m) else remove_z t (m_live m))
     (if nw && ust s then (t, m_clock m) :: m_seen m else m_seen m)
     (m_vouched m) (m_conflicted m)
     (if s_unsafe s || s_cancel s then add_z t (m_unsafe m) else m_unsafe m)
     (if s_safe s && ust s then add_z t (m_safe m) else m_safe m)
     (m_local m) (m_clock m) (m_insync m) (m_chain m) (m_vnow m) (m_vpersist m).

Lemma note_event_ev_of m e :
  note_event m (ev_of e) = match tev e with Some (nw, t, s) => note1 m nw t s | None => m end.
Proof.
  destruct e as [t s|t s|h b]; unfold note_event, note1, ust; cbn; try reflexivity.
  - destruct (pz (s_proof s) =? -1); reflexivity.
  - destruct (pz (s_proof s) =? -1); reflexivity.
Qed.

Definition notes (m : ms) (evs : list event) : ms := fold_left note_event (map ev_of evs) m.

Lemma notes_nil m : notes m [] = m.
Proof. reflexivity. Qed.

Lemma notes_snoc m evs e : notes m (evs ++ [e]) =
  match tev e with Some (nw, t, s) => note1 (notes m evs) nw t s | None => notes m evs end.
Proof. unfold notes. rewrite map_app, fold_left_app. simpl. apply note_event_ev_of. Qed.

Lemma notes_app m evs1 evs2 : notes m (evs1 ++ evs2) = notes (notes m evs1) evs2.
Proof. unfold notes. rewrite map_app, fold_left_app. reflexivity. Qed.

Lemma notes_frame m evs :
  let F := notes m evs in
  m_pool F = m_pool m /\ m_vouched F = m_vouched m /\ m_conflicted F = m_conflicted m /\
  m_local F = m_local m /\ m_clock F = m_clock m /\ m_insync F = m_insync m /\
  m_chain F = m_chain m /\ m_vnow F = m_vnow m /\ m_vpersist F = m_vpersist m.
Proof.
  induction evs as [|e evs IH] using rev_ind; [cbn; tauto|].
  cbv zeta in *. rewrite notes_snoc. destruct (tev e) as [[[nw t] s]|]; [|exact IH].
  unfold note1. cbn. exact IH.
Qed.

Lemma notes_clock m evs : m_clock (notes m evs) = m_clock m.
Proof. apply (notes_frame m evs). Qed.

Lemma notes_delivered m evs x :
  x ∈ m_delivered (notes m evs) <-> x ∈ m_delivered m \/ exists s, ETx x s ∈ evs.
Proof.
  induction evs as [|e evs IH] using rev_ind.
  - rewrite notes_nil. split; [tauto|]. intros [H|(s & H)]; [exact H|]. apply elem_of_nil in H. destruct H.
  - rewrite notes_snoc.
    assert (Hex : (exists s, ETx x s ∈ evs ++ [e]) <-> (exists s, ETx x s ∈ evs) \/ (exists s, e = ETx x s)).
    { split.
      - intros (s & H). apply elem_of_app in H. destruct H as [H|H]; [left; eauto|].
        apply elem_of_list_singleton in H. right; eauto.
      - intros [(s & H)|(s & ->)]; exists s; apply elem_of_app; [left; exact H|right; left]. }
    rewrite Hex. destruct e as [t s|t s|h b]; cbn [tev].
    + unfold note1. cbn [m_delivered]. rewrite add_z_elem, IH. split.
      * intros [[H|H]| ->]; [tauto|tauto|]. right. right. eauto.
      * intros [H|[H|(s' & Heq)]]; [tauto|tauto|]. inversion Heq. tauto.
    + unfold note1. cbn [m_delivered]. rewrite IH. split; [tauto|].
      intros [H|[H|(s' & Heq)]]; [tauto|tauto|discriminate].
    + rewrite IH. split; [tauto|]. intros [H|[H|(s' & Heq)]]; [tauto|tauto|discriminate].
Qed.

(* a transaction notification for x with state s occurs in evs *)
Definition tev_in (evs : list event) (x : Z) (s : tstate) : Prop :=
  ETx x s ∈ evs \/ EUpdate x s ∈ evs.

Lemma tev_in_nil x s : ~ tev_in [] x s.
Proof. intros [H|H]; apply elem_of_nil in H; exact H. Qed.

Lemma tev_in_app evs1 evs2 x s : tev_in (evs1 ++ evs2) x s <-> tev_in evs1 x s \/ tev_in evs2 x s.
Proof. unfold tev_in. rewrite !elem_of_app. tauto. Qed.

Lemma tev_in_single e x s : tev_in [e] x s <-> e = ETx x s \/ e = EUpdate x s.
Proof. unfold tev_in. rewrite !elem_of_list_singleton. split; intros [H|H]; auto. Qed.

Lemma tev_in_tev evs x s : tev_in evs x s <-> exists e nw, e ∈ evs /\ tev e = Some (nw, x, s).
Proof.
  split.
  - intros [H|H]; eexists; eexists; (split; [exact H|reflexivity]).
  - intros (e & nw & He & Ht). destruct e; cbn in Ht; inversion Ht; subst; [left|right]; exact He.
Qed.

(* generic: a set-like list field that grows by add_z t when a condition on the state holds *)
Lemma notes_grow (fld : ms -> list Z) (c : tstate -> bool) m evs x :
  (forall m nw t s, fld (note1 m nw t s) = if c s then add_z t (fld m) else fld m) ->
  x ∈ fld (notes m evs) <-> x ∈ fld m \/ exists s, tev_in evs x s /\ c s = true.
Proof.
  intros Hf. induction evs as [|e evs IH] using rev_ind.
  - rewrite notes_nil. split; [tauto|]. intros [H|(s & H & _)]; [exact H|]. destruct (tev_in_nil _ _ H).
  - rewrite notes_snoc.
    assert (Hex : (exists s, tev_in (evs ++ [e]) x s /\ c s = true) <->
                  (exists s, tev_in evs x s /\ c s = true) \/
                  (exists s, (e = ETx x s \/ e = EUpdate x s) /\ c s = true)).
    { split.
      - intros (s & H & Hc). apply tev_in_app in H. destruct H as [H|H]; [left; eauto|].
        apply tev_in_single in H. right; eauto.
      - intros [(s & H & Hc)|(s & H & Hc)]; exists s; (split; [|exact Hc]); apply tev_in_app;
          [left; exact H | right; apply tev_in_single; exact H]. }
    rewrite Hex. clear Hex.
    destruct (tev e) as [[[nw t] s]|] eqn:Et.
    + rewrite Hf. destruct (c s) eqn:Ec.
      * rewrite add_z_elem, IH. split.
        -- intros [[H|H]| ->]; [tauto|tauto|]. right. right. exists s. split; [|exact Ec].
           destruct e; cbn in Et; inversion Et; subst; auto.
        -- intros [H|[H|(s' & He & Hc)]]; [tauto|tauto|]. right.
           destruct He as [-> | ->]; cbn in Et; inversion Et; reflexivity.
      * rewrite IH. split; [tauto|]. intros [H|[H|(s' & He & Hc)]]; [tauto|tauto|].
        destruct He as [-> | ->]; cbn in Et; inversion Et; subst; congruence.
    + rewrite IH. split; [tauto|]. intros [H|[H|(s' & He & Hc)]]; [tauto|tauto|].
      destruct He as [-> | ->]; cbn in Et; discriminate.
Qed.

Lemma notes_unsafe m evs x :
  x ∈ m_unsafe (notes m evs) <->
  x ∈ m_unsafe m \/ exists s, tev_in evs x s /\ (s_unsafe s || s_cancel s) = true.
Proof. apply (notes_grow m_unsafe (fun s => s_unsafe s || s_cancel s)). reflexivity. Qed.

Lemma notes_safe m evs x :
  x ∈ m_safe (notes m evs) <->
  x ∈ m_safe m \/ exists s, tev_in evs x s /\ (s_safe s && ust s) = true.
Proof. apply (notes_grow m_safe (fun s => s_safe s && ust s)). reflexivity. Qed.

(* live: steps whose notifications are all unconfirmed only add *)
Lemma notes_live_add m evs x :
  (forall y s, tev_in evs y s -> ust s = true) ->
  x ∈ m_live (notes m evs) <-> x ∈ m_live m \/ exists s, ETx x s ∈ evs.
Proof.
  induction evs as [|e evs IH] using rev_ind; intros Hall.
  - rewrite notes_nil. split; [tauto|]. intros [H|(s & H)]; [exact H|]. apply elem_of_nil in H. destruct H.
  - rewrite notes_snoc.
    assert (Hall' : forall y s, tev_in evs y s -> ust s = true).
    { intros y s H. apply (Hall y s), tev_in_app. left. exact H. }
    specialize (IH Hall').
    assert (Hex : (exists s, ETx x s ∈ evs ++ [e]) <-> (exists s, ETx x s ∈ evs) \/ (exists s, e = ETx x s)).
    { split.
      - intros (s & H). apply elem_of_app in H. destruct H as [H|H]; [left; eauto|].
        apply elem_of_list_singleton in H. right; eauto.
      - intros [(s & H)|(s & ->)]; exists s; apply elem_of_app; [left; exact H|right; left]. }
    rewrite Hex. clear Hex.
    destruct e as [t s|t s|h b]; cbn [tev].
    + assert (Hu : ust s = true).
      { apply (Hall t s), tev_in_app. right. apply tev_in_single. auto. }
      unfold note1. cbn [m_live]. rewrite Hu, add_z_elem, IH. split.
      * intros [[H|H]| ->]; [tauto|tauto|]. right. right. eauto.
      * intros [H|[H|(s' & Heq)]]; [tauto|tauto|]. inversion Heq. tauto.
    + assert (Hu : ust s = true).
      { apply (Hall t s), tev_in_app. right. apply tev_in_single. auto. }
      unfold note1. cbn [m_live]. rewrite Hu, IH. split; [tauto|].
      intros [H|[H|(s' & Heq)]]; [tauto|tauto|discriminate].
    + rewrite IH. split; [tauto|]. intros [H|[H|(s' & Heq)]]; [tauto|tauto|discriminate].
Qed.

(* live: steps whose new-transaction notifications are all confirmed only remove *)
Lemma notes_live_rem m evs x :
  (forall y s, ETx y s ∈ evs -> ust s = false) ->
  x ∈ m_live (notes m evs) <-> x ∈ m_live m /\ ~ exists s, tev_in evs x s /\ ust s = false.
Proof.
  induction evs as [|e evs IH] using rev_ind; intros Hall.
  - rewrite notes_nil. split; [|tauto]. intros H. split; [exact H|].
    intros (s & H' & _). destruct (tev_in_nil _ _ H').
  - rewrite notes_snoc.
    assert (Hall' : forall y s, ETx y s ∈ evs -> ust s = false).
    { intros y s H. apply (Hall y s), elem_of_app. left. exact H. }
    specialize (IH Hall').
    assert (Hex : (exists s, tev_in (evs ++ [e]) x s /\ ust s = false) <->
                  (exists s, tev_in evs x s /\ ust s = false) \/
                  (exists s, (e = ETx x s \/ e = EUpdate x s) /\ ust s = false)).
    { split.
      - intros (s & H & Hc). apply tev_in_app in H. destruct H as [H|H]; [left; eauto|].
        apply tev_in_single in H. right; eauto.
      - intros [(s & H & Hc)|(s & H & Hc)]; exists s; (split; [|exact Hc]); apply tev_in_app;
          [left; exact H | right; apply tev_in_single; exact H]. }
    rewrite Hex. clear Hex.
    destruct e as [t s|t s|h b]; cbn [tev].
    + assert (Hu : ust s = false).
      { apply (Hall t s), elem_of_app. right. left. }
      unfold note1. cbn [m_live]. rewrite Hu, remove_z_elem, IH. split.
      * intros [[H1 H2] Hne]. split; [exact H1|]. intros [H|(s' & [Heq|Heq] & _)]; [tauto| |discriminate].
        inversion Heq. congruence.
      * intros [H1 H2]. split; [split; [exact H1|tauto]|]. intros ->. apply H2. right. eauto.
    + unfold note1. cbn [m_live]. destruct (ust s) eqn:Hu.
      * rewrite IH. split.
        -- intros [H1 H2]. split; [exact H1|]. intros [H|(s' & [Heq|Heq] & Hc)]; [tauto|discriminate|].
           inversion Heq. congruence.
        -- intros [H1 H2]. split; [exact H1|tauto].
      * rewrite remove_z_elem, IH. split.
        -- intros [[H1 H2] Hne]. split; [exact H1|]. intros [H|(s' & [Heq|Heq] & _)]; [tauto|discriminate|].
           inversion Heq. congruence.
        -- intros [H1 H2]. split; [split; [exact H1|tauto]|]. intros ->. apply H2. right. eauto.
    + rewrite IH. split.
      * intros [H1 H2]. split; [exact H1|]. intros [H|(s' & [Heq|Heq] & _)]; [tauto|discriminate|discriminate].
      * intros [H1 H2]. split; [exact H1|tauto].
Qed.

Lemma lookup_seen_cons m t c x pool dl lv vo cf us sf lo ck sy ch vn vp :
  lookup_seen (MS pool dl lv ((t, c) :: m_seen m) vo cf us sf lo ck sy ch vn vp) x =
  if t =? x then Some c else lookup_seen m x.
Proof. unfold lookup_seen. cbn. destruct (t =? x); reflexivity. Qed.

Lemma notes_seen_new m evs x :
  (exists s, ETx x s ∈ evs /\ ust s = true) -> lookup_seen (notes m evs) x = Some (m_clock m).
Proof.
  induction evs as [|e evs IH] using rev_ind; intros (s & Hin & Hu).
  - apply elem_of_nil in Hin. destruct Hin.
  - rewrite notes_snoc. apply elem_of_app in Hin.
    destruct e as [t s'|t s'|h b]; cbn [tev].
    + unfold note1. cbn [andb]. destruct (ust s') eqn:Hu'.
      * rewrite lookup_seen_cons, notes_clock. destruct (t =? x) eqn:E; [reflexivity|].
        apply IH. destruct Hin as [Hin|Hin]; [eauto|]. apply elem_of_list_singleton in Hin.
        inversion Hin. subst. rewrite Z.eqb_refl in E. discriminate.
      * unfold lookup_seen. cbn [m_seen]. apply IH. destruct Hin as [Hin|Hin]; [eauto|].
        apply elem_of_list_singleton in Hin. inversion Hin. subst. congruence.
    + unfold note1. cbn [andb]. unfold lookup_seen. cbn [m_seen]. apply IH.
      destruct Hin as [Hin|Hin]; [eauto|]. apply elem_of_list_singleton in Hin. discriminate.
    + apply IH. destruct Hin as [Hin|Hin]; [eauto|]. apply elem_of_list_singleton in Hin. discriminate.
Qed.

Lemma notes_seen_old m evs x :
  (forall s, ETx x s ∈ evs -> ust s = false) -> lookup_seen (notes m evs) x = lookup_seen m x.
Proof.
  induction evs as [|e evs IH] using rev_ind; intros Hall; [reflexivity|].
  rewrite notes_snoc.
  assert (IH' : lookup_seen (notes m evs) x = lookup_seen m x).
  { apply IH. intros s H. apply Hall, elem_of_app. left. exact H. }
  destruct e as [t s'|t s'|h b]; cbn [tev]; [| |exact IH'].
  - unfold note1. cbn [andb]. destruct (ust s') eqn:Hu'.
    + rewrite lookup_seen_cons. destruct (t =? x) eqn:E; [|exact IH'].
      apply Z.eqb_eq in E. subst t. rewrite (Hall s') in Hu'; [discriminate|].
      apply elem_of_app. right. left.
    + exact IH'.
  - exact IH'.
Qed.

(* ---------------------------------------------------------------------------------------- *)
(* first_bad, has_ev, count_ev *)
Lemma first_bad_ok delay m o es :
  Forall (fun e => check_event delay m o e = 0) es -> first_bad delay m o es = 0.
Proof.
  unfold first_bad. induction 1 as [|e es He _ IH]; [reflexivity|].
  simpl. rewrite He. exact IH.
Qed.

Lemma has_ev_true es f : has_ev es f = true <-> exists e, e ∈ es /\ f e = true.
Proof.
  unfold has_ev. rewrite existsb_exists. split; intros (e & H1 & H2); exists e;
    (split; [apply elem_of_list_In; exact H1 | exact H2]).
Qed.

Lemma has_ev_map evs f : has_ev (map ev_of evs) f = true <-> exists e, e ∈ evs /\ f (ev_of e) = true.
Proof.
  rewrite has_ev_true. split.
  - intros (e & H1 & H2). apply elem_of_list_fmap in H1. destruct H1 as (e' & -> & H1). eauto.
  - intros (e & H1 & H2). exists (ev_of e). split; [|exact H2]. apply elem_of_list_fmap. eauto.
Qed.

Lemma has_ev_false_map evs f : has_ev (map ev_of evs) f = false <-> forall e, e ∈ evs -> f (ev_of e) = false.
Proof.
  split.
  - intros H e He. destruct (f (ev_of e)) eqn:E; [|reflexivity].
    assert (has_ev (map ev_of evs) f = true) by (apply has_ev_map; eauto). congruence.
  - intros H. destruct (has_ev (map ev_of evs) f) eqn:E; [|reflexivity].
    apply has_ev_map in E. destruct E as (e & He & Hf). rewrite (H e He) in Hf. discriminate.
Qed.

Lemma existsb_false_iff {A} (f : A -> bool) l : existsb f l = false <-> forall x, x ∈ l -> f x = false.
Proof.
  split.
  - intros H x Hx. destruct (f x) eqn:E; [|reflexivity].
    assert (existsb f l = true) by (apply existsb_exists; exists x; split; [apply elem_of_list_In, Hx|exact E]).
    congruence.
  - intros H. destruct (existsb f l) eqn:E; [|reflexivity].
    apply existsb_exists in E. destruct E as (x & Hx & Hf). apply elem_of_list_In in Hx.
    rewrite (H x Hx) in Hf. discriminate.
Qed.

(* ---------------------------------------------------------------------------------------- *)
(* the hypothesis flow_valid, as propositions *)
Lemma zlist_eq_iff a : forall b, zlist_eq a b = true <-> a = b.
Proof.
  induction a as [|x a IH]; intros [|y b]; simpl; split; try congruence; try reflexivity.
  - intros H. apply andb_true_iff in H. destruct H as [H1 H2]. apply Z.eqb_eq in H1. apply IH in H2. congruence.
  - intros H. inversion H. subst. rewrite Z.eqb_refl. apply IH. reflexivity.
Qed.

Lemma nodupb_iff l : nodupb l = true <-> NoDup l.
Proof.
  induction l as [|x l IH]; simpl.
  - split; [constructor|reflexivity].
  - rewrite andb_true_iff, negb_true_iff, mem_false, IH, NoDup_cons. reflexivity.
Qed.

Lemma forallb_elem {A} (f : A -> bool) l : forallb f l = true <-> forall x, x ∈ l -> f x = true.
Proof.
  rewrite forallb_forall. split; intros H x Hx; apply H; apply elem_of_list_In; exact Hx.
Qed.

Definition txids (txs : list btx) : list Z := map (fun x => fst (fst x)) txs.

Lemma dedup_blocks_sub l e : e ∈ dedup_blocks l -> e ∈ l.
Proof.
  revert e. induction l as [|a l IH]; intros e H; [exact H|].
  simpl in H. apply elem_of_cons in H. destruct H as [->|H]; [left|].
  apply elem_of_list_filter in H. right. apply IH. tauto.
Qed.

Lemma dedup_blocks_covers l e : e ∈ l -> exists e', e' ∈ dedup_blocks l /\ fst e' = fst e.
Proof.
  induction l as [|a l IH]; intros H; [apply elem_of_nil in H; destruct H|].
  apply elem_of_cons in H. simpl. destruct H as [->|H].
  - exists a. split; [left|reflexivity].
  - destruct (decide (fst e = fst a)) as [Heq|Hne].
    + exists a. split; [left|congruence].
    + destruct (IH H) as (e' & He' & Hf). exists e'. split; [|exact Hf].
      right. apply elem_of_list_filter. split; [congruence|exact He'].
Qed.

Lemma NoDup_flat_map_inj {A} (f : A -> list Z) l e1 e2 t :
  NoDup (flat_map f l) -> e1 ∈ l -> e2 ∈ l -> t ∈ f e1 -> t ∈ f e2 -> e1 = e2.
Proof.
  induction l as [|a l IH]; intros Hnd H1 H2 Ht1 Ht2; [apply elem_of_nil in H1; destruct H1|].
  simpl in Hnd. apply NoDup_app in Hnd. destruct Hnd as (Ha & Hdis & Hl).
  assert (Hin : forall e, e ∈ l -> t ∈ f e -> t ∈ flat_map f l).
  { intros e He Hte. apply elem_of_list_In, in_flat_map. exists e.
    split; apply elem_of_list_In; assumption. }
  apply elem_of_cons in H1. apply elem_of_cons in H2.
  destruct H1 as [->|H1], H2 as [->|H2].
  - reflexivity.
  - destruct (Hdis t Ht1). eapply Hin; eauto.
  - destruct (Hdis t Ht2). eapply Hin; eauto.
  - apply IH; assumption.
Qed.

Record valid (delay : Z) (all : list op) : Prop := mkValid {
  v_delay : 0 <= delay;
  v_cons : forall t b1 r1 b2 r2,
      (t, b1, r1) ∈ flat_map mentions all -> (t, b2, r2) ∈ flat_map mentions all -> b1 = b2 /\ r1 = r2;
  v_nodup : forall t b r, (t, b, r) ∈ flat_map mentions all -> NoDup b;
  v_adv : forall dt, OAdvance dt ∈ all -> 0 <= dt;
  v_blk : forall b p txs v, OBlock b p txs v ∈ all -> 0 < b /\ pairwise_disjoint txs = true;
  v_uniq : forall b1 p1 txs1 v1 b2 p2 txs2 v2 t,
      OBlock b1 p1 txs1 v1 ∈ all -> OBlock b2 p2 txs2 v2 ∈ all ->
      t ∈ txids txs1 -> t ∈ txids txs2 -> b1 = b2 }.

Lemma block_msgs_elem all b txs : (b, txs) ∈ block_msgs all <-> exists p v, OBlock b p txs v ∈ all.
Proof.
  unfold block_msgs. rewrite elem_of_list_In, in_flat_map. split.
  - intros (o & Ho & Hin). destruct o; simpl in Hin; try tauto. destruct Hin as [Heq|[]].
    inversion Heq. subst. apply elem_of_list_In in Ho. eauto.
  - intros (p & v & H). exists (OBlock b p txs v). split; [apply elem_of_list_In, H|left; reflexivity].
Qed.

Lemma flow_valid_valid delay all : flow_valid delay all = true -> valid delay all.
Proof.
  unfold flow_valid. rewrite !andb_true_iff.
  intros [[[[[Hd Hc] Hn] Ho] Hb] Hu].
  split.
  - apply Z.leb_le, Hd.
  - intros t b1 r1 b2 r2 H1 H2. unfold consistent in Hc.
    rewrite forallb_elem in Hc. specialize (Hc _ H1). rewrite forallb_elem in Hc.
    specialize (Hc _ H2). simpl in Hc. rewrite Z.eqb_refl in Hc.
    apply andb_true_iff in Hc. destruct Hc as [Hc1 Hc2].
    apply zlist_eq_iff in Hc1. apply Bool.eqb_prop in Hc2. auto.
  - intros t b r H. rewrite forallb_elem in Hn. specialize (Hn _ H). simpl in Hn.
    apply nodupb_iff, Hn.
  - intros dt H. rewrite forallb_elem in Ho. specialize (Ho _ H). simpl in Ho. apply Z.leb_le, Ho.
  - intros b p txs v H. rewrite forallb_elem in Ho. specialize (Ho _ H). simpl in Ho.
    apply andb_true_iff in Ho. destruct Ho as [Ho1 Ho2]. split; [apply Z.ltb_lt, Ho1|exact Ho2].
  - intros b1 p1 txs1 v1 b2 p2 txs2 v2 t H1 H2 Ht1 Ht2.
    assert (M1 : (b1, txs1) ∈ block_msgs all) by (apply block_msgs_elem; eauto).
    assert (M2 : (b2, txs2) ∈ block_msgs all) by (apply block_msgs_elem; eauto).
    destruct (dedup_blocks_covers _ _ M1) as (e1 & D1 & F1).
    destruct (dedup_blocks_covers _ _ M2) as (e2 & D2 & F2). simpl in F1, F2.
    assert (Hcons : forall e e', e ∈ block_msgs all -> e' ∈ block_msgs all -> fst e = fst e' ->
                                 txids (snd e) = txids (snd e')).
    { intros e e' He He' Hf. unfold blocks_consistent in Hb. rewrite forallb_elem in Hb.
      specialize (Hb _ He). rewrite forallb_elem in Hb. specialize (Hb _ He').
      match type of Hb with (if ?c then _ else _) = _ =>
        assert (Hc' : c = true) by (apply Z.eqb_eq; exact Hf); rewrite Hc' in Hb end.
      apply zlist_eq_iff in Hb. exact Hb. }
    assert (T1 : t ∈ txids (snd e1)).
    { assert (X : txids (snd e1) = txids txs1).
      { apply (Hcons e1 (b1, txs1)); [apply dedup_blocks_sub, D1|exact M1|exact F1]. }
      exact (eq_ind_r (fun l => t ∈ l) Ht1 X). }
    assert (T2 : t ∈ txids (snd e2)).
    { assert (X : txids (snd e2) = txids txs2).
      { apply (Hcons e2 (b2, txs2)); [apply dedup_blocks_sub, D2|exact M2|exact F2]. }
      exact (eq_ind_r (fun l => t ∈ l) Ht2 X). }
    apply nodupb_iff in Hu.
    assert (e1 = e2).
    { eapply (NoDup_flat_map_inj (fun x => map (fun y => fst (fst y)) (snd x))); eauto. }
    congruence.
Qed.
