(* Proofs for the transaction pipeline monitors, part 5: a block is processed; a competing header
   reverts the chain (reorganisation). *)
From V.lib Require Import Base.
From V.model Require Import MemPool MemPoolSpec TxFlow TxFlowSpec.
From V.proofs Require Import MemPool_Proofs TxFlow_Base TxFlow_Model TxFlow_Block TxFlow_Inv.

Section Flow.
Variable dl : Z.
Variable all : list op.
Hypothesis Hv : valid dl all.

Local Notation T := (TxFlow_Inv.T all).
Local Notation relT := (TxFlow_Inv.relT all).
Local Notation InvS := (TxFlow_Inv.InvS all).
Local Notation InvU := (TxFlow_Inv.InvU dl all).
Local Notation Inv := (TxFlow_Inv.Inv dl all).
Local Notation inblock := (TxFlow_Inv.inblock all).
Local Notation vs_chain0 := (TxFlow_Inv.vs_chain0 all).
Local Notation vs_D := (TxFlow_Inv.vs_D all).
Local Notation vs_FL := (TxFlow_Inv.vs_FL all).
Local Notation vs_UNS := (TxFlow_Inv.vs_UNS all).
Local Notation vs_SAFED := (TxFlow_Inv.vs_SAFED all).
Local Notation vs_REL := (TxFlow_Inv.vs_REL all).
Local Notation vs_OUTS := (TxFlow_Inv.vs_OUTS all).
Local Notation vs_PRF := (TxFlow_Inv.vs_PRF all).
Local Notation vs_PRF0 := (TxFlow_Inv.vs_PRF0 all).
Local Notation vs_PRFB := (TxFlow_Inv.vs_PRFB all).
Local Notation vs_BODY := (TxFlow_Inv.vs_BODY all).
Local Notation vu_clock := (TxFlow_Inv.vu_clock dl all).
Local Notation vu_sync := (TxFlow_Inv.vu_sync dl all).
Local Notation vu_chain := (TxFlow_Inv.vu_chain dl all).
Local Notation vu_delay := (TxFlow_Inv.vu_delay dl all).
Local Notation vu_R := (TxFlow_Inv.vu_R dl all).
Local Notation vu_poolT := (TxFlow_Inv.vu_poolT dl all).
Local Notation vu_poolS := (TxFlow_Inv.vu_poolS dl all).
Local Notation vu_L := (TxFlow_Inv.vu_L dl all).
Local Notation vu_US := (TxFlow_Inv.vu_US dl all).
Local Notation vu_SU := (TxFlow_Inv.vu_SU dl all).
Local Notation vu_SEEN := (TxFlow_Inv.vu_SEEN dl all).
Local Notation vu_SAFE1 := (TxFlow_Inv.vu_SAFE1 dl all).
Local Notation vu_SAFE2 := (TxFlow_Inv.vu_SAFE2 dl all).
Local Notation vu_SAFE3 := (TxFlow_Inv.vu_SAFE3 dl all).
Local Notation vu_VCH := (TxFlow_Inv.vu_VCH dl all).
Local Notation vu_VCH2 := (TxFlow_Inv.vu_VCH2 dl all).
Local Notation vu_VNOW := (TxFlow_Inv.vu_VNOW dl all).
Local Notation vu_VPER := (TxFlow_Inv.vu_VPER dl all).
Local Notation vu_UUNS := (TxFlow_Inv.vu_UUNS dl all).
Local Notation vu_CONF := (TxFlow_Inv.vu_CONF dl all).
Local Notation vu_HELD := (TxFlow_Inv.vu_HELD dl all).
Local Notation vu_BODY := (TxFlow_Inv.vu_BODY dl all).
Local Notation vu_LND := (TxFlow_Inv.vu_LND dl all).
Local Notation T_body := (TxFlow_Inv.T_body dl all Hv).
Local Notation relT_rel := (TxFlow_Inv.relT_rel dl all Hv).
Local Notation mentions_T := (TxFlow_Inv.mentions_T all).
Local Notation gen_states := (TxFlow_Inv.gen_states all).
Local Notation gen_checks := (TxFlow_Inv.gen_checks dl all).
Local Notation InvS_frame := (TxFlow_Inv.InvS_frame all).
Local Notation step_advance := (TxFlow_Inv.step_advance dl all).
Local Notation Inv_setsync := (TxFlow_Inv.Inv_setsync dl all).
Local Notation step_setsync := (TxFlow_Inv.step_setsync dl all).
Local Notation step_gettx := (TxFlow_Inv.step_gettx dl all).
Local Notation step_unconf := (TxFlow_Inv.step_unconf dl all).
Local Notation step_blocktxs := (TxFlow_Inv.step_blocktxs dl all).
Local Notation step_restart := (TxFlow_Inv.step_restart dl all).
Local Notation step_inv := (TxFlow_Inv.step_inv dl all).
Local Notation monitor_step_events := (TxFlow_Inv.monitor_step_events dl).
Local Notation monitor_step_reorg := (TxFlow_Inv.monitor_step_reorg dl).
Local Notation step_delay := (TxFlow_Inv.step_delay dl all).

(* ---------------------------------------------------------------------------------------- *)
(* the chain up to a held block *)
Lemma upto_sub x l y : y ∈ upto x l -> y ∈ l.
Proof.
  induction l as [|a l IH]; cbn; [auto|]. destruct (a =? x).
  - intros H. apply elem_of_list_singleton in H. subst. left.
  - intros H. apply elem_of_cons in H. destruct H as [->|H]; [left|right; auto].
Qed.

Lemma upto_last x l : x ∈ l -> last (upto x l) = Some x.
Proof.
  induction l as [|a l IH]; intros H; [apply elem_of_nil in H; destruct H|].
  cbn. destruct (a =? x) eqn:E.
  - apply Z.eqb_eq in E. subst. reflexivity.
  - apply Z.eqb_neq in E. apply elem_of_cons in H. destruct H as [->|H]; [congruence|].
    specialize (IH H). destruct (upto x l) as [|c r] eqn:Eu; [discriminate|]. exact IH.
Qed.

(* ---------------------------------------------------------------------------------------- *)
(* the headers handler reverts the chain *)
Lemma Inv_revert n m prev : Inv n m -> Inv (revert n prev) (revert_ms m prev).
Proof.
  intros [HS HU].
  pose proof (vs_chain0 _ _ HS) as Hch0.
  assert (Hsub : forall s, conf (revert n prev) s -> conf n s).
  { intros s (b & Hb & Hc). exists b. split; [exact Hb|]. cbn [chain revert] in Hc. eapply upto_sub; eauto. }
  (* a confirmed transaction that is kept by the filter stays confirmed *)
  assert (Hkeep : forall t s, states n !! t = Some s -> conf n s ->
            (match lookup_proof m t with
             | Some p => mem p (m_chain m) && negb (mem p (upto prev (m_chain m)))
             | None => false end) = false -> conf (revert n prev) s).
  { intros t s Hs (b & Hb & Hc) Hf. rewrite (vs_PRF _ _ HS), Hs in Hf. cbn [oproof] in Hf. rewrite Hb in Hf.
    rewrite (vu_chain _ _ HU) in Hf. apply mem_elem in Hc. rewrite Hc in Hf. cbn [andb] in Hf.
    apply negb_false_iff, mem_elem in Hf. exists b. split; [exact Hb|exact Hf]. }
  split.
  - eapply InvS_frame; [exact HS|reflexivity| |repeat split].
    intros b Hb. apply Hch0. cbn [chain revert] in Hb. eapply upto_sub; eauto.
  - destruct HU as [Uclock Usync Uchain Udelay UR UpoolT UpoolS UL UUS USU USEEN USAFE1 USAFE2 USAFE3 UVCH UVCH2 UVNOW
                     UVPER UUUNS UCONF UHELD UBODY ULND].
    split; cbn [revert revert_ms mp unconf states chain insync now delay m_pool m_delivered m_live m_seen m_vouched
                m_conflicted m_unsafe m_safe m_local m_clock m_insync m_chain m_vnow m_vpersist m_proofs m_body];
      try assumption.
    + reflexivity.
    + rewrite Uchain. reflexivity.
    + intros t Ht. destruct (UUS t Ht) as (s & Hs & Hc). exists s. split; [exact Hs|]. intros Hc'. apply Hc, Hsub, Hc'.
    + intros t Hin. apply elem_of_list_filter in Hin. destruct Hin as [Hf Hin].
      destruct (UVNOW t Hin) as [H|[H|[(s & Hs & H)|H]]]; [auto|auto| |auto].
      right. right. left. exists s. split; [exact Hs|]. destruct H as [H|H]; [auto|]. right. eapply Hkeep; eauto.
    + intros t Hin. apply elem_of_list_filter in Hin. destruct Hin as [Hf Hin].
      destruct (UVPER t Hin) as [H|(s & Hs & H)]; [auto|].
      right. exists s. split; [exact Hs|]. eapply Hkeep; eauto.
Qed.

(* ---------------------------------------------------------------------------------------- *)
(* a block that is refused *)
Lemma block_refuse n b prev txs valid :
  accepts n b prev valid = false -> process_block n b prev txs valid = (n, [ERR]).
Proof.
  unfold accepts, process_block. destruct (in_chain n b); [reflexivity|].
  destruct (default (-99) (last (chain n)) =? prev); [|reflexivity].
  destruct valid; [discriminate|reflexivity].
Qed.

(* ---------------------------------------------------------------------------------------- *)
(* a block that is accepted *)
Lemma block_accept n m o b prev txs valid :
  Inv n m ->
  o = OBlock b prev txs valid \/ o = OReorg b prev txs valid -> o ∈ all ->
  accepts n b prev valid = true ->
  (forall t, t ∈ txids txs -> confirmed n t = false) ->
  let r := process_block n b prev txs valid in
  exists evs m1, snd r = OK :: enc_events evs /\ first_bad dl m o (map ev_of evs) = 0 /\
                 block_step m b txs (map ev_of evs) = (0, m1) /\ Inv (fst r) (notes m1 evs).
Proof.
  intros [HS HU] Hoo Ho Hacc H1 r. subst r.
  assert (Hbo : blk_of o = Some (b, prev, txs, valid)) by (destruct Hoo as [-> | ->]; reflexivity).
  assert (Hinfo : forall t, op_tx_info o t = op_tx_info (OBlock b prev txs valid) t)
    by (destruct Hoo as [-> | ->]; reflexivity).
  assert (Hopb : op_block o = Some b) by (destruct Hoo as [-> | ->]; reflexivity).
  assert (Hnotx : match o with OTx _ _ _ _ => False | _ => True end) by (destruct Hoo as [-> | ->]; exact I).
  destruct (v_blk _ _ Hv o b prev txs valid Ho Hbo) as [Hb0 Hpd]. destruct (pd_spec txs Hpd) as [Hndt Hdisj].
  pose proof (vs_chain0 _ _ HS) as Hch0.
  unfold accepts in Hacc. rewrite !andb_true_iff in Hacc. destruct Hacc as [[Eic Epr] Evalid].
  apply negb_true_iff in Eic.
  unfold process_block. rewrite Eic, Epr, Evalid. cbn [negb].
  assert (Hnb : b ∉ chain n) by (apply mem_false; exact Eic).
  cbv zeta.
  set (n0 := Node (mp n) (unconf n) (states n) (blocktxs n) (chain n ++ [b]) (insync n) (now n) (delay n)) in *.
  set (h := zlen (chain n0) - 1) in *.
  set (unc := sorted_keys (unconf n0)) in *.
  assert (Hblk : forall t body rel, (t, body, rel) ∈ txs -> (t, body, rel) ∈ T).
  { intros t body rel Hin. apply (mentions_T o); [exact Ho|]. destruct Hoo as [-> | ->]; exact Hin. }
  assert (Hinb : forall t, t ∈ txids txs -> inblock t b).
  { intros t Ht. exists o, prev, txs, valid. auto. }
  (* a stored proof for b is the proof of a transaction of this block *)
  assert (Hpb : forall t s, states n !! t = Some s -> s_proof s = Some b -> t ∈ txids txs).
  { intros t s Hs Hp. destruct (vs_PRFB _ _ HS t s b Hs Hp) as (o2 & p2 & txs2 & v2 & Ho2 & Hb2 & Ht2).
    rewrite (v_bcons _ _ Hv o o2 b prev txs valid p2 txs2 v2 Ho Ho2 Hbo Hb2). exact Ht2. }
  assert (Hnc : forall t s, t ∈ txids txs -> states n !! t = Some s -> ~ conf n s).
  { intros t s Ht Hs Hc. assert (confirmed n t = true) by (apply confirmed_iff; eauto).
    rewrite (H1 t Ht) in H. discriminate. }
  assert (Hunc_elem : forall x, x ∈ unc <-> is_Some (unconf n !! x)).
  { intros x. apply sorted_keys_elem. }
  assert (Hcons : forall t body rel b', (t, body, rel) ∈ txs -> (t, b') ∈ m_pool m -> b' = body).
  { intros t body rel b' Hin Hb'. destruct (vu_poolT _ _ HU t b' Hb') as (rel' & HT').
    destruct (T_body _ _ _ _ _ HT' (Hblk _ _ _ Hin)) as [-> _]. reflexivity. }
  assert (Hvnt : forall c, c ∈ blk_victims (m_pool m) txs -> c ∉ txids txs).
  { intros c Hc Hct. apply blk_victims_elem in Hc. destruct Hc as (x & Hx & Hne & bc & Hbc & Hsh).
    apply txids_elem in Hct. destruct Hct as (body' & rel' & Hy).
    pose proof (Hcons _ _ _ _ Hy Hbc) as ->.
    apply (Hdisj x (c, body', rel') Hx Hy); [cbn; congruence|exact Hsh]. }
  (* a stored transaction of the block that is not tracked is in limbo *)
  assert (Hlimbo : forall t s, t ∈ txids txs -> t ∉ unc -> states n !! t = Some s ->
            limbo m t = true /\ held (m_pool m) t = false).
  { intros t s Ht Hnu Hs. pose proof (Hnc t s Ht Hs) as Hncf.
    assert (Hnl : mem t (m_live m) = false).
    { apply mem_false. intros Hin. apply (vu_L _ _ HU) in Hin. apply Hnu, Hunc_elem, Hin. }
    split.
    - unfold limbo. rewrite Hnl, (vs_PRF _ _ HS), Hs. cbn [negb andb oproof].
      destruct (s_proof s) as [b'|] eqn:Ep.
      + apply negb_true_iff, mem_false. rewrite (vu_chain _ _ HU). intros Hb. apply Hncf. exists b'. auto.
      + destruct Hnu. apply Hunc_elem. eapply vu_SU; eauto.
    - apply held_false. intros b' Hb'. apply Hnu, Hunc_elem. eapply vu_HELD; eauto. }
  destruct (block_txs_spec (fun b' => b' = b) (states n) h txs n0 unc [] [EHeaders h b] (m_pool m)) as
    (n1 & unc1 & pend & evs1 & Hbt & Hun1 & Hmisc1 & HR1 & HE1 & Hst1 & Hst1' & Hunc1 & Hev1a & Hev1b & Hndp & Hp1 & Hp2).
  { exact (vu_R _ _ HU). }
  { exact Hcons. }
  { exact Hvnt. }
  { exact Hndt. }
  { apply sorted_keys_NoDup. }
  { intros t body Hin Hnu.
    assert (Htt : t ∈ txids txs) by (apply txids_elem; eauto).
    destruct (states n !! t) as [s|] eqn:Es.
    - apply (Hlimbo t s Htt Hnu Es).
    - apply held_false. intros b' Hb'.
      assert (Hrel : relT t) by (exists body; apply Hblk; exact Hin).
      destruct (vu_poolS _ _ HU t b' Hb' Hrel) as (s & Hs). congruence. }
  { intros c Hc. apply Hunc_elem in Hc. destruct (vu_US _ _ HU c Hc) as (s & Hs & _). cbn. eauto. }
  { intros c bc _. cbn. apply not_elem_of_nil. }
  { apply Ext_hdr. }
  change ([] ++ pend) with pend in Hbt.
  pose proof (block_txs_trusted h txs n0 unc [] [EHeaders h b] (m_pool m) _ (vu_R _ _ HU) Hcons Hbt) as Htrust.
  cbn [fst mp] in Htrust.
  rewrite Hbt.
  destruct (block_notify_spec (fun b' => b' = b) (states n) b eq_refl pend Hndp n1 ([EHeaders h b] ++ evs1)) as
    (n2 & evs2 & Hbn & Hmp2 & Hun2 & Hmisc2 & HE2 & Hev2a & Hev2b).
  { intros t body nw sf Hin. destruct (Hp1 t body nw sf Hin) as (rel & Hin' & Hc).
    assert (Htt : t ∈ txids txs) by (apply txids_elem; eauto).
    assert (Hnk : t ∉ tkeys evs1).
    { intros Hk. apply tkeys_elem in Hk. destruct Hk as (s & Hk). destruct (Hev1a t s Hk) as (Hv' & _).
      exact (Hvnt t Hv' Htt). }
    split; [rewrite tkeys_app, not_elem_of_app; split; [cbn; apply not_elem_of_nil|exact Hnk]|].
    destruct nw; [exact I|].
    apply Hst1. cbn. apply Hunc_elem in Hc. destruct (vu_US _ _ HU t Hc) as (s & Hs & _). eauto. }
  { exact HE1. }
  rewrite Hbn. cbn [fst snd].
  rewrite <- app_assoc in HE2 |- *.
  set (E := evs1 ++ evs2) in *.
  change ([EHeaders h b] ++ E) with (EHeaders h b :: E) in *.
  set (A := EHeaders h b :: E) in *.
  set (nf := set_unconf n2 (restrict_unconf (unconf n2) unc1)).
  exists A.
  assert (HEv : forall x s, tev_in A x s <-> tev_in E x s).
  { intros x s. unfold tev_in, A. rewrite !elem_of_cons.
    split; [intros [[H|H]|[H|H]]; try discriminate; auto|tauto]. }
  assert (HE1in : forall e, e ∈ evs1 -> e ∈ A).
  { intros e He. right. unfold E. apply elem_of_app. left. exact He. }
  assert (HE2in : forall e, e ∈ evs2 -> e ∈ A).
  { intros e He. right. unfold E. apply elem_of_app. right. exact He. }
  assert (Hall : forall x s, tev_in A x s -> tev_in evs1 x s \/ tev_in evs2 x s).
  { intros x s H. apply HEv in H. apply tev_in_app. exact H. }
  destruct Hmisc1 as (Hch1 & Hsy1 & Hnow1 & Hdl1). destruct Hmisc2 as (Hch2 & Hsy2 & Hnow2 & Hdl2).
  assert (Hchf : chain nf = chain n ++ [b]).
  { subst nf. cbn [chain set_unconf]. rewrite Hch2, Hch1. reflexivity. }
  assert (Hch0f : forall b', b' ∈ chain nf -> 0 <= b').
  { intros b' Hb'. rewrite Hchf in Hb'. apply elem_of_app in Hb'.
    destruct Hb' as [Hb'|Hb']; [apply Hch0, Hb'|]. apply elem_of_list_singleton in Hb'. lia. }
  assert (Hconfmono : forall s, conf n s -> conf nf s).
  { intros s (b' & Hb' & Hc). exists b'. split; [exact Hb'|]. rewrite Hchf. apply elem_of_app. auto. }
  (* cancel notifications *)
  assert (Hcan : forall x s, tev_in evs1 x s ->
            ~ conf nf s /\ s_safe s = false /\ s_unsafe s = true /\ s_cancel s = true /\
            x ∈ blk_victims (m_pool m) txs /\ x ∈ unc /\ x ∉ txids txs /\ EUpdate x s ∈ evs1).
  { intros x s H. destruct (Hev1a x s H) as (K1 & K2 & K3 & K4 & K5 & K6 & so & Hso & Hp).
    pose proof (Hvnt x K1) as Hnt.
    split; [|auto 10].
    intros (b' & Hb' & Hc). rewrite Hchf in Hc. apply elem_of_app in Hc. rewrite Hp in Hb'.
    destruct Hc as [Hc|Hc].
    - apply Hunc_elem in K2. destruct (vu_US _ _ HU x K2) as (so' & Hso' & Hp').
      assert (so' = so) by congruence. subst so'. apply Hp'. exists b'. auto.
    - apply elem_of_list_singleton in Hc. subst b'. apply Hnt. eapply Hpb; eauto. }
  (* notifications with the proof *)
  assert (Hnot : forall x s, tev_in evs2 x s ->
            s_proof s = Some b /\ conf nf s /\ s_depth s = 0 /\ x ∈ txids txs /\
            exists body nw sf, (x, body, nw, sf) ∈ pend /\
              (if nw : bool then ETx x s ∈ evs2 /\ outs_ok body (s_outs s) = true /\ (x, body, true) ∈ txs /\ x ∉ unc /\
                                s_unsafe s = negb (s_safe s) /\ s_cancel s = false /\ s_body s = body /\
                                (forall so, states n !! x = Some so -> s_unsafe so = true -> s_unsafe s = true)
               else EUpdate x s ∈ evs2 /\ x ∈ unc)).
  { intros x s H. destruct (Hev2a x s H) as (body & nw & sf & Hin & Hp & Hd & Hk).
    destruct (Hp1 x body nw sf Hin) as (rel & Hin' & Hc).
    split; [exact Hp|]. split; [exists b; split; [exact Hp|rewrite Hchf; apply elem_of_app; right; left]|].
    split; [exact Hd|].
    split; [apply txids_elem; eauto|]. exists body, nw, sf. split; [exact Hin|].
    destruct nw.
    - destruct Hk as (Hk1 & Hk2 & Hk3 & Hk4 & Hk5 & Hk6). destruct Hc as [-> Hc].
      split; [exact Hk1|]. split; [exact Hk2|]. split; [exact Hin'|]. split; [exact Hc|]. split; [exact Hk3|].
      split; [exact Hk4|]. split; [exact Hk5|].
      intros so Hso Hu. rewrite Hk3. apply negb_true_iff. apply (Hk6 so); [|rewrite Hu; reflexivity].
      rewrite (x_out _ _ _ _ HE1 x); [exact Hso|].
      rewrite tkeys_app, not_elem_of_app. split; [cbn; apply not_elem_of_nil|].
      intros Hk. apply tkeys_elem in Hk. destruct Hk as (s' & Hk). destruct (Hev1a x s' Hk) as (Hv' & _).
      apply (Hvnt x Hv'). apply txids_elem. eauto.
    - auto. }
  assert (Hcnf : forall x s, tev_in A x s -> cnf (chain nf) s = true <-> tev_in evs2 x s).
  { intros x s H. rewrite (cnf_conf nf s Hch0f). destruct (Hall x s H) as [H'|H'].
    - split; [intros Hc; destruct (Hcan x s H') as (Hn & _); contradiction|].
      intros H2. destruct (Hcan x s H') as (_ & _ & _ & _ & _ & _ & Hnt & _).
      destruct (Hnot x s H2) as (_ & _ & _ & Ht & _). contradiction.
    - split; [auto|]. intros _. apply (Hnot x s H'). }
  assert (HETx : forall t s, ETx t s ∈ A ->
            tev_in evs2 t s /\ exists body, (t, body, true) ∈ txs /\ t ∉ unc /\ outs_ok body (s_outs s) = true /\
            s_unsafe s = negb (s_safe s) /\ s_cancel s = false /\ s_body s = body /\
            (forall so, states n !! t = Some so -> s_unsafe so = true -> s_unsafe s = true)).
  { intros t s H. destruct (Hall t s (or_introl H)) as [H'|H'].
    - destruct (Hcan t s H') as (_ & _ & _ & _ & _ & _ & _ & Hup). exfalso.
      eapply (Ext_no_both _ _ _ _ t s s HE2); [exact H|apply HE1in, Hup].
    - split; [exact H'|]. destruct (Hnot t s H') as (_ & _ & _ & _ & body & nw & sf & Hpin & Hk). destruct nw.
      + destruct Hk as (_ & K1 & K2 & K3 & K4 & K5 & K6 & K7). exists body. auto 10.
      + destruct Hk as [Hk _]. exfalso. eapply (Ext_no_both _ _ _ _ t s s HE2); [exact H|apply HE2in, Hk]. }
  assert (Hmono : forall t s so, ETx t s ∈ A -> states n !! t = Some so -> s_unsafe so = true -> s_unsafe s = true).
  { intros t s so H Hso Hu. destruct (HETx t s H) as (_ & body & _ & _ & _ & _ & _ & _ & Hm). apply (Hm so Hso Hu). }
  (* the checks on the notifications *)
  assert (Hbad : first_bad dl m o (map ev_of A) = 0).
  { apply (gen_checks (fun b' => b' = b) n m (states n2)); [exact HS|exact HE2| |].
    - intros t s H. destruct (HETx t s H) as (_ & body & Htx & Hnu & Hok' & Hus & Hcs & Hbd & _).
      exists body. rewrite Hinfo. cbn [op_tx_info]. rewrite (find_tx txs t body true Hndt Htx).
      split; [reflexivity|]. split; [exact Hok'|]. split.
      { unfold flags. rewrite Hus, Hcs. split; [destruct (s_safe s); reflexivity|discriminate]. }
      split.
      + intros so Hso. split; [|apply (Hmono t s so H Hso)].
        apply (Hlimbo t so); [apply txids_elem; eauto|exact Hnu|exact Hso].
      + destruct o; try exact I. destruct Hnotx.
    - intros x s H Hsafe Hun. exfalso. destruct (Hall x s (or_intror H)) as [H'|H'].
      + destruct (Hcan x s H') as (_ & Hns & _). congruence.
      + destruct (Hnot x s H') as (Hp & _). unfold ev_unconf in Hun. rewrite Hopb in Hun.
        cbn [ev_of e_proof] in Hun. rewrite Hp in Hun. cbn [pz] in Hun. rewrite Z.eqb_refl, andb_false_r in Hun.
        discriminate. }
  assert (Hh : h = zlen (m_chain m)).
  { rewrite (vu_chain _ _ HU). subst h n0. cbn [chain]. unfold zlen. rewrite app_length. cbn [length]. lia. }
  destruct (block_step_ok m b txs (ev_of (EHeaders h b)) (map ev_of E)) as (cf' & Hbs & Hcf).
  { cbn [ev_of e_kind e_t e_proof]. rewrite <- Hh, !Z.eqb_refl. reflexivity. }
  { intros c Hc Hl. change (ev_of (EHeaders h b) :: map ev_of E) with (map ev_of A).
    apply (vu_L _ _ HU) in Hl. apply Hunc_elem in Hl. destruct (Hev1b c Hc Hl) as (s & Hs).
    destruct (Hcan c s (or_intror Hs)) as (_ & _ & Hu & Hcc & _).
    apply (count_cancel_one c s); [exact (x_nodup _ _ _ _ HE2)|apply HE1in, Hs|exact Hcc|exact Hu]. }
  { intros t body rel Hin ->. change (ev_of (EHeaders h b) :: map ev_of E) with (map ev_of A).
    assert (Htt : t ∈ txids txs) by (apply txids_elem; eauto).
    pose proof (Hp2 t body true Hin) as Hp. destruct (bool_decide (t ∈ unc)) eqn:Eb.
    - apply bool_decide_eq_true in Eb.
      assert (Hd : mem t (m_delivered m) = true).
      { apply mem_elem, (vs_D _ _ HS). apply Hunc_elem in Eb. destruct (vu_US _ _ HU t Eb) as (s & Hs & _). eauto. }
      assert (Hl : limbo m t = false).
      { unfold limbo. replace (mem t (m_live m)) with true; [reflexivity|]. symmetry.
        apply mem_elem, (vu_L _ _ HU), Hunc_elem, Eb. }
      rewrite Hd, Hl. cbn [negb andb]. destruct (Hev2b t body false true Hp) as (s & Hps & Hds & Hk).
      apply has_ev_map. exists (EUpdate t s). split; [apply HE2in, Hk|].
      cbn [ev_of e_kind e_t e_proof e_depth]. rewrite Hps, Hds. cbn [pz]. rewrite !Z.eqb_refl. reflexivity.
    - apply bool_decide_eq_false in Eb. destruct (Hp eq_refl) as (sf & Hsf).
      assert (Hd : (mem t (m_delivered m) && negb (limbo m t)) = false).
      { destruct (mem t (m_delivered m)) eqn:Ed; [|reflexivity]. cbn [andb].
        apply mem_elem, (vs_D _ _ HS) in Ed. destruct Ed as (so & Hso).
        destruct (Hlimbo t so Htt Eb Hso) as [-> _]. reflexivity. }
      rewrite Hd. destruct (Hev2b t body true sf Hsf) as (s & Hps & Hds & Hk).
      apply has_ev_map. exists (ETx t s). split; [apply HE2in, Hk|].
      cbn [ev_of e_kind e_t e_proof e_depth]. rewrite Hps, Hds. cbn [pz]. rewrite !Z.eqb_refl. reflexivity. }
  change (ev_of (EHeaders h b) :: map ev_of E) with (map ev_of A) in Hbs.
  eexists. split; [reflexivity|]. split; [exact Hbad|]. split; [exact Hbs|].
  match type of Hbs with _ = (_, ?mm) => set (m1 := mm) end.
  destruct (notes_frame m1 A) as (N1 & N2 & N3 & N4 & N5 & N6 & N7 & N8 & N9 & N10). cbv zeta in *.
  assert (Hm1c : m_chain m1 = chain nf).
  { unfold m1. cbn [m_chain]. rewrite (vu_chain _ _ HU), Hchf. reflexivity. }
  assert (Hnd : NoDup (tkeys A)) by apply (x_nodup _ _ _ _ HE2).
  assert (Hunf : forall x u, unconf nf !! x = Some u <-> unconf n !! x = Some u /\ x ∉ txids txs).
  { intros x u. subst nf. cbn [unconf set_unconf]. rewrite restrict_lookup, Hun2, Hun1, Hunc1, Hunc_elem.
    change (unconf n0) with (unconf n). split.
    - intros (K1 & K2 & K3). auto.
    - intros (K1 & K3). split; [exact K1|]. split; [eauto|exact K3]. }
  assert (Hpend_upd : forall x, x ∈ txids txs -> x ∈ unc -> exists s, EUpdate x s ∈ evs2 /\ s_proof s = Some b).
  { intros x Hx Hu. apply txids_elem in Hx. destruct Hx as (body & rel & Hin).
    pose proof (Hp2 x body rel Hin) as Hp. rewrite bool_decide_eq_true_2 in Hp by exact Hu.
    destruct (Hev2b _ _ _ _ Hp) as (s & Hps & _ & Hk). eauto. }
  (* the state of a transaction that is not in the block and not cancelled is unchanged *)
  assert (Hsame : forall x s, states nf !! x = Some s -> x ∉ txids txs -> (forall s', ~ tev_in evs1 x s') ->
            states n !! x = Some s).
  { intros x s Hs Hx Hno. destruct (Ext_back _ _ _ _ x s HE2 Hs) as [H|[_ H]]; [|exact H].
    destruct (Hall x s H) as [H'|H']; [destruct (Hno s H')|].
    destruct (Hnot x s H') as (_ & _ & _ & Hx' & _). contradiction. }
  (* a state that was unsafe or confirmed stays so *)
  assert (Hstick : forall x so, states n !! x = Some so ->
            exists s, states nf !! x = Some s /\ (s_unsafe so = true -> s_unsafe s = true) /\ (conf n so -> conf nf s)).
  { intros x so Hso.
    destruct (Ext_sticky _ _ _ _ x so HE2 Hso) as (s & Hs & K1 & K2 & _).
    { intros s H. apply (Hmono x s so H Hso). }
    exists s. split; [exact Hs|]. split; [exact K1|].
    intros Hc. destruct K2 as [K2|(b' & K2 & ->)].
    - apply Hconfmono. eapply conf_same_proof; eauto.
    - exists b. split; [exact K2|]. rewrite Hchf. apply elem_of_app. right. left. }
  assert (Hconf_tx : forall x, x ∈ txids txs -> relT x -> exists s, states nf !! x = Some s /\ conf nf s).
  { intros x Hx Hrel. apply txids_elem in Hx. destruct Hx as (body & rel & Hin).
    assert (rel = true) by (eapply relT_rel; [exact Hrel|apply Hblk; exact Hin]). subst rel.
    pose proof (Hp2 x body true Hin) as Hp. destruct (bool_decide (x ∈ unc)).
    - destruct (Hev2b _ _ _ _ Hp) as (s & Hps & _ & Hk). exists s.
      split; [apply (x_in _ _ _ _ HE2); right; apply HE2in, Hk|apply (Hnot x s (or_intror Hk))].
    - destruct (Hp eq_refl) as (sf & Hsf). destruct (Hev2b _ _ _ _ Hsf) as (s & Hps & _ & Hk). exists s.
      split; [apply (x_in _ _ _ _ HE2); left; apply HE2in, Hk|apply (Hnot x s (or_introl Hk))]. }
  assert (Hvic : forall x, x ∈ blk_victims (m_pool m) txs -> relT x ->
            exists s, states nf !! x = Some s /\ s_unsafe s = true).
  { intros x Hx Hrel. pose proof Hx as Hx'. apply blk_victims_elem in Hx'.
    destruct Hx' as (y & _ & _ & bc & Hbc & _).
    destruct (vu_poolS _ _ HU x bc Hbc Hrel) as (so & Hso).
    assert (Hu : x ∈ unc) by (apply Hunc_elem; eapply vu_HELD; eauto).
    destruct (Hev1b x Hx Hu) as (s & Hs). destruct (Hcan x s (or_intror Hs)) as (_ & _ & Hus & _).
    exists s. split; [apply (x_in _ _ _ _ HE2); right; apply HE1in, Hs|exact Hus]. }
  assert (Hkeep : forall x u, unconf n !! x = Some u -> u_trusted u = true ->
            (exists u2, unconf nf !! x = Some u2 /\ u_trusted u2 = true) \/
            (exists s, states nf !! x = Some s /\ conf nf s)).
  { intros x u Hu Htr. destruct (decide (x ∈ txids txs)) as [Hx|Hx].
    - right. destruct (Hpend_upd x Hx) as (s & Hs & Hps); [apply Hunc_elem; eauto|].
      exists s. split; [apply (x_in _ _ _ _ HE2); right; apply HE2in, Hs|apply (Hnot x s (or_intror Hs))].
    - left. exists u. split; [apply Hunf; auto|exact Htr]. }
  assert (Hsafe_keep : forall x, x ∈ m_safe m -> x ∉ txids txs -> x ∈ m_safe (notes m1 A)).
  { intros x K1 K2. apply (notes_safe m1 A x Hnd). left. split; [exact K1|].
    intros s H. destruct (HETx x s H) as (_ & body & Htx & _). apply K2, txids_elem. eauto. }
  split.
  - apply (gen_states (fun b' => b' = b) n m nf m1 A HS); [repeat split|exact HE2|exact Hch0f| | |].
    + intros b' ->. lia.
    + intros t s H. destruct (HETx t s H) as (_ & body & Htx & Hnu & Hok' & Hus & Hcs & Hbd & _).
      split; [exists body; apply Hblk; exact Htx|]. split.
      { unfold flags. rewrite Hus, Hcs. split; [destruct (s_safe s); reflexivity|discriminate]. }
      split.
      * intros body' rel' HT'. destruct (T_body _ _ _ _ _ HT' (Hblk _ _ _ Htx)) as [-> _]. split; [exact Hok'|exact Hbd].
      * intros so Hso. apply (Hmono t s so H Hso).
    + intros t s b' H Hp ->. apply Hinb. destruct (Hall t s H) as [H'|H'].
      * exfalso. destruct (Hcan t s H') as (Hn & _). apply Hn. exists b. split; [exact Hp|].
        rewrite Hchf. apply elem_of_app. right. left.
      * apply (Hnot t s H').
  - split.
    + rewrite N5. subst nf. cbn [now set_unconf]. rewrite Hnow2, Hnow1. apply (vu_clock _ _ HU).
    + rewrite N6. subst nf. cbn [insync set_unconf]. rewrite Hsy2, Hsy1. apply (vu_sync _ _ HU).
    + rewrite N7. exact Hm1c.
    + subst nf. cbn [delay set_unconf]. rewrite Hdl2, Hdl1. apply (vu_delay _ _ HU).
    + rewrite N1. subst nf. cbn [mp set_unconf]. rewrite Hmp2. exact HR1.
    + rewrite N1. intros x bx Hin. apply (vu_poolT _ _ HU). eapply blk_pool_sub. exact Hin.
    + rewrite N1. intros x bx Hin Hrel. apply (Ext_some _ _ _ _ x HE2). eapply vu_poolS; [exact HU| |exact Hrel].
      eapply blk_pool_sub. exact Hin.
    + intros x. rewrite (notes_live_rem m1 A x).
      2:{ intros y s H. rewrite Hm1c. apply (Hcnf y s (or_introl H)). apply (HETx y s H). }
      change (m_live m1) with (m_live m). rewrite (vu_L _ _ HU). split.
      * intros [(u & Hu) Hno]. exists u. apply Hunf. split; [exact Hu|]. intros Hx.
        destruct (Hpend_upd x Hx) as (s & Hs & Hps); [apply Hunc_elem; eauto|].
        apply Hno. exists s. split; [right; apply HE2in, Hs|]. rewrite Hm1c.
        apply (Hcnf x s (or_intror (HE2in _ Hs))). right. exact Hs.
      * intros (u & Hu). apply Hunf in Hu. destruct Hu as [Hu Hx]. split; [eauto|].
        intros (s & Hs & Hus). rewrite Hm1c in Hus. apply (Hcnf x s Hs) in Hus.
        destruct (Hnot x s Hus) as (_ & _ & _ & Hx' & _). contradiction.
    + intros x (u & Hu). apply Hunf in Hu. destruct Hu as [Hu Hx].
      destruct (vu_US _ _ HU x) as (so & Hso & Hpo); [eauto|].
      destruct (Hstick x so Hso) as (s & Hs & _). exists s. split; [exact Hs|].
      destruct (Ext_back _ _ _ _ x s HE2 Hs) as [H|[_ H]].
      * destruct (Hall x s H) as [H'|H'].
        -- apply (Hcan x s H').
        -- destruct (Hnot x s H') as (_ & _ & _ & Hx' & _). contradiction.
      * assert (s = so) by congruence. subst s. intros (b' & Hb' & Hc). rewrite Hchf in Hc.
        apply elem_of_app in Hc. destruct Hc as [Hc|Hc]; [apply Hpo; exists b'; auto|].
        apply elem_of_list_singleton in Hc. subst b'. apply Hx. eapply Hpb; eauto.
    + intros x s Hs Hp. destruct (Ext_back _ _ _ _ x s HE2 Hs) as [H|[Hk H]].
      * destruct (Hall x s H) as [H'|H'].
        -- destruct (Hcan x s H') as (_ & _ & _ & _ & _ & Hu & Hx & _).
           apply Hunc_elem in Hu. destruct Hu as (u & Hu). exists u. apply Hunf. auto.
        -- destruct (Hnot x s H') as (Hps & _). congruence.
      * destruct (vu_SU _ _ HU x s H Hp) as (u & Hu). exists u. apply Hunf. split; [exact Hu|].
        intros Hx. destruct (Hpend_upd x Hx) as (s' & Hs' & _); [apply Hunc_elem; eauto|].
        apply Hk, tkeys_elem. exists s'. right. apply HE2in, Hs'.
    + intros x u Hu. apply Hunf in Hu. destruct Hu as [Hu Hx].
      rewrite notes_seen_old; [rewrite (lookup_seen_ext m m1) by reflexivity; eapply vu_SEEN; eauto|].
      intros s H. rewrite Hm1c. apply (Hcnf x s (or_introl H)). apply (HETx x s H).
    + intros x u Hin Hu. apply Hunf in Hu. destruct Hu as [Hu Hx].
      apply (notes_safe m1 A x Hnd) in Hin. change (m_safe m1) with (m_safe m) in Hin.
      destruct Hin as [[Hin _]|(s & Hs & Hss)]; [eapply vu_SAFE1; eauto|]. exfalso.
      apply andb_true_iff in Hss. destruct Hss as [Hs1 Hs2]. destruct (Hall x s Hs) as [H'|H'].
      * destruct (Hcan x s H') as (_ & Hns & _). congruence.
      * destruct (Hnot x s H') as (_ & _ & _ & Hx' & _). contradiction.
    + intros x u Hu Hsafe. apply Hunf in Hu. destruct Hu as [Hu Hx].
      destruct (vu_SAFE2 _ _ HU x u Hu Hsafe) as [H|H];
        [left; apply Hsafe_keep; assumption|right; apply notes_unsafe_mono, H].
    + intros x u s Hu Hs Hsafe. apply Hunf in Hu. destruct Hu as [Hu Hx].
      apply Hsafe_keep; [|exact Hx].
      destruct (Ext_back _ _ _ _ x s HE2 Hs) as [H|[_ H]].
      * exfalso. destruct (Hall x s H) as [H'|H'].
        -- destruct (Hcan x s H') as (_ & Hns & _). congruence.
        -- destruct (Hnot x s H') as (_ & _ & _ & Hx' & _). contradiction.
      * eapply vu_SAFE3; eauto.
    + rewrite N2. intros x u Hu Htr. apply Hunf in Hu. destruct Hu as [Hu Hx].
      apply (vu_VCH _ _ HU x u Hu Htr).
    + rewrite N2. intros x H. apply (vu_VCH2 _ _ HU). subst nf. cbn [mp set_unconf] in H. rewrite Hmp2 in H.
      apply (Htrust x), H.
    + rewrite N8. intros x Hin.
      destruct (vu_VNOW _ _ HU x Hin) as [H|[(u & Hu & H)|[(s & Hs & H)|H]]].
      * destruct (proj2 (Htrust x) H) as [K|[K|K]].
        -- left. subst nf. cbn [mp set_unconf]. rewrite Hmp2. exact K.
        -- pose proof K as K'. apply txids_elem in K'. destruct K' as (body & rel & Hbin). destruct rel.
           ++ right. right. left. destruct (Hconf_tx x K) as (s & Hs & Hps); [exists body; apply Hblk, Hbin|].
              exists s. auto.
           ++ right. right. right. intros (body' & Hb'). destruct (T_body _ _ _ _ _ Hb' (Hblk _ _ _ Hbin)) as [_ Hc].
              discriminate.
        -- pose proof K as K'. apply blk_victims_elem in K'. destruct K' as (y & _ & _ & bc & Hbc & _).
           destruct (vu_poolT _ _ HU x bc Hbc) as (rel & HTx). destruct rel.
           ++ right. right. left. destruct (Hvic x K) as (s & Hs & Hd); [exists bc; exact HTx|].
              exists s. split; [exact Hs|]. auto.
           ++ right. right. right. intros (body' & Hb'). destruct (T_body _ _ _ _ _ Hb' HTx) as [_ Hc].
              discriminate.
      * destruct (Hkeep x u Hu H) as [K|(s & Hs & Hps)]; [right; left; exact K|].
        right. right. left. exists s. auto.
      * right. right. left. destruct (Hstick x s Hs) as (s' & Hs' & K1 & K2).
        exists s'. split; [exact Hs'|]. destruct H; auto.
      * right. right. right. exact H.
    + rewrite N9. intros x Hin. destruct (vu_VPER _ _ HU x Hin) as [(u & Hu & H)|(s & Hs & H)].
      * apply (Hkeep x u Hu H).
      * right. destruct (Hstick x s Hs) as (s' & Hs' & K1 & K2). eauto.
    + intros x u Hu Hun. apply Hunf in Hu. destruct Hu as [Hu Hx].
      apply notes_unsafe_mono. apply (vu_UUNS _ _ HU x u Hu Hun).
    + rewrite N3. intros x Hin Hrel. unfold m1 in Hin. cbn [m_conflicted] in Hin. apply Hcf in Hin.
      destruct Hin as [Hin|Hin]; [|apply Hvic; assumption].
      destruct (vu_CONF _ _ HU x Hin Hrel) as (s & Hs & H).
      destruct (Hstick x s Hs) as (s' & Hs' & K1 & K2). exists s'. split; [exact Hs'|]. auto.
    + rewrite N1. intros x bx s Hin Hs.
      pose proof (blk_pool_not_tx _ _ _ Hin) as Hx. cbn [fst] in Hx.
      pose proof (blk_pool_elem_not_victim _ _ _ Hin) as Hxv. cbn [fst] in Hxv.
      assert (Hs0 : states n !! x = Some s).
      { apply (Hsame x s Hs Hx). intros s' H'. destruct (Hcan x s' H') as (_ & _ & _ & _ & Hv' & _). contradiction. }
      destruct (vu_HELD _ _ HU x bx s (blk_pool_sub _ _ _ Hin) Hs0) as (u & Hu).
      exists u. apply Hunf. auto.
    + intros x u Hu. apply Hunf in Hu. destruct Hu as [Hu Hx].
      destruct (vu_BODY _ _ HU x u Hu) as (so & Hso & Hb).
      destruct (Hstick x so Hso) as (s & Hs & _). exists s. split; [exact Hs|].
      unfold lookup_body. rewrite N10. change (m_body m1) with (m_body m). fold (lookup_body m x). rewrite Hb. f_equal.
      destruct (Ext_back _ _ _ _ x s HE2 Hs) as [[H|H]|[_ H]].
      * destruct (HETx x s H) as (_ & body & Htx & _). destruct Hx. apply txids_elem. eauto.
      * destruct (x_upd _ _ _ _ HE2 x s H) as (so' & Hso' & _ & _ & _ & _ & _ & Kb). congruence.
      * congruence.
    + apply notes_live_NoDup. exact (vu_LND _ _ HU).
Qed.

(* ---------------------------------------------------------------------------------------- *)
(* what the hypothesis on the history says about a block / reorg step *)
Lemma ok_block n o n' b prev txs valid :
  op_ok n o = true -> header_node n o = Some n' -> blk_of o = Some (b, prev, txs, valid) ->
  accepts n' b prev valid = true -> forall t, t ∈ txids txs -> confirmed n' t = false.
Proof.
  intros Hok Hh Hb Ha t Ht. unfold op_ok in Hok.
  assert (Hok' : (if accepts n' b prev valid then forallb (fun x : btx => negb (confirmed n' (fst (fst x)))) txs else true) = true).
  { destruct o; cbn in Hb; inversion Hb; subst; rewrite Hh in Hok; exact Hok. }
  rewrite Ha in Hok'. rewrite forallb_elem in Hok'. apply elem_of_list_fmap in Ht.
  destruct Ht as (x & -> & Hx). apply negb_true_iff, (Hok' x Hx).
Qed.

(* ---------------------------------------------------------------------------------------- *)
(* a block *)
Lemma step_block n m b prev txs valid : Inv n m -> OBlock b prev txs valid ∈ all ->
  op_ok n (OBlock b prev txs valid) = true ->
  exists m', monitor_step dl m (OBlock b prev txs valid) (snd (step n (OBlock b prev txs valid))) = (0, m') /\
             Inv (fst (step n (OBlock b prev txs valid))) m'.
Proof.
  intros HI Ho Hok.
  pose proof (ok_block n (OBlock b prev txs valid) n b prev txs valid Hok eq_refl eq_refl) as H1.
  cbn [step].
  destruct (accepts n b prev valid) eqn:Ea.
  - pose proof (block_accept n m (OBlock b prev txs valid) b prev txs valid HI (or_introl eq_refl) Ho Ea (H1 eq_refl)) as H.
    cbv zeta in H. destruct (process_block n b prev txs valid) as [n1 ob]. cbn [fst snd] in *.
    destruct H as (evs & m1 & -> & Hbad & Hbs & HI').
    rewrite monitor_step_events by (try reflexivity; discriminate). cbv zeta. rewrite Hbad. cbn [Z.eqb negb].
    rewrite Z.eqb_refl, Hbs. fold (notes m1 evs). eexists. split; [reflexivity|exact HI'].
  - rewrite (block_refuse n b prev txs valid Ea). cbn [fst snd]. change [ERR] with (ERR :: enc_events []).
    rewrite monitor_step_events by (try reflexivity; discriminate). cbn.
    exists m. split; [reflexivity|exact HI].
Qed.

(* ---------------------------------------------------------------------------------------- *)
(* a header through the headers handler (reorganisation), then its block *)
Lemma step_reorg n m b prev txs valid : Inv n m -> OReorg b prev txs valid ∈ all ->
  op_ok n (OReorg b prev txs valid) = true ->
  exists m', monitor_step dl m (OReorg b prev txs valid) (snd (step n (OReorg b prev txs valid))) = (0, m') /\
             Inv (fst (step n (OReorg b prev txs valid))) m'.
Proof.
  intros HI Ho Hok. set (o := OReorg b prev txs valid) in *.
  pose proof (fun n' => ok_block n o n' b prev txs valid Hok) as Hblk.
  pose proof (vu_chain _ _ (proj2 HI)) as Hmc.
  (* the block is processed on node n0 / bookkeeping m0 *)
  assert (Hproc : forall n0 m0, Inv n0 m0 -> header_node n o = Some n0 ->
            header_step m b prev = (m0, true) ->
            (snd (step n o) = reorg_obs (fst (process_block n0 b prev txs valid)) (snd (process_block n0 b prev txs valid))) ->
            fst (step n o) = fst (process_block n0 b prev txs valid) ->
            exists m', monitor_step dl m o (snd (step n o)) = (0, m') /\ Inv (fst (step n o)) m').
  { intros n0 m0 HI0 Hh Hhs Hsnd Hfst. pose proof (Hblk n0 Hh eq_refl) as H1.
    rewrite Hfst. rewrite Hsnd.
    destruct (accepts n0 b prev valid) eqn:Ea.
    - pose proof (block_accept n0 m0 o b prev txs valid HI0 (or_intror eq_refl) Ho Ea (H1 eq_refl)) as H.
      cbv zeta in H. destruct (process_block n0 b prev txs valid) as [n1 ob]. cbn [fst snd] in *.
      destruct H as (evs & m1 & -> & Hbad & Hbs & HI').
      cbn [reorg_obs]. unfold o. rewrite monitor_step_reorg, Hhs. cbv zeta. fold o. rewrite Hbad. cbn [Z.eqb negb].
      rewrite Z.eqb_refl, Hbs. fold (notes m1 evs). eexists. split; [reflexivity|exact HI'].
    - rewrite (block_refuse n0 b prev txs valid Ea). cbn [fst snd reorg_obs].
      change (@nil Z) with (enc_events []). unfold o. rewrite monitor_step_reorg, Hhs. cbn.
      exists m0. split; [reflexivity|exact HI0]. }
  (* the header is not followed *)
  assert (Hskip : forall n1 m0, Inv n1 m0 -> header_step m b prev = (m0, false) ->
            step n o = (n1, reorg_obs n1 [ERR]) ->
            exists m', monitor_step dl m o (snd (step n o)) = (0, m') /\ Inv (fst (step n o)) m').
  { intros n1 m0 HI1 Hhs Hst. rewrite Hst. cbn [fst snd reorg_obs]. change (@nil Z) with (enc_events []).
    unfold o. rewrite monitor_step_reorg, Hhs. cbn. exists m0. split; [reflexivity|exact HI1]. }
  unfold o in Hproc, Hskip |- *. cbn [step header_node] in Hproc, Hskip |- *.
  unfold process_reorg in Hproc, Hskip |- *.
  unfold header_step in Hproc, Hskip. rewrite Hmc in Hproc, Hskip. unfold in_chain in Hproc, Hskip |- *.
  destruct (b =? default (-99) (last (chain n))) eqn:E1.
  { eapply Hskip; [|reflexivity|reflexivity]. apply Inv_setsync, HI. }
  destruct (prev =? default (-99) (last (chain n))) eqn:E2.
  { apply (Hproc n m HI eq_refl eq_refl).
    - destruct (process_block n b prev txs valid); reflexivity.
    - destruct (process_block n b prev txs valid); reflexivity. }
  destruct (mem b (chain n)) eqn:E3.
  { eapply Hskip; [|reflexivity|reflexivity]. exact HI. }
  destruct (mem prev (chain n)) eqn:E4.
  { apply (Hproc (revert n prev) (revert_ms m prev)); [apply Inv_revert; assumption|reflexivity|reflexivity| |].
    - destruct (process_block (revert n prev) b prev txs valid); reflexivity.
    - destruct (process_block (revert n prev) b prev txs valid); reflexivity. }
  eapply Hskip; [|reflexivity|reflexivity]. apply Inv_setsync, HI.
Qed.

End Flow.
