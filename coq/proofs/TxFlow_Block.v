(* Proofs for the transaction pipeline monitors, part 2b: further facts about ProcessBlock used by
   the simulation step for blocks (trusted flags of the mempool, block well-formedness, counting
   of cancel notifications). *)
From V.lib Require Import Base.
From V.model Require Import MemPool MemPoolSpec TxFlow TxFlowSpec.
From V.proofs Require Import MemPool_Proofs TxFlow_Base TxFlow_Model.

(* ---------------------------------------------------------------------------------------- *)
(* transactions of one block *)
Lemma pd_spec txs : pairwise_disjoint txs = true ->
  NoDup (txids txs) /\
  forall x y, x ∈ txs -> y ∈ txs -> fst (fst x) <> fst (fst y) -> ~ shares (snd (fst x)) (snd (fst y)).
Proof.
  induction txs as [|[[t body] rel] txs IH]; intros H.
  - split; [constructor|]. intros x y Hx. apply elem_of_nil in Hx. destruct Hx.
  - cbn [pairwise_disjoint] in H. apply andb_true_iff in H. destruct H as [H1 H2].
    destruct (IH H2) as [IH1 IH2]. rewrite forallb_elem in H1.
    split.
    + cbn [txids map fst]. apply NoDup_cons. split; [|exact IH1].
      intros Hin. apply elem_of_list_fmap in Hin. destruct Hin as (y & Hy & Hin).
      specialize (H1 y Hin). apply andb_true_iff in H1. destruct H1 as [H1 _].
      apply negb_true_iff, Z.eqb_neq in H1. congruence.
    + intros x y Hx Hy Hne. apply elem_of_cons in Hx. apply elem_of_cons in Hy.
      destruct Hx as [->|Hx], Hy as [->|Hy].
      * congruence.
      * specialize (H1 y Hy). apply andb_true_iff in H1. destruct H1 as [_ H1].
        apply negb_true_iff in H1. cbn [fst snd]. intros Hs. apply shares_b_iff in Hs. congruence.
      * specialize (H1 x Hx). apply andb_true_iff in H1. destruct H1 as [_ H1].
        apply negb_true_iff in H1. cbn [fst snd]. intros Hs. apply shares_sym, shares_b_iff in Hs. congruence.
      * apply IH2; assumption.
Qed.

Lemma find_tx (txs : list (Z * list Z * bool)) t body rel :
  NoDup (txids txs) -> (t, body, rel) ∈ txs ->
  find (fun x : Z * list Z * bool => fst (fst x) =? t) txs = Some (t, body, rel).
Proof.
  induction txs as [|[[t' body'] rel'] txs IH]; intros Hnd Hin.
  - apply elem_of_nil in Hin. destruct Hin.
  - cbn [txids map fst] in Hnd. apply NoDup_cons in Hnd. destruct Hnd as [Hni Hnd].
    cbn [find fst]. apply elem_of_cons in Hin. destruct Hin as [Heq|Hin].
    + inversion Heq. subst. rewrite Z.eqb_refl. reflexivity.
    + destruct (t' =? t) eqn:E.
      * apply Z.eqb_eq in E. subst t'. destruct Hni. apply txids_elem. eauto.
      * apply IH; assumption.
Qed.

(* ---------------------------------------------------------------------------------------- *)
(* trusted flags of the mempool along ProcessBlock *)
Lemma rm_trusted s t x :
  is_trusted (fst (remove_transaction s t)) x = if decide (x = t) then false else is_trusted s x.
Proof.
  unfold remove_transaction, is_trusted. destruct (txs s !! t) as [m0|] eqn:Em; cbn [fst txs].
  - destruct (decide (x = t)) as [->|Hne]; [rewrite lookup_delete; reflexivity|].
    rewrite lookup_delete_ne by congruence. reflexivity.
  - destruct (decide (x = t)) as [->|Hne]; [rewrite Em; reflexivity|reflexivity].
Qed.

Lemma cf_inner_trusted l : forall s acc x,
  is_trusted (fst (fold_left cf_inner l (s, acc))) x = if bool_decide (x ∈ l) then false else is_trusted s x.
Proof.
  induction l as [|t l IH]; intros s acc x.
  - cbn. rewrite bool_decide_eq_false_2 by apply not_elem_of_nil. reflexivity.
  - cbn [fold_left cf_inner]. rewrite IH, rm_trusted.
    destruct (bool_decide (x ∈ l)) eqn:E1.
    + apply bool_decide_eq_true in E1. rewrite bool_decide_eq_true_2 by (right; exact E1). reflexivity.
    + apply bool_decide_eq_false in E1. destruct (decide (x = t)) as [->|Hne].
      * rewrite bool_decide_eq_true_2 by left. reflexivity.
      * rewrite bool_decide_eq_false_2; [reflexivity|]. rewrite elem_of_cons. tauto.
Qed.

Lemma cf_outer_trusted body : forall s acc,
  exists l, snd (fold_left cf_outer body (s, acc)) = acc ++ l /\
    forall x, is_trusted (fst (fold_left cf_outer body (s, acc))) x =
              if bool_decide (x ∈ l) then false else is_trusted s x.
Proof.
  induction body as [|o body IH]; intros s acc.
  - exists []. cbn. rewrite app_nil_r. split; [reflexivity|]. intros x.
    rewrite bool_decide_eq_false_2 by apply not_elem_of_nil. reflexivity.
  - cbn [fold_left].
    assert (H1 : exists l1, snd (cf_outer (s, acc) o) = acc ++ l1 /\
               forall x, is_trusted (fst (cf_outer (s, acc) o)) x =
                         if bool_decide (x ∈ l1) then false else is_trusted s x).
    { cbn [cf_outer]. destruct (inputs s !! o) as [l|].
      - exists l. split.
        + clear. revert s acc. induction l as [|t l IHl]; intros s acc; [cbn; rewrite app_nil_r; reflexivity|].
          cbn [fold_left cf_inner]. rewrite IHl, <- app_assoc. reflexivity.
        + apply cf_inner_trusted.
      - exists []. cbn. rewrite app_nil_r. split; [reflexivity|]. intros x.
        rewrite bool_decide_eq_false_2 by apply not_elem_of_nil. reflexivity. }
    destruct H1 as (l1 & Ha & Ht). destruct (cf_outer (s, acc) o) as [s1 acc1]. cbn [fst snd] in Ha, Ht.
    subst acc1. destruct (IH s1 (acc ++ l1)) as (l2 & Ha2 & Ht2).
    exists (l1 ++ l2). split; [rewrite Ha2, <- app_assoc; reflexivity|].
    intros x. rewrite Ht2, Ht.
    destruct (bool_decide (x ∈ l2)) eqn:E2.
    + apply bool_decide_eq_true in E2. rewrite bool_decide_eq_true_2; [reflexivity|].
      apply elem_of_app. right. exact E2.
    + apply bool_decide_eq_false in E2. destruct (bool_decide (x ∈ l1)) eqn:E1.
      * apply bool_decide_eq_true in E1. rewrite bool_decide_eq_true_2; [reflexivity|].
        apply elem_of_app. left. exact E1.
      * apply bool_decide_eq_false in E1. rewrite bool_decide_eq_false_2; [reflexivity|].
        rewrite elem_of_app. tauto.
Qed.

Lemma conflicting_trusted s body s2 cs : conflicting s body = (s2, cs) ->
  forall x, is_trusted s2 x = if bool_decide (x ∈ cs) then false else is_trusted s x.
Proof.
  rewrite conflicting_unfold. intros H.
  destruct (cf_outer_trusted body s []) as (l & Ha & Ht). rewrite H in Ha, Ht. cbn [fst snd app] in Ha, Ht.
  subst l. exact Ht.
Qed.

Lemma cancel_conflicts_mp t unc cs : forall n safe acc n' safe' acc',
  cancel_conflicts n t unc cs safe acc = Some (n', safe', acc') -> mp n' = mp n.
Proof.
  induction cs as [|c cs IH]; intros n safe acc n' safe' acc' H.
  - cbn in H. inversion H. reflexivity.
  - cbn [cancel_conflicts] in H. destruct (c =? t); [eapply IH; eauto|].
    destruct (mem c unc); [|eapply IH; eauto].
    destruct (states n !! c) as [s|]; [|discriminate].
    apply IH in H. exact H.
Qed.

Lemma block_txs_trusted h : forall txs n unc pending acc p r,
  R (mp n) p ->
  (forall t body rel b', (t, body, rel) ∈ txs -> (t, b') ∈ p -> b' = body) ->
  block_txs n h unc txs pending acc = Some r ->
  forall x, (is_trusted (mp (fst (fst (fst r)))) x = true -> is_trusted (mp n) x = true) /\
            (is_trusted (mp n) x = true ->
             is_trusted (mp (fst (fst (fst r)))) x = true \/ x ∈ txids txs \/ x ∈ blk_victims p txs).
Proof.
  induction txs as [|[[t body] rel] txs IH]; intros n unc pending acc p r HR Hcons Hb x.
  - cbn in Hb. inversion Hb. subst r. cbn. split; auto.
  - cbn [block_txs] in Hb. destruct (remove_one t unc) as [in_unc unc1].
    destruct (blk_tx_model (mp n) p t body rel (insync n) HR) as (s2 & cs & Hcf & HR2 & Hndcs & Hcs & Hheld).
    { intros b' Hb'. eapply Hcons; [left|exact Hb']. }
    set (p' := blk_tx_pool p (t, body, rel)) in *.
    set (s1 := if insync n then fst (remove_transaction (mp n) t) else mp n) in *.
    pose proof (conflicting_trusted _ _ _ _ Hcf) as Hct.
    assert (Hs1a : forall y, is_trusted s1 y = true -> is_trusted (mp n) y = true).
    { intros y. subst s1. destruct (insync n); [|auto]. rewrite rm_trusted.
      destruct (decide (y = t)); [discriminate|auto]. }
    assert (Hs1b : forall y, is_trusted (mp n) y = true -> y <> t -> is_trusted s1 y = true).
    { intros y Hy Hne. subst s1. destruct (insync n); [|exact Hy]. rewrite rm_trusted.
      rewrite decide_False by exact Hne. exact Hy. }
    assert (Hfin : forall n4 pend' acc1, mp n4 = s2 -> block_txs n4 h unc1 txs pend' acc1 = Some r ->
      (is_trusted (mp (fst (fst (fst r)))) x = true -> is_trusted (mp n) x = true) /\
      (is_trusted (mp n) x = true ->
       is_trusted (mp (fst (fst (fst r)))) x = true \/ x ∈ txids ((t, body, rel) :: txs) \/
       x ∈ blk_victims p ((t, body, rel) :: txs))).
    { intros n4 pend' acc1 Hmp4 Hb4.
      destruct (IH n4 unc1 pend' acc1 p' r) with (x := x) as [I1 I2].
      { rewrite Hmp4. exact HR2. }
      { intros t' body' rel' b' Hin Hb'. eapply Hcons; [right; exact Hin|]. eapply blk_tx_pool_sub; eauto. }
      { exact Hb4. }
      rewrite Hmp4 in I1, I2. split.
      - intros H. apply I1 in H. rewrite Hct in H. destruct (bool_decide (x ∈ cs)); [discriminate|].
        apply Hs1a, H.
      - intros H. cbn [txids map fst blk_victims]. fold (txids txs).
        destruct (decide (x = t)) as [->|Hne]; [right; left; left|].
        destruct (decide (x ∈ cs)) as [Hc|Hc].
        + right. right. apply elem_of_app. left. apply Hcs. auto.
        + assert (H2 : is_trusted s2 x = true).
          { rewrite Hct, bool_decide_eq_false_2 by exact Hc. apply Hs1b; assumption. }
          destruct (I2 H2) as [K|[K|K]]; [left; exact K|right; left; right; exact K|].
          right. right. apply elem_of_app. right. exact K. }
    destruct (insync n) eqn:Esync.
    + destruct (remove_transaction (mp n) t) as [m0 bmp] eqn:Erm. cbn [fst snd] in Hcf. cbn [mp set_mp] in Hb.
      subst s1. cbn [fst] in Hcf. rewrite Hcf in Hb.
      destruct (cancel_conflicts (set_mp (set_mp n m0) s2) t unc1 cs true acc) as [[[n3 is_safe] acc1]|] eqn:Ecc;
        [|discriminate].
      apply cancel_conflicts_mp in Ecc. cbn [mp set_mp] in Ecc.
      destruct in_unc; [eapply Hfin; [|exact Hb]; exact Ecc|].
      destruct (negb bmp); [|eapply Hfin; [|exact Hb]; exact Ecc].
      destruct rel; (eapply Hfin; [|exact Hb]).
      * rewrite (proj1 (add_blocktx_fields n3 h t)). exact Ecc.
      * rewrite (proj1 (remove_blocktx_fields n3 h t)). exact Ecc.
    + subst s1. cbn [mp set_mp] in Hb. rewrite Hcf in Hb.
      destruct (cancel_conflicts (set_mp n s2) t unc1 cs true acc) as [[[n3 is_safe] acc1]|] eqn:Ecc;
        [|discriminate].
      apply cancel_conflicts_mp in Ecc. cbn [mp set_mp] in Ecc.
      destruct in_unc; [eapply Hfin; [|exact Hb]; exact Ecc|].
      cbn [negb] in Hb.
      destruct rel; (eapply Hfin; [|exact Hb]).
      * rewrite (proj1 (add_blocktx_fields n3 h t)). exact Ecc.
      * rewrite (proj1 (remove_blocktx_fields n3 h t)). exact Ecc.
Qed.

(* ---------------------------------------------------------------------------------------- *)
(* exactly one cancel notification *)
Lemma count_ev_cons e es f : count_ev (e :: es) f = (if f e then 1 else 0) + count_ev es f.
Proof.
  unfold count_ev. rewrite filter_cons. destruct (f e) eqn:E.
  - rewrite decide_True by reflexivity. unfold zlen. cbn [length]. lia.
  - rewrite decide_False by discriminate. lia.
Qed.

Lemma cancel_pred_true c e : cancel_pred c (ev_of e) = true ->
  exists s, e = EUpdate c s /\ s_cancel s = true /\ s_unsafe s = true.
Proof.
  unfold cancel_pred. destruct e as [t s|t s|h b]; cbn; try discriminate.
  rewrite !andb_true_iff. intros [[Ht Hc] Hu]. apply Z.eqb_eq in Ht. subst t. eauto.
Qed.

Lemma count_cancel_zero c evs : c ∉ tkeys evs -> count_ev (map ev_of evs) (cancel_pred c) = 0.
Proof.
  induction evs as [|e evs IH]; intros Hk; [reflexivity|].
  cbn [map]. rewrite count_ev_cons. change (e :: evs) with ([e] ++ evs) in Hk.
  rewrite tkeys_app, not_elem_of_app in Hk. destruct Hk as [Hk1 Hk2]. rewrite (IH Hk2).
  destruct (cancel_pred c (ev_of e)) eqn:E; [|reflexivity].
  apply cancel_pred_true in E. destruct E as (s & -> & _). destruct Hk1. cbn. left.
Qed.

Lemma count_cancel_one c s evs :
  NoDup (tkeys evs) -> EUpdate c s ∈ evs -> s_cancel s = true -> s_unsafe s = true ->
  count_ev (map ev_of evs) (cancel_pred c) = 1.
Proof.
  induction evs as [|e evs IH]; intros Hnd Hin Hc Hu; [apply elem_of_nil in Hin; destruct Hin|].
  cbn [map]. rewrite count_ev_cons. change (e :: evs) with ([e] ++ evs) in Hnd.
  rewrite tkeys_app in Hnd. apply NoDup_app in Hnd. destruct Hnd as (_ & Hdis & Hnd).
  apply elem_of_cons in Hin. destruct Hin as [<-|Hin].
  - rewrite count_cancel_zero.
    + unfold cancel_pred. cbn. rewrite Z.eqb_refl, Hc, Hu. reflexivity.
    + apply Hdis. cbn. left.
  - rewrite (IH Hnd Hin Hc Hu). destruct (cancel_pred c (ev_of e)) eqn:E; [|reflexivity].
    apply cancel_pred_true in E. destruct E as (s' & -> & _).
    exfalso. apply (Hdis c); [cbn; left|]. apply tkeys_elem. exists s. right. exact Hin.
Qed.

(* ---------------------------------------------------------------------------------------- *)
(* the unconfirmed set after the block *)
Lemma restrict_lookup u keep x v : restrict_unconf u keep !! x = Some v <-> u !! x = Some v /\ x ∈ keep.
Proof. unfold restrict_unconf. rewrite map_filter_lookup_Some. cbn. rewrite mem_elem. reflexivity. Qed.

(* ---------------------------------------------------------------------------------------- *)
(* the monitor's expectations for an accepted block *)
Lemma block_step_ok m b txs e es :
  ((e_kind e =? 3) && (e_t e =? zlen (m_chain m)) && (e_proof e =? b)) = true ->
  (forall c, c ∈ blk_victims (m_pool m) txs -> c ∈ m_live m -> count_ev (e :: es) (cancel_pred c) = 1) ->
  (forall t body rel, (t, body, rel) ∈ txs -> rel = true ->
     (if mem t (m_delivered m) && negb (limbo m t)
      then has_ev (e :: es) (fun e => (e_kind e =? 2) && (e_t e =? t) && (e_proof e =? b) && (e_depth e =? 0))
      else has_ev (e :: es) (fun e => (e_kind e =? 1) && (e_t e =? t) && (e_proof e =? b) && (e_depth e =? 0)))
     = true) ->
  exists cf',
    block_step m b txs (e :: es) =
      (0, MS (blk_pool (m_pool m) txs) (m_delivered m) (m_live m) (m_seen m) (m_vouched m) cf' (m_unsafe m)
             (m_safe m) (m_local m) (m_clock m) (m_insync m) (m_chain m ++ [b]) (m_vnow m) (m_vpersist m)
             (m_proofs m) (m_body m)) /\
    forall x, x ∈ cf' <-> x ∈ m_conflicted m \/ x ∈ blk_victims (m_pool m) txs.
Proof.
  intros Hh Hvic Ht. unfold block_step. rewrite Hh. cbn [negb].
  match goal with |- context [fold_left ?f txs ?i] => set (r := fold_left f txs i) end.
  pose proof (blkF_spec (m_live m) (e :: es) txs 0 (m_pool m) (m_conflicted m)) as Hs. cbv zeta in Hs.
  change (fold_left (blkF (m_live m) (e :: es)) txs (0, m_pool m, m_conflicted m)) with r in Hs.
  clearbody r. destruct r as [[code pool'] cf'].
  cbn [fst snd] in Hs. destruct Hs as (H1 & H2 & H3).
  rewrite (H3 eq_refl Hvic). subst pool'. cbn [Z.eqb negb].
  match goal with |- context [if ?c then 153 else 0] => assert (Hb : c = false) end.
  { apply existsb_false_iff. intros [[t body] rel] Hin. destruct rel; [|reflexivity]. cbn [andb].
    apply negb_false_iff. specialize (Ht t body true Hin eq_refl).
    destruct (mem t (m_delivered m) && negb (limbo m t)); exact Ht. }
  rewrite Hb. exists cf'. split; [reflexivity|exact H2].
Qed.

Lemma add_tx_facts s now t body tr :
  let r := add_transaction s now t body tr in
  (snd (snd r) = true -> snd (fst (snd r)) = tr) /\
  forall t', is_trusted (fst r) t' = if decide (t' = t) then is_trusted s t || tr else is_trusted s t'.
Proof.
  cbv zeta. unfold add_transaction, is_trusted.
  destruct (txs s !! t) as [m0|] eqn:Em.
  - assert (Hm1 : mtrusted (if tr && negb (mtrusted m0) then MTx (mtime m0) (outpoints m0) true else m0)
                  = mtrusted m0 || tr).
    { destruct (mtrusted m0) eqn:E; destruct tr; cbn; rewrite ?E; reflexivity. }
    destruct (negb (zlen (outpoints m0) =? 0)) eqn:Eo.
    + cbn [fst snd txs]. split; [discriminate|]. intros t'.
      destruct (decide (t' = t)) as [->|Hne];
        [rewrite lookup_insert; exact Hm1 | rewrite lookup_insert_ne by congruence; reflexivity].
    + destruct (add_inputs (inputs s) [] t body) as [ins c]. cbn [fst snd txs].
      split; [reflexivity|]. intros t'.
      destruct (decide (t' = t)) as [->|Hne];
        [rewrite lookup_insert; exact Hm1 | rewrite lookup_insert_ne by congruence; reflexivity].
  - destruct (add_inputs (inputs s) [] t body) as [ins c]. cbn [fst snd txs].
    split; [reflexivity|]. intros t'.
    destruct (decide (t' = t)) as [->|Hne];
      [rewrite lookup_insert; reflexivity | rewrite lookup_insert_ne by congruence; reflexivity].
Qed.

(* ---------------------------------------------------------------------------------------- *)
(* load puts the bodies of the tracked transactions back into the mempool *)
Definition reload_entry (f : Z -> option (list Z)) (t : Z) : option (Z * list Z) :=
  match f t with Some b => if zlen b =? 0 then None else Some (t, b) | None => None end.

Lemma reload_spec (f : Z -> option (list Z)) now : forall keys s p,
  NoDup keys -> R s p -> (forall t, t ∈ keys -> held p t = false) -> (forall x, is_trusted s x = false) ->
  let s' := fold_left (fun m t => match f t with Some b => fst (add_transaction m now t b false) | None => m end) keys s in
  R s' (p ++ omap (reload_entry f) keys) /\ (forall x, is_trusted s' x = false).
Proof.
  induction keys as [|t keys IH]; intros s p Hnd HR Hh Htr; cbv zeta; cbn [fold_left].
  - cbn. rewrite app_nil_r. auto.
  - apply NoDup_cons in Hnd. destruct Hnd as [Hni Hnd].
    change (omap (reload_entry f) (t :: keys)) with
      (match reload_entry f t with Some y => y :: omap (reload_entry f) keys | None => omap (reload_entry f) keys end).
    unfold reload_entry at 1.
    destruct (f t) as [b|] eqn:Ef.
    + pose proof (R_add s p now t b false HR) as Hadd. cbv zeta in Hadd. destruct Hadd as [HR1 _].
      unfold ref_step in HR1. rewrite (Hh t) in HR1 by left. cbn [fst] in HR1.
      assert (Htr1 : forall x, is_trusted (fst (add_transaction s now t b false)) x = false).
      { intros x. pose proof (add_tx_facts s now t b false) as Hx. cbv zeta in Hx. rewrite (proj2 Hx x).
        destruct (decide (x = t)); rewrite Htr; reflexivity. }
      destruct (zlen b =? 0) eqn:Ez.
      * apply (IH _ p Hnd HR1); [|exact Htr1]. intros t' Ht'. apply Hh. right. exact Ht'.
      * change ((t, b) :: omap (reload_entry f) keys) with ([(t, b)] ++ omap (reload_entry f) keys).
        rewrite app_assoc. apply (IH _ (p ++ [(t, b)]) Hnd HR1); [|exact Htr1].
        intros t' Ht'. apply held_false. intros b' Hb'. apply elem_of_app in Hb'. destruct Hb' as [Hb'|Hb'].
        -- pose proof (Hh t' (elem_of_list_further _ _ _ Ht')) as Hf. eapply held_false in Hf. apply Hf, Hb'.
        -- apply elem_of_list_singleton in Hb'. inversion Hb'. subst. contradiction.
    + apply (IH s p Hnd HR); [|exact Htr]. intros t' Ht'. apply Hh. right. exact Ht'.
Qed.
