(* Proofs for the transaction pipeline monitors, part 3: the simulation invariant between the
   model's node and the monitor's bookkeeping, and its generic consequences. *)
From V.lib Require Import Base.
From V.model Require Import MemPool MemPoolSpec TxFlow TxFlowSpec.
From V.proofs Require Import MemPool_Proofs TxFlow_Base TxFlow_Model.

Section Flow.
Variable dl : Z.
Variable all : list op.
Hypothesis Hv : valid dl all.

Definition T : list (Z * list Z * bool) := flat_map mentions all.
Definition relT (t : Z) : Prop := exists body, (t, body, true) ∈ T.
Definition inblock (t b : Z) : Prop := exists p txs v, OBlock b p txs v ∈ all /\ t ∈ txids txs.

(* the part that only speaks about stored states and notifications *)
Record InvS (n : node) (m : ms) : Prop := mkInvS {
  vs_chain0 : forall b, b ∈ chain n -> 0 <= b;
  vs_D : forall t, t ∈ m_delivered m <-> is_Some (states n !! t);
  vs_FL : forall t s, states n !! t = Some s -> flags s;
  vs_UNS : forall t, t ∈ m_unsafe m <-> exists s, states n !! t = Some s /\ s_unsafe s = true;
  vs_SAFE3 : forall t s, states n !! t = Some s -> s_safe s = true -> s_proof s = None -> t ∈ m_safe m;
  vs_SAFED : forall t, t ∈ m_safe m -> is_Some (states n !! t);
  vs_REL : forall t, is_Some (states n !! t) -> relT t;
  vs_PRF : forall t s b, states n !! t = Some s -> s_proof s = Some b -> b ∈ chain n /\ inblock t b }.

Record InvU (n : node) (m : ms) : Prop := mkInvU {
  vu_clock : m_clock m = now n;
  vu_sync : m_insync m = insync n;
  vu_chain : m_chain m = chain n;
  vu_delay : delay n = dl;
  vu_R : R (mp n) (m_pool m);
  vu_poolT : forall t b, (t, b) ∈ m_pool m -> exists rel, (t, b, rel) ∈ T;
  vu_poolS : forall t b, (t, b) ∈ m_pool m -> relT t -> is_Some (states n !! t);
  vu_L : forall t, t ∈ m_live m <-> is_Some (unconf n !! t);
  vu_US : forall t, is_Some (unconf n !! t) -> exists s, states n !! t = Some s /\ s_proof s = None;
  vu_SU : forall t s, states n !! t = Some s -> s_proof s = None -> is_Some (unconf n !! t);
  vu_SEEN : forall t u, unconf n !! t = Some u -> lookup_seen m t = Some (u_time u);
  vu_SAFE1 : forall t u, t ∈ m_safe m -> unconf n !! t = Some u -> u_safe u = true;
  vu_SAFE2 : forall t u, unconf n !! t = Some u -> u_safe u = true -> t ∈ m_safe m \/ t ∈ m_unsafe m;
  vu_VCH : forall t u, unconf n !! t = Some u -> u_trusted u = true -> t ∈ m_vouched m;
  vu_VCH2 : forall t, is_trusted (mp n) t = true -> t ∈ m_vouched m;
  vu_VNOW : forall t, t ∈ m_vnow m ->
      is_trusted (mp n) t = true \/ (exists u, unconf n !! t = Some u /\ u_trusted u = true) \/
      (exists s, states n !! t = Some s /\ (s_unsafe s = true \/ is_Some (s_proof s))) \/ ~ relT t;
  vu_VPER : forall t, t ∈ m_vpersist m ->
      (exists u, unconf n !! t = Some u /\ u_trusted u = true) \/
      (exists s, states n !! t = Some s /\ is_Some (s_proof s));
  vu_UUNS : forall t u, unconf n !! t = Some u -> u_unsafe u = true -> t ∈ m_unsafe m;
  vu_CONF : forall t, t ∈ m_conflicted m -> relT t ->
      exists s, states n !! t = Some s /\ (s_unsafe s = true \/ is_Some (s_proof s)) }.

Definition Inv (n : node) (m : ms) : Prop := InvS n m /\ InvU n m.

(* facts about the table of mentions *)
Lemma T_body t b1 r1 b2 r2 : (t, b1, r1) ∈ T -> (t, b2, r2) ∈ T -> b1 = b2 /\ r1 = r2.
Proof. apply (v_cons _ _ Hv). Qed.

Lemma relT_rel t b r : relT t -> (t, b, r) ∈ T -> r = true.
Proof. intros (b' & H') H. destruct (T_body _ _ _ _ _ H' H) as [_ <-]. reflexivity. Qed.

Lemma mentions_T o x : o ∈ all -> x ∈ mentions o -> x ∈ T.
Proof.
  intros Ho Hx. unfold T. apply elem_of_list_In, in_flat_map. exists o.
  split; apply elem_of_list_In; assumption.
Qed.

(* decoded "unconfirmed" = no proof, for proofs that are non-negative block ids *)
Lemma ust_None s : s_proof s = None -> ust s = true.
Proof. unfold ust. intros ->. reflexivity. Qed.

Lemma ust_Some s b : s_proof s = Some b -> 0 <= b -> ust s = false.
Proof. unfold ust. intros -> H. simpl. apply Z.eqb_neq. lia. Qed.

Lemma InvS_ust n m t s : InvS n m -> states n !! t = Some s -> (ust s = true <-> s_proof s = None).
Proof.
  intros HS Hs. split; [|apply ust_None].
  destruct (s_proof s) as [b|] eqn:Ep; [|reflexivity].
  destruct (vs_PRF _ _ HS t s b Hs Ep) as [Hc _]. apply (vs_chain0 _ _ HS) in Hc.
  rewrite (ust_Some s b Ep Hc). discriminate.
Qed.

(* the monitor state before the notifications of a step are noted: only fields that are not
   driven by notifications may differ from the state before the step *)
Definition same_ev (m m1 : ms) : Prop :=
  m_delivered m1 = m_delivered m /\ m_live m1 = m_live m /\ m_seen m1 = m_seen m /\
  m_unsafe m1 = m_unsafe m /\ m_safe m1 = m_safe m.

Lemma same_ev_refl m : same_ev m m.
Proof. repeat split. Qed.

(* ---------------------------------------------------------------------------------------- *)
(* generic preservation of the states part *)
Lemma gen_states (PB : Z -> Prop) n m n' m1 evs :
  InvS n m -> same_ev m m1 ->
  Ext PB (states n) (states n') evs ->
  (forall b, b ∈ chain n -> b ∈ chain n') ->
  (forall b, b ∈ chain n' -> 0 <= b) ->
  (forall t s, ETx t s ∈ evs -> relT t) ->
  (forall t s b, tev_in evs t s -> s_proof s = Some b -> PB b -> b ∈ chain n' /\ inblock t b) ->
  InvS n' (notes m1 evs).
Proof.
  intros HS (E1 & E2 & E3 & E4 & E5) HE Hch Hch0 Hrel Hprf.
  assert (Hdec : forall t, t ∈ tkeys evs \/ t ∉ tkeys evs).
  { intros t. destruct (decide (t ∈ tkeys evs)); auto. }
  assert (Hnew : forall t s, states n' !! t = Some s ->
            (tev_in evs t s) \/ (t ∉ tkeys evs /\ states n !! t = Some s)).
  { intros t s Hs. destruct (Hdec t) as [Hk|Hk].
    - left. apply tkeys_elem in Hk. destruct Hk as (s' & Hk).
      rewrite (x_in _ _ _ _ HE t s' Hk) in Hs. inversion Hs. subst. exact Hk.
    - right. split; [exact Hk|]. rewrite <- (x_out _ _ _ _ HE t Hk). exact Hs. }
  assert (Hfl : forall t s, tev_in evs t s -> flags s).
  { intros t s [H|H].
    - apply (x_new _ _ _ _ HE) in H. tauto.
    - apply (x_upd _ _ _ _ HE) in H. destruct H as (so & Hso & Ht).
      apply Ht. eapply vs_FL; eauto. }
  split.
  - exact Hch0.
  - intros t. rewrite notes_delivered, E1, (vs_D _ _ HS). split.
    + intros [(s & Hs)|(s & Hs)].
      * destruct (Hdec t) as [Hk|Hk].
        -- apply tkeys_elem in Hk. destruct Hk as (s' & Hk). rewrite (x_in _ _ _ _ HE t s' Hk). eauto.
        -- rewrite (x_out _ _ _ _ HE t Hk), Hs. eauto.
      * rewrite (x_in _ _ _ _ HE t s); [eauto|]. left. exact Hs.
    + intros (s & Hs). destruct (Hnew t s Hs) as [[H|H]|[_ H]].
      * right. eauto.
      * left. apply (x_upd _ _ _ _ HE) in H. destruct H as (so & Hso & _). eauto.
      * left. eauto.
  - intros t s Hs. destruct (Hnew t s Hs) as [H|[_ H]]; [eapply Hfl; eauto|eapply vs_FL; eauto].
  - intros t. rewrite notes_unsafe, E4, (vs_UNS _ _ HS). split.
    + intros [(so & Hso & Hu)|(s & Hs & Hu)].
      * destruct (Hdec t) as [Hk|Hk].
        -- apply tkeys_elem in Hk. destruct Hk as (s' & Hk). exists s'.
           split; [apply (x_in _ _ _ _ HE t s' Hk)|].
           destruct Hk as [Hk|Hk].
           ++ apply (x_new _ _ _ _ HE) in Hk. destruct Hk as [Hk _]. congruence.
           ++ apply (x_upd _ _ _ _ HE) in Hk. destruct Hk as (so' & Hso' & Ht).
              assert (so' = so) by congruence. subst so'. destruct Ht as (Ht1 & _). apply Ht1, Hu.
        -- exists so. split; [|exact Hu]. rewrite (x_out _ _ _ _ HE t Hk). exact Hso.
      * exists s. split; [apply (x_in _ _ _ _ HE t s Hs)|].
        apply orb_true_iff in Hu. destruct Hu as [Hu|Hu]; [exact Hu|].
        apply (Hfl t s Hs), Hu.
    + intros (s & Hs & Hu). destruct (Hnew t s Hs) as [H|[_ H]].
      * right. exists s. split; [exact H|]. rewrite Hu. reflexivity.
      * left. eauto.
  - intros t s Hs Hsafe Hp. rewrite notes_safe, E5. destruct (Hnew t s Hs) as [H|[_ H]].
    + right. exists s. split; [exact H|]. rewrite Hsafe, (ust_None s Hp). reflexivity.
    + left. eapply vs_SAFE3; eauto.
  - intros t. rewrite notes_safe, E5. intros [H|(s & Hs & _)].
    + apply (vs_SAFED _ _ HS) in H. destruct H as (so & Hso).
      destruct (Hdec t) as [Hk|Hk].
      * apply tkeys_elem in Hk. destruct Hk as (s' & Hk). rewrite (x_in _ _ _ _ HE t s' Hk). eauto.
      * rewrite (x_out _ _ _ _ HE t Hk), Hso. eauto.
    + rewrite (x_in _ _ _ _ HE t s Hs). eauto.
  - intros t (s & Hs). destruct (Hnew t s Hs) as [[H|H]|[_ H]].
    + eapply Hrel; eauto.
    + apply (x_upd _ _ _ _ HE) in H. destruct H as (so & Hso & _). apply (vs_REL _ _ HS). eauto.
    + apply (vs_REL _ _ HS). eauto.
  - intros t s b Hs Hp. destruct (Hnew t s Hs) as [H|[_ H]].
    + assert (Hpo : (exists so, states n !! t = Some so /\ s_proof so = Some b) \/ PB b).
      { destruct H as [H'|H'].
        - apply (x_new _ _ _ _ HE) in H'. destruct H' as (_ & _ & [Hq|(b' & Hq & Hb')]); [congruence|].
          right. congruence.
        - apply (x_upd _ _ _ _ HE) in H'. destruct H' as (so & Hso & _ & _ & _ & [Hq|(b' & Hq & Hb')]).
          + left. exists so. split; [exact Hso|congruence].
          + right. congruence. }
      destruct Hpo as [(so & Hso & Hq)|HPB].
      * destruct (vs_PRF _ _ HS t so b Hso Hq) as [Hc Hi]. split; [apply Hch, Hc|exact Hi].
      * eapply Hprf; eauto.
    + destruct (vs_PRF _ _ HS t s b H Hp) as [Hc Hi]. split; [apply Hch, Hc|exact Hi].
Qed.

(* ---------------------------------------------------------------------------------------- *)
(* generic part of the checks on every notification *)
Definition op_local_for (o : op) (t : Z) : bool :=
  match o with OTx t' _ _ SLocal => t' =? t | _ => false end.

Lemma gen_checks (PB : Z -> Prop) n m S' o evs :
  InvS n m ->
  Ext PB (states n) S' evs ->
  (forall t s, ETx t s ∈ evs ->
     exists body, op_tx_info o t = Some (body, true) /\ outs_ok body (s_outs s) = true /\
       match o with
       | OTx _ _ _ SLocal => True
       | OTx _ _ _ _ => (s_safe s && ust s) = false
       | _ => True
       end) ->
  (forall t s, EUpdate t s ∈ evs -> s_safe s = true -> ust s = true ->
     t ∉ m_safe m /\
     ((mem t (m_local m) || op_local_for o t) = true \/
      (t ∈ m_vouched m /\ t ∉ m_conflicted m /\
       exists t0, lookup_seen m t = Some t0 /\ dl <= m_clock m - t0))) ->
  first_bad dl m o (map ev_of evs) = 0.
Proof.
  intros HS HE Hnew Hupd. apply first_bad_ok. apply Forall_forall. intros e' He'.
  apply elem_of_list_fmap in He'. destruct He' as (e & -> & He).
  destruct e as [t s|t s|h b].
  - (* new transaction *)
    destruct (x_new _ _ _ _ HE t s He) as (Hnone & [F1 F2] & _).
    destruct (Hnew t s He) as (body & Hinfo & Houts & Hloc).
    unfold check_event. cbn [ev_of e_kind e_safe e_unsafe e_cancel e_t e_outs e_proof].
    cbn [Z.eqb Pos.eqb orb]. rewrite F1.
    destruct (s_cancel s) eqn:Ec; [rewrite (F2 eq_refl)|]; cbn [negb andb].
    + assert (Hnu : mem t (m_unsafe m) = false).
      { apply mem_false. intros Hin. apply (vs_UNS _ _ HS) in Hin. destruct Hin as (so & Hso & _). congruence. }
      rewrite Hnu, andb_false_r, Hinfo. cbn [negb].
      assert (Hnd : mem t (m_delivered m) = false).
      { apply mem_false. intros Hin. apply (vs_D _ _ HS) in Hin. destruct Hin as (so & Hso). congruence. }
      rewrite Hnd, Houts. cbn [negb].
      destruct o as [t' body' rel' src| | | | | | | |]; try reflexivity.
      destruct src; try reflexivity; fold (ust s); rewrite Hloc; reflexivity.
    + assert (Hnu : mem t (m_unsafe m) = false).
      { apply mem_false. intros Hin. apply (vs_UNS _ _ HS) in Hin. destruct Hin as (so & Hso & _). congruence. }
      rewrite Hnu, andb_false_r, Hinfo. cbn [negb].
      assert (Hnd : mem t (m_delivered m) = false).
      { apply mem_false. intros Hin. apply (vs_D _ _ HS) in Hin. destruct Hin as (so & Hso). congruence. }
      rewrite Hnd, Houts. cbn [negb].
      destruct o as [t' body' rel' src| | | | | | | |]; try reflexivity.
      destruct src; try reflexivity; fold (ust s); rewrite Hloc; reflexivity.
  - (* update *)
    destruct (x_upd _ _ _ _ HE t s He) as (so & Hso & Hs1 & Hs2 & Hs3 & _).
    destruct (Hs3 (vs_FL _ _ HS t so Hso)) as [F1 F2].
    unfold check_event. cbn [ev_of e_kind e_safe e_unsafe e_cancel e_t e_outs e_proof].
    cbn [Z.eqb Pos.eqb orb]. rewrite F1.
    assert (Hc2 : (s_cancel s && negb (s_unsafe s)) = false).
    { destruct (s_cancel s); [rewrite (F2 eq_refl)|]; reflexivity. }
    rewrite Hc2.
    assert (H103 : (s_safe s && mem t (m_unsafe m)) = false).
    { destruct (s_safe s) eqn:Es; [|reflexivity]. cbn [andb]. apply mem_false. intros Hin.
      apply (vs_UNS _ _ HS) in Hin. destruct Hin as (so' & Hso' & Hu).
      assert (so' = so) by congruence. subst so'. rewrite (Hs1 Hu) in F1. discriminate. }
    rewrite H103.
    assert (Hd : mem t (m_delivered m) = true).
    { apply mem_elem, (vs_D _ _ HS). eauto. }
    rewrite Hd. cbn [negb]. fold (ust s).
    destruct (s_safe s) eqn:Es; [|reflexivity]. destruct (ust s) eqn:Eu; [|reflexivity]. cbn [andb].
    destruct (Hupd t s He Es Eu) as [Hns Hw].
    apply mem_false in Hns. rewrite Hns.
    fold (op_local_for o t).
    destruct Hw as [Hw|(Hv1 & Hv2 & t0 & Hv3 & Hv4)]; [rewrite Hw; reflexivity|].
    destruct (mem t (m_local m) || op_local_for o t); [reflexivity|].
    apply mem_elem in Hv1. apply mem_false in Hv2. rewrite Hv1, Hv2, Hv3. cbn [negb].
    destruct (m_clock m - t0 <? dl) eqn:El; [|reflexivity]. apply Z.ltb_lt in El. lia.
  - reflexivity.
Qed.

(* ---------------------------------------------------------------------------------------- *)
(* steps without notifications *)
Lemma InvS_frame n m n' m' :
  InvS n m -> states n' = states n -> chain n' = chain n -> same_ev m m' -> InvS n' m'.
Proof.
  intros HS Hst Hch Hev.
  change m' with (notes m' []).
  apply (gen_states (fun _ => False) n m n' m' []); try assumption.
  - rewrite Hst. apply Ext_nil.
  - rewrite Hch. auto.
  - rewrite Hch. apply (vs_chain0 _ _ HS).
  - intros t s H. apply elem_of_nil in H. destruct H.
  - intros t s b H. destruct (tev_in_nil _ _ H).
Qed.

Lemma add_request_trusted s now t tr t' :
  is_trusted (fst (add_request s now t tr)) t' =
  if decide (t' = t) then is_trusted s t || tr else is_trusted s t'.
Proof.
  unfold add_request, is_trusted.
  destruct (txs s !! t) as [m0|] eqn:Em.
  - assert (Hm1 : mtrusted (if tr && negb (mtrusted m0) then MTx (mtime m0) (outpoints m0) true else m0)
                  = mtrusted m0 || tr).
    { destruct (mtrusted m0) eqn:E; destruct tr; cbn; rewrite ?E; reflexivity. }
    destruct (negb (zlen (outpoints m0) =? 0));
      [|destruct (requests s !! t) as [t0|]; [destruct (now - t0 >? REQ_WINDOW)|]];
      cbn [fst txs]; (destruct (decide (t' = t)) as [->|Hne];
        [rewrite lookup_insert; exact Hm1 | rewrite lookup_insert_ne by congruence; reflexivity]).
  - destruct (requests s !! t) as [t0|]; [destruct (now - t0 >? REQ_WINDOW)|];
      cbn [fst txs]; (destruct (decide (t' = t)) as [->|Hne];
        [rewrite lookup_insert; reflexivity | rewrite lookup_insert_ne by congruence; reflexivity]).
Qed.

Lemma step_simple_monitor m o c rest :
  carries_events o = false ->
  monitor_step dl m o (c :: rest) =
  let '(code, m1) :=
    match o with
    | OInv t trusted =>
        (0, if trusted && m_insync m
            then MS (m_pool m) (m_delivered m) (m_live m) (m_seen m) (add_z t (m_vouched m)) (m_conflicted m)
                    (m_unsafe m) (m_safe m) (m_local m) (m_clock m) (m_insync m) (m_chain m)
                    (add_z t (m_vnow m)) (m_vpersist m)
            else m)
    | OAdvance dt => (0, MS (m_pool m) (m_delivered m) (m_live m) (m_seen m) (m_vouched m) (m_conflicted m)
                           (m_unsafe m) (m_safe m) (m_local m) (m_clock m + dt) (m_insync m) (m_chain m)
                           (m_vnow m) (m_vpersist m))
    | OSetInSync b => (0, MS (m_pool m) (m_delivered m) (m_live m) (m_seen m) (m_vouched m) (m_conflicted m)
                            (m_unsafe m) (m_safe m) (m_local m) (m_clock m) b (m_chain m) (m_vnow m) (m_vpersist m))
    | ORestart =>
        (0, MS [] (m_delivered m) (m_live m) (m_seen m) (m_vouched m) (m_conflicted m)
               (m_unsafe m) (m_safe m) (m_local m) (m_clock m) false (m_chain m) (m_vpersist m) (m_vpersist m))
    | OGetTx t => ((if mem t (m_delivered m) && negb (c =? OK) then 171 else 0), m)
    | _ => (0, m)
    end in (code, m1).
Proof.
  intros Hc. unfold monitor_step. rewrite Hc. cbn [hd first_bad fold_left Z.eqb negb].
  destruct o; try discriminate; reflexivity.
Qed.

Lemma step_advance n m dt : Inv n m -> 0 <= dt ->
  exists m', monitor_step dl m (OAdvance dt) [OK] = (0, m') /\
    Inv (Node (mp n) (unconf n) (states n) (blocktxs n) (chain n) (insync n) (now n + dt) (delay n)) m'.
Proof.
  intros [HS HU] Hdt. rewrite step_simple_monitor by reflexivity. eexists. split; [reflexivity|].
  split.
  - eapply InvS_frame; [exact HS|reflexivity|reflexivity|]. repeat split.
  - destruct HU. split; cbn; try assumption. congruence.
Qed.

Lemma step_setsync n m b : Inv n m ->
  exists m', monitor_step dl m (OSetInSync b) [OK] = (0, m') /\
    Inv (Node (mp n) (unconf n) (states n) (blocktxs n) (chain n) b (now n) (delay n)) m'.
Proof.
  intros [HS HU]. rewrite step_simple_monitor by reflexivity. eexists. split; [reflexivity|].
  split.
  - eapply InvS_frame; [exact HS|reflexivity|reflexivity|]. repeat split.
  - destruct HU. split; cbn; try assumption. reflexivity.
Qed.

Lemma step_gettx n m t : Inv n m ->
  exists m', monitor_step dl m (OGetTx t) (match states n !! t with Some _ => [OK; t] | None => [ERR] end)
             = (0, m') /\ Inv n m'.
Proof.
  intros [HS HU]. destruct (states n !! t) as [s|] eqn:Es.
  - rewrite step_simple_monitor by reflexivity. cbn. rewrite andb_false_r.
    exists m. split; [reflexivity|]. split; assumption.
  - rewrite step_simple_monitor by reflexivity.
    replace (mem t (m_delivered m)) with false.
    + exists m. split; [reflexivity|]. split; assumption.
    + symmetry. apply mem_false.
      intros Hin. apply (vs_D _ _ HS) in Hin. rewrite Es in Hin. destruct Hin. discriminate.
Qed.

Lemma step_unconf n m ob : Inv n m ->
  exists m', monitor_step dl m OUnconf ob = (0, m') /\ Inv n m'.
Proof.
  intros HI. unfold monitor_step. cbn [carries_events]. cbn [first_bad fold_left Z.eqb negb].
  exists m. split; [reflexivity|exact HI].
Qed.

Lemma step_restart n m : Inv n m ->
  exists m', monitor_step dl m ORestart [OK] = (0, m') /\ Inv (restart n) m'.
Proof.
  intros [HS HU]. rewrite step_simple_monitor by reflexivity. eexists. split; [reflexivity|].
  split.
  - eapply InvS_frame; [exact HS|reflexivity|reflexivity|]. repeat split.
  - destruct HU. split; cbn; try assumption; try reflexivity.
    + apply R_init.
    + intros t b H. apply elem_of_nil in H. destruct H.
    + intros t b H. apply elem_of_nil in H. destruct H.
    + intros t H. unfold is_trusted in H. cbn in H. rewrite lookup_empty in H. discriminate.
    + intros t Hin. destruct (vu_VPER0 t Hin) as [H|(s & Hs & Hp)]; [auto|].
      right. right. left. exists s. auto.
Qed.

Lemma step_inv n m t trusted : Inv n m ->
  let r := (if insync n || negb trusted then
              let '(m1, (have, req)) := add_request (mp n) (now n) t trusted in
              (set_mp n m1, [OK; b2z req; b2z (negb have && negb req)])
            else (n, [OK; 0; 0])) in
  exists m', monitor_step dl m (OInv t trusted) (snd r) = (0, m') /\ Inv (fst r) m'.
Proof.
  intros [HS HU]. cbv zeta.
  assert (Hmon : forall a b c, monitor_step dl m (OInv t trusted) [a; b; c] =
     (0, if trusted && m_insync m
            then MS (m_pool m) (m_delivered m) (m_live m) (m_seen m) (add_z t (m_vouched m)) (m_conflicted m)
                    (m_unsafe m) (m_safe m) (m_local m) (m_clock m) (m_insync m) (m_chain m)
                    (add_z t (m_vnow m)) (m_vpersist m)
            else m)).
  { intros a b c. rewrite step_simple_monitor by reflexivity. reflexivity. }
  pose proof (vu_sync _ _ HU) as Hsync.
  destruct (insync n || negb trusted) eqn:Eg.
  - pose proof (add_request_view (mp n) (now n) t trusted) as Hview. cbv zeta in Hview.
    pose proof (add_request_trusted (mp n) (now n) t trusted) as Htr.
    destruct (add_request (mp n) (now n) t trusted) as [m1 [have req]]. cbn [fst snd] in *.
    destruct Hview as [Hv1 Hv2].
    rewrite Hmon. eexists. split; [reflexivity|].
    rewrite Hsync.
    assert (HR' : R m1 (m_pool m)) by (apply (R_same_view (mp n)); [apply (vu_R _ _ HU)|exact Hv1|exact Hv2]).
    destruct (trusted && insync n) eqn:Et.
    + apply andb_true_iff in Et. destruct Et as [-> Esy].
      split.
      * eapply InvS_frame; [exact HS|reflexivity|reflexivity|]. repeat split.
      * destruct HU. split; cbn; try assumption; try reflexivity.
        -- intros t' u H1 H2. apply add_z_elem. left. eapply vu_VCH0; eauto.
        -- intros t' H. rewrite Htr in H. apply add_z_elem. destruct (decide (t' = t)); auto.
        -- intros t' H. apply add_z_elem in H. rewrite Htr. destruct (decide (t' = t)) as [->|Hne].
           ++ left. apply orb_true_r.
           ++ destruct H as [H|H]; [|contradiction]. apply vu_VNOW0 in H. exact H.
    + assert (Hsame : forall t', is_trusted m1 t' = true -> is_trusted (mp n) t' = true).
      { intros t'. rewrite Htr. destruct (decide (t' = t)) as [->|Hne]; [|auto].
        destruct trusted; [|rewrite orb_false_r; auto].
        cbn in Et. rewrite Et in Eg. discriminate. }
      assert (Hmono : forall t', is_trusted (mp n) t' = true -> is_trusted m1 t' = true).
      { intros t' H. rewrite Htr. destruct (decide (t' = t)) as [->|Hne]; [rewrite H; reflexivity|exact H]. }
      split.
      * eapply InvS_frame; [exact HS|reflexivity|reflexivity|]. repeat split.
      * destruct HU. split; cbn; try assumption.
        -- intros t' H. apply vu_VCH3, Hsame, H.
        -- intros t' H. destruct (vu_VNOW0 t' H) as [H'|H']; [left; apply Hmono, H'|right; exact H'].
  - apply orb_false_iff in Eg. destruct Eg as [Esy Etr]. apply negb_false_iff in Etr. subst trusted.
    cbn [fst snd]. rewrite Hmon, Hsync, Esy. cbn [andb]. exists m. split; [reflexivity|]. split; assumption.
Qed.

(* ---------------------------------------------------------------------------------------- *)
(* helpers for steps with notifications *)
Lemma Ext_some PB S0 S evs t : Ext PB S0 S evs -> is_Some (S0 !! t) -> is_Some (S !! t).
Proof.
  intros HE (so & Hso). destruct (decide (t ∈ tkeys evs)) as [Hk|Hk].
  - apply tkeys_elem in Hk. destruct Hk as (s & Hk). rewrite (x_in _ _ _ _ HE t s Hk). eauto.
  - rewrite (x_out _ _ _ _ HE t Hk), Hso. eauto.
Qed.

Lemma Ext_sticky PB S0 S evs t so : Ext PB S0 S evs -> S0 !! t = Some so ->
  exists s, S !! t = Some s /\ (s_unsafe so = true -> s_unsafe s = true) /\
            (is_Some (s_proof so) -> is_Some (s_proof s)) /\
            (t ∉ tkeys evs -> s = so).
Proof.
  intros HE Hso. destruct (decide (t ∈ tkeys evs)) as [Hk|Hk].
  - apply tkeys_elem in Hk. destruct Hk as (s & Hk). exists s.
    split; [apply (x_in _ _ _ _ HE t s Hk)|].
    destruct Hk as [Hk|Hk].
    + apply (x_new _ _ _ _ HE) in Hk. destruct Hk as [Hk _]. congruence.
    + assert (Hk' := Hk). apply (x_upd _ _ _ _ HE) in Hk. destruct Hk as (so' & Hso' & H1 & _ & _ & H4).
      assert (so' = so) by congruence. subst so'. split; [exact H1|]. split.
      * intros (b & Hb). destruct H4 as [H4|(b' & H4 & _)]; rewrite H4; eauto.
      * intros Hn. exfalso. apply Hn, tkeys_elem. exists s. right. exact Hk'.
  - exists so. split; [rewrite (x_out _ _ _ _ HE t Hk); exact Hso|]. auto.
Qed.

Lemma Ext_back PB S0 S evs t s : Ext PB S0 S evs -> S !! t = Some s ->
  tev_in evs t s \/ (t ∉ tkeys evs /\ S0 !! t = Some s).
Proof.
  intros HE Hs. destruct (decide (t ∈ tkeys evs)) as [Hk|Hk].
  - left. apply tkeys_elem in Hk. destruct Hk as (s' & Hk).
    rewrite (x_in _ _ _ _ HE t s' Hk) in Hs. inversion Hs. subst. exact Hk.
  - right. split; [exact Hk|]. rewrite <- (x_out _ _ _ _ HE t Hk). exact Hs.
Qed.

Lemma notes_unsafe_mono m evs t : t ∈ m_unsafe m -> t ∈ m_unsafe (notes m evs).
Proof. intros H. apply notes_unsafe. auto. Qed.

Lemma notes_safe_mono m evs t : t ∈ m_safe m -> t ∈ m_safe (notes m evs).
Proof. intros H. apply notes_safe. auto. Qed.

Lemma monitor_step_events m o c evs :
  carries_events o = true ->
  monitor_step dl m o (c :: enc_events evs) =
  let es := map ev_of evs in
  let bad := first_bad dl m o es in
  if negb (bad =? 0) then (bad, m) else
  let '(code, m1) :=
    match o with
    | OTx t body rel s => if c =? OK then tx_step dl m t body rel s es else (198, m)
    | OBlock b prev txs valid =>
        if c =? OK then block_step m b txs es
        else ((if negb (zlen es =? 0) then 154 else 0), m)
    | ODelayCheck => (delay_step dl m es, m)
    | _ => (0, m)
    end in
  (code, fold_left note_event es m1).
Proof.
  intros Hc. unfold monitor_step. rewrite Hc, decode_enc. cbv zeta.
  destruct (negb (first_bad dl m o (map ev_of evs) =? 0)); [reflexivity|].
  destruct o; try discriminate; reflexivity.
Qed.

(* ---------------------------------------------------------------------------------------- *)
(* the delay check *)
Lemma step_delay n m : Inv n m ->
  exists m', monitor_step dl m ODelayCheck (OK :: enc_events (snd (delay_check n))) = (0, m') /\
             Inv (fst (delay_check n)) m'.
Proof.
  intros [HS HU]. rewrite monitor_step_events by reflexivity. cbv zeta.
  unfold delay_check. destruct (insync n) eqn:Esync; cbn [negb].
  2:{ cbn [snd fst map]. cbn [first_bad fold_left Z.eqb negb].
      unfold delay_step. rewrite (vu_sync _ _ HU), Esync. cbn.
      exists m. split; [reflexivity|]. split; assumption. }
  pose proof (delay_loop_spec (fun _ => False) (states n) (now n - delay n) (sorted_keys (unconf n))
                (sorted_keys_NoDup _) n []) as Hspec.
  destruct (delay_loop n (now n - delay n) (sorted_keys (unconf n)) []) as [n' evs0].
  destruct (Hspec n' evs0 eq_refl) as (Hmp & Hmisc & Hunc & HE & evs & Hacc & Hev1 & Hev2).
  { intros c _. apply not_elem_of_nil. }
  { apply Ext_nil. }
  simpl in Hacc. subst evs0. cbn [fst snd]. clear Hspec.
  destruct Hmisc as (Hch & Hsy & Hnow & Hdl).
  set (cutoff := now n - delay n) in *.
  (* facts about a fired key *)
  assert (Hfired : forall x u, unconf n !! x = Some u -> dcond n cutoff x u = true ->
            u_safe u = false /\ u_unsafe u = false /\ dl <= m_clock m - u_time u /\
            x ∈ m_vouched m).
  { intros x u Hu Hd. unfold dcond in Hd. rewrite !andb_true_iff in Hd.
    destruct Hd as [[[H1 H2] H3] H4]. apply negb_true_iff in H1, H2. apply Z.ltb_lt in H3.
    split; [exact H1|]. split; [exact H2|]. split.
    - subst cutoff. rewrite (vu_clock _ _ HU), <- (vu_delay _ _ HU). lia.
    - apply orb_true_iff in H4. destruct H4 as [H4|H4]; [eapply vu_VCH; eauto|eapply vu_VCH2; eauto]. }
  assert (Hkeys : forall x u, unconf n !! x = Some u -> x ∈ sorted_keys (unconf n)).
  { intros x u Hu. apply sorted_keys_elem. eauto. }
  assert (Hnotx : forall t s, ETx t s ∈ evs -> False).
  { intros t s H. destruct (x_new _ _ _ _ HE t s H) as [Hnone _].
    destruct (Hev1 t s (or_introl H)) as (_ & _ & u & so & _ & _ & Hso & _). congruence. }
  assert (Hevp : forall t s, tev_in evs t s -> s_proof s = None /\ s_safe s = true /\ s_unsafe s = false /\
                   exists u so, unconf n !! t = Some u /\ dcond n cutoff t u = true /\
                                states n !! t = Some so /\ s = mk_safe_s so).
  { intros t s H. destruct (Hev1 t s H) as (_ & _ & u & so & Hu & Hd & Hso & Hns & ->).
    destruct (vu_US _ _ HU t) as (so' & Hso' & Hp); [eauto|].
    assert (so' = so) by congruence. subst so'. apply orb_false_iff in Hns.
    split; [exact Hp|]. split; [reflexivity|]. split; [apply Hns|]. eauto 10. }
  (* the checks on the notifications *)
  assert (Hbad : first_bad dl m ODelayCheck (map ev_of evs) = 0).
  { apply (gen_checks (fun _ => False) n m (states n')); [exact HS|exact HE| |].
    - intros t s H. destruct (Hnotx t s H).
    - intros t s H Hsafe Hust. destruct (Hevp t s (or_intror H)) as (Hp & _ & _ & u & so & Hu & Hd & Hso & ->).
      destruct (Hfired t u Hu Hd) as (F1 & F2 & F3 & F4).
      split.
      + intros Hin. rewrite (vu_SAFE1 _ _ HU t u Hin Hu) in F1. discriminate.
      + right. split; [exact F4|]. split.
        * intros Hin. destruct (vu_CONF _ _ HU t Hin) as (s' & Hs' & Hc).
          { apply (vs_REL _ _ HS). eauto. }
          assert (s' = so) by congruence. subst s'.
          destruct (Hev1 t _ (or_intror H)) as (_ & _ & u' & so' & _ & _ & Hso' & Hns & Heq).
          assert (so' = so) by congruence. subst so'. apply orb_false_iff in Hns.
          destruct Hc as [Hc|(b & Hc)]; [destruct Hns; congruence|].
          simpl in Hp. congruence.
        * exists (u_time u). split; [eapply vu_SEEN; eauto|exact F3]. }
  rewrite Hbad. cbn [Z.eqb negb].
  (* liveness: everything whose conditions hold is reported *)
  assert (Hstep : delay_step dl m (map ev_of evs) = 0).
  { unfold delay_step. rewrite (vu_sync _ _ HU), Esync. cbn [negb].
    match goal with |- (if ?c then _ else _) = _ => assert (Hc : c = false); [|rewrite Hc; reflexivity] end.
    apply existsb_false_iff. intros t Ht.
    destruct (mem t (m_vnow m)) eqn:C1; [|reflexivity].
    destruct (mem t (m_conflicted m)) eqn:C2; [reflexivity|].
    destruct (mem t (m_unsafe m)) eqn:C3; [reflexivity|].
    destruct (mem t (m_safe m)) eqn:C4; [reflexivity|].
    apply mem_elem in C1. apply mem_false in C2, C3, C4. cbn [negb andb].
    apply (vu_L _ _ HU) in Ht. destruct Ht as (u & Hu).
    rewrite (vu_SEEN _ _ HU t u Hu).
    destruct (m_clock m - u_time u >? dl) eqn:C5; [|reflexivity]. cbn [andb].
    apply negb_false_iff.
    destruct (vu_US _ _ HU t) as (so & Hso & Hp); [eauto|].
    assert (Hnu : s_unsafe so = false).
    { destruct (s_unsafe so) eqn:E; [|reflexivity]. destruct C3. apply (vs_UNS _ _ HS). eauto. }
    assert (Hnc : s_cancel so = false).
    { destruct (s_cancel so) eqn:E; [|reflexivity].
      destruct (vs_FL _ _ HS t so Hso) as [_ F2]. rewrite (F2 E) in Hnu. discriminate. }
    assert (Hd : dcond n cutoff t u = true).
    { unfold dcond. rewrite !andb_true_iff. split; [split; [split|]|].
      - apply negb_true_iff. destruct (u_safe u) eqn:E; [|reflexivity].
        destruct (vu_SAFE2 _ _ HU t u Hu E); contradiction.
      - apply negb_true_iff. destruct (u_unsafe u) eqn:E; [|reflexivity].
        destruct C3. eapply vu_UUNS; eauto.
      - apply Z.ltb_lt. subst cutoff. rewrite <- (vu_clock _ _ HU), (vu_delay _ _ HU). lia.
      - destruct (vu_VNOW _ _ HU t C1) as [H|[(u' & Hu' & H)|[(s & Hs & H)|H]]].
        + rewrite H. apply orb_true_r.
        + assert (u' = u) by congruence. subst u'. rewrite H. reflexivity.
        + assert (s = so) by congruence. subst s. destruct H as [H|(b & H)]; congruence.
        + destruct H. apply (vs_REL _ _ HS). eauto. }
    apply has_ev_map. exists (EUpdate t (mk_safe_s so)). split.
    - apply (Hev2 t u so); [eapply Hkeys; eauto|exact Hu|exact Hd|exact Hso|rewrite Hnu, Hnc; reflexivity].
    - cbn. rewrite Z.eqb_refl. reflexivity. }
  rewrite Hstep. fold (notes m evs). eexists. split; [reflexivity|].
  destruct (notes_frame m evs) as (N1 & N2 & N3 & N4 & N5 & N6 & N7 & N8 & N9). cbv zeta in *.
  assert (Hust : forall y s, tev_in evs y s -> ust s = true).
  { intros y s H. apply ust_None. apply (Hevp y s H). }
  assert (Hdom : forall x, is_Some (unconf n' !! x) <-> is_Some (unconf n !! x)).
  { intros x. rewrite Hunc. unfold delay_unconf. destruct (unconf n !! x) as [u|]; [|reflexivity].
    destruct (_ && _); split; eauto. }
  assert (Hun' : forall x u', unconf n' !! x = Some u' ->
            exists u, unconf n !! x = Some u /\ u_time u' = u_time u /\ u_trusted u' = u_trusted u /\
                      u_unsafe u' = u_unsafe u /\
                      ((u' = u /\ (x ∈ sorted_keys (unconf n) -> dcond n cutoff x u = false)) \/
                       (u' = mk_safe_u u /\ dcond n cutoff x u = true))).
  { intros x u'. rewrite Hunc. unfold delay_unconf. destruct (unconf n !! x) as [u|]; [|discriminate].
    destruct (bool_decide (x ∈ sorted_keys (unconf n))) eqn:Eb; cbn [andb].
    - destruct (dcond n cutoff x u) eqn:Ed; intros [= <-]; exists u; cbn; auto 10.
    - intros [= <-]. exists u. apply bool_decide_eq_false in Eb.
      split; [reflexivity|]. repeat (split; [reflexivity|]). left. split; [reflexivity|]. intros; contradiction. }
  split.
  - apply (gen_states (fun _ => False) n m n' m evs); try assumption.
    + apply same_ev_refl.
    + rewrite Hch. auto.
    + rewrite Hch. apply (vs_chain0 _ _ HS).
    + intros t s H. destruct (Hnotx t s H).
    + intros t s b _ _ [].
  - split.
    + rewrite N5, Hnow. apply (vu_clock _ _ HU).
    + rewrite N6, Hsy. apply (vu_sync _ _ HU).
    + rewrite N7, Hch. apply (vu_chain _ _ HU).
    + rewrite Hdl. apply (vu_delay _ _ HU).
    + rewrite N1, Hmp. apply (vu_R _ _ HU).
    + rewrite N1. apply (vu_poolT _ _ HU).
    + rewrite N1. intros t b Hin Hrel. eapply Ext_some; [exact HE|]. eapply vu_poolS; eauto.
    + intros t. rewrite (notes_live_add m evs t Hust), Hdom, (vu_L _ _ HU). split; [|auto].
      intros [H|(s & H)]; [exact H|]. destruct (Hnotx t s H).
    + intros t Ht. apply Hdom in Ht. destruct (vu_US _ _ HU t Ht) as (so & Hso & Hp).
      destruct (Ext_sticky _ _ _ _ t so HE Hso) as (s & Hs & _ & _ & Hsame).
      exists s. split; [exact Hs|].
      destruct (Ext_back _ _ _ _ t s HE Hs) as [H|[_ H]]; [apply (Hevp t s H)|congruence].
    + intros t s Hs Hp. apply Hdom. destruct (Ext_back _ _ _ _ t s HE Hs) as [H|[_ H]].
      * destruct (Hevp t s H) as (_ & _ & _ & u & _ & Hu & _). eauto.
      * eapply vu_SU; eauto.
    + intros t u' Hu'. destruct (Hun' t u' Hu') as (u & Hu & Ht & _).
      rewrite Ht. rewrite notes_seen_old; [eapply vu_SEEN; eauto|].
      intros s H. destruct (Hnotx t s H).
    + intros t u' Hin Hu'. destruct (Hun' t u' Hu') as (u & Hu & _ & _ & _ & [[-> _]|[-> _]]); [|reflexivity].
      apply notes_safe in Hin. destruct Hin as [Hin|(s & Hs & _)]; [eapply vu_SAFE1; eauto|].
      destruct (Hevp t s Hs) as (_ & _ & _ & u0 & so & Hu0 & Hd0 & _).
      assert (u0 = u) by congruence. subst u0.
      destruct (Hun' t u Hu') as (u1 & Hu1 & _ & _ & _ & [[_ Hc]|[Hc _]]).
      * assert (u1 = u) by congruence. subst u1. rewrite Hc in Hd0; [discriminate|eapply Hkeys; eauto].
      * rewrite Hc. reflexivity.
    + intros t u' Hu' Hsafe. destruct (Hun' t u' Hu') as (u & Hu & _ & _ & _ & [[-> _]|[-> Hd]]).
      * destruct (vu_SAFE2 _ _ HU t u Hu Hsafe) as [H|H];
          [left; apply notes_safe_mono, H|right; apply notes_unsafe_mono, H].
      * destruct (vu_US _ _ HU t) as (so & Hso & Hp); [eauto|].
        destruct (s_unsafe so || s_cancel so) eqn:Eus.
        -- right. apply notes_unsafe_mono, (vs_UNS _ _ HS). exists so. split; [exact Hso|].
           apply orb_true_iff in Eus. destruct Eus as [H|H]; [exact H|].
           apply (vs_FL _ _ HS t so Hso), H.
        -- left. apply notes_safe. right. exists (mk_safe_s so). split.
           ++ right. eapply Hev2; eauto.
           ++ cbn. apply ust_None. exact Hp.
    + rewrite N2. intros t u' Hu' Htr. destruct (Hun' t u' Hu') as (u & Hu & _ & Ht & _).
      rewrite Ht in Htr. eapply vu_VCH; eauto.
    + rewrite N2, Hmp. apply (vu_VCH2 _ _ HU).
    + rewrite N8, Hmp. intros t Hin.
      destruct (vu_VNOW _ _ HU t Hin) as [H|[(u & Hu & H)|[(s & Hs & H)|H]]]; [auto| | |auto].
      * right. left. assert (Hs : is_Some (unconf n' !! t)) by (apply Hdom; eauto).
        destruct Hs as (u' & Hu'). destruct (Hun' t u' Hu') as (u0 & Hu0 & _ & Ht & _).
        exists u'. split; [exact Hu'|]. congruence.
      * right. right. left. destruct (Ext_sticky _ _ _ _ t s HE Hs) as (s' & Hs' & K1 & K2 & _).
        exists s'. split; [exact Hs'|]. destruct H; auto.
    + rewrite N9. intros t Hin. destruct (vu_VPER _ _ HU t Hin) as [(u & Hu & H)|(s & Hs & H)].
      * left. assert (Hs : is_Some (unconf n' !! t)) by (apply Hdom; eauto).
        destruct Hs as (u' & Hu'). destruct (Hun' t u' Hu') as (u0 & Hu0 & _ & Ht & _).
        exists u'. split; [exact Hu'|]. congruence.
      * right. destruct (Ext_sticky _ _ _ _ t s HE Hs) as (s' & Hs' & K1 & K2 & _). eauto.
    + intros t u' Hu' Hun. destruct (Hun' t u' Hu') as (u & Hu & _ & _ & Ht & _).
      rewrite Ht in Hun. apply notes_unsafe_mono. eapply vu_UUNS; eauto.
    + rewrite N3. intros t Hin Hrel. destruct (vu_CONF _ _ HU t Hin Hrel) as (s & Hs & H).
      destruct (Ext_sticky _ _ _ _ t s HE Hs) as (s' & Hs' & K1 & K2 & _).
      exists s'. split; [exact Hs'|]. destruct H; auto.
Qed.

(* ---------------------------------------------------------------------------------------- *)
(* an unconfirmed transaction is processed: what the model does *)
Lemma add_tx_facts s now t body tr :
  let r := add_transaction s now t body tr in
  (snd (snd r) = true -> snd (fst (snd r)) = tr) /\
  forall t', is_trusted (fst r) t' = if decide (t' = t) then is_trusted s t || tr else is_trusted s t'.
Proof.
  cbv zeta. unfold add_transaction, is_trusted.
  destruct (txs s !! t) as [m0|] eqn:Em.
  - assert (Hm1 : mtrusted (if tr && negb (mtrusted m0) then MTx (mtime m0) (outpoints m0) true else m0)
                  = mtrusted m0 || tr).
    { destruct (mtrusted m0) eqn:E; destruct tr; cbn; rewrite ?E; reflexivity. }
    destruct (negb (zlen (outpoints m0) =? 0)) eqn:Eo.
    + cbn [fst snd txs]. split; [discriminate|]. intros t'.
      destruct (decide (t' = t)) as [->|Hne];
        [rewrite lookup_insert; exact Hm1 | rewrite lookup_insert_ne by congruence; reflexivity].
    + destruct (add_inputs (inputs s) [] t body) as [ins c]. cbn [fst snd txs].
      split; [reflexivity|]. intros t'.
      destruct (decide (t' = t)) as [->|Hne];
        [rewrite lookup_insert; exact Hm1 | rewrite lookup_insert_ne by congruence; reflexivity].
  - destruct (add_inputs (inputs s) [] t body) as [ins c]. cbn [fst snd txs].
    split; [reflexivity|]. intros t'.
    destruct (decide (t' = t)) as [->|Hne];
      [rewrite lookup_insert; reflexivity | rewrite lookup_insert_ne by congruence; reflexivity].
Qed.

Definition noF : Z -> Prop := fun _ => False.

(* the outcome for the arriving transaction itself *)
Definition tx_caseA (n n' : node) (evs : list event) (t : Z) (rel : bool) : Prop :=
  unconf n !! t = None /\ unconf n' !! t = None /\ t ∉ tkeys evs /\
  (rel = false \/ exists s b, states n !! t = Some s /\ s_proof s = Some b).

Definition tx_caseB (n n' : node) (evs : list event) (t : Z) (rel tr sf cn : bool) : Prop :=
  exists u u' so,
    unconf n !! t = Some u /\ unconf n' !! t = Some u' /\ states n !! t = Some so /\
    s_proof so = None /\ rel = true /\
    u_time u' = u_time u /\ u_trusted u' = u_trusted u || tr /\ u_safe u' = u_safe u || sf /\
    u_unsafe u' = u_unsafe u || cn /\
    (cn = true -> EUpdate t (mk_unsafe_s so) ∈ evs) /\
    (forall s, tev_in evs t s ->
       (cn = true /\ s = mk_unsafe_s so) \/
       (cn = false /\ sf = true /\ u_safe u = false /\
        (s_safe so || s_unsafe so || s_cancel so) = false /\ s = mk_safe_s so)) /\
    (cn = false -> sf = true -> u_safe u = false ->
     (s_safe so || s_unsafe so || s_cancel so) = false -> EUpdate t (mk_safe_s so) ∈ evs) /\
    (forall s, ETx t s ∉ evs).

Definition tx_caseC (n n' : node) (evs : list event) (t : Z) (body : list Z) (rel tr sf cn : bool) : Prop :=
  unconf n !! t = None /\ states n !! t = None /\ rel = true /\
  unconf n' !! t = Some (UTx (now n) false sf tr) /\
  exists s1, ETx t s1 ∈ evs /\ s_proof s1 = None /\ outs_ok body (s_outs s1) = true /\
             s_safe s1 = sf && negb cn /\ s_unsafe s1 = cn.

Lemma pu_spec n m t body rel tr sf :
  Inv n m -> (t, body, rel) ∈ T -> held (m_pool m) t = false ->
  let p := m_pool m in
  let cfs := conflicts_of p t body in
  let cn := negb (zlen cfs =? 0) in
  exists n' evs,
    process_unconfirmed n t body rel tr sf = (n', evs) /\
    R (mp n') (if zlen body =? 0 then p else p ++ [(t, body)]) /\
    (forall t', is_trusted (mp n') t' = if decide (t' = t) then is_trusted (mp n) t || tr
                                        else is_trusted (mp n) t') /\
    same_misc n n' /\
    Ext noF (states n) (states n') evs /\
    (forall x, x <> t -> unconf n' !! x = if bool_decide (x ∈ cfs) then mk_unsafe_u <$> unconf n !! x
                                          else unconf n !! x) /\
    (tx_caseA n n' evs t rel \/ tx_caseB n n' evs t rel tr sf cn \/ tx_caseC n n' evs t body rel tr sf cn) /\
    (forall x s, tev_in evs x s -> x <> t ->
       x ∈ cfs /\ is_Some (unconf n !! x) /\ EUpdate x s ∈ evs /\ s_unsafe s = true /\ s_safe s = false) /\
    (forall c, c ∈ cfs -> is_Some (unconf n !! c) -> exists s, EUpdate c s ∈ evs /\ s_unsafe s = true) /\
    (forall x s, ETx x s ∈ evs -> x = t).
Proof.
  intros [HS HU] HT Hheld p cfs cn.
  pose proof (R_add (mp n) p (now n) t body tr (vu_R _ _ HU)) as Hadd. cbv zeta in Hadd.
  pose proof (add_tx_facts (mp n) (now n) t body tr) as Hfacts. cbv zeta in Hfacts.
  unfold process_unconfirmed.
  destruct (add_transaction (mp n) (now n) t body tr) as [m1 [[cfs0 tr1] added]].
  cbn [fst snd] in Hadd, Hfacts. destruct Hadd as [HR1 Hobs]. destruct Hfacts as [Htr1 Htrust].
  unfold ref_step in HR1, Hobs. fold p in HR1, Hobs. rewrite Hheld in HR1, Hobs.
  cbn [fst snd] in HR1, Hobs. inversion Hobs as [[Hadded Hcfs]].
  assert (added = true) by (destruct added; [reflexivity|discriminate]). subst added.
  fold cfs in Hcfs. subst cfs0. specialize (Htr1 eq_refl). subst tr1. clear Hobs Hadded.
  cbn [negb]. rewrite orb_diag.
  assert (Hndc : NoDup cfs) by (apply add_returns_conflicts, (R_nodup _ _ (vu_R _ _ HU))).
  assert (Htc : t ∉ cfs).
  { intros Hin. apply conflicts_of_elem in Hin. destruct Hin as [Hne _]. congruence. }
  pose proof (mark_conflicts_spec noF (states n) cfs Hndc (set_mp n m1) []) as Hmark.
  destruct (mark_conflicts (set_mp n m1) cfs []) as [n2 evs1].
  destruct (Hmark n2 evs1 eq_refl) as (Hmp2 & Hmisc2 & Hunc2 & HE2 & evs1' & Hacc & Hev1 & Hev2).
  { intros c _. apply not_elem_of_nil. }
  { apply Ext_nil. }
  simpl in Hacc. subst evs1'. clear Hmark. cbn [mp set_mp unconf states] in *.
  assert (Hu2t : unconf n2 !! t = unconf n !! t).
  { rewrite Hunc2. rewrite bool_decide_eq_false_2 by exact Htc. reflexivity. }
  assert (Htk1 : t ∉ tkeys evs1).
  { intros Hk. apply tkeys_elem in Hk. destruct Hk as (s & Hk). destruct (Hev1 t s Hk) as (H1 & _). contradiction. }
  assert (Hs2t : states n2 !! t = states n !! t) by (apply (x_out _ _ _ _ HE2 t Htk1)).
  assert (Hrelt : is_Some (unconf n !! t) -> rel = true).
  { intros Hu. destruct (vu_US _ _ HU t Hu) as (s & Hs & _).
    apply (relT_rel t body rel); [|exact HT]. apply (vs_REL _ _ HS). eauto. }
  assert (HnoETx1 : forall x s, ETx x s ∈ evs1 -> False).
  { intros x s H. destruct (Hev1 x s (or_introl H)) as (_ & Hu & Hup & _).
    destruct (x_new _ _ _ _ HE2 x s H) as [Hnone _].
    destruct (vu_US _ _ HU x Hu) as (so & Hso & _). congruence. }
  (* common parts of the conclusion, for a final node n' that agrees with n2 except at key t *)
  assert (Fin : forall n' evs,
    mp n' = m1 -> same_misc n2 n' -> Ext noF (states n) (states n') evs ->
    (forall x, x <> t -> unconf n' !! x = unconf n2 !! x) ->
    (tx_caseA n n' evs t rel \/ tx_caseB n n' evs t rel tr sf cn \/ tx_caseC n n' evs t body rel tr sf cn) ->
    (exists evt, evs = evs1 ++ evt /\ (forall x s, tev_in evt x s -> x = t)) ->
    R (mp n') (if zlen body =? 0 then p else p ++ [(t, body)]) /\
    (forall t', is_trusted (mp n') t' = if decide (t' = t) then is_trusted (mp n) t || tr
                                        else is_trusted (mp n) t') /\
    same_misc n n' /\
    Ext noF (states n) (states n') evs /\
    (forall x, x <> t -> unconf n' !! x = if bool_decide (x ∈ cfs) then mk_unsafe_u <$> unconf n !! x
                                          else unconf n !! x) /\
    (tx_caseA n n' evs t rel \/ tx_caseB n n' evs t rel tr sf cn \/ tx_caseC n n' evs t body rel tr sf cn) /\
    (forall x s, tev_in evs x s -> x <> t ->
       x ∈ cfs /\ is_Some (unconf n !! x) /\ EUpdate x s ∈ evs /\ s_unsafe s = true /\ s_safe s = false) /\
    (forall c, c ∈ cfs -> is_Some (unconf n !! c) -> exists s, EUpdate c s ∈ evs /\ s_unsafe s = true) /\
    (forall x s, ETx x s ∈ evs -> x = t)).
  { intros n' evs Hmp' Hmisc' HE' Hunc' Hcase (evt & Hevs & Hevt).
    split; [rewrite Hmp'; exact HR1|]. split; [rewrite Hmp'; exact Htrust|].
    split; [eapply same_misc_trans; [|exact Hmisc']; exact Hmisc2|]. split; [exact HE'|].
    split; [intros x Hne; rewrite (Hunc' x Hne); apply Hunc2|]. split; [exact Hcase|].
    split; [|split].
    - intros x s H Hne. subst evs. apply tev_in_app in H. destruct H as [H|H].
      + destruct (Hev1 x s H) as (H1 & H2 & H3 & H4 & H5). split; [exact H1|]. split; [exact H2|].
        split; [apply elem_of_app; left; exact H3|]. auto.
      + destruct Hne. eapply Hevt; eauto.
    - intros c Hc Hu. destruct (vu_US _ _ HU c Hu) as (so & Hso & _).
      destruct (Hev2 c Hc Hu) as (s & H1 & H2); [eauto|].
      exists s. split; [subst evs; apply elem_of_app; left; exact H1|exact H2].
    - intros x s H. subst evs. apply elem_of_app in H. destruct H as [H|H].
      + destruct (HnoETx1 x s H).
      + eapply Hevt. left. exact H. }
  destruct rel.
  2:{ (* not relevant: never tracked *)
    cbn [negb].
    assert (Hnt : unconf n !! t = None).
    { destruct (unconf n !! t) eqn:E; [|reflexivity]. discriminate (Hrelt (ex_intro _ _ eq_refl)). }
    eexists. eexists. split; [reflexivity|].
    apply Fin; try reflexivity.
    - repeat split.
    - exact HE2.
    - intros x Hne. cbn. apply lookup_delete_ne. congruence.
    - left. split; [exact Hnt|]. split; [cbn; apply lookup_delete|]. split; [exact Htk1|]. left. reflexivity.
    - exists []. rewrite app_nil_r. split; [reflexivity|]. intros x s H. destruct (tev_in_nil _ _ H). }
  cbn [negb].
  destruct (unconf n2 !! t) as [u|] eqn:Eu.
  - (* already tracked *)
    rewrite Hu2t in Eu.
    destruct (vu_US _ _ HU t) as (so & Hso & Hpo); [eauto|].
    fold cn.
    set (u1 := UTx (u_time u) (u_unsafe u) (u_safe u || sf) (u_trusted u || tr)).
    destruct cn eqn:Ecn.
    + (* conflict known now: marked unsafe *)
      cbn [states set_unconf]. rewrite Hs2t, Hso.
      eexists. eexists. split; [reflexivity|].
      apply Fin; try reflexivity.
      * repeat split.
      * cbn [states set_states set_unconf].
        apply (Ext_upd noF _ _ evs1 t so); [exact HE2|exact Htk1|rewrite Hs2t; exact Hso|apply trans_mk_unsafe].
      * intros x Hne. cbn. rewrite !lookup_insert_ne by congruence. reflexivity.
      * right. left. exists u, (UTx (u_time u1) true (u_safe u1) (u_trusted u1)), so.
        split; [exact Eu|]. split; [cbn; apply lookup_insert|]. split; [exact Hso|]. split; [exact Hpo|].
        split; [reflexivity|]. cbn. split; [reflexivity|]. split; [reflexivity|]. split; [reflexivity|].
        split; [rewrite orb_true_r; reflexivity|].
        split; [intros _; apply elem_of_app; right; left|].
        split.
        { intros s H. left. split; [reflexivity|]. apply tev_in_app in H. destruct H as [H|H].
          - destruct Htk1. apply tkeys_elem. eauto.
          - apply tev_in_single in H. destruct H as [H|H]; inversion H. reflexivity. }
        split; [discriminate|].
        intros s H. apply elem_of_app in H. destruct H as [H|H]; [eapply HnoETx1; eauto|].
        apply elem_of_list_singleton in H. discriminate.
      * eexists. split; [reflexivity|]. intros x s H. apply tev_in_single in H.
        destruct H as [H|H]; inversion H; reflexivity.
    + destruct (sf && negb (u_safe u)) eqn:Esf.
      * apply andb_true_iff in Esf. destruct Esf as [-> Eus]. apply negb_true_iff in Eus.
        cbn [states set_unconf]. rewrite Hs2t, Hso.
        destruct (s_safe so || s_unsafe so || s_cancel so) eqn:Eflags.
        -- eexists. eexists. split; [reflexivity|].
           apply Fin; try reflexivity.
           ++ repeat split.
           ++ exact HE2.
           ++ intros x Hne. cbn. rewrite lookup_insert_ne by congruence. reflexivity.
           ++ right. left. exists u, u1, so.
              split; [exact Eu|]. split; [cbn; apply lookup_insert|]. split; [exact Hso|]. split; [exact Hpo|].
              split; [reflexivity|]. cbn. split; [reflexivity|]. split; [reflexivity|]. split; [reflexivity|].
              split; [rewrite orb_false_r; reflexivity|]. split; [discriminate|].
              split; [intros s H; destruct Htk1; apply tkeys_elem; eauto|].
              split; [intros _ _ _ H; congruence|].
              intros s H. eapply HnoETx1; eauto.
           ++ exists []. rewrite app_nil_r. split; [reflexivity|]. intros x s H. destruct (tev_in_nil _ _ H).
        -- eexists. eexists. split; [reflexivity|].
           assert (Hns : (s_unsafe so || s_cancel so) = false).
           { apply orb_false_iff in Eflags. destruct Eflags as [Ef1 Ef2]. apply orb_false_iff in Ef1.
             destruct Ef1 as [_ Ef1]. rewrite Ef1, Ef2. reflexivity. }
           apply Fin; try reflexivity.
           ++ repeat split.
           ++ cbn [states set_states set_unconf].
              apply (Ext_upd noF _ _ evs1 t so); [exact HE2|exact Htk1|rewrite Hs2t; exact Hso|].
              apply trans_mk_safe, Hns.
           ++ intros x Hne. cbn. rewrite lookup_insert_ne by congruence. reflexivity.
           ++ right. left. exists u, u1, so.
              split; [exact Eu|]. split; [cbn; apply lookup_insert|]. split; [exact Hso|]. split; [exact Hpo|].
              split; [reflexivity|]. cbn. split; [reflexivity|]. split; [reflexivity|]. split; [reflexivity|].
              split; [rewrite orb_false_r; reflexivity|]. split; [discriminate|].
              split.
              { intros s H. right. apply tev_in_app in H. destruct H as [H|H].
                - destruct Htk1. apply tkeys_elem. eauto.
                - apply tev_in_single in H. destruct H as [H|H]; inversion H. auto 10. }
              split; [intros _ _ _ _; apply elem_of_app; right; left|].
              intros s H. apply elem_of_app in H. destruct H as [H|H]; [eapply HnoETx1; eauto|].
              apply elem_of_list_singleton in H. discriminate.
           ++ eexists. split; [reflexivity|]. intros x s H. apply tev_in_single in H.
              destruct H as [H|H]; inversion H; reflexivity.
      * eexists. eexists. split; [reflexivity|].
        apply Fin; try reflexivity.
        -- repeat split.
        -- exact HE2.
        -- intros x Hne. cbn. rewrite lookup_insert_ne by congruence. reflexivity.
        -- right. left. exists u, u1, so.
           split; [exact Eu|]. split; [cbn; apply lookup_insert|]. split; [exact Hso|]. split; [exact Hpo|].
           split; [reflexivity|]. cbn. split; [reflexivity|]. split; [reflexivity|]. split; [reflexivity|].
           split; [rewrite orb_false_r; reflexivity|]. split; [discriminate|].
           split; [intros s H; destruct Htk1; apply tkeys_elem; eauto|].
           split.
           { intros _ -> Hus. rewrite Hus in Esf. discriminate. }
           intros s H. eapply HnoETx1; eauto.
        -- exists []. rewrite app_nil_r. split; [reflexivity|]. intros x s H. destruct (tev_in_nil _ _ H).
  - (* not tracked *)
    rewrite Hu2t in Eu.
    cbn [states set_unconf now]. rewrite Hs2t.
    destruct (states n !! t) as [s|] eqn:Est.
    + (* delivered earlier and not tracked: confirmed *)
      assert (Hconf : exists b, s_proof s = Some b /\ in_chain (set_unconf n2 (<[t:=UTx (now n2) false sf tr]> (unconf n2))) b = true).
      { destruct (s_proof s) as [b|] eqn:Ep.
        - exists b. split; [reflexivity|]. unfold in_chain. cbn [chain set_unconf].
          destruct Hmisc2 as (Hch & _). cbn [chain set_mp] in Hch. rewrite Hch.
          apply mem_elem. eapply vs_PRF; eauto.
        - destruct (vu_SU _ _ HU t s Est Ep) as (u & Hu). congruence. }
      destruct Hconf as (b & Hpb & Hic). rewrite Hpb, Hic.
      eexists. eexists. split; [reflexivity|].
      apply Fin; try reflexivity.
      * repeat split.
      * exact HE2.
      * intros x Hne. cbn. rewrite lookup_delete_ne, lookup_insert_ne by congruence. reflexivity.
      * left. split; [exact Eu|]. split; [cbn; apply lookup_delete|]. split; [exact Htk1|]. right. eauto.
      * exists []. rewrite app_nil_r. split; [reflexivity|]. intros x s' H. destruct (tev_in_nil _ _ H).
    + (* first seen: delivered now *)
      cbn [s_proof]. fold cn.
      set (nn := set_unconf n2 (<[t:=UTx (now n2) false sf tr]> (unconf n2))).
      set (s1 := if cn then TState false true false 1 None (spent_outputs nn body)
                 else TState (sf || sf) false false 1 None (spent_outputs nn body)).
      assert (Hnow2 : now n2 = now n) by (destruct Hmisc2 as (_ & _ & H & _); exact H).
      exists (set_states nn (<[t:=s1]> (states nn))), (evs1 ++ [ETx t s1]).
      split.
      { subst s1 nn. cbn [s_cancel s_unsafe s_outs s_proof]. destruct cn; reflexivity. }
      apply Fin; try reflexivity.
      * repeat split.
      * cbn [states set_states set_unconf]. subst nn. cbn [states set_unconf].
        apply Ext_new; [exact HE2|exact Htk1|rewrite Hs2t; exact Est| |].
        -- subst s1. unfold flags. destruct cn; cbn; split; try reflexivity; try discriminate.
           rewrite andb_false_r. reflexivity.
        -- left. subst s1. destruct cn; reflexivity.
      * intros x Hne. subst nn. cbn. rewrite lookup_insert_ne by congruence. reflexivity.
      * right. right. split; [exact Eu|]. split; [exact Est|]. split; [reflexivity|].
        split; [subst nn; cbn; rewrite lookup_insert, Hnow2; reflexivity|].
        exists s1. split; [apply elem_of_app; right; left|].
        subst s1. destruct cn; cbn; rewrite ?outs_ok_spent, ?orb_diag, ?andb_true_r, ?andb_false_r; auto.
      * eexists. split; [reflexivity|]. intros x s' H. apply tev_in_single in H.
        destruct H as [H|H]; inversion H; reflexivity.
Qed.

End Flow.
