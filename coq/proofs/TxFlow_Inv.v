(* Proofs for the transaction pipeline monitors, part 3: the simulation invariant between the
   model's node and the monitor's bookkeeping, and its generic consequences. *)
From V.lib Require Import Base.
From V.model Require Import MemPool MemPoolSpec TxFlow TxFlowSpec.
From V.proofs Require Import MemPool_Proofs TxFlow_Base TxFlow_Model TxFlow_Block.

Section Flow.
Variable dl : Z.
Variable all : list op.
Hypothesis Hv : valid dl all.

Definition T : list (Z * list Z * bool) := flat_map mentions all.
Definition relT (t : Z) : Prop := exists body, (t, body, true) ∈ T.
Definition inblock (t b : Z) : Prop := exists p txs v, OBlock b p txs v ∈ all /\ t ∈ txids txs.

(* the part that only speaks about stored states and notifications *)
Record InvS (n : node) (m : ms) : Prop := mkInvS {
  vs_chain0 : forall b, b ∈ chain n -> 0 <= b;
  vs_D : forall t, t ∈ m_delivered m <-> is_Some (states n !! t);
  vs_FL : forall t s, states n !! t = Some s -> flags s;
  vs_UNS : forall t, t ∈ m_unsafe m <-> exists s, states n !! t = Some s /\ s_unsafe s = true;
  vs_SAFE3 : forall t s, states n !! t = Some s -> s_safe s = true -> s_proof s = None -> t ∈ m_safe m;
  vs_SAFED : forall t, t ∈ m_safe m -> is_Some (states n !! t);
  vs_REL : forall t, is_Some (states n !! t) -> relT t;
  vs_PRF : forall t s b, states n !! t = Some s -> s_proof s = Some b -> b ∈ chain n /\ inblock t b }.

Record InvU (n : node) (m : ms) : Prop := mkInvU {
  vu_clock : m_clock m = now n;
  vu_sync : m_insync m = insync n;
  vu_chain : m_chain m = chain n;
  vu_delay : delay n = dl;
  vu_R : R (mp n) (m_pool m);
  vu_poolT : forall t b, (t, b) ∈ m_pool m -> exists rel, (t, b, rel) ∈ T;
  vu_poolS : forall t b, (t, b) ∈ m_pool m -> relT t -> is_Some (states n !! t);
  vu_L : forall t, t ∈ m_live m <-> is_Some (unconf n !! t);
  vu_US : forall t, is_Some (unconf n !! t) -> exists s, states n !! t = Some s /\ s_proof s = None;
  vu_SU : forall t s, states n !! t = Some s -> s_proof s = None -> is_Some (unconf n !! t);
  vu_SEEN : forall t u, unconf n !! t = Some u -> lookup_seen m t = Some (u_time u);
  vu_SAFE1 : forall t u, t ∈ m_safe m -> unconf n !! t = Some u -> u_safe u = true;
  vu_SAFE2 : forall t u, unconf n !! t = Some u -> u_safe u = true -> t ∈ m_safe m \/ t ∈ m_unsafe m;
  vu_VCH : forall t u, unconf n !! t = Some u -> u_trusted u = true -> t ∈ m_vouched m;
  vu_VCH2 : forall t, is_trusted (mp n) t = true -> t ∈ m_vouched m;
  vu_VNOW : forall t, t ∈ m_vnow m ->
      is_trusted (mp n) t = true \/ (exists u, unconf n !! t = Some u /\ u_trusted u = true) \/
      (exists s, states n !! t = Some s /\ (s_unsafe s = true \/ is_Some (s_proof s))) \/ ~ relT t;
  vu_VPER : forall t, t ∈ m_vpersist m ->
      (exists u, unconf n !! t = Some u /\ u_trusted u = true) \/
      (exists s, states n !! t = Some s /\ is_Some (s_proof s));
  vu_UUNS : forall t u, unconf n !! t = Some u -> u_unsafe u = true -> t ∈ m_unsafe m;
  vu_CONF : forall t, t ∈ m_conflicted m -> relT t ->
      exists s, states n !! t = Some s /\ (s_unsafe s = true \/ is_Some (s_proof s)) }.

Definition Inv (n : node) (m : ms) : Prop := InvS n m /\ InvU n m.

(* facts about the table of mentions *)
Lemma T_body t b1 r1 b2 r2 : (t, b1, r1) ∈ T -> (t, b2, r2) ∈ T -> b1 = b2 /\ r1 = r2.
Proof. apply (v_cons _ _ Hv). Qed.

Lemma relT_rel t b r : relT t -> (t, b, r) ∈ T -> r = true.
Proof. intros (b' & H') H. destruct (T_body _ _ _ _ _ H' H) as [_ <-]. reflexivity. Qed.

Lemma mentions_T o x : o ∈ all -> x ∈ mentions o -> x ∈ T.
Proof.
  intros Ho Hx. unfold T. apply elem_of_list_In, in_flat_map. exists o.
  split; apply elem_of_list_In; assumption.
Qed.

(* decoded "unconfirmed" = no proof, for proofs that are non-negative block ids *)
Lemma ust_None s : s_proof s = None -> ust s = true.
Proof. unfold ust. intros ->. reflexivity. Qed.

Lemma ust_Some s b : s_proof s = Some b -> 0 <= b -> ust s = false.
Proof. unfold ust. intros -> H. simpl. apply Z.eqb_neq. lia. Qed.

Lemma InvS_ust n m t s : InvS n m -> states n !! t = Some s -> (ust s = true <-> s_proof s = None).
Proof.
  intros HS Hs. split; [|apply ust_None].
  destruct (s_proof s) as [b|] eqn:Ep; [|reflexivity].
  destruct (vs_PRF _ _ HS t s b Hs Ep) as [Hc _]. apply (vs_chain0 _ _ HS) in Hc.
  rewrite (ust_Some s b Ep Hc). discriminate.
Qed.

(* the monitor state before the notifications of a step are noted: only fields that are not
   driven by notifications may differ from the state before the step *)
Definition same_ev (m m1 : ms) : Prop :=
  m_delivered m1 = m_delivered m /\ m_live m1 = m_live m /\ m_seen m1 = m_seen m /\
  m_unsafe m1 = m_unsafe m /\ m_safe m1 = m_safe m.

Lemma same_ev_refl m : same_ev m m.
Proof. repeat split. Qed.

(* ---------------------------------------------------------------------------------------- *)
(* generic preservation of the states part *)
Lemma gen_states (PB : Z -> Prop) n m n' m1 evs :
  InvS n m -> same_ev m m1 ->
  Ext PB (states n) (states n') evs ->
  (forall b, b ∈ chain n -> b ∈ chain n') ->
  (forall b, b ∈ chain n' -> 0 <= b) ->
  (forall t s, ETx t s ∈ evs -> relT t) ->
  (forall t s b, tev_in evs t s -> s_proof s = Some b -> PB b -> b ∈ chain n' /\ inblock t b) ->
  InvS n' (notes m1 evs).
Proof.
  intros HS (E1 & E2 & E3 & E4 & E5) HE Hch Hch0 Hrel Hprf.
  assert (Hdec : forall t, t ∈ tkeys evs \/ t ∉ tkeys evs).
  { intros t. destruct (decide (t ∈ tkeys evs)); auto. }
  assert (Hnew : forall t s, states n' !! t = Some s ->
            (tev_in evs t s) \/ (t ∉ tkeys evs /\ states n !! t = Some s)).
  { intros t s Hs. destruct (Hdec t) as [Hk|Hk].
    - left. apply tkeys_elem in Hk. destruct Hk as (s' & Hk).
      rewrite (x_in _ _ _ _ HE t s' Hk) in Hs. inversion Hs. subst. exact Hk.
    - right. split; [exact Hk|]. rewrite <- (x_out _ _ _ _ HE t Hk). exact Hs. }
  assert (Hfl : forall t s, tev_in evs t s -> flags s).
  { intros t s [H|H].
    - apply (x_new _ _ _ _ HE) in H. tauto.
    - apply (x_upd _ _ _ _ HE) in H. destruct H as (so & Hso & Ht).
      apply Ht. eapply vs_FL; eauto. }
  split.
  - exact Hch0.
  - intros t. rewrite notes_delivered, E1, (vs_D _ _ HS). split.
    + intros [(s & Hs)|(s & Hs)].
      * destruct (Hdec t) as [Hk|Hk].
        -- apply tkeys_elem in Hk. destruct Hk as (s' & Hk). rewrite (x_in _ _ _ _ HE t s' Hk). eauto.
        -- rewrite (x_out _ _ _ _ HE t Hk), Hs. eauto.
      * rewrite (x_in _ _ _ _ HE t s); [eauto|]. left. exact Hs.
    + intros (s & Hs). destruct (Hnew t s Hs) as [[H|H]|[_ H]].
      * right. eauto.
      * left. apply (x_upd _ _ _ _ HE) in H. destruct H as (so & Hso & _). eauto.
      * left. eauto.
  - intros t s Hs. destruct (Hnew t s Hs) as [H|[_ H]]; [eapply Hfl; eauto|eapply vs_FL; eauto].
  - intros t. rewrite notes_unsafe, E4, (vs_UNS _ _ HS). split.
    + intros [(so & Hso & Hu)|(s & Hs & Hu)].
      * destruct (Hdec t) as [Hk|Hk].
        -- apply tkeys_elem in Hk. destruct Hk as (s' & Hk). exists s'.
           split; [apply (x_in _ _ _ _ HE t s' Hk)|].
           destruct Hk as [Hk|Hk].
           ++ apply (x_new _ _ _ _ HE) in Hk. destruct Hk as [Hk _]. congruence.
           ++ apply (x_upd _ _ _ _ HE) in Hk. destruct Hk as (so' & Hso' & Ht).
              assert (so' = so) by congruence. subst so'. destruct Ht as (Ht1 & _). apply Ht1, Hu.
        -- exists so. split; [|exact Hu]. rewrite (x_out _ _ _ _ HE t Hk). exact Hso.
      * exists s. split; [apply (x_in _ _ _ _ HE t s Hs)|].
        apply orb_true_iff in Hu. destruct Hu as [Hu|Hu]; [exact Hu|].
        apply (Hfl t s Hs), Hu.
    + intros (s & Hs & Hu). destruct (Hnew t s Hs) as [H|[_ H]].
      * right. exists s. split; [exact H|]. rewrite Hu. reflexivity.
      * left. eauto.
  - intros t s Hs Hsafe Hp. rewrite notes_safe, E5. destruct (Hnew t s Hs) as [H|[_ H]].
    + right. exists s. split; [exact H|]. rewrite Hsafe, (ust_None s Hp). reflexivity.
    + left. eapply vs_SAFE3; eauto.
  - intros t. rewrite notes_safe, E5. intros [H|(s & Hs & _)].
    + apply (vs_SAFED _ _ HS) in H. destruct H as (so & Hso).
      destruct (Hdec t) as [Hk|Hk].
      * apply tkeys_elem in Hk. destruct Hk as (s' & Hk). rewrite (x_in _ _ _ _ HE t s' Hk). eauto.
      * rewrite (x_out _ _ _ _ HE t Hk), Hso. eauto.
    + rewrite (x_in _ _ _ _ HE t s Hs). eauto.
  - intros t (s & Hs). destruct (Hnew t s Hs) as [[H|H]|[_ H]].
    + eapply Hrel; eauto.
    + apply (x_upd _ _ _ _ HE) in H. destruct H as (so & Hso & _). apply (vs_REL _ _ HS). eauto.
    + apply (vs_REL _ _ HS). eauto.
  - intros t s b Hs Hp. destruct (Hnew t s Hs) as [H|[_ H]].
    + assert (Hpo : (exists so, states n !! t = Some so /\ s_proof so = Some b) \/ PB b).
      { destruct H as [H'|H'].
        - apply (x_new _ _ _ _ HE) in H'. destruct H' as (_ & _ & [Hq|(b' & Hq & Hb')]); [congruence|].
          right. congruence.
        - apply (x_upd _ _ _ _ HE) in H'. destruct H' as (so & Hso & _ & _ & _ & [Hq|(b' & Hq & Hb')]).
          + left. exists so. split; [exact Hso|congruence].
          + right. congruence. }
      destruct Hpo as [(so & Hso & Hq)|HPB].
      * destruct (vs_PRF _ _ HS t so b Hso Hq) as [Hc Hi]. split; [apply Hch, Hc|exact Hi].
      * eapply Hprf; eauto.
    + destruct (vs_PRF _ _ HS t s b H Hp) as [Hc Hi]. split; [apply Hch, Hc|exact Hi].
Qed.

(* ---------------------------------------------------------------------------------------- *)
(* generic part of the checks on every notification *)
Definition op_local_for (o : op) (t : Z) : bool :=
  match o with OTx t' _ _ SLocal => t' =? t | _ => false end.

Lemma gen_checks (PB : Z -> Prop) n m S' o evs :
  InvS n m ->
  Ext PB (states n) S' evs ->
  (forall t s, ETx t s ∈ evs ->
     exists body, op_tx_info o t = Some (body, true) /\ outs_ok body (s_outs s) = true /\
       match o with
       | OTx _ _ _ SLocal => True
       | OTx _ _ _ _ => (s_safe s && ust s) = false
       | _ => True
       end) ->
  (forall t s, EUpdate t s ∈ evs -> s_safe s = true -> ust s = true ->
     t ∉ m_safe m /\
     ((mem t (m_local m) || op_local_for o t) = true \/
      (t ∈ m_vouched m /\ t ∉ m_conflicted m /\
       exists t0, lookup_seen m t = Some t0 /\ dl <= m_clock m - t0))) ->
  first_bad dl m o (map ev_of evs) = 0.
Proof.
  intros HS HE Hnew Hupd. apply first_bad_ok. apply Forall_forall. intros e' He'.
  apply elem_of_list_fmap in He'. destruct He' as (e & -> & He).
  destruct e as [t s|t s|h b].
  - (* new transaction *)
    destruct (x_new _ _ _ _ HE t s He) as (Hnone & [F1 F2] & _).
    destruct (Hnew t s He) as (body & Hinfo & Houts & Hloc).
    unfold check_event. cbn [ev_of e_kind e_safe e_unsafe e_cancel e_t e_outs e_proof].
    cbn [Z.eqb Pos.eqb orb]. rewrite F1.
    destruct (s_cancel s) eqn:Ec; [rewrite (F2 eq_refl)|]; cbn [negb andb].
    + assert (Hnu : mem t (m_unsafe m) = false).
      { apply mem_false. intros Hin. apply (vs_UNS _ _ HS) in Hin. destruct Hin as (so & Hso & _). congruence. }
      rewrite Hnu, andb_false_r, Hinfo. cbn [negb].
      assert (Hnd : mem t (m_delivered m) = false).
      { apply mem_false. intros Hin. apply (vs_D _ _ HS) in Hin. destruct Hin as (so & Hso). congruence. }
      rewrite Hnd, Houts. cbn [negb].
      destruct o as [t' body' rel' src| | | | | | | |]; try reflexivity.
      destruct src; try reflexivity; fold (ust s); rewrite Hloc; reflexivity.
    + assert (Hnu : mem t (m_unsafe m) = false).
      { apply mem_false. intros Hin. apply (vs_UNS _ _ HS) in Hin. destruct Hin as (so & Hso & _). congruence. }
      rewrite Hnu, andb_false_r, Hinfo. cbn [negb].
      assert (Hnd : mem t (m_delivered m) = false).
      { apply mem_false. intros Hin. apply (vs_D _ _ HS) in Hin. destruct Hin as (so & Hso). congruence. }
      rewrite Hnd, Houts. cbn [negb].
      destruct o as [t' body' rel' src| | | | | | | |]; try reflexivity.
      destruct src; try reflexivity; fold (ust s); rewrite Hloc; reflexivity.
  - (* update *)
    destruct (x_upd _ _ _ _ HE t s He) as (so & Hso & Hs1 & Hs2 & Hs3 & _).
    destruct (Hs3 (vs_FL _ _ HS t so Hso)) as [F1 F2].
    unfold check_event. cbn [ev_of e_kind e_safe e_unsafe e_cancel e_t e_outs e_proof].
    cbn [Z.eqb Pos.eqb orb]. rewrite F1.
    assert (Hc2 : (s_cancel s && negb (s_unsafe s)) = false).
    { destruct (s_cancel s); [rewrite (F2 eq_refl)|]; reflexivity. }
    rewrite Hc2.
    assert (H103 : (s_safe s && mem t (m_unsafe m)) = false).
    { destruct (s_safe s) eqn:Es; [|reflexivity]. cbn [andb]. apply mem_false. intros Hin.
      apply (vs_UNS _ _ HS) in Hin. destruct Hin as (so' & Hso' & Hu).
      assert (so' = so) by congruence. subst so'. rewrite (Hs1 Hu) in F1. discriminate. }
    rewrite H103.
    assert (Hd : mem t (m_delivered m) = true).
    { apply mem_elem, (vs_D _ _ HS). eauto. }
    rewrite Hd. cbn [negb]. fold (ust s).
    destruct (s_safe s) eqn:Es; [|reflexivity]. destruct (ust s) eqn:Eu; [|reflexivity]. cbn [andb].
    destruct (Hupd t s He Es Eu) as [Hns Hw].
    apply mem_false in Hns. rewrite Hns.
    fold (op_local_for o t).
    destruct Hw as [Hw|(Hv1 & Hv2 & t0 & Hv3 & Hv4)]; [rewrite Hw; reflexivity|].
    destruct (mem t (m_local m) || op_local_for o t); [reflexivity|].
    apply mem_elem in Hv1. apply mem_false in Hv2. rewrite Hv1, Hv2, Hv3. cbn [negb].
    destruct (m_clock m - t0 <? dl) eqn:El; [|reflexivity]. apply Z.ltb_lt in El. lia.
  - reflexivity.
Qed.

(* ---------------------------------------------------------------------------------------- *)
(* steps without notifications *)
Lemma InvS_frame n m n' m' :
  InvS n m -> states n' = states n -> chain n' = chain n -> same_ev m m' -> InvS n' m'.
Proof.
  intros HS Hst Hch Hev.
  change m' with (notes m' []).
  apply (gen_states (fun _ => False) n m n' m' []); try assumption.
  - rewrite Hst. apply Ext_nil.
  - rewrite Hch. auto.
  - rewrite Hch. apply (vs_chain0 _ _ HS).
  - intros t s H. apply elem_of_nil in H. destruct H.
  - intros t s b H. destruct (tev_in_nil _ _ H).
Qed.

Lemma add_request_trusted s now t tr t' :
  is_trusted (fst (add_request s now t tr)) t' =
  if decide (t' = t) then is_trusted s t || tr else is_trusted s t'.
Proof.
  unfold add_request, is_trusted.
  destruct (txs s !! t) as [m0|] eqn:Em.
  - assert (Hm1 : mtrusted (if tr && negb (mtrusted m0) then MTx (mtime m0) (outpoints m0) true else m0)
                  = mtrusted m0 || tr).
    { destruct (mtrusted m0) eqn:E; destruct tr; cbn; rewrite ?E; reflexivity. }
    destruct (negb (zlen (outpoints m0) =? 0));
      [|destruct (requests s !! t) as [t0|]; [destruct (now - t0 >? REQ_WINDOW)|]];
      cbn [fst txs]; (destruct (decide (t' = t)) as [->|Hne];
        [rewrite lookup_insert; exact Hm1 | rewrite lookup_insert_ne by congruence; reflexivity]).
  - destruct (requests s !! t) as [t0|]; [destruct (now - t0 >? REQ_WINDOW)|];
      cbn [fst txs]; (destruct (decide (t' = t)) as [->|Hne];
        [rewrite lookup_insert; reflexivity | rewrite lookup_insert_ne by congruence; reflexivity]).
Qed.

Lemma step_simple_monitor m o c rest :
  carries_events o = false ->
  monitor_step dl m o (c :: rest) =
  let '(code, m1) :=
    match o with
    | OInv t trusted =>
        (0, if trusted && m_insync m
            then MS (m_pool m) (m_delivered m) (m_live m) (m_seen m) (add_z t (m_vouched m)) (m_conflicted m)
                    (m_unsafe m) (m_safe m) (m_local m) (m_clock m) (m_insync m) (m_chain m)
                    (add_z t (m_vnow m)) (m_vpersist m)
            else m)
    | OAdvance dt => (0, MS (m_pool m) (m_delivered m) (m_live m) (m_seen m) (m_vouched m) (m_conflicted m)
                           (m_unsafe m) (m_safe m) (m_local m) (m_clock m + dt) (m_insync m) (m_chain m)
                           (m_vnow m) (m_vpersist m))
    | OSetInSync b => (0, MS (m_pool m) (m_delivered m) (m_live m) (m_seen m) (m_vouched m) (m_conflicted m)
                            (m_unsafe m) (m_safe m) (m_local m) (m_clock m) b (m_chain m) (m_vnow m) (m_vpersist m))
    | ORestart =>
        (0, MS [] (m_delivered m) (m_live m) (m_seen m) (m_vouched m) (m_conflicted m)
               (m_unsafe m) (m_safe m) (m_local m) (m_clock m) false (m_chain m) (m_vpersist m) (m_vpersist m))
    | OGetTx t => ((if mem t (m_delivered m) && negb (c =? OK) then 171 else 0), m)
    | _ => (0, m)
    end in (code, m1).
Proof.
  intros Hc. unfold monitor_step. rewrite Hc. cbn [hd first_bad fold_left Z.eqb negb].
  destruct o; try discriminate; reflexivity.
Qed.

Lemma step_advance n m dt : Inv n m -> 0 <= dt ->
  exists m', monitor_step dl m (OAdvance dt) [OK] = (0, m') /\
    Inv (Node (mp n) (unconf n) (states n) (blocktxs n) (chain n) (insync n) (now n + dt) (delay n)) m'.
Proof.
  intros [HS HU] Hdt. rewrite step_simple_monitor by reflexivity. eexists. split; [reflexivity|].
  split.
  - eapply InvS_frame; [exact HS|reflexivity|reflexivity|]. repeat split.
  - destruct HU. split; cbn; try assumption. congruence.
Qed.

Lemma step_setsync n m b : Inv n m ->
  exists m', monitor_step dl m (OSetInSync b) [OK] = (0, m') /\
    Inv (Node (mp n) (unconf n) (states n) (blocktxs n) (chain n) b (now n) (delay n)) m'.
Proof.
  intros [HS HU]. rewrite step_simple_monitor by reflexivity. eexists. split; [reflexivity|].
  split.
  - eapply InvS_frame; [exact HS|reflexivity|reflexivity|]. repeat split.
  - destruct HU. split; cbn; try assumption. reflexivity.
Qed.

Lemma step_gettx n m t : Inv n m ->
  exists m', monitor_step dl m (OGetTx t) (match states n !! t with Some _ => [OK; t] | None => [ERR] end)
             = (0, m') /\ Inv n m'.
Proof.
  intros [HS HU]. destruct (states n !! t) as [s|] eqn:Es.
  - rewrite step_simple_monitor by reflexivity. cbn. rewrite andb_false_r.
    exists m. split; [reflexivity|]. split; assumption.
  - rewrite step_simple_monitor by reflexivity.
    replace (mem t (m_delivered m)) with false.
    + exists m. split; [reflexivity|]. split; assumption.
    + symmetry. apply mem_false.
      intros Hin. apply (vs_D _ _ HS) in Hin. rewrite Es in Hin. destruct Hin. discriminate.
Qed.

Lemma step_unconf n m ob : Inv n m ->
  exists m', monitor_step dl m OUnconf ob = (0, m') /\ Inv n m'.
Proof.
  intros HI. unfold monitor_step. cbn [carries_events]. cbn [first_bad fold_left Z.eqb negb].
  exists m. split; [reflexivity|exact HI].
Qed.

Lemma step_restart n m : Inv n m ->
  exists m', monitor_step dl m ORestart [OK] = (0, m') /\ Inv (restart n) m'.
Proof.
  intros [HS HU]. rewrite step_simple_monitor by reflexivity. eexists. split; [reflexivity|].
  split.
  - eapply InvS_frame; [exact HS|reflexivity|reflexivity|]. repeat split.
  - destruct HU. split; cbn; try assumption; try reflexivity.
    + apply R_init.
    + intros t b H. apply elem_of_nil in H. destruct H.
    + intros t b H. apply elem_of_nil in H. destruct H.
    + intros t H. unfold is_trusted in H. cbn in H. rewrite lookup_empty in H. discriminate.
    + intros t Hin. destruct (vu_VPER0 t Hin) as [H|(s & Hs & Hp)]; [auto|].
      right. right. left. exists s. auto.
Qed.

Lemma step_inv n m t trusted : Inv n m ->
  let r := (if insync n || negb trusted then
              let '(m1, (have, req)) := add_request (mp n) (now n) t trusted in
              (set_mp n m1, [OK; b2z req; b2z (negb have && negb req)])
            else (n, [OK; 0; 0])) in
  exists m', monitor_step dl m (OInv t trusted) (snd r) = (0, m') /\ Inv (fst r) m'.
Proof.
  intros [HS HU]. cbv zeta.
  assert (Hmon : forall a b c, monitor_step dl m (OInv t trusted) [a; b; c] =
     (0, if trusted && m_insync m
            then MS (m_pool m) (m_delivered m) (m_live m) (m_seen m) (add_z t (m_vouched m)) (m_conflicted m)
                    (m_unsafe m) (m_safe m) (m_local m) (m_clock m) (m_insync m) (m_chain m)
                    (add_z t (m_vnow m)) (m_vpersist m)
            else m)).
  { intros a b c. rewrite step_simple_monitor by reflexivity. reflexivity. }
  pose proof (vu_sync _ _ HU) as Hsync.
  destruct (insync n || negb trusted) eqn:Eg.
  - pose proof (add_request_view (mp n) (now n) t trusted) as Hview. cbv zeta in Hview.
    pose proof (add_request_trusted (mp n) (now n) t trusted) as Htr.
    destruct (add_request (mp n) (now n) t trusted) as [m1 [have req]]. cbn [fst snd] in *.
    destruct Hview as [Hv1 Hv2].
    rewrite Hmon. eexists. split; [reflexivity|].
    rewrite Hsync.
    assert (HR' : R m1 (m_pool m)) by (apply (R_same_view (mp n)); [apply (vu_R _ _ HU)|exact Hv1|exact Hv2]).
    destruct (trusted && insync n) eqn:Et.
    + apply andb_true_iff in Et. destruct Et as [-> Esy].
      split.
      * eapply InvS_frame; [exact HS|reflexivity|reflexivity|]. repeat split.
      * destruct HU. split; cbn; try assumption; try reflexivity.
        -- intros t' u H1 H2. apply add_z_elem. left. eapply vu_VCH0; eauto.
        -- intros t' H. rewrite Htr in H. apply add_z_elem. destruct (decide (t' = t)); auto.
        -- intros t' H. apply add_z_elem in H. rewrite Htr. destruct (decide (t' = t)) as [->|Hne].
           ++ left. apply orb_true_r.
           ++ destruct H as [H|H]; [|contradiction]. apply vu_VNOW0 in H. exact H.
    + assert (Hsame : forall t', is_trusted m1 t' = true -> is_trusted (mp n) t' = true).
      { intros t'. rewrite Htr. destruct (decide (t' = t)) as [->|Hne]; [|auto].
        destruct trusted; [|rewrite orb_false_r; auto].
        cbn in Et. rewrite Et in Eg. discriminate. }
      assert (Hmono : forall t', is_trusted (mp n) t' = true -> is_trusted m1 t' = true).
      { intros t' H. rewrite Htr. destruct (decide (t' = t)) as [->|Hne]; [rewrite H; reflexivity|exact H]. }
      split.
      * eapply InvS_frame; [exact HS|reflexivity|reflexivity|]. repeat split.
      * destruct HU. split; cbn; try assumption.
        -- intros t' H. apply vu_VCH3, Hsame, H.
        -- intros t' H. destruct (vu_VNOW0 t' H) as [H'|H']; [left; apply Hmono, H'|right; exact H'].
  - apply orb_false_iff in Eg. destruct Eg as [Esy Etr]. apply negb_false_iff in Etr. subst trusted.
    cbn [fst snd]. rewrite Hmon, Hsync, Esy. cbn [andb]. exists m. split; [reflexivity|]. split; assumption.
Qed.

(* ---------------------------------------------------------------------------------------- *)
(* helpers for steps with notifications *)
Lemma Ext_some PB S0 S evs t : Ext PB S0 S evs -> is_Some (S0 !! t) -> is_Some (S !! t).
Proof.
  intros HE (so & Hso). destruct (decide (t ∈ tkeys evs)) as [Hk|Hk].
  - apply tkeys_elem in Hk. destruct Hk as (s & Hk). rewrite (x_in _ _ _ _ HE t s Hk). eauto.
  - rewrite (x_out _ _ _ _ HE t Hk), Hso. eauto.
Qed.

Lemma Ext_sticky PB S0 S evs t so : Ext PB S0 S evs -> S0 !! t = Some so ->
  exists s, S !! t = Some s /\ (s_unsafe so = true -> s_unsafe s = true) /\
            (is_Some (s_proof so) -> is_Some (s_proof s)) /\
            (t ∉ tkeys evs -> s = so).
Proof.
  intros HE Hso. destruct (decide (t ∈ tkeys evs)) as [Hk|Hk].
  - apply tkeys_elem in Hk. destruct Hk as (s & Hk). exists s.
    split; [apply (x_in _ _ _ _ HE t s Hk)|].
    destruct Hk as [Hk|Hk].
    + apply (x_new _ _ _ _ HE) in Hk. destruct Hk as [Hk _]. congruence.
    + assert (Hk' := Hk). apply (x_upd _ _ _ _ HE) in Hk. destruct Hk as (so' & Hso' & H1 & _ & _ & H4).
      assert (so' = so) by congruence. subst so'. split; [exact H1|]. split.
      * intros (b & Hb). destruct H4 as [H4|(b' & H4 & _)]; rewrite H4; eauto.
      * intros Hn. exfalso. apply Hn, tkeys_elem. exists s. right. exact Hk'.
  - exists so. split; [rewrite (x_out _ _ _ _ HE t Hk); exact Hso|]. auto.
Qed.

Lemma Ext_back PB S0 S evs t s : Ext PB S0 S evs -> S !! t = Some s ->
  tev_in evs t s \/ (t ∉ tkeys evs /\ S0 !! t = Some s).
Proof.
  intros HE Hs. destruct (decide (t ∈ tkeys evs)) as [Hk|Hk].
  - left. apply tkeys_elem in Hk. destruct Hk as (s' & Hk).
    rewrite (x_in _ _ _ _ HE t s' Hk) in Hs. inversion Hs. subst. exact Hk.
  - right. split; [exact Hk|]. rewrite <- (x_out _ _ _ _ HE t Hk). exact Hs.
Qed.

Lemma notes_unsafe_mono m evs t : t ∈ m_unsafe m -> t ∈ m_unsafe (notes m evs).
Proof. intros H. apply notes_unsafe. auto. Qed.

Lemma notes_safe_mono m evs t : t ∈ m_safe m -> t ∈ m_safe (notes m evs).
Proof. intros H. apply notes_safe. auto. Qed.

Lemma monitor_step_events m o c evs :
  carries_events o = true ->
  monitor_step dl m o (c :: enc_events evs) =
  let es := map ev_of evs in
  let bad := first_bad dl m o es in
  if negb (bad =? 0) then (bad, m) else
  let '(code, m1) :=
    match o with
    | OTx t body rel s => if c =? OK then tx_step dl m t body rel s es else (198, m)
    | OBlock b prev txs valid =>
        if c =? OK then block_step m b txs es
        else ((if negb (zlen es =? 0) then 154 else 0), m)
    | ODelayCheck => (delay_step dl m es, m)
    | _ => (0, m)
    end in
  (code, fold_left note_event es m1).
Proof.
  intros Hc. unfold monitor_step. rewrite Hc, decode_enc. cbv zeta.
  destruct (negb (first_bad dl m o (map ev_of evs) =? 0)); [reflexivity|].
  destruct o; try discriminate; reflexivity.
Qed.

(* ---------------------------------------------------------------------------------------- *)
(* the delay check *)
Lemma step_delay n m : Inv n m ->
  exists m', monitor_step dl m ODelayCheck (OK :: enc_events (snd (delay_check n))) = (0, m') /\
             Inv (fst (delay_check n)) m'.
Proof.
  intros [HS HU]. rewrite monitor_step_events by reflexivity. cbv zeta.
  unfold delay_check. destruct (insync n) eqn:Esync; cbn [negb].
  2:{ cbn [snd fst map]. cbn [first_bad fold_left Z.eqb negb].
      unfold delay_step. rewrite (vu_sync _ _ HU), Esync. cbn.
      exists m. split; [reflexivity|]. split; assumption. }
  pose proof (delay_loop_spec (fun _ => False) (states n) (now n - delay n) (sorted_keys (unconf n))
                (sorted_keys_NoDup _) n []) as Hspec.
  destruct (delay_loop n (now n - delay n) (sorted_keys (unconf n)) []) as [n' evs0].
  destruct (Hspec n' evs0 eq_refl) as (Hmp & Hmisc & Hunc & HE & evs & Hacc & Hev1 & Hev2).
  { intros c _. apply not_elem_of_nil. }
  { apply Ext_nil. }
  simpl in Hacc. subst evs0. cbn [fst snd]. clear Hspec.
  destruct Hmisc as (Hch & Hsy & Hnow & Hdl).
  set (cutoff := now n - delay n) in *.
  (* facts about a fired key *)
  assert (Hfired : forall x u, unconf n !! x = Some u -> dcond n cutoff x u = true ->
            u_safe u = false /\ u_unsafe u = false /\ dl <= m_clock m - u_time u /\
            x ∈ m_vouched m).
  { intros x u Hu Hd. unfold dcond in Hd. rewrite !andb_true_iff in Hd.
    destruct Hd as [[[H1 H2] H3] H4]. apply negb_true_iff in H1, H2. apply Z.ltb_lt in H3.
    split; [exact H1|]. split; [exact H2|]. split.
    - subst cutoff. rewrite (vu_clock _ _ HU), <- (vu_delay _ _ HU). lia.
    - apply orb_true_iff in H4. destruct H4 as [H4|H4]; [eapply vu_VCH; eauto|eapply vu_VCH2; eauto]. }
  assert (Hkeys : forall x u, unconf n !! x = Some u -> x ∈ sorted_keys (unconf n)).
  { intros x u Hu. apply sorted_keys_elem. eauto. }
  assert (Hnotx : forall t s, ETx t s ∈ evs -> False).
  { intros t s H. destruct (x_new _ _ _ _ HE t s H) as [Hnone _].
    destruct (Hev1 t s (or_introl H)) as (_ & _ & u & so & _ & _ & Hso & _). congruence. }
  assert (Hevp : forall t s, tev_in evs t s -> s_proof s = None /\ s_safe s = true /\ s_unsafe s = false /\
                   exists u so, unconf n !! t = Some u /\ dcond n cutoff t u = true /\
                                states n !! t = Some so /\ s = mk_safe_s so).
  { intros t s H. destruct (Hev1 t s H) as (_ & _ & u & so & Hu & Hd & Hso & Hns & ->).
    destruct (vu_US _ _ HU t) as (so' & Hso' & Hp); [eauto|].
    assert (so' = so) by congruence. subst so'. apply orb_false_iff in Hns.
    split; [exact Hp|]. split; [reflexivity|]. split; [apply Hns|]. eauto 10. }
  (* the checks on the notifications *)
  assert (Hbad : first_bad dl m ODelayCheck (map ev_of evs) = 0).
  { apply (gen_checks (fun _ => False) n m (states n')); [exact HS|exact HE| |].
    - intros t s H. destruct (Hnotx t s H).
    - intros t s H Hsafe Hust. destruct (Hevp t s (or_intror H)) as (Hp & _ & _ & u & so & Hu & Hd & Hso & ->).
      destruct (Hfired t u Hu Hd) as (F1 & F2 & F3 & F4).
      split.
      + intros Hin. rewrite (vu_SAFE1 _ _ HU t u Hin Hu) in F1. discriminate.
      + right. split; [exact F4|]. split.
        * intros Hin. destruct (vu_CONF _ _ HU t Hin) as (s' & Hs' & Hc).
          { apply (vs_REL _ _ HS). eauto. }
          assert (s' = so) by congruence. subst s'.
          destruct (Hev1 t _ (or_intror H)) as (_ & _ & u' & so' & _ & _ & Hso' & Hns & Heq).
          assert (so' = so) by congruence. subst so'. apply orb_false_iff in Hns.
          destruct Hc as [Hc|(b & Hc)]; [destruct Hns; congruence|].
          simpl in Hp. congruence.
        * exists (u_time u). split; [eapply vu_SEEN; eauto|exact F3]. }
  rewrite Hbad. cbn [Z.eqb negb].
  (* liveness: everything whose conditions hold is reported *)
  assert (Hstep : delay_step dl m (map ev_of evs) = 0).
  { unfold delay_step. rewrite (vu_sync _ _ HU), Esync. cbn [negb].
    match goal with |- (if ?c then _ else _) = _ => assert (Hc : c = false); [|rewrite Hc; reflexivity] end.
    apply existsb_false_iff. intros t Ht.
    destruct (mem t (m_vnow m)) eqn:C1; [|reflexivity].
    destruct (mem t (m_conflicted m)) eqn:C2; [reflexivity|].
    destruct (mem t (m_unsafe m)) eqn:C3; [reflexivity|].
    destruct (mem t (m_safe m)) eqn:C4; [reflexivity|].
    apply mem_elem in C1. apply mem_false in C2, C3, C4. cbn [negb andb].
    apply (vu_L _ _ HU) in Ht. destruct Ht as (u & Hu).
    rewrite (vu_SEEN _ _ HU t u Hu).
    destruct (m_clock m - u_time u >? dl) eqn:C5; [|reflexivity]. cbn [andb].
    apply negb_false_iff.
    destruct (vu_US _ _ HU t) as (so & Hso & Hp); [eauto|].
    assert (Hnu : s_unsafe so = false).
    { destruct (s_unsafe so) eqn:E; [|reflexivity]. destruct C3. apply (vs_UNS _ _ HS). eauto. }
    assert (Hnc : s_cancel so = false).
    { destruct (s_cancel so) eqn:E; [|reflexivity].
      destruct (vs_FL _ _ HS t so Hso) as [_ F2]. rewrite (F2 E) in Hnu. discriminate. }
    assert (Hd : dcond n cutoff t u = true).
    { unfold dcond. rewrite !andb_true_iff. split; [split; [split|]|].
      - apply negb_true_iff. destruct (u_safe u) eqn:E; [|reflexivity].
        destruct (vu_SAFE2 _ _ HU t u Hu E); contradiction.
      - apply negb_true_iff. destruct (u_unsafe u) eqn:E; [|reflexivity].
        destruct C3. eapply vu_UUNS; eauto.
      - apply Z.ltb_lt. subst cutoff. rewrite <- (vu_clock _ _ HU), (vu_delay _ _ HU). lia.
      - destruct (vu_VNOW _ _ HU t C1) as [H|[(u' & Hu' & H)|[(s & Hs & H)|H]]].
        + rewrite H. apply orb_true_r.
        + assert (u' = u) by congruence. subst u'. rewrite H. reflexivity.
        + assert (s = so) by congruence. subst s. destruct H as [H|(b & H)]; congruence.
        + destruct H. apply (vs_REL _ _ HS). eauto. }
    apply has_ev_map. exists (EUpdate t (mk_safe_s so)). split.
    - apply (Hev2 t u so); [eapply Hkeys; eauto|exact Hu|exact Hd|exact Hso|rewrite Hnu, Hnc; reflexivity].
    - cbn. rewrite Z.eqb_refl. reflexivity. }
  rewrite Hstep. fold (notes m evs). eexists. split; [reflexivity|].
  destruct (notes_frame m evs) as (N1 & N2 & N3 & N4 & N5 & N6 & N7 & N8 & N9). cbv zeta in *.
  assert (Hust : forall y s, tev_in evs y s -> ust s = true).
  { intros y s H. apply ust_None. apply (Hevp y s H). }
  assert (Hdom : forall x, is_Some (unconf n' !! x) <-> is_Some (unconf n !! x)).
  { intros x. rewrite Hunc. unfold delay_unconf. destruct (unconf n !! x) as [u|]; [|reflexivity].
    destruct (_ && _); split; eauto. }
  assert (Hun' : forall x u', unconf n' !! x = Some u' ->
            exists u, unconf n !! x = Some u /\ u_time u' = u_time u /\ u_trusted u' = u_trusted u /\
                      u_unsafe u' = u_unsafe u /\
                      ((u' = u /\ (x ∈ sorted_keys (unconf n) -> dcond n cutoff x u = false)) \/
                       (u' = mk_safe_u u /\ dcond n cutoff x u = true))).
  { intros x u'. rewrite Hunc. unfold delay_unconf. destruct (unconf n !! x) as [u|]; [|discriminate].
    destruct (bool_decide (x ∈ sorted_keys (unconf n))) eqn:Eb; cbn [andb].
    - destruct (dcond n cutoff x u) eqn:Ed; intros [= <-]; exists u; cbn; auto 10.
    - intros [= <-]. exists u. apply bool_decide_eq_false in Eb.
      split; [reflexivity|]. repeat (split; [reflexivity|]). left. split; [reflexivity|]. intros; contradiction. }
  split.
  - apply (gen_states (fun _ => False) n m n' m evs); try assumption.
    + apply same_ev_refl.
    + rewrite Hch. auto.
    + rewrite Hch. apply (vs_chain0 _ _ HS).
    + intros t s H. destruct (Hnotx t s H).
    + intros t s b _ _ [].
  - split.
    + rewrite N5, Hnow. apply (vu_clock _ _ HU).
    + rewrite N6, Hsy. apply (vu_sync _ _ HU).
    + rewrite N7, Hch. apply (vu_chain _ _ HU).
    + rewrite Hdl. apply (vu_delay _ _ HU).
    + rewrite N1, Hmp. apply (vu_R _ _ HU).
    + rewrite N1. apply (vu_poolT _ _ HU).
    + rewrite N1. intros t b Hin Hrel. eapply Ext_some; [exact HE|]. eapply vu_poolS; eauto.
    + intros t. rewrite (notes_live_add m evs t Hust), Hdom, (vu_L _ _ HU). split; [|auto].
      intros [H|(s & H)]; [exact H|]. destruct (Hnotx t s H).
    + intros t Ht. apply Hdom in Ht. destruct (vu_US _ _ HU t Ht) as (so & Hso & Hp).
      destruct (Ext_sticky _ _ _ _ t so HE Hso) as (s & Hs & _ & _ & Hsame).
      exists s. split; [exact Hs|].
      destruct (Ext_back _ _ _ _ t s HE Hs) as [H|[_ H]]; [apply (Hevp t s H)|congruence].
    + intros t s Hs Hp. apply Hdom. destruct (Ext_back _ _ _ _ t s HE Hs) as [H|[_ H]].
      * destruct (Hevp t s H) as (_ & _ & _ & u & _ & Hu & _). eauto.
      * eapply vu_SU; eauto.
    + intros t u' Hu'. destruct (Hun' t u' Hu') as (u & Hu & Ht & _).
      rewrite Ht. rewrite notes_seen_old; [eapply vu_SEEN; eauto|].
      intros s H. destruct (Hnotx t s H).
    + intros t u' Hin Hu'. destruct (Hun' t u' Hu') as (u & Hu & _ & _ & _ & [[-> _]|[-> _]]); [|reflexivity].
      apply notes_safe in Hin. destruct Hin as [Hin|(s & Hs & _)]; [eapply vu_SAFE1; eauto|].
      destruct (Hevp t s Hs) as (_ & _ & _ & u0 & so & Hu0 & Hd0 & _).
      assert (u0 = u) by congruence. subst u0.
      destruct (Hun' t u Hu') as (u1 & Hu1 & _ & _ & _ & [[_ Hc]|[Hc _]]).
      * assert (u1 = u) by congruence. subst u1. rewrite Hc in Hd0; [discriminate|eapply Hkeys; eauto].
      * rewrite Hc. reflexivity.
    + intros t u' Hu' Hsafe. destruct (Hun' t u' Hu') as (u & Hu & _ & _ & _ & [[-> _]|[-> Hd]]).
      * destruct (vu_SAFE2 _ _ HU t u Hu Hsafe) as [H|H];
          [left; apply notes_safe_mono, H|right; apply notes_unsafe_mono, H].
      * destruct (vu_US _ _ HU t) as (so & Hso & Hp); [eauto|].
        destruct (s_unsafe so || s_cancel so) eqn:Eus.
        -- right. apply notes_unsafe_mono, (vs_UNS _ _ HS). exists so. split; [exact Hso|].
           apply orb_true_iff in Eus. destruct Eus as [H|H]; [exact H|].
           apply (vs_FL _ _ HS t so Hso), H.
        -- left. apply notes_safe. right. exists (mk_safe_s so). split.
           ++ right. eapply Hev2; eauto.
           ++ cbn. apply ust_None. exact Hp.
    + rewrite N2. intros t u' Hu' Htr. destruct (Hun' t u' Hu') as (u & Hu & _ & Ht & _).
      rewrite Ht in Htr. eapply vu_VCH; eauto.
    + rewrite N2, Hmp. apply (vu_VCH2 _ _ HU).
    + rewrite N8, Hmp. intros t Hin.
      destruct (vu_VNOW _ _ HU t Hin) as [H|[(u & Hu & H)|[(s & Hs & H)|H]]]; [auto| | |auto].
      * right. left. assert (Hs : is_Some (unconf n' !! t)) by (apply Hdom; eauto).
        destruct Hs as (u' & Hu'). destruct (Hun' t u' Hu') as (u0 & Hu0 & _ & Ht & _).
        exists u'. split; [exact Hu'|]. congruence.
      * right. right. left. destruct (Ext_sticky _ _ _ _ t s HE Hs) as (s' & Hs' & K1 & K2 & _).
        exists s'. split; [exact Hs'|]. destruct H; auto.
    + rewrite N9. intros t Hin. destruct (vu_VPER _ _ HU t Hin) as [(u & Hu & H)|(s & Hs & H)].
      * left. assert (Hs : is_Some (unconf n' !! t)) by (apply Hdom; eauto).
        destruct Hs as (u' & Hu'). destruct (Hun' t u' Hu') as (u0 & Hu0 & _ & Ht & _).
        exists u'. split; [exact Hu'|]. congruence.
      * right. destruct (Ext_sticky _ _ _ _ t s HE Hs) as (s' & Hs' & K1 & K2 & _). eauto.
    + intros t u' Hu' Hun. destruct (Hun' t u' Hu') as (u & Hu & _ & _ & Ht & _).
      rewrite Ht in Hun. apply notes_unsafe_mono. eapply vu_UUNS; eauto.
    + rewrite N3. intros t Hin Hrel. destruct (vu_CONF _ _ HU t Hin Hrel) as (s & Hs & H).
      destruct (Ext_sticky _ _ _ _ t s HE Hs) as (s' & Hs' & K1 & K2 & _).
      exists s'. split; [exact Hs'|]. destruct H; auto.
Qed.

(* ---------------------------------------------------------------------------------------- *)
(* an unconfirmed transaction is processed: what the model does *)
Lemma add_tx_facts s now t body tr :
  let r := add_transaction s now t body tr in
  (snd (snd r) = true -> snd (fst (snd r)) = tr) /\
  forall t', is_trusted (fst r) t' = if decide (t' = t) then is_trusted s t || tr else is_trusted s t'.
Proof.
  cbv zeta. unfold add_transaction, is_trusted.
  destruct (txs s !! t) as [m0|] eqn:Em.
  - assert (Hm1 : mtrusted (if tr && negb (mtrusted m0) then MTx (mtime m0) (outpoints m0) true else m0)
                  = mtrusted m0 || tr).
    { destruct (mtrusted m0) eqn:E; destruct tr; cbn; rewrite ?E; reflexivity. }
    destruct (negb (zlen (outpoints m0) =? 0)) eqn:Eo.
    + cbn [fst snd txs]. split; [discriminate|]. intros t'.
      destruct (decide (t' = t)) as [->|Hne];
        [rewrite lookup_insert; exact Hm1 | rewrite lookup_insert_ne by congruence; reflexivity].
    + destruct (add_inputs (inputs s) [] t body) as [ins c]. cbn [fst snd txs].
      split; [reflexivity|]. intros t'.
      destruct (decide (t' = t)) as [->|Hne];
        [rewrite lookup_insert; exact Hm1 | rewrite lookup_insert_ne by congruence; reflexivity].
  - destruct (add_inputs (inputs s) [] t body) as [ins c]. cbn [fst snd txs].
    split; [reflexivity|]. intros t'.
    destruct (decide (t' = t)) as [->|Hne];
      [rewrite lookup_insert; reflexivity | rewrite lookup_insert_ne by congruence; reflexivity].
Qed.

Definition noF : Z -> Prop := fun _ => False.

(* the outcome for the arriving transaction itself *)
Definition tx_caseA (n n' : node) (evs : list event) (t : Z) (rel : bool) : Prop :=
  unconf n !! t = None /\ unconf n' !! t = None /\ t ∉ tkeys evs /\
  (rel = false \/ exists s b, states n !! t = Some s /\ s_proof s = Some b).

Definition tx_caseB (n n' : node) (evs : list event) (t : Z) (rel tr sf cn : bool) : Prop :=
  exists u u' so,
    unconf n !! t = Some u /\ unconf n' !! t = Some u' /\ states n !! t = Some so /\
    s_proof so = None /\ rel = true /\
    u_time u' = u_time u /\ u_trusted u' = u_trusted u || tr /\ u_safe u' = u_safe u || sf /\
    u_unsafe u' = u_unsafe u || cn /\
    (cn = true -> EUpdate t (mk_unsafe_s so) ∈ evs) /\
    (forall s, tev_in evs t s ->
       (cn = true /\ s = mk_unsafe_s so) \/
       (cn = false /\ sf = true /\ u_safe u = false /\
        (s_safe so || s_unsafe so || s_cancel so) = false /\ s = mk_safe_s so)) /\
    (cn = false -> sf = true -> u_safe u = false ->
     (s_safe so || s_unsafe so || s_cancel so) = false -> EUpdate t (mk_safe_s so) ∈ evs) /\
    (forall s, ETx t s ∉ evs).

Definition tx_caseC (n n' : node) (evs : list event) (t : Z) (body : list Z) (rel tr sf cn : bool) : Prop :=
  unconf n !! t = None /\ states n !! t = None /\ rel = true /\
  unconf n' !! t = Some (UTx (now n) false sf tr) /\
  exists s1, ETx t s1 ∈ evs /\ s_proof s1 = None /\ outs_ok body (s_outs s1) = true /\
             s_safe s1 = sf && negb cn /\ s_unsafe s1 = cn.

Lemma pu_spec n m t body rel tr sf :
  Inv n m -> (t, body, rel) ∈ T -> held (m_pool m) t = false ->
  let p := m_pool m in
  let cfs := conflicts_of p t body in
  let cn := negb (zlen cfs =? 0) in
  exists n' evs,
    process_unconfirmed n t body rel tr sf = (n', evs) /\
    R (mp n') (if zlen body =? 0 then p else p ++ [(t, body)]) /\
    (forall t', is_trusted (mp n') t' = if decide (t' = t) then is_trusted (mp n) t || tr
                                        else is_trusted (mp n) t') /\
    same_misc n n' /\
    Ext noF (states n) (states n') evs /\
    (forall x, x <> t -> unconf n' !! x = if bool_decide (x ∈ cfs) then mk_unsafe_u <$> unconf n !! x
                                          else unconf n !! x) /\
    (tx_caseA n n' evs t rel \/ tx_caseB n n' evs t rel tr sf cn \/ tx_caseC n n' evs t body rel tr sf cn) /\
    (forall x s, tev_in evs x s -> x <> t ->
       x ∈ cfs /\ is_Some (unconf n !! x) /\ EUpdate x s ∈ evs /\ s_unsafe s = true /\ s_safe s = false) /\
    (forall c, c ∈ cfs -> is_Some (unconf n !! c) -> exists s, EUpdate c s ∈ evs /\ s_unsafe s = true) /\
    (forall x s, ETx x s ∈ evs -> x = t).
Proof.
  intros [HS HU] HT Hheld p cfs cn.
  pose proof (R_add (mp n) p (now n) t body tr (vu_R _ _ HU)) as Hadd. cbv zeta in Hadd.
  pose proof (add_tx_facts (mp n) (now n) t body tr) as Hfacts. cbv zeta in Hfacts.
  unfold process_unconfirmed.
  destruct (add_transaction (mp n) (now n) t body tr) as [m1 [[cfs0 tr1] added]].
  cbn [fst snd] in Hadd, Hfacts. destruct Hadd as [HR1 Hobs]. destruct Hfacts as [Htr1 Htrust].
  change (held p t = false) in Hheld.
  unfold ref_step in HR1, Hobs. rewrite Hheld in HR1, Hobs.
  cbn [fst snd] in HR1, Hobs. inversion Hobs as [[Hadded Hcfs]].
  assert (added = true) by (destruct added; [reflexivity|discriminate]). subst added.
  fold cfs in Hcfs. subst cfs0. specialize (Htr1 eq_refl). subst tr1. clear Hobs Hadded.
  cbn [negb]. rewrite orb_diag.
  assert (Hndc : NoDup cfs) by (apply add_returns_conflicts, (R_nodup _ _ (vu_R _ _ HU))).
  assert (Htc : t ∉ cfs).
  { intros Hin. apply conflicts_of_elem in Hin. destruct Hin as [Hne _]. congruence. }
  change (conflicts_of p t body) with cfs.
  pose proof (mark_conflicts_spec noF (states n) cfs Hndc (set_mp n m1) []) as Hmark.
  destruct (mark_conflicts (set_mp n m1) cfs []) as [n2 evs1].
  destruct (Hmark n2 evs1 eq_refl) as (Hmp2 & Hmisc2 & Hunc2 & HE2 & evs1' & Hacc & Hev1 & Hev2).
  { intros c _. apply not_elem_of_nil. }
  { apply Ext_nil. }
  simpl in Hacc. subst evs1'. clear Hmark. cbn [mp set_mp unconf states] in *.
  assert (Hu2t : unconf n2 !! t = unconf n !! t).
  { rewrite Hunc2. rewrite bool_decide_eq_false_2 by exact Htc. reflexivity. }
  assert (Htk1 : t ∉ tkeys evs1).
  { intros Hk. apply tkeys_elem in Hk. destruct Hk as (s & Hk). destruct (Hev1 t s Hk) as (H1 & _). contradiction. }
  assert (Hs2t : states n2 !! t = states n !! t) by (apply (x_out _ _ _ _ HE2 t Htk1)).
  assert (Hrelt : is_Some (unconf n !! t) -> rel = true).
  { intros Hu. destruct (vu_US _ _ HU t Hu) as (s & Hs & _).
    apply (relT_rel t body rel); [|exact HT]. apply (vs_REL _ _ HS). eauto. }
  assert (HnoETx1 : forall x s, ETx x s ∈ evs1 -> False).
  { intros x s H. destruct (Hev1 x s (or_introl H)) as (_ & Hu & Hup & _).
    destruct (x_new _ _ _ _ HE2 x s H) as [Hnone _].
    destruct (vu_US _ _ HU x Hu) as (so & Hso & _). congruence. }
  (* common parts of the conclusion, for a final node n' that agrees with n2 except at key t *)
  assert (Fin : forall n' evs,
    mp n' = mp n2 -> same_misc n2 n' -> Ext noF (states n) (states n') evs ->
    (forall x, x <> t -> unconf n' !! x = unconf n2 !! x) ->
    (tx_caseA n n' evs t rel \/ tx_caseB n n' evs t rel tr sf cn \/ tx_caseC n n' evs t body rel tr sf cn) ->
    (exists evt, evs = evs1 ++ evt /\ (forall x s, tev_in evt x s -> x = t)) ->
    R (mp n') (if zlen body =? 0 then p else p ++ [(t, body)]) /\
    (forall t', is_trusted (mp n') t' = if decide (t' = t) then is_trusted (mp n) t || tr
                                        else is_trusted (mp n) t') /\
    same_misc n n' /\
    Ext noF (states n) (states n') evs /\
    (forall x, x <> t -> unconf n' !! x = if bool_decide (x ∈ cfs) then mk_unsafe_u <$> unconf n !! x
                                          else unconf n !! x) /\
    (tx_caseA n n' evs t rel \/ tx_caseB n n' evs t rel tr sf cn \/ tx_caseC n n' evs t body rel tr sf cn) /\
    (forall x s, tev_in evs x s -> x <> t ->
       x ∈ cfs /\ is_Some (unconf n !! x) /\ EUpdate x s ∈ evs /\ s_unsafe s = true /\ s_safe s = false) /\
    (forall c, c ∈ cfs -> is_Some (unconf n !! c) -> exists s, EUpdate c s ∈ evs /\ s_unsafe s = true) /\
    (forall x s, ETx x s ∈ evs -> x = t)).
  { intros n' evs Hmp' Hmisc' HE' Hunc' Hcase (evt & Hevs & Hevt).
    split; [rewrite Hmp', Hmp2; exact HR1|]. split; [rewrite Hmp', Hmp2; exact Htrust|].
    split; [eapply same_misc_trans; [|exact Hmisc']; exact Hmisc2|]. split; [exact HE'|].
    split; [intros x Hne; rewrite (Hunc' x Hne); apply Hunc2|]. split; [exact Hcase|].
    split; [|split].
    - intros x s H Hne. subst evs. apply tev_in_app in H. destruct H as [H|H].
      + destruct (Hev1 x s H) as (H1 & H2 & H3 & H4 & H5). split; [exact H1|]. split; [exact H2|].
        split; [apply elem_of_app; left; exact H3|]. auto.
      + destruct Hne. eapply Hevt; eauto.
    - intros c Hc Hu. destruct (vu_US _ _ HU c Hu) as (so & Hso & _).
      destruct (Hev2 c Hc Hu) as (s & H1 & H2); [eauto|].
      exists s. split; [subst evs; apply elem_of_app; left; exact H1|exact H2].
    - intros x s H. subst evs. apply elem_of_app in H. destruct H as [H|H].
      + destruct (HnoETx1 x s H).
      + eapply Hevt. left. exact H. }
  destruct rel.
  2:{ (* not relevant: never tracked *)
    cbn [negb].
    assert (Hnt : unconf n !! t = None).
    { destruct (unconf n !! t) eqn:E; [|reflexivity]. discriminate (Hrelt (ex_intro _ _ eq_refl)). }
    eexists. eexists. split; [reflexivity|].
    apply Fin; try reflexivity.
    - repeat split.
    - exact HE2.
    - intros x Hne. cbn. apply lookup_delete_ne. congruence.
    - left. split; [exact Hnt|]. split; [cbn; apply lookup_delete|]. split; [exact Htk1|]. left. reflexivity.
    - exists []. rewrite app_nil_r. split; [reflexivity|]. intros x s H. destruct (tev_in_nil _ _ H). }
  cbn [negb].
  rewrite Hu2t. destruct (unconf n !! t) as [u|] eqn:Eu.
  - (* already tracked *)
    destruct (vu_US _ _ HU t) as (so & Hso & Hpo); [eauto|].
    fold cn.
    set (u1 := UTx (u_time u) (u_unsafe u) (u_safe u || sf) (u_trusted u || tr)).
    destruct cn eqn:Ecn.
    + (* conflict known now: marked unsafe *)
      cbn [states set_unconf]. rewrite Hs2t, Hso.
      eexists. eexists. split; [reflexivity|].
      apply Fin; try reflexivity.
      * repeat split.
      * cbn [states set_states set_unconf].
        apply (Ext_upd noF _ _ evs1 t so); [exact HE2|exact Htk1|rewrite Hs2t; exact Hso|apply trans_mk_unsafe].
      * intros x Hne. cbn. rewrite !lookup_insert_ne by congruence. reflexivity.
      * right. left. exists u, (UTx (u_time u1) true (u_safe u1) (u_trusted u1)), so.
        split; [exact Eu|]. split; [cbn; apply lookup_insert|]. split; [exact Hso|]. split; [exact Hpo|].
        split; [reflexivity|]. cbn. split; [reflexivity|]. split; [reflexivity|]. split; [reflexivity|].
        split; [rewrite orb_true_r; reflexivity|].
        split; [intros _; apply elem_of_app; right; left|].
        split.
        { intros s H. left. split; [reflexivity|]. apply tev_in_app in H. destruct H as [H|H].
          - destruct Htk1. apply tkeys_elem. eauto.
          - apply tev_in_single in H. destruct H as [H|H]; inversion H. reflexivity. }
        split; [discriminate|].
        intros s H. apply elem_of_app in H. destruct H as [H|H]; [eapply HnoETx1; eauto|].
        apply elem_of_list_singleton in H. discriminate.
      * eexists. split; [reflexivity|]. intros x s H. apply tev_in_single in H.
        destruct H as [H|H]; inversion H; reflexivity.
    + destruct (sf && negb (u_safe u)) eqn:Esf.
      * apply andb_true_iff in Esf. destruct Esf as [-> Eus]. apply negb_true_iff in Eus.
        cbn [states set_unconf]. rewrite Hs2t, Hso.
        destruct (s_safe so || s_unsafe so || s_cancel so) eqn:Eflags.
        -- eexists. eexists. split; [reflexivity|].
           apply Fin; try reflexivity.
           ++ repeat split.
           ++ exact HE2.
           ++ intros x Hne. cbn. rewrite lookup_insert_ne by congruence. reflexivity.
           ++ right. left. exists u, u1, so.
              split; [exact Eu|]. split; [cbn; apply lookup_insert|]. split; [exact Hso|]. split; [exact Hpo|].
              split; [reflexivity|]. cbn. split; [reflexivity|]. split; [reflexivity|]. split; [reflexivity|].
              split; [rewrite orb_false_r; reflexivity|]. split; [discriminate|].
              split; [intros s H; destruct Htk1; apply tkeys_elem; eauto|].
              split; [intros _ _ _ H; congruence|].
              intros s H. eapply HnoETx1; eauto.
           ++ exists []. rewrite app_nil_r. split; [reflexivity|]. intros x s H. destruct (tev_in_nil _ _ H).
        -- eexists. eexists. split; [reflexivity|].
           assert (Hns : (s_unsafe so || s_cancel so) = false).
           { apply orb_false_iff in Eflags. destruct Eflags as [Ef1 Ef2]. apply orb_false_iff in Ef1.
             destruct Ef1 as [_ Ef1]. rewrite Ef1, Ef2. reflexivity. }
           apply Fin; try reflexivity.
           ++ repeat split.
           ++ cbn [states set_states set_unconf].
              apply (Ext_upd noF _ _ evs1 t so); [exact HE2|exact Htk1|rewrite Hs2t; exact Hso|].
              apply trans_mk_safe, Hns.
           ++ intros x Hne. cbn. rewrite lookup_insert_ne by congruence. reflexivity.
           ++ right. left. exists u, u1, so.
              split; [exact Eu|]. split; [cbn; apply lookup_insert|]. split; [exact Hso|]. split; [exact Hpo|].
              split; [reflexivity|]. cbn. split; [reflexivity|]. split; [reflexivity|]. split; [reflexivity|].
              split; [rewrite orb_false_r; reflexivity|]. split; [discriminate|].
              split.
              { intros s H. right. apply tev_in_app in H. destruct H as [H|H].
                - destruct Htk1. apply tkeys_elem. eauto.
                - apply tev_in_single in H. destruct H as [H|H]; inversion H. auto 10. }
              split; [intros _ _ _ _; apply elem_of_app; right; left|].
              intros s H. apply elem_of_app in H. destruct H as [H|H]; [eapply HnoETx1; eauto|].
              apply elem_of_list_singleton in H. discriminate.
           ++ eexists. split; [reflexivity|]. intros x s H. apply tev_in_single in H.
              destruct H as [H|H]; inversion H; reflexivity.
      * eexists. eexists. split; [reflexivity|].
        apply Fin; try reflexivity.
        -- repeat split.
        -- exact HE2.
        -- intros x Hne. cbn. rewrite lookup_insert_ne by congruence. reflexivity.
        -- right. left. exists u, u1, so.
           split; [exact Eu|]. split; [cbn; apply lookup_insert|]. split; [exact Hso|]. split; [exact Hpo|].
           split; [reflexivity|]. cbn. split; [reflexivity|]. split; [reflexivity|]. split; [reflexivity|].
           split; [rewrite orb_false_r; reflexivity|]. split; [discriminate|].
           split; [intros s H; destruct Htk1; apply tkeys_elem; eauto|].
           split.
           { intros _ -> Hus. rewrite Hus in Esf. discriminate. }
           intros s H. eapply HnoETx1; eauto.
        -- exists []. rewrite app_nil_r. split; [reflexivity|]. intros x s H. destruct (tev_in_nil _ _ H).
  - (* not tracked *)
    cbn [states set_unconf now]. rewrite Hs2t.
    destruct (states n !! t) as [s|] eqn:Est.
    + (* delivered earlier and not tracked: confirmed *)
      assert (Hconf : exists b, s_proof s = Some b /\ in_chain (set_unconf n2 (<[t:=UTx (now n2) false sf tr]> (unconf n2))) b = true).
      { destruct (s_proof s) as [b|] eqn:Ep.
        - exists b. split; [reflexivity|]. unfold in_chain. cbn [chain set_unconf].
          destruct Hmisc2 as (Hch & _). cbn [chain set_mp] in Hch. rewrite Hch.
          apply mem_elem. eapply vs_PRF; eauto.
        - destruct (vu_SU _ _ HU t s Est Ep) as (u & Hu). congruence. }
      destruct Hconf as (b & Hpb & Hic). rewrite Hpb, Hic.
      eexists. eexists. split; [reflexivity|].
      apply Fin; try reflexivity.
      * repeat split.
      * exact HE2.
      * intros x Hne. cbn. rewrite lookup_delete_ne, lookup_insert_ne by congruence. reflexivity.
      * left. split; [exact Eu|]. split; [cbn; apply lookup_delete|]. split; [exact Htk1|]. right. eauto.
      * exists []. rewrite app_nil_r. split; [reflexivity|]. intros x s' H. destruct (tev_in_nil _ _ H).
    + (* first seen: delivered now *)
      cbn [s_proof]. fold cn.
      set (nn := set_unconf n2 (<[t:=UTx (now n2) false sf tr]> (unconf n2))).
      set (s1 := if cn then TState false true false 1 None (spent_outputs nn body)
                 else TState (sf || sf) false false 1 None (spent_outputs nn body)).
      assert (Hnow2 : now n2 = now n) by (destruct Hmisc2 as (_ & _ & H & _); exact H).
      exists (set_states nn (<[t:=s1]> (states nn))), (evs1 ++ [ETx t s1]).
      split.
      { subst s1 nn. cbn [s_cancel s_unsafe s_outs s_proof]. destruct cn; reflexivity. }
      apply Fin; try reflexivity.
      * repeat split.
      * cbn [states set_states set_unconf]. subst nn. cbn [states set_unconf].
        apply Ext_new; [exact HE2|exact Htk1|exact Hs2t| |].
        -- subst s1. unfold flags. destruct cn; cbn; split; try reflexivity; try discriminate.
           rewrite andb_false_r. reflexivity.
        -- left. subst s1. destruct cn; reflexivity.
      * intros x Hne. subst nn. cbn. rewrite lookup_insert_ne by congruence. reflexivity.
      * right. right. split; [exact Eu|]. split; [exact Est|]. split; [reflexivity|].
        split; [subst nn; cbn; rewrite lookup_insert, Hnow2; reflexivity|].
        exists s1. split; [apply elem_of_app; right; left|].
        subst s1. destruct cn; cbn; rewrite ?outs_ok_spent, ?orb_diag, ?andb_true_r, ?andb_false_r; auto.
      * eexists. split; [reflexivity|]. intros x s' H. apply tev_in_single in H.
        destruct H as [H|H]; inversion H; reflexivity.
Qed.

(* ---------------------------------------------------------------------------------------- *)
(* an unconfirmed transaction is processed: the simulation step *)
Lemma pu_held n p t body rel tr sf : R (mp n) p -> held p t = true ->
  process_unconfirmed n t body rel tr sf = (set_mp n (fst (add_transaction (mp n) (now n) t body tr)), []) /\
  R (fst (add_transaction (mp n) (now n) t body tr)) p.
Proof.
  intros HR Hh. pose proof (R_add (mp n) p (now n) t body tr HR) as Hadd. cbv zeta in Hadd.
  unfold process_unconfirmed.
  destruct (add_transaction (mp n) (now n) t body tr) as [m1 [[cfs tr1] added]].
  cbn [fst snd] in Hadd. destruct Hadd as [HR1 Hobs]. unfold ref_step in HR1, Hobs. rewrite Hh in HR1, Hobs.
  cbn [fst snd] in HR1, Hobs.
  destruct added; [discriminate|]. split; [reflexivity|exact HR1].
Qed.

Ltac dcase H :=
  destruct H as [(A1 & A2 & A3 & A4)|
                 [(u & u' & so & B1 & B2 & B3 & B4 & B5 & B6 & B7 & B8 & B9 & B10 & B11 & B12 & B13)|
                  (C1 & C2 & C3 & C4 & s1 & C5 & C6 & C7 & C8 & C9)]].

Definition src_tr (s : src) : bool := match s with SUntrusted => false | _ => true end.
Definition src_sf (s : src) : bool := match s with SLocal => true | _ => false end.

Lemma lookup_seen_ext m m' x : m_seen m' = m_seen m -> lookup_seen m' x = lookup_seen m x.
Proof. unfold lookup_seen. intros ->. reflexivity. Qed.

Lemma tx_processed n m t body rel src :
  Inv n m -> OTx t body rel src ∈ all ->
  (match src with STrusted => m_insync m | _ => true end) = true ->
  let r := process_unconfirmed n t body rel (src_tr src) (src_sf src) in
  exists m', monitor_step dl m (OTx t body rel src) (OK :: enc_events (snd r)) = (0, m') /\ Inv (fst r) m'.
Proof.
  intros [HS HU] Ho Hproc r. subst r.
  rewrite monitor_step_events by reflexivity. cbv zeta.
  assert (HT : (t, body, rel) ∈ T) by (apply (mentions_T _ _ Ho); left).
  set (tr := src_tr src). set (sf := src_sf src).
  destruct (held (m_pool m) t) eqn:Hheld.
  { (* the body is already held: nothing happens *)
    destruct (pu_held n (m_pool m) t body rel tr sf (vu_R _ _ HU) Hheld) as [Hpu HR1].
    pose proof (add_tx_facts (mp n) (now n) t body tr) as Hfacts. cbv zeta in Hfacts.
    destruct Hfacts as [_ Htrust].
    rewrite Hpu. cbn [fst snd map]. cbn [first_bad fold_left]. rewrite !Z.eqb_refl. cbn [negb].
    unfold tx_step. rewrite Hproc, Hheld. cbn [negb fold_left].
    eexists. split; [reflexivity|].
    set (m1 := fst (add_transaction (mp n) (now n) t body tr)) in *.
    split.
    - eapply InvS_frame; [exact HS|reflexivity|reflexivity|]. repeat split.
    - destruct HU. split; cbn; try assumption.
      + intros t' u H1 H2. destruct src; try (apply add_z_elem; left); eapply vu_VCH0; eauto.
      + intros t' H. rewrite Htrust in H. destruct (decide (t' = t)) as [->|Hne].
        * destruct src; cbn in H; rewrite ?orb_false_r in H; try (apply add_z_elem; right; reflexivity).
          apply vu_VCH3, H.
        * destruct src; try (apply add_z_elem; left); apply vu_VCH3, H.
      + intros t' H.
        assert (Hmono : forall x, is_trusted (mp n) x = true -> is_trusted m1 x = true).
        { intros x Hx. rewrite Htrust. destruct (decide (x = t)) as [->|Hne]; [rewrite Hx; reflexivity|exact Hx]. }
        assert (Hold : t' ∈ m_vnow m -> is_trusted m1 t' = true \/
                  (exists u, unconf n !! t' = Some u /\ u_trusted u = true) \/
                  (exists s, states n !! t' = Some s /\ (s_unsafe s = true \/ is_Some (s_proof s))) \/ ~ relT t').
        { intros Hin. destruct (vu_VNOW0 t' Hin) as [H'|H']; [left; apply Hmono, H'|right; exact H']. }
        destruct src; cbn in H; try (apply Hold, H).
        * apply add_z_elem in H. destruct H as [H| ->]; [apply Hold, H|]. left. rewrite Htrust.
          rewrite decide_True by reflexivity. apply orb_true_r.
        * apply add_z_elem in H. destruct H as [H| ->]; [apply Hold, H|]. left. rewrite Htrust.
          rewrite decide_True by reflexivity. apply orb_true_r. }
  pose proof (pu_spec n m t body rel tr sf (conj HS HU) HT Hheld) as Hspec. cbv zeta in Hspec.
  destruct Hspec as (n' & evs & Hpu & HR' & Htrust & Hmisc & HE & Hunc & Hcase & Hev1 & Hev2 & Hetx).
  rewrite Hpu. cbn [fst snd]. clear Hpu.
  set (cfs := conflicts_of (m_pool m) t body) in *.
  set (cs := conflicting_held (m_pool m) t body).
  assert (Hcs : forall x, x ∈ cs <-> x ∈ cfs) by (intros x; apply conflicting_held_conflicts_of).
  assert (Hz : (zlen cs =? 0) = (zlen cfs =? 0)).
  { apply zlen0_same; intros x Hx; exists x; apply Hcs; exact Hx. }
  set (cn := negb (zlen cfs =? 0)) in *.
  destruct Hmisc as (Hch & Hsy & Hnow & Hdl).
  assert (Hun' : forall x u', x <> t -> unconf n' !! x = Some u' ->
     exists u, unconf n !! x = Some u /\ u_time u' = u_time u /\ u_trusted u' = u_trusted u /\
       u_safe u' = u_safe u /\
       ((x ∈ cfs /\ u_unsafe u' = true) \/ (x ∉ cfs /\ u' = u))).
  { intros x u' Hne Hu'. rewrite (Hunc x Hne) in Hu'. destruct (bool_decide (x ∈ cfs)) eqn:Eb.
    - apply bool_decide_eq_true in Eb. destruct (unconf n !! x) as [u|]; [|discriminate].
      cbn in Hu'. inversion Hu'. subst u'. exists u. cbn. auto 10.
    - apply bool_decide_eq_false in Eb. exists u'. auto 10. }
  assert (Hdom : forall x, x <> t -> (is_Some (unconf n' !! x) <-> is_Some (unconf n !! x))).
  { intros x Hne. rewrite (Hunc x Hne). destruct (bool_decide (x ∈ cfs)); [|reflexivity].
    rewrite fmap_is_Some. reflexivity. }
  assert (Hprf : forall x s, tev_in evs x s -> s_proof s = None).
  { intros x s H. destruct H as [H|H].
    - destruct (x_new _ _ _ _ HE x s H) as (_ & _ & [Hp|(b & _ & [])]). exact Hp.
    - destruct (x_upd _ _ _ _ HE x s H) as (so & Hso & _ & _ & _ & [Hp|(b & _ & [])]).
      rewrite Hp. destruct (decide (x = t)) as [->|Hne].
      + destruct Hcase as [(_ & _ & Hk & _)|[(u & u' & so' & _ & _ & Hso' & Hpo & _)|(_ & Hnone & _)]].
        * destruct Hk. apply tkeys_elem. exists s. right. exact H.
        * congruence.
        * congruence.
      + destruct (Hev1 x s (or_intror H) Hne) as (_ & Hu & _).
        destruct (vu_US _ _ HU x Hu) as (so' & Hso' & Hpo). congruence. }
  assert (Hust : forall x s, tev_in evs x s -> ust s = true).
  { intros x s H. apply ust_None. eapply Hprf; eauto. }
  (* the checks on the notifications *)
  assert (Hbad : first_bad dl m (OTx t body rel src) (map ev_of evs) = 0).
  { apply (gen_checks noF n m (states n')); [exact HS|exact HE| |].
    - intros x s H. assert (x = t) by (eapply Hetx; eauto). subst x.
      destruct Hcase as [(_ & _ & Hk & _)|[(u & u' & so & _ & _ & _ & _ & _ & _ & _ & _ & _ & _ & _ & _ & Hno)|
                         (_ & _ & Hrel & _ & s1 & Hs1 & Hp1 & Ho1 & Hsafe1 & Hun1)]].
      + destruct Hk. apply tkeys_elem. exists s. left. exact H.
      + destruct (Hno s H).
      + assert (s = s1) by (eapply Ext_unique; [exact HE|left; exact H|left; exact Hs1]). subst s1 rel.
        exists body. cbn [op_tx_info]. rewrite Z.eqb_refl. split; [reflexivity|]. split; [exact Ho1|].
        destruct src; [ | |exact I]; rewrite Hsafe1; reflexivity.
    - intros x s H Hsafe Hust'. destruct (decide (x = t)) as [->|Hne].
      + destruct Hcase as [(_ & _ & Hk & _)|[(u & u' & so & B1 & B2 & B3 & B4 & B5 & B6 & B7 & B8 & B9 & B10 & B11 & B12 & B13)|
                           (_ & Hnone & _)]].
        * destruct Hk. apply tkeys_elem. exists s. right. exact H.
        * destruct (B11 s (or_intror H)) as [[_ ->]|(_ & Esf & Eus & _ & ->)]; [discriminate Hsafe|].
          split.
          -- intros Hin. rewrite (vu_SAFE1 _ _ HU t u Hin B1) in Eus. discriminate.
          -- left. subst sf. destruct src; try discriminate Esf. cbn. rewrite Z.eqb_refl. apply orb_true_r.
        * destruct (x_upd _ _ _ _ HE t s H) as (so & Hso & _). congruence.
      + destruct (Hev1 x s (or_intror H) Hne) as (_ & _ & _ & _ & Hns). congruence. }
  rewrite Hbad. cbn [Z.eqb negb]. rewrite Z.eqb_refl.
  unfold tx_step. rewrite Hproc. cbn [negb]. rewrite Hheld. fold cs.
  match goal with |- context [if ?c then 141 else _] => assert (Hb1 : c = false) end.
  { apply has_ev_false_map. intros e He. destruct e as [x s|x s|h b]; cbn [ev_of e_kind e_t e_unsafe Z.eqb Pos.eqb andb]; try reflexivity.
    destruct (x =? t) eqn:Ext'; [|reflexivity]. apply Z.eqb_eq in Ext'. subst x. cbn [andb].
    rewrite Hz. fold cn.
    destruct Hcase as [(_ & _ & Hk & _)|[(u & u' & so & _ & _ & _ & _ & _ & _ & _ & _ & _ & _ & _ & _ & Hno)|
                       (_ & _ & Hrel & _ & s1 & Hs1 & Hp1 & Ho1 & Hsafe1 & Hun1)]].
    - destruct Hk. apply tkeys_elem. exists s. left. exact He.
    - destruct (Hno s He).
    - assert (s = s1) by (eapply Ext_unique; [exact HE|left; exact He|left; exact Hs1]). subst s1.
      rewrite Hun1. destruct cn; reflexivity. }
  rewrite Hb1.
  match goal with |- context [if ?c then 142 else _] => assert (Hb2 : c = false) end.
  { apply existsb_false_iff. intros c Hc. destruct (mem c (m_live m)) eqn:El; [|reflexivity]. cbn [andb].
    apply negb_false_iff. apply mem_elem in El. apply (vu_L _ _ HU) in El. apply Hcs in Hc.
    destruct (Hev2 c Hc El) as (s & Hs & Hus). apply has_ev_map. exists (EUpdate c s).
    split; [exact Hs|]. cbn. rewrite Z.eqb_refl, Hus. reflexivity. }
  rewrite Hb2.
  match goal with |- context [if ?c then 143 else _] => assert (Hb3 : c = false) end.
  { destruct rel; [|reflexivity]. destruct (mem t (m_delivered m)) eqn:Ed; [reflexivity|]. cbn [andb negb].
    apply negb_false_iff. apply mem_false in Ed.
    assert (Hnone : states n !! t = None).
    { destruct (states n !! t) eqn:E; [|reflexivity]. destruct Ed. apply (vs_D _ _ HS). eauto. }
    destruct Hcase as [(A1 & A2 & A3 & [A4|(s & b & A4 & _)])|[(u & u' & so & B1 & B2 & B3 & _)|
                       (C1 & C2 & C3 & C4 & s1 & C5 & _)]]; try congruence.
    apply has_ev_map. exists (ETx t s1). split; [exact C5|]. cbn. rewrite Z.eqb_refl. reflexivity. }
  rewrite Hb3.
  match goal with |- context [if ?c then 144 else _] => assert (Hb4 : c = false) end.
  { destruct (mem t (m_live m)) eqn:El; [|reflexivity]. rewrite Hz. fold cn. destruct cn eqn:Ecn; [|reflexivity].
    cbn [andb negb]. apply negb_false_iff. apply mem_elem, (vu_L _ _ HU) in El. destruct El as (u0 & Hu0).
    destruct Hcase as [(A1 & _)|[(u & u' & so & B1 & B2 & B3 & B4 & B5 & B6 & B7 & B8 & B9 & B10 & _)|
                       (C1 & _)]]; try congruence.
    apply has_ev_map. exists (EUpdate t (mk_unsafe_s so)). split; [apply B10; reflexivity|].
    cbn. rewrite Z.eqb_refl. reflexivity. }
  rewrite Hb4.
  match goal with |- context [fold_left note_event (map ev_of evs) ?mm] => set (m1 := mm) end.
  fold (notes m1 evs). eexists. split; [reflexivity|].
  destruct (notes_frame m1 evs) as (N1 & N2 & N3 & N4 & N5 & N6 & N7 & N8 & N9). cbv zeta in *.
  assert (Hdeliv : has_ev (map ev_of evs) (fun e => (e_kind e =? 1) && (e_t e =? t)) = true <-> exists s, ETx t s ∈ evs).
  { rewrite has_ev_map. split.
    - intros (e & He & Hf). destruct e as [x s|x s|h b]; cbn in Hf; try discriminate.
      apply Z.eqb_eq in Hf. subst x. eauto.
    - intros (s & Hs). exists (ETx t s). split; [exact Hs|]. cbn. rewrite Z.eqb_refl. reflexivity. }
  split.
  - apply (gen_states noF n m n' m1 evs); try assumption.
    + repeat split.
    + rewrite Hch. auto.
    + rewrite Hch. apply (vs_chain0 _ _ HS).
    + intros x s H. assert (x = t) by (eapply Hetx; eauto). subst x.
      destruct Hcase as [(_ & _ & Hk & _)|[(u & u' & so & _ & _ & _ & _ & _ & _ & _ & _ & _ & _ & _ & _ & Hno)|
                         (_ & _ & Hrel & _)]].
      * destruct Hk. apply tkeys_elem. exists s. left. exact H.
      * destruct (Hno s H).
      * subst rel. exists body. exact HT.
    + intros x s b _ _ [].
  - assert (Hpool : forall x b, (x, b) ∈ m_pool (notes m1 evs) -> (x, b) ∈ m_pool m \/ (x = t /\ b = body)).
    { rewrite N1. unfold m1. cbn [m_pool]. intros x b Hin. destruct (zlen body =? 0); [left; exact Hin|].
      apply elem_of_app in Hin. destruct Hin as [Hin|Hin]; [left; exact Hin|].
      apply elem_of_list_singleton in Hin. inversion Hin. auto. }
    assert (Hold : forall x, x ∈ m_vouched m -> x ∈ m_vouched m1).
    { intros x H. unfold m1. cbn [m_vouched]. destruct src; rewrite ?add_z_elem; auto. }
    assert (Hnewv : tr = true -> t ∈ m_vouched m1).
    { unfold m1, tr. cbn [m_vouched]. destruct src; cbn; intros; try discriminate; apply add_z_elem; auto. }
    assert (Hkeep : forall x u0, unconf n !! x = Some u0 -> u_trusted u0 = true ->
               exists u2, unconf n' !! x = Some u2 /\ u_trusted u2 = true).
    { intros x u0 Hu0 H. destruct (decide (x = t)) as [->|Hne].
      - dcase Hcase; try congruence. exists u'. split; [exact B2|]. rewrite B7.
        assert (u0 = u) by congruence. subst u0. rewrite H. reflexivity.
      - assert (Hs' : is_Some (unconf n' !! x)) by (apply Hdom; eauto). destruct Hs' as (u2 & Hu2).
        destruct (Hun' x u2 Hne Hu2) as (u3 & Hu3 & _ & Htt & _). exists u2. split; [exact Hu2|]. congruence. }
    split.
    + rewrite N5, Hnow. apply (vu_clock _ _ HU).
    + rewrite N6, Hsy. apply (vu_sync _ _ HU).
    + rewrite N7, Hch. apply (vu_chain _ _ HU).
    + rewrite Hdl. apply (vu_delay _ _ HU).
    + rewrite N1. exact HR'.
    + intros x b Hin. destruct (Hpool x b Hin) as [H|[-> ->]]; [apply (vu_poolT _ _ HU), H|eauto].
    + intros x b Hin Hrel. destruct (Hpool x b Hin) as [H|[-> ->]].
      * eapply Ext_some; [exact HE|]. eapply vu_poolS; eauto.
      * assert (rel = true) by (eapply relT_rel; eauto). dcase Hcase.
        -- destruct A4 as [A4|(s & b & A4 & _)]; [congruence|]. eapply Ext_some; [exact HE|]. eauto.
        -- eapply Ext_some; [exact HE|]. eauto.
        -- rewrite (x_in _ _ _ _ HE t s1 (or_introl C5)). eauto.
    + intros x. rewrite (notes_live_add m1 evs x Hust). change (m_live m1) with (m_live m). rewrite (vu_L _ _ HU).
      destruct (decide (x = t)) as [->|Hne].
      * dcase Hcase.
        -- rewrite A1, A2. split; [|intros (? & ?); discriminate]. intros [H|(s & H)]; [exact H|].
           destruct A3. apply tkeys_elem. exists s. left. exact H.
        -- rewrite B1, B2. split; eauto.
        -- rewrite C4. split; [eauto|]. intros _. right. eauto.
      * rewrite (Hdom x Hne). split; [|auto]. intros [H|(s & H)]; [exact H|]. destruct Hne. eapply Hetx; eauto.
    + intros x Hx.
      assert (Hgen : is_Some (unconf n !! x) -> exists s, states n' !! x = Some s /\ s_proof s = None).
      { intros Hu. destruct (vu_US _ _ HU x Hu) as (so0 & Hso0 & Hp0).
        destruct (Ext_sticky _ _ _ _ x so0 HE Hso0) as (s & Hs & _).
        exists s. split; [exact Hs|].
        destruct (Ext_back _ _ _ _ x s HE Hs) as [H|[_ H]]; [eapply Hprf; eauto|congruence]. }
      destruct (decide (x = t)) as [->|Hne]; [|apply Hgen, Hdom; assumption].
      dcase Hcase.
      * rewrite A2 in Hx. destruct Hx as (? & ?). discriminate.
      * apply Hgen. eauto.
      * exists s1. split; [apply (x_in _ _ _ _ HE); left; exact C5|exact C6].
    + intros x s Hs Hp. destruct (Ext_back _ _ _ _ x s HE Hs) as [H|[Hk H]].
      * destruct (decide (x = t)) as [->|Hne].
        -- dcase Hcase; [destruct A3; apply tkeys_elem; eauto|rewrite B2; eauto|rewrite C4; eauto].
        -- apply Hdom; [exact Hne|]. apply (Hev1 x s H Hne).
      * pose proof (vu_SU _ _ HU x s H Hp) as Hu.
        destruct (decide (x = t)) as [->|Hne]; [|apply Hdom; assumption].
        dcase Hcase; [rewrite A1 in Hu; destruct Hu as (? & ?); discriminate|rewrite B2; eauto|rewrite C4; eauto].
    + intros x u0 Hu0. destruct (decide (x = t)) as [->|Hne].
      * dcase Hcase.
        -- congruence.
        -- assert (u0 = u') by congruence. subst u0. rewrite B6.
           rewrite notes_seen_old; [rewrite (lookup_seen_ext m m1) by reflexivity; eapply vu_SEEN; eauto|].
           intros s H. destruct (B13 s H).
        -- rewrite C4 in Hu0. inversion Hu0. subst u0. cbn [u_time].
           rewrite notes_seen_new; [|exists s1; split; [exact C5|apply ust_None, C6]].
           change (m_clock m1) with (m_clock m). rewrite (vu_clock _ _ HU). reflexivity.
      * destruct (Hun' x u0 Hne Hu0) as (u1 & Hu1 & Ht & _). rewrite Ht.
        rewrite notes_seen_old; [rewrite (lookup_seen_ext m m1) by reflexivity; eapply vu_SEEN; eauto|].
        intros s H. destruct Hne. eapply Hetx; eauto.
    + intros x u0 Hin Hu0. apply notes_safe in Hin. change (m_safe m1) with (m_safe m) in Hin.
      destruct (decide (x = t)) as [->|Hne].
      * dcase Hcase.
        -- congruence.
        -- assert (u0 = u') by congruence. subst u0. rewrite B8. destruct Hin as [Hin|(s & Hs & Hss)].
           ++ rewrite (vu_SAFE1 _ _ HU t u Hin B1). reflexivity.
           ++ destruct (B11 s Hs) as [[_ ->]|(_ & Esf & _)]; [discriminate Hss|rewrite Esf; apply orb_true_r].
        -- rewrite C4 in Hu0. inversion Hu0. subst u0. cbn [u_safe]. destruct Hin as [Hin|(s & Hs & Hss)].
           ++ apply (vs_SAFED _ _ HS) in Hin. rewrite C2 in Hin. destruct Hin as (? & ?); discriminate.
           ++ assert (s = s1) by (eapply Ext_unique; [exact HE|exact Hs|left; exact C5]). subst s.
              rewrite C8 in Hss. apply andb_true_iff in Hss. destruct Hss as [Hss _].
              apply andb_true_iff in Hss. apply Hss.
      * destruct (Hun' x u0 Hne Hu0) as (u1 & Hu1 & _ & _ & Hsf & _). rewrite Hsf.
        destruct Hin as [Hin|(s & Hs & Hss)].
        -- eapply vu_SAFE1; eauto.
        -- destruct (Hev1 x s Hs Hne) as (_ & _ & _ & _ & Hns). rewrite Hns in Hss. discriminate.
    + intros x u0 Hu0 Hsafe. destruct (decide (x = t)) as [->|Hne].
      * dcase Hcase.
        -- congruence.
        -- assert (u0 = u') by congruence. subst u0. rewrite B8 in Hsafe.
           destruct (u_safe u) eqn:Eus.
           ++ destruct (vu_SAFE2 _ _ HU t u B1 Eus) as [H|H];
                [left; apply notes_safe_mono, H|right; apply notes_unsafe_mono, H].
           ++ cbn [orb] in Hsafe. destruct cn eqn:Ecn.
              ** right. apply notes_unsafe. right. exists (mk_unsafe_s so).
                 split; [right; apply B10; reflexivity|reflexivity].
              ** destruct (s_safe so || s_unsafe so || s_cancel so) eqn:Efl.
                 --- apply orb_true_iff in Efl.
                     destruct Efl as [Efl|Efl]; [apply orb_true_iff in Efl; destruct Efl as [Efl|Efl]|].
                     +++ left. apply notes_safe_mono. apply (vs_SAFE3 _ _ HS t so B3 Efl B4).
                     +++ right. apply notes_unsafe_mono. apply (vs_UNS _ _ HS). eauto.
                     +++ right. apply notes_unsafe_mono. apply (vs_UNS _ _ HS). exists so. split; [exact B3|].
                         apply (vs_FL _ _ HS t so B3), Efl.
                 --- left. apply notes_safe. right. exists (mk_safe_s so). split; [right; apply B12; auto|].
                     cbn. apply ust_None. exact B4.
        -- rewrite C4 in Hu0. inversion Hu0. subst u0. cbn [u_safe] in Hsafe. destruct cn eqn:Ecn.
           ++ right. apply notes_unsafe. right. exists s1. split; [left; exact C5|]. rewrite C9. reflexivity.
           ++ left. apply notes_safe. right. exists s1. split; [left; exact C5|].
              rewrite C8, Hsafe, (ust_None _ C6). reflexivity.
      * destruct (Hun' x u0 Hne Hu0) as (u1 & Hu1 & _ & _ & Hsf & _). rewrite Hsf in Hsafe.
        destruct (vu_SAFE2 _ _ HU x u1 Hu1 Hsafe) as [H|H];
          [left; apply notes_safe_mono, H|right; apply notes_unsafe_mono, H].
    + rewrite N2. intros x u0 Hu0 Htr0. destruct (decide (x = t)) as [->|Hne].
      * dcase Hcase.
        -- congruence.
        -- assert (u0 = u') by congruence. subst u0. rewrite B7 in Htr0. apply orb_true_iff in Htr0.
           destruct Htr0 as [H|H]; [apply Hold; eapply vu_VCH; eauto|apply Hnewv, H].
        -- rewrite C4 in Hu0. inversion Hu0. subst u0. apply Hnewv. exact Htr0.
      * destruct (Hun' x u0 Hne Hu0) as (u1 & Hu1 & _ & Htt & _). rewrite Htt in Htr0.
        apply Hold. eapply vu_VCH; eauto.
    + rewrite N2. intros x H. rewrite Htrust in H. destruct (decide (x = t)) as [->|Hne].
      * apply orb_true_iff in H. destruct H as [H|H]; [apply Hold, (vu_VCH2 _ _ HU), H|apply Hnewv, H].
      * apply Hold, (vu_VCH2 _ _ HU), H.
    + rewrite N8. intros x Hin.
      assert (Hmono : forall y, is_trusted (mp n) y = true -> is_trusted (mp n') y = true).
      { intros y Hy. rewrite Htrust. destruct (decide (y = t)) as [->|?]; [rewrite Hy; reflexivity|exact Hy]. }
      assert (Hsplit : x ∈ m_vnow m \/ (x = t /\ tr = true)).
      { unfold m1 in Hin. cbn [m_vnow] in Hin. unfold tr.
        destruct src; cbn; rewrite ?add_z_elem in Hin; [|left; exact Hin|]; (destruct Hin as [Hin| ->]; auto). }
      destruct Hsplit as [Hold'|[-> Htr']].
      * destruct (vu_VNOW _ _ HU x Hold') as [H|[(u0 & Hu0 & H)|[(s & Hs & H)|H]]].
        -- left. apply Hmono, H.
        -- right. left. eapply Hkeep; eauto.
        -- right. right. left. destruct (Ext_sticky _ _ _ _ x s HE Hs) as (s' & Hs' & K1 & K2 & _).
           exists s'. split; [exact Hs'|]. destruct H; auto.
        -- right. right. right. exact H.
      * left. rewrite Htrust, decide_True by reflexivity. rewrite Htr'. apply orb_true_r.
    + rewrite N9. intros x Hin.
      assert (Hsplit : x ∈ m_vpersist m \/ (x = t /\ tr = true /\ exists s, ETx t s ∈ evs)).
      { unfold m1 in Hin. cbn [m_vpersist] in Hin. unfold tr.
        destruct src; cbn; [|left; exact Hin|];
          (match type of Hin with context [if ?c then _ else _] => destruct c eqn:Ehe end; [|left; exact Hin];
           apply add_z_elem in Hin; destruct Hin as [Hin| ->]; [left; exact Hin|];
           right; split; [reflexivity|split; [reflexivity|apply Hdeliv; reflexivity]]). }
      destruct Hsplit as [Hold'|(-> & Htr' & s & Hs)].
      * destruct (vu_VPER _ _ HU x Hold') as [(u0 & Hu0 & H)|(s & Hs & H)].
        -- left. eapply Hkeep; eauto.
        -- right. destruct (Ext_sticky _ _ _ _ x s HE Hs) as (s' & Hs' & K1 & K2 & _). eauto.
      * left. dcase Hcase.
        -- destruct A3. apply tkeys_elem. exists s. left. exact Hs.
        -- destruct (B13 s Hs).
        -- eexists. split; [exact C4|]. exact Htr'.
    + intros x u0 Hu0 Hun0. destruct (decide (x = t)) as [->|Hne].
      * dcase Hcase.
        -- congruence.
        -- assert (u0 = u') by congruence. subst u0. rewrite B9 in Hun0. apply orb_true_iff in Hun0.
           destruct Hun0 as [H|H].
           ++ apply notes_unsafe_mono. apply (vu_UUNS _ _ HU t u B1 H).
           ++ apply notes_unsafe. right. exists (mk_unsafe_s so). split; [right; apply B10, H|reflexivity].
        -- rewrite C4 in Hu0. inversion Hu0. subst u0. discriminate Hun0.
      * destruct (Hun' x u0 Hne Hu0) as (u1 & Hu1 & _ & _ & _ & [[Hc _]|[_ Heq]]).
        -- destruct (Hev2 x Hc) as (s & Hs & Hus); [eauto|]. apply notes_unsafe. right. exists s.
           split; [right; exact Hs|]. rewrite Hus. reflexivity.
        -- subst u0. apply notes_unsafe_mono. apply (vu_UUNS _ _ HU x u1 Hu1 Hun0).
    + rewrite N3. intros x Hin Hrel.
      assert (Hsplit : x ∈ m_conflicted m \/ (cn = true /\ (x = t \/ x ∈ cfs))).
      { unfold m1 in Hin. cbn [m_conflicted] in Hin. rewrite Hz in Hin.
        assert (Ez : (zlen cfs =? 0) = negb cn) by (unfold cn; rewrite negb_involutive; reflexivity).
        rewrite Ez in Hin. destruct cn; cbn [negb] in Hin; [|left; exact Hin].
        apply fold_add_z_elem in Hin. rewrite add_z_elem, Hcs in Hin. tauto. }
      destruct Hsplit as [Hold'|(Ecn & [->|Hc])].
      * destruct (vu_CONF _ _ HU x Hold' Hrel) as (s & Hs & H).
        destruct (Ext_sticky _ _ _ _ x s HE Hs) as (s' & Hs' & K1 & K2 & _).
        exists s'. split; [exact Hs'|]. destruct H; auto.
      * assert (Hr : rel = true) by (eapply relT_rel; eauto). dcase Hcase.
        -- destruct A4 as [A4|(s & b & A4 & A5)]; [congruence|].
           destruct (Ext_sticky _ _ _ _ t s HE A4) as (s' & Hs' & _ & K2 & _).
           exists s'. split; [exact Hs'|]. right. apply K2. rewrite A5. eauto.
        -- exists (mk_unsafe_s so). split; [apply (x_in _ _ _ _ HE); right; apply B10, Ecn|left; reflexivity].
        -- exists s1. split; [apply (x_in _ _ _ _ HE); left; exact C5|left]. rewrite C9. exact Ecn.
      * pose proof Hc as Hc'. apply conflicts_of_elem in Hc'. destruct Hc' as (Hne & b' & Hb' & _).
        destruct (vu_poolS _ _ HU x b' Hb' Hrel) as (so0 & Hso0).
        destruct (unconf n !! x) as [u0|] eqn:Eu0.
        -- destruct (Hev2 x Hc) as (s & Hs & Hus); [eauto|].
           exists s. split; [apply (x_in _ _ _ _ HE); right; exact Hs|left; exact Hus].
        -- destruct (Ext_sticky _ _ _ _ x so0 HE Hso0) as (s' & Hs' & _ & K2 & _).
           exists s'. split; [exact Hs'|]. right. apply K2.
           destruct (s_proof so0) eqn:Ep; [eauto|].
           destruct (vu_SU _ _ HU x so0 Hso0 Ep) as (? & ?). congruence.
Qed.

Lemma step_tx n m t body rel src : Inv n m -> OTx t body rel src ∈ all ->
  exists m', monitor_step dl m (OTx t body rel src) (snd (step n (OTx t body rel src))) = (0, m') /\
             Inv (fst (step n (OTx t body rel src))) m'.
Proof.
  intros HI Ho. cbn [step]. destruct src.
  - destruct (insync n) eqn:Esy.
    + pose proof (tx_processed n m t body rel STrusted HI Ho) as H. cbv zeta in H. cbn [src_tr src_sf] in H.
      destruct (process_unconfirmed n t body rel true false) as [n1 evs]. cbn [fst snd] in *.
      apply H. rewrite (vu_sync _ _ (proj2 HI)). exact Esy.
    + cbn [fst snd]. change [OK] with (OK :: enc_events []).
      rewrite monitor_step_events by reflexivity. cbv zeta. cbn [map first_bad fold_left Z.eqb negb].
      rewrite Z.eqb_refl. unfold tx_step. rewrite (vu_sync _ _ (proj2 HI)), Esy. cbn.
      exists m. split; [reflexivity|exact HI].
  - pose proof (tx_processed n m t body rel SUntrusted HI Ho eq_refl) as H. cbv zeta in H. cbn [src_tr src_sf] in H.
    destruct (process_unconfirmed n t body rel false false) as [n1 evs]. cbn [fst snd] in *. exact H.
  - pose proof (tx_processed n m t body rel SLocal HI Ho eq_refl) as H. cbv zeta in H. cbn [src_tr src_sf] in H.
    destruct (process_unconfirmed n t body rel true true) as [n1 evs]. cbn [fst snd] in *. exact H.
Qed.

(* ---------------------------------------------------------------------------------------- *)
(* a block *)
Lemma step_block n m b prev txs valid : Inv n m -> OBlock b prev txs valid ∈ all ->
  exists m', monitor_step dl m (OBlock b prev txs valid) (snd (process_block n b prev txs valid)) = (0, m') /\
             Inv (fst (process_block n b prev txs valid)) m'.
Proof.
  intros [HS HU] Ho.
  destruct (v_blk _ _ Hv b prev txs valid Ho) as [Hb0 Hpd]. destruct (pd_spec txs Hpd) as [Hndt Hdisj].
  assert (Href : exists m', monitor_step dl m (OBlock b prev txs valid) [ERR] = (0, m') /\ Inv n m').
  { change [ERR] with (ERR :: enc_events []). rewrite monitor_step_events by reflexivity. cbn.
    exists m. split; [reflexivity|split; assumption]. }
  unfold process_block.
  destruct (in_chain n b) eqn:Eic; [exact Href|].
  destruct (negb (default (-99) (last (chain n)) =? prev)); [exact Href|].
  destruct (negb valid); [exact Href|]. clear Href.
  assert (Hnb : b ∉ chain n) by (apply mem_false; exact Eic).
  cbv zeta.
  set (n0 := Node (mp n) (unconf n) (states n) (blocktxs n) (chain n ++ [b]) (insync n) (now n) (delay n)).
  set (h := zlen (chain n0) - 1).
  set (unc := sorted_keys (unconf n0)).
  assert (Hblk : forall t body rel, (t, body, rel) ∈ txs -> (t, body, rel) ∈ T).
  { intros t body rel Hin. apply (mentions_T _ _ Ho). exact Hin. }
  assert (Hinb : forall t, t ∈ txids txs -> inblock t b).
  { intros t Ht. exists prev, txs, valid. auto. }
  assert (Hfresh : forall t s, t ∈ txids txs -> states n !! t = Some s -> s_proof s = None).
  { intros t s Ht Hs. destruct (s_proof s) as [b'|] eqn:Ep; [|reflexivity].
    destruct (vs_PRF _ _ HS t s b' Hs Ep) as [Hc (p2 & txs2 & v2 & Ho2 & Ht2)].
    assert (b' = b) by (eapply (v_uniq _ _ Hv); eauto). subst b'. contradiction. }
  assert (Hunc_elem : forall x, x ∈ unc <-> is_Some (unconf n !! x)).
  { intros x. apply sorted_keys_elem. }
  assert (Hnone : forall t, t ∈ txids txs -> t ∉ unc -> states n !! t = None).
  { intros t Ht Hnu. destruct (states n !! t) as [s|] eqn:Es; [|reflexivity]. destruct Hnu.
    apply Hunc_elem. apply (vu_SU _ _ HU t s Es). apply (Hfresh t s Ht Es). }
  assert (Hcons : forall t body rel b', (t, body, rel) ∈ txs -> (t, b') ∈ m_pool m -> b' = body).
  { intros t body rel b' Hin Hb'. destruct (vu_poolT _ _ HU t b' Hb') as (rel' & HT').
    destruct (T_body _ _ _ _ _ HT' (Hblk _ _ _ Hin)) as [-> _]. reflexivity. }
  assert (Hvnt : forall c, c ∈ blk_victims (m_pool m) txs -> c ∉ txids txs).
  { intros c Hc Hct. apply blk_victims_elem in Hc. destruct Hc as (x & Hx & Hne & bc & Hbc & Hsh).
    apply txids_elem in Hct. destruct Hct as (body' & rel' & Hy).
    pose proof (Hcons _ _ _ _ Hy Hbc) as ->.
    apply (Hdisj x (c, body', rel') Hx Hy); [cbn; congruence|exact Hsh]. }
  destruct (block_txs_spec (fun b' => b' = b) (states n) h txs n0 unc [] [EHeaders h b] (m_pool m)) as
    (n1 & unc1 & pend & evs1 & Hbt & Hun1 & Hmisc1 & HR1 & HE1 & Hst1 & Hst1' & Hunc1 & Hev1a & Hev1b & Hndp & Hp1 & Hp2).
  { exact (vu_R _ _ HU). }
  { exact Hcons. }
  { exact Hvnt. }
  { exact Hndt. }
  { apply sorted_keys_NoDup. }
  { intros t body Hin Hnu. apply held_false. intros b' Hb'.
    assert (Hrel : relT t) by (exists body; apply Hblk; exact Hin).
    destruct (vu_poolS _ _ HU t b' Hb' Hrel) as (s & Hs).
    assert (Htt : t ∈ txids txs) by (apply txids_elem; eauto).
    rewrite (Hnone t Htt Hnu) in Hs. discriminate. }
  { intros c Hc. apply Hunc_elem in Hc. destruct (vu_US _ _ HU c Hc) as (s & Hs & _). cbn. eauto. }
  { intros c bc _. cbn. apply not_elem_of_nil. }
  { apply Ext_hdr. }
  change ([] ++ pend) with pend in Hbt.
  pose proof (block_txs_trusted h txs n0 unc [] [EHeaders h b] (m_pool m) _ (vu_R _ _ HU) Hcons Hbt) as Htrust.
  cbn [fst mp] in Htrust.
  rewrite Hbt.
  destruct (block_notify_spec (fun b' => b' = b) (states n) b eq_refl pend Hndp n1 ([EHeaders h b] ++ evs1)) as
    (n2 & evs2 & Hbn & Hmp2 & Hun2 & Hmisc2 & HE2 & Hev2a & Hev2b).
  { intros t body nw sf Hin. destruct (Hp1 t body nw sf Hin) as (rel & Hin' & Hc).
    assert (Htt : t ∈ txids txs) by (apply txids_elem; eauto).
    assert (Hnk : t ∉ tkeys evs1).
    { intros Hk. apply tkeys_elem in Hk. destruct Hk as (s & Hk). destruct (Hev1a t s Hk) as (Hv' & _).
      exact (Hvnt t Hv' Htt). }
    assert (Hnk' : t ∉ tkeys ([EHeaders h b] ++ evs1)).
    { rewrite tkeys_app, not_elem_of_app. split; [cbn; apply not_elem_of_nil|exact Hnk]. }
    split; [exact Hnk'|].
    destruct nw.
    - destruct Hc as [-> Hnu]. rewrite (x_out _ _ _ _ HE1 t Hnk'). apply Hnone; assumption.
    - apply Hst1. cbn. apply Hunc_elem in Hc. destruct (vu_US _ _ HU t Hc) as (s & Hs & _). eauto. }
  { exact HE1. }
  rewrite Hbn. cbn [fst snd].
  rewrite <- app_assoc in HE2 |- *.
  set (E := evs1 ++ evs2) in *.
  change ([EHeaders h b] ++ E) with (EHeaders h b :: E) in *.
  set (nf := set_unconf n2 (restrict_unconf (unconf n2) unc1)).
  assert (HEv : forall x s, tev_in (EHeaders h b :: E) x s <-> tev_in E x s).
  { intros x s. unfold tev_in. rewrite !elem_of_cons.
    split; [intros [[H|H]|[H|H]]; try discriminate; auto|tauto]. }
  assert (Hcan : forall x s, tev_in evs1 x s ->
            s_proof s = None /\ ust s = true /\ s_safe s = false /\ s_unsafe s = true /\ s_cancel s = true /\
            x ∈ blk_victims (m_pool m) txs /\ x ∈ unc /\ x ∉ txids txs /\ EUpdate x s ∈ evs1).
  { intros x s H. destruct (Hev1a x s H) as (K1 & K2 & K3 & K4 & K5 & K6 & so & Hso & Hp).
    assert (Hpn : s_proof s = None).
    { rewrite Hp. apply Hunc_elem in K2. destruct (vu_US _ _ HU x K2) as (so' & Hso' & Hp'). congruence. }
    split; [exact Hpn|]. split; [apply ust_None, Hpn|]. auto 10 using Hvnt. }
  assert (Hnot : forall x s, tev_in evs2 x s ->
            s_proof s = Some b /\ ust s = false /\ s_depth s = 0 /\ x ∈ txids txs /\
            exists body nw sf, (x, body, nw, sf) ∈ pend /\
              (if nw : bool then ETx x s ∈ evs2 /\ outs_ok body (s_outs s) = true /\ (x, body, true) ∈ txs /\ x ∉ unc
               else EUpdate x s ∈ evs2 /\ x ∈ unc)).
  { intros x s H. destruct (Hev2a x s H) as (body & nw & sf & Hin & Hp & Hd & Hk).
    destruct (Hp1 x body nw sf Hin) as (rel & Hin' & Hc).
    split; [exact Hp|]. split; [apply (ust_Some s b Hp); lia|]. split; [exact Hd|].
    split; [apply txids_elem; eauto|]. exists body, nw, sf. split; [exact Hin|].
    destruct nw.
    - destruct Hk as [Hk1 Hk2]. destruct Hc as [-> Hc]. auto.
    - auto. }
  assert (HEsplit : forall x s, tev_in E x s -> tev_in evs1 x s \/ tev_in evs2 x s).
  { intros x s H. apply tev_in_app. exact H. }
  assert (HE1in : forall e, e ∈ evs1 -> e ∈ EHeaders h b :: E).
  { intros e He. right. unfold E. apply elem_of_app. left. exact He. }
  assert (HE2in : forall e, e ∈ evs2 -> e ∈ EHeaders h b :: E).
  { intros e He. right. unfold E. apply elem_of_app. right. exact He. }
  destruct Hmisc1 as (Hch1 & Hsy1 & Hnow1 & Hdl1). destruct Hmisc2 as (Hch2 & Hsy2 & Hnow2 & Hdl2).
  assert (Hchf : chain nf = chain n ++ [b]).
  { subst nf. cbn [chain set_unconf]. rewrite Hch2, Hch1. reflexivity. }
  (* the checks on the notifications *)
  assert (Hbad : first_bad dl m (OBlock b prev txs valid) (map ev_of (EHeaders h b :: E)) = 0).
  { apply (gen_checks (fun b' => b' = b) n m (states n2)); [exact HS|exact HE2| |].
    - intros t s H.
      destruct (x_new _ _ _ _ HE2 t s H) as (Hn & _).
      assert (Hin : tev_in E t s) by (apply HEv; left; exact H).
      destruct (HEsplit t s Hin) as [H1|H2].
      + destruct (Hev1a t s H1) as (_ & _ & _ & _ & _ & _ & so & Hso & _). congruence.
      + destruct (Hnot t s H2) as (_ & _ & _ & _ & body & nw & sf & Hpin & Hk). destruct nw.
        * destruct Hk as (_ & Hok & Htx & _). exists body. cbn [op_tx_info].
          rewrite (find_tx txs t body true Hndt Htx). split; [reflexivity|]. split; [exact Hok|exact I].
        * destruct Hk as [Hk _]. destruct (x_upd _ _ _ _ HE2 t s) as (so & Hso & _); [|congruence].
          apply HE2in, Hk.
    - intros x s H Hsafe Hust'.
      assert (Hin : tev_in E x s) by (apply HEv; right; exact H).
      destruct (HEsplit x s Hin) as [H1|H2].
      + destruct (Hcan x s H1) as (_ & _ & Hns & _). congruence.
      + destruct (Hnot x s H2) as (_ & Hnu & _). congruence. }
  rewrite monitor_step_events by reflexivity. cbv zeta. rewrite Hbad. cbn [Z.eqb negb]. rewrite Z.eqb_refl.
  assert (Hh : h = zlen (m_chain m)).
  { rewrite (vu_chain _ _ HU). subst h n0. cbn [chain]. unfold zlen. rewrite app_length. cbn [length]. lia. }
  destruct (block_step_ok m b txs (ev_of (EHeaders h b)) (map ev_of E)) as (cf' & Hbs & Hcf).
  { cbn [ev_of e_kind e_t e_proof]. rewrite <- Hh, !Z.eqb_refl. reflexivity. }
  { intros c Hc Hl. change (ev_of (EHeaders h b) :: map ev_of E) with (map ev_of (EHeaders h b :: E)).
    apply (vu_L _ _ HU) in Hl. apply Hunc_elem in Hl. destruct (Hev1b c Hc Hl) as (s & Hs).
    destruct (Hcan c s (or_intror Hs)) as (_ & _ & _ & Hu & Hcc & _).
    apply (count_cancel_one c s); [exact (x_nodup _ _ _ _ HE2)|apply HE1in, Hs|exact Hcc|exact Hu]. }
  { intros t body rel Hin ->. change (ev_of (EHeaders h b) :: map ev_of E) with (map ev_of (EHeaders h b :: E)).
    pose proof (Hp2 t body true Hin) as Hp. destruct (bool_decide (t ∈ unc)) eqn:Eb.
    - apply bool_decide_eq_true in Eb.
      assert (Hd : mem t (m_delivered m) = true).
      { apply mem_elem, (vs_D _ _ HS). apply Hunc_elem in Eb. destruct (vu_US _ _ HU t Eb) as (s & Hs & _). eauto. }
      rewrite Hd. destruct (Hev2b t body false true Hp) as (s & Hps & Hds & Hk).
      apply has_ev_map. exists (EUpdate t s). split; [apply HE2in, Hk|].
      cbn [ev_of e_kind e_t e_proof e_depth]. rewrite Hps, Hds. cbn [pz]. rewrite !Z.eqb_refl. reflexivity.
    - apply bool_decide_eq_false in Eb. destruct (Hp eq_refl) as (sf & Hsf).
      assert (Hd : mem t (m_delivered m) = false).
      { apply mem_false. intros Hd. apply (vs_D _ _ HS) in Hd.
        rewrite (Hnone t) in Hd; [destruct Hd as (? & ?); discriminate|apply txids_elem; eauto|exact Eb]. }
      rewrite Hd. destruct (Hev2b t body true sf Hsf) as (s & Hps & Hds & Hk).
      apply has_ev_map. exists (ETx t s). split; [apply HE2in, Hk|].
      cbn [ev_of e_kind e_t e_proof e_depth]. rewrite Hps, Hds. cbn [pz]. rewrite !Z.eqb_refl. reflexivity. }
  cbn [map]. rewrite Hbs.
  change (ev_of (EHeaders h b) :: map ev_of E) with (map ev_of (EHeaders h b :: E)).
  match goal with |- context [fold_left note_event _ ?mm] => set (m1 := mm) end.
  fold (notes m1 (EHeaders h b :: E)). eexists. split; [reflexivity|].
  destruct (notes_frame m1 (EHeaders h b :: E)) as (N1 & N2 & N3 & N4 & N5 & N6 & N7 & N8 & N9). cbv zeta in *.
  set (A := EHeaders h b :: E) in *.
  assert (Hall : forall x s, tev_in A x s -> tev_in evs1 x s \/ tev_in evs2 x s).
  { intros x s H. apply HEsplit, HEv, H. }
  assert (HETx : forall t s, ETx t s ∈ A -> ust s = false /\ exists body, (t, body, true) ∈ txs).
  { intros t s H. destruct (x_new _ _ _ _ HE2 t s H) as (Hn & _).
    destruct (Hall t s (or_introl H)) as [H1|H2].
    - destruct (Hev1a t s H1) as (_ & _ & _ & _ & _ & _ & so & Hso & _). congruence.
    - destruct (Hnot t s H2) as (_ & Hu & _ & _ & body & nw & sf & Hpin & Hk). split; [exact Hu|]. destruct nw.
      + destruct Hk as (_ & _ & Htx & _). eauto.
      + destruct Hk as [Hk _]. destruct (x_upd _ _ _ _ HE2 t s) as (so & Hso & _); [|congruence].
        apply HE2in, Hk. }
  assert (Hunf : forall x u, unconf nf !! x = Some u <-> unconf n !! x = Some u /\ x ∉ txids txs).
  { intros x u. subst nf. cbn [unconf set_unconf]. rewrite restrict_lookup, Hun2, Hun1, Hunc1, Hunc_elem.
    change (unconf n0) with (unconf n). split.
    - intros (H1 & H2 & H3). auto.
    - intros (H1 & H3). split; [exact H1|]. split; [eauto|exact H3]. }
  assert (Hpend_upd : forall x, x ∈ txids txs -> x ∈ unc -> exists s, EUpdate x s ∈ evs2 /\ s_proof s = Some b).
  { intros x Hx Hu. apply txids_elem in Hx. destruct Hx as (body & rel & Hin).
    pose proof (Hp2 x body rel Hin) as Hp. rewrite bool_decide_eq_true_2 in Hp by exact Hu.
    destruct (Hev2b _ _ _ _ Hp) as (s & Hps & _ & Hk). eauto. }
  assert (Hconf_tx : forall x, x ∈ txids txs -> relT x ->
            exists s, states nf !! x = Some s /\ is_Some (s_proof s)).
  { intros x Hx Hrel. apply txids_elem in Hx. destruct Hx as (body & rel & Hin).
    assert (rel = true) by (eapply relT_rel; [exact Hrel|apply Hblk; exact Hin]). subst rel.
    pose proof (Hp2 x body true Hin) as Hp. destruct (bool_decide (x ∈ unc)).
    - destruct (Hev2b _ _ _ _ Hp) as (s & Hps & _ & Hk). exists s.
      split; [apply (x_in _ _ _ _ HE2); right; apply HE2in, Hk|rewrite Hps; eauto].
    - destruct (Hp eq_refl) as (sf & Hsf). destruct (Hev2b _ _ _ _ Hsf) as (s & Hps & _ & Hk). exists s.
      split; [apply (x_in _ _ _ _ HE2); left; apply HE2in, Hk|rewrite Hps; eauto]. }
  assert (Hvic : forall x, x ∈ blk_victims (m_pool m) txs -> relT x ->
            exists s, states nf !! x = Some s /\ (s_unsafe s = true \/ is_Some (s_proof s))).
  { intros x Hx Hrel. pose proof Hx as Hx'. apply blk_victims_elem in Hx'.
    destruct Hx' as (y & _ & _ & bc & Hbc & _).
    destruct (vu_poolS _ _ HU x bc Hbc Hrel) as (so & Hso).
    destruct (decide (x ∈ unc)) as [Hu|Hu].
    - destruct (Hev1b x Hx Hu) as (s & Hs). destruct (Hcan x s (or_intror Hs)) as (_ & _ & _ & Hus & _).
      exists s. split; [apply (x_in _ _ _ _ HE2); right; apply HE1in, Hs|left; exact Hus].
    - destruct (Ext_sticky _ _ _ _ x so HE2 Hso) as (s' & Hs' & _ & K2 & _).
      exists s'. split; [exact Hs'|]. right. apply K2.
      destruct (s_proof so) eqn:Ep; [eauto|]. destruct Hu. apply Hunc_elem. eapply vu_SU; eauto. }
  assert (Hkeep : forall x u, unconf n !! x = Some u -> u_trusted u = true ->
            (exists u2, unconf nf !! x = Some u2 /\ u_trusted u2 = true) \/
            (exists s, states nf !! x = Some s /\ is_Some (s_proof s))).
  { intros x u Hu Htr. destruct (decide (x ∈ txids txs)) as [Hx|Hx].
    - right. destruct (Hpend_upd x Hx) as (s & Hs & Hps); [apply Hunc_elem; eauto|].
      exists s. split; [apply (x_in _ _ _ _ HE2); right; apply HE2in, Hs|rewrite Hps; eauto].
    - left. exists u. split; [apply Hunf; auto|exact Htr]. }
  split.
  - apply (gen_states (fun b' => b' = b) n m nf m1 A HS); [repeat split|exact HE2| | | |].
    + intros b' Hb'. rewrite Hchf. apply elem_of_app. left. exact Hb'.
    + intros b' Hb'. rewrite Hchf in Hb'. apply elem_of_app in Hb'.
      destruct Hb' as [Hb'|Hb']; [apply (vs_chain0 _ _ HS), Hb'|]. apply elem_of_list_singleton in Hb'. lia.
    + intros t s H. destruct (HETx t s H) as (_ & body & Htx). exists body. apply Hblk. exact Htx.
    + intros t s b' H Hp ->. split; [rewrite Hchf; apply elem_of_app; right; left|]. apply Hinb.
      destruct (Hall t s H) as [H1|H2].
      * destruct (Hcan t s H1) as (Hpn & _). congruence.
      * apply (Hnot t s H2).
  - split.
    + rewrite N5. subst nf. cbn [now set_unconf]. rewrite Hnow2, Hnow1. apply (vu_clock _ _ HU).
    + rewrite N6. subst nf. cbn [insync set_unconf]. rewrite Hsy2, Hsy1. apply (vu_sync _ _ HU).
    + rewrite N7, Hchf. unfold m1. cbn [m_chain]. rewrite (vu_chain _ _ HU). reflexivity.
    + subst nf. cbn [delay set_unconf]. rewrite Hdl2, Hdl1. apply (vu_delay _ _ HU).
    + rewrite N1. subst nf. cbn [mp set_unconf]. rewrite Hmp2. exact HR1.
    + rewrite N1. intros x bx Hin. apply (vu_poolT _ _ HU). eapply blk_pool_sub. exact Hin.
    + rewrite N1. intros x bx Hin Hrel. apply (Ext_some _ _ _ _ x HE2). eapply vu_poolS; [exact HU| |exact Hrel].
      eapply blk_pool_sub. exact Hin.
    + intros x. rewrite (notes_live_rem m1 A x) by (intros y s H; apply (HETx y s H)).
      change (m_live m1) with (m_live m). rewrite (vu_L _ _ HU). split.
      * intros [(u & Hu) Hno]. exists u. apply Hunf. split; [exact Hu|]. intros Hx.
        destruct (Hpend_upd x Hx) as (s & Hs & Hps); [apply Hunc_elem; eauto|].
        apply Hno. exists s. split; [right; apply HE2in, Hs|]. apply (ust_Some s b Hps). lia.
      * intros (u & Hu). apply Hunf in Hu. destruct Hu as [Hu Hx]. split; [eauto|].
        intros (s & Hs & Hus). destruct (Hall x s Hs) as [H1|H2].
        -- destruct (Hcan x s H1) as (_ & Hu1 & _). congruence.
        -- destruct (Hnot x s H2) as (_ & _ & _ & Hx' & _). contradiction.
    + intros x (u & Hu). apply Hunf in Hu. destruct Hu as [Hu Hx].
      destruct (vu_US _ _ HU x) as (so & Hso & Hpo); [eauto|].
      destruct (Ext_sticky _ _ _ _ x so HE2 Hso) as (s & Hs & _).
      exists s. split; [exact Hs|].
      destruct (Ext_back _ _ _ _ x s HE2 Hs) as [H|[_ H]]; [|congruence].
      destruct (Hall x s H) as [H1|H2].
      * apply (Hcan x s H1).
      * destruct (Hnot x s H2) as (_ & _ & _ & Hx' & _). contradiction.
    + intros x s Hs Hp. destruct (Ext_back _ _ _ _ x s HE2 Hs) as [H|[Hk H]].
      * destruct (Hall x s H) as [H1|H2].
        -- destruct (Hcan x s H1) as (_ & _ & _ & _ & _ & _ & Hu & Hx & _).
           apply Hunc_elem in Hu. destruct Hu as (u & Hu). exists u. apply Hunf. auto.
        -- destruct (Hnot x s H2) as (Hps & _). congruence.
      * destruct (vu_SU _ _ HU x s H Hp) as (u & Hu). exists u. apply Hunf. split; [exact Hu|].
        intros Hx. destruct (Hpend_upd x Hx) as (s' & Hs' & _); [apply Hunc_elem; eauto|].
        apply Hk, tkeys_elem. exists s'. right. apply HE2in, Hs'.
    + intros x u Hu. apply Hunf in Hu. destruct Hu as [Hu Hx].
      rewrite notes_seen_old; [rewrite (lookup_seen_ext m m1) by reflexivity; eapply vu_SEEN; eauto|].
      intros s H. apply (HETx x s H).
    + intros x u Hin Hu. apply Hunf in Hu. destruct Hu as [Hu Hx].
      apply notes_safe in Hin. change (m_safe m1) with (m_safe m) in Hin.
      destruct Hin as [Hin|(s & Hs & Hss)]; [eapply vu_SAFE1; eauto|].
      apply andb_true_iff in Hss. destruct Hss as [Hs1 Hs2]. destruct (Hall x s Hs) as [H1|H2].
      * destruct (Hcan x s H1) as (_ & _ & Hns & _). congruence.
      * destruct (Hnot x s H2) as (_ & Hnu & _). congruence.
    + intros x u Hu Hsafe. apply Hunf in Hu. destruct Hu as [Hu Hx].
      destruct (vu_SAFE2 _ _ HU x u Hu Hsafe) as [H|H];
        [left; apply notes_safe_mono, H|right; apply notes_unsafe_mono, H].
    + rewrite N2. intros x u Hu Htr. apply Hunf in Hu. destruct Hu as [Hu Hx].
      apply (vu_VCH _ _ HU x u Hu Htr).
    + rewrite N2. intros x H. apply (vu_VCH2 _ _ HU). subst nf. cbn [mp set_unconf] in H. rewrite Hmp2 in H.
      apply (Htrust x), H.
    + rewrite N8. intros x Hin.
      destruct (vu_VNOW _ _ HU x Hin) as [H|[(u & Hu & H)|[(s & Hs & H)|H]]].
      * destruct (proj2 (Htrust x) H) as [K|[K|K]].
        -- left. subst nf. cbn [mp set_unconf]. rewrite Hmp2. exact K.
        -- pose proof K as K'. apply txids_elem in K'. destruct K' as (body & rel & Hbin). destruct rel.
           ++ right. right. left. destruct (Hconf_tx x K) as (s & Hs & Hps); [exists body; apply Hblk, Hbin|].
              exists s. auto.
           ++ right. right. right. intros (body' & Hb'). destruct (T_body _ _ _ _ _ Hb' (Hblk _ _ _ Hbin)) as [_ Hc].
              discriminate.
        -- pose proof K as K'. apply blk_victims_elem in K'. destruct K' as (y & _ & _ & bc & Hbc & _).
           destruct (vu_poolT _ _ HU x bc Hbc) as (rel & HTx). destruct rel.
           ++ right. right. left. apply Hvic; [exact K|]. exists bc. exact HTx.
           ++ right. right. right. intros (body' & Hb'). destruct (T_body _ _ _ _ _ Hb' HTx) as [_ Hc].
              discriminate.
      * destruct (Hkeep x u Hu H) as [K|(s & Hs & Hps)]; [right; left; exact K|].
        right. right. left. exists s. auto.
      * right. right. left. destruct (Ext_sticky _ _ _ _ x s HE2 Hs) as (s' & Hs' & K1 & K2 & _).
        exists s'. split; [exact Hs'|]. destruct H; auto.
      * right. right. right. exact H.
    + rewrite N9. intros x Hin. destruct (vu_VPER _ _ HU x Hin) as [(u & Hu & H)|(s & Hs & H)].
      * apply (Hkeep x u Hu H).
      * right. destruct (Ext_sticky _ _ _ _ x s HE2 Hs) as (s' & Hs' & K1 & K2 & _). eauto.
    + intros x u Hu Hun. apply Hunf in Hu. destruct Hu as [Hu Hx].
      apply notes_unsafe_mono. apply (vu_UUNS _ _ HU x u Hu Hun).
    + rewrite N3. intros x Hin Hrel. unfold m1 in Hin. cbn [m_conflicted] in Hin. apply Hcf in Hin.
      destruct Hin as [Hin|Hin]; [|apply Hvic; assumption].
      destruct (vu_CONF _ _ HU x Hin Hrel) as (s & Hs & H).
      destruct (Ext_sticky _ _ _ _ x s HE2 Hs) as (s' & Hs' & K1 & K2 & _).
      exists s'. split; [exact Hs'|]. destruct H; auto.
Qed.

(* ---------------------------------------------------------------------------------------- *)
(* every operation of the history *)
Lemma step_sim n m o : Inv n m -> o ∈ all ->
  exists m', monitor_step dl m o (snd (step n o)) = (0, m') /\ Inv (fst (step n o)) m'.
Proof.
  intros HI Ho. destruct o as [t body rel src|t trusted|b prev txs valid| |dt|b| |t|].
  - apply step_tx; assumption.
  - cbn [step]. pose proof (step_inv n m t trusted HI) as H. cbv zeta in H. exact H.
  - cbn [step]. apply step_block; assumption.
  - cbn [step]. pose proof (step_delay n m HI) as H. destruct (delay_check n) as [n1 evs]. exact H.
  - cbn [step fst snd]. apply step_advance; [exact HI|apply (v_adv _ _ Hv), Ho].
  - cbn [step fst snd]. apply step_setsync. exact HI.
  - cbn [step fst snd]. apply step_restart. exact HI.
  - cbn [step fst snd]. apply step_gettx. exact HI.
  - cbn [step fst snd]. apply step_unconf. exact HI.
Qed.

Lemma Inv_init : Inv (n_init dl) ms_init.
Proof.
  split.
  - split; cbn.
    + intros b Hb. apply elem_of_list_singleton in Hb. lia.
    + intros t. rewrite lookup_empty. split; [intros H; apply elem_of_nil in H; destruct H|].
      intros (? & ?). discriminate.
    + intros t s H. rewrite lookup_empty in H. discriminate.
    + intros t. split; [intros H; apply elem_of_nil in H; destruct H|].
      intros (s & H & _). rewrite lookup_empty in H. discriminate.
    + intros t s H. rewrite lookup_empty in H. discriminate.
    + intros t H. apply elem_of_nil in H. destruct H.
    + intros t (s & H). rewrite lookup_empty in H. discriminate.
    + intros t s b H. rewrite lookup_empty in H. discriminate.
  - split; cbn; try reflexivity.
    + apply R_init.
    + intros t b H. apply elem_of_nil in H. destruct H.
    + intros t b H. apply elem_of_nil in H. destruct H.
    + intros t. rewrite lookup_empty. split; [intros H; apply elem_of_nil in H; destruct H|].
      intros (? & ?). discriminate.
    + intros t (? & H). rewrite lookup_empty in H. discriminate.
    + intros t s H. rewrite lookup_empty in H. discriminate.
    + intros t u H. rewrite lookup_empty in H. discriminate.
    + intros t u H. apply elem_of_nil in H. destruct H.
    + intros t u H. rewrite lookup_empty in H. discriminate.
    + intros t u H. rewrite lookup_empty in H. discriminate.
    + intros t H. unfold is_trusted in H. cbn in H. rewrite lookup_empty in H. discriminate.
    + intros t H. apply elem_of_nil in H. destruct H.
    + intros t H. apply elem_of_nil in H. destruct H.
    + intros t u H. rewrite lookup_empty in H. discriminate.
    + intros t H. apply elem_of_nil in H. destruct H.
Qed.

Lemma monitor_silent_from ops' : forall n m i,
  Inv n m -> (forall o, o ∈ ops' -> o ∈ all) -> monitor_from dl m i ops' (run_from n ops') = None.
Proof.
  induction ops' as [|o ops' IH]; intros n m i HI Hsub; [reflexivity|].
  cbn [run_from monitor_from].
  destruct (step_sim n m o HI) as (m' & Hm & HI'); [apply Hsub; left|].
  destruct (step n o) as [n1 ob]. cbn [fst snd] in Hm, HI'. rewrite Hm. cbn [Z.eqb negb].
  apply IH; [exact HI'|]. intros o' Ho'. apply Hsub. right. exact Ho'.
Qed.

End Flow.
