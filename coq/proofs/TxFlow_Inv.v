(* Proofs for the transaction pipeline monitors, part 3: the simulation invariant between the
   model's node and the monitor's bookkeeping, its generic consequences, and the steps that do not
   process a transaction body or a block. *)
From V.lib Require Import Base.
From V.model Require Import MemPool MemPoolSpec TxFlow TxFlowSpec.
From V.proofs Require Import MemPool_Proofs TxFlow_Base TxFlow_Model TxFlow_Block.

Section Flow.
Variable dl : Z.
Variable all : list op.
Hypothesis Hv : valid dl all.

Definition T : list (Z * list Z * bool) := flat_map mentions all.
Definition relT (t : Z) : Prop := exists body, (t, body, true) ∈ T.
Definition inblock (t b : Z) : Prop :=
  exists o p txs v, o ∈ all /\ blk_of o = Some (b, p, txs, v) /\ t ∈ txids txs.

(* the stored state is confirmed by a block of the chain the node holds *)
Definition conf (n : node) (s : tstate) : Prop := exists b, s_proof s = Some b /\ b ∈ chain n.

(* the part that only speaks about stored states and notifications *)
Record InvS (n : node) (m : ms) : Prop := mkInvS {
  vs_chain0 : forall b, b ∈ chain n -> 0 <= b;
  vs_D : forall t, t ∈ m_delivered m <-> is_Some (states n !! t);
  vs_FL : forall t s, states n !! t = Some s -> flags s;
  vs_UNS : forall t, t ∈ m_unsafe m <-> exists s, states n !! t = Some s /\ s_unsafe s = true;
  vs_SAFED : forall t, t ∈ m_safe m -> is_Some (states n !! t);
  vs_REL : forall t, is_Some (states n !! t) -> relT t;
  vs_OUTS : forall t s body rel, states n !! t = Some s -> (t, body, rel) ∈ T -> outs_ok body (s_outs s) = true;
  vs_PRF : forall t, lookup_proof m t = oproof (states n !! t);
  vs_PRF0 : forall t s b, states n !! t = Some s -> s_proof s = Some b -> 0 <= b;
  vs_PRFB : forall t s b, states n !! t = Some s -> s_proof s = Some b -> inblock t b;
  vs_BODY : forall t s body rel, states n !! t = Some s -> (t, body, rel) ∈ T -> s_body s = body }.

Record InvU (n : node) (m : ms) : Prop := mkInvU {
  vu_clock : m_clock m = now n;
  vu_sync : m_insync m = insync n;
  vu_chain : m_chain m = chain n;
  vu_delay : delay n = dl;
  vu_R : R (mp n) (m_pool m);
  vu_poolT : forall t b, (t, b) ∈ m_pool m -> exists rel, (t, b, rel) ∈ T;
  vu_poolS : forall t b, (t, b) ∈ m_pool m -> relT t -> is_Some (states n !! t);
  vu_L : forall t, t ∈ m_live m <-> is_Some (unconf n !! t);
  vu_US : forall t, is_Some (unconf n !! t) -> exists s, states n !! t = Some s /\ ~ conf n s;
  vu_SU : forall t s, states n !! t = Some s -> s_proof s = None -> is_Some (unconf n !! t);
  vu_SEEN : forall t u, unconf n !! t = Some u -> lookup_seen m t = Some (u_time u);
  vu_SAFE1 : forall t u, t ∈ m_safe m -> unconf n !! t = Some u -> u_safe u = true;
  vu_SAFE2 : forall t u, unconf n !! t = Some u -> u_safe u = true -> t ∈ m_safe m \/ t ∈ m_unsafe m;
  vu_SAFE3 : forall t u s, unconf n !! t = Some u -> states n !! t = Some s -> s_safe s = true -> t ∈ m_safe m;
  vu_VCH : forall t u, unconf n !! t = Some u -> u_trusted u = true -> t ∈ m_vouched m;
  vu_VCH2 : forall t, is_trusted (mp n) t = true -> t ∈ m_vouched m;
  vu_VNOW : forall t, t ∈ m_vnow m ->
      is_trusted (mp n) t = true \/ (exists u, unconf n !! t = Some u /\ u_trusted u = true) \/
      (exists s, states n !! t = Some s /\ (s_unsafe s = true \/ conf n s)) \/ ~ relT t;
  vu_VPER : forall t, t ∈ m_vpersist m ->
      (exists u, unconf n !! t = Some u /\ u_trusted u = true) \/
      (exists s, states n !! t = Some s /\ conf n s);
  vu_UUNS : forall t u, unconf n !! t = Some u -> u_unsafe u = true -> t ∈ m_unsafe m;
  vu_CONF : forall t, t ∈ m_conflicted m -> relT t -> exists s, states n !! t = Some s /\ s_unsafe s = true;
  (* a stored transaction whose body the node holds is tracked as unconfirmed: a transaction delivered with its
     confirmation is taken out of the mempool, and so is every transaction a block confirms *)
  vu_HELD : forall t b s, (t, b) ∈ m_pool m -> states n !! t = Some s -> is_Some (unconf n !! t);
  vu_BODY : forall t u, unconf n !! t = Some u ->
      exists s, states n !! t = Some s /\ lookup_body m t = Some (s_body s);
  vu_LND : NoDup (m_live m) }.

Definition Inv (n : node) (m : ms) : Prop := InvS n m /\ InvU n m.

(* facts about the table of mentions *)
Lemma T_body t b1 r1 b2 r2 : (t, b1, r1) ∈ T -> (t, b2, r2) ∈ T -> b1 = b2 /\ r1 = r2.
Proof. apply (v_cons _ _ Hv). Qed.

Lemma relT_rel t b r : relT t -> (t, b, r) ∈ T -> r = true.
Proof. intros (b' & H') H. destruct (T_body _ _ _ _ _ H' H) as [_ <-]. reflexivity. Qed.

Lemma mentions_T o x : o ∈ all -> x ∈ mentions o -> x ∈ T.
Proof.
  intros Ho Hx. unfold T. apply elem_of_list_In, in_flat_map. exists o.
  split; apply elem_of_list_In; assumption.
Qed.

(* confirmed, as the monitor computes it *)
Lemma conf_dec n s : conf n s \/ ~ conf n s.
Proof.
  unfold conf. destruct (s_proof s) as [b|].
  - destruct (decide (b ∈ chain n)) as [H|H]; [left; eauto|]. right. intros (b' & Hb & Hc). congruence.
  - right. intros (b' & Hb & _). discriminate.
Qed.

Lemma cnf_conf n s : (forall b, b ∈ chain n -> 0 <= b) -> cnf (chain n) s = true <-> conf n s.
Proof.
  intros H0. unfold cnf, conf. rewrite mem_elem. destruct (s_proof s) as [b|]; cbn [pz].
  - split; [eauto|]. intros (b' & Hb & Hc). congruence.
  - split.
    + intros H. apply H0 in H. lia.
    + intros (b' & Hb & _). discriminate.
Qed.

Lemma cnf_false n s : (forall b, b ∈ chain n -> 0 <= b) -> cnf (chain n) s = false <-> ~ conf n s.
Proof.
  intros H0. rewrite <- (cnf_conf n s H0). destruct (cnf (chain n) s); split; congruence.
Qed.

Lemma conf_same_proof n s s' : s_proof s' = s_proof s -> conf n s -> conf n s'.
Proof. unfold conf. intros ->. auto. Qed.

(* the monitor state before the notifications of a step are noted: only fields that are not
   driven by notifications may differ from the state before the step *)
Definition same_ev (m m1 : ms) : Prop :=
  m_delivered m1 = m_delivered m /\ m_live m1 = m_live m /\ m_seen m1 = m_seen m /\
  m_unsafe m1 = m_unsafe m /\ m_safe m1 = m_safe m /\ m_proofs m1 = m_proofs m.

Lemma same_ev_refl m : same_ev m m.
Proof. repeat split. Qed.

Lemma lookup_proof_ext m m' x : m_proofs m' = m_proofs m -> lookup_proof m' x = lookup_proof m x.
Proof. unfold lookup_proof. intros ->. reflexivity. Qed.

Lemma lookup_seen_ext m m' x : m_seen m' = m_seen m -> lookup_seen m' x = lookup_seen m x.
Proof. unfold lookup_seen. intros ->. reflexivity. Qed.

(* ---------------------------------------------------------------------------------------- *)
(* consequences of the extension relation *)
Lemma Ext_some PB S0 S evs t : Ext PB S0 S evs -> is_Some (S0 !! t) -> is_Some (S !! t).
Proof.
  intros HE (so & Hso). destruct (decide (t ∈ tkeys evs)) as [Hk|Hk].
  - apply tkeys_elem in Hk. destruct Hk as (s & Hk). rewrite (x_in _ _ _ _ HE t s Hk). eauto.
  - rewrite (x_out _ _ _ _ HE t Hk), Hso. eauto.
Qed.

Lemma Ext_back PB S0 S evs t s : Ext PB S0 S evs -> S !! t = Some s ->
  tev_in evs t s \/ (t ∉ tkeys evs /\ S0 !! t = Some s).
Proof.
  intros HE Hs. destruct (decide (t ∈ tkeys evs)) as [Hk|Hk].
  - left. apply tkeys_elem in Hk. destruct Hk as (s' & Hk).
    rewrite (x_in _ _ _ _ HE t s' Hk) in Hs. inversion Hs. subst. exact Hk.
  - right. split; [exact Hk|]. rewrite <- (x_out _ _ _ _ HE t Hk). exact Hs.
Qed.

(* the proof of the state after the step: the proof before, or a block of this step *)
Lemma Ext_proof PB S0 S evs t s : Ext PB S0 S evs -> S !! t = Some s ->
  s_proof s = oproof (S0 !! t) \/ exists b, s_proof s = Some b /\ PB b.
Proof.
  intros HE Hs. destruct (Ext_back _ _ _ _ t s HE Hs) as [[H|H]|[_ H]].
  - apply (x_new _ _ _ _ HE t s H).
  - destruct (x_upd _ _ _ _ HE t s H) as (so & Hso & _ & _ & _ & Hp & _). rewrite Hso. exact Hp.
  - left. rewrite H. reflexivity.
Qed.

(* a stored state stays stored; unsafe is sticky as far as the step's new-transaction notifications keep it *)
Lemma Ext_sticky PB S0 S evs t so : Ext PB S0 S evs -> S0 !! t = Some so ->
  (forall s, ETx t s ∈ evs -> s_unsafe so = true -> s_unsafe s = true) ->
  exists s, S !! t = Some s /\ (s_unsafe so = true -> s_unsafe s = true) /\
            (s_proof s = s_proof so \/ exists b, s_proof s = Some b /\ PB b) /\
            (t ∉ tkeys evs -> s = so).
Proof.
  intros HE Hso Hmono. destruct (Ext_some _ _ _ _ t HE (ex_intro _ so Hso)) as (s & Hs).
  exists s. split; [exact Hs|].
  pose proof (Ext_proof _ _ _ _ t s HE Hs) as Hp. rewrite Hso in Hp. cbn [oproof] in Hp.
  split; [|split; [exact Hp|]].
  - destruct (Ext_back _ _ _ _ t s HE Hs) as [[H|H]|[_ H]].
    + apply Hmono, H.
    + destruct (x_upd _ _ _ _ HE t s H) as (so' & Hso' & H1 & _).
      assert (so' = so) by congruence. subst so'. exact H1.
    + assert (s = so) by congruence. subst s. auto.
  - intros Hk. rewrite (x_out _ _ _ _ HE t Hk) in Hs. congruence.
Qed.

(* ---------------------------------------------------------------------------------------- *)
(* generic preservation of the states part *)
Lemma gen_states (PB : Z -> Prop) n m n' m1 evs :
  InvS n m -> same_ev m m1 ->
  Ext PB (states n) (states n') evs ->
  (forall b, b ∈ chain n' -> 0 <= b) ->
  (forall b, PB b -> 0 <= b) ->
  (forall t s, ETx t s ∈ evs ->
     relT t /\ flags s /\ (forall body rel, (t, body, rel) ∈ T -> outs_ok body (s_outs s) = true /\ s_body s = body) /\
     (forall so, states n !! t = Some so -> s_unsafe so = true -> s_unsafe s = true)) ->
  (forall t s b, tev_in evs t s -> s_proof s = Some b -> PB b -> inblock t b) ->
  InvS n' (notes m1 evs).
Proof.
  intros HS (E1 & E2 & E3 & E4 & E5 & E6) HE Hch0 HPB0 Hnew Hprf.
  assert (Hdec : forall t, t ∈ tkeys evs \/ t ∉ tkeys evs).
  { intros t. destruct (decide (t ∈ tkeys evs)); auto. }
  assert (Hfl : forall t s, tev_in evs t s -> flags s).
  { intros t s [H|H].
    - apply (Hnew t s H).
    - apply (x_upd _ _ _ _ HE) in H. destruct H as (so & Hso & Ht).
      apply Ht. eapply vs_FL; eauto. }
  assert (Hmono : forall t so, states n !! t = Some so -> forall s, ETx t s ∈ evs -> s_unsafe so = true -> s_unsafe s = true).
  { intros t so Hso s H. destruct (Hnew t s H) as (_ & _ & _ & Hm). apply (Hm so Hso). }
  split.
  - exact Hch0.
  - intros t. rewrite notes_delivered, E1, (vs_D _ _ HS). split.
    + intros [Hs|(s & Hs)].
      * eapply Ext_some; eauto.
      * rewrite (x_in _ _ _ _ HE t s); [eauto|]. left. exact Hs.
    + intros (s & Hs). destruct (Ext_back _ _ _ _ t s HE Hs) as [[H|H]|[_ H]].
      * right. eauto.
      * left. apply (x_upd _ _ _ _ HE) in H. destruct H as (so & Hso & _). eauto.
      * left. eauto.
  - intros t s Hs. destruct (Ext_back _ _ _ _ t s HE Hs) as [H|[_ H]]; [eapply Hfl; eauto|eapply vs_FL; eauto].
  - intros t. rewrite notes_unsafe, E4, (vs_UNS _ _ HS). split.
    + intros [(so & Hso & Hu)|(s & Hs & Hu)].
      * destruct (Ext_sticky _ _ _ _ t so HE Hso (Hmono t so Hso)) as (s & Hs & K1 & _). eauto.
      * exists s. split; [apply (x_in _ _ _ _ HE t s Hs)|].
        apply orb_true_iff in Hu. destruct Hu as [Hu|Hu]; [exact Hu|].
        apply (Hfl t s Hs), Hu.
    + intros (s & Hs & Hu). destruct (Ext_back _ _ _ _ t s HE Hs) as [H|[_ H]].
      * right. exists s. split; [exact H|]. rewrite Hu. reflexivity.
      * left. eauto.
  - intros t Hin. apply (notes_safe m1 evs t (x_nodup _ _ _ _ HE)) in Hin. rewrite E5 in Hin.
    destruct Hin as [[H _]|(s & Hs & _)].
    + eapply Ext_some; [exact HE|]. apply (vs_SAFED _ _ HS), H.
    + rewrite (x_in _ _ _ _ HE t s Hs). eauto.
  - intros t (s & Hs). destruct (Ext_back _ _ _ _ t s HE Hs) as [[H|H]|[_ H]].
    + apply (Hnew t s H).
    + apply (x_upd _ _ _ _ HE) in H. destruct H as (so & Hso & _). apply (vs_REL _ _ HS). eauto.
    + apply (vs_REL _ _ HS). eauto.
  - intros t s body rel Hs HT. destruct (Ext_back _ _ _ _ t s HE Hs) as [[H|H]|[_ H]].
    + destruct (Hnew t s H) as (_ & _ & Hb & _). apply (Hb body rel HT).
    + apply (x_upd _ _ _ _ HE) in H. destruct H as (so & Hso & _ & _ & _ & _ & Ho & _). rewrite Ho.
      eapply vs_OUTS; eauto.
    + eapply vs_OUTS; eauto.
  - intros t.
    assert (Hpos : forall s, states n' !! t = Some s -> forall b, s_proof s = Some b -> 0 <= b).
    { intros s Hs b Hb. destruct (Ext_proof _ _ _ _ t s HE Hs) as [Hp|(b' & Hp & HP)].
      - rewrite Hb in Hp. destruct (states n !! t) as [so|] eqn:Eso; [|discriminate].
        cbn in Hp. eapply vs_PRF0; eauto.
      - apply HPB0. congruence. }
    destruct (Hdec t) as [Hk|Hk].
    + apply tkeys_elem in Hk. destruct Hk as (s & Hk).
      rewrite (notes_proof_in m1 evs t s (x_nodup _ _ _ _ HE) Hk), (x_in _ _ _ _ HE t s Hk). cbn [oproof].
      destruct (s_proof s) as [b|] eqn:Ep; cbn [pz].
      * assert (0 <= b) by (apply (Hpos s (x_in _ _ _ _ HE t s Hk) b Ep)).
        replace (b =? -1) with false by (symmetry; apply Z.eqb_neq; lia). reflexivity.
      * cbn. rewrite (lookup_proof_ext m m1) by exact E6. rewrite (vs_PRF _ _ HS).
        destruct (Ext_proof _ _ _ _ t s HE (x_in _ _ _ _ HE t s Hk)) as [Hp|(b' & Hp & _)]; congruence.
    + rewrite (notes_proof_out m1 evs t Hk), (lookup_proof_ext m m1) by exact E6.
      rewrite (x_out _ _ _ _ HE t Hk). apply (vs_PRF _ _ HS).
  - intros t s b Hs Hb. destruct (Ext_proof _ _ _ _ t s HE Hs) as [Hp|(b' & Hp & HP)].
    + rewrite Hb in Hp. destruct (states n !! t) as [so|] eqn:Eso; [|discriminate].
      cbn in Hp. eapply vs_PRF0; eauto.
    + apply HPB0. congruence.
  - intros t s b Hs Hb. destruct (Ext_back _ _ _ _ t s HE Hs) as [H|[_ H]]; [|eapply vs_PRFB; eauto].
    destruct (Ext_proof _ _ _ _ t s HE Hs) as [Hp|(b' & Hp & HP)].
    + rewrite Hb in Hp. destruct (states n !! t) as [so|] eqn:Eso; [|discriminate].
      cbn in Hp. eapply vs_PRFB; eauto.
    + assert (b' = b) by congruence. subst b'. eapply Hprf; eauto.
  - intros t s body rel Hs HT. destruct (Ext_back _ _ _ _ t s HE Hs) as [[H|H]|[_ H]].
    + destruct (Hnew t s H) as (_ & _ & Hb & _). apply (Hb body rel HT).
    + apply (x_upd _ _ _ _ HE) in H. destruct H as (so & Hso & _ & _ & _ & _ & _ & Ho). rewrite Ho.
      eapply vs_BODY; eauto.
    + eapply vs_BODY; eauto.
Qed.

(* ---------------------------------------------------------------------------------------- *)
(* generic part of the checks on every notification *)
Definition op_local_for (o : op) (t : Z) : bool :=
  match o with OTx t' _ _ SLocal => t' =? t | _ => false end.

Lemma gen_checks (PB : Z -> Prop) n m S' o evs :
  InvS n m ->
  Ext PB (states n) S' evs ->
  (forall t s, ETx t s ∈ evs ->
     exists body, op_tx_info o t = Some (body, true) /\ outs_ok body (s_outs s) = true /\ flags s /\
       (forall so, states n !! t = Some so ->
          limbo m t = true /\ (s_unsafe so = true -> s_unsafe s = true)) /\
       match o with
       | OTx _ _ _ SLocal => True
       | OTx _ _ _ _ => (s_safe s && ev_unconf m o (ev_of (ETx t s))) = false
       | _ => True
       end) ->
  (forall t s, EUpdate t s ∈ evs -> s_safe s = true -> ev_unconf m o (ev_of (EUpdate t s)) = true ->
     t ∉ m_safe m /\
     ((mem t (m_local m) || op_local_for o t) = true \/
      (t ∈ m_vouched m /\ t ∉ m_conflicted m /\
       exists t0, lookup_seen m t = Some t0 /\ dl <= m_clock m - t0))) ->
  first_bad dl m o (map ev_of evs) = 0.
Proof.
  intros HS HE Hnew Hupd. apply first_bad_ok. apply Forall_forall. intros e' He'.
  apply elem_of_list_fmap in He'. destruct He' as (e & -> & He).
  destruct e as [t s|t s|h b].
  - (* new transaction *)
    destruct (Hnew t s He) as (body & Hinfo & Houts & [F1 F2] & Hold & Hloc).
    unfold check_event. set (uc := ev_unconf m o (ev_of (ETx t s))) in *.
    cbn [ev_of e_kind e_safe e_unsafe e_cancel e_t e_outs e_proof].
    cbn [Z.eqb Pos.eqb orb]. rewrite F1.
    assert (Hc2 : (s_cancel s && negb (s_unsafe s)) = false).
    { destruct (s_cancel s); [rewrite (F2 eq_refl)|]; reflexivity. }
    rewrite Hc2.
    assert (H103 : (s_safe s && mem t (m_unsafe m)) = false).
    { destruct (s_safe s) eqn:Es; [|reflexivity]. cbn [andb]. apply mem_false. intros Hin.
      apply (vs_UNS _ _ HS) in Hin. destruct Hin as (so & Hso & Hu).
      destruct (Hold so Hso) as [_ Hm]. rewrite (Hm Hu) in F1. discriminate. }
    rewrite H103, Hinfo. cbn [negb].
    assert (H113 : (mem t (m_delivered m) && negb (limbo m t)) = false).
    { destruct (mem t (m_delivered m)) eqn:Ed; [|reflexivity]. cbn [andb].
      apply mem_elem, (vs_D _ _ HS) in Ed. destruct Ed as (so & Hso).
      destruct (Hold so Hso) as [-> _]. reflexivity. }
    rewrite H113, Houts. cbn [negb].
    destruct o as [t' body' rel' src| | | | | | | | | |]; try reflexivity.
    destruct src; try reflexivity; rewrite Hloc; reflexivity.
  - (* update *)
    destruct (x_upd _ _ _ _ HE t s He) as (so & Hso & Hs1 & Hs2 & Hs3 & _).
    destruct (Hs3 (vs_FL _ _ HS t so Hso)) as [F1 F2].
    unfold check_event. set (uc := ev_unconf m o (ev_of (EUpdate t s))) in *.
    cbn [ev_of e_kind e_safe e_unsafe e_cancel e_t e_outs e_proof].
    cbn [Z.eqb Pos.eqb orb]. rewrite F1.
    assert (Hc2 : (s_cancel s && negb (s_unsafe s)) = false).
    { destruct (s_cancel s); [rewrite (F2 eq_refl)|]; reflexivity. }
    rewrite Hc2.
    assert (H103 : (s_safe s && mem t (m_unsafe m)) = false).
    { destruct (s_safe s) eqn:Es; [|reflexivity]. cbn [andb]. apply mem_false. intros Hin.
      apply (vs_UNS _ _ HS) in Hin. destruct Hin as (so' & Hso' & Hu).
      assert (so' = so) by congruence. subst so'. rewrite (Hs1 Hu) in F1. discriminate. }
    rewrite H103.
    assert (Hd : mem t (m_delivered m) = true).
    { apply mem_elem, (vs_D _ _ HS). eauto. }
    rewrite Hd. cbn [negb].
    destruct (s_safe s) eqn:Es; [|reflexivity]. destruct uc eqn:Eu; [|reflexivity]. cbn [andb].
    destruct (Hupd t s He Es Eu) as [Hns Hw].
    apply mem_false in Hns. rewrite Hns.
    fold (op_local_for o t).
    destruct Hw as [Hw|(Hv1 & Hv2 & t0 & Hv3 & Hv4)]; [rewrite Hw; reflexivity|].
    destruct (mem t (m_local m) || op_local_for o t); [reflexivity|].
    apply mem_elem in Hv1. apply mem_false in Hv2. rewrite Hv1, Hv2, Hv3. cbn [negb].
    destruct (m_clock m - t0 <? dl) eqn:El; [|reflexivity]. apply Z.ltb_lt in El. lia.
  - reflexivity.
Qed.

(* ---------------------------------------------------------------------------------------- *)
(* steps without notifications *)
Lemma InvS_frame n m n' m' :
  InvS n m -> states n' = states n -> (forall b, b ∈ chain n' -> 0 <= b) -> same_ev m m' -> InvS n' m'.
Proof.
  intros HS Hst Hch Hev.
  change m' with (notes m' []).
  apply (gen_states (fun _ => False) n m n' m' []); try assumption.
  - rewrite Hst. apply Ext_nil.
  - intros b [].
  - intros t s H. apply elem_of_nil in H. destruct H.
  - intros t s b H. destruct (tev_in_nil _ _ H).
Qed.

Lemma add_request_trusted s now t tr t' :
  is_trusted (fst (add_request s now t tr)) t' =
  if decide (t' = t) then is_trusted s t || tr else is_trusted s t'.
Proof.
  unfold add_request, is_trusted.
  destruct (txs s !! t) as [m0|] eqn:Em.
  - assert (Hm1 : mtrusted (if tr && negb (mtrusted m0) then MTx (mtime m0) (outpoints m0) true else m0)
                  = mtrusted m0 || tr).
    { destruct (mtrusted m0) eqn:E; destruct tr; cbn; rewrite ?E; reflexivity. }
    destruct (negb (zlen (outpoints m0) =? 0));
      [|destruct (requests s !! t) as [t0|]; [destruct (now - t0 >? REQ_WINDOW)|]];
      cbn [fst txs]; (destruct (decide (t' = t)) as [->|Hne];
        [rewrite lookup_insert; exact Hm1 | rewrite lookup_insert_ne by congruence; reflexivity]).
  - destruct (requests s !! t) as [t0|]; [destruct (now - t0 >? REQ_WINDOW)|];
      cbn [fst txs]; (destruct (decide (t' = t)) as [->|Hne];
        [rewrite lookup_insert; reflexivity | rewrite lookup_insert_ne by congruence; reflexivity]).
Qed.

Lemma step_simple_monitor m o c rest :
  carries_events o = false ->
  monitor_step dl m o (c :: rest) =
  let '(code, m1) :=
    match o with
    | OInv t trusted =>
        (0, if trusted && m_insync m
            then MS (m_pool m) (m_delivered m) (m_live m) (m_seen m) (add_z t (m_vouched m)) (m_conflicted m)
                    (m_unsafe m) (m_safe m) (m_local m) (m_clock m) (m_insync m) (m_chain m)
                    (add_z t (m_vnow m)) (m_vpersist m) (m_proofs m) (m_body m)
            else m)
    | OAdvance dt => (0, MS (m_pool m) (m_delivered m) (m_live m) (m_seen m) (m_vouched m) (m_conflicted m)
                           (m_unsafe m) (m_safe m) (m_local m) (m_clock m + dt) (m_insync m) (m_chain m)
                           (m_vnow m) (m_vpersist m) (m_proofs m) (m_body m))
    | OSetInSync b => (0, set_insync m b)
    | ORestart =>
        ((if c =? OK then 0 else 128),
            MS (reload_pool m) (m_delivered m) (m_live m) (m_seen m) (m_vouched m) (m_conflicted m)
               (m_unsafe m) (m_safe m) (m_local m) (m_clock m) false (m_chain m) (m_vpersist m) (m_vpersist m)
               (m_proofs m) (m_body m))
    | OGetTx t => ((if mem t (m_delivered m) && negb (c =? OK) then 171 else 0), m)
    | _ => (0, m)
    end in (code, m1).
Proof.
  intros Hc. unfold monitor_step. rewrite Hc. cbn [hd].
  destruct o; try discriminate; cbn [pre_step first_bad fold_left Z.eqb negb]; reflexivity.
Qed.

Lemma step_advance n m dt : Inv n m -> 0 <= dt ->
  exists m', monitor_step dl m (OAdvance dt) [OK] = (0, m') /\
    Inv (Node (mp n) (unconf n) (states n) (blocktxs n) (chain n) (insync n) (now n + dt) (delay n)) m'.
Proof.
  intros [HS HU] Hdt. rewrite step_simple_monitor by reflexivity. eexists. split; [reflexivity|].
  split.
  - eapply InvS_frame; [exact HS|reflexivity|apply (vs_chain0 _ _ HS)|]. repeat split.
  - destruct HU. split; cbn; try assumption. congruence.
Qed.

Lemma Inv_setsync n m b : Inv n m ->
  Inv (Node (mp n) (unconf n) (states n) (blocktxs n) (chain n) b (now n) (delay n)) (set_insync m b).
Proof.
  intros [HS HU]. split.
  - eapply InvS_frame; [exact HS|reflexivity|apply (vs_chain0 _ _ HS)|]. repeat split.
  - destruct HU. split; cbn; try assumption. reflexivity.
Qed.

Lemma step_setsync n m b : Inv n m ->
  exists m', monitor_step dl m (OSetInSync b) [OK] = (0, m') /\
    Inv (Node (mp n) (unconf n) (states n) (blocktxs n) (chain n) b (now n) (delay n)) m'.
Proof.
  intros HI. rewrite step_simple_monitor by reflexivity. eexists. split; [reflexivity|].
  apply Inv_setsync, HI.
Qed.

Lemma step_gettx n m t : Inv n m ->
  exists m', monitor_step dl m (OGetTx t) (match states n !! t with Some _ => [OK; t] | None => [ERR] end)
             = (0, m') /\ Inv n m'.
Proof.
  intros [HS HU]. destruct (states n !! t) as [s|] eqn:Es.
  - rewrite step_simple_monitor by reflexivity. cbn. rewrite andb_false_r.
    exists m. split; [reflexivity|]. split; assumption.
  - rewrite step_simple_monitor by reflexivity.
    replace (mem t (m_delivered m)) with false.
    + exists m. split; [reflexivity|]. split; assumption.
    + symmetry. apply mem_false.
      intros Hin. apply (vs_D _ _ HS) in Hin. rewrite Es in Hin. destruct Hin. discriminate.
Qed.

Lemma step_unconf n m ob : Inv n m ->
  exists m', monitor_step dl m OUnconf ob = (0, m') /\ Inv n m'.
Proof.
  intros HI. unfold monitor_step. cbn [carries_events pre_step]. cbn [first_bad fold_left Z.eqb negb].
  exists m. split; [reflexivity|exact HI].
Qed.

Lemma step_blocktxs n m h ob : Inv n m ->
  exists m', monitor_step dl m (OBlockTxs h) ob = (0, m') /\ Inv n m'.
Proof.
  intros HI. unfold monitor_step. cbn [carries_events pre_step]. cbn [first_bad fold_left Z.eqb negb].
  exists m. split; [reflexivity|exact HI].
Qed.

Lemma fold_left_ext_in {A B} (f g : A -> B -> A) l : forall a,
  (forall a x, x ∈ l -> f a x = g a x) -> fold_left f l a = fold_left g l a.
Proof.
  induction l as [|x l IH]; intros a H; [reflexivity|]. cbn. rewrite (H a x) by left.
  apply IH. intros a' x' Hx'. apply H. right. exact Hx'.
Qed.

Lemma step_restart n m : Inv n m ->
  exists m', monitor_step dl m ORestart [OK] = (0, m') /\ Inv (restart n) m'.
Proof.
  intros [HS HU]. rewrite step_simple_monitor by reflexivity. eexists. split; [reflexivity|].
  (* the mempool after load and the bodies the monitor expects to be held *)
  assert (Hkeys : sort_z (m_live m) = sorted_keys (unconf n)).
  { apply sort_z_keys; [apply (vu_LND _ _ HU)|apply (vu_L _ _ HU)]. }
  assert (Hlive : forall t, t ∈ sorted_keys (unconf n) ->
            exists u s, unconf n !! t = Some u /\ states n !! t = Some s /\ lookup_body m t = Some (s_body s)).
  { intros t Ht. apply sorted_keys_elem in Ht. destruct Ht as (u & Hu).
    destruct (vu_BODY _ _ HU t u Hu) as (s & Hs & Hb). eauto. }
  assert (Hre : reload n = fold_left (fun mm t => match lookup_body m t with
                                                   | Some b => fst (add_transaction mm (now n) t b false)
                                                   | None => mm end) (sorted_keys (unconf n)) mp_init).
  { unfold reload. apply fold_left_ext_in. intros mm t Ht.
    destruct (Hlive t Ht) as (u & s & _ & Hs & Hb). rewrite Hs, Hb. reflexivity. }
  destruct (reload_spec (lookup_body m) (now n) (sorted_keys (unconf n)) mp_init [] (sorted_keys_NoDup _) R_init)
    as [HRr Htr].
  { intros t _. reflexivity. }
  { intros x. unfold is_trusted. cbn. rewrite lookup_empty. reflexivity. }
  cbv zeta in HRr, Htr. rewrite <- Hre in HRr, Htr. cbn [app] in HRr.
  assert (Hpool : forall t b, (t, b) ∈ reload_pool m ->
            exists u s, unconf n !! t = Some u /\ states n !! t = Some s /\ b = s_body s).
  { intros t b Hin. unfold reload_pool in Hin. rewrite Hkeys in Hin. apply elem_of_list_omap in Hin.
    destruct Hin as (t' & Ht' & He). destruct (Hlive t' Ht') as (u & s & Hu & Hs & Hb). rewrite Hb in He.
    destruct (zlen (s_body s) =? 0); [discriminate|]. inversion He. subst. eauto. }
  split.
  - eapply InvS_frame; [exact HS|reflexivity|apply (vs_chain0 _ _ HS)|]. repeat split.
  - destruct HU as [Uclock Usync Uchain Udelay UR UpoolT UpoolS UL UUS USU USEEN USAFE1 USAFE2 USAFE3 UVCH UVCH2 UVNOW
                     UVPER UUUNS UCONF UHELD UBODY ULND].
    split; cbn [restart mp unconf states chain insync now delay m_pool m_delivered m_live m_seen m_vouched
                m_conflicted m_unsafe m_safe m_local m_clock m_insync m_chain m_vnow m_vpersist m_proofs m_body];
      try assumption; try reflexivity.
    + unfold reload_pool. rewrite Hkeys. exact HRr.
    + intros t b Hin. destruct (Hpool t b Hin) as (u & s & Hu & Hs & ->).
      destruct (vs_REL _ _ HS t) as (body & HT); [eauto|]. exists true.
      rewrite (vs_BODY _ _ HS t s body true Hs HT). exact HT.
    + intros t b Hin _. destruct (Hpool t b Hin) as (u & s & Hu & Hs & _). eauto.
    + intros t H. rewrite Htr in H. discriminate.
    + intros t Hin. destruct (UVPER t Hin) as [H|(s & Hs & Hp)]; [auto|].
      right. right. left. exists s. auto.
    + intros t b s Hin _. destruct (Hpool t b Hin) as (u & s' & Hu & _). eauto.
Qed.

Lemma step_inv n m t trusted : Inv n m ->
  let r := (if insync n || negb trusted then
              let '(m1, (have, req)) := add_request (mp n) (now n) t trusted in
              (set_mp n m1, [OK; b2z req; b2z (negb have && negb req)])
            else (n, [OK; 0; 0])) in
  exists m', monitor_step dl m (OInv t trusted) (snd r) = (0, m') /\ Inv (fst r) m'.
Proof.
  intros [HS HU]. cbv zeta.
  assert (Hmon : forall a b c, monitor_step dl m (OInv t trusted) [a; b; c] =
     (0, if trusted && m_insync m
            then MS (m_pool m) (m_delivered m) (m_live m) (m_seen m) (add_z t (m_vouched m)) (m_conflicted m)
                    (m_unsafe m) (m_safe m) (m_local m) (m_clock m) (m_insync m) (m_chain m)
                    (add_z t (m_vnow m)) (m_vpersist m) (m_proofs m) (m_body m)
            else m)).
  { intros a b c. rewrite step_simple_monitor by reflexivity. reflexivity. }
  pose proof (vu_sync _ _ HU) as Hsync.
  destruct (insync n || negb trusted) eqn:Eg.
  - pose proof (add_request_view (mp n) (now n) t trusted) as Hview. cbv zeta in Hview.
    pose proof (add_request_trusted (mp n) (now n) t trusted) as Htr.
    destruct (add_request (mp n) (now n) t trusted) as [m1 [have req]]. cbn [fst snd] in *.
    destruct Hview as [Hv1 Hv2].
    rewrite Hmon. eexists. split; [reflexivity|].
    rewrite Hsync.
    assert (HR' : R m1 (m_pool m)) by (apply (R_same_view (mp n)); [apply (vu_R _ _ HU)|exact Hv1|exact Hv2]).
    destruct (trusted && insync n) eqn:Et.
    + apply andb_true_iff in Et. destruct Et as [-> Esy].
      split.
      * eapply InvS_frame; [exact HS|reflexivity|apply (vs_chain0 _ _ HS)|]. repeat split.
      * destruct HU. split; cbn; try assumption; try reflexivity.
        -- intros t' u H1 H2. apply add_z_elem. left. eapply vu_VCH0; eauto.
        -- intros t' H. rewrite Htr in H. apply add_z_elem. destruct (decide (t' = t)); auto.
        -- intros t' H. apply add_z_elem in H. rewrite Htr. destruct (decide (t' = t)) as [->|Hne].
           ++ left. apply orb_true_r.
           ++ destruct H as [H|H]; [|contradiction]. apply vu_VNOW0 in H. exact H.
    + assert (Hsame : forall t', is_trusted m1 t' = true -> is_trusted (mp n) t' = true).
      { intros t'. rewrite Htr. destruct (decide (t' = t)) as [->|Hne]; [|auto].
        destruct trusted; [|rewrite orb_false_r; auto].
        cbn in Et. rewrite Et in Eg. discriminate. }
      assert (Hmono : forall t', is_trusted (mp n) t' = true -> is_trusted m1 t' = true).
      { intros t' H. rewrite Htr. destruct (decide (t' = t)) as [->|Hne]; [rewrite H; reflexivity|exact H]. }
      split.
      * eapply InvS_frame; [exact HS|reflexivity|apply (vs_chain0 _ _ HS)|]. repeat split.
      * destruct HU. split; cbn; try assumption.
        -- intros t' H. apply vu_VCH3, Hsame, H.
        -- intros t' H. destruct (vu_VNOW0 t' H) as [H'|H']; [left; apply Hmono, H'|right; exact H'].
  - apply orb_false_iff in Eg. destruct Eg as [Esy Etr]. apply negb_false_iff in Etr. subst trusted.
    cbn [fst snd]. rewrite Hmon, Hsync, Esy. cbn [andb]. exists m. split; [reflexivity|]. split; assumption.
Qed.

(* ---------------------------------------------------------------------------------------- *)
(* helpers for steps with notifications *)
Lemma notes_unsafe_mono m evs t : t ∈ m_unsafe m -> t ∈ m_unsafe (notes m evs).
Proof. intros H. apply notes_unsafe. auto. Qed.

Lemma monitor_step_events m o c evs :
  carries_events o = true -> (forall b p txs v, o <> OReorg b p txs v) ->
  monitor_step dl m o (c :: enc_events evs) =
  let es := map ev_of evs in
  let bad := first_bad dl m o es in
  if negb (bad =? 0) then (bad, m) else
  let '(code, m1) :=
    match o with
    | OTx t body rel s => if c =? OK then tx_step dl m t body rel s es else (198, m)
    | OBlock b prev txs valid =>
        if c =? OK then block_step m b txs es
        else ((if negb (zlen es =? 0) then 154 else 0), m)
    | ODelayCheck => (delay_step dl m es, m)
    | _ => (0, m)
    end in
  (code, fold_left note_event es m1).
Proof.
  intros Hc Ho. unfold monitor_step. rewrite Hc.
  destruct o; try discriminate; try (exfalso; eapply Ho; reflexivity);
    cbn [obs_events pre_step]; rewrite decode_enc; reflexivity.
Qed.

Lemma monitor_step_reorg m b prev txs valid c i h tp evs :
  monitor_step dl m (OReorg b prev txs valid) (c :: i :: h :: tp :: enc_events evs) =
  let '(m0, proc) := header_step m b prev in
  let es := map ev_of evs in
  let bad := first_bad dl m0 (OReorg b prev txs valid) es in
  if negb (bad =? 0) then (bad, m) else
  let '(code, m1) :=
    if proc then
      (if c =? OK then block_step m0 b txs es else ((if negb (zlen es =? 0) then 154 else 0), m0))
    else ((if c =? OK then 155 else if negb (zlen es =? 0) then 154 else 0), m0) in
  (code, fold_left note_event es m1).
Proof.
  unfold monitor_step. cbn [carries_events obs_events pre_step]. rewrite decode_enc. reflexivity.
Qed.

(* at most one notification per transaction *)
Lemma Ext_no_both PB S0 S evs x s s' : Ext PB S0 S evs -> ETx x s ∈ evs -> EUpdate x s' ∈ evs -> False.
Proof.
  intros HE H Hup. pose proof (x_nodup _ _ _ _ HE) as Hk.
  apply elem_of_list_split in H. destruct H as (l1 & l2 & ->).
  rewrite tkeys_app in Hk. cbn in Hk. apply NoDup_app in Hk. destruct Hk as (_ & Hd & Hk2).
  apply NoDup_cons in Hk2. destruct Hk2 as [Hk2 _].
  apply elem_of_app in Hup. destruct Hup as [Hup|Hup].
  - apply (Hd x); [apply tkeys_elem; exists s'; right; exact Hup|left].
  - apply elem_of_cons in Hup. destruct Hup as [Hup|Hup]; [discriminate|].
    apply Hk2, tkeys_elem. exists s'. right. exact Hup.
Qed.

Lemma confirmed_iff n t : confirmed n t = true <-> exists s, states n !! t = Some s /\ conf n s.
Proof.
  unfold confirmed, conf, in_chain. destruct (states n !! t) as [s|].
  - destruct (s_proof s) as [b|] eqn:Ep.
    + rewrite mem_elem. split.
      * intros H. exists s. split; [reflexivity|]. exists b. auto.
      * intros (s' & Hs' & b' & Hb' & Hc). inversion Hs'. subst s'. congruence.
    + split; [discriminate|]. intros (s' & Hs' & b' & Hb' & _). inversion Hs'. subst s'. congruence.
  - split; [discriminate|]. intros (s' & Hs' & _). discriminate.
Qed.

(* ---------------------------------------------------------------------------------------- *)
(* the delay check *)
Lemma step_delay n m : Inv n m ->
  exists m', monitor_step dl m ODelayCheck (OK :: enc_events (snd (delay_check n))) = (0, m') /\
             Inv (fst (delay_check n)) m'.
Proof.
  intros [HS HU]. rewrite monitor_step_events by (try reflexivity; discriminate). cbv zeta.
  unfold delay_check. destruct (insync n) eqn:Esync; cbn [negb].
  2:{ cbn [snd fst map]. cbn [first_bad fold_left Z.eqb negb].
      unfold delay_step. rewrite (vu_sync _ _ HU), Esync. cbn.
      exists m. split; [reflexivity|]. split; assumption. }
  pose proof (delay_loop_spec (fun _ => False) (states n) (now n - delay n) (sorted_keys (unconf n))
                (sorted_keys_NoDup _) n []) as Hspec.
  destruct (delay_loop n (now n - delay n) (sorted_keys (unconf n)) []) as [n' evs0].
  destruct (Hspec n' evs0 eq_refl) as (Hmp & Hmisc & Hunc & HE & evs & Hacc & Hev1 & Hev2).
  { intros c _. apply not_elem_of_nil. }
  { apply Ext_nil. }
  simpl in Hacc. subst evs0. cbn [fst snd]. clear Hspec.
  destruct Hmisc as (Hch & Hsy & Hnow & Hdl).
  set (cutoff := now n - delay n) in *.
  pose proof (vs_chain0 _ _ HS) as Hch0.
  (* facts about a fired key *)
  assert (Hfired : forall x u, unconf n !! x = Some u -> dcond n cutoff x u = true ->
            u_safe u = false /\ u_unsafe u = false /\ dl <= m_clock m - u_time u /\
            x ∈ m_vouched m).
  { intros x u Hu Hd. unfold dcond in Hd. rewrite !andb_true_iff in Hd.
    destruct Hd as [[[H1 H2] H3] H4]. apply negb_true_iff in H1, H2. apply Z.ltb_lt in H3.
    split; [exact H1|]. split; [exact H2|]. split.
    - subst cutoff. rewrite (vu_clock _ _ HU), <- (vu_delay _ _ HU). lia.
    - apply orb_true_iff in H4. destruct H4 as [H4|H4]; [eapply vu_VCH; eauto|eapply vu_VCH2; eauto]. }
  assert (Hkeys : forall x u, unconf n !! x = Some u -> x ∈ sorted_keys (unconf n)).
  { intros x u Hu. apply sorted_keys_elem. eauto. }
  assert (Hnotx : forall t s, ETx t s ∈ evs -> False).
  { intros t s H. destruct (Hev1 t s (or_introl H)) as (_ & Hup & _). eapply Ext_no_both; eauto. }
  assert (Hevp : forall t s, tev_in evs t s -> ~ conf n s /\ s_safe s = true /\ s_unsafe s = false /\
                   exists u so, unconf n !! t = Some u /\ dcond n cutoff t u = true /\
                                states n !! t = Some so /\ s = mk_safe_s so).
  { intros t s H. destruct (Hev1 t s H) as (_ & _ & u & so & Hu & Hd & Hso & Hns & ->).
    destruct (vu_US _ _ HU t) as (so' & Hso' & Hp); [eauto|].
    assert (so' = so) by congruence. subst so'. apply orb_false_iff in Hns.
    split; [exact Hp|]. split; [reflexivity|]. split; [apply Hns|]. eauto 10. }
  assert (Hcnf : forall t s, tev_in evs t s -> cnf (m_chain m) s = false).
  { intros t s H. rewrite (vu_chain _ _ HU). apply (cnf_false n s Hch0). apply (Hevp t s H). }
  (* the checks on the notifications *)
  assert (Hbad : first_bad dl m ODelayCheck (map ev_of evs) = 0).
  { apply (gen_checks (fun _ => False) n m (states n')); [exact HS|exact HE| |].
    - intros t s H. destruct (Hnotx t s H).
    - intros t s H Hsafe _. destruct (Hevp t s (or_intror H)) as (Hp & _ & _ & u & so & Hu & Hd & Hso & ->).
      destruct (Hfired t u Hu Hd) as (F1 & F2 & F3 & F4).
      split.
      + intros Hin. rewrite (vu_SAFE1 _ _ HU t u Hin Hu) in F1. discriminate.
      + right. split; [exact F4|]. split.
        * intros Hin. destruct (vu_CONF _ _ HU t Hin) as (s' & Hs' & Hc).
          { apply (vs_REL _ _ HS). eauto. }
          assert (s' = so) by congruence. subst s'.
          destruct (Hev1 t _ (or_intror H)) as (_ & _ & u' & so' & _ & _ & Hso' & Hns & Heq).
          assert (so' = so) by congruence. subst so'. apply orb_false_iff in Hns.
          destruct Hns; congruence.
        * exists (u_time u). split; [eapply vu_SEEN; eauto|exact F3]. }
  rewrite Hbad. cbn [Z.eqb negb].
  (* liveness: everything whose conditions hold is reported *)
  assert (Hstep : delay_step dl m (map ev_of evs) = 0).
  { unfold delay_step. rewrite (vu_sync _ _ HU), Esync. cbn [negb].
    assert (H127 : has_ev (map ev_of evs)
                     (fun e => ((e_kind e =? 1) || (e_kind e =? 2)) && mem (e_proof e) (m_chain m)) = false).
    { apply has_ev_false_map. intros e He. destruct e as [t s|t s|h b]; [destruct (Hnotx t s He)| |reflexivity].
      cbn [ev_of e_kind e_proof Z.eqb Pos.eqb orb andb]. apply (Hcnf t s). right. exact He. }
    rewrite H127.
    match goal with |- (if ?c then _ else _) = _ => assert (Hc : c = false); [|rewrite Hc; reflexivity] end.
    apply existsb_false_iff. intros t Ht.
    destruct (mem t (m_vnow m)) eqn:C1; [|reflexivity].
    destruct (mem t (m_conflicted m)) eqn:C2; [reflexivity|].
    destruct (mem t (m_unsafe m)) eqn:C3; [reflexivity|].
    destruct (mem t (m_safe m)) eqn:C4; [reflexivity|].
    apply mem_elem in C1. apply mem_false in C2, C3, C4. cbn [negb andb].
    apply (vu_L _ _ HU) in Ht. destruct Ht as (u & Hu).
    rewrite (vu_SEEN _ _ HU t u Hu).
    destruct (m_clock m - u_time u >? dl) eqn:C5; [|reflexivity]. cbn [andb].
    apply negb_false_iff.
    destruct (vu_US _ _ HU t) as (so & Hso & Hp); [eauto|].
    assert (Hnu : s_unsafe so = false).
    { destruct (s_unsafe so) eqn:E; [|reflexivity]. destruct C3. apply (vs_UNS _ _ HS). eauto. }
    assert (Hnc : s_cancel so = false).
    { destruct (s_cancel so) eqn:E; [|reflexivity].
      destruct (vs_FL _ _ HS t so Hso) as [_ F2]. rewrite (F2 E) in Hnu. discriminate. }
    assert (Hd : dcond n cutoff t u = true).
    { unfold dcond. rewrite !andb_true_iff. split; [split; [split|]|].
      - apply negb_true_iff. destruct (u_safe u) eqn:E; [|reflexivity].
        destruct (vu_SAFE2 _ _ HU t u Hu E); contradiction.
      - apply negb_true_iff. destruct (u_unsafe u) eqn:E; [|reflexivity].
        destruct C3. eapply vu_UUNS; eauto.
      - apply Z.ltb_lt. subst cutoff. rewrite <- (vu_clock _ _ HU), (vu_delay _ _ HU). lia.
      - destruct (vu_VNOW _ _ HU t C1) as [H|[(u' & Hu' & H)|[(s & Hs & H)|H]]].
        + rewrite H. apply orb_true_r.
        + assert (u' = u) by congruence. subst u'. rewrite H. reflexivity.
        + assert (s = so) by congruence. subst s. destruct H as [H|H]; [congruence|contradiction].
        + destruct H. apply (vs_REL _ _ HS). eauto. }
    apply has_ev_map. exists (EUpdate t (mk_safe_s so)). split.
    - apply (Hev2 t u so); [eapply Hkeys; eauto|exact Hu|exact Hd|exact Hso|rewrite Hnu, Hnc; reflexivity].
    - cbn. rewrite Z.eqb_refl. reflexivity. }
  rewrite Hstep. fold (notes m evs). eexists. split; [reflexivity|].
  destruct (notes_frame m evs) as (N1 & N2 & N3 & N4 & N5 & N6 & N7 & N8 & N9 & N10). cbv zeta in *.
  assert (Hdom : forall x, is_Some (unconf n' !! x) <-> is_Some (unconf n !! x)).
  { intros x. rewrite Hunc. unfold delay_unconf. destruct (unconf n !! x) as [u|]; [|reflexivity].
    destruct (_ && _); split; eauto. }
  assert (Hun' : forall x u', unconf n' !! x = Some u' ->
            exists u, unconf n !! x = Some u /\ u_time u' = u_time u /\ u_trusted u' = u_trusted u /\
                      u_unsafe u' = u_unsafe u /\
                      ((u' = u /\ (x ∈ sorted_keys (unconf n) -> dcond n cutoff x u = false)) \/
                       (u' = mk_safe_u u /\ dcond n cutoff x u = true))).
  { intros x u'. rewrite Hunc. unfold delay_unconf. destruct (unconf n !! x) as [u|]; [|discriminate].
    destruct (bool_decide (x ∈ sorted_keys (unconf n))) eqn:Eb; cbn [andb].
    - destruct (dcond n cutoff x u) eqn:Ed; intros [= <-]; exists u; cbn; auto 10.
    - intros [= <-]. exists u. apply bool_decide_eq_false in Eb.
      split; [reflexivity|]. repeat (split; [reflexivity|]). left. split; [reflexivity|]. intros; contradiction. }
  (* stored states: the proof of every state is unchanged *)
  assert (Hpsame : forall x s, states n' !! x = Some s -> exists so, states n !! x = Some so /\ s_proof s = s_proof so /\
                     (s_unsafe so = true -> s_unsafe s = true) /\ (x ∉ tkeys evs -> s = so)).
  { intros x s Hs. destruct (Ext_back _ _ _ _ x s HE Hs) as [[H|H]|[Hk H]].
    - destruct (Hnotx x s H).
    - destruct (x_upd _ _ _ _ HE x s H) as (so & Hso & K1 & _ & _ & [Hp|(b & _ & [])] & _).
      exists so. split; [exact Hso|]. split; [exact Hp|]. split; [exact K1|].
      intros Hk. destruct Hk. apply tkeys_elem. exists s. right. exact H.
    - exists s. auto. }
  assert (Hfwd : forall x so, states n !! x = Some so -> exists s, states n' !! x = Some s /\ s_proof s = s_proof so /\
                     (s_unsafe so = true -> s_unsafe s = true)).
  { intros x so Hso. destruct (Ext_some _ _ _ _ x HE (ex_intro _ so Hso)) as (s & Hs).
    destruct (Hpsame x s Hs) as (so' & Hso' & K1 & K2 & _). assert (so' = so) by congruence. subst so'.
    exists s. auto. }
  assert (Hconf' : forall s, conf n' s <-> conf n s).
  { intros s. unfold conf. rewrite Hch. reflexivity. }
  split.
  - apply (gen_states (fun _ => False) n m n' m evs); try assumption.
    + apply same_ev_refl.
    + rewrite Hch. exact Hch0.
    + intros b [].
    + intros t s H. destruct (Hnotx t s H).
    + intros t s b _ _ [].
  - split.
    + rewrite N5, Hnow. apply (vu_clock _ _ HU).
    + rewrite N6, Hsy. apply (vu_sync _ _ HU).
    + rewrite N7, Hch. apply (vu_chain _ _ HU).
    + rewrite Hdl. apply (vu_delay _ _ HU).
    + rewrite N1, Hmp. apply (vu_R _ _ HU).
    + rewrite N1. apply (vu_poolT _ _ HU).
    + rewrite N1. intros t b Hin Hrel. eapply Ext_some; [exact HE|]. eapply vu_poolS; eauto.
    + intros t. rewrite (notes_live_add m evs t Hcnf), Hdom, (vu_L _ _ HU). split; [|auto].
      intros [H|(s & H)]; [exact H|]. destruct (Hnotx t s H).
    + intros t Ht. apply Hdom in Ht. destruct (vu_US _ _ HU t Ht) as (so & Hso & Hp).
      destruct (Hfwd t so Hso) as (s & Hs & Hps & _). exists s. split; [exact Hs|].
      rewrite Hconf'. intros Hc. apply Hp. eapply conf_same_proof; [|exact Hc]. congruence.
    + intros t s Hs Hp. apply Hdom. destruct (Hpsame t s Hs) as (so & Hso & Hps & _).
      eapply vu_SU; eauto. congruence.
    + intros t u' Hu'. destruct (Hun' t u' Hu') as (u & Hu & Ht & _).
      rewrite Ht. rewrite notes_seen_old; [eapply vu_SEEN; eauto|].
      intros s H. destruct (Hnotx t s H).
    + intros t u' Hin Hu'. destruct (Hun' t u' Hu') as (u & Hu & _ & _ & _ & [[-> _]|[-> _]]); [|reflexivity].
      apply (notes_safe m evs t (x_nodup _ _ _ _ HE)) in Hin.
      destruct Hin as [[Hin _]|(s & Hs & _)]; [eapply vu_SAFE1; eauto|].
      destruct (Hevp t s Hs) as (_ & _ & _ & u0 & so & Hu0 & Hd0 & _).
      assert (u0 = u) by congruence. subst u0.
      destruct (Hun' t u Hu') as (u1 & Hu1 & _ & _ & _ & [[_ Hc]|[Hc _]]).
      * assert (u1 = u) by congruence. subst u1. rewrite Hc in Hd0; [discriminate|eapply Hkeys; eauto].
      * rewrite Hc. reflexivity.
    + intros t u' Hu' Hsafe. destruct (Hun' t u' Hu') as (u & Hu & _ & _ & _ & [[-> _]|[-> Hd]]).
      * destruct (vu_SAFE2 _ _ HU t u Hu Hsafe) as [H|H]; [|right; apply notes_unsafe_mono, H].
        left. apply (notes_safe m evs t (x_nodup _ _ _ _ HE)). left. split; [exact H|].
        intros s Hs. destruct (Hnotx t s Hs).
      * destruct (vu_US _ _ HU t) as (so & Hso & Hp); [eauto|].
        destruct (s_unsafe so || s_cancel so) eqn:Eus.
        -- right. apply notes_unsafe_mono, (vs_UNS _ _ HS). exists so. split; [exact Hso|].
           apply orb_true_iff in Eus. destruct Eus as [H|H]; [exact H|].
           apply (vs_FL _ _ HS t so Hso), H.
        -- left. apply (notes_safe m evs t (x_nodup _ _ _ _ HE)). right. exists (mk_safe_s so). split.
           ++ right. eapply Hev2; eauto.
           ++ rewrite (Hcnf t (mk_safe_s so)); [reflexivity|]. right. eapply Hev2; eauto.
    + intros t u' s Hu' Hs Hsafe. destruct (Hun' t u' Hu') as (u & Hu & _).
      apply (notes_safe m evs t (x_nodup _ _ _ _ HE)).
      destruct (Ext_back _ _ _ _ t s HE Hs) as [H|[Hk H]].
      * right. exists s. split; [exact H|]. rewrite Hsafe, (Hcnf t s H). reflexivity.
      * left. split; [eapply vu_SAFE3; eauto|]. intros s' Hs'. destruct (Hnotx t s' Hs').
    + rewrite N2. intros t u' Hu' Htr. destruct (Hun' t u' Hu') as (u & Hu & _ & Ht & _).
      rewrite Ht in Htr. eapply vu_VCH; eauto.
    + rewrite N2, Hmp. apply (vu_VCH2 _ _ HU).
    + rewrite N8, Hmp. intros t Hin.
      destruct (vu_VNOW _ _ HU t Hin) as [H|[(u & Hu & H)|[(s & Hs & H)|H]]]; [auto| | |auto].
      * right. left. assert (Hs : is_Some (unconf n' !! t)) by (apply Hdom; eauto).
        destruct Hs as (u' & Hu'). destruct (Hun' t u' Hu') as (u0 & Hu0 & _ & Ht & _).
        exists u'. split; [exact Hu'|]. congruence.
      * right. right. left. destruct (Hfwd t s Hs) as (s' & Hs' & K1 & K2).
        exists s'. split; [exact Hs'|]. destruct H as [H|H]; [auto|].
        right. rewrite Hconf'. eapply conf_same_proof; eauto.
    + rewrite N9. intros t Hin. destruct (vu_VPER _ _ HU t Hin) as [(u & Hu & H)|(s & Hs & H)].
      * left. assert (Hs : is_Some (unconf n' !! t)) by (apply Hdom; eauto).
        destruct Hs as (u' & Hu'). destruct (Hun' t u' Hu') as (u0 & Hu0 & _ & Ht & _).
        exists u'. split; [exact Hu'|]. congruence.
      * right. destruct (Hfwd t s Hs) as (s' & Hs' & K1 & K2). exists s'. split; [exact Hs'|].
        rewrite Hconf'. eapply conf_same_proof; eauto.
    + intros t u' Hu' Hun. destruct (Hun' t u' Hu') as (u & Hu & _ & _ & Ht & _).
      rewrite Ht in Hun. apply notes_unsafe_mono. eapply vu_UUNS; eauto.
    + rewrite N3. intros t Hin Hrel. destruct (vu_CONF _ _ HU t Hin Hrel) as (s & Hs & H).
      destruct (Hfwd t s Hs) as (s' & Hs' & K1 & K2).
      exists s'. split; [exact Hs'|]. auto.
    + rewrite N1. intros t b s Hin Hs. apply Hdom. destruct (Hpsame t s Hs) as (so & Hso & _).
      eapply (vu_HELD _ _ HU t b so Hin Hso).
    + intros t u' Hu'. destruct (Hun' t u' Hu') as (u & Hu & _).
      destruct (vu_BODY _ _ HU t u Hu) as (so & Hso & Hb).
      destruct (Ext_some _ _ _ _ t HE (ex_intro _ so Hso)) as (s & Hs). exists s. split; [exact Hs|].
      unfold lookup_body. rewrite N10. fold (lookup_body m t). rewrite Hb. f_equal.
      destruct (Ext_back _ _ _ _ t s HE Hs) as [[H|H]|[_ H]].
      * destruct (Hnotx t s H).
      * destruct (x_upd _ _ _ _ HE t s H) as (so' & Hso' & _ & _ & _ & _ & _ & Hbd). congruence.
      * congruence.
    + apply notes_live_NoDup, (vu_LND _ _ HU).
Qed.

End Flow.
