(* Proofs for the transaction pipeline monitors, part 2: what the model's functions do to the
   stored states, the unconfirmed set and the list of notifications. *)
From V.lib Require Import Base.
From V.model Require Import MemPool MemPoolSpec TxFlow TxFlowSpec.
From V.proofs Require Import MemPool_Proofs TxFlow_Base.
From stdpp Require sorting.

(* ---------------------------------------------------------------------------------------- *)
(* sorted_keys *)
Lemma insert_kv_perm {A} (kv : Z * A) l : insert_kv kv l ≡ₚ kv :: l.
Proof.
  induction l as [|x l IH]; [reflexivity|].
  simpl. destruct (fst kv <=? fst x); [reflexivity|].
  rewrite IH. apply perm_swap.
Qed.

Lemma sort_kv_perm' {A} (l : list (Z * A)) : sort_kv l ≡ₚ l.
Proof.
  induction l as [|x l IH]; [reflexivity|].
  unfold sort_kv in *. simpl. rewrite insert_kv_perm, IH. reflexivity.
Qed.

Lemma sorted_keys_perm {A} (m : gmap Z A) : sorted_keys m ≡ₚ (map_to_list m).*1.
Proof. unfold sorted_keys. apply fmap_Permutation, sort_kv_perm'. Qed.

Lemma sorted_keys_elem {A} (m : gmap Z A) x : x ∈ sorted_keys m <-> is_Some (m !! x).
Proof.
  rewrite sorted_keys_perm, elem_of_list_fmap. split.
  - intros ([k a] & -> & H). apply elem_of_map_to_list in H. simpl. eauto.
  - intros (a & H). exists (x, a). split; [reflexivity|]. apply elem_of_map_to_list, H.
Qed.

Lemma sorted_keys_NoDup {A} (m : gmap Z A) : NoDup (sorted_keys m).
Proof. rewrite sorted_keys_perm. apply NoDup_fst_map_to_list. Qed.

(* the sorted keys are determined by the set of keys *)
Lemma insert_kv_sorted {A} (kv : Z * A) l :
  Sorted.StronglySorted Z.le (map fst l) -> Sorted.StronglySorted Z.le (map fst (insert_kv kv l)).
Proof.
  induction l as [|x l IH]; intros H; simpl.
  - repeat constructor.
  - destruct (fst kv <=? fst x) eqn:E.
    + apply Z.leb_le in E. simpl. constructor; [exact H|].
      apply Sorted.StronglySorted_inv in H. destruct H as [_ H]. constructor; [exact E|].
      eapply Forall_impl; [exact H|]. intros y Hy. simpl in *. lia.
    + apply Z.leb_gt in E. simpl. apply Sorted.StronglySorted_inv in H. destruct H as [H1 H2].
      constructor; [apply IH, H1|].
      assert (Hp : map fst (insert_kv kv l) ≡ₚ fst kv :: map fst l).
      { rewrite insert_kv_perm. reflexivity. }
      rewrite Hp. constructor; [lia|exact H2].
Qed.

Lemma sort_kv_sorted {A} (l : list (Z * A)) : Sorted.StronglySorted Z.le (map fst (sort_kv l)).
Proof.
  induction l as [|x l IH]; [constructor|]. unfold sort_kv in *. simpl. apply insert_kv_sorted, IH.
Qed.

Lemma sort_z_keys {A} (m : gmap Z A) (l : list Z) :
  NoDup l -> (forall x, x ∈ l <-> is_Some (m !! x)) -> sort_z l = sorted_keys m.
Proof.
  intros Hnd Hl. unfold sort_z, sorted_keys.
  apply (sorting.StronglySorted_unique Z.le); [apply sort_kv_sorted|apply sort_kv_sorted|].
  rewrite !sort_kv_perm', map_map. cbn. rewrite map_id.
  apply NoDup_Permutation; [exact Hnd|apply NoDup_fst_map_to_list|].
  intros x. rewrite Hl, elem_of_list_fmap. split.
  - intros (a & Ha). exists (x, a). split; [reflexivity|]. apply elem_of_map_to_list, Ha.
  - intros ([k a] & -> & H). apply elem_of_map_to_list in H. simpl. eauto.
Qed.

(* ---------------------------------------------------------------------------------------- *)
(* every change of a stored state is notified: the states after a step are the states before,
   overwritten by the states of the step's notifications; at most one notification per txid *)
Definition flags (s : tstate) : Prop :=
  (s_safe s && s_unsafe s = false) /\ (s_cancel s = true -> s_unsafe s = true).

(* PB: the blocks a proof may newly refer to in this step *)
Definition proof_ok (PB : Z -> Prop) (po : option Z) (s : tstate) : Prop :=
  s_proof s = po \/ exists b, s_proof s = Some b /\ PB b.

Definition oproof (os : option tstate) : option Z :=
  match os with Some so => s_proof so | None => None end.

Definition trans (PB : Z -> Prop) (so s : tstate) : Prop :=
  (s_unsafe so = true -> s_unsafe s = true) /\ (s_cancel so = true -> s_cancel s = true) /\
  (flags so -> flags s) /\ proof_ok PB (s_proof so) s /\ s_outs s = s_outs so /\ s_body s = s_body so.

Record Ext (PB : Z -> Prop) (S0 S : gmap Z tstate) (evs : list event) : Prop := mkExt {
  x_nodup : NoDup (tkeys evs);
  x_in : forall t s, tev_in evs t s -> S !! t = Some s;
  x_out : forall t, t ∉ tkeys evs -> S !! t = S0 !! t;
  x_new : forall t s, ETx t s ∈ evs -> proof_ok PB (oproof (S0 !! t)) s;
  x_upd : forall t s, EUpdate t s ∈ evs -> exists so, S0 !! t = Some so /\ trans PB so s }.

Lemma Ext_nil PB S0 : Ext PB S0 S0 [].
Proof.
  split; simpl.
  - constructor.
  - intros t s H. destruct (tev_in_nil _ _ H).
  - reflexivity.
  - intros t s H. apply elem_of_nil in H. destruct H.
  - intros t s H. apply elem_of_nil in H. destruct H.
Qed.

Lemma Ext_hdr PB S0 h b : Ext PB S0 S0 [EHeaders h b].
Proof.
  split; simpl.
  - constructor.
  - intros t s [H|H]; apply elem_of_list_singleton in H; discriminate.
  - reflexivity.
  - intros t s H. apply elem_of_list_singleton in H. discriminate.
  - intros t s H. apply elem_of_list_singleton in H. discriminate.
Qed.

Lemma Ext_add PB S0 S evs e nw t s :
  Ext PB S0 S evs -> tev e = Some (nw, t, s) -> t ∉ tkeys evs ->
  (nw = true -> proof_ok PB (oproof (S !! t)) s) ->
  (nw = false -> exists so, S !! t = Some so /\ trans PB so s) ->
  Ext PB S0 (<[t := s]> S) (evs ++ [e]).
Proof.
  intros [Hnd Hin Hout Hnew Hupd] He Hnt H1 H2.
  assert (Hk : tkeys (evs ++ [e]) = tkeys evs ++ [t]).
  { rewrite tkeys_app. unfold tkeys at 2. simpl. unfold tkey. rewrite He. reflexivity. }
  split.
  - rewrite Hk. apply NoDup_app. split; [exact Hnd|]. split; [|apply NoDup_singleton].
    intros x Hx Hx'. apply elem_of_list_singleton in Hx'. subst. contradiction.
  - intros t' s' H. apply tev_in_app in H. destruct H as [H|H].
    + assert (t' <> t).
      { intros ->. apply Hnt, tkeys_elem. eauto. }
      rewrite lookup_insert_ne by congruence. apply Hin, H.
    + apply tev_in_single in H.
      destruct H as [-> | ->]; cbn in He; inversion He; subst; apply lookup_insert.
  - intros t' H. rewrite Hk, not_elem_of_app, not_elem_of_cons in H. destruct H as [H1' [H2' _]].
    rewrite lookup_insert_ne by congruence. apply Hout, H1'.
  - intros t' s' H. apply elem_of_app in H. destruct H as [H|H]; [apply Hnew, H|].
    apply elem_of_list_singleton in H. subst e. cbn in He. inversion He. subst.
    rewrite <- (Hout t Hnt). apply H1. reflexivity.
  - intros t' s' H. apply elem_of_app in H. destruct H as [H|H]; [apply Hupd, H|].
    apply elem_of_list_singleton in H. subst e. cbn in He. inversion He. subst.
    rewrite <- (Hout t Hnt). apply H2. reflexivity.
Qed.

Lemma Ext_upd PB S0 S evs t so s :
  Ext PB S0 S evs -> t ∉ tkeys evs -> S !! t = Some so -> trans PB so s ->
  Ext PB S0 (<[t := s]> S) (evs ++ [EUpdate t s]).
Proof.
  intros HE Hnt Hs Ht. eapply (Ext_add PB S0 S evs (EUpdate t s) false t s); eauto.
  discriminate.
Qed.

Lemma Ext_new PB S0 S evs t s :
  Ext PB S0 S evs -> t ∉ tkeys evs -> proof_ok PB (oproof (S !! t)) s ->
  Ext PB S0 (<[t := s]> S) (evs ++ [ETx t s]).
Proof.
  intros HE Hnt Hp. eapply (Ext_add PB S0 S evs (ETx t s) true t s); eauto.
  discriminate.
Qed.

Lemma Ext_unique PB S0 S evs t s1 s2 : Ext PB S0 S evs -> tev_in evs t s1 -> tev_in evs t s2 -> s1 = s2.
Proof. intros HE H1 H2. apply (x_in _ _ _ _ HE) in H1, H2. congruence. Qed.

(* fields other than mp / unconf / states (blocktxs is never read back) *)
Definition same_misc (n n' : node) : Prop :=
  chain n' = chain n /\ insync n' = insync n /\ now n' = now n /\ delay n' = delay n.

Lemma same_misc_refl n : same_misc n n.
Proof. repeat split. Qed.

Lemma same_misc_trans n1 n2 n3 : same_misc n1 n2 -> same_misc n2 n3 -> same_misc n1 n3.
Proof. unfold same_misc. intros (?&?&?&?) (?&?&?&?). repeat split; congruence. Qed.

(* ---------------------------------------------------------------------------------------- *)
(* mark_conflicts *)
Definition mk_unsafe_s (s : tstate) : tstate :=
  TState false true (s_cancel s) (s_depth s) (s_proof s) (s_outs s) (s_body s).
Definition mk_unsafe_u (u : utx) : utx := UTx (u_time u) true (u_safe u) (u_trusted u).

Lemma trans_mk_unsafe PB s : trans PB s (mk_unsafe_s s).
Proof.
  unfold trans, flags, proof_ok, mk_unsafe_s. simpl. repeat split; auto.
Qed.

Lemma mark_conflicts_spec PB S0 cs : NoDup cs -> forall n acc n' acc',
  mark_conflicts n cs acc = (n', acc') ->
  (forall c, c ∈ cs -> c ∉ tkeys acc) ->
  Ext PB S0 (states n) acc ->
  mp n' = mp n /\ same_misc n n' /\
  (forall x, unconf n' !! x = if bool_decide (x ∈ cs) then mk_unsafe_u <$> unconf n !! x
                              else unconf n !! x) /\
  Ext PB S0 (states n') acc' /\
  exists evs, acc' = acc ++ evs /\
    (forall x s, tev_in evs x s ->
       x ∈ cs /\ is_Some (unconf n !! x) /\ EUpdate x s ∈ evs /\ s_unsafe s = true /\ s_safe s = false) /\
    (forall c, c ∈ cs -> is_Some (unconf n !! c) -> is_Some (states n !! c) ->
       exists s, EUpdate c s ∈ evs /\ s_unsafe s = true).
Proof.
  induction 1 as [|c cs Hc Hnd IH]; intros n acc n' acc' Hm Hfresh HE.
  - simpl in Hm. inversion Hm. subst. split; [reflexivity|]. split; [apply same_misc_refl|].
    split; [intros x; reflexivity|]. split; [exact HE|].
    exists []. rewrite app_nil_r. split; [reflexivity|]. split.
    + intros x s H. destruct (tev_in_nil _ _ H).
    + intros c' H. apply elem_of_nil in H. destruct H.
  - cbn [mark_conflicts] in Hm.
    assert (Hfresh' : forall c', c' ∈ cs -> c' ∉ tkeys acc).
    { intros c' H. apply Hfresh. right. exact H. }
    destruct (unconf n !! c) as [u|] eqn:Eu.
    + destruct (states (set_unconf n (<[c:=UTx (u_time u) true (u_safe u) (u_trusted u)]> (unconf n))) !! c)
        as [s|] eqn:Es.
      * cbn [states set_unconf] in Es.
        specialize (IH _ _ _ _ Hm).
        destruct IH as (Hmp & Hmisc & Hunc & HE' & evs & Hacc & Hev1 & Hev2).
        { intros c' H. rewrite tkeys_app, not_elem_of_app. split; [apply Hfresh', H|].
          cbn. intros Hx. apply elem_of_list_singleton in Hx. subst. contradiction. }
        { cbn [states set_states set_unconf]. apply (Ext_upd PB S0 _ acc c s); [exact HE| |exact Es|apply trans_mk_unsafe].
          apply Hfresh. left. }
        cbn [mp set_states set_unconf] in Hmp. split; [exact Hmp|].
        split; [exact Hmisc|]. split.
        { intros x. rewrite Hunc. cbn [unconf set_states set_unconf].
          destruct (decide (x = c)) as [->|Hne].
          - rewrite lookup_insert, Eu. rewrite (bool_decide_eq_false_2 _ Hc).
            rewrite bool_decide_eq_true_2 by left. reflexivity.
          - rewrite lookup_insert_ne by congruence.
            destruct (bool_decide (x ∈ cs)) eqn:Eb.
            + apply bool_decide_eq_true in Eb. rewrite bool_decide_eq_true_2 by (right; exact Eb). reflexivity.
            + apply bool_decide_eq_false in Eb. rewrite bool_decide_eq_false_2; [reflexivity|].
              rewrite elem_of_cons. tauto. }
        split; [exact HE'|].
        exists (EUpdate c (TState false true (s_cancel s) (s_depth s) (s_proof s) (s_outs s) (s_body s)) :: evs).
        split; [rewrite Hacc, <- app_assoc; reflexivity|]. split.
        { intros x s' H. change (?a :: evs) with ([a] ++ evs) in H. apply tev_in_app in H.
          destruct H as [H|H].
          - apply tev_in_single in H. destruct H as [H|H]; [discriminate|]. inversion H. subst.
            split; [left|]. split; [eauto|]. split; [left|]. split; reflexivity.
          - destruct (Hev1 x s' H) as (H1 & H2 & H3 & H4 & H5).
            split; [right; exact H1|]. split.
            { cbn [unconf set_states set_unconf] in H2.
              destruct (decide (x = c)) as [->|Hne]; [eauto|].
              rewrite lookup_insert_ne in H2 by congruence. exact H2. }
            split; [right; exact H3|]. auto. }
        { intros c' Hin Hu Hs. apply elem_of_cons in Hin. destruct Hin as [->|Hin].
          - eexists. split; [left|]. reflexivity.
          - assert (c' <> c) by (intros ->; contradiction).
            destruct (Hev2 c' Hin) as (s' & H1 & H2).
            + cbn [unconf set_states set_unconf]. rewrite lookup_insert_ne by congruence. exact Hu.
            + cbn [states set_states set_unconf]. rewrite lookup_insert_ne by congruence. exact Hs.
            + exists s'. split; [right; exact H1|exact H2]. }
      * cbn [states set_unconf] in Es.
        specialize (IH _ _ _ _ Hm Hfresh' HE).
        destruct IH as (Hmp & Hmisc & Hunc & HE' & evs & Hacc & Hev1 & Hev2).
        cbn [mp set_unconf] in Hmp. split; [exact Hmp|]. split; [exact Hmisc|]. split.
        { intros x. rewrite Hunc. cbn [unconf set_unconf].
          destruct (decide (x = c)) as [->|Hne].
          - rewrite lookup_insert, Eu. rewrite (bool_decide_eq_false_2 _ Hc).
            rewrite bool_decide_eq_true_2 by left. reflexivity.
          - rewrite lookup_insert_ne by congruence.
            destruct (bool_decide (x ∈ cs)) eqn:Eb.
            + apply bool_decide_eq_true in Eb. rewrite bool_decide_eq_true_2 by (right; exact Eb). reflexivity.
            + apply bool_decide_eq_false in Eb. rewrite bool_decide_eq_false_2; [reflexivity|].
              rewrite elem_of_cons. tauto. }
        split; [exact HE'|]. exists evs. split; [exact Hacc|]. split.
        { intros x s' H. destruct (Hev1 x s' H) as (H1 & H2 & H3).
          split; [right; exact H1|]. split; [|exact H3].
          cbn [unconf set_unconf] in H2. destruct (decide (x = c)) as [->|Hne]; [eauto|].
          rewrite lookup_insert_ne in H2 by congruence. exact H2. }
        { intros c' Hin Hu Hs. apply elem_of_cons in Hin. destruct Hin as [->|Hin].
          - rewrite Es in Hs. destruct Hs as (? & ?). discriminate.
          - assert (c' <> c) by (intros ->; contradiction).
            apply (Hev2 c' Hin).
            + cbn [unconf set_unconf]. rewrite lookup_insert_ne by congruence. exact Hu.
            + exact Hs. }
    + specialize (IH _ _ _ _ Hm Hfresh' HE).
      destruct IH as (Hmp & Hmisc & Hunc & HE' & evs & Hacc & Hev1 & Hev2).
      split; [exact Hmp|]. split; [exact Hmisc|]. split.
      { intros x. rewrite Hunc. destruct (decide (x = c)) as [->|Hne].
        - rewrite Eu. destruct (bool_decide (c ∈ cs)), (bool_decide (c ∈ c :: cs)); reflexivity.
        - destruct (bool_decide (x ∈ cs)) eqn:Eb.
          + apply bool_decide_eq_true in Eb. rewrite bool_decide_eq_true_2 by (right; exact Eb). reflexivity.
          + apply bool_decide_eq_false in Eb. rewrite bool_decide_eq_false_2; [reflexivity|].
            rewrite elem_of_cons. tauto. }
      split; [exact HE'|]. exists evs. split; [exact Hacc|]. split.
      { intros x s' H. destruct (Hev1 x s' H) as (H1 & H2). split; [right; exact H1|exact H2]. }
      { intros c' Hin Hu Hs. apply elem_of_cons in Hin. destruct Hin as [->|Hin].
        - rewrite Eu in Hu. destruct Hu as (? & ?). discriminate.
        - apply (Hev2 c' Hin Hu Hs). }
Qed.

(* ---------------------------------------------------------------------------------------- *)
(* delay_loop *)
Definition dcond (n : node) (cutoff t : Z) (u : utx) : bool :=
  negb (u_safe u) && negb (u_unsafe u) && (u_time u <? cutoff)
  && (u_trusted u || is_trusted (mp n) t).
Definition mk_safe_s (s : tstate) : tstate :=
  TState true (s_unsafe s) (s_cancel s) (s_depth s) (s_proof s) (s_outs s) (s_body s).
Definition mk_safe_u (u : utx) : utx := UTx (u_time u) (u_unsafe u) true (u_trusted u).

Lemma trans_mk_safe PB s : (s_unsafe s || s_cancel s) = false -> trans PB s (mk_safe_s s).
Proof.
  intros H. apply orb_false_iff in H. destruct H as [H1 H2].
  unfold trans, flags, proof_ok, mk_safe_s. simpl. rewrite H1, H2. repeat split; auto; congruence.
Qed.

Definition delay_unconf (n : node) (cutoff : Z) (keys : list Z) (x : Z) : option utx :=
  match unconf n !! x with
  | Some u => if bool_decide (x ∈ keys) && dcond n cutoff x u then Some (mk_safe_u u) else Some u
  | None => None
  end.

Lemma delay_unconf_cons_ne n n1 cutoff c keys x :
  x <> c -> mp n1 = mp n -> unconf n1 !! x = unconf n !! x ->
  delay_unconf n1 cutoff keys x = delay_unconf n cutoff (c :: keys) x.
Proof.
  intros Hne Hmp Hu. unfold delay_unconf, dcond. rewrite Hu, Hmp.
  destruct (unconf n !! x) as [u|]; [|reflexivity].
  replace (bool_decide (x ∈ c :: keys)) with (bool_decide (x ∈ keys)); [reflexivity|].
  apply bool_decide_ext. rewrite elem_of_cons. tauto.
Qed.

Lemma delay_loop_spec PB S0 cutoff keys : NoDup keys -> forall n acc n' acc',
  delay_loop n cutoff keys acc = (n', acc') ->
  (forall c, c ∈ keys -> c ∉ tkeys acc) ->
  Ext PB S0 (states n) acc ->
  mp n' = mp n /\ same_misc n n' /\
  (forall x, unconf n' !! x = delay_unconf n cutoff keys x) /\
  Ext PB S0 (states n') acc' /\
  exists evs, acc' = acc ++ evs /\
    (forall x s, tev_in evs x s ->
       x ∈ keys /\ EUpdate x s ∈ evs /\
       exists u so, unconf n !! x = Some u /\ dcond n cutoff x u = true /\ states n !! x = Some so /\
                    (s_unsafe so || s_cancel so) = false /\ s = mk_safe_s so) /\
    (forall x u so, x ∈ keys -> unconf n !! x = Some u -> dcond n cutoff x u = true ->
       states n !! x = Some so -> (s_unsafe so || s_cancel so) = false ->
       EUpdate x (mk_safe_s so) ∈ evs).
Proof.
  induction 1 as [|c keys Hc Hnd IH]; intros n acc n' acc' Hm Hfresh HE.
  - simpl in Hm. inversion Hm. subst. split; [reflexivity|]. split; [apply same_misc_refl|].
    split.
    { intros x. unfold delay_unconf. destruct (unconf n' !! x); [|reflexivity].
      rewrite bool_decide_eq_false_2 by apply not_elem_of_nil. reflexivity. }
    split; [exact HE|].
    exists []. rewrite app_nil_r. split; [reflexivity|]. split.
    + intros x s H. destruct (tev_in_nil _ _ H).
    + intros x u so H. apply elem_of_nil in H. destruct H.
  - cbn [delay_loop] in Hm.
    assert (Hfresh' : forall c', c' ∈ keys -> c' ∉ tkeys acc).
    { intros c' H. apply Hfresh. right. exact H. }
    (* the generic way to lift the result of the recursive call on a node n1 that differs from n
       only at key c *)
    assert (Lift : forall n1 acc1 (pre : list event),
      mp n1 = mp n -> same_misc n n1 ->
      (forall x, x <> c -> unconf n1 !! x = unconf n !! x) ->
      (forall x, x <> c -> states n1 !! x = states n !! x) ->
      unconf n1 !! c = delay_unconf n cutoff (c :: keys) c ->
      acc1 = acc ++ pre ->
      (forall x s, tev_in pre x s ->
         x = c /\ EUpdate x s ∈ pre /\
         exists u so, unconf n !! x = Some u /\ dcond n cutoff x u = true /\ states n !! x = Some so /\
                      (s_unsafe so || s_cancel so) = false /\ s = mk_safe_s so) ->
      (forall u so, unconf n !! c = Some u -> dcond n cutoff c u = true ->
         states n !! c = Some so -> (s_unsafe so || s_cancel so) = false ->
         EUpdate c (mk_safe_s so) ∈ pre) ->
      Ext PB S0 (states n1) acc1 ->
      delay_loop n1 cutoff keys acc1 = (n', acc') ->
      mp n' = mp n /\ same_misc n n' /\
      (forall x, unconf n' !! x = delay_unconf n cutoff (c :: keys) x) /\
      Ext PB S0 (states n') acc' /\
      exists evs, acc' = acc ++ evs /\
        (forall x s, tev_in evs x s ->
           x ∈ c :: keys /\ EUpdate x s ∈ evs /\
           exists u so, unconf n !! x = Some u /\ dcond n cutoff x u = true /\ states n !! x = Some so /\
                        (s_unsafe so || s_cancel so) = false /\ s = mk_safe_s so) /\
        (forall x u so, x ∈ c :: keys -> unconf n !! x = Some u -> dcond n cutoff x u = true ->
           states n !! x = Some so -> (s_unsafe so || s_cancel so) = false ->
           EUpdate x (mk_safe_s so) ∈ evs)).
    { intros n1 acc1 pre Hmp1 Hmisc1 Hu1 Hs1 Huc Hacc1 Hpre1 Hpre2 HE1 Hm1.
      specialize (IH _ _ _ _ Hm1).
      destruct IH as (Hmp & Hmisc & Hunc & HE' & evs & Hacc & Hev1 & Hev2).
      { intros c' H. rewrite Hacc1, tkeys_app, not_elem_of_app. split; [apply Hfresh', H|].
        intros Hx. apply tkeys_elem in Hx. destruct Hx as (s & Hx).
        destruct (Hpre1 _ _ Hx) as (-> & _). contradiction. }
      { exact HE1. }
      split; [congruence|]. split; [eapply same_misc_trans; eauto|]. split.
      { intros x. rewrite Hunc. destruct (decide (x = c)) as [->|Hne].
        - unfold delay_unconf at 1. rewrite (bool_decide_eq_false_2 _ Hc). simpl.
          rewrite Huc. destruct (delay_unconf n cutoff (c :: keys) c); reflexivity.
        - apply delay_unconf_cons_ne; auto. }
      split; [exact HE'|].
      exists (pre ++ evs). split; [rewrite Hacc, Hacc1, <- app_assoc; reflexivity|]. split.
      { intros x s H. apply tev_in_app in H. destruct H as [H|H].
        - destruct (Hpre1 _ _ H) as (-> & H2 & H3). split; [left|].
          split; [apply elem_of_app; left; exact H2|exact H3].
        - destruct (Hev1 _ _ H) as (H1 & H2 & u & so & H3 & H4 & H5 & H6 & H7).
          assert (x <> c) by (intros ->; contradiction).
          split; [right; exact H1|]. split; [apply elem_of_app; right; exact H2|].
          exists u, so. rewrite <- Hu1, <- Hs1 by assumption.
          unfold dcond in *. rewrite <- Hmp1. auto. }
      { intros x u so Hin Hu Hd Hs Hns. apply elem_of_app. apply elem_of_cons in Hin.
        destruct Hin as [->|Hin].
        - left. eapply Hpre2; eauto.
        - right. assert (x <> c) by (intros ->; contradiction).
          apply (Hev2 x u so Hin); [rewrite Hu1 by assumption; exact Hu| |rewrite Hs1 by assumption; exact Hs|exact Hns].
          unfold dcond in *. rewrite Hmp1. exact Hd. } }
    assert (NoPre : forall x s, tev_in [] x s ->
         x = c /\ EUpdate x s ∈ [] /\
         exists u so, unconf n !! x = Some u /\ dcond n cutoff x u = true /\ states n !! x = Some so /\
                      (s_unsafe so || s_cancel so) = false /\ s = mk_safe_s so).
    { intros x s H. destruct (tev_in_nil _ _ H). }
    destruct (unconf n !! c) as [u|] eqn:Eu.
    + fold (dcond n cutoff c u) in Hm. destruct (dcond n cutoff c u) eqn:Ed.
      * assert (Huc : forall n1, unconf n1 !! c = Some (mk_safe_u u) ->
                                 unconf n1 !! c = delay_unconf n cutoff (c :: keys) c).
        { intros n1 ->. unfold delay_unconf. rewrite Eu, Ed.
          rewrite bool_decide_eq_true_2 by left. reflexivity. }
        set (n1 := set_unconf n (<[c:=UTx (u_time u) (u_unsafe u) true (u_trusted u)]> (unconf n))) in *.
        assert (Hn1u : forall x, x <> c -> unconf n1 !! x = unconf n !! x).
        { intros x Hne. subst n1. cbn. rewrite lookup_insert_ne by congruence. reflexivity. }
        assert (Hn1c : unconf n1 !! c = Some (mk_safe_u u)).
        { subst n1. cbn. apply lookup_insert. }
        destruct (states n1 !! c) as [s|] eqn:Es.
        -- assert (Es' : states n !! c = Some s) by exact Es.
           destruct (s_unsafe s || s_cancel s) eqn:Eus.
           ++ apply (Lift n1 acc [] eq_refl).
              ** repeat split.
              ** exact Hn1u.
              ** intros x Hne. reflexivity.
              ** apply Huc, Hn1c.
              ** rewrite app_nil_r. reflexivity.
              ** exact NoPre.
              ** intros u' so Hu' _ Hso Hns. rewrite Es' in Hso. inversion Hso. subst. congruence.
              ** exact HE.
              ** exact Hm.
           ++ apply (Lift (set_states n1 (<[c:=mk_safe_s s]> (states n1))) (acc ++ [EUpdate c (mk_safe_s s)])
                      [EUpdate c (mk_safe_s s)] eq_refl).
              ** repeat split.
              ** exact Hn1u.
              ** intros x Hne. cbn. rewrite lookup_insert_ne by congruence. reflexivity.
              ** apply Huc, Hn1c.
              ** reflexivity.
              ** intros x s' H. apply tev_in_single in H. destruct H as [H|H]; [discriminate|].
                 inversion H. subst. split; [reflexivity|]. split; [left|].
                 exists u, s. auto.
              ** intros u' so Hu' _ Hso Hns. rewrite Es' in Hso. inversion Hso. subst. left.
              ** cbn [states set_states set_unconf].
                 apply (Ext_upd PB S0 _ acc c s); [exact HE| |exact Es|apply trans_mk_safe, Eus].
                 apply Hfresh. left.
              ** exact Hm.
        -- assert (Es' : states n !! c = None) by exact Es.
           apply (Lift n1 acc [] eq_refl).
           ++ repeat split.
           ++ exact Hn1u.
           ++ intros x Hne. reflexivity.
           ++ apply Huc, Hn1c.
           ++ rewrite app_nil_r. reflexivity.
           ++ exact NoPre.
           ++ intros u' so Hu' _ Hso Hns. rewrite Es' in Hso. discriminate.
           ++ exact HE.
           ++ exact Hm.
      * apply (Lift n acc [] eq_refl).
        -- apply same_misc_refl.
        -- reflexivity.
        -- reflexivity.
        -- unfold delay_unconf. rewrite Eu, Ed, andb_false_r. reflexivity.
        -- rewrite app_nil_r. reflexivity.
        -- exact NoPre.
        -- intros u' so Hu' Hd. inversion Hu'. subst. congruence.
        -- exact HE.
        -- exact Hm.
    + apply (Lift n acc [] eq_refl).
      * apply same_misc_refl.
      * reflexivity.
      * reflexivity.
      * unfold delay_unconf. rewrite Eu. reflexivity.
      * rewrite app_nil_r. reflexivity.
      * exact NoPre.
      * intros u' so Hu'. discriminate.
      * exact HE.
      * exact Hm.
Qed.

(* ---------------------------------------------------------------------------------------- *)
(* spent outputs *)
Lemma outs_ok_spent n body : outs_ok body (spent_outputs n body) = true.
Proof.
  induction body as [|o body IH]; [reflexivity|].
  cbn [spent_outputs map outs_ok]. fold (spent_outputs n body). rewrite IH, andb_true_r.
  unfold expected_out. destruct (o <? 0) eqn:E0; [reflexivity|].
  destruct (states n !! (o / 10)).
  - destruct (o mod 10 <? nouts (o / 10)); [apply Z.eqb_refl|]. rewrite orb_true_r. reflexivity.
  - destruct (o mod 10 <? nouts (o / 10)); [apply Z.eqb_refl|]. rewrite Z.eqb_refl. reflexivity.
Qed.

(* ---------------------------------------------------------------------------------------- *)
(* ProcessBlock: the cancel loop *)
Definition mk_cancel_s (s : tstate) : tstate :=
  TState false true true (s_depth s) (s_proof s) (s_outs s) (s_body s).

Lemma trans_mk_cancel PB s : trans PB s (mk_cancel_s s).
Proof. unfold trans, flags, proof_ok, mk_cancel_s. simpl. repeat split; auto. Qed.

Lemma cancel_conflicts_spec PB S0 t unc cs : NoDup cs -> forall n safe acc,
  (forall c, c ∈ cs -> c <> t -> c ∈ unc -> c ∉ tkeys acc /\ is_Some (states n !! c)) ->
  Ext PB S0 (states n) acc ->
  exists n' safe' evs,
    cancel_conflicts n t unc cs safe acc = Some (n', safe', acc ++ evs) /\
    mp n' = mp n /\ unconf n' = unconf n /\ same_misc n n' /\
    Ext PB S0 (states n') (acc ++ evs) /\
    (forall x, is_Some (states n !! x) -> is_Some (states n' !! x)) /\
    (forall x, states n' !! x = None -> states n !! x = None) /\
    (forall x s, tev_in evs x s ->
       x ∈ cs /\ x <> t /\ x ∈ unc /\ EUpdate x s ∈ evs /\
       s_cancel s = true /\ s_unsafe s = true /\ s_safe s = false /\
       exists so, states n !! x = Some so /\ s_proof s = s_proof so) /\
    (forall c, c ∈ cs -> c <> t -> c ∈ unc -> exists s, EUpdate c s ∈ evs).
Proof.
  induction 1 as [|c cs Hc Hnd IH]; intros n safe acc Hpre HE.
  - exists n, safe, []. rewrite app_nil_r. simpl. split; [reflexivity|].
    split; [reflexivity|]. split; [reflexivity|]. split; [apply same_misc_refl|].
    split; [exact HE|]. split; [auto|]. split; [auto|]. split.
    + intros x s H. destruct (tev_in_nil _ _ H).
    + intros c H. apply elem_of_nil in H. destruct H.
  - cbn [cancel_conflicts].
    assert (Hpre' : forall c', c' ∈ cs -> c' <> t -> c' ∈ unc -> c' ∉ tkeys acc /\ is_Some (states n !! c')).
    { intros c' H. apply Hpre. right. exact H. }
    destruct (c =? t) eqn:Ect.
    { apply Z.eqb_eq in Ect. subst c.
      destruct (IH n safe acc Hpre' HE) as (n' & safe' & evs & Hr & Hmp & Hun & Hmisc & HE' & Hst & Hst' & Hev1 & Hev2).
      exists n', safe', evs. split; [exact Hr|]. repeat (split; [assumption|]). split.
      - intros x s H. destruct (Hev1 x s H) as (H1 & H2). split; [right; exact H1|exact H2].
      - intros c Hin Hne Hu. apply elem_of_cons in Hin. destruct Hin as [->|Hin]; [congruence|].
        apply Hev2; assumption. }
    apply Z.eqb_neq in Ect.
    destruct (mem c unc) eqn:Emu.
    + apply mem_elem in Emu. destruct (Hpre c) as [Hfr (s & Hs)]; [left|exact Ect|exact Emu|].
      rewrite Hs.
      set (n1 := set_states n (<[c:=TState false true true (s_depth s) (s_proof s) (s_outs s) (s_body s)]> (states n))).
      destruct (IH n1 false (acc ++ [EUpdate c (mk_cancel_s s)])) as
        (n' & safe' & evs & Hr & Hmp & Hun & Hmisc & HE' & Hst & Hst' & Hev1 & Hev2).
      { intros c' Hin Hne Hu. destruct (Hpre' c' Hin Hne Hu) as [H1 H2].
        assert (c' <> c) by (intros ->; contradiction).
        split.
        - rewrite tkeys_app, not_elem_of_app. split; [exact H1|]. cbn.
          intros Hx. apply elem_of_list_singleton in Hx. contradiction.
        - subst n1. cbn. rewrite lookup_insert_ne by congruence. exact H2. }
      { subst n1. cbn [states set_states].
        apply (Ext_upd PB S0 _ acc c s); [exact HE|exact Hfr|exact Hs|apply trans_mk_cancel]. }
      exists n', safe', (EUpdate c (mk_cancel_s s) :: evs).
      split.
      { unfold mk_cancel_s in Hr. rewrite Hr. rewrite <- app_assoc. reflexivity. }
      split; [exact Hmp|]. split; [exact Hun|]. split; [exact Hmisc|].
      split; [rewrite <- app_assoc in HE'; exact HE'|].
      split.
      { intros x Hx. apply Hst. subst n1. cbn. destruct (decide (x = c)) as [->|Hne].
        - rewrite lookup_insert. eauto.
        - rewrite lookup_insert_ne by congruence. exact Hx. }
      split.
      { intros x Hx. apply Hst' in Hx. subst n1. cbn in Hx. destruct (decide (x = c)) as [->|Hne].
        - rewrite lookup_insert in Hx. discriminate.
        - rewrite lookup_insert_ne in Hx by congruence. exact Hx. }
      split.
      { intros x s' H. change (?a :: evs) with ([a] ++ evs) in H. apply tev_in_app in H.
        destruct H as [H|H].
        - apply tev_in_single in H. destruct H as [H|H]; [discriminate|]. inversion H. subst.
          split; [left|]. split; [exact Ect|]. split; [exact Emu|]. split; [left|].
          repeat (split; [reflexivity|]). exists s. split; [exact Hs|reflexivity].
        - destruct (Hev1 x s' H) as (H1 & H2 & H3 & H4 & H5 & H6 & H7 & so & H8 & H9).
          split; [right; exact H1|]. split; [exact H2|]. split; [exact H3|]. split; [right; exact H4|].
          repeat (split; [assumption|]). exists so. split; [|exact H9].
          assert (x <> c) by (intros ->; contradiction).
          subst n1. cbn in H8. rewrite lookup_insert_ne in H8 by congruence. exact H8. }
      { intros c' Hin Hne Hu. apply elem_of_cons in Hin. destruct Hin as [->|Hin].
        - eexists. left.
        - destruct (Hev2 c' Hin Hne Hu) as (s' & H). exists s'. right. exact H. }
    + apply mem_false in Emu.
      destruct (IH n false acc Hpre' HE) as (n' & safe' & evs & Hr & Hmp & Hun & Hmisc & HE' & Hst & Hst' & Hev1 & Hev2).
      exists n', safe', evs. split; [exact Hr|]. repeat (split; [assumption|]). split.
      * intros x s H. destruct (Hev1 x s H) as (H1 & H2). split; [right; exact H1|exact H2].
      * intros c' Hin Hne Hu. apply elem_of_cons in Hin. destruct Hin as [->|Hin]; [contradiction|].
        apply Hev2; assumption.
Qed.

(* ---------------------------------------------------------------------------------------- *)
(* ProcessBlock: the notification loop *)
Definition pentry := (Z * list Z * bool * bool)%type.
Definition ptx (x : pentry) : Z := fst (fst (fst x)).

Lemma block_notify_spec (PB : Z -> Prop) S0 b : PB b -> forall pending, NoDup (map ptx pending) -> forall n acc,
  (forall t body nw sf, (t, body, nw, sf) ∈ pending ->
     t ∉ tkeys acc /\ (if nw : bool then True else is_Some (states n !! t))) ->
  Ext PB S0 (states n) acc ->
  exists n' evs,
    block_notify n b pending acc = Some (n', acc ++ evs) /\
    mp n' = mp n /\ unconf n' = unconf n /\ same_misc n n' /\
    Ext PB S0 (states n') (acc ++ evs) /\
    (forall x s, tev_in evs x s ->
       exists body nw sf, (x, body, nw, sf) ∈ pending /\ s_proof s = Some b /\ s_depth s = 0 /\
         (if nw : bool then ETx x s ∈ evs /\ outs_ok body (s_outs s) = true /\
                            s_unsafe s = negb (s_safe s) /\ s_cancel s = false /\ s_body s = body /\
                            (forall so, states n !! x = Some so -> (s_unsafe so || s_cancel so) = true -> s_safe s = false)
          else EUpdate x s ∈ evs)) /\
    (forall t body nw sf, (t, body, nw, sf) ∈ pending ->
       exists s, s_proof s = Some b /\ s_depth s = 0 /\
                 (if nw : bool then ETx t s ∈ evs else EUpdate t s ∈ evs)).
Proof.
  intros HPB. induction pending as [|[[[t body] nw] sf] pending IH]; intros Hnd n acc Hpre HE.
  - exists n, []. rewrite app_nil_r. simpl. split; [reflexivity|]. split; [reflexivity|].
    split; [reflexivity|]. split; [apply same_misc_refl|]. split; [exact HE|]. split.
    + intros x s H. destruct (tev_in_nil _ _ H).
    + intros t body nw sf H. apply elem_of_nil in H. destruct H.
  - cbn [map] in Hnd. apply NoDup_cons in Hnd. destruct Hnd as [Hni Hnd]. cbn [ptx fst] in Hni.
    destruct (Hpre t body nw sf) as [Hfr Hst]; [left|].
    assert (Hother : forall t' body' nw' sf', (t', body', nw', sf') ∈ pending -> t' <> t).
    { intros t' body' nw' sf' Hin ->. apply Hni. apply elem_of_list_fmap.
      exists (t, body', nw', sf'). split; [reflexivity|exact Hin]. }
    (* the state written and the event emitted for t *)
    assert (Step : exists s1 e, tev e = Some (nw, t, s1) /\ s_proof s1 = Some b /\ s_depth s1 = 0 /\
              (if nw then e = ETx t s1 /\ outs_ok body (s_outs s1) = true /\
                          s_unsafe s1 = negb (s_safe s1) /\ s_cancel s1 = false /\ s_body s1 = body /\
                          (forall so, states n !! t = Some so -> (s_unsafe so || s_cancel so) = true -> s_safe s1 = false)
               else e = EUpdate t s1) /\
              Ext PB S0 (<[t:=s1]> (states n)) (acc ++ [e]) /\
              block_notify n b ((t, body, nw, sf) :: pending) acc =
              block_notify (set_states n (<[t:=s1]> (states n))) b pending (acc ++ [e])).
    { destruct nw.
      - set (sf' := sf && negb (match states n !! t with Some so => s_unsafe so || s_cancel so | None => false end)).
        exists (TState sf' (negb sf') false 0 (Some b) (spent_outputs n body) body).
        exists (ETx t (TState sf' (negb sf') false 0 (Some b) (spent_outputs n body) body)).
        split; [reflexivity|]. split; [reflexivity|]. split; [reflexivity|].
        split.
        { split; [reflexivity|]. split; [apply outs_ok_spent|]. split; [reflexivity|]. split; [reflexivity|].
          split; [reflexivity|]. intros so Hso Hf. cbn [s_safe]. subst sf'. rewrite Hso, Hf. apply andb_false_r. }
        split; [|reflexivity].
        apply Ext_new; [exact HE|exact Hfr|].
        right. exists b. split; [reflexivity|exact HPB].
      - destruct Hst as (s & Hs).
        exists (TState (negb (s_unsafe s) && sf) (negb (negb (s_unsafe s) && sf)) (s_cancel s) 0 (Some b) (s_outs s) (s_body s)).
        exists (EUpdate t (TState (negb (s_unsafe s) && sf) (negb (negb (s_unsafe s) && sf)) (s_cancel s) 0 (Some b) (s_outs s) (s_body s))).
        split; [reflexivity|]. split; [reflexivity|]. split; [reflexivity|].
        split; [reflexivity|]. split; [|cbn [block_notify]; rewrite Hs; reflexivity].
        apply (Ext_upd PB S0 _ acc t s); [exact HE|exact Hfr|exact Hs|].
        unfold trans, flags, proof_ok. simpl. split; [|split; [|split; [|split; [|split]]]].
        + intros ->. reflexivity.
        + auto.
        + intros [F1 F2]. split; [destruct (negb (s_unsafe s) && sf); reflexivity|].
          intros Hc. rewrite (F2 Hc). reflexivity.
        + right. exists b. split; [reflexivity|exact HPB].
        + reflexivity.
        + reflexivity. }
    destruct Step as (s1 & e & Hte & Hp1 & Hd1 & Hkind & HE1 & Heq).
    destruct (IH Hnd (set_states n (<[t:=s1]> (states n))) (acc ++ [e])) as
      (n' & evs & Hr & Hmp & Hun & Hmisc & HE' & Hev1 & Hev2).
    { intros t' body' nw' sf' Hin. destruct (Hpre t' body' nw' sf') as [H1 H2]; [right; exact Hin|].
      assert (Hne : t' <> t) by (eapply Hother; eauto).
      split.
      - rewrite tkeys_app, not_elem_of_app. split; [exact H1|]. unfold tkeys. cbn. unfold tkey. rewrite Hte.
        intros Hx. apply elem_of_list_singleton in Hx. contradiction.
      - cbn. rewrite lookup_insert_ne by congruence. exact H2. }
    { exact HE1. }
    exists n', (e :: evs). split; [etransitivity; [exact Heq|]; rewrite Hr, <- app_assoc; reflexivity|].
    split; [exact Hmp|]. split; [exact Hun|]. split; [exact Hmisc|].
    split; [rewrite <- app_assoc in HE'; exact HE'|]. split.
    + intros x s H. change (e :: evs) with ([e] ++ evs) in H. apply tev_in_app in H. destruct H as [H|H].
      * apply tev_in_single in H.
        assert (x = t /\ s = s1) as [-> ->].
        { destruct H as [-> | ->]; cbn in Hte; inversion Hte; auto. }
        exists body, nw, sf. split; [left|].
        split; [exact Hp1|]. split; [exact Hd1|]. destruct nw.
        -- destruct Hkind as [-> Ho]. split; [left|exact Ho].
        -- subst e. left.
      * destruct (Hev1 x s H) as (body' & nw' & sf' & Hin & H1 & H2 & H3).
        exists body', nw', sf'. split; [right; exact Hin|]. split; [exact H1|]. split; [exact H2|].
        destruct nw'; [|right; exact H3].
        destruct H3 as (K1 & K2 & K3 & K4 & K5 & K6). split; [right; exact K1|]. repeat (split; [assumption|]).
        intros so Hso. apply K6. cbn [states set_states]. rewrite lookup_insert_ne; [exact Hso|].
        intros <-. eapply Hother; eauto.
    + intros t' body' nw' sf' Hin. apply elem_of_cons in Hin. destruct Hin as [Heq'|Hin].
      * inversion Heq'. subst t' body' nw' sf'. exists s1. split; [exact Hp1|]. split; [exact Hd1|].
        destruct nw; [destruct Hkind as [-> _]|subst e]; left.
      * destruct (Hev2 t' body' nw' sf' Hin) as (s & H1 & H2 & H3). exists s.
        split; [exact H1|]. split; [exact H2|]. destruct nw'; right; exact H3.
Qed.

(* ---------------------------------------------------------------------------------------- *)
(* ProcessBlock: the reference pool along the block's transactions *)
Definition blk_tx_pool (p : pool) (x : btx) : pool :=
  let p1 := remove_tx p (fst (fst x)) in
  fold_left remove_tx (conflicting_held p1 (fst (fst x)) (snd (fst x))) p1.
Definition blk_tx_victims (p : pool) (x : btx) : list Z :=
  conflicting_held (remove_tx p (fst (fst x))) (fst (fst x)) (snd (fst x)).

Fixpoint blk_pool (p : pool) (txs : list btx) : pool :=
  match txs with [] => p | x :: txs' => blk_pool (blk_tx_pool p x) txs' end.
Fixpoint blk_victims (p : pool) (txs : list btx) : list Z :=
  match txs with [] => [] | x :: txs' => blk_tx_victims p x ++ blk_victims (blk_tx_pool p x) txs' end.

Lemma blk_tx_pool_elem p x e :
  e ∈ blk_tx_pool p x <-> e ∈ p /\ fst e <> fst (fst x) /\ fst e ∉ blk_tx_victims p x.
Proof.
  unfold blk_tx_pool, blk_tx_victims. rewrite fold_remove_tx.
  rewrite (elem_of_list_filter (fun e0 : Z * list Z => fst e0 ∉ _)), remove_tx_elem. tauto.
Qed.

Lemma blk_tx_pool_sub p x e : e ∈ blk_tx_pool p x -> e ∈ p.
Proof. rewrite blk_tx_pool_elem. tauto. Qed.

Lemma blk_tx_victims_elem p x c :
  c ∈ blk_tx_victims p x <-> c <> fst (fst x) /\ exists bc, (c, bc) ∈ p /\ shares (snd (fst x)) bc.
Proof.
  unfold blk_tx_victims. rewrite conflicting_held_elem. split.
  - intros (Hne & bc & Hin & Hs). apply remove_tx_elem in Hin. split; [exact Hne|]. exists bc. tauto.
  - intros (Hne & bc & Hin & Hs). split; [exact Hne|]. exists bc. split; [|exact Hs].
    apply remove_tx_elem. auto.
Qed.

Lemma blk_pool_sub txs : forall p e, e ∈ blk_pool p txs -> e ∈ p.
Proof.
  induction txs as [|x txs IH]; intros p e H; [exact H|].
  simpl in H. apply IH in H. eapply blk_tx_pool_sub; eauto.
Qed.

Lemma blk_victims_elem txs : forall p c, c ∈ blk_victims p txs ->
  exists x, x ∈ txs /\ c <> fst (fst x) /\ exists bc, (c, bc) ∈ p /\ shares (snd (fst x)) bc.
Proof.
  induction txs as [|x txs IH]; intros p c H; [apply elem_of_nil in H; destruct H|].
  simpl in H. apply elem_of_app in H. destruct H as [H|H].
  - apply blk_tx_victims_elem in H. exists x. split; [left|exact H].
  - destruct (IH _ _ H) as (x' & Hx' & Hne & bc & Hin & Hs). exists x'. split; [right; exact Hx'|].
    split; [exact Hne|]. exists bc. split; [|exact Hs]. eapply blk_tx_pool_sub; eauto.
Qed.

Lemma blk_pool_elem_not_victim txs : forall p e, e ∈ blk_pool p txs -> fst e ∉ blk_victims p txs.
Proof.
  induction txs as [|x txs IH]; intros p e H; [apply not_elem_of_nil|].
  simpl in *. rewrite not_elem_of_app. split.
  - apply blk_pool_sub in H. apply blk_tx_pool_elem in H. tauto.
  - apply IH, H.
Qed.

Lemma blk_pool_not_tx txs : forall p e, e ∈ blk_pool p txs -> fst e ∉ txids txs.
Proof.
  induction txs as [|x txs IH]; intros p e H; [apply not_elem_of_nil|].
  simpl in *. rewrite not_elem_of_cons. split.
  - apply blk_pool_sub in H. apply blk_tx_pool_elem in H. tauto.
  - apply IH in H. exact H.
Qed.

(* one block transaction at the level of the mempool *)
Lemma blk_tx_model s p t body rel (sync : bool) :
  R s p -> (forall b', (t, b') ∈ p -> b' = body) ->
  exists s2 cs,
    conflicting (if sync then fst (remove_transaction s t) else s) body = (s2, cs) /\
    R s2 (blk_tx_pool p (t, body, rel)) /\ NoDup cs /\
    (forall c, (c ∈ cs /\ c <> t) <-> c ∈ blk_tx_victims p (t, body, rel)) /\
    snd (remove_transaction s t) = held p t.
Proof.
  intros HR Hbody.
  destruct (R_remove s p t HR) as [HR1 Hheld].
  set (s1 := if sync then fst (remove_transaction s t) else s).
  set (p1 := if sync then remove_tx p t else p).
  assert (HR1' : R s1 p1) by (subst s1 p1; destruct sync; assumption).
  rewrite conflicting_unfold.
  destruct (cf_outer_spec body s1 p1 [] HR1') as [H1 H2].
  destruct (rcf_spec p1 (R_nodup _ _ HR1') body) as (G1 & G2 & G3).
  destruct (fold_left cf_outer body (s1, [])) as [s2 cs].
  destruct (fold_left rcf_outer body (p1, [])) as [p2 cs'].
  simpl in H1, H2, G1, G2, G3. subst cs' p2.
  exists s2, cs. split; [reflexivity|].
  assert (Hnd : NoDup (map fst p)) by apply (R_nodup _ _ HR).
  assert (Hnd1 : NoDup (map fst (remove_tx p t))) by (apply remove_tx_NoDup, Hnd).
  assert (Hself : forall b', (t, b') ∈ p -> shares body b').
  { intros b' Hin. pose proof (Hbody _ Hin). subst b'.
    pose proof (R_nonempty _ _ HR) as Hne. rewrite Forall_forall in Hne.
    specialize (Hne _ Hin). simpl in Hne. destruct body as [|o body]; [congruence|].
    exists o. split; left; reflexivity. }
  split; [|split; [exact G2|split; [|exact Hheld]]].
  - replace (blk_tx_pool p (t, body, rel)) with (filter (fun e : Z * list Z => ~ shares body (snd e)) p1);
      [exact H1|].
    unfold blk_tx_pool. cbn [fst snd]. rewrite fold_remove_tx.
    subst p1. destruct sync.
    + apply filter_ext_in. intros [x bx] Hin. simpl. rewrite conflicting_held_elem. split.
      * intros Hns (Hne & b' & Hin' & Hs).
        assert (b' = bx) by (eapply NoDup_fst_inj; eauto). subst b'. contradiction.
      * intros Hn Hs. apply Hn. apply remove_tx_elem in Hin as Hin2. simpl in Hin2. split; [tauto|].
        exists bx. auto.
    + set (CH := conflicting_held (remove_tx p t) t body).
      assert (HCH : forall x, x ∈ CH <-> x <> t /\ exists b', (x, b') ∈ remove_tx p t /\ shares body b').
      { intros x. apply conflicting_held_elem. }
      clearbody CH. unfold remove_tx, pool. rewrite list_filter_filter.
      apply filter_ext_in. intros [x bx] Hin. simpl. rewrite HCH. split.
      * intros Hns. split.
        -- intros (Hne & b' & Hin' & Hs). apply remove_tx_elem in Hin'. destruct Hin' as [Hin' _].
           assert (b' = bx) by (apply (NoDup_fst_inj p x b' bx Hnd Hin' Hin)). subst b'. contradiction.
        -- intros ->. apply Hns, Hself, Hin.
      * intros [Hn Hne] Hs. apply Hn. split; [exact Hne|]. exists bx. split; [|exact Hs].
        apply remove_tx_elem. auto.
  - intros c. rewrite G3, blk_tx_victims_elem. cbn [fst snd]. subst p1. destruct sync.
    + split.
      * intros [(b' & Hin & Hs) Hne]. split; [exact Hne|]. exists b'. apply remove_tx_elem in Hin. tauto.
      * intros (Hne & b' & Hin & Hs). split; [|exact Hne]. exists b'. split; [|exact Hs].
        apply remove_tx_elem. auto.
    + tauto.
Qed.

Lemma remove_one_spec x l : NoDup l ->
  fst (remove_one x l) = bool_decide (x ∈ l) /\ NoDup (snd (remove_one x l)) /\
  forall y, y ∈ snd (remove_one x l) <-> y ∈ l /\ y <> x.
Proof.
  intros Hnd. unfold remove_one. rewrite mem_decide. destruct (bool_decide (x ∈ l)) eqn:E.
  - apply bool_decide_eq_true in E. cbn [fst snd]. split; [reflexivity|].
    induction Hnd as [|a l Ha Hnd IH].
    + apply elem_of_nil in E. destruct E.
    + destruct (a =? x) eqn:Eax.
      * apply Z.eqb_eq in Eax. subst a. split; [exact Hnd|]. intros y. rewrite elem_of_cons. split.
        -- intros H. split; [tauto|]. intros ->. contradiction.
        -- intros [[->|H] Hne]; [congruence|exact H].
      * apply Z.eqb_neq in Eax. apply elem_of_cons in E. destruct E as [->|E]; [congruence|].
        destruct (IH E) as [IH1 IH2]. split.
        -- apply NoDup_cons. split; [|exact IH1]. rewrite IH2. tauto.
        -- intros y. rewrite !elem_of_cons, IH2. split.
           ++ intros [->|[H1 H2]]; [split; [auto|congruence]|tauto].
           ++ intros [[->|H1] H2]; [auto|tauto].
  - apply bool_decide_eq_false in E. cbn [fst snd]. split; [reflexivity|]. split; [exact Hnd|].
    intros y. split; [|tauto]. intros H. split; [exact H|]. intros ->. contradiction.
Qed.

Lemma add_blocktx_fields n h t :
  mp (add_blocktx n h t) = mp n /\ unconf (add_blocktx n h t) = unconf n /\
  states (add_blocktx n h t) = states n /\ same_misc n (add_blocktx n h t).
Proof. unfold add_blocktx. destruct (mem t _); repeat split. Qed.

Lemma remove_blocktx_fields n h t :
  mp (remove_blocktx n h t) = mp n /\ unconf (remove_blocktx n h t) = unconf n /\
  states (remove_blocktx n h t) = states n /\ same_misc n (remove_blocktx n h t).
Proof.
  unfold remove_blocktx. destruct (blocktxs n !! h) as [l|]; [destruct (mem t l)|]; repeat split.
Qed.

Lemma held_sub (p p' : pool) t : (forall e, e ∈ p' -> e ∈ p) -> held p t = false -> held p' t = false.
Proof.
  intros Hsub H. apply held_false. intros b Hb. eapply held_false in H. apply H. apply Hsub. exact Hb.
Qed.

Lemma txids_elem (txs : list btx) t : t ∈ txids txs <-> exists body rel, (t, body, rel) ∈ txs.
Proof.
  unfold txids. rewrite elem_of_list_fmap. split.
  - intros ([[t' body] rel] & -> & H). eauto.
  - intros (body & rel & H). exists (t, body, rel). auto.
Qed.

(* ProcessBlock: the first loop *)
Lemma block_txs_spec (PB : Z -> Prop) S0 h : forall txs n unc pending acc p,
  R (mp n) p ->
  (forall t body rel b', (t, body, rel) ∈ txs -> (t, b') ∈ p -> b' = body) ->
  (forall c, c ∈ blk_victims p txs -> c ∉ txids txs) ->
  NoDup (txids txs) -> NoDup unc ->
  (forall t body, (t, body, true) ∈ txs -> t ∉ unc -> held p t = false) ->
  (forall c, c ∈ unc -> is_Some (states n !! c)) ->
  (forall c bc, (c, bc) ∈ p -> c ∉ tkeys acc) ->
  Ext PB S0 (states n) acc ->
  exists n' unc' pend evs,
    block_txs n h unc txs pending acc = Some (n', unc', pending ++ pend, acc ++ evs) /\
    unconf n' = unconf n /\ same_misc n n' /\
    R (mp n') (blk_pool p txs) /\
    Ext PB S0 (states n') (acc ++ evs) /\
    (forall x, is_Some (states n !! x) -> is_Some (states n' !! x)) /\
    (forall x, states n' !! x = None -> states n !! x = None) /\
    (forall x, x ∈ unc' <-> x ∈ unc /\ x ∉ txids txs) /\
    (forall x s, tev_in evs x s ->
       x ∈ blk_victims p txs /\ x ∈ unc /\ EUpdate x s ∈ evs /\
       s_cancel s = true /\ s_unsafe s = true /\ s_safe s = false /\
       exists so, S0 !! x = Some so /\ s_proof s = s_proof so) /\
    (forall c, c ∈ blk_victims p txs -> c ∈ unc -> exists s, EUpdate c s ∈ evs) /\
    NoDup (map ptx pend) /\
    (forall t body nw sf, (t, body, nw, sf) ∈ pend ->
       exists rel, (t, body, rel) ∈ txs /\ (if nw : bool then rel = true /\ t ∉ unc else t ∈ unc)) /\
    (forall t body rel, (t, body, rel) ∈ txs ->
       if bool_decide (t ∈ unc) then (t, body, false, true) ∈ pend
       else rel = true -> exists sf, (t, body, true, sf) ∈ pend).
Proof.
  induction txs as [|[[t body] rel] txs IH];
    intros n unc pending acc p HR Hcons Hvic Hndt Hndu Hnmp Hust Hfr HE.
  - exists n, unc, [], []. rewrite !app_nil_r. simpl.
    split; [reflexivity|]. split; [reflexivity|]. split; [apply same_misc_refl|].
    split; [exact HR|]. split; [exact HE|]. split; [auto|]. split; [auto|].
    split; [intros x; split; [intros H; split; [exact H|apply not_elem_of_nil]|tauto]|].
    split; [intros x s H; destruct (tev_in_nil _ _ H)|].
    split; [intros c H; apply elem_of_nil in H; destruct H|].
    split; [constructor|].
    split; [intros t body nw sf H; apply elem_of_nil in H; destruct H|].
    intros t body rel H. apply elem_of_nil in H. destruct H.
  - cbn [txids map fst] in Hndt. apply NoDup_cons in Hndt. destruct Hndt as [Htni Hndt].
    fold (txids txs) in Htni, Hndt.
    destruct (remove_one_spec t unc Hndu) as (Hio & Hndu1 & Hu1).
    cbn [block_txs]. destruct (remove_one t unc) as [in_unc unc1]. cbn [fst snd] in Hio, Hndu1, Hu1.
    subst in_unc.
    destruct (blk_tx_model (mp n) p t body rel (insync n) HR) as (s2 & cs & Hcf & HR2 & Hndcs & Hcs & Hheld).
    { intros b' Hb'. eapply Hcons; [left|exact Hb']. }
    set (p' := blk_tx_pool p (t, body, rel)) in *.
    assert (Hsub : forall e, e ∈ p' -> e ∈ p) by (intros e; apply blk_tx_pool_sub).
    assert (Hvcur : forall c, c ∈ cs -> c <> t -> exists bc, (c, bc) ∈ p).
    { intros c Hc Hne. assert (Hv : c ∈ blk_tx_victims p (t, body, rel)) by (apply Hcs; auto).
      apply blk_tx_victims_elem in Hv. destruct Hv as (_ & bc & Hin & _). eauto. }
    (* continuation after the mempool part *)
    assert (Cont : forall n2 (in_mp : bool),
      mp n2 = s2 -> unconf n2 = unconf n -> states n2 = states n -> same_misc n n2 ->
      (in_mp = true -> held p t = true) ->
      exists n' unc' pend evs,
        match cancel_conflicts n2 t unc1 cs true acc with
        | Some (n3, is_safe, acc1) =>
            if bool_decide (t ∈ unc)
            then block_txs n3 h unc1 txs (pending ++ [(t, body, false, true)]) acc1
            else if negb in_mp
                 then (if rel
                       then block_txs (add_blocktx n3 h t) h unc1 txs (pending ++ [(t, body, true, is_safe)]) acc1
                       else block_txs (remove_blocktx n3 h t) h unc1 txs pending acc1)
                 else block_txs n3 h unc1 txs pending acc1
        | None => None
        end = Some (n', unc', pending ++ pend, acc ++ evs) /\
        unconf n' = unconf n /\ same_misc n n' /\
        R (mp n') (blk_pool p ((t, body, rel) :: txs)) /\
        Ext PB S0 (states n') (acc ++ evs) /\
        (forall x, is_Some (states n !! x) -> is_Some (states n' !! x)) /\
        (forall x, states n' !! x = None -> states n !! x = None) /\
        (forall x, x ∈ unc' <-> x ∈ unc /\ x ∉ txids ((t, body, rel) :: txs)) /\
        (forall x s, tev_in evs x s ->
           x ∈ blk_victims p ((t, body, rel) :: txs) /\ x ∈ unc /\ EUpdate x s ∈ evs /\
           s_cancel s = true /\ s_unsafe s = true /\ s_safe s = false /\
           exists so, S0 !! x = Some so /\ s_proof s = s_proof so) /\
        (forall c, c ∈ blk_victims p ((t, body, rel) :: txs) -> c ∈ unc -> exists s, EUpdate c s ∈ evs) /\
        NoDup (map ptx pend) /\
        (forall t' body' nw sf, (t', body', nw, sf) ∈ pend ->
           exists rel', (t', body', rel') ∈ (t, body, rel) :: txs /\
                        (if nw : bool then rel' = true /\ t' ∉ unc else t' ∈ unc)) /\
        (forall t' body' rel', (t', body', rel') ∈ (t, body, rel) :: txs ->
           if bool_decide (t' ∈ unc) then (t', body', false, true) ∈ pend
           else rel' = true -> exists sf, (t', body', true, sf) ∈ pend)).
    { intros n2 in_mp Hmp2 Hun2 Hst2 Hmisc2 Hinmp.
      destruct (cancel_conflicts_spec PB S0 t unc1 cs Hndcs n2 true acc) as
        (n3 & safe' & evs1 & Hcc & Hmp3 & Hun3 & Hmisc3 & HE3 & Hst3 & Hst3' & Hev1 & Hev2).
      { intros c Hc Hne Hu. destruct (Hvcur c Hc Hne) as (bc & Hbc). split; [eapply Hfr; eauto|].
        rewrite Hst2. apply Hust. apply Hu1 in Hu. tauto. }
      { rewrite Hst2. exact HE. }
      rewrite Hcc.
      (* the recursive call *)
      assert (Rec : forall n4 (pc : option pentry),
        mp n4 = mp n3 -> unconf n4 = unconf n3 -> states n4 = states n3 -> same_misc n3 n4 ->
        (forall e, pc = Some e ->
           (e = (t, body, false, true) /\ t ∈ unc) \/
           (exists sf, e = (t, body, true, sf)) /\ rel = true /\ t ∉ unc) ->
        (if bool_decide (t ∈ unc) then pc = Some (t, body, false, true)
         else rel = true -> exists sf, pc = Some (t, body, true, sf)) ->
        exists n' unc' pend evs,
          block_txs n4 h unc1 txs (match pc with Some e => pending ++ [e] | None => pending end) (acc ++ evs1)
            = Some (n', unc', pending ++ pend, acc ++ evs) /\
          unconf n' = unconf n /\ same_misc n n' /\
          R (mp n') (blk_pool p ((t, body, rel) :: txs)) /\
          Ext PB S0 (states n') (acc ++ evs) /\
          (forall x, is_Some (states n !! x) -> is_Some (states n' !! x)) /\
          (forall x, states n' !! x = None -> states n !! x = None) /\
          (forall x, x ∈ unc' <-> x ∈ unc /\ x ∉ txids ((t, body, rel) :: txs)) /\
          (forall x s, tev_in evs x s ->
             x ∈ blk_victims p ((t, body, rel) :: txs) /\ x ∈ unc /\ EUpdate x s ∈ evs /\
             s_cancel s = true /\ s_unsafe s = true /\ s_safe s = false /\
             exists so, S0 !! x = Some so /\ s_proof s = s_proof so) /\
          (forall c, c ∈ blk_victims p ((t, body, rel) :: txs) -> c ∈ unc -> exists s, EUpdate c s ∈ evs) /\
          NoDup (map ptx pend) /\
          (forall t' body' nw sf, (t', body', nw, sf) ∈ pend ->
             exists rel', (t', body', rel') ∈ (t, body, rel) :: txs /\
                          (if nw : bool then rel' = true /\ t' ∉ unc else t' ∈ unc)) /\
          (forall t' body' rel', (t', body', rel') ∈ (t, body, rel) :: txs ->
             if bool_decide (t' ∈ unc) then (t', body', false, true) ∈ pend
             else rel' = true -> exists sf, (t', body', true, sf) ∈ pend)).
      { intros n4 pc Hmp4 Hun4 Hst4 Hmisc4 Hpc1 Hpc3.
        set (pcl := match pc with Some e => [e] | None => [] end).
        assert (Hpp : match pc with Some e => pending ++ [e] | None => pending end = pending ++ pcl).
        { subst pcl. destruct pc; [reflexivity|rewrite app_nil_r; reflexivity]. }
        rewrite Hpp. clear Hpp.
        destruct (IH n4 unc1 (pending ++ pcl) (acc ++ evs1) p') as
          (n' & unc' & pend & evs & Hbt & Hun' & Hmisc' & HR' & HE' & Hst' & Hst'' & Hunc' & Hevs1 & Hevs2 & Hndp & Hp1 & Hp2).
        { rewrite Hmp4, Hmp3, Hmp2. exact HR2. }
        { intros t' body' rel' b' Hin Hb'. eapply Hcons; [right; exact Hin|apply Hsub, Hb']. }
        { intros c Hc. assert (Hc' : c ∉ txids ((t, body, rel) :: txs)).
          { apply Hvic. simpl. apply elem_of_app. right. exact Hc. }
          cbn [txids map] in Hc'. apply not_elem_of_cons in Hc'. tauto. }
        { exact Hndt. }
        { exact Hndu1. }
        { intros t' body' Hin Hnu. apply (held_sub p p' t' Hsub). eapply Hnmp; [right; exact Hin|].
          intros Hu. apply Hnu, Hu1. split; [exact Hu|]. intros ->.
          apply Htni, txids_elem. eauto. }
        { intros c Hc. rewrite Hst4. apply Hst3. rewrite Hst2. apply Hust. apply Hu1 in Hc. tauto. }
        { intros c bc Hin. rewrite tkeys_app, not_elem_of_app. split; [eapply Hfr, Hsub; eauto|].
          intros Hk. apply tkeys_elem in Hk. destruct Hk as (s & Hk).
          destruct (Hev1 c s Hk) as (H1 & H2 & _).
          apply blk_tx_pool_elem in Hin. destruct Hin as (_ & _ & Hnv). apply Hnv. apply Hcs. auto. }
        { rewrite Hst4. exact HE3. }
        exists n', unc', (pcl ++ pend), (evs1 ++ evs).
        split; [etransitivity; [exact Hbt|]; rewrite <- !app_assoc; reflexivity|].
        split; [congruence|].
        split; [eapply same_misc_trans; [|exact Hmisc']; eapply same_misc_trans; [|exact Hmisc4];
                eapply same_misc_trans; [exact Hmisc2|exact Hmisc3]|].
        split; [exact HR'|].
        split; [rewrite app_assoc; exact HE'|].
        split; [intros x Hx; apply Hst'; rewrite Hst4; apply Hst3; rewrite Hst2; exact Hx|].
        split; [intros x Hx; apply Hst'' in Hx; rewrite Hst4 in Hx; apply Hst3' in Hx; rewrite Hst2 in Hx; exact Hx|].
        split.
        { intros x. rewrite Hunc', Hu1. cbn [txids map fst]. rewrite not_elem_of_cons. fold (txids txs). tauto. }
        split.
        { intros x s H. apply tev_in_app in H. destruct H as [H|H].
          - destruct (Hev1 x s H) as (H1 & H2 & H3 & H4 & H5 & H6 & H7 & so & H8 & H9).
            split; [simpl; apply elem_of_app; left; apply Hcs; auto|].
            split; [apply Hu1 in H3; tauto|]. split; [apply elem_of_app; left; exact H4|].
            repeat (split; [assumption|]). exists so. split; [|exact H9].
            destruct (Hvcur x H1 H2) as (bc & Hbc).
            rewrite <- (x_out _ _ _ _ HE x (Hfr _ _ Hbc)). rewrite <- Hst2. exact H8.
          - destruct (Hevs1 x s H) as (H1 & H2 & H3 & H4).
            split; [simpl; apply elem_of_app; right; exact H1|].
            split; [apply Hu1 in H2; tauto|]. split; [apply elem_of_app; right; exact H3|exact H4]. }
        split.
        { intros c Hc Hu. simpl in Hc. apply elem_of_app in Hc. destruct Hc as [Hc|Hc].
          - apply Hcs in Hc. destruct Hc as [Hc Hne]. destruct (Hev2 c Hc Hne) as (s & Hs).
            { apply Hu1. auto. }
            exists s. apply elem_of_app. left. exact Hs.
          - assert (Hne : c <> t).
            { assert (Hc' : c ∉ txids ((t, body, rel) :: txs)).
              { apply Hvic. simpl. apply elem_of_app. right. exact Hc. }
              cbn [txids map fst] in Hc'. apply not_elem_of_cons in Hc'. tauto. }
            destruct (Hevs2 c Hc) as (s & Hs); [apply Hu1; auto|].
            exists s. apply elem_of_app. right. exact Hs. }
        assert (Hpend_tx : forall e, e ∈ pend -> ptx e ∈ txids txs).
        { intros [[[t' body'] nw] sf] Hin. destruct (Hp1 _ _ _ _ Hin) as (rel' & Hin' & _).
          apply txids_elem. cbn. eauto. }
        split.
        { rewrite map_app. apply NoDup_app. split; [|split; [|exact Hndp]].
          - subst pcl. destruct pc; [apply NoDup_singleton|constructor].
          - intros x Hx Hx'. apply elem_of_list_fmap in Hx'. destruct Hx' as (e' & -> & He').
            apply Hpend_tx in He'. subst pcl. destruct pc as [e|]; [|apply elem_of_nil in Hx; exact Hx].
            apply elem_of_list_singleton in Hx.
            destruct (Hpc1 e eq_refl) as [[-> _]|[(sf & ->) _]]; cbn in Hx; rewrite Hx in He'; contradiction. }
        split.
        { intros t' body' nw sf Hin. apply elem_of_app in Hin. destruct Hin as [Hin|Hin].
          - subst pcl. destruct pc as [e|]; [|apply elem_of_nil in Hin; destruct Hin].
            apply elem_of_list_singleton in Hin. subst e.
            destruct (Hpc1 _ eq_refl) as [[Heq Hu]|[(sf' & Heq) [Hrel Hu]]]; inversion Heq; subst;
              (eexists; split; [left|]); cbn; auto.
          - destruct (Hp1 _ _ _ _ Hin) as (rel' & Hin' & Hc). exists rel'. split; [right; exact Hin'|].
            assert (Hne : t' <> t).
            { intros ->. apply Htni, txids_elem. eauto. }
            destruct nw.
            + destruct Hc as [Hc1 Hc2]. split; [exact Hc1|]. intros Hu. apply Hc2, Hu1. auto.
            + apply Hu1 in Hc. tauto. }
        { intros t' body' rel' Hin. apply elem_of_cons in Hin. destruct Hin as [Heq|Hin].
          - inversion Heq. subst t' body' rel'. destruct (bool_decide (t ∈ unc)).
            + apply elem_of_app. left. subst pcl. rewrite Hpc3. left.
            + intros Hrel. destruct (Hpc3 Hrel) as (sf & Hsf). exists sf. apply elem_of_app. left.
              subst pcl. rewrite Hsf. left.
          - assert (Hne : t' <> t).
            { intros ->. apply Htni, txids_elem. eauto. }
            specialize (Hp2 _ _ _ Hin).
            assert (Hbd : bool_decide (t' ∈ unc1) = bool_decide (t' ∈ unc)).
            { apply bool_decide_ext. rewrite Hu1. tauto. }
            rewrite Hbd in Hp2. destruct (bool_decide (t' ∈ unc)).
            + apply elem_of_app. right. exact Hp2.
            + intros Hrel. destruct (Hp2 Hrel) as (sf & Hsf). exists sf. apply elem_of_app. right. exact Hsf. } }
      destruct (bool_decide (t ∈ unc)) eqn:Etu.
      - apply bool_decide_eq_true in Etu.
        apply (Rec n3 (Some (t, body, false, true))); try reflexivity.
        + apply same_misc_refl.
        + intros e He. inversion He. subst. left. auto.
      - apply bool_decide_eq_false in Etu. destruct in_mp; cbn [negb].
        + assert (Hrel : rel = false).
          { destruct rel; [|reflexivity]. rewrite (Hnmp t body) in Hinmp; [|left|exact Etu].
            specialize (Hinmp eq_refl). discriminate. }
          apply (Rec n3 None); try reflexivity.
          * apply same_misc_refl.
          * intros e He. discriminate.
          * rewrite Hrel. discriminate.
        + destruct rel.
          * destruct (add_blocktx_fields n3 h t) as (A1 & A2 & A3 & A4).
            apply (Rec (add_blocktx n3 h t) (Some (t, body, true, safe'))); try assumption.
            -- intros e He. inversion He. subst. right. split; [eauto|]. auto.
            -- intros _. eauto.
          * destruct (remove_blocktx_fields n3 h t) as (A1 & A2 & A3 & A4).
            apply (Rec (remove_blocktx n3 h t) None); try assumption.
            -- intros e He. discriminate.
            -- discriminate. }
    destruct (insync n) eqn:Esync.
    + destruct (remove_transaction (mp n) t) as [m bmp] eqn:Erm. cbn [fst snd] in Hcf, Hheld.
      cbn [mp set_mp]. rewrite Hcf.
      apply (Cont (set_mp (set_mp n m) s2) bmp); try reflexivity.
      * repeat split.
      * intros ->. symmetry. exact Hheld.
    + cbn [mp set_mp]. rewrite Hcf.
      apply (Cont (set_mp n s2) false); try reflexivity.
      * repeat split.
      * discriminate.
Qed.

(* ---------------------------------------------------------------------------------------- *)
(* the monitor's walk over a block's transactions *)
Definition cancel_pred (c : Z) (e : ev) : bool :=
  (e_kind e =? 2) && (e_t e =? c) && e_cancel e && e_unsafe e.

Definition blkF (live : list Z) (es : list ev) : Z * pool * list Z -> btx -> Z * pool * list Z :=
  fun '(code, p, cf) x =>
      let '(t, body, rel) := x in
      let p1 := remove_tx p t in
      let cs := conflicting_held p1 t body in
      let bad := existsb (fun c => mem c live &&
                   negb (count_ev es (fun e => (e_kind e =? 2) && (e_t e =? c) && e_cancel e && e_unsafe e) =? 1)) cs in
      ((if (code =? 0) && bad then 152 else code), fold_left remove_tx cs p1,
       fold_left (fun l c => add_z c l) cs cf).

Definition blk_bad (live : list Z) (es : list ev) (p : pool) (x : btx) : bool :=
  existsb (fun c => mem c live && negb (count_ev es (cancel_pred c) =? 1)) (blk_tx_victims p x).

Lemma blkF_step live es code p cf x :
  blkF live es (code, p, cf) x =
  ((if (code =? 0) && blk_bad live es p x then 152 else code), blk_tx_pool p x,
   fold_left (fun l c => add_z c l) (blk_tx_victims p x) cf).
Proof. destruct x as [[t body] rel]. reflexivity. Qed.

Lemma blkF_spec live es : forall txs code p cf,
  let r := fold_left (blkF live es) txs (code, p, cf) in
  snd (fst r) = blk_pool p txs /\
  (forall x, x ∈ snd r <-> x ∈ cf \/ x ∈ blk_victims p txs) /\
  (code = 0 ->
   (forall c, c ∈ blk_victims p txs -> c ∈ live -> count_ev es (cancel_pred c) = 1) ->
   fst (fst r) = 0).
Proof.
  induction txs as [|x txs IH]; intros code p cf.
  - simpl. split; [reflexivity|]. split; [|auto]. intros x. rewrite elem_of_nil. tauto.
  - cbn [fold_left]. rewrite blkF_step.
    specialize (IH (if (code =? 0) && blk_bad live es p x then 152 else code) (blk_tx_pool p x)
                   (fold_left (fun l c => add_z c l) (blk_tx_victims p x) cf)).
    cbv zeta in IH. destruct IH as (IH1 & IH2 & IH3). cbv zeta.
    split; [exact IH1|]. split.
    + intros y. rewrite IH2, fold_add_z_elem. cbn [blk_victims]. rewrite elem_of_app. tauto.
    + intros -> Hall. apply IH3.
      * assert (Hb : blk_bad live es p x = false); [|rewrite Hb; reflexivity].
        unfold blk_bad. apply existsb_false_iff. intros c Hc.
        destruct (mem c live) eqn:Em; [|reflexivity]. apply mem_elem in Em.
        cbn [andb]. apply negb_false_iff, Z.eqb_eq.
        apply (Hall c); [|exact Em]. cbn [blk_victims]. apply elem_of_app. left. exact Hc.
      * intros c Hc. apply Hall. cbn [blk_victims]. apply elem_of_app. right. exact Hc.
Qed.
