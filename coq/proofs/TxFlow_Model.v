(* Proofs for the transaction pipeline monitors, part 2: what the model's functions do to the
   stored states, the unconfirmed set and the list of notifications. *)
From V.lib Require Import Base.
From V.model Require Import MemPool MemPoolSpec TxFlow TxFlowSpec.
From V.proofs Require Import MemPool_Proofs TxFlow_Base.

(* ---------------------------------------------------------------------------------------- *)
(* sorted_keys *)
Lemma insert_kv_perm {A} (kv : Z * A) l : insert_kv kv l ≡ₚ kv :: l.
Proof.
  induction l as [|x l IH]; [reflexivity|].
  simpl. destruct (fst kv <=? fst x); [reflexivity|].
  rewrite IH. apply perm_swap.
Qed.

Lemma sort_kv_perm' {A} (l : list (Z * A)) : sort_kv l ≡ₚ l.
Proof.
  induction l as [|x l IH]; [reflexivity|].
  unfold sort_kv in *. simpl. rewrite insert_kv_perm, IH. reflexivity.
Qed.

Lemma sorted_keys_perm {A} (m : gmap Z A) : sorted_keys m ≡ₚ (map_to_list m).*1.
Proof. unfold sorted_keys. apply fmap_Permutation, sort_kv_perm'. Qed.

Lemma sorted_keys_elem {A} (m : gmap Z A) x : x ∈ sorted_keys m <-> is_Some (m !! x).
Proof.
  rewrite sorted_keys_perm, elem_of_list_fmap. split.
  - intros ([k a] & -> & H). apply elem_of_map_to_list in H. simpl. eauto.
  - intros (a & H). exists (x, a). split; [reflexivity|]. apply elem_of_map_to_list, H.
Qed.

Lemma sorted_keys_NoDup {A} (m : gmap Z A) : NoDup (sorted_keys m).
Proof. rewrite sorted_keys_perm. apply NoDup_fst_map_to_list. Qed.

(* ---------------------------------------------------------------------------------------- *)
(* every change of a stored state is notified: the states after a step are the states before,
   overwritten by the states of the step's notifications; at most one notification per txid *)
Definition flags (s : tstate) : Prop :=
  (s_safe s && s_unsafe s = false) /\ (s_cancel s = true -> s_unsafe s = true).

Definition tkey (e : event) : option Z :=
  match tev e with Some (_, t, _) => Some t | None => None end.
Definition tkeys (evs : list event) : list Z := omap tkey evs.

Lemma tkeys_app evs1 evs2 : tkeys (evs1 ++ evs2) = tkeys evs1 ++ tkeys evs2.
Proof. apply omap_app. Qed.

Lemma tkeys_elem evs t : t ∈ tkeys evs <-> exists s, tev_in evs t s.
Proof.
  unfold tkeys. rewrite elem_of_list_omap. split.
  - intros (e & He & Hk). destruct e as [t' s|t' s|h b]; cbn in Hk; inversion Hk; subst;
      exists s; [left|right]; exact He.
  - intros (s & [H|H]); eexists; (split; [exact H|reflexivity]).
Qed.

(* PB: the blocks a proof may newly refer to in this step *)
Definition proof_ok (PB : Z -> Prop) (po : option Z) (s : tstate) : Prop :=
  s_proof s = po \/ exists b, s_proof s = Some b /\ PB b.

Definition trans (PB : Z -> Prop) (so s : tstate) : Prop :=
  (s_unsafe so = true -> s_unsafe s = true) /\ (s_cancel so = true -> s_cancel s = true) /\
  (flags so -> flags s) /\ proof_ok PB (s_proof so) s.

Record Ext (PB : Z -> Prop) (S0 S : gmap Z tstate) (evs : list event) : Prop := mkExt {
  x_nodup : NoDup (tkeys evs);
  x_in : forall t s, tev_in evs t s -> S !! t = Some s;
  x_out : forall t, t ∉ tkeys evs -> S !! t = S0 !! t;
  x_new : forall t s, ETx t s ∈ evs -> S0 !! t = None /\ flags s /\ proof_ok PB None s;
  x_upd : forall t s, EUpdate t s ∈ evs -> exists so, S0 !! t = Some so /\ trans PB so s }.

Lemma Ext_nil PB S0 : Ext PB S0 S0 [].
Proof.
  split; simpl.
  - constructor.
  - intros t s H. destruct (tev_in_nil _ _ H).
  - reflexivity.
  - intros t s H. apply elem_of_nil in H. destruct H.
  - intros t s H. apply elem_of_nil in H. destruct H.
Qed.

Lemma Ext_hdr PB S0 h b : Ext PB S0 S0 [EHeaders h b].
Proof.
  split; simpl.
  - constructor.
  - intros t s [H|H]; apply elem_of_list_singleton in H; discriminate.
  - reflexivity.
  - intros t s H. apply elem_of_list_singleton in H. discriminate.
  - intros t s H. apply elem_of_list_singleton in H. discriminate.
Qed.

Lemma Ext_add PB S0 S evs e nw t s :
  Ext PB S0 S evs -> tev e = Some (nw, t, s) -> t ∉ tkeys evs ->
  (nw = true -> S !! t = None /\ flags s /\ proof_ok PB None s) ->
  (nw = false -> exists so, S !! t = Some so /\ trans PB so s) ->
  Ext PB S0 (<[t := s]> S) (evs ++ [e]).
Proof.
  intros [Hnd Hin Hout Hnew Hupd] He Hnt H1 H2.
  assert (Hk : tkeys (evs ++ [e]) = tkeys evs ++ [t]).
  { rewrite tkeys_app. unfold tkeys at 2. simpl. unfold tkey. rewrite He. reflexivity. }
  split.
  - rewrite Hk. apply NoDup_app. split; [exact Hnd|]. split; [|apply NoDup_singleton].
    intros x Hx Hx'. apply elem_of_list_singleton in Hx'. subst. contradiction.
  - intros t' s' H. apply tev_in_app in H. destruct H as [H|H].
    + assert (t' <> t).
      { intros ->. apply Hnt, tkeys_elem. eauto. }
      rewrite lookup_insert_ne by congruence. apply Hin, H.
    + apply tev_in_single in H.
      destruct H as [-> | ->]; cbn in He; inversion He; subst; apply lookup_insert.
  - intros t' H. rewrite Hk, not_elem_of_app, not_elem_of_cons in H. destruct H as [H1' [H2' _]].
    rewrite lookup_insert_ne by congruence. apply Hout, H1'.
  - intros t' s' H. apply elem_of_app in H. destruct H as [H|H]; [apply Hnew, H|].
    apply elem_of_list_singleton in H. subst e. cbn in He. inversion He. subst.
    rewrite <- (Hout t Hnt). apply H1. reflexivity.
  - intros t' s' H. apply elem_of_app in H. destruct H as [H|H]; [apply Hupd, H|].
    apply elem_of_list_singleton in H. subst e. cbn in He. inversion He. subst.
    rewrite <- (Hout t Hnt). apply H2. reflexivity.
Qed.

Lemma Ext_upd PB S0 S evs t so s :
  Ext PB S0 S evs -> t ∉ tkeys evs -> S !! t = Some so -> trans PB so s ->
  Ext PB S0 (<[t := s]> S) (evs ++ [EUpdate t s]).
Proof.
  intros HE Hnt Hs Ht. eapply (Ext_add PB S0 S evs (EUpdate t s) false t s); eauto.
  discriminate.
Qed.

Lemma Ext_new PB S0 S evs t s :
  Ext PB S0 S evs -> t ∉ tkeys evs -> S !! t = None -> flags s -> proof_ok PB None s ->
  Ext PB S0 (<[t := s]> S) (evs ++ [ETx t s]).
Proof.
  intros HE Hnt Hs Hf Hp. eapply (Ext_add PB S0 S evs (ETx t s) true t s); eauto.
  discriminate.
Qed.

Lemma Ext_unique PB S0 S evs t s1 s2 : Ext PB S0 S evs -> tev_in evs t s1 -> tev_in evs t s2 -> s1 = s2.
Proof. intros HE H1 H2. apply (x_in _ _ _ _ HE) in H1, H2. congruence. Qed.

(* fields other than mp / unconf / states *)
Definition same_misc (n n' : node) : Prop :=
  blocktxs n' = blocktxs n /\ chain n' = chain n /\ insync n' = insync n /\ now n' = now n /\
  delay n' = delay n.

Lemma same_misc_refl n : same_misc n n.
Proof. repeat split. Qed.

Lemma same_misc_trans n1 n2 n3 : same_misc n1 n2 -> same_misc n2 n3 -> same_misc n1 n3.
Proof. unfold same_misc. intros (?&?&?&?&?) (?&?&?&?&?). repeat split; congruence. Qed.

(* ---------------------------------------------------------------------------------------- *)
(* mark_conflicts *)
Definition mk_unsafe_s (s : tstate) : tstate :=
  TState false true (s_cancel s) (s_depth s) (s_proof s) (s_outs s).
Definition mk_unsafe_u (u : utx) : utx := UTx (u_time u) true (u_safe u) (u_trusted u).

Lemma trans_mk_unsafe PB s : trans PB s (mk_unsafe_s s).
Proof.
  unfold trans, flags, proof_ok, mk_unsafe_s. simpl. repeat split; auto.
Qed.

Lemma mark_conflicts_spec PB S0 cs : NoDup cs -> forall n acc n' acc',
  mark_conflicts n cs acc = (n', acc') ->
  (forall c, c ∈ cs -> c ∉ tkeys acc) ->
  Ext PB S0 (states n) acc ->
  mp n' = mp n /\ same_misc n n' /\
  (forall x, unconf n' !! x = if bool_decide (x ∈ cs) then mk_unsafe_u <$> unconf n !! x
                              else unconf n !! x) /\
  Ext PB S0 (states n') acc' /\
  exists evs, acc' = acc ++ evs /\
    (forall x s, tev_in evs x s ->
       x ∈ cs /\ is_Some (unconf n !! x) /\ EUpdate x s ∈ evs /\ s_unsafe s = true /\ s_safe s = false) /\
    (forall c, c ∈ cs -> is_Some (unconf n !! c) -> is_Some (states n !! c) ->
       exists s, EUpdate c s ∈ evs /\ s_unsafe s = true).
Proof.
  induction 1 as [|c cs Hc Hnd IH]; intros n acc n' acc' Hm Hfresh HE.
  - simpl in Hm. inversion Hm. subst. split; [reflexivity|]. split; [apply same_misc_refl|].
    split; [intros x; reflexivity|]. split; [exact HE|].
    exists []. rewrite app_nil_r. split; [reflexivity|]. split.
    + intros x s H. destruct (tev_in_nil _ _ H).
    + intros c' H. apply elem_of_nil in H. destruct H.
  - cbn [mark_conflicts] in Hm.
    assert (Hfresh' : forall c', c' ∈ cs -> c' ∉ tkeys acc).
    { intros c' H. apply Hfresh. right. exact H. }
    destruct (unconf n !! c) as [u|] eqn:Eu.
    + destruct (states (set_unconf n (<[c:=UTx (u_time u) true (u_safe u) (u_trusted u)]> (unconf n))) !! c)
        as [s|] eqn:Es.
      * cbn [states set_unconf] in Es.
        specialize (IH _ _ _ _ Hm).
        destruct IH as (Hmp & Hmisc & Hunc & HE' & evs & Hacc & Hev1 & Hev2).
        { intros c' H. rewrite tkeys_app, not_elem_of_app. split; [apply Hfresh', H|].
          cbn. intros Hx. apply elem_of_list_singleton in Hx. subst. contradiction. }
        { cbn [states set_states set_unconf]. apply (Ext_upd PB S0 _ acc c s); [exact HE| |exact Es|apply trans_mk_unsafe].
          apply Hfresh. left. }
        cbn [mp set_states set_unconf] in Hmp. split; [exact Hmp|].
        split; [exact Hmisc|]. split.
        { intros x. rewrite Hunc. cbn [unconf set_states set_unconf].
          destruct (decide (x = c)) as [->|Hne].
          - rewrite lookup_insert, Eu. rewrite (bool_decide_eq_false_2 _ Hc).
            rewrite bool_decide_eq_true_2 by left. reflexivity.
          - rewrite lookup_insert_ne by congruence.
            destruct (bool_decide (x ∈ cs)) eqn:Eb.
            + apply bool_decide_eq_true in Eb. rewrite bool_decide_eq_true_2 by (right; exact Eb). reflexivity.
            + apply bool_decide_eq_false in Eb. rewrite bool_decide_eq_false_2; [reflexivity|].
              rewrite elem_of_cons. tauto. }
        split; [exact HE'|].
        exists (EUpdate c (TState false true (s_cancel s) (s_depth s) (s_proof s) (s_outs s)) :: evs).
        split; [rewrite Hacc, <- app_assoc; reflexivity|]. split.
        { intros x s' H. change (?a :: evs) with ([a] ++ evs) in H. apply tev_in_app in H.
          destruct H as [H|H].
          - apply tev_in_single in H. destruct H as [H|H]; [discriminate|]. inversion H. subst.
            split; [left|]. split; [eauto|]. split; [left|]. split; reflexivity.
          - destruct (Hev1 x s' H) as (H1 & H2 & H3 & H4 & H5).
            split; [right; exact H1|]. split.
            { cbn [unconf set_states set_unconf] in H2.
              destruct (decide (x = c)) as [->|Hne]; [eauto|].
              rewrite lookup_insert_ne in H2 by congruence. exact H2. }
            split; [right; exact H3|]. auto. }
        { intros c' Hin Hu Hs. apply elem_of_cons in Hin. destruct Hin as [->|Hin].
          - eexists. split; [left|]. reflexivity.
          - assert (c' <> c) by (intros ->; contradiction).
            destruct (Hev2 c' Hin) as (s' & H1 & H2).
            + cbn [unconf set_states set_unconf]. rewrite lookup_insert_ne by congruence. exact Hu.
            + cbn [states set_states set_unconf]. rewrite lookup_insert_ne by congruence. exact Hs.
            + exists s'. split; [right; exact H1|exact H2]. }
      * cbn [states set_unconf] in Es.
        specialize (IH _ _ _ _ Hm Hfresh' HE).
        destruct IH as (Hmp & Hmisc & Hunc & HE' & evs & Hacc & Hev1 & Hev2).
        cbn [mp set_unconf] in Hmp. split; [exact Hmp|]. split; [exact Hmisc|]. split.
        { intros x. rewrite Hunc. cbn [unconf set_unconf].
          destruct (decide (x = c)) as [->|Hne].
          - rewrite lookup_insert, Eu. rewrite (bool_decide_eq_false_2 _ Hc).
            rewrite bool_decide_eq_true_2 by left. reflexivity.
          - rewrite lookup_insert_ne by congruence.
            destruct (bool_decide (x ∈ cs)) eqn:Eb.
            + apply bool_decide_eq_true in Eb. rewrite bool_decide_eq_true_2 by (right; exact Eb). reflexivity.
            + apply bool_decide_eq_false in Eb. rewrite bool_decide_eq_false_2; [reflexivity|].
              rewrite elem_of_cons. tauto. }
        split; [exact HE'|]. exists evs. split; [exact Hacc|]. split.
        { intros x s' H. destruct (Hev1 x s' H) as (H1 & H2 & H3).
          split; [right; exact H1|]. split; [|exact H3].
          cbn [unconf set_unconf] in H2. destruct (decide (x = c)) as [->|Hne]; [eauto|].
          rewrite lookup_insert_ne in H2 by congruence. exact H2. }
        { intros c' Hin Hu Hs. apply elem_of_cons in Hin. destruct Hin as [->|Hin].
          - rewrite Es in Hs. destruct Hs as (? & ?). discriminate.
          - assert (c' <> c) by (intros ->; contradiction).
            apply (Hev2 c' Hin).
            + cbn [unconf set_unconf]. rewrite lookup_insert_ne by congruence. exact Hu.
            + exact Hs. }
    + specialize (IH _ _ _ _ Hm Hfresh' HE).
      destruct IH as (Hmp & Hmisc & Hunc & HE' & evs & Hacc & Hev1 & Hev2).
      split; [exact Hmp|]. split; [exact Hmisc|]. split.
      { intros x. rewrite Hunc. destruct (decide (x = c)) as [->|Hne].
        - rewrite Eu. destruct (bool_decide (c ∈ cs)), (bool_decide (c ∈ c :: cs)); reflexivity.
        - destruct (bool_decide (x ∈ cs)) eqn:Eb.
          + apply bool_decide_eq_true in Eb. rewrite bool_decide_eq_true_2 by (right; exact Eb). reflexivity.
          + apply bool_decide_eq_false in Eb. rewrite bool_decide_eq_false_2; [reflexivity|].
            rewrite elem_of_cons. tauto. }
      split; [exact HE'|]. exists evs. split; [exact Hacc|]. split.
      { intros x s' H. destruct (Hev1 x s' H) as (H1 & H2). split; [right; exact H1|exact H2]. }
      { intros c' Hin Hu Hs. apply elem_of_cons in Hin. destruct Hin as [->|Hin].
        - rewrite Eu in Hu. destruct Hu as (? & ?). discriminate.
        - apply (Hev2 c' Hin Hu Hs). }
Qed.
