(* Proofs for the transaction pipeline monitors, part 2: what the model's functions do to the
   stored states, the unconfirmed set and the list of notifications. *)
From V.lib Require Import Base.
From V.model Require Import MemPool MemPoolSpec TxFlow TxFlowSpec.
From V.proofs Require Import MemPool_Proofs TxFlow_Base.

(* ---------------------------------------------------------------------------------------- *)
(* sorted_keys *)
Lemma insert_kv_perm {A} (kv : Z * A) l : insert_kv kv l ≡ₚ kv :: l.
Proof.
  induction l as [|x l IH]; [reflexivity|].
  simpl. destruct (fst kv <=? fst x); [reflexivity|].
  rewrite IH. apply perm_swap.
Qed.

Lemma sort_kv_perm' {A} (l : list (Z * A)) : sort_kv l ≡ₚ l.
Proof.
  induction l as [|x l IH]; [reflexivity|].
  unfold sort_kv in *. simpl. rewrite insert_kv_perm, IH. reflexivity.
Qed.

Lemma sorted_keys_perm {A} (m : gmap Z A) : sorted_keys m ≡ₚ (map_to_list m).*1.
Proof. unfold sorted_keys. apply fmap_Permutation, sort_kv_perm'. Qed.

Lemma sorted_keys_elem {A} (m : gmap Z A) x : x ∈ sorted_keys m <-> is_Some (m !! x).
Proof.
  rewrite sorted_keys_perm, elem_of_list_fmap. split.
  - intros ([k a] & -> & H). apply elem_of_map_to_list in H. simpl. eauto.
  - intros (a & H). exists (x, a). split; [reflexivity|]. apply elem_of_map_to_list, H.
Qed.

Lemma sorted_keys_NoDup {A} (m : gmap Z A) : NoDup (sorted_keys m).
Proof. rewrite sorted_keys_perm. apply NoDup_fst_map_to_list. Qed.

(* ---------------------------------------------------------------------------------------- *)
(* every change of a stored state is notified: the states after a step are the states before,
   overwritten by the states of the step's notifications; at most one notification per txid *)
Definition flags (s : tstate) : Prop :=
  (s_safe s && s_unsafe s = false) /\ (s_cancel s = true -> s_unsafe s = true).

Definition tkey (e : event) : option Z :=
  match tev e with Some (_, t, _) => Some t | None => None end.
Definition tkeys (evs : list event) : list Z := omap tkey evs.

Lemma tkeys_app evs1 evs2 : tkeys (evs1 ++ evs2) = tkeys evs1 ++ tkeys evs2.
Proof. apply omap_app. Qed.

Lemma tkeys_elem evs t : t ∈ tkeys evs <-> exists s, tev_in evs t s.
Proof.
  unfold tkeys. rewrite elem_of_list_omap. split.
  - intros (e & He & Hk). destruct e as [t' s|t' s|h b]; cbn in Hk; inversion Hk; subst;
      exists s; [left|right]; exact He.
  - intros (s & [H|H]); eexists; (split; [exact H|reflexivity]).
Qed.

(* PB: the blocks a proof may newly refer to in this step *)
Definition proof_ok (PB : Z -> Prop) (po : option Z) (s : tstate) : Prop :=
  s_proof s = po \/ exists b, s_proof s = Some b /\ PB b.

Definition trans (PB : Z -> Prop) (so s : tstate) : Prop :=
  (s_unsafe so = true -> s_unsafe s = true) /\ (s_cancel so = true -> s_cancel s = true) /\
  (flags so -> flags s) /\ proof_ok PB (s_proof so) s.

Record Ext (PB : Z -> Prop) (S0 S : gmap Z tstate) (evs : list event) : Prop := mkExt {
  x_nodup : NoDup (tkeys evs);
  x_in : forall t s, tev_in evs t s -> S !! t = Some s;
  x_out : forall t, t ∉ tkeys evs -> S !! t = S0 !! t;
  x_new : forall t s, ETx t s ∈ evs -> S0 !! t = None /\ flags s /\ proof_ok PB None s;
  x_upd : forall t s, EUpdate t s ∈ evs -> exists so, S0 !! t = Some so /\ trans PB so s }.

Lemma Ext_nil PB S0 : Ext PB S0 S0 [].
Proof.
  split; simpl.
  - constructor.
  - intros t s H. destruct (tev_in_nil _ _ H).
  - reflexivity.
  - intros t s H. apply elem_of_nil in H. destruct H.
  - intros t s H. apply elem_of_nil in H. destruct H.
Qed.

Lemma Ext_hdr PB S0 h b : Ext PB S0 S0 [EHeaders h b].
Proof.
  split; simpl.
  - constructor.
  - intros t s [H|H]; apply elem_of_list_singleton in H; discriminate.
  - reflexivity.
  - intros t s H. apply elem_of_list_singleton in H. discriminate.
  - intros t s H. apply elem_of_list_singleton in H. discriminate.
Qed.

Lemma Ext_add PB S0 S evs e nw t s :
  Ext PB S0 S evs -> tev e = Some (nw, t, s) -> t ∉ tkeys evs ->
  (nw = true -> S !! t = None /\ flags s /\ proof_ok PB None s) ->
  (nw = false -> exists so, S !! t = Some so /\ trans PB so s) ->
  Ext PB S0 (<[t := s]> S) (evs ++ [e]).
Proof.
  intros [Hnd Hin Hout Hnew Hupd] He Hnt H1 H2.
  assert (Hk : tkeys (evs ++ [e]) = tkeys evs ++ [t]).
  { rewrite tkeys_app. unfold tkeys at 2. simpl. unfold tkey. rewrite He. reflexivity. }
  split.
  - rewrite Hk. apply NoDup_app. split; [exact Hnd|]. split; [|apply NoDup_singleton].
    intros x Hx Hx'. apply elem_of_list_singleton in Hx'. subst. contradiction.
  - intros t' s' H. apply tev_in_app in H. destruct H as [H|H].
    + assert (t' <> t).
      { intros ->. apply Hnt, tkeys_elem. eauto. }
      rewrite lookup_insert_ne by congruence. apply Hin, H.
    + apply tev_in_single in H.
      destruct H as [-> | ->]; cbn in He; inversion He; subst; apply lookup_insert.
  - intros t' H. rewrite Hk, not_elem_of_app, not_elem_of_cons in H. destruct H as [H1' [H2' _]].
    rewrite lookup_insert_ne by congruence. apply Hout, H1'.
  - intros t' s' H. apply elem_of_app in H. destruct H as [H|H]; [apply Hnew, H|].
    apply elem_of_list_singleton in H. subst e. cbn in He. inversion He. subst.
    rewrite <- (Hout t Hnt). apply H1. reflexivity.
  - intros t' s' H. apply elem_of_app in H. destruct H as [H|H]; [apply Hupd, H|].
    apply elem_of_list_singleton in H. subst e. cbn in He. inversion He. subst.
    rewrite <- (Hout t Hnt). apply H2. reflexivity.
Qed.

Lemma Ext_upd PB S0 S evs t so s :
  Ext PB S0 S evs -> t ∉ tkeys evs -> S !! t = Some so -> trans PB so s ->
  Ext PB S0 (<[t := s]> S) (evs ++ [EUpdate t s]).
Proof.
  intros HE Hnt Hs Ht. eapply (Ext_add PB S0 S evs (EUpdate t s) false t s); eauto.
  discriminate.
Qed.

Lemma Ext_new PB S0 S evs t s :
  Ext PB S0 S evs -> t ∉ tkeys evs -> S !! t = None -> flags s -> proof_ok PB None s ->
  Ext PB S0 (<[t := s]> S) (evs ++ [ETx t s]).
Proof.
  intros HE Hnt Hs Hf Hp. eapply (Ext_add PB S0 S evs (ETx t s) true t s); eauto.
  discriminate.
Qed.

Lemma Ext_unique PB S0 S evs t s1 s2 : Ext PB S0 S evs -> tev_in evs t s1 -> tev_in evs t s2 -> s1 = s2.
Proof. intros HE H1 H2. apply (x_in _ _ _ _ HE) in H1, H2. congruence. Qed.

(* fields other than mp / unconf / states (blocktxs is never read back) *)
Definition same_misc (n n' : node) : Prop :=
  chain n' = chain n /\ insync n' = insync n /\ now n' = now n /\ delay n' = delay n.

Lemma same_misc_refl n : same_misc n n.
Proof. repeat split. Qed.

Lemma same_misc_trans n1 n2 n3 : same_misc n1 n2 -> same_misc n2 n3 -> same_misc n1 n3.
Proof. unfold same_misc. intros (?&?&?&?) (?&?&?&?). repeat split; congruence. Qed.

(* ---------------------------------------------------------------------------------------- *)
(* mark_conflicts *)
Definition mk_unsafe_s (s : tstate) : tstate :=
  TState false true (s_cancel s) (s_depth s) (s_proof s) (s_outs s).
Definition mk_unsafe_u (u : utx) : utx := UTx (u_time u) true (u_safe u) (u_trusted u).

Lemma trans_mk_unsafe PB s : trans PB s (mk_unsafe_s s).
Proof.
  unfold trans, flags, proof_ok, mk_unsafe_s. simpl. repeat split; auto.
Qed.

Lemma mark_conflicts_spec PB S0 cs : NoDup cs -> forall n acc n' acc',
  mark_conflicts n cs acc = (n', acc') ->
  (forall c, c ∈ cs -> c ∉ tkeys acc) ->
  Ext PB S0 (states n) acc ->
  mp n' = mp n /\ same_misc n n' /\
  (forall x, unconf n' !! x = if bool_decide (x ∈ cs) then mk_unsafe_u <$> unconf n !! x
                              else unconf n !! x) /\
  Ext PB S0 (states n') acc' /\
  exists evs, acc' = acc ++ evs /\
    (forall x s, tev_in evs x s ->
       x ∈ cs /\ is_Some (unconf n !! x) /\ EUpdate x s ∈ evs /\ s_unsafe s = true /\ s_safe s = false) /\
    (forall c, c ∈ cs -> is_Some (unconf n !! c) -> is_Some (states n !! c) ->
       exists s, EUpdate c s ∈ evs /\ s_unsafe s = true).
Proof.
  induction 1 as [|c cs Hc Hnd IH]; intros n acc n' acc' Hm Hfresh HE.
  - simpl in Hm. inversion Hm. subst. split; [reflexivity|]. split; [apply same_misc_refl|].
    split; [intros x; reflexivity|]. split; [exact HE|].
    exists []. rewrite app_nil_r. split; [reflexivity|]. split.
    + intros x s H. destruct (tev_in_nil _ _ H).
    + intros c' H. apply elem_of_nil in H. destruct H.
  - cbn [mark_conflicts] in Hm.
    assert (Hfresh' : forall c', c' ∈ cs -> c' ∉ tkeys acc).
    { intros c' H. apply Hfresh. right. exact H. }
    destruct (unconf n !! c) as [u|] eqn:Eu.
    + destruct (states (set_unconf n (<[c:=UTx (u_time u) true (u_safe u) (u_trusted u)]> (unconf n))) !! c)
        as [s|] eqn:Es.
      * cbn [states set_unconf] in Es.
        specialize (IH _ _ _ _ Hm).
        destruct IH as (Hmp & Hmisc & Hunc & HE' & evs & Hacc & Hev1 & Hev2).
        { intros c' H. rewrite tkeys_app, not_elem_of_app. split; [apply Hfresh', H|].
          cbn. intros Hx. apply elem_of_list_singleton in Hx. subst. contradiction. }
        { cbn [states set_states set_unconf]. apply (Ext_upd PB S0 _ acc c s); [exact HE| |exact Es|apply trans_mk_unsafe].
          apply Hfresh. left. }
        cbn [mp set_states set_unconf] in Hmp. split; [exact Hmp|].
        split; [exact Hmisc|]. split.
        { intros x. rewrite Hunc. cbn [unconf set_states set_unconf].
          destruct (decide (x = c)) as [->|Hne].
          - rewrite lookup_insert, Eu. rewrite (bool_decide_eq_false_2 _ Hc).
            rewrite bool_decide_eq_true_2 by left. reflexivity.
          - rewrite lookup_insert_ne by congruence.
            destruct (bool_decide (x ∈ cs)) eqn:Eb.
            + apply bool_decide_eq_true in Eb. rewrite bool_decide_eq_true_2 by (right; exact Eb). reflexivity.
            + apply bool_decide_eq_false in Eb. rewrite bool_decide_eq_false_2; [reflexivity|].
              rewrite elem_of_cons. tauto. }
        split; [exact HE'|].
        exists (EUpdate c (TState false true (s_cancel s) (s_depth s) (s_proof s) (s_outs s)) :: evs).
        split; [rewrite Hacc, <- app_assoc; reflexivity|]. split.
        { intros x s' H. change (?a :: evs) with ([a] ++ evs) in H. apply tev_in_app in H.
          destruct H as [H|H].
          - apply tev_in_single in H. destruct H as [H|H]; [discriminate|]. inversion H. subst.
            split; [left|]. split; [eauto|]. split; [left|]. split; reflexivity.
          - destruct (Hev1 x s' H) as (H1 & H2 & H3 & H4 & H5).
            split; [right; exact H1|]. split.
            { cbn [unconf set_states set_unconf] in H2.
              destruct (decide (x = c)) as [->|Hne]; [eauto|].
              rewrite lookup_insert_ne in H2 by congruence. exact H2. }
            split; [right; exact H3|]. auto. }
        { intros c' Hin Hu Hs. apply elem_of_cons in Hin. destruct Hin as [->|Hin].
          - eexists. split; [left|]. reflexivity.
          - assert (c' <> c) by (intros ->; contradiction).
            destruct (Hev2 c' Hin) as (s' & H1 & H2).
            + cbn [unconf set_states set_unconf]. rewrite lookup_insert_ne by congruence. exact Hu.
            + cbn [states set_states set_unconf]. rewrite lookup_insert_ne by congruence. exact Hs.
            + exists s'. split; [right; exact H1|exact H2]. }
      * cbn [states set_unconf] in Es.
        specialize (IH _ _ _ _ Hm Hfresh' HE).
        destruct IH as (Hmp & Hmisc & Hunc & HE' & evs & Hacc & Hev1 & Hev2).
        cbn [mp set_unconf] in Hmp. split; [exact Hmp|]. split; [exact Hmisc|]. split.
        { intros x. rewrite Hunc. cbn [unconf set_unconf].
          destruct (decide (x = c)) as [->|Hne].
          - rewrite lookup_insert, Eu. rewrite (bool_decide_eq_false_2 _ Hc).
            rewrite bool_decide_eq_true_2 by left. reflexivity.
          - rewrite lookup_insert_ne by congruence.
            destruct (bool_decide (x ∈ cs)) eqn:Eb.
            + apply bool_decide_eq_true in Eb. rewrite bool_decide_eq_true_2 by (right; exact Eb). reflexivity.
            + apply bool_decide_eq_false in Eb. rewrite bool_decide_eq_false_2; [reflexivity|].
              rewrite elem_of_cons. tauto. }
        split; [exact HE'|]. exists evs. split; [exact Hacc|]. split.
        { intros x s' H. destruct (Hev1 x s' H) as (H1 & H2 & H3).
          split; [right; exact H1|]. split; [|exact H3].
          cbn [unconf set_unconf] in H2. destruct (decide (x = c)) as [->|Hne]; [eauto|].
          rewrite lookup_insert_ne in H2 by congruence. exact H2. }
        { intros c' Hin Hu Hs. apply elem_of_cons in Hin. destruct Hin as [->|Hin].
          - rewrite Es in Hs. destruct Hs as (? & ?). discriminate.
          - assert (c' <> c) by (intros ->; contradiction).
            apply (Hev2 c' Hin).
            + cbn [unconf set_unconf]. rewrite lookup_insert_ne by congruence. exact Hu.
            + exact Hs. }
    + specialize (IH _ _ _ _ Hm Hfresh' HE).
      destruct IH as (Hmp & Hmisc & Hunc & HE' & evs & Hacc & Hev1 & Hev2).
      split; [exact Hmp|]. split; [exact Hmisc|]. split.
      { intros x. rewrite Hunc. destruct (decide (x = c)) as [->|Hne].
        - rewrite Eu. destruct (bool_decide (c ∈ cs)), (bool_decide (c ∈ c :: cs)); reflexivity.
        - destruct (bool_decide (x ∈ cs)) eqn:Eb.
          + apply bool_decide_eq_true in Eb. rewrite bool_decide_eq_true_2 by (right; exact Eb). reflexivity.
          + apply bool_decide_eq_false in Eb. rewrite bool_decide_eq_false_2; [reflexivity|].
            rewrite elem_of_cons. tauto. }
      split; [exact HE'|]. exists evs. split; [exact Hacc|]. split.
      { intros x s' H. destruct (Hev1 x s' H) as (H1 & H2). split; [right; exact H1|exact H2]. }
      { intros c' Hin Hu Hs. apply elem_of_cons in Hin. destruct Hin as [->|Hin].
        - rewrite Eu in Hu. destruct Hu as (? & ?). discriminate.
        - apply (Hev2 c' Hin Hu Hs). }
Qed.

(* ---------------------------------------------------------------------------------------- *)
(* delay_loop *)
Definition dcond (n : node) (cutoff t : Z) (u : utx) : bool :=
  negb (u_safe u) && negb (u_unsafe u) && (u_time u <? cutoff)
  && (u_trusted u || is_trusted (mp n) t).
Definition mk_safe_s (s : tstate) : tstate :=
  TState true (s_unsafe s) (s_cancel s) (s_depth s) (s_proof s) (s_outs s).
Definition mk_safe_u (u : utx) : utx := UTx (u_time u) (u_unsafe u) true (u_trusted u).

Lemma trans_mk_safe PB s : (s_unsafe s || s_cancel s) = false -> trans PB s (mk_safe_s s).
Proof.
  intros H. apply orb_false_iff in H. destruct H as [H1 H2].
  unfold trans, flags, proof_ok, mk_safe_s. simpl. rewrite H1, H2. repeat split; auto; congruence.
Qed.

Definition delay_unconf (n : node) (cutoff : Z) (keys : list Z) (x : Z) : option utx :=
  match unconf n !! x with
  | Some u => if bool_decide (x ∈ keys) && dcond n cutoff x u then Some (mk_safe_u u) else Some u
  | None => None
  end.

Lemma delay_unconf_cons_ne n n1 cutoff c keys x :
  x <> c -> mp n1 = mp n -> unconf n1 !! x = unconf n !! x ->
  delay_unconf n1 cutoff keys x = delay_unconf n cutoff (c :: keys) x.
Proof.
  intros Hne Hmp Hu. unfold delay_unconf, dcond. rewrite Hu, Hmp.
  destruct (unconf n !! x) as [u|]; [|reflexivity].
  replace (bool_decide (x ∈ c :: keys)) with (bool_decide (x ∈ keys)); [reflexivity|].
  apply bool_decide_ext. rewrite elem_of_cons. tauto.
Qed.

Lemma delay_loop_spec PB S0 cutoff keys : NoDup keys -> forall n acc n' acc',
  delay_loop n cutoff keys acc = (n', acc') ->
  (forall c, c ∈ keys -> c ∉ tkeys acc) ->
  Ext PB S0 (states n) acc ->
  mp n' = mp n /\ same_misc n n' /\
  (forall x, unconf n' !! x = delay_unconf n cutoff keys x) /\
  Ext PB S0 (states n') acc' /\
  exists evs, acc' = acc ++ evs /\
    (forall x s, tev_in evs x s ->
       x ∈ keys /\ EUpdate x s ∈ evs /\
       exists u so, unconf n !! x = Some u /\ dcond n cutoff x u = true /\ states n !! x = Some so /\
                    (s_unsafe so || s_cancel so) = false /\ s = mk_safe_s so) /\
    (forall x u so, x ∈ keys -> unconf n !! x = Some u -> dcond n cutoff x u = true ->
       states n !! x = Some so -> (s_unsafe so || s_cancel so) = false ->
       EUpdate x (mk_safe_s so) ∈ evs).
Proof.
  induction 1 as [|c keys Hc Hnd IH]; intros n acc n' acc' Hm Hfresh HE.
  - simpl in Hm. inversion Hm. subst. split; [reflexivity|]. split; [apply same_misc_refl|].
    split.
    { intros x. unfold delay_unconf. destruct (unconf n' !! x); [|reflexivity].
      rewrite bool_decide_eq_false_2 by apply not_elem_of_nil. reflexivity. }
    split; [exact HE|].
    exists []. rewrite app_nil_r. split; [reflexivity|]. split.
    + intros x s H. destruct (tev_in_nil _ _ H).
    + intros x u so H. apply elem_of_nil in H. destruct H.
  - cbn [delay_loop] in Hm.
    assert (Hfresh' : forall c', c' ∈ keys -> c' ∉ tkeys acc).
    { intros c' H. apply Hfresh. right. exact H. }
    (* the generic way to lift the result of the recursive call on a node n1 that differs from n
       only at key c *)
    assert (Lift : forall n1 acc1 (pre : list event),
      mp n1 = mp n -> same_misc n n1 ->
      (forall x, x <> c -> unconf n1 !! x = unconf n !! x) ->
      (forall x, x <> c -> states n1 !! x = states n !! x) ->
      unconf n1 !! c = delay_unconf n cutoff (c :: keys) c ->
      acc1 = acc ++ pre ->
      (forall x s, tev_in pre x s ->
         x = c /\ EUpdate x s ∈ pre /\
         exists u so, unconf n !! x = Some u /\ dcond n cutoff x u = true /\ states n !! x = Some so /\
                      (s_unsafe so || s_cancel so) = false /\ s = mk_safe_s so) ->
      (forall u so, unconf n !! c = Some u -> dcond n cutoff c u = true ->
         states n !! c = Some so -> (s_unsafe so || s_cancel so) = false ->
         EUpdate c (mk_safe_s so) ∈ pre) ->
      Ext PB S0 (states n1) acc1 ->
      delay_loop n1 cutoff keys acc1 = (n', acc') ->
      mp n' = mp n /\ same_misc n n' /\
      (forall x, unconf n' !! x = delay_unconf n cutoff (c :: keys) x) /\
      Ext PB S0 (states n') acc' /\
      exists evs, acc' = acc ++ evs /\
        (forall x s, tev_in evs x s ->
           x ∈ c :: keys /\ EUpdate x s ∈ evs /\
           exists u so, unconf n !! x = Some u /\ dcond n cutoff x u = true /\ states n !! x = Some so /\
                        (s_unsafe so || s_cancel so) = false /\ s = mk_safe_s so) /\
        (forall x u so, x ∈ c :: keys -> unconf n !! x = Some u -> dcond n cutoff x u = true ->
           states n !! x = Some so -> (s_unsafe so || s_cancel so) = false ->
           EUpdate x (mk_safe_s so) ∈ evs)).
    { intros n1 acc1 pre Hmp1 Hmisc1 Hu1 Hs1 Huc Hacc1 Hpre1 Hpre2 HE1 Hm1.
      specialize (IH _ _ _ _ Hm1).
      destruct IH as (Hmp & Hmisc & Hunc & HE' & evs & Hacc & Hev1 & Hev2).
      { intros c' H. rewrite Hacc1, tkeys_app, not_elem_of_app. split; [apply Hfresh', H|].
        intros Hx. apply tkeys_elem in Hx. destruct Hx as (s & Hx).
        destruct (Hpre1 _ _ Hx) as (-> & _). contradiction. }
      { exact HE1. }
      split; [congruence|]. split; [eapply same_misc_trans; eauto|]. split.
      { intros x. rewrite Hunc. destruct (decide (x = c)) as [->|Hne].
        - unfold delay_unconf at 1. rewrite (bool_decide_eq_false_2 _ Hc). simpl.
          rewrite Huc. destruct (delay_unconf n cutoff (c :: keys) c); reflexivity.
        - apply delay_unconf_cons_ne; auto. }
      split; [exact HE'|].
      exists (pre ++ evs). split; [rewrite Hacc, Hacc1, <- app_assoc; reflexivity|]. split.
      { intros x s H. apply tev_in_app in H. destruct H as [H|H].
        - destruct (Hpre1 _ _ H) as (-> & H2 & H3). split; [left|].
          split; [apply elem_of_app; left; exact H2|exact H3].
        - destruct (Hev1 _ _ H) as (H1 & H2 & u & so & H3 & H4 & H5 & H6 & H7).
          assert (x <> c) by (intros ->; contradiction).
          split; [right; exact H1|]. split; [apply elem_of_app; right; exact H2|].
          exists u, so. rewrite <- Hu1, <- Hs1 by assumption.
          unfold dcond in *. rewrite <- Hmp1. auto. }
      { intros x u so Hin Hu Hd Hs Hns. apply elem_of_app. apply elem_of_cons in Hin.
        destruct Hin as [->|Hin].
        - left. eapply Hpre2; eauto.
        - right. assert (x <> c) by (intros ->; contradiction).
          apply (Hev2 x u so Hin); [rewrite Hu1 by assumption; exact Hu| |rewrite Hs1 by assumption; exact Hs|exact Hns].
          unfold dcond in *. rewrite Hmp1. exact Hd. } }
    assert (NoPre : forall x s, tev_in [] x s ->
         x = c /\ EUpdate x s ∈ [] /\
         exists u so, unconf n !! x = Some u /\ dcond n cutoff x u = true /\ states n !! x = Some so /\
                      (s_unsafe so || s_cancel so) = false /\ s = mk_safe_s so).
    { intros x s H. destruct (tev_in_nil _ _ H). }
    destruct (unconf n !! c) as [u|] eqn:Eu.
    + fold (dcond n cutoff c u) in Hm. destruct (dcond n cutoff c u) eqn:Ed.
      * assert (Huc : forall n1, unconf n1 !! c = Some (mk_safe_u u) ->
                                 unconf n1 !! c = delay_unconf n cutoff (c :: keys) c).
        { intros n1 ->. unfold delay_unconf. rewrite Eu, Ed.
          rewrite bool_decide_eq_true_2 by left. reflexivity. }
        set (n1 := set_unconf n (<[c:=UTx (u_time u) (u_unsafe u) true (u_trusted u)]> (unconf n))) in *.
        assert (Hn1u : forall x, x <> c -> unconf n1 !! x = unconf n !! x).
        { intros x Hne. subst n1. cbn. rewrite lookup_insert_ne by congruence. reflexivity. }
        assert (Hn1c : unconf n1 !! c = Some (mk_safe_u u)).
        { subst n1. cbn. apply lookup_insert. }
        destruct (states n1 !! c) as [s|] eqn:Es.
        -- assert (Es' : states n !! c = Some s) by exact Es.
           destruct (s_unsafe s || s_cancel s) eqn:Eus.
           ++ apply (Lift n1 acc [] eq_refl).
              ** repeat split.
              ** exact Hn1u.
              ** intros x Hne. reflexivity.
              ** apply Huc, Hn1c.
              ** rewrite app_nil_r. reflexivity.
              ** exact NoPre.
              ** intros u' so Hu' _ Hso Hns. rewrite Es' in Hso. inversion Hso. subst. congruence.
              ** exact HE.
              ** exact Hm.
           ++ apply (Lift (set_states n1 (<[c:=mk_safe_s s]> (states n1))) (acc ++ [EUpdate c (mk_safe_s s)])
                      [EUpdate c (mk_safe_s s)] eq_refl).
              ** repeat split.
              ** exact Hn1u.
              ** intros x Hne. cbn. rewrite lookup_insert_ne by congruence. reflexivity.
              ** apply Huc, Hn1c.
              ** reflexivity.
              ** intros x s' H. apply tev_in_single in H. destruct H as [H|H]; [discriminate|].
                 inversion H. subst. split; [reflexivity|]. split; [left|].
                 exists u, s. auto.
              ** intros u' so Hu' _ Hso Hns. rewrite Es' in Hso. inversion Hso. subst. left.
              ** cbn [states set_states set_unconf].
                 apply (Ext_upd PB S0 _ acc c s); [exact HE| |exact Es|apply trans_mk_safe, Eus].
                 apply Hfresh. left.
              ** exact Hm.
        -- assert (Es' : states n !! c = None) by exact Es.
           apply (Lift n1 acc [] eq_refl).
           ++ repeat split.
           ++ exact Hn1u.
           ++ intros x Hne. reflexivity.
           ++ apply Huc, Hn1c.
           ++ rewrite app_nil_r. reflexivity.
           ++ exact NoPre.
           ++ intros u' so Hu' _ Hso Hns. rewrite Es' in Hso. discriminate.
           ++ exact HE.
           ++ exact Hm.
      * apply (Lift n acc [] eq_refl).
        -- apply same_misc_refl.
        -- reflexivity.
        -- reflexivity.
        -- unfold delay_unconf. rewrite Eu, Ed, andb_false_r. reflexivity.
        -- rewrite app_nil_r. reflexivity.
        -- exact NoPre.
        -- intros u' so Hu' Hd. inversion Hu'. subst. congruence.
        -- exact HE.
        -- exact Hm.
    + apply (Lift n acc [] eq_refl).
      * apply same_misc_refl.
      * reflexivity.
      * reflexivity.
      * unfold delay_unconf. rewrite Eu. reflexivity.
      * rewrite app_nil_r. reflexivity.
      * exact NoPre.
      * intros u' so Hu'. discriminate.
      * exact HE.
      * exact Hm.
Qed.

(* ---------------------------------------------------------------------------------------- *)
(* spent outputs *)
Lemma outs_ok_spent n body : outs_ok body (spent_outputs n body) = true.
Proof.
  induction body as [|o body IH]; [reflexivity|].
  cbn [spent_outputs map outs_ok]. fold (spent_outputs n body). rewrite IH, andb_true_r.
  unfold expected_out. destruct (o <? 0) eqn:E0; [reflexivity|].
  destruct (states n !! (o / 10)).
  - destruct (o mod 10 <? NOUTS); [apply Z.eqb_refl|]. rewrite orb_true_r. reflexivity.
  - destruct (o mod 10 <? NOUTS); [apply Z.eqb_refl|]. rewrite Z.eqb_refl. reflexivity.
Qed.

(* ---------------------------------------------------------------------------------------- *)
(* ProcessBlock: the cancel loop *)
Definition mk_cancel_s (s : tstate) : tstate :=
  TState false true true (s_depth s) (s_proof s) (s_outs s).

Lemma trans_mk_cancel PB s : trans PB s (mk_cancel_s s).
Proof. unfold trans, flags, proof_ok, mk_cancel_s. simpl. repeat split; auto. Qed.

Lemma cancel_conflicts_spec PB S0 t unc cs : NoDup cs -> forall n safe acc,
  (forall c, c ∈ cs -> c <> t -> c ∈ unc -> c ∉ tkeys acc /\ is_Some (states n !! c)) ->
  Ext PB S0 (states n) acc ->
  exists n' safe' evs,
    cancel_conflicts n t unc cs safe acc = Some (n', safe', acc ++ evs) /\
    mp n' = mp n /\ unconf n' = unconf n /\ same_misc n n' /\
    Ext PB S0 (states n') (acc ++ evs) /\
    (forall x, is_Some (states n !! x) -> is_Some (states n' !! x)) /\
    (forall x, states n' !! x = None -> states n !! x = None) /\
    (forall x s, tev_in evs x s ->
       x ∈ cs /\ x <> t /\ x ∈ unc /\ EUpdate x s ∈ evs /\
       s_cancel s = true /\ s_unsafe s = true /\ s_safe s = false /\
       exists so, states n !! x = Some so /\ s_proof s = s_proof so) /\
    (forall c, c ∈ cs -> c <> t -> c ∈ unc -> exists s, EUpdate c s ∈ evs).
Proof.
  induction 1 as [|c cs Hc Hnd IH]; intros n safe acc Hpre HE.
  - exists n, safe, []. rewrite app_nil_r. simpl. split; [reflexivity|].
    split; [reflexivity|]. split; [reflexivity|]. split; [apply same_misc_refl|].
    split; [exact HE|]. split; [auto|]. split; [auto|]. split.
    + intros x s H. destruct (tev_in_nil _ _ H).
    + intros c H. apply elem_of_nil in H. destruct H.
  - cbn [cancel_conflicts].
    assert (Hpre' : forall c', c' ∈ cs -> c' <> t -> c' ∈ unc -> c' ∉ tkeys acc /\ is_Some (states n !! c')).
    { intros c' H. apply Hpre. right. exact H. }
    destruct (c =? t) eqn:Ect.
    { apply Z.eqb_eq in Ect. subst c.
      destruct (IH n safe acc Hpre' HE) as (n' & safe' & evs & Hr & Hmp & Hun & Hmisc & HE' & Hst & Hst' & Hev1 & Hev2).
      exists n', safe', evs. split; [exact Hr|]. repeat (split; [assumption|]). split.
      - intros x s H. destruct (Hev1 x s H) as (H1 & H2). split; [right; exact H1|exact H2].
      - intros c Hin Hne Hu. apply elem_of_cons in Hin. destruct Hin as [->|Hin]; [congruence|].
        apply Hev2; assumption. }
    apply Z.eqb_neq in Ect.
    destruct (mem c unc) eqn:Emu.
    + apply mem_elem in Emu. destruct (Hpre c) as [Hfr (s & Hs)]; [left|exact Ect|exact Emu|].
      rewrite Hs.
      set (n1 := set_states n (<[c:=TState false true true (s_depth s) (s_proof s) (s_outs s)]> (states n))).
      destruct (IH n1 false (acc ++ [EUpdate c (mk_cancel_s s)])) as
        (n' & safe' & evs & Hr & Hmp & Hun & Hmisc & HE' & Hst & Hst' & Hev1 & Hev2).
      { intros c' Hin Hne Hu. destruct (Hpre' c' Hin Hne Hu) as [H1 H2].
        assert (c' <> c) by (intros ->; contradiction).
        split.
        - rewrite tkeys_app, not_elem_of_app. split; [exact H1|]. cbn.
          intros Hx. apply elem_of_list_singleton in Hx. contradiction.
        - subst n1. cbn. rewrite lookup_insert_ne by congruence. exact H2. }
      { subst n1. cbn [states set_states].
        apply (Ext_upd PB S0 _ acc c s); [exact HE|exact Hfr|exact Hs|apply trans_mk_cancel]. }
      exists n', safe', (EUpdate c (mk_cancel_s s) :: evs).
      split.
      { unfold mk_cancel_s in Hr. rewrite Hr. rewrite <- app_assoc. reflexivity. }
      split; [exact Hmp|]. split; [exact Hun|]. split; [exact Hmisc|].
      split; [rewrite <- app_assoc in HE'; exact HE'|].
      split.
      { intros x Hx. apply Hst. subst n1. cbn. destruct (decide (x = c)) as [->|Hne].
        - rewrite lookup_insert. eauto.
        - rewrite lookup_insert_ne by congruence. exact Hx. }
      split.
      { intros x Hx. apply Hst' in Hx. subst n1. cbn in Hx. destruct (decide (x = c)) as [->|Hne].
        - rewrite lookup_insert in Hx. discriminate.
        - rewrite lookup_insert_ne in Hx by congruence. exact Hx. }
      split.
      { intros x s' H. change (?a :: evs) with ([a] ++ evs) in H. apply tev_in_app in H.
        destruct H as [H|H].
        - apply tev_in_single in H. destruct H as [H|H]; [discriminate|]. inversion H. subst.
          split; [left|]. split; [exact Ect|]. split; [exact Emu|]. split; [left|].
          repeat (split; [reflexivity|]). exists s. split; [exact Hs|reflexivity].
        - destruct (Hev1 x s' H) as (H1 & H2 & H3 & H4 & H5 & H6 & H7 & so & H8 & H9).
          split; [right; exact H1|]. split; [exact H2|]. split; [exact H3|]. split; [right; exact H4|].
          repeat (split; [assumption|]). exists so. split; [|exact H9].
          assert (x <> c) by (intros ->; contradiction).
          subst n1. cbn in H8. rewrite lookup_insert_ne in H8 by congruence. exact H8. }
      { intros c' Hin Hne Hu. apply elem_of_cons in Hin. destruct Hin as [->|Hin].
        - eexists. left.
        - destruct (Hev2 c' Hin Hne Hu) as (s' & H). exists s'. right. exact H. }
    + apply mem_false in Emu.
      destruct (IH n false acc Hpre' HE) as (n' & safe' & evs & Hr & Hmp & Hun & Hmisc & HE' & Hst & Hst' & Hev1 & Hev2).
      exists n', safe', evs. split; [exact Hr|]. repeat (split; [assumption|]). split.
      * intros x s H. destruct (Hev1 x s H) as (H1 & H2). split; [right; exact H1|exact H2].
      * intros c' Hin Hne Hu. apply elem_of_cons in Hin. destruct Hin as [->|Hin]; [contradiction|].
        apply Hev2; assumption.
Qed.

(* ---------------------------------------------------------------------------------------- *)
(* ProcessBlock: the notification loop *)
Definition pentry := (Z * list Z * bool * bool)%type.
Definition ptx (x : pentry) : Z := fst (fst (fst x)).

Lemma block_notify_spec (PB : Z -> Prop) S0 b : PB b -> forall pending, NoDup (map ptx pending) -> forall n acc,
  (forall t body nw sf, (t, body, nw, sf) ∈ pending ->
     t ∉ tkeys acc /\ (if nw : bool then states n !! t = None else is_Some (states n !! t))) ->
  Ext PB S0 (states n) acc ->
  exists n' evs,
    block_notify n b pending acc = Some (n', acc ++ evs) /\
    mp n' = mp n /\ unconf n' = unconf n /\ same_misc n n' /\
    Ext PB S0 (states n') (acc ++ evs) /\
    (forall x s, tev_in evs x s ->
       exists body nw sf, (x, body, nw, sf) ∈ pending /\ s_proof s = Some b /\ s_depth s = 0 /\
         (if nw : bool then ETx x s ∈ evs /\ outs_ok body (s_outs s) = true else EUpdate x s ∈ evs)) /\
    (forall t body nw sf, (t, body, nw, sf) ∈ pending ->
       exists s, s_proof s = Some b /\ s_depth s = 0 /\
                 (if nw : bool then ETx t s ∈ evs else EUpdate t s ∈ evs)).
Proof.
  intros HPB. induction pending as [|[[[t body] nw] sf] pending IH]; intros Hnd n acc Hpre HE.
  - exists n, []. rewrite app_nil_r. simpl. split; [reflexivity|]. split; [reflexivity|].
    split; [reflexivity|]. split; [apply same_misc_refl|]. split; [exact HE|]. split.
    + intros x s H. destruct (tev_in_nil _ _ H).
    + intros t body nw sf H. apply elem_of_nil in H. destruct H.
  - cbn [map] in Hnd. apply NoDup_cons in Hnd. destruct Hnd as [Hni Hnd]. cbn [ptx fst] in Hni.
    destruct (Hpre t body nw sf) as [Hfr Hst]; [left|].
    assert (Hother : forall t' body' nw' sf', (t', body', nw', sf') ∈ pending -> t' <> t).
    { intros t' body' nw' sf' Hin ->. apply Hni. apply elem_of_list_fmap.
      exists (t, body', nw', sf'). split; [reflexivity|exact Hin]. }
    (* the state written and the event emitted for t *)
    assert (Step : exists s1 e, tev e = Some (nw, t, s1) /\ s_proof s1 = Some b /\ s_depth s1 = 0 /\
              (if nw then e = ETx t s1 /\ outs_ok body (s_outs s1) = true else e = EUpdate t s1) /\
              Ext PB S0 (<[t:=s1]> (states n)) (acc ++ [e]) /\
              block_notify n b ((t, body, nw, sf) :: pending) acc =
              block_notify (set_states n (<[t:=s1]> (states n))) b pending (acc ++ [e])).
    { destruct nw.
      - exists (TState sf (negb sf) false 0 (Some b) (spent_outputs n body)).
        exists (ETx t (TState sf (negb sf) false 0 (Some b) (spent_outputs n body))).
        split; [reflexivity|]. split; [reflexivity|]. split; [reflexivity|].
        split; [split; [reflexivity|apply outs_ok_spent]|]. split; [|reflexivity].
        apply Ext_new; [exact HE|exact Hfr|exact Hst| |].
        + unfold flags. simpl. split; [destruct sf; reflexivity|discriminate].
        + right. exists b. split; [reflexivity|exact HPB].
      - destruct Hst as (s & Hs).
        exists (TState (negb (s_unsafe s) && sf) (negb (negb (s_unsafe s) && sf)) (s_cancel s) 0 (Some b) (s_outs s)).
        exists (EUpdate t (TState (negb (s_unsafe s) && sf) (negb (negb (s_unsafe s) && sf)) (s_cancel s) 0 (Some b) (s_outs s))).
        split; [reflexivity|]. split; [reflexivity|]. split; [reflexivity|].
        split; [reflexivity|]. split; [|cbn [block_notify]; rewrite Hs; reflexivity].
        apply (Ext_upd PB S0 _ acc t s); [exact HE|exact Hfr|exact Hs|].
        unfold trans, flags, proof_ok. simpl. split; [|split; [|split]].
        + intros ->. reflexivity.
        + auto.
        + intros [F1 F2]. split; [destruct (negb (s_unsafe s) && sf); reflexivity|].
          intros Hc. rewrite (F2 Hc). reflexivity.
        + right. exists b. split; [reflexivity|exact HPB]. }
    destruct Step as (s1 & e & Hte & Hp1 & Hd1 & Hkind & HE1 & Heq).
    destruct (IH Hnd (set_states n (<[t:=s1]> (states n))) (acc ++ [e])) as
      (n' & evs & Hr & Hmp & Hun & Hmisc & HE' & Hev1 & Hev2).
    { intros t' body' nw' sf' Hin. destruct (Hpre t' body' nw' sf') as [H1 H2]; [right; exact Hin|].
      assert (Hne : t' <> t) by (eapply Hother; eauto).
      split.
      - rewrite tkeys_app, not_elem_of_app. split; [exact H1|]. unfold tkeys. cbn. unfold tkey. rewrite Hte.
        intros Hx. apply elem_of_list_singleton in Hx. contradiction.
      - cbn. rewrite lookup_insert_ne by congruence. exact H2. }
    { exact HE1. }
    exists n', (e :: evs). split; [rewrite Heq, Hr, <- app_assoc; reflexivity|].
    split; [exact Hmp|]. split; [exact Hun|]. split; [exact Hmisc|].
    split; [rewrite <- app_assoc in HE'; exact HE'|]. split.
    + intros x s H. change (e :: evs) with ([e] ++ evs) in H. apply tev_in_app in H. destruct H as [H|H].
      * apply tev_in_single in H. exists body, nw, sf. split; [left|].
        assert (x = t /\ s = s1) as [-> ->].
        { destruct H as [-> | ->]; cbn in Hte; inversion Hte; auto. }
        split; [exact Hp1|]. split; [exact Hd1|]. destruct nw.
        -- destruct Hkind as [-> Ho]. split; [left|exact Ho].
        -- subst e. left.
      * destruct (Hev1 x s H) as (body' & nw' & sf' & Hin & H1 & H2 & H3).
        exists body', nw', sf'. split; [right; exact Hin|]. split; [exact H1|]. split; [exact H2|].
        destruct nw'; [destruct H3; split; [right|]; assumption | right; exact H3].
    + intros t' body' nw' sf' Hin. apply elem_of_cons in Hin. destruct Hin as [Heq|Hin].
      * inversion Heq. subst. exists s1. split; [exact Hp1|]. split; [exact Hd1|].
        destruct nw; [destruct Hkind as [-> _]|subst e]; left.
      * destruct (Hev2 t' body' nw' sf' Hin) as (s & H1 & H2 & H3). exists s.
        split; [exact H1|]. split; [exact H2|]. destruct nw'; right; exact H3.
Qed.
