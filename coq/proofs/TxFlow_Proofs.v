(* Proofs for the transaction pipeline monitors (C03, C05 node level, C06, C07, C11, C12 vouching), part 6:
   the monitor is silent on every valid history, reorganisations included. *)
From V.lib Require Import Base.
From V.model Require Import MemPool MemPoolSpec TxFlow TxFlowSpec.
From V.proofs Require Import MemPool_Proofs TxFlow_Base TxFlow_Model TxFlow_Block TxFlow_Inv TxFlow_Tx TxFlow_Blk.

Section Flow.
Variable dl : Z.
Variable all : list op.
Hypothesis Hv : valid dl all.

Local Notation Inv := (TxFlow_Inv.Inv dl all).
Local Notation step_tx := (TxFlow_Tx.step_tx dl all Hv).
Local Notation step_block := (TxFlow_Blk.step_block dl all Hv).
Local Notation step_reorg := (TxFlow_Blk.step_reorg dl all Hv).
Local Notation step_advance := (TxFlow_Inv.step_advance dl all).
Local Notation step_setsync := (TxFlow_Inv.step_setsync dl all).
Local Notation step_gettx := (TxFlow_Inv.step_gettx dl all).
Local Notation step_unconf := (TxFlow_Inv.step_unconf dl all).
Local Notation step_blocktxs := (TxFlow_Inv.step_blocktxs dl all).
Local Notation step_restart := (TxFlow_Inv.step_restart dl all).
Local Notation step_inv := (TxFlow_Inv.step_inv dl all).
Local Notation step_delay := (TxFlow_Inv.step_delay dl all).

(* every operation of the history *)
Lemma step_sim n m o : Inv n m -> o ∈ all -> op_ok n o = true ->
  exists m', monitor_step dl m o (snd (step n o)) = (0, m') /\ Inv (fst (step n o)) m'.
Proof.
  intros HI Ho Hok. destruct o as [t body rel src|t trusted|b prev txs valid|b prev txs valid| |dt|b| |t| |h].
  - apply step_tx; assumption.
  - cbn [step]. pose proof (step_inv n m t trusted HI) as H. cbv zeta in H. exact H.
  - apply step_block; assumption.
  - apply step_reorg; assumption.
  - cbn [step]. pose proof (step_delay n m HI) as H. destruct (delay_check n) as [n1 evs]. exact H.
  - cbn [step fst snd]. apply step_advance; [exact HI|apply (v_adv _ _ Hv), Ho].
  - cbn [step fst snd]. apply step_setsync. exact HI.
  - cbn [step fst snd]. apply step_restart. exact HI.
  - cbn [step fst snd]. apply step_gettx. exact HI.
  - cbn [step fst snd]. apply step_unconf. exact HI.
  - cbn [step fst snd]. apply step_blocktxs. exact HI.
Qed.

Lemma Inv_init : Inv (n_init dl) ms_init.
Proof.
  split.
  - split; cbn.
    + intros b Hb. apply elem_of_list_singleton in Hb. lia.
    + intros t. rewrite lookup_empty. split; [intros H; apply elem_of_nil in H; destruct H|].
      intros (? & ?). discriminate.
    + intros t s H. rewrite lookup_empty in H. discriminate.
    + intros t. split; [intros H; apply elem_of_nil in H; destruct H|].
      intros (s & H & _). rewrite lookup_empty in H. discriminate.
    + intros t H. apply elem_of_nil in H. destruct H.
    + intros t (s & H). rewrite lookup_empty in H. discriminate.
    + intros t s body rel H. rewrite lookup_empty in H. discriminate.
    + intros t. rewrite lookup_empty. reflexivity.
    + intros t s b H. rewrite lookup_empty in H. discriminate.
    + intros t s b H. rewrite lookup_empty in H. discriminate.
    + intros t s body rel H. rewrite lookup_empty in H. discriminate.
  - split; cbn; try reflexivity.
    + apply R_init.
    + intros t b H. apply elem_of_nil in H. destruct H.
    + intros t b H. apply elem_of_nil in H. destruct H.
    + intros t. rewrite lookup_empty. split; [intros H; apply elem_of_nil in H; destruct H|].
      intros (? & ?). discriminate.
    + intros t (? & H). rewrite lookup_empty in H. discriminate.
    + intros t s H. rewrite lookup_empty in H. discriminate.
    + intros t u H. rewrite lookup_empty in H. discriminate.
    + intros t u H. apply elem_of_nil in H. destruct H.
    + intros t u H. rewrite lookup_empty in H. discriminate.
    + intros t u s H. rewrite lookup_empty in H. discriminate.
    + intros t u H. rewrite lookup_empty in H. discriminate.
    + intros t H. unfold is_trusted in H. cbn in H. rewrite lookup_empty in H. discriminate.
    + intros t H. apply elem_of_nil in H. destruct H.
    + intros t H. apply elem_of_nil in H. destruct H.
    + intros t u H. rewrite lookup_empty in H. discriminate.
    + intros t H. apply elem_of_nil in H. destruct H.
    + intros t b s H. apply elem_of_nil in H. destruct H.
    + intros t u H. rewrite lookup_empty in H. discriminate.
    + constructor.
Qed.

Lemma monitor_silent_from ops' : forall n m i,
  Inv n m -> (forall o, o ∈ ops' -> o ∈ all) -> hyp_from n ops' = true ->
  monitor_from dl m i ops' (run_from n ops') = None.
Proof.
  induction ops' as [|o ops' IH]; intros n m i HI Hsub Hhyp; [reflexivity|].
  cbn [run_from monitor_from]. cbn [hyp_from] in Hhyp. apply andb_true_iff in Hhyp. destruct Hhyp as [Hok Hhyp].
  destruct (step_sim n m o HI) as (m' & Hm & HI'); [apply Hsub; left|exact Hok|].
  destruct (step n o) as [n1 ob]. cbn [fst snd] in Hm, HI', Hhyp. rewrite Hm. cbn [Z.eqb negb].
  apply (IH n1 m' (i + 1)); [exact HI'| |exact Hhyp]. intros o' Ho'. apply Hsub. right. exact Ho'.
Qed.

End Flow.

Theorem txflow_monitor_silent :
  forall (delay : Z) (ops : list op),
    flow_valid delay ops = true -> txflow_monitor delay ops (run delay ops) = None.
Proof.
  intros delay ops H. apply flow_valid_valid in H. destruct H as [Hv Hh]. unfold txflow_monitor, run.
  apply (monitor_silent_from delay ops Hv ops (n_init delay) ms_init 0); [apply Inv_init|auto|exact Hh].
Qed.

Lemma txflow_never_objects_any :
  forall (codes : list Z) (delay : Z) (ops : list op),
    flow_valid delay ops = true -> never_objects delay codes ops.
Proof.
  intros codes delay ops H i c Hm. rewrite (txflow_monitor_silent delay ops H) in Hm. discriminate.
Qed.

Lemma txflow_never_objects_C03 :
  forall (delay : Z) (ops : list op),
    flow_valid delay ops = true -> never_objects delay [111; 112; 113; 114; 115; 131; 143; 153] ops.
Proof. apply txflow_never_objects_any. Qed.

Lemma txflow_never_objects_C05 :
  forall (delay : Z) (ops : list op),
    flow_valid delay ops = true -> never_objects delay [103; 141; 142; 144] ops.
Proof. apply txflow_never_objects_any. Qed.

Lemma txflow_never_objects_C06 :
  forall (delay : Z) (ops : list op),
    flow_valid delay ops = true -> never_objects delay [151; 152; 154] ops.
Proof. apply txflow_never_objects_any. Qed.

Lemma txflow_never_objects_C07 :
  forall (delay : Z) (ops : list op),
    flow_valid delay ops = true ->
    never_objects delay [101; 102; 103; 121; 122; 123; 124; 125; 126; 161; 162] ops.
Proof. apply txflow_never_objects_any. Qed.

Lemma txflow_never_objects_C11 :
  forall (delay : Z) (ops : list op),
    flow_valid delay ops = true -> never_objects delay [113; 121; 153; 171] ops.
Proof. apply txflow_never_objects_any. Qed.

Print Assumptions txflow_monitor_silent.
