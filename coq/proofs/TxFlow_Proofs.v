(* Proofs for the transaction pipeline monitors (C03, C05 node level, C06, C07, C11), part 4:
   the monitor is silent on every valid history. *)
From V.lib Require Import Base.
From V.model Require Import MemPool TxFlow TxFlowSpec.
From V.proofs Require Import TxFlow_Base TxFlow_Inv.

Theorem txflow_monitor_silent :
  forall (delay : Z) (ops : list op),
    flow_valid delay ops = true -> txflow_monitor delay ops (run delay ops) = None.
Proof.
  intros delay ops H. apply flow_valid_valid in H. unfold txflow_monitor, run.
  apply (monitor_silent_from delay ops H ops); [apply Inv_init|auto].
Qed.

Lemma txflow_never_objects_any :
  forall (codes : list Z) (delay : Z) (ops : list op),
    flow_valid delay ops = true -> never_objects delay codes ops.
Proof.
  intros codes delay ops H i c Hm. rewrite (txflow_monitor_silent delay ops H) in Hm. discriminate.
Qed.

Lemma txflow_never_objects_C03 :
  forall (delay : Z) (ops : list op),
    flow_valid delay ops = true -> never_objects delay [111; 112; 113; 114; 115; 131; 143; 153] ops.
Proof. apply txflow_never_objects_any. Qed.

Lemma txflow_never_objects_C05 :
  forall (delay : Z) (ops : list op),
    flow_valid delay ops = true -> never_objects delay [103; 141; 142; 144] ops.
Proof. apply txflow_never_objects_any. Qed.

Lemma txflow_never_objects_C06 :
  forall (delay : Z) (ops : list op),
    flow_valid delay ops = true -> never_objects delay [151; 152; 154] ops.
Proof. apply txflow_never_objects_any. Qed.

Lemma txflow_never_objects_C07 :
  forall (delay : Z) (ops : list op),
    flow_valid delay ops = true ->
    never_objects delay [101; 102; 103; 121; 122; 123; 124; 125; 126; 161; 162] ops.
Proof. apply txflow_never_objects_any. Qed.

Lemma txflow_never_objects_C11 :
  forall (delay : Z) (ops : list op),
    flow_valid delay ops = true -> never_objects delay [113; 121; 153; 171] ops.
Proof. apply txflow_never_objects_any. Qed.

Print Assumptions txflow_monitor_silent.
