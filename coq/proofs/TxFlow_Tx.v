(* Proofs for the transaction pipeline monitors, part 4: an unconfirmed transaction is processed. *)
From V.lib Require Import Base.
From V.model Require Import MemPool MemPoolSpec TxFlow TxFlowSpec.
From V.proofs Require Import MemPool_Proofs TxFlow_Base TxFlow_Model TxFlow_Block TxFlow_Inv.

Section Flow.
Variable dl : Z.
Variable all : list op.
Hypothesis Hv : valid dl all.

Local Notation T := (TxFlow_Inv.T all).
Local Notation relT := (TxFlow_Inv.relT all).
Local Notation InvS := (TxFlow_Inv.InvS all).
Local Notation InvU := (TxFlow_Inv.InvU dl all).
Local Notation Inv := (TxFlow_Inv.Inv dl all).
Local Notation inblock := (TxFlow_Inv.inblock all).
Local Notation vs_chain0 := (TxFlow_Inv.vs_chain0 all).
Local Notation vs_D := (TxFlow_Inv.vs_D all).
Local Notation vs_FL := (TxFlow_Inv.vs_FL all).
Local Notation vs_UNS := (TxFlow_Inv.vs_UNS all).
Local Notation vs_SAFED := (TxFlow_Inv.vs_SAFED all).
Local Notation vs_REL := (TxFlow_Inv.vs_REL all).
Local Notation vs_OUTS := (TxFlow_Inv.vs_OUTS all).
Local Notation vs_PRF := (TxFlow_Inv.vs_PRF all).
Local Notation vs_PRF0 := (TxFlow_Inv.vs_PRF0 all).
Local Notation vs_PRFB := (TxFlow_Inv.vs_PRFB all).
Local Notation vs_BODY := (TxFlow_Inv.vs_BODY all).
Local Notation vu_clock := (TxFlow_Inv.vu_clock dl all).
Local Notation vu_sync := (TxFlow_Inv.vu_sync dl all).
Local Notation vu_chain := (TxFlow_Inv.vu_chain dl all).
Local Notation vu_delay := (TxFlow_Inv.vu_delay dl all).
Local Notation vu_R := (TxFlow_Inv.vu_R dl all).
Local Notation vu_poolT := (TxFlow_Inv.vu_poolT dl all).
Local Notation vu_poolS := (TxFlow_Inv.vu_poolS dl all).
Local Notation vu_L := (TxFlow_Inv.vu_L dl all).
Local Notation vu_US := (TxFlow_Inv.vu_US dl all).
Local Notation vu_SU := (TxFlow_Inv.vu_SU dl all).
Local Notation vu_SEEN := (TxFlow_Inv.vu_SEEN dl all).
Local Notation vu_SAFE1 := (TxFlow_Inv.vu_SAFE1 dl all).
Local Notation vu_SAFE2 := (TxFlow_Inv.vu_SAFE2 dl all).
Local Notation vu_SAFE3 := (TxFlow_Inv.vu_SAFE3 dl all).
Local Notation vu_VCH := (TxFlow_Inv.vu_VCH dl all).
Local Notation vu_VCH2 := (TxFlow_Inv.vu_VCH2 dl all).
Local Notation vu_VNOW := (TxFlow_Inv.vu_VNOW dl all).
Local Notation vu_VPER := (TxFlow_Inv.vu_VPER dl all).
Local Notation vu_UUNS := (TxFlow_Inv.vu_UUNS dl all).
Local Notation vu_CONF := (TxFlow_Inv.vu_CONF dl all).
Local Notation vu_HELD := (TxFlow_Inv.vu_HELD dl all).
Local Notation vu_BODY := (TxFlow_Inv.vu_BODY dl all).
Local Notation vu_LND := (TxFlow_Inv.vu_LND dl all).
Local Notation T_body := (TxFlow_Inv.T_body dl all Hv).
Local Notation relT_rel := (TxFlow_Inv.relT_rel dl all Hv).
Local Notation mentions_T := (TxFlow_Inv.mentions_T all).
Local Notation gen_states := (TxFlow_Inv.gen_states all).
Local Notation gen_checks := (TxFlow_Inv.gen_checks dl all).
Local Notation InvS_frame := (TxFlow_Inv.InvS_frame all).
Local Notation step_advance := (TxFlow_Inv.step_advance dl all).
Local Notation Inv_setsync := (TxFlow_Inv.Inv_setsync dl all).
Local Notation step_setsync := (TxFlow_Inv.step_setsync dl all).
Local Notation step_gettx := (TxFlow_Inv.step_gettx dl all).
Local Notation step_unconf := (TxFlow_Inv.step_unconf dl all).
Local Notation step_blocktxs := (TxFlow_Inv.step_blocktxs dl all).
Local Notation step_restart := (TxFlow_Inv.step_restart dl all).
Local Notation step_inv := (TxFlow_Inv.step_inv dl all).
Local Notation monitor_step_events := (TxFlow_Inv.monitor_step_events dl).
Local Notation monitor_step_reorg := (TxFlow_Inv.monitor_step_reorg dl).
Local Notation step_delay := (TxFlow_Inv.step_delay dl all).

(* ---------------------------------------------------------------------------------------- *)
(* an unconfirmed transaction is processed: what the model does *)
Definition noF : Z -> Prop := fun _ => False.

Definition ouns (os : option tstate) : bool := match os with Some so => s_unsafe so | None => false end.
Definition ocan (os : option tstate) : bool := match os with Some so => s_cancel so | None => false end.

(* the outcome for the arriving transaction itself *)
(* A: not relevant, or delivered earlier with its confirmation in a block of the chain: nothing *)
Definition tx_caseA (n n' : node) (evs : list event) (t : Z) (rel : bool) : Prop :=
  unconf n !! t = None /\ unconf n' !! t = None /\ t ∉ tkeys evs /\
  (rel = false \/ exists s, states n !! t = Some s /\ conf n s).

(* B: tracked as unconfirmed (delivered earlier, gone from the mempool) *)
Definition tx_caseB (n n' : node) (evs : list event) (t : Z) (rel tr sf cn : bool) : Prop :=
  exists u u' so,
    unconf n !! t = Some u /\ unconf n' !! t = Some u' /\ states n !! t = Some so /\
    ~ conf n so /\ rel = true /\
    u_time u' = u_time u /\ u_trusted u' = u_trusted u || tr /\ u_safe u' = u_safe u || sf /\
    u_unsafe u' = u_unsafe u || cn /\
    (cn = true -> EUpdate t (mk_unsafe_s so) ∈ evs) /\
    (forall s, tev_in evs t s ->
       (cn = true /\ s = mk_unsafe_s so) \/
       (cn = false /\ sf = true /\ u_safe u = false /\
        (s_safe so || s_unsafe so || s_cancel so) = false /\ s = mk_safe_s so)) /\
    (cn = false -> sf = true -> u_safe u = false ->
     (s_safe so || s_unsafe so || s_cancel so) = false -> EUpdate t (mk_safe_s so) ∈ evs) /\
    (forall s, ETx t s ∉ evs).

(* C: delivered as new: first seen, or stored with the proof of a block that was orphaned (then the stored
   flags, proof and outputs are kept) *)
Definition tx_caseC (n n' : node) (evs : list event) (t : Z) (body : list Z) (rel tr sf cn : bool) : Prop :=
  unconf n !! t = None /\ rel = true /\
  (forall so, states n !! t = Some so -> ~ conf n so) /\
  unconf n' !! t = Some (UTx (now n) false sf tr) /\
  exists s1, ETx t s1 ∈ evs /\ s_proof s1 = oproof (states n !! t) /\ outs_ok body (s_outs s1) = true /\
             s_safe s1 = sf && negb cn && negb (ouns (states n !! t) || ocan (states n !! t)) /\
             s_unsafe s1 = cn || ouns (states n !! t) /\
             s_cancel s1 = ocan (states n !! t) /\ s_body s1 = body.

Lemma pu_spec n m t body rel tr sf :
  Inv n m -> (t, body, rel) ∈ T -> held (m_pool m) t = false ->
  let p := m_pool m in
  let cfs := conflicts_of p t body in
  let cn := negb (zlen cfs =? 0) in
  exists n' evs,
    process_unconfirmed n t body rel tr sf = (n', evs) /\
    R (mp n') (if confirmed n t || (zlen body =? 0) then p else p ++ [(t, body)]) /\
    (forall t', is_trusted (mp n') t' = if decide (t' = t) then (if confirmed n t then false else is_trusted (mp n) t || tr)
                                        else is_trusted (mp n) t') /\
    same_misc n n' /\
    Ext noF (states n) (states n') evs /\
    (forall x, x <> t -> unconf n' !! x = if bool_decide (x ∈ cfs) then mk_unsafe_u <$> unconf n !! x
                                          else unconf n !! x) /\
    (tx_caseA n n' evs t rel \/ tx_caseB n n' evs t rel tr sf cn \/ tx_caseC n n' evs t body rel tr sf cn) /\
    (forall x s, tev_in evs x s -> x <> t ->
       x ∈ cfs /\ is_Some (unconf n !! x) /\ EUpdate x s ∈ evs /\ s_unsafe s = true /\ s_safe s = false) /\
    (forall c, c ∈ cfs -> is_Some (unconf n !! c) -> exists s, EUpdate c s ∈ evs /\ s_unsafe s = true) /\
    (forall x s, ETx x s ∈ evs -> x = t).
Proof.
  intros [HS HU] HT Hheld p cfs cn.
  pose proof (R_add (mp n) p (now n) t body tr (vu_R _ _ HU)) as Hadd. cbv zeta in Hadd.
  pose proof (add_tx_facts (mp n) (now n) t body tr) as Hfacts. cbv zeta in Hfacts.
  unfold process_unconfirmed.
  destruct (add_transaction (mp n) (now n) t body tr) as [m1 [[cfs0 tr1] added]].
  cbn [fst snd] in Hadd, Hfacts. destruct Hadd as [HR1 Hobs]. destruct Hfacts as [Htr1 Htrust].
  change (held p t = false) in Hheld.
  unfold ref_step in HR1, Hobs. rewrite Hheld in HR1, Hobs.
  cbn [fst snd] in HR1, Hobs. inversion Hobs as [[Hadded Hcfs]].
  assert (added = true) by (destruct added; [reflexivity|discriminate]). subst added.
  fold cfs in Hcfs. subst cfs0. specialize (Htr1 eq_refl). subst tr1. clear Hobs Hadded.
  cbn [negb]. rewrite orb_diag.
  assert (Hndc : NoDup cfs) by (apply add_returns_conflicts, (R_nodup _ _ (vu_R _ _ HU))).
  assert (Htc : t ∉ cfs).
  { intros Hin. apply conflicts_of_elem in Hin. destruct Hin as [Hne _]. congruence. }
  change (conflicts_of p t body) with cfs.
  pose proof (mark_conflicts_spec noF (states n) cfs Hndc (set_mp n m1) []) as Hmark.
  destruct (mark_conflicts (set_mp n m1) cfs []) as [n2 evs1].
  destruct (Hmark n2 evs1 eq_refl) as (Hmp2 & Hmisc2 & Hunc2 & HE2 & evs1' & Hacc & Hev1 & Hev2).
  { intros c _. apply not_elem_of_nil. }
  { apply Ext_nil. }
  simpl in Hacc. subst evs1'. clear Hmark. cbn [mp set_mp unconf states] in *.
  assert (Hu2t : unconf n2 !! t = unconf n !! t).
  { rewrite Hunc2. rewrite bool_decide_eq_false_2 by exact Htc. reflexivity. }
  assert (Htk1 : t ∉ tkeys evs1).
  { intros Hk. apply tkeys_elem in Hk. destruct Hk as (s & Hk). destruct (Hev1 t s Hk) as (H1 & _). contradiction. }
  assert (Hs2t : states n2 !! t = states n !! t) by (apply (x_out _ _ _ _ HE2 t Htk1)).
  assert (Hrelt : is_Some (unconf n !! t) -> rel = true).
  { intros Hu. destruct (vu_US _ _ HU t Hu) as (s & Hs & _).
    apply (relT_rel t body rel); [|exact HT]. apply (vs_REL _ _ HS). eauto. }
  assert (HnoETx1 : forall x s, ETx x s ∈ evs1 -> False).
  { intros x s H. destruct (Hev1 x s (or_introl H)) as (_ & Hu & Hup & _). eapply Ext_no_both; eauto. }
  (* common parts of the conclusion, for a final node n' that agrees with n2 except at key t *)
  assert (Fin : forall n' evs,
    (confirmed n t = false /\ mp n' = mp n2) \/
    (confirmed n t = true /\ mp n' = fst (remove_transaction (mp n2) t)) ->
    same_misc n2 n' -> Ext noF (states n) (states n') evs ->
    (forall x, x <> t -> unconf n' !! x = unconf n2 !! x) ->
    (tx_caseA n n' evs t rel \/ tx_caseB n n' evs t rel tr sf cn \/ tx_caseC n n' evs t body rel tr sf cn) ->
    (exists evt, evs = evs1 ++ evt /\ (forall x s, tev_in evt x s -> x = t)) ->
    R (mp n') (if confirmed n t || (zlen body =? 0) then p else p ++ [(t, body)]) /\
    (forall t', is_trusted (mp n') t' = if decide (t' = t) then (if confirmed n t then false else is_trusted (mp n) t || tr)
                                        else is_trusted (mp n) t') /\
    same_misc n n' /\
    Ext noF (states n) (states n') evs /\
    (forall x, x <> t -> unconf n' !! x = if bool_decide (x ∈ cfs) then mk_unsafe_u <$> unconf n !! x
                                          else unconf n !! x) /\
    (tx_caseA n n' evs t rel \/ tx_caseB n n' evs t rel tr sf cn \/ tx_caseC n n' evs t body rel tr sf cn) /\
    (forall x s, tev_in evs x s -> x <> t ->
       x ∈ cfs /\ is_Some (unconf n !! x) /\ EUpdate x s ∈ evs /\ s_unsafe s = true /\ s_safe s = false) /\
    (forall c, c ∈ cfs -> is_Some (unconf n !! c) -> exists s, EUpdate c s ∈ evs /\ s_unsafe s = true) /\
    (forall x s, ETx x s ∈ evs -> x = t)).
  { intros n' evs Hmp' Hmisc' HE' Hunc' Hcase (evt & Hevs & Hevt).
    split.
    { destruct Hmp' as [[-> ->]|[-> ->]]; rewrite Hmp2; cbn [orb]; [exact HR1|].
      destruct (R_remove m1 _ t HR1) as [HRr _].
      replace (remove_tx (if zlen body =? 0 then p else p ++ [(t, body)]) t) with p in HRr; [exact HRr|].
      symmetry. destruct (zlen body =? 0); [apply remove_tx_id, Hheld|].
      transitivity (remove_tx p t ++ remove_tx [(t, body)] t); [apply filter_app|].
      rewrite (remove_tx_id p t Hheld). unfold remove_tx. cbn.
      rewrite decide_False by (intros H; apply H; reflexivity). apply app_nil_r. }
    split.
    { intros t'. destruct Hmp' as [[-> ->]|[-> ->]]; rewrite Hmp2; [apply Htrust|].
      rewrite rm_trusted. destruct (decide (t' = t)) as [->|Hne]; [reflexivity|].
      rewrite Htrust. rewrite decide_False by exact Hne. reflexivity. }
    split; [eapply same_misc_trans; [|exact Hmisc']; exact Hmisc2|]. split; [exact HE'|].
    split; [intros x Hne; rewrite (Hunc' x Hne); apply Hunc2|]. split; [exact Hcase|].
    split; [|split].
    - intros x s H Hne. subst evs. apply tev_in_app in H. destruct H as [H|H].
      + destruct (Hev1 x s H) as (H1 & H2 & H3 & H4 & H5). split; [exact H1|]. split; [exact H2|].
        split; [apply elem_of_app; left; exact H3|]. auto.
      + destruct Hne. eapply Hevt; eauto.
    - intros c Hc Hu. destruct (vu_US _ _ HU c Hu) as (so & Hso & _).
      destruct (Hev2 c Hc Hu) as (s & H1 & H2); [eauto|].
      exists s. split; [subst evs; apply elem_of_app; left; exact H1|exact H2].
    - intros x s H. subst evs. apply elem_of_app in H. destruct H as [H|H].
      + destruct (HnoETx1 x s H).
      + eapply Hevt. left. exact H. }
  assert (Hcf_of : (forall s, states n !! t = Some s -> ~ conf n s) -> confirmed n t = false).
  { intros H. destruct (confirmed n t) eqn:E; [|reflexivity]. apply confirmed_iff in E.
    destruct E as (s & Hs & Hc). destruct (H s Hs Hc). }
  destruct rel.
  2:{ (* not relevant: never tracked *)
    cbn [negb].
    assert (Hcf : confirmed n t = false).
    { apply Hcf_of. intros s Hs _. assert (Hr : relT t) by (apply (vs_REL _ _ HS); eauto).
      pose proof (relT_rel t body false Hr HT). discriminate. }
    assert (Hnt : unconf n !! t = None).
    { destruct (unconf n !! t) eqn:E; [|reflexivity]. discriminate (Hrelt (ex_intro _ _ eq_refl)). }
    eexists. eexists. split; [reflexivity|].
    apply Fin; try reflexivity; [left; split; [exact Hcf|reflexivity]|..].
    - repeat split.
    - exact HE2.
    - intros x Hne. cbn. apply lookup_delete_ne. congruence.
    - left. split; [exact Hnt|]. split; [cbn; apply lookup_delete|]. split; [exact Htk1|]. left. reflexivity.
    - exists []. rewrite app_nil_r. split; [reflexivity|]. intros x s H. destruct (tev_in_nil _ _ H). }
  cbn [negb].
  rewrite Hu2t. destruct (unconf n !! t) as [u|] eqn:Eu.
  - (* already tracked *)
    destruct (vu_US _ _ HU t) as (so & Hso & Hpo); [eauto|].
    assert (Hcf : confirmed n t = false).
    { apply Hcf_of. intros s Hs. assert (s = so) by congruence. subst s. exact Hpo. }
    fold cn.
    set (u1 := UTx (u_time u) (u_unsafe u) (u_safe u || sf) (u_trusted u || tr)).
    destruct cn eqn:Ecn.
    + (* conflict known now: marked unsafe *)
      cbn [states set_unconf]. rewrite Hs2t, Hso.
      eexists. eexists. split; [reflexivity|].
      apply Fin; try reflexivity; [left; split; [exact Hcf|reflexivity]|..].
      * repeat split.
      * cbn [states set_states set_unconf].
        apply (Ext_upd noF _ _ evs1 t so); [exact HE2|exact Htk1|rewrite Hs2t; exact Hso|apply trans_mk_unsafe].
      * intros x Hne. cbn. rewrite !lookup_insert_ne by congruence. reflexivity.
      * right. left. exists u, (UTx (u_time u1) true (u_safe u1) (u_trusted u1)), so.
        split; [exact Eu|]. split; [cbn; apply lookup_insert|]. split; [exact Hso|]. split; [exact Hpo|].
        split; [reflexivity|]. cbn. split; [reflexivity|]. split; [reflexivity|]. split; [reflexivity|].
        split; [rewrite orb_true_r; reflexivity|].
        split; [intros _; apply elem_of_app; right; left|].
        split.
        { intros s H. left. split; [reflexivity|]. apply tev_in_app in H. destruct H as [H|H].
          - destruct Htk1. apply tkeys_elem. eauto.
          - apply tev_in_single in H. destruct H as [H|H]; inversion H. reflexivity. }
        split; [discriminate|].
        intros s H. apply elem_of_app in H. destruct H as [H|H]; [eapply HnoETx1; eauto|].
        apply elem_of_list_singleton in H. discriminate.
      * eexists. split; [reflexivity|]. intros x s H. apply tev_in_single in H.
        destruct H as [H|H]; inversion H; reflexivity.
    + destruct (sf && negb (u_safe u)) eqn:Esf.
      * apply andb_true_iff in Esf. destruct Esf as [-> Eus]. apply negb_true_iff in Eus.
        cbn [states set_unconf]. rewrite Hs2t, Hso.
        destruct (s_safe so || s_unsafe so || s_cancel so) eqn:Eflags.
        -- eexists. eexists. split; [reflexivity|].
           apply Fin; try reflexivity; [left; split; [exact Hcf|reflexivity]|..].
           ++ repeat split.
           ++ exact HE2.
           ++ intros x Hne. cbn. rewrite lookup_insert_ne by congruence. reflexivity.
           ++ right. left. exists u, u1, so.
              split; [exact Eu|]. split; [cbn; apply lookup_insert|]. split; [exact Hso|]. split; [exact Hpo|].
              split; [reflexivity|]. cbn. split; [reflexivity|]. split; [reflexivity|]. split; [reflexivity|].
              split; [rewrite orb_false_r; reflexivity|]. split; [discriminate|].
              split; [intros s H; destruct Htk1; apply tkeys_elem; eauto|].
              split; [intros _ _ _ H; congruence|].
              intros s H. eapply HnoETx1; eauto.
           ++ exists []. rewrite app_nil_r. split; [reflexivity|]. intros x s H. destruct (tev_in_nil _ _ H).
        -- eexists. eexists. split; [reflexivity|].
           assert (Hns : (s_unsafe so || s_cancel so) = false).
           { apply orb_false_iff in Eflags. destruct Eflags as [Ef1 Ef2]. apply orb_false_iff in Ef1.
             destruct Ef1 as [_ Ef1]. rewrite Ef1, Ef2. reflexivity. }
           apply Fin; try reflexivity; [left; split; [exact Hcf|reflexivity]|..].
           ++ repeat split.
           ++ cbn [states set_states set_unconf].
              apply (Ext_upd noF _ _ evs1 t so); [exact HE2|exact Htk1|rewrite Hs2t; exact Hso|].
              apply trans_mk_safe, Hns.
           ++ intros x Hne. cbn. rewrite lookup_insert_ne by congruence. reflexivity.
           ++ right. left. exists u, u1, so.
              split; [exact Eu|]. split; [cbn; apply lookup_insert|]. split; [exact Hso|]. split; [exact Hpo|].
              split; [reflexivity|]. cbn. split; [reflexivity|]. split; [reflexivity|]. split; [reflexivity|].
              split; [rewrite orb_false_r; reflexivity|]. split; [discriminate|].
              split.
              { intros s H. right. apply tev_in_app in H. destruct H as [H|H].
                - destruct Htk1. apply tkeys_elem. eauto.
                - apply tev_in_single in H. destruct H as [H|H]; inversion H. auto 10. }
              split; [intros _ _ _ _; apply elem_of_app; right; left|].
              intros s H. apply elem_of_app in H. destruct H as [H|H]; [eapply HnoETx1; eauto|].
              apply elem_of_list_singleton in H. discriminate.
           ++ eexists. split; [reflexivity|]. intros x s H. apply tev_in_single in H.
              destruct H as [H|H]; inversion H; reflexivity.
      * eexists. eexists. split; [reflexivity|].
        apply Fin; try reflexivity; [left; split; [exact Hcf|reflexivity]|..].
        -- repeat split.
        -- exact HE2.
        -- intros x Hne. cbn. rewrite lookup_insert_ne by congruence. reflexivity.
        -- right. left. exists u, u1, so.
           split; [exact Eu|]. split; [cbn; apply lookup_insert|]. split; [exact Hso|]. split; [exact Hpo|].
           split; [reflexivity|]. cbn. split; [reflexivity|]. split; [reflexivity|]. split; [reflexivity|].
           split; [rewrite orb_false_r; reflexivity|]. split; [discriminate|].
           split; [intros s H; destruct Htk1; apply tkeys_elem; eauto|].
           split.
           { intros _ -> Hus. rewrite Hus in Esf. discriminate. }
           intros s H. eapply HnoETx1; eauto.
        -- exists []. rewrite app_nil_r. split; [reflexivity|]. intros x s H. destruct (tev_in_nil _ _ H).
  - (* not tracked *)
    cbn [states set_unconf now]. rewrite Hs2t.
    assert (Hnow2 : now n2 = now n) by (destruct Hmisc2 as (_ & _ & H & _); exact H).
    assert (Hch2 : chain n2 = chain n) by (destruct Hmisc2 as (H & _); exact H).
    set (nn := set_unconf n2 (<[t:=UTx (now n2) false sf tr]> (unconf n2))).
    destruct (states n !! t) as [s|] eqn:Est.
    + destruct (conf_dec n s) as [Hcf|Hncf].
      * (* delivered earlier with its confirmation in a block that is still in the chain *)
        assert (Hcft : confirmed n t = true) by (apply confirmed_iff; eauto).
        destruct Hcf as (b & Hpb & Hbc).
        assert (Hic : in_chain nn b = true).
        { unfold in_chain. subst nn. cbn [chain set_unconf]. rewrite Hch2. apply mem_elem, Hbc. }
        rewrite Hpb, Hic.
        eexists. eexists. split; [reflexivity|].
        apply Fin; try reflexivity; [right; split; [exact Hcft|reflexivity]|..].
        -- repeat split.
        -- exact HE2.
        -- intros x Hne. subst nn. cbn. rewrite lookup_delete_ne, lookup_insert_ne by congruence. reflexivity.
        -- left. split; [exact Eu|]. split; [subst nn; cbn; apply lookup_delete|]. split; [exact Htk1|].
           right. exists s. split; [exact Est|]. exists b. auto.
        -- exists []. rewrite app_nil_r. split; [reflexivity|]. intros x s' H. destruct (tev_in_nil _ _ H).
      * (* the block that confirmed it was orphaned: it is delivered as new again; the stored flags, proof
           and depth are kept *)
        assert (Hcf : confirmed n t = false).
        { apply Hcf_of. intros s' Hs'. assert (s' = s) by congruence. subst s'. exact Hncf. }
        destruct (s_proof s) as [b|] eqn:Ep.
        2:{ destruct (vu_SU _ _ HU t s Est Ep) as (u & Hu). congruence. }
        assert (Hic : in_chain nn b = false).
        { unfold in_chain. subst nn. cbn [chain set_unconf]. rewrite Hch2. apply mem_false.
          intros Hb. apply Hncf. exists b. auto. }
        rewrite Hic. fold cn.
        set (s1 := if cn then TState false true (s_cancel s) (s_depth s) (Some b) (s_outs s) (s_body s)
                   else TState ((sf || sf) && negb (s_unsafe s || s_cancel s)) (s_unsafe s) (s_cancel s) (s_depth s)
                               (Some b) (s_outs s) (s_body s)).
        exists (set_states nn (<[t:=s1]> (states nn))), (evs1 ++ [ETx t s1]).
        split.
        { subst s1. cbn [s_cancel s_unsafe s_outs s_proof s_depth s_body]. destruct cn; reflexivity. }
        apply Fin; try reflexivity; [left; split; [exact Hcf|reflexivity]|..].
        -- repeat split.
        -- cbn [states set_states set_unconf]. subst nn. cbn [states set_unconf].
           apply Ext_new; [exact HE2|exact Htk1|]. rewrite Hs2t. cbn [oproof]. rewrite Ep.
           left. subst s1. destruct cn; reflexivity.
        -- intros x Hne. subst nn. cbn. rewrite lookup_insert_ne by congruence. reflexivity.
        -- right. right. split; [exact Eu|]. split; [reflexivity|].
           split; [intros so Hso; rewrite Est in Hso; inversion Hso; subst so; exact Hncf|].
           split; [subst nn; cbn; rewrite lookup_insert, Hnow2; reflexivity|].
           exists s1. split; [apply elem_of_app; right; left|]. rewrite Est. cbn [oproof ouns ocan].
           split; [subst s1; destruct cn; cbn; congruence|].
           split; [replace (s_outs s1) with (s_outs s) by (subst s1; destruct cn; reflexivity);
                   apply (vs_OUTS _ _ HS t s body true Est HT)|].
           subst s1. destruct cn; cbn; rewrite ?orb_diag, ?andb_true_r, ?andb_false_r;
             (repeat (split; [reflexivity|])); apply (vs_BODY _ _ HS t s body true Est HT).
        -- eexists. split; [reflexivity|]. intros x s' H. apply tev_in_single in H.
           destruct H as [H|H]; inversion H; reflexivity.
    + (* first seen: delivered now *)
      assert (Hcf : confirmed n t = false) by (apply Hcf_of; intros s' Hs'; congruence).
      cbn [s_proof]. fold cn.
      set (s1 := if cn then TState false true false 1 None (spent_outputs nn body) body
                 else TState ((sf || sf) && negb (false || false)) false false 1 None (spent_outputs nn body) body).
      exists (set_states nn (<[t:=s1]> (states nn))), (evs1 ++ [ETx t s1]).
      split.
      { subst s1. cbn [s_cancel s_unsafe s_outs s_proof s_body]. destruct cn; reflexivity. }
      apply Fin; try reflexivity; [left; split; [exact Hcf|reflexivity]|..].
      * repeat split.
      * cbn [states set_states set_unconf]. subst nn. cbn [states set_unconf].
        apply Ext_new; [exact HE2|exact Htk1|]. rewrite Hs2t. cbn [oproof].
        left. subst s1. destruct cn; reflexivity.
      * intros x Hne. subst nn. cbn. rewrite lookup_insert_ne by congruence. reflexivity.
      * right. right. split; [exact Eu|]. split; [reflexivity|].
        split; [intros so Hso; rewrite Est in Hso; discriminate|].
        split; [subst nn; cbn; rewrite lookup_insert, Hnow2; reflexivity|].
        exists s1. split; [apply elem_of_app; right; left|]. rewrite Est. cbn [oproof ouns ocan].
        subst s1. destruct cn; cbn; rewrite ?outs_ok_spent, ?orb_diag, ?andb_true_r, ?andb_false_r; auto 10.
      * eexists. split; [reflexivity|]. intros x s' H. apply tev_in_single in H.
        destruct H as [H|H]; inversion H; reflexivity.
Qed.

(* ---------------------------------------------------------------------------------------- *)
(* an unconfirmed transaction is processed: the simulation step *)
Lemma pu_held n p t body rel tr sf : R (mp n) p -> held p t = true ->
  process_unconfirmed n t body rel tr sf = (set_mp n (fst (add_transaction (mp n) (now n) t body tr)), []) /\
  R (fst (add_transaction (mp n) (now n) t body tr)) p.
Proof.
  intros HR Hh. pose proof (R_add (mp n) p (now n) t body tr HR) as Hadd. cbv zeta in Hadd.
  unfold process_unconfirmed.
  destruct (add_transaction (mp n) (now n) t body tr) as [m1 [[cfs tr1] added]].
  cbn [fst snd] in Hadd. destruct Hadd as [HR1 Hobs]. unfold ref_step in HR1, Hobs. rewrite Hh in HR1, Hobs.
  cbn [fst snd] in HR1, Hobs.
  destruct added; [discriminate|]. split; [reflexivity|exact HR1].
Qed.

Ltac dcase H :=
  destruct H as [(A1 & A2 & A3 & A4)|
                 [(u & u' & so & B1 & B2 & B3 & B4 & B5 & B6 & B7 & B8 & B9 & B10 & B11 & B12 & B13)|
                  (C1 & C3 & C2 & C4 & s1 & C5 & C6 & C7 & C8 & C9 & C10 & C11)]].

Definition src_tr (s : src) : bool := match s with SUntrusted => false | _ => true end.
Definition src_sf (s : src) : bool := match s with SLocal => true | _ => false end.

Lemma confirmed_m_n n m t : InvS n m -> m_chain m = chain n -> confirmed_m m t = confirmed n t.
Proof.
  intros HS Hc. unfold confirmed_m, confirmed, in_chain. rewrite (vs_PRF _ _ HS), Hc.
  destruct (states n !! t) as [s|]; [|reflexivity]. cbn [oproof]. destruct (s_proof s); reflexivity.
Qed.

Lemma tx_processed n m t body rel src :
  Inv n m -> OTx t body rel src ∈ all ->
  (match src with STrusted => m_insync m | _ => true end) = true ->
  let r := process_unconfirmed n t body rel (src_tr src) (src_sf src) in
  exists m', monitor_step dl m (OTx t body rel src) (OK :: enc_events (snd r)) = (0, m') /\ Inv (fst r) m'.
Proof.
  intros [HS HU] Ho Hproc r. subst r.
  rewrite monitor_step_events by (try reflexivity; discriminate). cbv zeta.
  assert (HT : (t, body, rel) ∈ T) by (apply (mentions_T _ _ Ho); left).
  set (tr := src_tr src) in *. set (sf := src_sf src) in *.
  pose proof (vs_chain0 _ _ HS) as Hch0.
  pose proof (confirmed_m_n n m t HS (vu_chain _ _ HU)) as Hcfm.
  destruct (held (m_pool m) t) eqn:Hheld.
  { (* the body is already held: nothing happens *)
    destruct (pu_held n (m_pool m) t body rel tr sf (vu_R _ _ HU) Hheld) as [Hpu HR1].
    pose proof (add_tx_facts (mp n) (now n) t body tr) as Hfacts. cbv zeta in Hfacts.
    destruct Hfacts as [_ Htrust].
    rewrite Hpu. cbn [fst snd map]. cbn [first_bad fold_left]. rewrite !Z.eqb_refl. cbn [negb].
    unfold tx_step. rewrite Hproc, Hheld. cbn [negb fold_left].
    eexists. split; [reflexivity|].
    set (m1 := fst (add_transaction (mp n) (now n) t body tr)) in *.
    split.
    - eapply InvS_frame; [exact HS|reflexivity|exact Hch0|]. repeat split.
    - destruct HU as [Uclock Usync Uchain Udelay UR UpoolT UpoolS UL UUS USU USEEN USAFE1 USAFE2 USAFE3 UVCH UVCH2 UVNOW
                     UVPER UUUNS UCONF UHELD UBODY ULND].
      split; cbn; try assumption.
      + intros t' u H1 H2. destruct src; try (apply add_z_elem; left); eapply UVCH; eauto.
      + intros t' H. rewrite Htrust in H. destruct (decide (t' = t)) as [->|Hne].
        * destruct src; cbn in H; rewrite ?orb_false_r in H; try (apply add_z_elem; right; reflexivity).
          apply UVCH2, H.
        * destruct src; try (apply add_z_elem; left); apply UVCH2, H.
      + intros t' H.
        assert (Hmono : forall x, is_trusted (mp n) x = true -> is_trusted m1 x = true).
        { intros x Hx. rewrite Htrust. destruct (decide (x = t)) as [->|Hne]; [rewrite Hx; reflexivity|exact Hx]. }
        assert (Hold : t' ∈ m_vnow m -> is_trusted m1 t' = true \/
                  (exists u, unconf n !! t' = Some u /\ u_trusted u = true) \/
                  (exists s, states n !! t' = Some s /\ (s_unsafe s = true \/ conf n s)) \/ ~ relT t').
        { intros Hin. destruct (UVNOW t' Hin) as [H'|H']; [left; apply Hmono, H'|right; exact H']. }
        destruct src; cbn in H; try (apply Hold, H).
        * apply add_z_elem in H. destruct H as [H| ->]; [apply Hold, H|]. left. rewrite Htrust.
          rewrite decide_True by reflexivity. apply orb_true_r.
        * apply add_z_elem in H. destruct H as [H| ->]; [apply Hold, H|]. left. rewrite Htrust.
          rewrite decide_True by reflexivity. apply orb_true_r.
  }
  pose proof (pu_spec n m t body rel tr sf (conj HS HU) HT Hheld) as Hspec. cbv zeta in Hspec.
  destruct Hspec as (n' & evs & Hpu & HR' & Htrust & Hmisc & HE & Hunc & Hcase & Hev1 & Hev2 & Hetx).
  rewrite Hpu. cbn [fst snd]. clear Hpu.
  set (cfs := conflicts_of (m_pool m) t body) in *.
  set (cs := conflicting_held (m_pool m) t body).
  assert (Hcs : forall x, x ∈ cs <-> x ∈ cfs) by (intros x; apply conflicting_held_conflicts_of).
  assert (Hz : (zlen cs =? 0) = (zlen cfs =? 0)).
  { apply zlen0_same; intros x Hx; exists x; apply Hcs; exact Hx. }
  set (cn := negb (zlen cfs =? 0)) in *.
  destruct Hmisc as (Hch & Hsy & Hnow & Hdl).
  assert (Hconf' : forall s, conf n' s <-> conf n s).
  { intros s. unfold conf. rewrite Hch. reflexivity. }
  assert (Hun' : forall x u', x <> t -> unconf n' !! x = Some u' ->
     exists u, unconf n !! x = Some u /\ u_time u' = u_time u /\ u_trusted u' = u_trusted u /\
       u_safe u' = u_safe u /\
       ((x ∈ cfs /\ u_unsafe u' = true) \/ (x ∉ cfs /\ u' = u))).
  { intros x u' Hne Hu'. rewrite (Hunc x Hne) in Hu'. destruct (bool_decide (x ∈ cfs)) eqn:Eb.
    - apply bool_decide_eq_true in Eb. destruct (unconf n !! x) as [u|]; [|discriminate].
      cbn in Hu'. inversion Hu'. subst u'. exists u. cbn. auto 10.
    - apply bool_decide_eq_false in Eb. exists u'. auto 10. }
  assert (Hdom : forall x, x <> t -> (is_Some (unconf n' !! x) <-> is_Some (unconf n !! x))).
  { intros x Hne. rewrite (Hunc x Hne). destruct (bool_decide (x ∈ cfs)); [|reflexivity].
    rewrite fmap_is_Some. reflexivity. }
  (* the proof of a stored state does not change in this step *)
  assert (Hpr : forall x s, states n' !! x = Some s -> s_proof s = oproof (states n !! x)).
  { intros x s Hs. destruct (Ext_proof _ _ _ _ x s HE Hs) as [Hp|(b & _ & [])]. exact Hp. }
  assert (Hfwd : forall x so0, states n !! x = Some so0 ->
            exists s, states n' !! x = Some s /\ s_proof s = s_proof so0 /\ (s_unsafe so0 = true -> s_unsafe s = true) /\
                      s_body s = s_body so0).
  { intros x so0 Hso0. destruct (Ext_some _ _ _ _ x HE (ex_intro _ so0 Hso0)) as (s & Hs).
    exists s. split; [exact Hs|]. split; [rewrite (Hpr x s Hs), Hso0; reflexivity|].
    split.
    2:{ destruct (Ext_back _ _ _ _ x s HE Hs) as [[H|H]|[_ H]].
        - assert (x = t) by (eapply Hetx; eauto). subst x. dcase Hcase.
          + destruct A3. apply tkeys_elem. exists s. left. exact H.
          + destruct (B13 s H).
          + assert (s = s1) by (eapply Ext_unique; [exact HE|left; exact H|left; exact C5]). subst s1.
            rewrite C11. symmetry. apply (vs_BODY _ _ HS t so0 body rel Hso0 HT).
        - destruct (x_upd _ _ _ _ HE x s H) as (so' & Hso' & _ & _ & _ & _ & _ & Kb). congruence.
        - congruence. }
    intros Hu. destruct (Ext_back _ _ _ _ x s HE Hs) as [[H|H]|[_ H]].
    - assert (x = t) by (eapply Hetx; eauto). subst x.
      dcase Hcase.
      + destruct A3. apply tkeys_elem. exists s. left. exact H.
      + destruct (B13 s H).
      + assert (s = s1) by (eapply Ext_unique; [exact HE|left; exact H|left; exact C5]). subst s1.
        rewrite C9, Hso0. cbn [ouns]. rewrite Hu. apply orb_true_r.
    - destruct (x_upd _ _ _ _ HE x s H) as (so' & Hso' & K1 & _). assert (so' = so0) by congruence. subst so'.
      apply K1, Hu.
    - assert (s = so0) by congruence. subst s. exact Hu. }
  assert (Hncf : forall x s, tev_in evs x s -> ~ conf n s).
  { intros x s H.
    assert (Hs : states n' !! x = Some s) by (apply (x_in _ _ _ _ HE), H).
    pose proof (Hpr x s Hs) as Hp. intros Hc.
    destruct (decide (x = t)) as [->|Hne].
    - dcase Hcase.
      + destruct A3. apply tkeys_elem. eauto.
      + rewrite B3 in Hp. cbn in Hp. apply B4. eapply conf_same_proof; [|exact Hc]. congruence.
      + destruct (states n !! t) as [so0|] eqn:Eso; cbn in Hp.
        * apply (C2 so0 eq_refl). eapply conf_same_proof; [|exact Hc]. congruence.
        * destruct Hc as (b & Hb & _). congruence.
    - destruct (Hev1 x s H Hne) as (_ & Hu & _).
      destruct (vu_US _ _ HU x Hu) as (so' & Hso' & Hpo). rewrite Hso' in Hp. cbn in Hp.
      apply Hpo. eapply conf_same_proof; [|exact Hc]. congruence. }
  assert (Hcnfm : forall x s, tev_in evs x s -> cnf (m_chain m) s = false).
  { intros x s H. rewrite (vu_chain _ _ HU). apply (cnf_false n s Hch0). eapply Hncf; eauto. }
  (* the new-transaction notification of this step *)
  assert (Hnewt : forall s, ETx t s ∈ evs ->
            rel = true /\ unconf n !! t = None /\ outs_ok body (s_outs s) = true /\ flags s /\
            (s_safe s = true -> sf = true /\ cn = false) /\ s_body s = body /\
            (forall so0, states n !! t = Some so0 -> ~ conf n so0 /\ (s_unsafe so0 = true -> s_unsafe s = true))).
  { intros s H. dcase Hcase.
    - destruct A3. apply tkeys_elem. exists s. left. exact H.
    - destruct (B13 s H).
    - assert (s = s1) by (eapply Ext_unique; [exact HE|left; exact H|left; exact C5]). subst s1.
      split; [exact C3|]. split; [exact C1|]. split; [exact C7|].
      assert (Hmono : forall so0, states n !! t = Some so0 -> s_unsafe so0 = true -> s_unsafe s = true).
      { intros so0 Hso0 Hu. rewrite C9, Hso0. cbn [ouns]. rewrite Hu. apply orb_true_r. }
      split; [|split; [|split; [exact C11|intros so0 Hso0; split; [apply (C2 so0 Hso0)|apply (Hmono so0 Hso0)]]]].
      + (* flags *)
        assert (Hoc : ocan (states n !! t) = true -> ouns (states n !! t) = true).
        { destruct (states n !! t) as [so0|] eqn:Eso; cbn [ouns ocan]; [|discriminate].
          apply (vs_FL _ _ HS t so0 Eso). }
        unfold flags. rewrite C8, C9, C10.
        destruct (ouns (states n !! t)), (ocan (states n !! t)), sf, cn; cbn; split; try reflexivity; try discriminate;
          intros; try reflexivity; try (discriminate (Hoc eq_refl)).
      + intros Hs1. rewrite C8 in Hs1. apply andb_true_iff in Hs1. destruct Hs1 as [Hs1 _].
        apply andb_true_iff in Hs1. destruct Hs1 as [K1 K2]. apply negb_true_iff in K2. auto. }
  (* the checks on the notifications *)
  assert (Hbad : first_bad dl m (OTx t body rel src) (map ev_of evs) = 0).
  { apply (gen_checks noF n m (states n')); [exact HS|exact HE| |].
    - intros x s H. assert (x = t) by (eapply Hetx; eauto). subst x.
      destruct (Hnewt s H) as (Hrel & Hun0 & Houts & Hfl & Hsafe & Hbd & Hold). subst rel.
      exists body. cbn [op_tx_info]. rewrite Z.eqb_refl. split; [reflexivity|]. split; [exact Houts|].
      split; [exact Hfl|]. split.
      + intros so0 Hso0. destruct (Hold so0 Hso0) as [Hnc Hm]. split; [|exact Hm].
        unfold limbo. replace (mem t (m_live m)) with false.
        2:{ symmetry. apply mem_false. intros Hin. apply (vu_L _ _ HU) in Hin. rewrite Hun0 in Hin.
            destruct Hin as (? & ?). discriminate. }
        rewrite (vs_PRF _ _ HS), Hso0. cbn [oproof negb andb].
        destruct (s_proof so0) as [b|] eqn:Ep.
        * apply negb_true_iff, mem_false. rewrite (vu_chain _ _ HU). intros Hb. apply Hnc. exists b. auto.
        * destruct (vu_SU _ _ HU t so0 Hso0 Ep) as (? & ?). congruence.
      + destruct src; [ | |exact I]; (destruct (s_safe s) eqn:Es1; [|reflexivity]);
          destruct (Hsafe eq_refl) as [Hsf _]; discriminate Hsf.
    - intros x s H Hsafe _. destruct (decide (x = t)) as [->|Hne].
      + dcase Hcase.
        * destruct A3. apply tkeys_elem. exists s. right. exact H.
        * destruct (B11 s (or_intror H)) as [[_ ->]|(_ & Esf & Eus & _ & ->)]; [discriminate Hsafe|].
          split.
          -- intros Hin. rewrite (vu_SAFE1 _ _ HU t u Hin B1) in Eus. discriminate.
          -- left. subst sf. destruct src; try discriminate Esf. cbn. rewrite Z.eqb_refl. apply orb_true_r.
        * exfalso. eapply Ext_no_both; eauto.
      + destruct (Hev1 x s (or_intror H) Hne) as (_ & _ & _ & _ & Hns). congruence. }
  rewrite Hbad. cbn [Z.eqb negb]. rewrite Z.eqb_refl.
  unfold tx_step. rewrite Hproc. cbn [negb]. rewrite Hheld. fold cs.
  match goal with |- context [if ?c then 141 else _] => assert (Hb1 : c = false) end.
  { apply has_ev_false_map. intros e He. destruct e as [x s|x s|h b]; cbn [ev_of e_kind e_t e_unsafe Z.eqb Pos.eqb andb]; try reflexivity.
    destruct (x =? t) eqn:Ext'; [|reflexivity]. apply Z.eqb_eq in Ext'. subst x. cbn [andb].
    rewrite Hz. fold cn.
    dcase Hcase.
    - destruct A3. apply tkeys_elem. exists s. left. exact He.
    - destruct (B13 s He).
    - assert (s = s1) by (eapply Ext_unique; [exact HE|left; exact He|left; exact C5]). subst s1.
      rewrite C9. destruct cn; reflexivity. }
  rewrite Hb1.
  match goal with |- context [if ?c then 142 else _] => assert (Hb2 : c = false) end.
  { apply existsb_false_iff. intros c Hc. destruct (mem c (m_live m)) eqn:El; [|reflexivity]. cbn [andb].
    apply negb_false_iff. apply mem_elem in El. apply (vu_L _ _ HU) in El. apply Hcs in Hc.
    destruct (Hev2 c Hc El) as (s & Hs & Hus). apply has_ev_map. exists (EUpdate c s).
    split; [exact Hs|]. cbn. rewrite Z.eqb_refl, Hus. reflexivity. }
  rewrite Hb2.
  match goal with |- context [if ?c then 143 else _] => assert (Hb3 : c = false) end.
  { destruct rel; [|reflexivity]. destruct (mem t (m_delivered m)) eqn:Ed; [reflexivity|]. cbn [andb negb].
    apply negb_false_iff. apply mem_false in Ed.
    assert (Hnone : states n !! t = None).
    { destruct (states n !! t) eqn:E; [|reflexivity]. destruct Ed. apply (vs_D _ _ HS). eauto. }
    dcase Hcase.
    - destruct A4 as [A4|(s & A4 & _)]; congruence.
    - congruence.
    - apply has_ev_map. exists (ETx t s1). split; [exact C5|]. cbn. rewrite Z.eqb_refl. reflexivity. }
  rewrite Hb3.
  match goal with |- context [if ?c then 144 else _] => assert (Hb4 : c = false) end.
  { destruct (mem t (m_live m)) eqn:El; [|reflexivity]. rewrite Hz. fold cn. destruct cn eqn:Ecn; [|reflexivity].
    cbn [andb negb]. apply negb_false_iff. apply mem_elem, (vu_L _ _ HU) in El. destruct El as (u0 & Hu0).
    dcase Hcase; try congruence.
    apply has_ev_map. exists (EUpdate t (mk_unsafe_s so)). split; [apply B10; reflexivity|].
    cbn. rewrite Z.eqb_refl. reflexivity. }
  rewrite Hb4.
  match goal with |- context [fold_left note_event (map ev_of evs) ?mm] => set (m1 := mm) end.
  fold (notes m1 evs). eexists. split; [reflexivity|].
  destruct (notes_frame m1 evs) as (N1 & N2 & N3 & N4 & N5 & N6 & N7 & N8 & N9 & N10). cbv zeta in *.
  assert (Hdeliv : has_ev (map ev_of evs) (fun e => (e_kind e =? 1) && (e_t e =? t)) = true <-> exists s, ETx t s ∈ evs).
  { rewrite has_ev_map. split.
    - intros (e & He & Hf). destruct e as [x s|x s|h b]; cbn in Hf; try discriminate.
      apply Z.eqb_eq in Hf. subst x. eauto.
    - intros (s & Hs). exists (ETx t s). split; [exact Hs|]. cbn. rewrite Z.eqb_refl. reflexivity. }
  assert (Hcnf1 : forall x s, tev_in evs x s -> cnf (m_chain m1) s = false).
  { intros x s H. change (m_chain m1) with (m_chain m). eapply Hcnfm; eauto. }
  assert (Hnd : NoDup (tkeys evs)) by apply (x_nodup _ _ _ _ HE).
  (* safe bookkeeping after the step *)
  assert (Hsafe_keep : forall x, x ∈ m_safe m -> (forall s, ETx x s ∉ evs) -> x ∈ m_safe (notes m1 evs)).
  { intros x H1 H2. apply (notes_safe m1 evs x Hnd). left. split; [exact H1|exact H2]. }
  assert (Hsafe_ev : forall x s, tev_in evs x s -> s_safe s = true -> x ∈ m_safe (notes m1 evs)).
  { intros x s H1 H2. apply (notes_safe m1 evs x Hnd). right. exists s. split; [exact H1|].
    rewrite H2, (Hcnf1 x s H1). reflexivity. }
  assert (Hsafe_back : forall x, x ∈ m_safe (notes m1 evs) ->
            (x ∈ m_safe m /\ forall s, ETx x s ∉ evs) \/ exists s, tev_in evs x s /\ s_safe s = true).
  { intros x H. apply (notes_safe m1 evs x Hnd) in H. destruct H as [H|(s & H1 & H2)]; [left; exact H|].
    right. exists s. split; [exact H1|]. apply andb_true_iff in H2. apply H2. }
  assert (HnoETx : forall x, x <> t -> forall s, ETx x s ∉ evs).
  { intros x Hne s H. apply Hne. eapply Hetx; eauto. }
  split.
  - apply (gen_states noF n m n' m1 evs); try assumption.
    + repeat split.
    + rewrite Hch. exact Hch0.
    + intros b [].
    + intros x s H. assert (x = t) by (eapply Hetx; eauto). subst x.
      destruct (Hnewt s H) as (Hrel & Hun0 & Houts & Hfl & Hsafe & Hbd & Hold). subst rel.
      split; [exists body; exact HT|]. split; [exact Hfl|]. split.
      * intros body' rel' HT'. destruct (T_body _ _ _ _ _ HT' HT) as [-> _]. split; [exact Houts|exact Hbd].
      * intros so0 Hso0. apply (Hold so0 Hso0).
    + intros x s b _ _ [].
  - assert (Hpool : forall x b, (x, b) ∈ m_pool (notes m1 evs) ->
              (x, b) ∈ m_pool m \/ (x = t /\ b = body /\ confirmed n t = false)).
    { rewrite N1. unfold m1. cbn [m_pool]. rewrite Hcfm. intros x b Hin.
      destruct (confirmed n t); [left; exact Hin|]. cbn [orb] in Hin.
      destruct (zlen body =? 0); [left; exact Hin|].
      apply elem_of_app in Hin. destruct Hin as [Hin|Hin]; [left; exact Hin|].
      apply elem_of_list_singleton in Hin. inversion Hin. auto. }
    assert (Hold : forall x, x ∈ m_vouched m -> x ∈ m_vouched m1).
    { intros x H. unfold m1. cbn [m_vouched]. destruct src; rewrite ?add_z_elem; auto. }
    assert (Hnewv : tr = true -> t ∈ m_vouched m1).
    { unfold m1, tr. cbn [m_vouched]. destruct src; cbn; intros; try discriminate; apply add_z_elem; auto. }
    assert (Hkeep : forall x u0, unconf n !! x = Some u0 -> u_trusted u0 = true ->
               exists u2, unconf n' !! x = Some u2 /\ u_trusted u2 = true).
    { intros x u0 Hu0 H. destruct (decide (x = t)) as [->|Hne].
      - dcase Hcase; try congruence. exists u'. split; [exact B2|]. rewrite B7.
        assert (u0 = u) by congruence. subst u0. rewrite H. reflexivity.
      - assert (Hs' : is_Some (unconf n' !! x)) by (apply Hdom; eauto). destruct Hs' as (u2 & Hu2).
        destruct (Hun' x u2 Hne Hu2) as (u3 & Hu3 & _ & Htt & _). exists u2. split; [exact Hu2|]. congruence. }
    (* a state that was unsafe or confirmed stays so *)
    assert (Hstick : forall x s, states n !! x = Some s -> (s_unsafe s = true \/ conf n s) ->
               exists s', states n' !! x = Some s' /\ (s_unsafe s' = true \/ conf n' s')).
    { intros x s Hs H. destruct (Hfwd x s Hs) as (s' & Hs' & K1 & K2 & _). exists s'. split; [exact Hs'|].
      destruct H as [H|H]; [left; auto|]. right. apply Hconf'. eapply conf_same_proof; eauto. }
    split.
    + rewrite N5, Hnow. apply (vu_clock _ _ HU).
    + rewrite N6, Hsy. apply (vu_sync _ _ HU).
    + rewrite N7, Hch. apply (vu_chain _ _ HU).
    + rewrite Hdl. apply (vu_delay _ _ HU).
    + rewrite N1. unfold m1. cbn [m_pool]. rewrite Hcfm. exact HR'.
    + intros x b Hin. destruct (Hpool x b Hin) as [H|(-> & -> & _)]; [apply (vu_poolT _ _ HU), H|eauto].
    + intros x b Hin Hrel. destruct (Hpool x b Hin) as [H|(-> & -> & _)].
      * eapply Ext_some; [exact HE|]. eapply vu_poolS; eauto.
      * assert (rel = true) by (eapply relT_rel; eauto). dcase Hcase.
        -- destruct A4 as [A4|(s & A4 & _)]; [congruence|]. eapply Ext_some; [exact HE|]. eauto.
        -- eapply Ext_some; [exact HE|]. eauto.
        -- rewrite (x_in _ _ _ _ HE t s1 (or_introl C5)). eauto.
    + intros x. rewrite (notes_live_add m1 evs x Hcnf1). change (m_live m1) with (m_live m). rewrite (vu_L _ _ HU).
      destruct (decide (x = t)) as [->|Hne].
      * dcase Hcase.
        -- rewrite A1, A2. split; [|intros (? & ?); discriminate]. intros [H|(s & H)]; [exact H|].
           destruct A3. apply tkeys_elem. exists s. left. exact H.
        -- rewrite B1, B2. split; eauto.
        -- rewrite C4. split; [eauto|]. intros _. right. eauto.
      * rewrite (Hdom x Hne). split; [|auto]. intros [H|(s & H)]; [exact H|]. destruct (HnoETx x Hne s H).
    + intros x Hx.
      assert (Hgen : is_Some (unconf n !! x) -> exists s, states n' !! x = Some s /\ ~ conf n' s).
      { intros Hu. destruct (vu_US _ _ HU x Hu) as (so0 & Hso0 & Hp0).
        destruct (Hfwd x so0 Hso0) as (s & Hs & K1 & _).
        exists s. split; [exact Hs|]. rewrite Hconf'. intros Hc. apply Hp0. eapply conf_same_proof; [|exact Hc]. congruence. }
      destruct (decide (x = t)) as [->|Hne]; [|apply Hgen, Hdom; assumption].
      dcase Hcase.
      * rewrite A2 in Hx. destruct Hx as (? & ?). discriminate.
      * apply Hgen. eauto.
      * exists s1. split; [apply (x_in _ _ _ _ HE); left; exact C5|]. rewrite Hconf'.
        apply (Hncf t s1). left. exact C5.
    + intros x s Hs Hp. destruct (Ext_back _ _ _ _ x s HE Hs) as [H|[Hk H]].
      * destruct (decide (x = t)) as [->|Hne].
        -- dcase Hcase; [destruct A3; apply tkeys_elem; eauto|rewrite B2; eauto|rewrite C4; eauto].
        -- apply Hdom; [exact Hne|]. apply (Hev1 x s H Hne).
      * pose proof (vu_SU _ _ HU x s H Hp) as Hu.
        destruct (decide (x = t)) as [->|Hne]; [|apply Hdom; assumption].
        dcase Hcase; [rewrite A1 in Hu; destruct Hu as (? & ?); discriminate|rewrite B2; eauto|rewrite C4; eauto].
    + intros x u0 Hu0. destruct (decide (x = t)) as [->|Hne].
      * dcase Hcase.
        -- congruence.
        -- assert (u0 = u') by congruence. subst u0. rewrite B6.
           rewrite notes_seen_old; [rewrite (lookup_seen_ext m m1) by reflexivity; eapply vu_SEEN; eauto|].
           intros s H. destruct (B13 s H).
        -- rewrite C4 in Hu0. inversion Hu0. subst u0. cbn [u_time].
           rewrite notes_seen_new; [|exists s1; split; [exact C5|apply (Hcnf1 t s1); left; exact C5]].
           change (m_clock m1) with (m_clock m). rewrite (vu_clock _ _ HU). reflexivity.
      * destruct (Hun' x u0 Hne Hu0) as (u1 & Hu1 & Ht & _). rewrite Ht.
        rewrite notes_seen_old; [rewrite (lookup_seen_ext m m1) by reflexivity; eapply vu_SEEN; eauto|].
        intros s H. destruct (HnoETx x Hne s H).
    + intros x u0 Hin Hu0. apply Hsafe_back in Hin.
      destruct (decide (x = t)) as [->|Hne].
      * dcase Hcase.
        -- congruence.
        -- assert (u0 = u') by congruence. subst u0. rewrite B8. destruct Hin as [[Hin _]|(s & Hs & Hss)].
           ++ rewrite (vu_SAFE1 _ _ HU t u Hin B1). reflexivity.
           ++ destruct (B11 s Hs) as [[_ ->]|(_ & Esf & _)]; [discriminate Hss|rewrite Esf; apply orb_true_r].
        -- rewrite C4 in Hu0. inversion Hu0. subst u0. cbn [u_safe]. destruct Hin as [[_ Hin]|(s & Hs & Hss)].
           ++ destruct (Hin s1 C5).
           ++ assert (s = s1) by (eapply Ext_unique; [exact HE|exact Hs|left; exact C5]). subst s.
              destruct (Hnewt s1 C5) as (_ & _ & _ & _ & K & _). apply (proj1 (K Hss)).
      * destruct (Hun' x u0 Hne Hu0) as (u1 & Hu1 & _ & _ & Hsf & _). rewrite Hsf.
        destruct Hin as [[Hin _]|(s & Hs & Hss)].
        -- eapply vu_SAFE1; eauto.
        -- destruct (Hev1 x s Hs Hne) as (_ & _ & _ & _ & Hns). rewrite Hns in Hss. discriminate.
    + intros x u0 Hu0 Hsafe. destruct (decide (x = t)) as [->|Hne].
      * dcase Hcase.
        -- congruence.
        -- assert (u0 = u') by congruence. subst u0. rewrite B8 in Hsafe.
           destruct (u_safe u) eqn:Eus.
           ++ destruct (vu_SAFE2 _ _ HU t u B1 Eus) as [H|H];
                [left; apply Hsafe_keep; [exact H|exact B13]|right; apply notes_unsafe_mono, H].
           ++ cbn [orb] in Hsafe. destruct cn eqn:Ecn.
              ** right. apply notes_unsafe. right. exists (mk_unsafe_s so).
                 split; [right; apply B10; reflexivity|reflexivity].
              ** destruct (s_safe so || s_unsafe so || s_cancel so) eqn:Efl.
                 --- apply orb_true_iff in Efl.
                     destruct Efl as [Efl|Efl]; [apply orb_true_iff in Efl; destruct Efl as [Efl|Efl]|].
                     +++ left. apply Hsafe_keep; [|exact B13]. apply (vu_SAFE3 _ _ HU t u so B1 B3 Efl).
                     +++ right. apply notes_unsafe_mono. apply (vs_UNS _ _ HS). eauto.
                     +++ right. apply notes_unsafe_mono. apply (vs_UNS _ _ HS). exists so. split; [exact B3|].
                         apply (vs_FL _ _ HS t so B3), Efl.
                 --- left. apply (Hsafe_ev t (mk_safe_s so)); [right; apply B12; auto|reflexivity].
        -- rewrite C4 in Hu0. inversion Hu0. subst u0. cbn [u_safe] in Hsafe. destruct cn eqn:Ecn.
           ++ right. apply notes_unsafe. right. exists s1. split; [left; exact C5|]. rewrite C9. reflexivity.
           ++ destruct (ouns (states n !! t) || ocan (states n !! t)) eqn:Eo.
              ** right. apply notes_unsafe. right. exists s1. split; [left; exact C5|]. rewrite C9, C10. exact Eo.
              ** left. apply (Hsafe_ev t s1); [left; exact C5|]. rewrite C8, Hsafe. reflexivity.
      * destruct (Hun' x u0 Hne Hu0) as (u1 & Hu1 & _ & _ & Hsf & _). rewrite Hsf in Hsafe.
        destruct (vu_SAFE2 _ _ HU x u1 Hu1 Hsafe) as [H|H];
          [left; apply Hsafe_keep; [exact H|apply (HnoETx x Hne)]|right; apply notes_unsafe_mono, H].
    + intros x u0 s Hu0 Hs Hsafe. destruct (Ext_back _ _ _ _ x s HE Hs) as [H|[Hk H]].
      * eapply Hsafe_ev; eauto.
      * assert (Hno : forall s0, ETx x s0 ∉ evs).
        { intros s0 H0. apply Hk, tkeys_elem. exists s0. left. exact H0. }
        apply Hsafe_keep; [|exact Hno].
        destruct (decide (x = t)) as [->|Hne].
        -- dcase Hcase.
           ++ congruence.
           ++ apply (vu_SAFE3 _ _ HU t u s B1 H Hsafe).
           ++ destruct (Hno s1 C5).
        -- destruct (Hun' x u0 Hne Hu0) as (u1 & Hu1 & _). apply (vu_SAFE3 _ _ HU x u1 s Hu1 H Hsafe).
    + rewrite N2. intros x u0 Hu0 Htr0. destruct (decide (x = t)) as [->|Hne].
      * dcase Hcase.
        -- congruence.
        -- assert (u0 = u') by congruence. subst u0. rewrite B7 in Htr0. apply orb_true_iff in Htr0.
           destruct Htr0 as [H|H]; [apply Hold; eapply vu_VCH; eauto|apply Hnewv, H].
        -- rewrite C4 in Hu0. inversion Hu0. subst u0. apply Hnewv. exact Htr0.
      * destruct (Hun' x u0 Hne Hu0) as (u1 & Hu1 & _ & Htt & _). rewrite Htt in Htr0.
        apply Hold. eapply vu_VCH; eauto.
    + rewrite N2. intros x H. rewrite Htrust in H. destruct (decide (x = t)) as [->|Hne].
      * destruct (confirmed n t); [discriminate H|].
        apply orb_true_iff in H. destruct H as [H|H]; [apply Hold, (vu_VCH2 _ _ HU), H|apply Hnewv, H].
      * apply Hold, (vu_VCH2 _ _ HU), H.
    + rewrite N8. intros x Hin.
      assert (Hcfst : confirmed n t = true ->
                exists s, states n' !! t = Some s /\ (s_unsafe s = true \/ conf n' s)).
      { intros K. apply confirmed_iff in K. destruct K as (s & Hs & Hc). eapply Hstick; eauto. }
      assert (Hmono : forall y, is_trusted (mp n) y = true ->
                is_trusted (mp n') y = true \/ (y = t /\ confirmed n t = true)).
      { intros y Hy. rewrite Htrust. destruct (decide (y = t)) as [->|?]; [|left; exact Hy].
        destruct (confirmed n t); [right; auto|left; rewrite Hy; reflexivity]. }
      assert (Hsplit : x ∈ m_vnow m \/ (x = t /\ tr = true)).
      { unfold m1 in Hin. cbn [m_vnow] in Hin. unfold tr.
        destruct src; cbn; rewrite ?add_z_elem in Hin; [|left; exact Hin|]; (destruct Hin as [Hin| ->]; auto). }
      destruct Hsplit as [Hold'|[-> Htr']].
      * destruct (vu_VNOW _ _ HU x Hold') as [H|[(u0 & Hu0 & H)|[(s & Hs & H)|H]]].
        -- destruct (Hmono x H) as [K|[-> K]]; [left; exact K|]. right. right. left. apply Hcfst, K.
        -- right. left. eapply Hkeep; eauto.
        -- right. right. left. eapply Hstick; eauto.
        -- right. right. right. exact H.
      * destruct (confirmed n t) eqn:Ecf; [right; right; left; apply Hcfst; reflexivity|].
        left. rewrite Htrust, decide_True by reflexivity. rewrite Htr'. apply orb_true_r.
    + rewrite N9. intros x Hin.
      assert (Hsplit : x ∈ m_vpersist m \/ (x = t /\ tr = true /\ exists s, ETx t s ∈ evs)).
      { unfold m1 in Hin. cbn [m_vpersist] in Hin. unfold tr.
        destruct src; cbn; [|left; exact Hin|];
          (match type of Hin with context [if ?c then _ else _] => destruct c eqn:Ehe end; [|left; exact Hin];
           apply add_z_elem in Hin; destruct Hin as [Hin| ->]; [left; exact Hin|];
           right; split; [reflexivity|split; [reflexivity|apply Hdeliv; reflexivity]]). }
      destruct Hsplit as [Hold'|(-> & Htr' & s & Hs)].
      * destruct (vu_VPER _ _ HU x Hold') as [(u0 & Hu0 & H)|(s & Hs & H)].
        -- left. eapply Hkeep; eauto.
        -- right. destruct (Hstick x s Hs (or_intror H)) as (s' & Hs' & [K|K]); [|eauto].
           destruct (Hfwd x s Hs) as (s2 & Hs2 & K1 & _). exists s2. split; [exact Hs2|].
           apply Hconf'. eapply conf_same_proof; eauto.
      * left. dcase Hcase.
        -- destruct A3. apply tkeys_elem. exists s. left. exact Hs.
        -- destruct (B13 s Hs).
        -- eexists. split; [exact C4|]. exact Htr'.
    + intros x u0 Hu0 Hun0. destruct (decide (x = t)) as [->|Hne].
      * dcase Hcase.
        -- congruence.
        -- assert (u0 = u') by congruence. subst u0. rewrite B9 in Hun0. apply orb_true_iff in Hun0.
           destruct Hun0 as [H|H].
           ++ apply notes_unsafe_mono. apply (vu_UUNS _ _ HU t u B1 H).
           ++ apply notes_unsafe. right. exists (mk_unsafe_s so). split; [right; apply B10, H|reflexivity].
        -- rewrite C4 in Hu0. inversion Hu0. subst u0. discriminate Hun0.
      * destruct (Hun' x u0 Hne Hu0) as (u1 & Hu1 & _ & _ & _ & [[Hc _]|[_ Heq]]).
        -- destruct (Hev2 x Hc) as (s & Hs & Hus); [eauto|]. apply notes_unsafe. right. exists s.
           split; [right; exact Hs|]. rewrite Hus. reflexivity.
        -- subst u0. apply notes_unsafe_mono. apply (vu_UUNS _ _ HU x u1 Hu1 Hun0).
    + rewrite N3. intros x Hin Hrel.
      assert (Hsplit : x ∈ m_conflicted m \/ (cn = true /\ ((x = t /\ confirmed n t = false) \/ x ∈ cfs))).
      { unfold m1 in Hin. cbn [m_conflicted] in Hin. rewrite Hz, Hcfm in Hin.
        assert (Ez : (zlen cfs =? 0) = negb cn) by (unfold cn; rewrite negb_involutive; reflexivity).
        rewrite Ez in Hin. destruct cn; cbn [negb] in Hin; [|left; exact Hin].
        apply fold_add_z_elem in Hin. rewrite Hcs in Hin. destruct (confirmed n t).
        - tauto.
        - rewrite add_z_elem in Hin. tauto. }
      destruct Hsplit as [Hold'|(Ecn & [[-> Hcf0]|Hc])].
      * destruct (vu_CONF _ _ HU x Hold' Hrel) as (s & Hs & H).
        destruct (Hfwd x s Hs) as (s' & Hs' & _ & K1 & _). exists s'. split; [exact Hs'|]. auto.
      * assert (Hr : rel = true) by (eapply relT_rel; eauto). dcase Hcase.
        -- exfalso. destruct A4 as [A4|(s & A4 & A5)]; [congruence|].
           assert (confirmed n t = true) by (apply confirmed_iff; eauto). congruence.
        -- exists (mk_unsafe_s so). split; [apply (x_in _ _ _ _ HE); right; apply B10, Ecn|reflexivity].
        -- exists s1. split; [apply (x_in _ _ _ _ HE); left; exact C5|]. rewrite C9, Ecn. reflexivity.
      * pose proof Hc as Hc'. apply conflicts_of_elem in Hc'. destruct Hc' as (Hne & b' & Hb' & _).
        destruct (vu_poolS _ _ HU x b' Hb' Hrel) as (so0 & Hso0).
        pose proof (vu_HELD _ _ HU x b' so0 Hb' Hso0) as Hu0.
        destruct (Hev2 x Hc Hu0) as (s & Hs & Hus).
        exists s. split; [apply (x_in _ _ _ _ HE); right; exact Hs|exact Hus].
    + intros x b s Hin Hs. destruct (Hpool x b Hin) as [H|(-> & -> & Hcf0)].
      * assert (Hne : x <> t).
        { intros ->. eapply held_false in Hheld. apply Hheld, H. }
        apply Hdom; [exact Hne|].
        destruct (Ext_back _ _ _ _ x s HE Hs) as [H0|[_ H0]].
        -- apply (Hev1 x s H0 Hne).
        -- eapply vu_HELD; eauto.
      * dcase Hcase.
        -- exfalso. destruct A4 as [A4|(s0 & A4 & A5)].
           ++ subst rel. assert (Hr : relT t).
              { apply (vs_REL _ _ HS). destruct (Ext_back _ _ _ _ t s HE Hs) as [H|[_ H]]; [|eauto].
                destruct A3. apply tkeys_elem. eauto. }
              pose proof (relT_rel t body false Hr HT). discriminate.
           ++ assert (confirmed n t = true) by (apply confirmed_iff; eauto). congruence.
        -- rewrite B2. eauto.
        -- rewrite C4. eauto.
    + intros x u0 Hu0.
      assert (Hlb : lookup_body (notes m1 evs) x = if t =? x then Some body else lookup_body m x).
      { unfold lookup_body. rewrite N10. unfold m1. cbn [m_body find fst snd]. destruct (t =? x); reflexivity. }
      rewrite Hlb. destruct (decide (x = t)) as [->|Hne].
      * rewrite Z.eqb_refl. dcase Hcase.
        -- congruence.
        -- destruct (Hfwd t so B3) as (s' & Hs' & _ & _ & Kb). exists s'. split; [exact Hs'|].
           rewrite Kb, (vs_BODY _ _ HS t so body rel B3 HT). reflexivity.
        -- exists s1. split; [apply (x_in _ _ _ _ HE); left; exact C5|]. rewrite C11. reflexivity.
      * replace (t =? x) with false by (symmetry; apply Z.eqb_neq; congruence).
        destruct (Hun' x u0 Hne Hu0) as (u1 & Hu1 & _).
        destruct (vu_BODY _ _ HU x u1 Hu1) as (so0 & Hso0 & Hb0).
        destruct (Hfwd x so0 Hso0) as (s' & Hs' & _ & _ & Kb). exists s'. split; [exact Hs'|]. rewrite Kb. exact Hb0.
    + apply notes_live_NoDup. exact (vu_LND _ _ HU).
Qed.

Lemma step_tx n m t body rel src : Inv n m -> OTx t body rel src ∈ all ->
  exists m', monitor_step dl m (OTx t body rel src) (snd (step n (OTx t body rel src))) = (0, m') /\
             Inv (fst (step n (OTx t body rel src))) m'.
Proof.
  intros HI Ho. cbn [step]. destruct src.
  - destruct (insync n) eqn:Esy.
    + pose proof (tx_processed n m t body rel STrusted HI Ho) as H. cbv zeta in H. cbn [src_tr src_sf] in H.
      destruct (process_unconfirmed n t body rel true false) as [n1 evs]. cbn [fst snd] in *.
      apply H. rewrite (vu_sync _ _ (proj2 HI)). exact Esy.
    + cbn [fst snd]. change [OK] with (OK :: enc_events []).
      rewrite monitor_step_events by (try reflexivity; discriminate). cbv zeta. cbn [map first_bad fold_left Z.eqb negb].
      rewrite Z.eqb_refl. unfold tx_step. rewrite (vu_sync _ _ (proj2 HI)), Esy. cbn.
      exists m. split; [reflexivity|exact HI].
  - pose proof (tx_processed n m t body rel SUntrusted HI Ho eq_refl) as H. cbv zeta in H. cbn [src_tr src_sf] in H.
    destruct (process_unconfirmed n t body rel false false) as [n1 evs]. cbn [fst snd] in *. exact H.
  - pose proof (tx_processed n m t body rel SLocal HI Ho eq_refl) as H. cbv zeta in H. cbn [src_tr src_sf] in H.
    destruct (process_unconfirmed n t body rel true true) as [n1 evs]. cbn [fst snd] in *. exact H.
Qed.

End Flow.
