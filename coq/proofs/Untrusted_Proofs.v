(* Proofs for C12: steps of untrusted connections do not touch the trusted synchronisation state. *)
From V.lib Require Import Base.
From V.model Require Import Requests Sync SyncSpec MemPool TxFlow TxFlowSpec.
From V.proofs Require Import TxFlow_Proofs.

Section NI.
Variable MAXR LIM HT HDT BT DELTA : Z.
Variable parent_of : Z -> Z.

Notation stepm := (Sync.step MAXR LIM HT HDT BT DELTA parent_of).

Lemma untrusted_step_sync : forall w o, is_untrusted_op o = true -> w_sync (fst (stepm w o)) = w_sync w.
Proof.
  intros w o Hu. destruct o; try discriminate Hu; cbn [Sync.step fst w_sync]; try reflexivity.
  destruct (untrusted_headers DELTA (w_sync w) (w_uverified w) hs) as [v e]. reflexivity.
Qed.

(* the observation and successor sync state of a trusted step only depend on the sync component *)
Lemma trusted_step_indep : forall w1 w2 o,
  is_untrusted_op o = false -> w_sync w1 = w_sync w2 ->
  snd (stepm w1 o) = snd (stepm w2 o) /\ w_sync (fst (stepm w1 o)) = w_sync (fst (stepm w2 o)).
Proof.
  intros w1 w2 o Ht Hs. destruct w1 as [s1 v1], w2 as [s2 v2]. cbn [w_sync] in Hs. subst s2.
  destruct o; try discriminate Ht; cbn [Sync.step w_sync w_uverified fst snd].
  - split; reflexivity.
  - destruct (handle_headers MAXR LIM s1 hs) as [s' res]. split; reflexivity.
  - destruct (handle_block s1 id valid) as [s' ok]. split; reflexivity.
  - destruct (process_next MAXR LIM parent_of s1) as [[s' popped] reqs]. split; reflexivity.
  - destruct (check s1) as [s' outs]. split; reflexivity.
  - split; reflexivity.
  - destruct (timed_out HT HDT BT s1); split; reflexivity.
  - split; reflexivity.
  - split; reflexivity.
Qed.

Lemma run_from_ni : forall ops w1 w2,
  w_sync w1 = w_sync w2 ->
  trusted_part ops (Sync.run_from MAXR LIM HT HDT BT DELTA parent_of w1 ops) =
  Sync.run_from MAXR LIM HT HDT BT DELTA parent_of w2 (filter (fun o => is_untrusted_op o = false) ops).
Proof.
  induction ops as [|o ops IH]; intros w1 w2 Hs; [reflexivity|].
  cbn [Sync.run_from]. destruct (stepm w1 o) as [w1' ob1] eqn:E1.
  rewrite filter_cons. destruct (is_untrusted_op o) eqn:Hu.
  - cbn [trusted_part]. rewrite Hu.
    destruct (decide (true = false)) as [Hc|_]; [discriminate Hc|].
    apply IH. pose proof (untrusted_step_sync w1 o Hu) as H. rewrite E1 in H. cbn [fst] in H. congruence.
  - cbn [trusted_part]. rewrite Hu.
    destruct (decide (false = false)) as [_|Hc]; [|contradiction].
    cbn [Sync.run_from]. destruct (stepm w2 o) as [w2' ob2] eqn:E2.
    destruct (trusted_step_indep w1 w2 o Hu Hs) as [Hob Hsy].
    rewrite E1, E2 in Hob, Hsy. cbn [fst snd] in Hob, Hsy. subst ob2. f_equal. apply IH. exact Hsy.
Qed.

End NI.

Lemma chain_noninterference :
  forall (MAXR LIM HT HDT BT DELTA : Z) (parents : list (Z * Z)) (start : Z) (ops : list Sync.op),
    trusted_part ops (Sync.run MAXR LIM HT HDT BT DELTA parents start ops) =
    Sync.run MAXR LIM HT HDT BT DELTA parents start (filter (fun o => is_untrusted_op o = false) ops).
Proof. intros. unfold Sync.run. apply run_from_ni. reflexivity. Qed.

Lemma verified_only_by_linked_known_headers :
  forall (DELTA : Z) (s : sync) (hs : list hdr),
    fst (untrusted_headers DELTA s false hs) = true ->
    exists h rest ht, hs = h :: rest /\ height_of s (fst h) = Some ht /\
                      height s - DELTA - 1 <= ht /\ linked_from (fst h) rest = true.
Proof.
  intros DELTA s hs H. unfold untrusted_headers in H.
  destruct hs as [|h rest]; [discriminate H|].
  destruct (height_of s (fst h)) as [ht|] eqn:Hh; [|discriminate H].
  destruct (ht <? height s - DELTA - 1) eqn:Hlow; [discriminate H|].
  exists h, rest, ht. split; [reflexivity|]. split; [exact Hh|]. split; [lia|].
  match type of H with context [if ?b then _ else _] => destruct b eqn:Hl end; [|discriminate H].
  clear H Hlow Hh. revert Hl. generalize (fst h). induction rest as [|x rest IH]; intros p Hl; [reflexivity|].
  cbn [linked_from]. cbn in Hl. destruct (snd x =? p); [|discriminate Hl]. cbn. apply IH. exact Hl.
Qed.

Lemma unverified_dropped :
  forall (MAXR LIM HT HDT BT DELTA : Z) (parent_of : Z -> Z) (w : world) (t : Z),
    w_uverified w = false ->
    fst (Sync.step MAXR LIM HT HDT BT DELTA parent_of w (OUTx t)) = w /\
    fst (Sync.step MAXR LIM HT HDT BT DELTA parent_of w (OUInv t)) = w /\
    last (snd (Sync.step MAXR LIM HT HDT BT DELTA parent_of w (OUTx t))) = Some 0.
Proof.
  intros. cbn [Sync.step fst snd]. rewrite H. repeat split.
  change (OK :: digest (w_sync w) ++ [b2z false]) with ((OK :: digest (w_sync w)) ++ [0]).
  apply last_snoc.
Qed.

Lemma no_vouching :
  forall (delay : Z) (ops : list TxFlow.op),
    flow_valid delay ops = true -> never_objects delay [122; 131] ops.
Proof.
  intros delay ops Hv i c Hm Hin.
  cbn in Hin. destruct Hin as [<-|[<-|[]]].
  - apply (txflow_never_objects_C07 delay ops Hv i 122 Hm). cbn. tauto.
  - apply (txflow_never_objects_C03 delay ops Hv i 131 Hm). cbn. tauto.
Qed.

(* ---------------------------------------------------------------------------------------- *)
(* the gating monitor never objects to the model *)
From V.proofs Require Import Sync_Proofs.

Lemma index_of_hgo id : forall (c : list hdr) i, index_of id (map fst c) i = hgo id c i.
Proof.
  induction c as [|h c IH]; intros i; [reflexivity|]. cbn [map index_of]. rewrite hgo_cons.
  destruct (fst h =? id); [reflexivity|apply IH].
Qed.

Lemma untrusted_headers_rule DELTA s ver hs :
  fst (untrusted_headers DELTA s ver hs) = ver || verify_rule DELTA (map fst (Sync.chain s)) hs.
Proof.
  unfold untrusted_headers, verify_rule. destruct ver; [reflexivity|]. cbn [orb].
  destruct hs as [|h rest]; [reflexivity|].
  rewrite index_of_hgo, <- height_of_hgo.
  destruct (Sync.height_of s (fst h)) as [ht|]; [|reflexivity].
  unfold Sync.height. replace (zlen (map fst (Sync.chain s))) with (zlen (Sync.chain s)) by (unfold zlen; rewrite map_length; reflexivity).
  destruct (ht <? zlen (Sync.chain s) - 1 - DELTA - 1); [reflexivity|].
  assert (E : forall p l, (fix go (prev : Z) (l : list hdr) {struct l} : bool :=
               match l with [] => true | x :: l' => (snd x =? prev) && go (fst x) l' end) p l = linked_from p l).
  { intros p l. revert p. induction l as [|x l IH]; intros p; [reflexivity|]. cbn. rewrite IH. reflexivity. }
  rewrite E. destruct (linked_from (fst h) rest); reflexivity.
Qed.

Section Gate.
Variable MAXR LIM HT HDT BT DELTA : Z.
Variable parent_of : Z -> Z.

Opaque digest.
Lemma gate_silent : forall ops w i,
  gate_from DELTA (w_uverified w) i ops (Sync.run_from MAXR LIM HT HDT BT DELTA parent_of w ops) = None.
Proof.
  induction ops as [|o ops IH]; intros w i; [reflexivity|].
  cbn [Sync.run_from]. destruct (Sync.step MAXR LIM HT HDT BT DELTA parent_of w o) as [w1 ob] eqn:Hs.
  cbn [gate_from].
  destruct o as [|hs|id valid| | |dt| | | |id valid|hs|t|t]; cbn [Sync.step] in Hs; cbv beta zeta in Hs.
  - injection Hs as <- <-. cbn [hd tl]. rewrite parse_obs_digest. apply (IH (World _ (w_uverified w))).
  - destruct (handle_headers MAXR LIM (w_sync w) hs) as [s1 res]. injection Hs as <- <-.
    destruct res; cbn [hd tl]; rewrite parse_obs_digest; apply (IH (World _ (w_uverified w))).
  - destruct (handle_block (w_sync w) id valid) as [s1 ok]. injection Hs as <- <-. cbn [hd tl].
    rewrite parse_obs_digest. apply (IH (World _ (w_uverified w))).
  - destruct (process_next MAXR LIM parent_of (w_sync w)) as [[s1 popped] reqs]. injection Hs as <- <-.
    destruct popped as [[id code]|]; cbn [hd tl]; rewrite parse_obs_digest; apply (IH (World _ (w_uverified w))).
  - destruct (check (w_sync w)) as [s1 outs]. injection Hs as <- <-. cbn [hd tl].
    rewrite parse_obs_digest. apply (IH (World _ (w_uverified w))).
  - injection Hs as <- <-. cbn [hd tl]. rewrite parse_obs_digest. apply (IH (World _ (w_uverified w))).
  - destruct (timed_out HT HDT BT (w_sync w)); injection Hs as <- <-; cbn [hd tl]; rewrite parse_obs_digest;
      apply (IH (World _ (w_uverified w))).
  - injection Hs as <- <-. cbn [hd tl]. rewrite parse_obs_digest. apply (IH (World _ (w_uverified w))).
  - injection Hs as <- <-. rewrite <- (app_nil_r (digest (restart_node (w_sync w)))). rewrite parse_obs_digest. apply (IH (World _ false)).
  - injection Hs as <- <-. cbn [hd tl]. rewrite parse_obs_digest. apply (IH (World _ (w_uverified w))).
  - pose proof (untrusted_headers_rule DELTA (w_sync w) (w_uverified w) hs) as Hr.
    destruct (untrusted_headers DELTA (w_sync w) (w_uverified w) hs) as [v e]. cbn [fst] in Hr. injection Hs as <- <-.
    rewrite parse_obs_digest. cbn [d_chain d_payload]. rewrite <- Hr, zeq_refl. apply (IH (World _ v)).
  - injection Hs as <- <-. rewrite parse_obs_digest. cbn [d_payload]. rewrite zeq_refl. apply IH.
  - injection Hs as <- <-. rewrite parse_obs_digest. cbn [d_payload]. rewrite zeq_refl. apply IH.
Qed.
Transparent digest.
End Gate.

Lemma c12_gate_silent :
  forall (MAXR LIM HT HDT BT DELTA : Z) (parents : list (Z * Z)) (start : Z) (ops : list Sync.op),
    c12_gate_monitor DELTA ops (Sync.run MAXR LIM HT HDT BT DELTA parents start ops) = None.
Proof. intros. unfold c12_gate_monitor, Sync.run. apply (gate_silent _ _ _ _ _ _ _ ops (World _ false)). Qed.
