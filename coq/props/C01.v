(* C01 - The node converges to the trusted peer's best chain; the in-sync notification is delivered
   only when the node has caught up.
   Node = model/Sync.v (the model that the correspondence check executes against the real handler map,
   ProcessBlock, check, CheckTimeouts, Reset, new Node).  Peer, connection, actions, the settling run
   and the trace monitor = model/Peer.v.  A combined world is reachable when some list of actions
   (= one history of peer best-chain changes + one schedule: delivery order, duplicates, delays,
   process / check steps, clock, time-outs, lost connections, node restarts) leads to it from the
   initial world.  No hypothesis on the block tree beyond `parent_of` being a function. *)
From V.lib Require Import Base.
From V.model Require Import Requests Sync SyncSpec Peer.
From V.gen Require Import Consts.
From V.proofs Require Import Sync_Proofs Converge_Proofs.

(* ---- safety ------------------------------------------------------------------------------
   "announced so far": the blocks for which the node was given a header by the peer and registered it
   (block requests requested / to be requested).  For EVERY action list: when check() delivers the
   in-sync notification the node is in sync, has not notified before in this process and no such block
   is outstanding.  (The stronger peer-relative reading - every header the node ever consumed that lies
   on the peer's current best chain is stored - is what the trace monitor checks, codes 101/106/108; it
   holds on every in-order history explored and is refuted below for a duplicated message.) *)
Theorem C01_insync_only_when_caught_up :
  forall (MAXR LIM HT HDT BT DELTA : Z) (M : nat) (parent_of : Z -> Z) (start : Z) (acts : list act),
  let w := wrun MAXR LIM HT HDT BT DELTA M parent_of (cw_init start) acts in
  emits_insync (node_sync w) = true ->
  ready (node_sync w) = true /\ notified (node_sync w) = false /\ outstanding (node_sync w) = [].
Proof. exact insync_only_when_caught_up. Qed.
Print Assumptions C01_insync_only_when_caught_up.

(* the notification is delivered at most once per node process *)
Theorem C01_insync_once :
  forall (MAXR LIM HT HDT BT DELTA : Z) (M : nat) (parent_of : Z -> Z) (start : Z) (acts1 acts2 : list act),
  let w1 := wrun MAXR LIM HT HDT BT DELTA M parent_of (cw_init start) acts1 in
  emits_insync (node_sync w1) = true ->
  Forall (fun a => a <> ARestart) acts2 ->
  emits_insync (node_sync (wrun MAXR LIM HT HDT BT DELTA M parent_of
                                (wstep MAXR LIM HT HDT BT DELTA M parent_of w1 ACheck) acts2)) = false.
Proof. exact insync_once. Qed.
Print Assumptions C01_insync_once.

(* every reachable combined world satisfies the invariant of C02 (the peer only sends headers of its
   tree): the node's stored chain is genesis followed by linked headers of the tree, for ALL action lists *)
Theorem C01_reachable_inv :
  forall (MAXR LIM HT HDT BT DELTA : Z) (M : nat) (parent_of : Z -> Z) (start : Z) (acts : list act),
  CInv MAXR parent_of (wrun MAXR LIM HT HDT BT DELTA M parent_of (cw_init start) acts).
Proof. intros. apply wrun_inv. apply cw_init_inv. Qed.
Print Assumptions C01_reachable_inv.
