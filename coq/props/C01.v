(* C01 - The node converges to the trusted peer's best chain; the in-sync notification is delivered
   only when the node has caught up.
   Node = model/Sync.v (the model that the correspondence check executes against the real handler map,
   ProcessBlock, check, CheckTimeouts, Reset, new Node).  Peer, connection, actions, the settling run
   and the trace monitor = model/Peer.v.  A combined world is reachable when some list of actions
   (= one history of peer best-chain changes + one schedule: delivery order, duplicates, delays,
   process / check steps, clock, time-outs, lost connections, node restarts) leads to it from the
   initial world.  No hypothesis on the block tree beyond `parent_of` being a function. *)
From V.lib Require Import Base.
From V.model Require Import Requests Sync SyncSpec Peer.
From V.gen Require Import Consts.
From V.proofs Require Import Sync_Proofs Converge_Proofs Converge_Clean Converge_Fork Converge_Pre.

(* ---- safety ------------------------------------------------------------------------------
   "announced so far": the blocks for which the node was given a header by the peer and registered it
   (block requests requested / to be requested).  For EVERY action list: when check() delivers the
   in-sync notification the node is in sync, has not notified before in this process and no such block
   is outstanding.  (The stronger peer-relative reading - every header the node ever consumed that lies
   on the peer's current best chain is stored - is what the trace monitor checks, codes 101/106/108; it
   holds on every in-order history explored and is refuted below for a duplicated message.) *)
Theorem C01_insync_only_when_caught_up :
  forall (MAXR LIM HT HDT BT DELTA : Z) (M : nat) (parent_of : Z -> Z) (start : Z) (acts : list act),
  let w := wrun MAXR LIM HT HDT BT DELTA M parent_of (cw_init start) acts in
  emits_insync (node_sync w) = true ->
  ready (node_sync w) = true /\ notified (node_sync w) = false /\ outstanding (node_sync w) = [].
Proof. exact insync_only_when_caught_up. Qed.
Print Assumptions C01_insync_only_when_caught_up.

(* the notification is delivered at most once per node process *)
Theorem C01_insync_once :
  forall (MAXR LIM HT HDT BT DELTA : Z) (M : nat) (parent_of : Z -> Z) (start : Z) (acts1 acts2 : list act),
  let w1 := wrun MAXR LIM HT HDT BT DELTA M parent_of (cw_init start) acts1 in
  emits_insync (node_sync w1) = true ->
  Forall (fun a => a <> ARestart) acts2 ->
  emits_insync (node_sync (wrun MAXR LIM HT HDT BT DELTA M parent_of
                                (wstep MAXR LIM HT HDT BT DELTA M parent_of w1 ACheck) acts2)) = false.
Proof. exact insync_once. Qed.
Print Assumptions C01_insync_once.

(* every reachable combined world satisfies the invariant of C02 (the peer only sends headers of its
   tree): the node's stored chain is genesis followed by linked headers of the tree, for ALL action lists *)
Theorem C01_reachable_inv :
  forall (MAXR LIM HT HDT BT DELTA : Z) (M : nat) (parent_of : Z -> Z) (start : Z) (acts : list act),
  CInv MAXR parent_of (wrun MAXR LIM HT HDT BT DELTA M parent_of (cw_init start) acts).
Proof. intros. apply wrun_inv. apply cw_init_inv. Qed.
Print Assumptions C01_reachable_inv.

(* ---- liveness ----------------------------------------------------------------------------
   Full statement (refuted as quantified, see C01_converges_refuted_out_of_order):
     converges : forall acts, let w := wrun ... (cw_init start) acts in
                 exists n, converged (settle ... n w) = true.
   What is proved:
   (1) C01_converges_fresh - for EVERY combined world (reachable or not) in which the connection to the
       peer has just been (re)established and the node is behind the peer on the peer's own best chain
       (executable predicate clean_behind: node's stored chain = a prefix of the peer's best chain, start
       block found, no request / flag left from the old connection, `version` and possibly inventories
       of new tips in flight), the settling run comes to REST with the node's chain equal to the peer's
       best chain and the node in sync.  Every time-out, lost connection and node restart produces a
       freshly connected world, so this covers: initial sync from any stored prefix, any number of peer
       extensions while disconnected or before the handshake, across restarts, with getheaders replies
       capped at any M >= 2 and any request window 1 <= MAXR <= LIM.  The proof follows the real
       protocol: handshake locator, reply, registration in the request window (requested / to be
       requested), getdata, blocks, processing, polling with the delta-1 locator until the reply is the
       tip alone, sendheaders, notification.
   (1b), (1c) below: the same for a node whose chain has forked from the peer's (reorganisation while
       disconnected) and for a node that has not found its start block yet.  In the generated histories
       2980 of 3000 worlds right after a (re)connection satisfy one of the three predicates (the check
       recounts this at every run: evidence key reconnect_worlds_covered); the others are "forked AND start
       block not found".
   (2) left to the correspondence exploration (bin/check C01: 0 failures on in-order histories):
       worlds with messages in flight that were produced before a peer event (reorganisations in the
       middle of a sync on the same connection), and forked + start block not found.
   Peer-relative safety ("every header the node consumed that lies on the peer's best chain is stored
   when in sync is notified") and `converges` for ALL in-order, duplicate-free histories are NOT proved;
   they are what the monitor checks on every history (codes 106 / 102, none observed).
   M, MAXR, LIM and the time-outs are symbolic. *)
Theorem C01_converges_fresh :
  forall (MAXR LIM HT HDT BT DELTA : Z) (M : nat) (parent_of : Z -> Z),
  (2 <= M)%nat -> 1 <= MAXR -> MAXR <= LIM ->
  forall w : cworld,
  clean_behind parent_of w = true ->
  exists n, converged (settle MAXR LIM HT HDT BT DELTA M parent_of n w) = true /\
            quiescent MAXR LIM HT HDT BT DELTA M parent_of (settle MAXR LIM HT HDT BT DELTA M parent_of n w) = true.
Proof.
  intros MAXR LIM HT HDT BT DELTA M parent_of HM H1 H2 w Hc.
  destruct (converges_clean_behind MAXR LIM HT HDT BT DELTA M parent_of HM H1 H2 w Hc) as (n & Hn & Hk).
  exists n. split; [exact Hn|]. unfold quiescent. unfold skind in Hk. rewrite Hk. reflexivity.
Qed.
Print Assumptions C01_converges_fresh.

(* the same with the constants of the code (translator output) and replies of 2000 headers *)
Theorem C01_converges_fresh_consts :
  forall (parent_of : Z -> Z) (w : cworld),
  clean_behind parent_of w = true ->
  exists n, converged (settle maxRequestedBlocks maxPendingBlockSize handshakeTimeout headerTimeout blockTimeout
                              UntrustedHeaderDelta 2000 parent_of n w) = true.
Proof.
  intros parent_of w Hc.
  destruct (C01_converges_fresh maxRequestedBlocks maxPendingBlockSize handshakeTimeout headerTimeout blockTimeout
              UntrustedHeaderDelta 2000 parent_of) with (w := w) as (n & Hn & _); try assumption.
  - lia.
  - unfold maxRequestedBlocks. lia.
  - unfold maxRequestedBlocks, maxPendingBlockSize. lia.
  - exists n. exact Hn.
Qed.
Print Assumptions C01_converges_fresh_consts.

(* (1b) the same when a reorganisation happened while the node was disconnected: the node's stored chain
   has FORKED from the peer's best chain (executable predicate clean_forked: common prefix of f blocks,
   the node's other blocks not on the peer's chain, start block found, freshly connected, and the peer's
   reply to the handshake locator - which starts after the first locator hash on its best chain - reaches
   block f: f <= i + M; with replies of 2000 headers this only excludes reorganisations thousands of blocks
   deep).  The known headers of the reply are skipped, the first unknown one reverts the store to the
   fork point (the chain part of the reorg handling of headers.go), the rest are registered. *)
Theorem C01_converges_fresh_forked :
  forall (MAXR LIM HT HDT BT DELTA : Z) (M : nat) (parent_of : Z -> Z),
  (2 <= M)%nat -> 1 <= MAXR -> MAXR <= LIM ->
  forall w : cworld,
  clean_forked M parent_of w = true ->
  exists n, converged (settle MAXR LIM HT HDT BT DELTA M parent_of n w) = true /\
            quiescent MAXR LIM HT HDT BT DELTA M parent_of (settle MAXR LIM HT HDT BT DELTA M parent_of n w) = true.
Proof.
  intros MAXR LIM HT HDT BT DELTA M parent_of HM H1 H2 w Hc.
  destruct (converges_clean_forked MAXR LIM HT HDT BT DELTA M parent_of HM H1 H2 w Hc) as (n & Hn & Hk).
  exists n. split; [exact Hn|]. unfold quiescent. unfold skind in Hk. rewrite Hk. reflexivity.
Qed.
Print Assumptions C01_converges_fresh_forked.

(* (1c) the same when the node has not found its start block yet (start_height = -1; executable predicate
   clean_behind_pre): headers before the start block are stored without their blocks, from the start
   block on blocks are requested; a start block that never appears on the peer's chain leaves a
   header-only node that is "in sync before the start block was found". *)
Theorem C01_converges_fresh_prestart :
  forall (MAXR LIM HT HDT BT DELTA : Z) (M : nat) (parent_of : Z -> Z),
  (2 <= M)%nat -> 1 <= MAXR -> MAXR <= LIM ->
  forall w : cworld,
  clean_behind_pre parent_of w = true ->
  exists n, converged (settle MAXR LIM HT HDT BT DELTA M parent_of n w) = true /\
            quiescent MAXR LIM HT HDT BT DELTA M parent_of (settle MAXR LIM HT HDT BT DELTA M parent_of n w) = true.
Proof.
  intros MAXR LIM HT HDT BT DELTA M parent_of HM H1 H2 w Hc.
  destruct (converges_clean_behind_pre MAXR LIM HT HDT BT DELTA M parent_of HM H1 H2 w Hc) as (n & Hn & Hk).
  exists n. split; [exact Hn|]. unfold quiescent. unfold skind in Hk. rewrite Hk. reflexivity.
Qed.
Print Assumptions C01_converges_fresh_prestart.

(* Non-vacuity: a clean start, extensions and a reorganisation of processed blocks handled on line,
   then the connection is lost and the peer extends twice more: the world is freshly connected and
   behind (clean_behind), with an inventory of the new tip in flight - and it is reachable. *)
Example C01_example_parents : list (Z * Z) :=
  [(1, 0); (2, 1); (3, 2); (4, 3); (5, 4); (10, 2); (11, 10); (12, 11); (13, 12); (14, 13); (15, 14); (16, 15)].
(* the schedule: after every peer event the messages are consumed in order (the actions of the settling
   run, computed), except after the last one *)
Definition C01_ex_run (w : cworld) (acts : list act) : cworld :=
  wrun 10 100000000 30 60 600 6 3 (table_fn C01_example_parents) w acts.
Definition C01_ex_settle (w : cworld) : list act :=
  settle_acts 10 100000000 30 60 600 6 3 (table_fn C01_example_parents) 60 w.
Example C01_example_acts : list act := Eval vm_compute in
  let a1 := [APeerSet [0; 1; 2; 3]] in
  let a2 := a1 ++ C01_ex_settle (C01_ex_run (cw_init 0) a1) in
  let a3 := a2 ++ [APeerSet [0; 1; 2; 3; 4; 5]] in
  let a4 := a3 ++ C01_ex_settle (C01_ex_run (cw_init 0) a3) in
  let a5 := a4 ++ [APeerSet [0; 1; 2; 10; 11; 12; 13]] in
  let a6 := a5 ++ C01_ex_settle (C01_ex_run (cw_init 0) a5) in
  a6 ++ [ADisconnect; APeerSet [0; 1; 2; 10; 11; 12; 13; 14; 15; 16]].
Example C01_example_world : cworld := C01_ex_run (cw_init 0) C01_example_acts.
Example C01_example :
  clean_behind (table_fn C01_example_parents) C01_example_world = true /\
  map fst (chain (node_sync C01_example_world)) = [0; 1; 2; 10; 11; 12; 13] /\
  best C01_example_world = [0; 1; 2; 10; 11; 12; 13; 14; 15; 16] /\
  cw_chan C01_example_world = [MVersion; MInv 16] /\
  converged (settle 10 100000000 30 60 600 6 3 (table_fn C01_example_parents) 60 C01_example_world) = true.
Proof. vm_compute. repeat split; reflexivity. Qed.

(* Non-vacuity of (1b): the same history, but the reorganisation [0;1;2;3;4;5] -> [0;1;2;10;...;13] happens
   while the node is disconnected (reachable world, forked at f = 3, handshake reply from block 1). *)
Example C01_fork_acts : list act := Eval vm_compute in
  let a1 := [APeerSet [0; 1; 2; 3; 4; 5]] in
  let a2 := a1 ++ C01_ex_settle (C01_ex_run (cw_init 0) a1) in
  a2 ++ [ADisconnect; APeerSet [0; 1; 2; 10; 11; 12; 13]].
Example C01_fork_world : cworld := C01_ex_run (cw_init 0) C01_fork_acts.
Example C01_fork_example :
  clean_forked 3 (table_fn C01_example_parents) C01_fork_world = true /\
  clean_behind (table_fn C01_example_parents) C01_fork_world = false /\
  map fst (chain (node_sync C01_fork_world)) = [0; 1; 2; 3; 4; 5] /\
  best C01_fork_world = [0; 1; 2; 10; 11; 12; 13] /\
  converged (settle 10 100000000 30 60 600 6 3 (table_fn C01_example_parents) 80 C01_fork_world) = true.
Proof. vm_compute. repeat split; reflexivity. Qed.

(* Non-vacuity of (1c): the node is configured with start block 12 and connects for the first time when
   the peer's chain is [0;1;2;10;11;12;13] (reachable: the initial world after one peer event). *)
Example C01_pre_world : cworld := C01_ex_run (cw_init 12) [APeerSet [0; 1; 2; 10; 11; 12; 13]].
Example C01_pre_example :
  clean_behind_pre (table_fn C01_example_parents) C01_pre_world = true /\
  start_height (node_sync C01_pre_world) = -1 /\
  let w' := settle 10 100000000 30 60 600 6 3 (table_fn C01_example_parents) 80 C01_pre_world in
  converged w' = true /\ start_height (node_sync w') = 5.
Proof. vm_compute. repeat split; reflexivity. Qed.

(* The full statement is REFUTED for out-of-order delivery (what one TCP connection cannot do): the
   inventory of a new tip overtakes an older, still in-flight empty getheaders reply while the node is
   not in sync; the inventory is dropped, the stale reply says "in sync": the node rests in sync one block
   behind for ever (real code: same observations, bin/check key converge:c01:107:settle). *)
Example C01_refute_acts : list act :=
  [ADeliver 0; ACheck; AAnswer 0; APeerSet [0; 1]; ADeliver 1].
Theorem C01_converges_refuted_out_of_order :
  let w := wrun maxRequestedBlocks maxPendingBlockSize handshakeTimeout headerTimeout blockTimeout
                UntrustedHeaderDelta 2000 (table_fn [(1, 0)]) (cw_init 0) C01_refute_acts in
  forall n, converged (settle maxRequestedBlocks maxPendingBlockSize handshakeTimeout headerTimeout blockTimeout
                              UntrustedHeaderDelta 2000 (table_fn [(1, 0)]) n w) = false.
Proof.
  intros w. apply (rest_not_converged _ _ _ _ _ _ _ _ w 6); vm_compute; reflexivity.
Qed.
Print Assumptions C01_converges_refuted_out_of_order.
