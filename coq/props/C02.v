(* C02 - Stored chain stays hash-linked and grows only at its tip for any peer input.
   `run` / `step` is the model of header + block synchronisation (model/Sync.v) that the
   correspondence check executes against the real handler map and ProcessBlock; `c02_monitor`
   (model/SyncSpec.v) is the executable statement of the property over the digests and
   announcements observed after every step.  NO assumption on the peer: any finite sequence of
   header messages (any list of headers of a block tree, plus unknown ones, empty ones), block
   messages (requested or not, body valid or forged), process steps placed anywhere, plus check,
   clock, time-out, reconnect and node-restart steps and untrusted-connection messages.
   The only hypothesis is that header ids come from a block tree (ids stand for collision-free
   hashes: a rank strictly increases from parent to child). *)
From V.lib Require Import Base.
From V.model Require Import Requests Sync SyncSpec.
From V.gen Require Import Consts.
From V.proofs Require Import Sync_Proofs.

(* In every reachable state the stored chain starts at genesis, every block's parent is the block
   stored below it, and no block is stored twice (so height->hash and hash->height are inverse). *)
Theorem C02_chain_linked :
  forall (MAXR LIM HT HDT BT DELTA : Z) (parents : list (Z * Z)) (rk : Z -> Z) (start : Z) (ops : list op),
    sync_valid (table_fn parents) rk ops ->
    chain_ok (chain (w_sync (w_after MAXR LIM HT HDT BT DELTA parents start ops))).
Proof. exact chain_linked. Qed.
Print Assumptions C02_chain_linked.

(* The monitor never objects: codes 201/202 (linkage, inverse views), 203 (window), 211-214 (a block
   is announced at height tip+1 and added on top of the tip, the chain never changes without an
   announcement in a process step), 221 (a headers message may revert to a fork point but never
   below genesis), 222 (once the start block is found - start height >= 0 in the digest before the
   step - a headers message ONLY reverts: the chain after it is a prefix of the chain before it, so
   every block above a fork point enters through a process step and is announced at fork+1, fork+2, ...;
   the headers handler never stores a block itself again), 223 (while the start block is not found a
   headers message may store bare headers, but in the message that finds the start block at height s
   nothing is stored at height >= s), 231 (no other step touches the chain).
   The model fact behind 222/223 is handle_headers_rel (Sync_Proofs.v): hdr_rel s (handle_headers s hs).1. *)
Theorem C02_monitor_passes :
  forall (MAXR LIM HT HDT BT DELTA : Z) (parents : list (Z * Z)) (rk : Z -> Z) (start : Z) (ops : list op),
    0 <= MAXR ->
    sync_valid (table_fn parents) rk ops ->
    c02_monitor MAXR ops (run MAXR LIM HT HDT BT DELTA parents start ops) = None.
Proof. exact c02_monitor_passes. Qed.
Print Assumptions C02_monitor_passes.

Theorem C02_monitor_passes_consts :
  forall (parents : list (Z * Z)) (rk : Z -> Z) (start : Z) (ops : list op),
    sync_valid (table_fn parents) rk ops ->
    c02_monitor maxRequestedBlocks ops
      (run maxRequestedBlocks maxPendingBlockSize handshakeTimeout headerTimeout blockTimeout
           UntrustedHeaderDelta parents start ops) = None.
Proof. exact c02_monitor_passes_consts. Qed.
Print Assumptions C02_monitor_passes_consts.

(* Non-vacuity: a forked tree, start block in the middle, out-of-order and forged blocks, a reorg
   among processed blocks. *)
Example C02_example_parents : list (Z * Z) := [(1, 0); (2, 1); (3, 2); (4, 3); (10, 2); (11, 10)].
Example C02_example_ops : list op :=
  [OVersion; OCheck; OHeaders [(1, 0); (2, 1); (3, 2); (4, 3)]; OBlockMsg 3 true; OBlockMsg 2 true; OProcess;
   OBlockMsg 4 false; OProcess; OProcess; OHeaders [(10, 2); (11, 10)]; OBlockMsg 10 true; OProcess; OCheck].
Example C02_example :
  c02_monitor 10 C02_example_ops (run 10 100000000 30 60 600 6 C02_example_parents 2 C02_example_ops) = None /\
  map fst (chain (w_sync (w_after 10 100000000 30 60 600 6 C02_example_parents 2 C02_example_ops))) = [0; 1; 2; 10].
Proof. vm_compute. split; reflexivity. Qed.

(* the hypothesis of the theorems above is satisfiable: the example's tree and history are valid
   with the rank function rk = id (parents are smaller than children; ids outside the table have the
   parent id - 1) *)
Example C02_hypothesis_satisfiable :
  sync_valid (table_fn C02_example_parents) (fun x => x) C02_example_ops.
Proof.
  split; [|split].
  - intros id Hid. unfold table_fn, C02_example_parents. cbn [find fst snd].
    repeat (match goal with |- context [?a =? id] => destruct (Z.eqb_spec a id) end); cbn [fst snd]; lia.
  - unfold C02_example_ops. repeat (apply Forall_cons; split); try apply Forall_nil; cbn [op_headers];
      repeat (apply Forall_cons; split); try apply Forall_nil; try exact I; try (split; [cbn; lia|vm_compute; reflexivity]).
  - unfold C02_example_ops. repeat (apply Forall_cons; split); try apply Forall_nil; try exact I; lia.
Qed.

(* ProcessBlock in two phases (parent check ... merkle validation ... add), as the real code runs it.
   The model's atomic `process_block` is check-then-add (C02_process_is_check_then_add); the add keeps
   the chain hash-linked when nobody changed the chain since the check (C02_two_phase_locked: what
   BlockRepository.LockChain of /repo fix e0141dc provides); it does NOT when a headers message is
   handled in between (C02_two_phase_interleaved_refuted: the pre-fix history that
   gen/parentrace.py replays on the real threads, code 215). *)
From V.proofs Require Import Sync_TwoPhase.

Theorem C02_process_is_check_then_add :
  forall (s : sync) (h : hdr) (v : bool),
    process_block s h v = if process_check s h v then process_add s h else (s, 1).
Proof. exact process_block_two_phase. Qed.
Print Assumptions C02_process_is_check_then_add.

Theorem C02_two_phase_locked :
  forall (s s' : sync) (h : hdr) (v : bool) (c' : list hdr),
    chain s = genesis_hdr :: c' ->
    chain s' = chain s ->
    linked_from (-1) (chain s) = true ->
    process_check s h v = true ->
    linked_from (-1) (chain (fst (process_add s' h))) = true.
Proof. exact two_phase_locked. Qed.
Print Assumptions C02_two_phase_locked.

Theorem C02_two_phase_interleaved_refuted :
  exists (s : sync) (h : hdr) (hs : list hdr),
    chain_ok (chain s) /\
    process_check s h true = true /\
    map fst (chain (fst (handle_headers 10 100000000 s hs))) = [0; 1] /\
    linked_from (-1) (chain (fst (process_add (fst (handle_headers 10 100000000 s hs)) h))) = false.
Proof. exact two_phase_interleaved_refuted. Qed.
Print Assumptions C02_two_phase_interleaved_refuted.
