(* C03 - Relevant transactions are delivered completely and exactly once.
   `run` is the model of the transaction pipeline (model/TxFlow.v) that the correspondence check
   executes against a real Node; `txflow_monitor` (model/TxFlowSpec.v) is the executable statement of
   the properties over the operations and the notifications handlers receive.  The theorem says the
   monitor never objects, with any of this property's codes, on ANY valid history (unbounded length:
   any transactions, sources, inventory announcements, blocks, delay-check placements, clock
   advances, restarts and in-sync changes):
   111 a new-tx notification for a transaction the step does not carry
   112 a non-matching transaction is delivered            (soundness)
   113 a transaction is delivered as new a second time     (at most once: duplicates, several announcers,
       inv/tx races, re-announcement after confirmation, across restart)
   114 the spent outputs are not, per input and in order, the outputs spent
   115 a state update for a transaction that was never delivered
   131 the trusted peer's transaction is processed although the node is not in sync
   143 a matching transaction first seen now is not delivered now   (completeness)
   153 a matching transaction of a processed block is not notified with the proof for that block
       (as new if never delivered, as an update otherwise) *)
From V.lib Require Import Base.
From V.model Require Import MemPool TxFlow TxFlowSpec.
From V.proofs Require Import TxFlow_Proofs.

Theorem C03_txflow :
  forall (delay : Z) (ops : list op),
    flow_valid delay ops = true -> never_objects delay [111; 112; 113; 114; 115; 131; 143; 153] ops.
Proof. exact (txflow_never_objects_C03). Qed.
Print Assumptions C03_txflow.

(* Non-vacuity: a valid history with a three-way conflict, a safe report, a confirmation that
   cancels, a restart and a re-announcement; the model produces notifications and the monitor is
   satisfied. *)
Example C03_example_ops : list op :=
  [OSetInSync true; OInv 1 true; OTx 1 [1000] true SUntrusted; OTx 4 [1010] true STrusted;
   OAdvance 75000; ODelayCheck; OTx 2 [1000; 1001] true SUntrusted; OTx 3 [1001] false STrusted;
   OBlock 1 0 [(3, [1001], false)] true; ORestart; OSetInSync true; OTx 4 [1010] true SUntrusted;
   OBlock 2 1 [(4, [1010], true)] true; OGetTx 4; ODelayCheck].
Example C03_example :
  flow_valid 60000 C03_example_ops = true /\
  txflow_monitor 60000 C03_example_ops (run 60000 C03_example_ops) = None /\
  (3 <=? zlen (concat (run 60000 C03_example_ops))) = true.
Proof. vm_compute. repeat split; reflexivity. Qed.

(* Non-vacuity, reorganisation: tx 1 is announced and sent by the trusted peer, reported safe, confirmed in
   block 1; block 1 is orphaned by the competing block 2 (through the headers handler: the chain is reverted,
   in-sync is cleared, the per-height file of height 1 now lists block 2's tx 4); tx 1 is then sent again by an
   UNTRUSTED peer: it is delivered as new once more (the exception of the property), not safe, still carrying the
   orphaned block's proof and depth 0 (observation 181 of txflow_stale_monitor, not judged); the delay check does
   not report it safe (nobody vouched for it after the orphaning); a double spend makes it unsafe; block 3 on the
   new branch confirms it: a state update with block 3's proof (unsafe stays), the double spend is cancelled. *)
Example C03_reorg_example_ops : list op :=
  [OSetInSync true; OInv 1 true; OTx 1 [1000] true STrusted; OAdvance 75000; ODelayCheck;
   OBlock 1 0 [(1, [1000], true)] true;
   OReorg 2 0 [(4, [1010], true)] true; OBlockTxs 1; OSetInSync true;
   OTx 1 [1000] true SUntrusted; OAdvance 75000; ODelayCheck;
   OTx 2 [1000; 1001] true SUntrusted;
   OBlock 3 2 [(1, [1000], true)] true; OGetTx 1; OUnconf].
Example C03_reorg_example :
  flow_valid 60000 C03_reorg_example_ops = true /\
  txflow_monitor 60000 C03_reorg_example_ops (run 60000 C03_reorg_example_ops) = None /\
  nth 6 (run 60000 C03_reorg_example_ops) [] = [0; 0; 1; 2; 3; 1; 2; 1; 4; 1; 0; 0; 0; 2; 1; 1010] /\
  nth 7 (run 60000 C03_reorg_example_ops) [] = [0; 4] /\
  nth 9 (run 60000 C03_reorg_example_ops) [] = [0; 1; 1; 0; 0; 0; 0; 1; 1; 1000] /\
  nth 11 (run 60000 C03_reorg_example_ops) [] = [0] /\
  nth 13 (run 60000 C03_reorg_example_ops) [] = [0; 3; 2; 3; 2; 2; 0; 1; 1; 1; -1; 2; 1; 0; 1; 0; 0; 3] /\
  txflow_stale_monitor 60000 C03_reorg_example_ops (run 60000 C03_reorg_example_ops) = Some (9, [181]).
Proof. vm_compute. repeat split; reflexivity. Qed.

(* Regression (fixes 88c7660, fff2206, da5061e, bf1d52c): the four reorganisation histories on which the code used
   to violate the properties are inside the hypothesis and the monitor is satisfied.
   A: the orphaned tx 1 that was reported unsafe is re-submitted locally: delivered as new, unsafe, NOT safe.
   B: it is confirmed again by the competing block before being announced again: delivered as new, unsafe.
   C: tx 1 was sent again while confirmed, its block is orphaned, a block of the new branch confirms it while in
      sync: it is notified (as new) with that block's proof.
   G: the conflict with tx 2 was seen while tx 1 was confirmed; after the orphaning and a restart tx 1 is announced
      again: the restarted node still holds tx 2's body, tx 1 is delivered unsafe and never reported safe. *)
Definition C03_t1 : btx := (1, [1000], true).
Example C03_fixed_A_ops : list op :=
  [OSetInSync true; OTx 1 [1000] true STrusted; OTx 2 [1000; 1001] true SUntrusted; OBlock 1 0 [C03_t1] true;
   OReorg 2 0 [] true; OTx 1 [1000] true SLocal].
Example C03_fixed_B_ops : list op :=
  [OSetInSync true; OTx 1 [1000] true STrusted; OTx 2 [1000; 1001] true SUntrusted; OBlock 1 0 [C03_t1] true;
   OReorg 2 0 [C03_t1] true].
Example C03_fixed_C_ops : list op :=
  [OSetInSync true; OBlock 1 0 [C03_t1] true; OTx 1 [1000] true SUntrusted; OReorg 2 0 [] true; OSetInSync true;
   OBlock 3 2 [C03_t1] true].
Example C03_fixed_G_ops : list op :=
  [OSetInSync true; OBlock 1 0 [C03_t1] true; OTx 1 [1000] true SUntrusted; OTx 2 [1000; 1001] true SUntrusted;
   OReorg 2 0 [] true; ORestart; OSetInSync true; OTx 1 [1000] true STrusted; OAdvance 75000; ODelayCheck].
Example C03_fixed_examples :
  map (fun ops => (flow_valid 60000 ops, txflow_monitor 60000 ops (run 60000 ops)))
      [C03_fixed_A_ops; C03_fixed_B_ops; C03_fixed_C_ops; C03_fixed_G_ops]
  = [(true, None); (true, None); (true, None); (true, None)] /\
  last (run 60000 C03_fixed_A_ops) = Some [0; 1; 1; 0; 1; 0; 0; 1; 1; 1000] /\
  last (run 60000 C03_fixed_B_ops) = Some [0; 0; 1; 2; 3; 1; 2; 1; 1; 0; 1; 0; 0; 2; 1; 1000] /\
  last (run 60000 C03_fixed_C_ops) = Some [0; 3; 2; 3; 1; 1; 1; 0; 0; 0; 3; 1; 1000] /\
  nth 7 (run 60000 C03_fixed_G_ops) [] = [0; 2; 2; 0; 1; 0; 1; -1; 1; 1; 0; 1; 0; 0; 1; 1; 1000] /\
  last (run 60000 C03_fixed_G_ops) = Some [0].
Proof. vm_compute. repeat split; reflexivity. Qed.
