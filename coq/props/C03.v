(* C03 - Relevant transactions are delivered completely and exactly once.
   `run` is the model of the transaction pipeline (model/TxFlow.v) that the correspondence check
   executes against a real Node; `txflow_monitor` (model/TxFlowSpec.v) is the executable statement of
   the properties over the operations and the notifications handlers receive.  The theorem says the
   monitor never objects, with any of this property's codes, on ANY valid history (unbounded length:
   any transactions, sources, inventory announcements, blocks, delay-check placements, clock
   advances, restarts and in-sync changes):
   111 a new-tx notification for a transaction the step does not carry
   112 a non-matching transaction is delivered            (soundness)
   113 a transaction is delivered as new a second time     (at most once: duplicates, several announcers,
       inv/tx races, re-announcement after confirmation, across restart)
   114 the spent outputs are not, per input and in order, the outputs spent
   115 a state update for a transaction that was never delivered
   131 the trusted peer's transaction is processed although the node is not in sync
   143 a matching transaction first seen now is not delivered now   (completeness)
   153 a matching transaction of a processed block is not notified with the proof for that block
       (as new if never delivered, as an update otherwise) *)
From V.lib Require Import Base.
From V.model Require Import MemPool TxFlow TxFlowSpec.
From V.proofs Require Import TxFlow_Proofs.

Theorem C03_txflow :
  forall (delay : Z) (ops : list op),
    flow_valid delay ops = true -> never_objects delay [111; 112; 113; 114; 115; 131; 143; 153] ops.
Proof. exact (txflow_never_objects_C03). Qed.
Print Assumptions C03_txflow.

(* Non-vacuity: a valid history with a three-way conflict, a safe report, a confirmation that
   cancels, a restart and a re-announcement; the model produces notifications and the monitor is
   satisfied. *)
Example C03_example_ops : list op :=
  [OSetInSync true; OInv 1 true; OTx 1 [1000] true SUntrusted; OTx 4 [1010] true STrusted;
   OAdvance 75000; ODelayCheck; OTx 2 [1000; 1001] true SUntrusted; OTx 3 [1001] false STrusted;
   OBlock 1 0 [(3, [1001], false)] true; ORestart; OSetInSync true; OTx 4 [1010] true SUntrusted;
   OBlock 2 1 [(4, [1010], true)] true; OGetTx 4; ODelayCheck].
Example C03_example :
  flow_valid 60000 C03_example_ops = true /\
  txflow_monitor 60000 C03_example_ops (run 60000 C03_example_ops) = None /\
  (3 <=? zlen (concat (run 60000 C03_example_ops))) = true.
Proof. vm_compute. repeat split; reflexivity. Qed.
