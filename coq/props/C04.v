(* C04 - Confirmations carry valid merkle proofs; bad-merkle blocks are never accepted.

   model/Merkle.v:  symbolic hashes (free constructor: injective, never a leaf); the dependency's streaming
   merkle tree with pruning (AddMerkleProof / AddHash / processProofsLayer / FinalizeMerkleProofs) -
   MODELLED and validated by correspondence on the real Node.ProcessBlock, not verified; /repo's own part
   (ProcessBlock's gates, registration loop, root comparison, pairing merkleProofs[i] with txs[i],
   convertMerkleProof, client.MerkleProof.IsValid); the textbook root as independent reference.

   All statements are for EVERY block size (no bound; induction over the levels of the tree, odd counts at
   every level included), every subset and position of registered transactions, txids pairwise distinct.
   `zlen body < 2^63` only says the transaction count fits a Go int (it makes the uint64 conversions of
   convertMerkleProof the identity). *)
From V.lib Require Import Base.
From V.model Require Import Merkle.
From V.proofs Require Import Merkle_Proofs.
From V.model Require TxFlow TxFlowSpec.
From V.proofs Require TxFlow_Proofs.

(* root_agrees: the streaming root is the textbook root *)
Theorem C04_root_agrees :
  forall (body : list (Z * bool)) (t : mtree),
    NoDup (map fst body) -> body <> [] -> reg_loop body = Ok t ->
    exists root proofs, finalize t = Ok (Some root, proofs) /\ ref_root (map Leaf (map fst body)) = Some root.
Proof. exact root_agrees. Qed.
Print Assumptions C04_root_agrees.

(* proof_verifies (+ alignment per position): the i-th returned proof belongs to the i-th registered
   txid, its Index is that transaction's index in the block, and the client verifier accepts it for that
   txid against the root - under any header id *)
Theorem C04_proof_verifies :
  forall (body : list (Z * bool)) (t : mtree) (root : mnode) (proofs : list mproof) (i : nat) (q : mproof),
    NoDup (map fst body) -> zlen body < 2 ^ 63 ->
    reg_loop body = Ok t -> finalize t = Ok (Some root, proofs) -> proofs !! i = Some q ->
    registered body !! i = Some (p_txid q) /\
    0 <= p_index q /\ map fst body !! Z.to_nat (p_index q) = Some (p_txid q) /\
    forall hid, is_valid (convert_merkle_proof q (hid, root)) (p_txid q) = 0.
Proof. exact proof_verifies. Qed.
Print Assumptions C04_proof_verifies.

(* alignment: the proofs come back in registration order - exactly one per registered transaction *)
Theorem C04_alignment :
  forall (body : list (Z * bool)) (t : mtree) (root : option mnode) (proofs : list mproof),
    NoDup (map fst body) -> body <> [] -> reg_loop body = Ok t -> finalize t = Ok (root, proofs) ->
    map p_txid proofs = registered body.
Proof. exact alignment. Qed.
Print Assumptions C04_alignment.

(* the three together, with existence (no panic, no error on the way) *)
Theorem C04_streaming_correct :
  forall body : list (Z * bool),
    NoDup (map fst body) -> body <> [] -> zlen body < 2 ^ 63 ->
    exists t root proofs,
      reg_loop body = Ok t /\ finalize t = Ok (Some root, proofs) /\
      ref_root (map Leaf (map fst body)) = Some root /\
      map p_txid proofs = registered body /\
      Forall (fun q => 0 <= p_index q /\ map fst body !! Z.to_nat (p_index q) = Some (p_txid q) /\
                       forall hid, is_valid (convert_merkle_proof q (hid, root)) (p_txid q) = 0) proofs.
Proof. exact streaming_correct. Qed.
Print Assumptions C04_streaming_correct.

(* bad_block_rejected: a body whose textbook root is not the header's root leaves the node's state
   (chain, unconfirmed set, mempool) and the notification stream untouched *)
Theorem C04_bad_block_rejected :
  forall (s : nstate) (hid prev : Z) (hroot : mnode) (body : list (Z * bool)),
    ref_root (map Leaf (map fst body)) <> Some hroot ->
    process_block s hid prev hroot body false = (s, ERR, []).
Proof. exact bad_block_rejected. Qed.
Print Assumptions C04_bad_block_rejected.

(* ... and with pairwise distinct txids EVERY body other than the committed list is such a body:
   transaction added, dropped, reordered or altered under an unchanged header *)
Theorem C04_corrupted_body_rejected :
  forall (s : nstate) (hid prev : Z) (hroot : mnode) (committed : list Z) (body : list (Z * bool)),
    NoDup committed -> NoDup (map fst body) ->
    ref_root (map Leaf committed) = Some hroot ->
    map fst body <> committed ->
    process_block s hid prev hroot body false = (s, ERR, []).
Proof. exact corrupted_body_rejected. Qed.
Print Assumptions C04_corrupted_body_rejected.

(* the block that does pass ProcessBlock's gates (not held, extends the tip, IsMerkleRootValid), in ANY state
   of the node and of its storage - in particular whatever the per-height tx id files already list, e.g.
   after a crash in the middle of an earlier processing of the same block - and under any output-fetch
   faults: the second root comparison - which sits AFTER blocks.Add and HandleHeaders - never fails; the
   header is added and announced; the transactions to notify are `selected` (the already delivered ones as
   updates, the other relevant ones as new; the files play no part); what is delivered is, in block order,
   a prefix of them - all of them when nothing cuts the second pass short (no output fetch fails, every
   previously seen transaction has a stored state) - each of the right kind with that header,
   depth 0, its true index and a proof the client verifier accepts *)
Theorem C04_processed_block :
  forall (s : nstate) (hid prev : Z) (hroot : mnode) (body : list (Z * bool)),
    NoDup (map fst body) -> zlen body < 2 ^ 63 ->
    existsb (fun h => fst h =? hid) (n_chain s) || (hid =? 0) = false ->
    prev = n_tip s ->
    is_merkle_root_valid hroot (map fst body) = true ->
    let txs := selected (n_insync s) (n_unconf s) (n_mempool s) body in
    exists s' code evs,
      process_block s hid prev hroot body false = (s', code, EHeaders (n_height s + 1) hid :: evs) /\
      n_chain s' = (hid, hroot) :: n_chain s /\
      Forall2 (conf_ok hid hroot (map fst body)) (take (length evs) txs) evs /\
      (code = OK \/ code = ERR) /\
      (no_abort (n_faults s) (n_states s) txs -> code = OK /\ length evs = length txs).
Proof. exact processed_block. Qed.
Print Assumptions C04_processed_block.

(* the complete case on its own: nothing cuts the second pass short *)
Theorem C04_accepted_block :
  forall (s : nstate) (hid prev : Z) (hroot : mnode) (body : list (Z * bool)),
    NoDup (map fst body) -> zlen body < 2 ^ 63 ->
    existsb (fun h => fst h =? hid) (n_chain s) || (hid =? 0) = false ->
    prev = n_tip s ->
    is_merkle_root_valid hroot (map fst body) = true ->
    let txs := selected (n_insync s) (n_unconf s) (n_mempool s) body in
    no_abort (n_faults s) (n_states s) txs ->
    exists s' evs,
      process_block s hid prev hroot body false = (s', OK, EHeaders (n_height s + 1) hid :: evs) /\
      n_chain s' = (hid, hroot) :: n_chain s /\
      Forall2 (conf_ok hid hroot (map fst body)) txs evs.
Proof. exact accepted_block. Qed.
Print Assumptions C04_accepted_block.

(* alignment for reprocessed / re-confirmed blocks: two node states that differ ONLY in what the per-height tx
   id files already list and in which proofs the stored tx states carry (the same transactions have a state)
   give the same outcome class and exactly the same notifications for a block (any block, any body): proofs
   and transactions stay paired whatever an interrupted earlier processing recorded, and every confirmation
   is rebuilt from the CURRENT block whatever stale proof (of a block reverted since) a state still holds *)
Theorem C04_reprocessed_block_aligned :
  forall (s : nstate) (hid prev : Z) (hroot : mnode) (body : list (Z * bool)) (files : list (Z * list Z))
         (states : list (Z * option cproof)),
    (forall t, get_state t states = None <-> get_state t (n_states s) = None) ->
    let s2 := NS (n_chain s) (n_unconf s) (n_mempool s) (n_insync s) (n_saved_chain s) (n_saved_unconf s)
                 files (n_faults s) states in
    snd (fst (process_block s2 hid prev hroot body false)) = snd (fst (process_block s hid prev hroot body false)) /\
    snd (process_block s2 hid prev hroot body false) = snd (process_block s hid prev hroot body false).
Proof. exact reprocessed_block_aligned. Qed.
Print Assumptions C04_reprocessed_block_aligned.

(* soundness over histories.  After ANY history - unconfirmed arrivals and re-announcements, blocks, competing
   headers handled by the headers handler (reorgs), output-fetch faults, graceful restarts and hard crashes -
   every notification produced by a block, delivered directly or behind a header announcement that reverts
   part of the chain, with pairwise distinct txids, is the announcement of that header or a confirmation of
   the right kind for one of the block's transactions, carrying that header, depth 0, the transaction's index
   in THIS block and a proof the client verifier accepts against THIS header's root *)
Theorem C04_history_sound :
  forall (insync : bool) (ops : list op) (hid prev : Z) (committed : list Z) (body : list (Z * bool)),
    NoDup (map fst body) -> zlen body < 2 ^ 63 ->
    let s := state_after insync ops in
    Forall (block_event_ok hid (committed_root committed) (map fst body))
           (snd (step_ev s (OBlock hid prev committed body false))) /\
    Forall (block_event_ok hid (committed_root committed) (map fst body))
           (snd (step_ev s (OReorg hid prev committed body))).
Proof. exact history_sound. Qed.
Print Assumptions C04_history_sound.

(* Non-vacuity (every example is a CLOSED computation: vm_compute on explicit small inputs only).
   A 7-transaction block (odd count at level 0) with 3 registered transactions - the first, a middle one
   and the last (whose leaf is duplicated); a 5-transaction block (odd count at levels 0 and 1); then a
   history with transactions delivered unconfirmed before their block and a reordered body. *)
Example C04_example_body : list (Z * bool) :=
  [(11, true); (12, false); (13, false); (14, true); (15, false); (16, false); (17, true)].
Example C04_example_tree :
  match reg_loop C04_example_body with
  | Ok t =>
      match finalize t with
      | Ok (Some root, proofs) =>
          ref_root (map Leaf (map fst C04_example_body)) = Some root /\
          map (fun q => (p_txid q, p_index q, length (p_path q), p_dups q)) proofs
            = [(11, 0, 3%nat, []); (14, 3, 3%nat, []); (17, 6, 2%nat, [1])] /\
          map (fun q => is_valid (convert_merkle_proof q (1, root)) (p_txid q)) proofs = [0; 0; 0] /\
          (* a proof does not verify for another txid *)
          map (fun q => is_valid (convert_merkle_proof q (1, root)) 12) proofs = [2; 2; 2]
      | _ => False
      end
  | _ => False
  end.
Proof. vm_compute. repeat split; reflexivity. Qed.

(* five transactions: odd count at level 0 and at level 1 - the last transaction's node is duplicated twice *)
Example C04_example_tree5 :
  match reg_loop [(1, false); (2, true); (3, false); (4, false); (5, true)] with
  | Ok t =>
      match finalize t with
      | Ok (Some root, proofs) =>
          ref_root (map Leaf [1; 2; 3; 4; 5]) = Some root /\
          map (fun q => (p_txid q, p_index q, p_path q, p_dups q)) proofs
            = [(2, 1, [Leaf 1; Node (Leaf 3) (Leaf 4);
                       Node (Node (Leaf 5) (Leaf 5)) (Node (Leaf 5) (Leaf 5))], []);
               (5, 4, [Node (Node (Leaf 1) (Leaf 2)) (Node (Leaf 3) (Leaf 4))], [1; 2])] /\
          map (fun q => is_valid (convert_merkle_proof q (1, root)) (p_txid q)) proofs = [0; 0]
      | _ => False
      end
  | _ => False
  end.
Proof. vm_compute. repeat split; reflexivity. Qed.

Example C04_example_ops : list op :=
  [OSeen 14 true; OSeen 12 false; OSeen 17 true;
   OBlock 1 0 [11; 12; 13; 14; 15; 16; 17] C04_example_body false;
   OBlock 2 1 [21; 22; 23] [(21, true); (23, false); (22, true)] false;       (* reordered: rejected *)
   OBlock 2 1 [21; 22; 23] [(21, true); (22, true); (23, false)] false].
Example C04_example_run :
  c04_valid_tr C04_example_ops (run true C04_example_ops) = true /\
  c04_monitor C04_example_ops (run true C04_example_ops) = None /\
  map (fun o => firstn 4 o) (run true C04_example_ops)
    = [[0; 0; 0; 1]; [0; 0; 0; 0]; [0; 0; 0; 1]; [0; 1; 1; 4]; [1; 1; 1; 0]; [0; 2; 2; 3]].
Proof. vm_compute. repeat split; reflexivity. Qed.

(* a block cut short by an output-fetch fault after its first pass recorded the new relevant txids in the
   per-height file (node not in sync: headers unsaved), hard crash, restart, the blocks processed again:
   tx 1 (new, already recorded), tx 5 (delivered unconfirmed, persisted by block 1) and tx 3 (the one whose
   fetch failed) all get their confirmation with their own index (1, 3, 4) *)
Example C04_example_abort_ops : list op :=
  [OSeen 5 true; OBlock 1 0 [9] [(9, false)] false; OFault [3];
   OBlock 2 1 [2; 1; 4; 5; 3] [(2, false); (1, true); (4, false); (5, true); (3, true)] false;
   OFault []; ORestart false false;
   OBlock 1 0 [9] [(9, false)] false;
   OBlock 2 1 [2; 1; 4; 5; 3] [(2, false); (1, true); (4, false); (5, true); (3, true)] false].
Example C04_example_abort :
  c04_valid_tr C04_example_abort_ops (run false C04_example_abort_ops) = true /\
  c04_monitor C04_example_abort_ops (run false C04_example_abort_ops) = None /\
  map (fun o => firstn 4 o) (run false C04_example_abort_ops)
    = [[0; 0; 0; 1]; [0; 1; 1; 1]; [0; 1; 1; 0]; [1; 2; 2; 3]; [0; 2; 2; 0]; [0; 0; 0; 0]; [0; 1; 1; 1]; [0; 2; 2; 4]].
Proof. vm_compute. repeat split; reflexivity. Qed.

(* confirm -> revert -> re-announce -> confirm on the new branch: tx 7 is seen, confirmed in block 2 (index 2),
   block 2 is reverted by the competing header 3, tx 7 is announced again - delivered with the STALE proof of
   block 2 in its state (header not held: -5; recorded by c04_reannounce_monitor, code 431) - and confirmed in
   block 4 at index 1: the update carries block 4's header, index 1 and a proof that verifies *)
Example C04_example_reorg_ops : list op :=
  [OSeen 7 true; OBlock 1 0 [1] [(1, false)] false;
   OBlock 2 1 [2; 3; 7] [(2, false); (3, false); (7, true)] false;
   OReorg 3 1 [4; 5] [(4, false); (5, false)];
   OSeen 7 true;
   OBlock 4 3 [6; 7; 8; 9] [(6, false); (7, true); (8, false); (9, false)] false].
Example C04_example_reorg :
  c04_valid_tr C04_example_reorg_ops (run true C04_example_reorg_ops) = true /\
  c04_monitor C04_example_reorg_ops (run true C04_example_reorg_ops) = None /\
  c04_reannounce_monitor C04_example_reorg_ops (run true C04_example_reorg_ops) = Some (4, [431]) /\
  run true C04_example_reorg_ops
    = [[0; 0; 0; 1; 1; 7; 0]; [0; 1; 1; 1; 3; 1; 1];
       [0; 2; 2; 2; 3; 2; 2; 2; 7; 1; 2; 2; 0; 0; 1; -1; 2; 3; 1; 1];
       [0; 2; 3; 1; 3; 2; 3];
       [0; 2; 3; 1; 1; 7; 1; -5; 2; 0; 0; 1; -1; 2; 3; 1; 1];
       [0; 3; 4; 2; 3; 3; 4; 2; 7; 1; 4; 1; 0; 0; 2; 6; -1; 8; 9; 0]].
Proof. vm_compute. repeat split; reflexivity. Qed.

(* Recorded note (not a violation of the statement): without the hypothesis "txids pairwise distinct" the
   textbook root - and so both gates - cannot tell [a;b;c] from [a;b;c;c] (CVE-2012-2459). *)
Example C04_duplication_note :
  ref_root (map Leaf [1; 2; 3]) = ref_root (map Leaf [1; 2; 3; 3]).
Proof. vm_compute. reflexivity. Qed.

(* Node level (model/TxFlow.v, the transaction pipeline the correspondence check runs against a real Node with
   conflicts, unsafe / cancelled states, delay checks and restarts around the blocks): on EVERY valid history the
   monitor never reports code 153 - "a matching transaction of a processed block is not notified with the proof
   for THIS block and unconfirmed depth 0 (as new if never delivered, as an update otherwise)" - nor 154
   (a refused block delivers something). *)
Theorem C04_txflow_confirmations :
  forall (delay : Z) (ops : list TxFlow.op),
    TxFlowSpec.flow_valid delay ops = true -> TxFlowSpec.never_objects delay [153; 154] ops.
Proof. exact (fun delay ops H => TxFlow_Proofs.txflow_never_objects_any [153; 154] delay ops H). Qed.
Print Assumptions C04_txflow_confirmations.
