From V.lib Require Import Base.
From V.model Require Import Merkle.
From V.proofs Require Import Merkle_Proofs.
Theorem C04_stub : True.
Proof. exact I. Qed.
Print Assumptions C04_stub.
