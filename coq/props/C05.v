(* C05 - Conflicting unconfirmed transactions are flagged as double spends (component level:
   the outpoint index of internal/state/mempool.go).  `run` is the model executed against the real
   MemPool by the correspondence check; the reference (`ref_run`, MemPoolSpec.v) keeps only the
   list of held bodies and finds spenders by scanning - it has no index that could go stale. *)
From V.lib Require Import Base.
From V.model Require Import MemPool MemPoolSpec.
From V.proofs Require Import MemPool_Proofs.

(* For EVERY sequence of add / remove / conflicting / request / query operations (any overlap
   pattern, k-way conflicts, the same outpoint twice in one tx, zero-input bodies, re-adds after
   removal or eviction) the model answers like the index-free reference. *)
Theorem C05_mempool_refines_pool :
  forall ops : list op, proj_trace c05_proj ops (run ops) = ref_run ops.
Proof. exact mempool_refines_pool. Qed.
Print Assumptions C05_mempool_refines_pool.

(* index_exact: in every reachable state the index lists, for every outpoint, exactly the held
   transactions spending it (arrival order, each once) and has no entry when there is none. *)
Theorem C05_index_exact :
  forall (ops : list op) (o : Z),
    inputs (mp_after ops) !! o =
      match spenders (ref_after ops) o with [] => None | l => Some l end.
Proof. exact index_exact. Qed.
Print Assumptions C05_index_exact.

Theorem C05_pool_wellformed :
  forall ops : list op,
    NoDup (map fst (ref_after ops)) /\ Forall (fun e => snd e <> []) (ref_after ops) /\
    (forall o, NoDup (spenders (ref_after ops) o)).
Proof. exact pool_wellformed. Qed.
Print Assumptions C05_pool_wellformed.

(* adding a transaction returns exactly the other held transactions sharing an outpoint, each once *)
Theorem C05_add_returns_conflicts :
  forall (p : pool) (t : Z) (body : list Z),
    NoDup (map fst p) ->
    let c := conflicts_of p t body in
    NoDup c /\
    forall t', In t' c <-> (t' <> t /\ exists b', In (t', b') p /\ shares body b').
Proof. exact add_returns_conflicts. Qed.
Print Assumptions C05_add_returns_conflicts.

(* transactions sharing no outpoint are never flagged against each other - whatever was removed,
   evicted or re-added before (the reference pool has no memory of removed transactions) *)
Theorem C05_no_false_conflict :
  forall (p : pool) (t : Z) (body : list Z),
    (forall t' b', In (t', b') p -> t' <> t -> ~ shares body b') ->
    conflicts_of p t body = [].
Proof. exact no_false_conflict. Qed.
Print Assumptions C05_no_false_conflict.

(* a confirmed transaction's body evicts exactly the held transactions it conflicts with *)
Theorem C05_conflicting_evicts :
  forall (p : pool) (body : list Z),
    NoDup (map fst p) ->
    let r := ref_step p (OConflicting body) in
    (forall t', In t' (tl (snd r)) <-> exists b', In (t', b') p /\ shares body b') /\
    NoDup (tl (snd r)) /\
    fst r = filter (fun e => ~ shares body (snd e)) p.
Proof. exact conflicting_evicts. Qed.
Print Assumptions C05_conflicting_evicts.

(* Non-vacuity: a 3-way conflict with partial overlap, removal, re-add, eviction. *)
Example C05_example_ops : list op :=
  [OAddTx 1 [1000] false; OAddTx 2 [1000; 1001] true; OAddTx 3 [1001; 1010] false; OIndex 1000;
   ORemoveTx 1; OAddTx 4 [1000] false; OAddTx 1 [1000] false; OConflicting [1001]; OIndex 1000; OIndex 1010].
Example C05_example_run :
  proj_trace c05_proj C05_example_ops (run C05_example_ops) = ref_run C05_example_ops /\
  nth 6 (run C05_example_ops) [] = [OK; 0; 1; 2; 4] /\
  nth 7 (run C05_example_ops) [] = [OK; 2; 3].
Proof. vm_compute. repeat split; reflexivity. Qed.
