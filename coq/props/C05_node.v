(* C05 (node level) - both conflicting transactions are reported unsafe, never safe afterwards.
   `run` is the model of the transaction pipeline (model/TxFlow.v) that the correspondence check
   executes against a real Node; `txflow_monitor` (model/TxFlowSpec.v) is the executable statement of
   the properties over the operations and the notifications handlers receive.  The theorem says the
   monitor never objects, with any of this property's codes, on ANY valid history (unbounded length:
   any transactions, sources, inventory announcements, blocks, delay-check placements, clock
   advances, restarts and in-sync changes):
   141 a new transaction conflicting with a held one is delivered without the unsafe flag
   142 a delivered unconfirmed transaction whose conflict just arrived gets no unsafe update
   144 a delivered unconfirmed transaction seen again (after a restart emptied the mempool) that now
       conflicts with a held one gets no unsafe update
   103 a notification says safe for a transaction already reported unsafe or cancelled *)
From V.lib Require Import Base.
From V.model Require Import MemPool TxFlow TxFlowSpec.
From V.proofs Require Import TxFlow_Proofs.

Theorem C05_node_txflow :
  forall (delay : Z) (ops : list op),
    flow_valid delay ops = true -> never_objects delay [103; 141; 142; 144] ops.
Proof. exact (txflow_never_objects_C05). Qed.
Print Assumptions C05_node_txflow.

(* Non-vacuity: a valid history with a three-way conflict, a safe report, a confirmation that
   cancels, a restart and a re-announcement; the model produces notifications and the monitor is
   satisfied. *)
Example C05_node_example_ops : list op :=
  [OSetInSync true; OInv 1 true; OTx 1 [1000] true SUntrusted; OTx 4 [1010] true STrusted;
   OAdvance 75000; ODelayCheck; OTx 2 [1000; 1001] true SUntrusted; OTx 3 [1001] false STrusted;
   OBlock 1 0 [(3, [1001], false)] true; ORestart; OSetInSync true; OTx 4 [1010] true SUntrusted;
   OBlock 2 1 [(4, [1010], true)] true; OGetTx 4; ODelayCheck].
Example C05_node_example :
  flow_valid 60000 C05_node_example_ops = true /\
  txflow_monitor 60000 C05_node_example_ops (run 60000 C05_node_example_ops) = None /\
  (3 <=? zlen (concat (run 60000 C05_node_example_ops))) = true.
Proof. vm_compute. repeat split; reflexivity. Qed.
