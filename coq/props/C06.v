(* C06 - A confirmed double spend cancels the losing unconfirmed transaction.
   `run` is the model of the transaction pipeline (model/TxFlow.v) that the correspondence check
   executes against a real Node; `txflow_monitor` (model/TxFlowSpec.v) is the executable statement of
   the properties over the operations and the notifications handlers receive.  The theorem says the
   monitor never objects, with any of this property's codes, on ANY valid history (unbounded length:
   any transactions, sources, inventory announcements, blocks, delay-check placements, clock
   advances, restarts and in-sync changes):
   151 an accepted block does not advance the chain / is not announced first
   152 a delivered unconfirmed transaction conflicting with a block transaction does not get exactly
       one update marked cancelled and unsafe (whether the confirming tx was seen before or not,
       relevant or not); it is evicted from double-spend tracking (the monitor's pool is the
       reference the eviction is checked against in later steps)
   154 a refused block (known, not next, bad merkle root) delivers something *)
From V.lib Require Import Base.
From V.model Require Import MemPool TxFlow TxFlowSpec.
From V.proofs Require Import TxFlow_Proofs.

Theorem C06_txflow :
  forall (delay : Z) (ops : list op),
    flow_valid delay ops = true -> never_objects delay [151; 152; 154] ops.
Proof. exact (txflow_never_objects_C06). Qed.
Print Assumptions C06_txflow.

(* Non-vacuity: a valid history with a three-way conflict, a safe report, a confirmation that
   cancels, a restart and a re-announcement; the model produces notifications and the monitor is
   satisfied. *)
Example C06_example_ops : list op :=
  [OSetInSync true; OInv 1 true; OTx 1 [1000] true SUntrusted; OTx 4 [1010] true STrusted;
   OAdvance 75000; ODelayCheck; OTx 2 [1000; 1001] true SUntrusted; OTx 3 [1001] false STrusted;
   OBlock 1 0 [(3, [1001], false)] true; ORestart; OSetInSync true; OTx 4 [1010] true SUntrusted;
   OBlock 2 1 [(4, [1010], true)] true; OGetTx 4; ODelayCheck].
Example C06_example :
  flow_valid 60000 C06_example_ops = true /\
  txflow_monitor 60000 C06_example_ops (run 60000 C06_example_ops) = None /\
  (3 <=? zlen (concat (run 60000 C06_example_ops))) = true.
Proof. vm_compute. repeat split; reflexivity. Qed.
