(* C07 - Safe is reported only when warranted, once, and never after unsafe.
   `run` is the model of the transaction pipeline (model/TxFlow.v) that the correspondence check
   executes against a real Node; `txflow_monitor` (model/TxFlowSpec.v) is the executable statement of
   the properties over the operations and the notifications handlers receive.  The theorem says the
   monitor never objects, with any of this property's codes, on ANY valid history (unbounded length:
   any transactions, sources, inventory announcements, blocks, delay-check placements, clock
   advances, restarts and in-sync changes):
   101 safe and unsafe both set        102 cancelled without unsafe
   103 safe after unsafe/cancelled      121 safe reported twice for an unconfirmed transaction
   122 safe although the trusted peer neither sent nor announced it (and it is not local)
   123 safe although a conflicting transaction is known
   124 safe before the configured delay has elapsed since first seen     125 safe for an untracked tx
   126 safe on arrival for a transaction that is not local
   127 the delay check sends a notification for a transaction whose merkle proof is for a block of the chain
       (a confirmed transaction is not reported again: "only once"; shows e.g. when a stale copy of the
       unconfirmed set comes back at a restart)
   128 after a restart the tracked set does not carry the first-seen times that were saved (the safe delay would be
       measured from another moment)
   161 a safe report while the node is not in sync
   162 the conditions hold (vouching still known to the node, no conflict, delay elapsed, in sync) and
       a delay-check step runs, but the transaction is not reported safe   (bounded-time half: the
       100 ms period of the checker is the runtime part) *)
From V.lib Require Import Base.
From V.model Require Import MemPool TxFlow TxFlowSpec.
From V.proofs Require Import TxFlow_Proofs.

Theorem C07_txflow :
  forall (delay : Z) (ops : list op),
    flow_valid delay ops = true ->
    never_objects delay [101; 102; 103; 121; 122; 123; 124; 125; 126; 127; 128; 161; 162] ops.
Proof. exact (txflow_never_objects_any [101; 102; 103; 121; 122; 123; 124; 125; 126; 127; 128; 161; 162]). Qed.
Print Assumptions C07_txflow.

(* Non-vacuity: a valid history with a three-way conflict, a safe report, a confirmation that
   cancels, a restart and a re-announcement; the model produces notifications and the monitor is
   satisfied. *)
Example C07_example_ops : list op :=
  [OSetInSync true; OInv 1 true; OTx 1 [1000] true SUntrusted; OTx 4 [1010] true STrusted;
   OAdvance 75000; ODelayCheck; OTx 2 [1000; 1001] true SUntrusted; OTx 3 [1001] false STrusted;
   OBlock 1 0 [(3, [1001], false)] true; ORestart; OSetInSync true; OTx 4 [1010] true SUntrusted;
   OBlock 2 1 [(4, [1010], true)] true; OGetTx 4; ODelayCheck].
Example C07_example :
  flow_valid 60000 C07_example_ops = true /\
  txflow_monitor 60000 C07_example_ops (run 60000 C07_example_ops) = None /\
  (3 <=? zlen (concat (run 60000 C07_example_ops))) = true.
Proof. vm_compute. repeat split; reflexivity. Qed.
