(* C08 - Subscription filter matches exactly subscribed push data and contract actions.
   `pushes`, `is_relevant`, `subscribe`, `unsubscribe` are the model (model/Script.v) executed against
   the real Node.IsRelevant / Subscribe* by the correspondence check.  H160 (RIPEMD160.SHA256) and
   the Tokenized action parser are universally quantified oracles. *)
From V.lib Require Import Base.
From V.model Require Import Script ScriptSpec.
From V.proofs Require Import Script_Proofs.

(* The push-data walk finds exactly the pushes of the well-formed item prefix of a script, whatever
   follows it (truncated tail, size past the end, garbage): pushes preceding a malformation count.
   For all item lists (every push form, any data length below the width limit, non-push opcodes)
   and all tails. *)
Theorem C08_parser_refines_grammar :
  forall (its : list item) (tail : bytes),
    Forall wf_item its ->
    exists more, pushes (encode_items its ++ tail) = pushes_of its ++ more.
Proof. exact parser_refines_grammar. Qed.
Print Assumptions C08_parser_refines_grammar.

(* ... and nothing else when the script is exactly a sequence of items *)
Theorem C08_parser_exact :
  forall its : list item, Forall wf_item its -> pushes (encode_items its) = pushes_of its.
Proof. exact parser_exact. Qed.
Print Assumptions C08_parser_exact.

(* a tail that is a truncated item (a strict prefix of an item's encoding, cut inside its size
   field or data) contributes nothing and never crashes the walk *)
Theorem C08_truncated_tail :
  forall (its : list item) (it : item) (n : nat),
    Forall wf_item its -> wf_item it -> item_push it <> None ->
    (0 < n < length (encode_item it))%nat ->
    pushes (encode_items its ++ take n (encode_item it)) = pushes_of its.
Proof. exact truncated_tail. Qed.
Print Assumptions C08_truncated_tail.

(* the filter: relevant iff some complete push of an output or input script equals a subscribed
   20-byte value or hashes to one, or contracts are subscribed and an output carries a
   contract-formation / instrument-creation action *)
Theorem C08_filter_iff :
  forall (H160 : bytes -> bytes) (cf : bytes -> bool) (s : fstate) (outs ins : list bytes),
    is_relevant H160 cf s outs ins = true <-> relevant_spec H160 cf s outs ins.
Proof. exact filter_iff. Qed.
Print Assumptions C08_filter_iff.

(* unsubscribing removes exactly what subscribing added (as a multiset), and relevance only depends
   on the multiset of subscriptions *)
Theorem C08_sub_unsub_inverse :
  forall (H160 : bytes -> bytes) (s : fstate) (ds : list bytes),
    subs (unsubscribe H160 (subscribe H160 s ds) ds) ≡ₚ subs s /\
    contracts (unsubscribe H160 (subscribe H160 s ds) ds) = contracts s.
Proof. exact sub_unsub_inverse. Qed.
Print Assumptions C08_sub_unsub_inverse.

Theorem C08_relevance_perm :
  forall (H160 : bytes -> bytes) (cf : bytes -> bool) (s s' : fstate) (outs ins : list bytes),
    subs s ≡ₚ subs s' -> contracts s = contracts s' ->
    is_relevant H160 cf s outs ins = is_relevant H160 cf s' outs ins.
Proof. exact relevance_perm. Qed.
Print Assumptions C08_relevance_perm.

(* a subscription given as raw data or as its 20-byte hash is the same subscription *)
Theorem C08_raw_eq_hash :
  forall (H160 : bytes -> bytes) (s : fstate) (d : bytes),
    length (H160 d) = 20%nat ->
    subscribe H160 s [d] = subscribe H160 s [push_key H160 d] /\
    unsubscribe H160 s [d] = unsubscribe H160 s [push_key H160 d].
Proof. exact raw_eq_hash. Qed.
Print Assumptions C08_raw_eq_hash.

(* The executable statement of the property over operations and observations (multiset of
   subscriptions, relevance by its meaning) never objects to the model, on every history whose
   subscribed data is known to the hash oracle table:
     851 IsRelevant does not say what the filter means    852 subscriptions are not the multiset sum / difference *)
Theorem C08_monitor_silent :
  forall (htbl : list (bytes * bytes)) (ctbl : list bytes) (ops : list op),
    keys20 htbl ops = true -> c08_monitor htbl ctbl ops (run htbl ctbl ops) = None.
Proof. exact c08_monitor_silent. Qed.
Print Assumptions C08_monitor_silent.

(* Non-vacuity *)
Example C08_example_items : list item :=
  [ItOp 118; ItOp 169; ItDirect [1; 2; 3]; ItPushData 2 [7; 7]; ItZero; ItNum 5; ItOp 172; ItPushData 4 []].
Example C08_example :
  pushes (encode_items C08_example_items ++ [77; 9]) = [[1; 2; 3]; [7; 7]; []; [5]; []].
Proof. vm_compute. reflexivity. Qed.
