(* C09 - Block store queries stay consistent across add, revert, save and reload.
   This file only states the property theorems and closes each with a lemma proved in
   proofs/BlockRepo_Proofs.v.  `run` is the model of internal/storage/blocks.go that the
   correspondence check executes against the real code; `spec_run` is the abstract list of headers. *)
From V.lib Require Import Base.
From V.model Require Import BlockRepo BlockRepoSpec.
From V.gen Require Import Consts.
From V.proofs Require Import BlockRepo_Proofs.

(* Every observation of every operation sequence (add, revert to any height, save, load = restart on
   the same storage, and all queries by height / by hash / for the tip / header ranges / stored
   files) equals the abstract-list answer, for every file size K > 0 and both storage back-end
   behaviours on removing a missing key.  Unbounded in the length of the sequence and of the chain. *)
Theorem C09_repo_refines :
  forall (K : Z) (rm_err : bool) (ops : list op),
    0 < K -> valid K ops = true -> run K rm_err ops = spec_run K ops.
Proof. exact repo_refines. Qed.
Print Assumptions C09_repo_refines.

(* ... in particular for the constant the code uses today (regenerated from blocks.go). *)
Theorem C09_repo_refines_blocksPerKey :
  forall (rm_err : bool) (ops : list op),
    valid blocksPerKey ops = true -> run blocksPerKey rm_err ops = spec_run blocksPerKey ops.
Proof. exact repo_refines_real. Qed.
Print Assumptions C09_repo_refines_blocksPerKey.

(* No query and no operation panics, whatever heights are asked for (beyond the tip, negative). *)
Theorem C09_queries_total :
  forall (K : Z) (rm_err : bool) (ops : list op),
    0 < K -> valid K ops = true -> Forall (fun o => o <> [PANIC]) (run K rm_err ops).
Proof. exact queries_total. Qed.
Print Assumptions C09_queries_total.

(* What the abstract specification says (so that the refinement means what the property says). *)

(* save followed by load reproduces the same chain *)
Theorem C09_save_load_id :
  forall (K : Z) (a : astate), chain a <> [] ->
    chain (fst (spec_step K (fst (spec_step K a OSave)) OLoad)) = chain a.
Proof. exact spec_save_load_id. Qed.
Print Assumptions C09_save_load_id.

(* a revert to a height of the chain succeeds and keeps exactly the first t+1 headers, whatever was
   saved before; any other revert fails and changes nothing *)
Theorem C09_revert_spec :
  forall (K : Z) (a : astate) (t : Z),
    (0 <= t <= tip_height (chain a) ->
       spec_step K a (ORevert t) = (AState (take (Z.to_nat (t + 1)) (chain a)) (t + 1), [OK])) /\
    (~ 0 <= t <= tip_height (chain a) -> spec_step K a (ORevert t) = (a, [ERR])).
Proof. exact spec_revert. Qed.
Print Assumptions C09_revert_spec.

(* the model's Revert rejects out-of-range targets before touching memory or storage *)
Theorem C09_revert_fail_unchanged :
  forall (K : Z) (rm_err : bool) (r : repo) (st : store) (t : Z),
    t > height r \/ t < 0 -> revert K rm_err r st t = (Err EGeneric, r, st).
Proof. exact revert_reject_unchanged. Qed.
Print Assumptions C09_revert_fail_unchanged.

(* a header-range request returns the requested number of consecutive headers from the requested
   height, truncated at the tip; below zero (other than -1 = most recent) it is empty *)
Theorem C09_getheaders_spec :
  forall (K : Z) (a : astate) (h maxc : Z), 0 <= h -> 0 <= maxc ->
    snd (spec_step K a (OGetHeaders h maxc)) =
      OK :: h :: Z.land h 4294967295 :: map hid (take (Z.to_nat maxc) (drop (Z.to_nat h) (chain a))).
Proof. exact spec_getheaders. Qed.
Print Assumptions C09_getheaders_spec.

(* Non-vacuity: a concrete valid history crossing a file boundary in both directions (K = 4),
   with an unsaved newest file at the time of the revert. *)
Example C09_example_ops : list op :=
  [OAddN 1 6; OHash 5; ORevert 2; OLastHash; OAddN 10 3; OSave; OLoad; OGetHeaders (-1) 3;
   ORevert 3; OFiles; OHash (-4); OAdd 20 12 77; OLoad; OLastHeight].
Example C09_example_valid : valid 4 C09_example_ops = true.
Proof. vm_compute. reflexivity. Qed.
Example C09_example_run :
  run 4 true C09_example_ops = spec_run 4 C09_example_ops /\
  nth 3 (run 4 true C09_example_ops) [] = [OK; 2].
Proof. vm_compute. split; reflexivity. Qed.
