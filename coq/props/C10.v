(* C10 - A crash at any storage write leaves a chain store the node can resume from
   (block-repository level; the node-level enumeration over the real mutation log of sync / reorg /
   shutdown histories is done on the implementation by the check itself, see gen/c10.py).
   `op_muts` lists the storage mutations each operation of the repository model issues in program
   order; `crash_images` is the store after every single one of them along a history. *)
From V.lib Require Import Base.
From V.model Require Import BlockRepo BlockRepoSpec BlockRepoCrash.
From V.gen Require Import Consts.
From V.proofs Require Import BlockRepo_Proofs BlockRepoCrash_Proofs.

(* the mutation lists are faithful: applying them to the store gives the store the operation leaves *)
Theorem C10_mutations_faithful :
  forall (K : Z) (rm_err : bool) (s : repo * store) (o : op),
    0 < K -> apply_muts (snd s) (op_muts K rm_err s o) = snd (fst (step K rm_err s o)).
Proof. exact mutations_faithful. Qed.
Print Assumptions C10_mutations_faithful.

(* Every crash image - after ANY single mutation of ANY operation (appends crossing file boundaries,
   reverts over any number of files with any saved/unsaved newest file, saves) of ANY valid history,
   for every file size K and both remove-missing back ends - loads without error, and what is loaded
   represents (refinement relation R of the C09 proof) a non-empty PREFIX of the chain the repository
   held just before or just after that operation: never a mixture of two chains, never a gap. *)
Theorem C10_crash_prefix_loadable :
  forall (K : Z) (rm_err : bool) (ops : list op),
    0 < K -> valid K ops = true ->
    Forall (fun img =>
              let '(st', before, after) := img in
              exists r' c n m,
                (c = before \/ c = after) /\
                load K st' = Ok r' /\ 1 <= n <= zlen c /\
                R K r' st' (AState (take (Z.to_nat n) c) m))
           (crash_images K rm_err init_state a_init ops).
Proof. exact crash_prefix_loadable. Qed.
Print Assumptions C10_crash_prefix_loadable.

Theorem C10_crash_prefix_loadable_blocksPerKey :
  forall (rm_err : bool) (ops : list op),
    valid blocksPerKey ops = true ->
    Forall (fun img =>
              let '(st', before, after) := img in
              exists r' c n m,
                (c = before \/ c = after) /\
                load blocksPerKey st' = Ok r' /\ 1 <= n <= zlen c /\
                R blocksPerKey r' st' (AState (take (Z.to_nat n) c) m))
           (crash_images blocksPerKey rm_err init_state a_init ops).
Proof. exact crash_prefix_loadable_real. Qed.
Print Assumptions C10_crash_prefix_loadable_blocksPerKey.

(* Non-vacuity: K = 3, a revert over two file boundaries with an unsaved newest file has four
   mutations (save, two removes, truncating rewrite), i.e. five images. *)
Example C10_example :
  let s := fst (step 3 true init_state (OAddN 1 7)) in
  length (op_muts 3 true s (ORevert 1)) = 4%nat.
Proof. vm_compute. reflexivity. Qed.
