(* C11 - Transaction tracking survives a clean restart.
   `run` is the model of the transaction pipeline (model/TxFlow.v) that the correspondence check
   executes against a real Node; `txflow_monitor` (model/TxFlowSpec.v) is the executable statement of
   the properties over the operations and the notifications handlers receive.  The theorem says the
   monitor never objects, with any of this property's codes, on ANY valid history (unbounded length:
   any transactions, sources, inventory announcements, blocks, delay-check placements, clock
   advances, restarts and in-sync changes):
   (ORestart = clean stop, new node on the same storage; it may be placed anywhere in the history)
   113 a delivered transaction is delivered again as new after the restart
   121 a transaction already reported safe is reported safe again
   127 the restarted node's delay check notifies about a transaction that is confirmed in the chain (a stale copy of
       the unconfirmed set came back: it is tracked again although its confirmation was delivered)
   128 the restarted node's tracked set does not carry the first-seen times that were saved
   153 its later confirmation is not an update carrying the proof
   171 the stored copy of a delivered transaction cannot be fetched back by txid
   122 / 124 / 126 the trusted flag / first-seen time did not survive: after the restart a transaction is reported
       safe although the trusted peer never vouched for it, or before its safe delay has elapsed since it was first seen
   101 / 102 / 103 / 123 the flags did not survive: after the restart a transaction is reported safe although it
       was reported unsafe / cancelled before, or although a conflicting transaction is known (safe and unsafe
       both set, cancelled without unsafe included) *)
From V.lib Require Import Base.
From V.model Require Import MemPool TxFlow TxFlowSpec.
From V.proofs Require Import TxFlow_Proofs.

Theorem C11_txflow :
  forall (delay : Z) (ops : list op),
    flow_valid delay ops = true -> never_objects delay [101; 102; 103; 113; 121; 122; 123; 124; 126; 127; 128; 153; 171] ops.
Proof. exact (txflow_never_objects_any [101; 102; 103; 113; 121; 122; 123; 124; 126; 127; 128; 153; 171]). Qed.
Print Assumptions C11_txflow.

(* Non-vacuity: a valid history with a three-way conflict, a safe report, a confirmation that
   cancels, a restart and a re-announcement; the model produces notifications and the monitor is
   satisfied. *)
Example C11_example_ops : list op :=
  [OSetInSync true; OInv 1 true; OTx 1 [1000] true SUntrusted; OTx 4 [1010] true STrusted;
   OAdvance 75000; ODelayCheck; OTx 2 [1000; 1001] true SUntrusted; OTx 3 [1001] false STrusted;
   OBlock 1 0 [(3, [1001], false)] true; ORestart; OSetInSync true; OTx 4 [1010] true SUntrusted;
   OBlock 2 1 [(4, [1010], true)] true; OGetTx 4; ODelayCheck].
Example C11_example :
  flow_valid 60000 C11_example_ops = true /\
  txflow_monitor 60000 C11_example_ops (run 60000 C11_example_ops) = None /\
  (3 <=? zlen (concat (run 60000 C11_example_ops))) = true.
Proof. vm_compute. repeat split; reflexivity. Qed.
