(* C12 - Untrusted peers cannot alter the chain, vouch for transactions or stall syncing.
   `step` / `run` is the synchronisation model (model/Sync.v) including the messages of an untrusted
   connection as they are routed by NewUntrustedMessageHandlers (after the fix: no block handler). *)
From V.lib Require Import Base.
From V.model Require Import Requests Sync SyncSpec MemPool TxFlow TxFlowSpec.
From V.proofs Require Import Untrusted_Proofs.
From V.proofs Require TxFlow_Proofs.

(* Non-interference: for every trusted history T interleaved arbitrarily with any untrusted messages
   (block messages - also for outstanding requests, with matching or forged bodies -, headers of any
   shape, tx, inv), the trusted steps observe exactly what they observe in T alone: the chain, the
   announcements, the request window, the sync flags and the outgoing requests.  In particular
   untrusted traffic cannot stall syncing. *)
Theorem C12_chain_noninterference :
  forall (MAXR LIM HT HDT BT DELTA : Z) (parents : list (Z * Z)) (start : Z) (ops : list Sync.op),
    trusted_part ops (Sync.run MAXR LIM HT HDT BT DELTA parents start ops) =
    Sync.run MAXR LIM HT HDT BT DELTA parents start (filter (fun o => is_untrusted_op o = false) ops).
Proof. exact chain_noninterference. Qed.
Print Assumptions C12_chain_noninterference.

(* Gating: an untrusted connection becomes verified only through a headers message that is a
   non-empty linked list whose first header is on the node's chain no more than DELTA + 1 below the tip. *)
Theorem C12_verified_only_by_linked_known_headers :
  forall (DELTA : Z) (s : sync) (hs : list hdr),
    fst (untrusted_headers DELTA s false hs) = true ->
    exists h rest ht, hs = h :: rest /\ height_of s (fst h) = Some ht /\
                      height s - DELTA - 1 <= ht /\ linked_from (fst h) rest = true.
Proof. exact verified_only_by_linked_known_headers. Qed.
Print Assumptions C12_verified_only_by_linked_known_headers.

(* ... and before that its tx / inv messages are dropped *)
Theorem C12_unverified_dropped :
  forall (MAXR LIM HT HDT BT DELTA : Z) (parent_of : Z -> Z) (w : world) (t : Z),
    w_uverified w = false ->
    fst (Sync.step MAXR LIM HT HDT BT DELTA parent_of w (OUTx t)) = w /\
    fst (Sync.step MAXR LIM HT HDT BT DELTA parent_of w (OUInv t)) = w /\
    last (snd (Sync.step MAXR LIM HT HDT BT DELTA parent_of w (OUTx t))) = Some 0.
Proof. exact unverified_dropped. Qed.
Print Assumptions C12_unverified_dropped.

(* No vouching: in the transaction pipeline a transaction that only untrusted peers sent or announced
   is never reported safe (monitor code 122), and the trusted peer's own traffic is never processed
   before the node is in sync (131); confirmations only come from ProcessBlock steps, which only the
   trusted request window feeds (C12_chain_noninterference). *)
Theorem C12_no_vouching :
  forall (delay : Z) (ops : list TxFlow.op),
    flow_valid delay ops = true -> never_objects delay [122; 131] ops.
Proof. exact no_vouching. Qed.
Print Assumptions C12_no_vouching.

(* ... also across reorganisations (model/TxFlow.v OReorg: the trusted headers handler reverts the chain): a
   transaction whose confirming block was orphaned and that an untrusted peer sends again is delivered as new
   once more but NOT safe (126: safe on arrival for a transaction that was not submitted locally - in particular
   not because of the safe state stored when the orphaned block confirmed it), and the delay check reports it
   safe only after the trusted peer announced or sent it (122) *)
Theorem C12_no_vouching_reorg :
  forall (delay : Z) (ops : list TxFlow.op),
    flow_valid delay ops = true -> never_objects delay [122; 126; 131] ops.
Proof. exact (TxFlow_Proofs.txflow_never_objects_any [122; 126; 131]). Qed.
Print Assumptions C12_no_vouching_reorg.

(* Non-vacuity: tx 1 confirmed by the trusted peer's block 1, block 1 orphaned by block 2 (which holds a double
   spend of tx 1), an untrusted peer sends tx 1: delivered as new, not safe; never reported safe afterwards *)
Example C12_reorg_example_ops : list TxFlow.op :=
  [OSetInSync true; OBlock 1 0 [(1, [1000], true)] true; OReorg 2 0 [(2, [1000; 1001], true)] true;
   OSetInSync true; OTx 1 [1000] true SUntrusted; OAdvance 75000; ODelayCheck; OUnconf].
Example C12_reorg_example :
  flow_valid 60000 C12_reorg_example_ops = true /\
  txflow_monitor 60000 C12_reorg_example_ops (TxFlow.run 60000 C12_reorg_example_ops) = None /\
  nth 4 (TxFlow.run 60000 C12_reorg_example_ops) [] = [0; 1; 1; 0; 0; 0; 0; 1; 1; 1000] /\
  nth 6 (TxFlow.run 60000 C12_reorg_example_ops) [] = [0] /\
  nth 7 (TxFlow.run 60000 C12_reorg_example_ops) [] = [0; 1; 0; 0; 0].
Proof. vm_compute. repeat split; reflexivity. Qed.

(* gating, as an executable statement over operations and observations: the monitor judges by itself
   (from the chain in the digest) whether a headers message verifies the connection and objects when an
   inv / tx of an unverified connection is processed (302) or the verified flag is not what the rule says (303);
   it never objects to the model, on any history *)
Theorem C12_gate_monitor_silent :
  forall (MAXR LIM HT HDT BT DELTA : Z) (parents : list (Z * Z)) (start : Z) (ops : list Sync.op),
    c12_gate_monitor DELTA ops (Sync.run MAXR LIM HT HDT BT DELTA parents start ops) = None.
Proof. exact c12_gate_silent. Qed.
Print Assumptions C12_gate_monitor_silent.
