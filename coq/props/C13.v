(* C13 - Blocks are fetched in order within a bounded window and processed in order.
   `run` is the model of internal/state/requests.go executed against the real code by the
   correspondence check; `q_run` / `q_step` is the reference queue (model/RequestsSpec.v). *)
From V.lib Require Import Base.
From V.model Require Import Requests RequestsSpec.
From V.gen Require Import Consts.
From V.proofs Require Import Requests_Proofs.

(* The implementation model behaves exactly like the reference queue on EVERY operation sequence
   (announce, deliver any hash/size - requested or not, duplicated -, pop, next request, clear all,
   clear after, set last hash, reset, queries), for all window sizes and byte limits.  The third
   digest component is the buffered-byte accounting: the model's incremental counter equals the sum
   of the sizes of the bodies actually buffered. *)
Theorem C13_refines_reference_queue :
  forall (MAXR LIM : Z) (ops : list op), run MAXR LIM ops = q_run MAXR LIM ops.
Proof. exact requests_refine. Qed.
Print Assumptions C13_refines_reference_queue.

Theorem C13_refines_reference_queue_consts :
  forall ops : list op,
    run maxRequestedBlocks maxPendingBlockSize ops = q_run maxRequestedBlocks maxPendingBlockSize ops.
Proof. exact (requests_refine maxRequestedBlocks maxPendingBlockSize). Qed.
Print Assumptions C13_refines_reference_queue_consts.

(* never more than MAXR requested-but-unprocessed blocks *)
Theorem C13_window_bound :
  forall (MAXR LIM : Z) (ops : list op), 0 <= MAXR ->
    let q := q_after MAXR LIM ops in
    Z.of_nat (nreq q) <= MAXR /\ (nreq q <= length (queue q))%nat.
Proof. exact window_bound. Qed.
Print Assumptions C13_window_bound.

Theorem C13_window_is_ten : maxRequestedBlocks = 10.
Proof. exact window_is_ten. Qed.
Print Assumptions C13_window_is_ten.

(* the buffered-byte count returns to zero whenever no block is buffered, and only requested
   entries ever hold a body *)
Theorem C13_accounting :
  forall (MAXR LIM : Z) (ops : list op),
    let q := q_after MAXR LIM ops in
    Forall (fun x => snd x = None) (waiting_part q) /\
    (Forall (fun x => snd x = None) (requested_part q) -> buffered q = 0).
Proof. exact accounting. Qed.
Print Assumptions C13_accounting.

(* requests are paused while the window is full or the buffered bytes exceed the limit *)
Theorem C13_pause :
  forall (MAXR LIM : Z) (q : qstate) (prev h : Z),
    (Z.of_nat (nreq q) >= MAXR \/ buffered q > LIM) ->
    nreq (fst (q_step MAXR LIM q ONext)) = nreq q /\
    nreq (fst (q_step MAXR LIM q (OAnnounce prev h))) = nreq q.
Proof. exact pause. Qed.
Print Assumptions C13_pause.

(* blocks that were not requested are ignored *)
Theorem C13_unrequested_ignored :
  forall (MAXR LIM : Z) (q : qstate) (h size : Z),
    ~ In h (map fst (requested_part q)) ->
    fst (q_step MAXR LIM q (ODeliver h size)) = q /\
    exists d, snd (q_step MAXR LIM q (ODeliver h size)) = OK :: 0 :: d.
Proof. exact unrequested_ignored. Qed.
Print Assumptions C13_unrequested_ignored.

(* blocks are processed strictly in request order whatever their arrival order: the sequence of
   popped hashes is a subsequence of the sequence of issued requests (a prefix of it when no branch
   was abandoned, i.e. without clear / reset), and a pop only ever takes the head of the window *)
Theorem C13_fifo :
  forall (MAXR LIM : Z) (ops : list op),
    let tr := q_run MAXR LIM ops in
    sublist (collect popped_of ops tr) (collect issued_of ops tr) /\
    (Forall (fun o => match o with OClearAll | OClearAfter _ | OReset => False | _ => True end) ops ->
     prefix (collect popped_of ops tr) (collect issued_of ops tr)).
Proof. exact fifo. Qed.
Print Assumptions C13_fifo.

(* announcements drawn from a block tree (rank strictly increasing from parent to child): the window
   never holds a block twice, so no block is requested again unless its branch was abandoned;
   requests are issued in chain order (strictly increasing rank along the queue) *)
Theorem C13_no_duplicates_chain_order :
  forall (MAXR LIM : Z) (rk : Z -> Z) (ops : list op),
    announces_ranked rk ops ->
    let q := q_after MAXR LIM ops in
    NoDup (map fst (queue q)) /\
    StronglySorted (fun a b => rk a < rk b) (map fst (queue q)).
Proof. exact no_duplicates_chain_order. Qed.
Print Assumptions C13_no_duplicates_chain_order.

(* when a fork appears among not-yet-processed blocks, everything beyond the fork point is discarded *)
Theorem C13_clear_after_spec :
  forall (MAXR LIM : Z) (q : qstate) (h : Z) (i : nat),
    find_idx (fun x => fst x =? h) (queue q) 0 = Some i ->
    let q1 := fst (q_step MAXR LIM q (OClearAfter h)) in
    queue q1 = take (S i) (queue q) /\ nreq q1 = Nat.min (nreq q) (S i).
Proof. exact clear_after_spec. Qed.
Print Assumptions C13_clear_after_spec.

(* Non-vacuity: a history on a forked tree with out-of-order and duplicate deliveries. *)
Example C13_example_ops : list op :=
  [OAnnounce 0 1; OAnnounce 1 2; OAnnounce 2 3; ODeliver 2 20; ODeliver 2 25; ODeliver 9 5; OPop;
   ODeliver 1 10; OPop; OClearAfter 2; OAnnounce 2 4; OPop; ONext; OLastHash].
Example C13_example_run :
  run 2 100 C13_example_ops = q_run 2 100 C13_example_ops /\
  nth 7 (run 2 100 C13_example_ops) [] = [OK; 1; 2; 1; 35].
Proof. vm_compute. split; reflexivity. Qed.
