(* C14 - Announced transactions are requested from one peer at a time, then re-requested.
   `run` is the model (model/Tracker.v over model/MemPool.v) of the inv handlers, the per-connection
   TxTracker and its periodic check, executed against the real Node + UntrustedNode objects by the
   correspondence check; `c14_monitor` is the executable statement of the property over the
   operations and the getdata(tx) requests observed.  Interleavings of any number of connection
   goroutines are sequences of these atomic steps (each step runs under the mempool / tracker mutex). *)
From V.lib Require Import Base.
From V.model Require Import MemPool Tracker.
From V.proofs Require Import Tracker_Proofs.

(* On EVERY valid history (any interleaving of announcements of overlapping txid sets from the trusted
   and any untrusted connections, tracker checks, body arrivals, confirmations, clock advances) the
   monitor never objects:
     401 a getdata for a transaction whose body is held
     402 a second getdata for the same txid, to any peer, within the three-second window
     403 an announced transaction that is not held and has no active request is not requested
     405 a connection that tracks an announced transaction whose window expired without a body does
         not request it at its next check
     406 a connection still tracks a transaction confirmed in a processed block
     407 a tracker check asks for a transaction confirmed in a processed block (and not announced again since) *)
Theorem C14_monitor_passes :
  forall (nconn : nat) (ops : list op),
    c14_valid nconn ops = true -> c14_monitor ops (run nconn ops) = None.
Proof. exact c14_monitor_passes. Qed.
Print Assumptions C14_monitor_passes.

(* the window is the code's three seconds *)
Theorem C14_window : REQ_WINDOW = 3000.
Proof. reflexivity. Qed.
Print Assumptions C14_window.

(* Non-vacuity: three connections, a peer that does not deliver, re-request by another announcer,
   arrival, a late announcement (not requested), confirmation. *)
Example C14_example_ops : list op :=
  [OInv 1 7; OInv 0 7; OInv 2 7; OAdvance 1100; OCheck 0; OAdvance 2500; OCheck 2; OCheck 0; OTracked 0;
   OBody 7 [9070] false; OInv 1 7; OAdvance 5000; OCheck 0; OConfirm [7]; OTracked 0; OTracked 2].
Example C14_example :
  c14_valid 3 C14_example_ops = true /\
  c14_monitor C14_example_ops (run 3 C14_example_ops) = None /\
  nth 6 (run 3 C14_example_ops) [] = [OK; 7] /\ nth 7 (run 3 C14_example_ops) [] = [OK].
Proof. vm_compute. repeat split; reflexivity. Qed.
