(* C15 - Client wire messages round-trip exactly and preserve stream framing.
   Formats: gen/CodecGen.v (regenerated from pkg/client/messages.go + models.go on every run: w_T is read
   off T.Serialize, r_T off T.Deserialize), interpreters: model/CodecDSL.v, meta-theorems:
   proofs/Codec_Proofs.v, reflection obligations: proofs/Codec_Inst.v.
   odec / ochk are the decoders of the pinned dependency that are not modelled byte-exactly
   (bitcoin.PublicKey, bitcoin.Signature, merkle_proof.MerkleProof; BSOR content of ExpandedTx /
   AncestorTxs); what is assumed about them is written out as premises (no axioms).
   D ranges over the two descriptions of the dependency's transaction decoder (real_deps / ideal_deps:
   same wire format, different allocation behaviour). *)
From Coq Require Import ZArith String List Bool.
From V.model Require Import CodecDSL.
From V.proofs Require Import Codec_Proofs Codec_Inst.
From V.gen Require Import CodecGen TypeTables.
Import ListNotations.
Open Scope Z_scope.

(* every Serialize/Deserialize pair (37 payloads, TxState, MerkleProof, FeeQuote, Fee; the stored
   client.Tx record is the "Tx" entry) describes the same wire format: same fields, order, widths, casts *)
Theorem C15_all_pairs_symmetric :
  forallb sym_ok (all_types real_deps) = true /\ message_framing_ok = true.
Proof. exact (conj all_symmetric_real message_framing). Qed.
Print Assumptions C15_all_pairs_symmetric.

(* meta-theorem: serialise then deserialise yields the same value and consumes exactly the bytes written *)
Theorem C15_roundtrip_meta :
  forall (odec : string -> bytes -> ores) (ochk : string -> bytes -> Z),
  (forall name b rest, odec name b = OOk (length b) -> odec name (b ++ rest) = OOk (length b)) ->
  (forall name b p q, odec name b = OOk (length b) -> p ++ q = b -> q <> [] -> odec name p = OErr) ->
  forall f, fmt_ok f = true -> forall env v rest, wf odec ochk f env v = true ->
  exists a, decode odec ochk f env (encode f v ++ rest) = DOk v rest a.
Proof. exact roundtrip. Qed.
Print Assumptions C15_roundtrip_meta.

(* instantiated: bytes written by T.Serialize (w), read by T.Deserialize (r), for every type *)
Theorem C15_sym_roundtrip :
  forall (odec : string -> bytes -> ores) (ochk : string -> bytes -> Z),
  (forall name b rest, odec name b = OOk (length b) -> odec name (b ++ rest) = OOk (length b)) ->
  (forall name b p q, odec name b = OOk (length b) -> p ++ q = b -> q <> [] -> odec name p = OErr) ->
  forall D, is_deps D -> forall n w r, In (n, w, r) (all_types D) ->
  forall v rest, wf odec ochk r [] v = true ->
  exists a, decode odec ochk r [] (encode w v ++ rest) = DOk v rest a.
Proof. exact all_types_roundtrip. Qed.
Print Assumptions C15_sym_roundtrip.

(* every strict prefix of a valid encoding is an error: never a value, never a panic *)
Theorem C15_prefix_fails :
  forall (odec : string -> bytes -> ores) (ochk : string -> bytes -> Z),
  (forall name b rest, odec name b = OOk (length b) -> odec name (b ++ rest) = OOk (length b)) ->
  (forall name b p q, odec name b = OOk (length b) -> p ++ q = b -> q <> [] -> odec name p = OErr) ->
  forall D, is_deps D -> forall n w r, In (n, w, r) (all_types D) ->
  forall v p q, wf odec ochk r [] v = true -> p ++ q = encode w v -> q <> [] ->
  exists a, decode odec ochk r [] p = DErr a.
Proof. exact all_types_prefix_fails. Qed.
Print Assumptions C15_prefix_fails.

(* any concatenation of messages written by Message.Serialize decodes, by iterating Message.Deserialize
   over the one stream, to the same sequence of messages (the stream is consumed exactly) *)
Theorem C15_concat_decodes :
  forall (odec : string -> bytes -> ores) (ochk : string -> bytes -> Z),
  (forall name b rest, odec name b = OOk (length b) -> odec name (b ++ rest) = OOk (length b)) ->
  (forall name b p q, odec name b = OOk (length b) -> p ++ q = b -> q <> [] -> odec name p = OErr) ->
  forall D, is_deps D -> forall ms,
  forallb (wf_msg odec ochk (msg_table D)) ms = true ->
  let bs := flat_map (encode_msg (msg_wtable D)) ms in
  decode_stream odec ochk (msg_table D) (length bs) bs = Some ms.
Proof. exact stream_roundtrip. Qed.
Print Assumptions C15_concat_decodes.

Theorem C15_message_prefix_fails :
  forall (odec : string -> bytes -> ores) (ochk : string -> bytes -> Z),
  (forall name b rest, odec name b = OOk (length b) -> odec name (b ++ rest) = OOk (length b)) ->
  (forall name b p q, odec name b = OOk (length b) -> p ++ q = b -> q <> [] -> odec name p = OErr) ->
  forall D, is_deps D -> forall m p q,
  wf_msg odec ochk (msg_table D) m = true -> p ++ q = encode_msg (msg_wtable D) m -> q <> [] ->
  exists a, decode_msg odec ochk (msg_table D) p = MErr a.
Proof. exact message_prefix_fails. Qed.
Print Assumptions C15_message_prefix_fails.

(* type codes, payload constructors and names map one-to-one; PayloadForType(t).Type() = t; 37 types,
   each with a generated reader *)
Theorem C15_type_tables_bijective :
  NoDup codes /\ NoDup (map fst payload_for_type) /\ NoDup (map snd payload_for_type) /\
  NoDup (map fst type_names) /\ NoDup (map snd type_names) /\
  incl codes (map fst payload_for_type) /\ incl (map fst payload_for_type) codes /\
  incl codes (map fst type_names) /\ incl (map fst type_names) codes /\
  (forall c n, In (c, n) payload_for_type -> In (n, c) type_of_payload) /\
  length payload_for_type = length (msg_table real_deps) /\
  length codes = 37%nat.
Proof. exact type_tables_bijective. Qed.
Print Assumptions C15_type_tables_bijective.

(* Non-vacuity.  An oracle that satisfies the premises (every opaque blob is exactly 3 bytes long),
   a well-formed stored Tx record with one input, one spent output and a merkle proof, and its round
   trip evaluated. *)
Example ex_odec : string -> bytes -> ores := fun _ bs => if (length bs <? 3)%nat then OErr else OOk 3.
Example ex_ochk : string -> bytes -> Z := fun _ _ => 0.

Example ex_tx : value :=
  VStruct [("ID"%string, VInt 253);
           ("Tx"%string, VStruct [("Version"%string, VInt (-1));
                          ("TxIn"%string, VList [VStruct [("PreviousOutPoint"%string,
                                                   VStruct [("Hash"%string, VBytes (repeat 7 32)); ("Index"%string, VInt 4294967295)]);
                                                  ("UnlockingScript"%string, VBytes [1; 2; 3]);
                                                  ("Sequence"%string, VInt 0)]]);
                          ("TxOut"%string, VList []);
                          ("LockTime"%string, VInt 65536)]);
           ("Outputs"%string, VList [VStruct [("Value"%string, VInt 18446744073709551615); ("LockingScript"%string, VBytes [])]]);
           ("State"%string, VStruct [("Safe"%string, VBool true); ("UnSafe"%string, VBool false); ("Cancelled"%string, VBool false);
                             ("UnconfirmedDepth"%string, VInt 0);
                             ("MerkleProof"%string, VOpt (Some (VStruct [("Index"%string, VInt 4294967296);
                                                                 ("Path"%string, VList [VBytes (repeat 9 32)]);
                                                                 ("BlockHeader"%string, VBytes (repeat 1 80));
                                                                 ("DuplicatedIndexes"%string, VList [VInt 252; VInt 65535])])))])].

Example C15_example_tx_roundtrip :
  match find_type "Tx" (all_types real_deps) with
  | Some (w, r) =>
      wf ex_odec ex_ochk r [] ex_tx = true /\
      (exists a, decode ex_odec ex_ochk r [] (encode w ex_tx ++ [42]) = DOk ex_tx [42] a) /\
      length (encode w ex_tx) = 201%nat
  | None => False
  end.
Proof. vm_compute. split; [reflexivity|split; [eexists; reflexivity|reflexivity]]. Qed.

(* a value that violates |Outputs| = |Tx.TxIn| is not representable: not well-formed *)
Example C15_example_outputs_must_match_inputs :
  match find_type "Tx" (all_types real_deps) with
  | Some (_, r) =>
      wf ex_odec ex_ochk r []
         (match ex_tx with
          | VStruct (i :: t :: _ :: s) => VStruct (i :: t :: ("Outputs"%string, VList []) :: s)
          | v => v end) = false
  | None => False
  end.
Proof. vm_compute. reflexivity. Qed.
