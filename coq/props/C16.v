(* C16 - Remote client calls return the response to their own request.
   `run` (model/Client.v) models runRequests / handleRequestResponse, what every public call
   registers and returns, the request time-out and GetOutputs; the correspondence check executes
   it against the real client (real runRequests goroutine, real public calls).  `answers`
   (model/ClientSpec.v) states, independently of the routing code, which request a server message
   answers; `c16_monitor` is the executable statement of the property over operations and observations. *)
From V.lib Require Import Base.
From V.gen Require Import RouterGen.
From V.model Require Import Client ClientSpec RouterDSL.
From V.proofs Require Import Client_Proofs Client16_Proofs Router_Proofs.

(* On EVERY history (any number of concurrent calls of mixed kinds, any order / duplication of server
   responses, unsolicited and late responses, rejects, time-outs, outputs lookups) the monitor never objects:
     601 a response was delivered to a request it does not answer, or not to the oldest request it answers
     602 the pending list after the step is not the outstanding requests minus the one answered
     603 a call returned something else than the response that answers it (value, reject code)
     604 a call that got no response did not fail with a time-out, or disturbed other pending calls
     605 the outputs lookup did not return, per outpoint and in order, that outpoint's value (or an error)
     606 a call reported a result although nothing answered it
     607 a response reached a request on a connection that is not accepted
     609 a call's message was written before its request was registered *)
Theorem C16_monitor_silent : forall (full : bool) (qcap : Z) (ops : list op),
  c16_monitor ops (run full qcap ops) = None.
Proof. exact c16_monitor_silent. Qed.
Print Assumptions C16_monitor_silent.

(* the routing code serves exactly the first outstanding request the message answers *)
Theorem C16_routes_to_answered : forall (m : smsg) (l : list pend),
  route m l = let '(r, l') := take_first (fun p => answers m (p_kind p) (p_key p)) l in
              (r, l', match m, r with MHeaders _ _, None => true | _, _ => false end).
Proof. exact route_answers. Qed.
Print Assumptions C16_routes_to_answered.

(* ... and that routing code is the code of the repository: gen/RouterGen.v is handleRequestResponse
   (pkg/client/remote_client.go) translated statement by statement on every run (translator/router.go)
   into the routing language of model/RouterDSL.v; for every message and every pending list it
   computes what `route` computes, hence serves the first outstanding request the message answers *)
Theorem C16_source_router_is_route : forall (m : smsg) (l : list pend),
  exec_router router_shape_ok router_clauses router_tail m l = route m l.
Proof. exact router_agrees. Qed.
Print Assumptions C16_source_router_is_route.

Theorem C16_source_router_answers : forall (m : smsg) (l : list pend),
  exec_router router_shape_ok router_clauses router_tail m l =
    let '(r, l') := take_first (fun p => answers m (p_kind p) (p_key p)) l in
    (r, l', match m, r with MHeaders _ _, None => true | _, _ => false end).
Proof. exact router_answers. Qed.
Print Assumptions C16_source_router_answers.

(* with distinct keys (fee quote requests have none: at most one outstanding) a message answers at
   most one outstanding request, so "the first" is "the" request: never another call's *)
Theorem C16_never_others : forall m l x y i j,
  distinct_keys l -> (forall z, z ∈ l -> l_kind z = 7 -> l_key z = 0) ->
  l !! i = Some x -> l !! j = Some y ->
  answers m (l_kind x) (l_key x) = true -> answers m (l_kind y) (l_key y) = true -> i = j.
Proof. exact answers_unique. Qed.
Print Assumptions C16_never_others.

(* a call returns what the answering message means (the transaction, the headers, the reject code) *)
Theorem C16_result_is_the_answer : forall m kind key,
  answers m kind key = true -> call_result kind m = expected_result kind m.
Proof. exact call_result_expected. Qed.
Print Assumptions C16_result_is_the_answer.

(* GetOutputs: per requested outpoint and in order its value, for repeated txids in any position; an
   error when a transaction is unknown or an index out of range; never a partial result *)
Theorem C16_get_outputs : forall ops known,
  let '(_, r, _) := get_outputs (S (length ops)) ops (map (fun _ => None) ops) known 0 in
  match outputs_spec ops known with
  | Some vs => exists ws, r = Some ws /\ zip_out ops ws = vs
  | None => r = None
  end.
Proof. exact get_outputs_correct. Qed.
Print Assumptions C16_get_outputs.

Example C16_example_ops : list op :=
  [OSession; OAccept (AMsg (KDerived 7 1) 0 0 0 (Sig (KDerived 7 1) (AContent (KDerived 7 1) 0 0 0 1))); OReady 1;
   OCall 4 1 false; OCall 4 2 false; OCall 5 10 false; OCall 6 101 true; OAwait 3; OCall 7 0 false;
   OMsg (MBaseTx 2); OMsg (MBaseTx 3); OMsg (MHeader 101); OMsg (MReject 7 (-1) 4); OMsg (MHeaders 10 2);
   OMsg (MReject 4 1 9); OAwait 0; OAwait 1; OAwait 2; OAwait 4;
   OOutputs [(1, 0); (1, 2); (2, 1); (1, 1)] [1; 2]; OOutputs [(1, 0); (1, 5)] [1]].
Example C16_example :
  c16_valid C16_example_ops = true /\
  c16_monitor C16_example_ops (run true 100 C16_example_ops) = None /\
  nth 15 (run true 100 C16_example_ops) [] = [OK; 6; 9] /\
  nth 16 (run true 100 C16_example_ops) [] = [OK; 0; 2] /\
  nth 19 (run true 100 C16_example_ops) [] = [OK; 2; 4; 1; 0; 10; 1; 2; 12; 2; 1; 21; 1; 1; 11].
Proof. vm_compute. repeat split; reflexivity. Qed.
