From V.lib Require Import Base.
From V.model Require Import Client ClientSpec.
