(* C17 - The remote client delivers tx notifications in message-id order exactly once.
   `run` (model/Client.v) is the model of RemoteClient.handleMessage / addHandlerMessage /
   processHandler / Ready that the correspondence check executes against the real client;
   `c17_monitor` (model/ClientSpec.v) is the executable statement of the property over the server's
   messages, the handler dequeues and the observations (reported next id, handler queue length,
   what the handlers receive). *)
From V.lib Require Import Base.
From V.model Require Import Client ClientSpec.
From V.proofs Require Import Client_Proofs.

(* On EVERY history (any server stream with expected, duplicated, skipped, old, out-of-order ids, any
   placement of handler dequeues, reconnects, ready declarations, any handler-queue capacity, with
   the queue full for longer than the message time-out whenever it is full) the monitor never objects:
     701 a tx / update whose id is not the expected one was queued for the handlers
     702 the reported next message id is not (last queued id + 1) / the value declared ready
     703 handlers receive something else than the oldest queued message (order, loss, duplication)
     704 a tx / update with the expected id, on an accepted connection with room in the queue, was not queued
     705 the handler queue changed in a way no single message explains
     706 data was queued for the handlers on a connection that has not been accepted *)
Theorem C17_monitor_silent : forall (full : bool) (qcap : Z) (ops : list op),
  c17_monitor qcap ops (run full qcap ops) = None.
Proof. exact c17_monitor_silent. Qed.
Print Assumptions C17_monitor_silent.

(* a message whose id is not the next expected one changes nothing (it is not delivered) *)
Theorem C17_gate : forall s id k, id <> c_next s ->
  fst (step s (OMsg (MTx id k))) = s /\ fst (step s (OMsg (MUpdate id k))) = s.
Proof. exact gate_holds. Qed.
Print Assumptions C17_gate.

(* If the application always declares ready with the reported next id (also across reconnects), then
   whatever the server sends and wherever the connection drops, the ids of the notifications the
   handlers have received so far followed by the ones still queued for them are exactly
   1, 2, ..., next-1 : nothing missed, nothing repeated, and next = last id + 1. *)
Theorem C17_resume_exact : forall (full : bool) (qcap : Z) (ops : list op),
  all_ready_exact (cl_init full qcap) ops ->
  let s := final (cl_init full qcap) ops in
  is_run 1 (c_next s) (delivered_from (cl_init full qcap) ops ++ qids (c_queue s)).
Proof. exact c17_resume_exact. Qed.
Print Assumptions C17_resume_exact.

(* Non-vacuity: a stream with a duplicate, a gap, a full queue, a reconnect resuming exactly. *)
Example C17_example_ops : list op :=
  [OSession; OAccept (AMsg (KDerived 7 1) 0 0 0 (Sig (KDerived 7 1) (AContent (KDerived 7 1) 0 0 0 1))); OReady 0;
   OMsg (MTx 1 1); OMsg (MTx 1 1); OMsg (MUpdate 3 1); OMsg (MUpdate 2 1); OMsg (MTx 3 2); ODeq; ODeq; ODeq;
   OMsg (MTx 3 2); OSession;
   OAccept (AMsg (KDerived 7 2) 0 0 0 (Sig (KDerived 7 2) (AContent (KDerived 7 2) 0 0 0 2))); OReady 4;
   OMsg (MTx 3 2); OMsg (MTx 4 3); ODeq; ODeq; ODeq; ODeq].
Example C17_example :
  all_ready_exact (cl_init true 3) C17_example_ops /\
  delivered_from (cl_init true 3) C17_example_ops = [1; 2; 3; 4] /\
  c_next (final (cl_init true 3) C17_example_ops) = 5 /\
  c17_monitor 3 C17_example_ops (run true 3 C17_example_ops) = None.
Proof. vm_compute. repeat split; intros; reflexivity. Qed.
