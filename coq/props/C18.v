(* C18 - The remote client authenticates the server and gates traffic on the handshake (message
   handling part; the send machine is in the second half of this file).
   Cryptography is symbolic: keys are root keys or keys derived from a root key and a session
   hash, a signature records signer and signed content, verification is equality (ECDSA
   unforgeability and the key derivation are idealised - part of the trusted base). *)
From V.lib Require Import Base.
From V.model Require Import Client ClientSpec SendMachine SendAuth.
From V.proofs Require Import Client_Proofs SendMachine_Proofs SendAuth_Proofs.
From V.gen Require SendSites.
From Coq Require Import String.

(* the connection becomes accepted iff it already was, or the accept message is genuine: it carries
   the key derived from the configured server key and THIS connection's hash, and the signature is
   by that key over (key, counts, this hash) *)
Theorem C18_accept_iff : forall s a,
  c_acc (fst (step s (OAccept a))) = c_acc s || genuine a (c_sess s).
Proof. exact accept_iff. Qed.
Print Assumptions C18_accept_iff.

(* any other accept message changes nothing and fails with wrong-key / bad-signature (which ends Run) *)
Theorem C18_forged_accept_fails : forall s a,
  genuine a (c_sess s) = false ->
  fst (step s (OAccept a)) = s /\ (hd 0 (snd (step s (OAccept a))) = 1 \/ hd 0 (snd (step s (OAccept a))) = 2).
Proof. exact forged_accept_fails. Qed.
Print Assumptions C18_forged_accept_fails.

(* before the connection is accepted no server message reaches handlers, pending requests or the message id *)
Theorem C18_no_data_before_accept : forall s m, c_acc s = false -> fst (step s (OMsg m)) = s.
Proof. exact no_data_before_accept. Qed.
Print Assumptions C18_no_data_before_accept.

(* On EVERY history the monitor never objects:
     801 a connection became accepted without a genuine accept message (or a genuine one was refused)
     802 a forged accept message did not fail the connection with the right error
     803 data reached the handlers / pending requests / the message id before the connection was accepted
     804 the handshake was marked complete although neither ready was declared on this connection nor
         (control connections) the server was accepted
     805 Ready reported success although no ready message carrying the declared next message id was
         written to the connection *)
Theorem C18_monitor_silent : forall (full : bool) (qcap : Z) (ops : list op),
  c18_monitor full ops (run full qcap ops) = None.
Proof. exact c18_monitor_silent. Qed.
Print Assumptions C18_monitor_silent.

(* ---- the send machine (model/SendMachine.v): sendMessage, sendMessages, the teardown of
   runConnection, the message carried by maintainConnection ---- *)
(* In every reachable state of every interleaving: every non-handshake message written to a
   connection was written after that connection's handshake was marked complete; and a request is
   acknowledged as sent only if it was written. *)
Theorem C18_gated : forall (acts : list act),
  let w := sm_run acts in
  forall c m, In (c, m) (sm_written w) -> sm_is_handshake m = false -> In c (sm_completed w).
Proof. exact sm_gated. Qed.
Print Assumptions C18_gated.

(* the same with "completed" taken at the moment of each write *)
Theorem C18_gated_at_write : forall (acts : list act),
  let w := sm_run acts in
  Forall2 (fun e b => sm_is_handshake (snd e) = false -> b = true) (sm_written w) (sm_wdone w).
Proof. exact sm_gated_at_write. Qed.
Print Assumptions C18_gated_at_write.

Theorem C18_sent_means_written : forall (acts : list act),
  let w := sm_run acts in
  forall r, In r (sm_acked w) -> exists c, In (c, sm_req_msg r) (sm_written w).
Proof. exact sm_sent_means_written. Qed.
Print Assumptions C18_sent_means_written.

(* non-vacuity of the send machine: a request queued before the handshake is written only after it,
   a request that could not be written is carried over a connection that never completes its
   handshake (and is not written there) and goes out on the next completed one *)
Example C18_sm_example :
  srun [SSend (Req 2 false); SConnect; SSend (Req 3 true); SSend (Req 4 false); SWrites; SComplete; SWrites; SBreak;
        SSend (Req 8 false); SDrop; SConnect; SDrop; SWrites; SConnect; SComplete; SWrites]
  = [[0; 0]; [0]; [0; 1]; [0; 0]; [0; 1; 3; 0]; [0]; [0; 1; 3; 0; 1; 2; 1; 1; 4; 1]; [0]; [0; 0]; [0]; [0]; [0];
     [0; 1; 3; 0; 1; 2; 1; 1; 4; 1]; [0]; [0]; [0; 1; 3; 0; 1; 2; 1; 1; 4; 1; 3; 8; 1]].
Proof. vm_compute. reflexivity. Qed.

Example C18_example_ops : list op :=
  [OSession; OMsg (MTx 1 1);
   OAccept (AMsg (KRoot 9) 0 0 0 (Sig (KRoot 9) (AContent (KRoot 9) 0 0 0 1)));
   OAccept (AMsg (KDerived 7 1) 0 0 1 (Sig (KDerived 7 1) (AContent (KDerived 7 1) 0 0 0 1)));
   OAccept (AMsg (KDerived 7 1) 0 0 0 (Sig (KDerived 7 1) (AContent (KDerived 7 1) 0 0 0 1))); OReady 1;
   OMsg (MTx 1 1); ODeq; ODeq].
Example C18_example :
  c18_monitor true C18_example_ops (run true 100 C18_example_ops) = None /\
  map (hd 0) (run true 100 C18_example_ops) = [0; 0; 1; 2; 0; 0; 0; 5; 1].
Proof. vm_compute. repeat split; reflexivity. Qed.

(* Acceptance is per connection (model SendAuth: the accepted flag across connections, with the handler goroutine
   handling accepts independently of the connection goroutine): on every history of connects, drops, new sessions,
   accepts for any session (handled at any moment, also after their connection was torn down) and data messages, the
   client counts as accepted / delivers data only if an accept for the then-current session was handled since the
   current connection started (monitor code 813 never fires). *)
Theorem C18_accept_is_per_connection : forall ops : list aop, auth_monitor ops (arun ops) = None.
Proof. exact auth_monitor_silent. Qed.
Print Assumptions C18_accept_is_per_connection.

Theorem C18_connect_resets_accepted : forall s, a_acc (fst (astep s (ABase SConnect))) = false.
Proof. exact connect_resets_accepted. Qed.
Print Assumptions C18_connect_resets_accepted.

Theorem C18_stale_accept_rejected : forall s n, n <> a_sess s -> a_acc (fst (astep s (AAccept n))) = a_acc s.
Proof. exact stale_accept_rejected. Qed.
Print Assumptions C18_stale_accept_rejected.

(* Non-vacuity: an accept of connection 1 handled after its tear-down sets the flag; connection 2 starts without it,
   its data is dropped until its own accept arrives. *)
Example C18_late_accept_example :
  arun [ASession; ABase SConnect; ABase SDrop; AAccept 1; AFlags; ASession; ABase SConnect; AFlags; AData; AAccept 1; AAccept 2; AData]
  = [[0]; [0]; [0]; [0; 1]; [0; 1]; [0]; [0]; [0; 0]; [0; 0]; [1; 0]; [0; 1]; [0; 1]].
Proof. vm_compute. reflexivity. Qed.

(* The ungated write path in the SOURCE (gen/SendSites.v, regenerated on every run by translator/sends.go from
   pkg/client/remote_client.go): sendDirect is called from exactly the two places the send machine model has - from
   sendMessage under the guard "handshake not complete and the message is a handshake type" (SendMachine.sm_step,
   ASend) and from Ready with the ready message itself (AComplete).  Another caller (a keep-alive ping, say) writes a
   request before the handshake completed without any of the model's steps. *)
Theorem C18_source_send_direct_sites :
  SendSites.send_direct_sites = [("Ready", "ready-message"); ("sendMessage", "handshake-guard")]%string.
Proof. reflexivity. Qed.
Print Assumptions C18_source_send_direct_sites.
