(* C19 - From any state a stop request makes the run loop return within a bounded time with chain,
   unconfirmed-transaction and peer data saved, and no handler is invoked after stop returns; a lost
   trusted connection is followed by reconnection and resumption from the stored tip.

   model/Shutdown.v is a transition system of Node.Run's phased shutdown (run loop, the seven kinds of
   goroutines with their real blocking points, the two bounded channels with their mutex, the
   counters incremented inside the goroutines, the save phase, the restart loop).  A run is a list of
   actions = an interleaving of run loop, goroutines, the application's Stop, the trusted peer
   (messages, close / reset; silence = no action) and an untrusted peer; the theorems quantify over ALL
   such lists, for every channel capacity `cap` and with / without untrusted nodes (`ucfg`).
   Go's scheduler, TCP and timers are not in the model; the theorems are about the protocol's logic.

   Model parameter `daf` ("drain after failure"): true = processUnconfirmedTxs as it is since fix 99e17c5
   (after a processing error: requestStop, then keep taking and dropping items until the channel is
   closed); false = as it was before (requestStop, break).  The safety theorems hold for both; the
   termination theorems are stated for the code as it is (daf = true) WITHOUT any hypothesis about the
   consumer; C19_d26_refuted shows what the old consumer did (Stop never returns) - that schedule was
   replayed against the real code before the fix and is kept as the regression test
   corpus/C19/d26_consumer_abort_full_channel.json, which now passes.

   Model parameter `unlk`: true = ProcessBlock releases the tx repository's unconfirmed lock on every error
   exit (the code); all theorems are for unlk = true (the first `true` after daf below);
   C19_exit_without_unlock_refuted is the witness for an error exit that forgets ReleaseUnconfirmed: the
   shutdown blocks for ever at txs.Save.

   Model parameter `sdrain`: true = sendOutgoing as it is (in node.go and, the same loop, in
   untrusted_node.go): after a failed socket write it keeps emptying its queue until the queue is closed;
   all theorems are for sdrain = true (the last argument `true` of run / step / prompt below);
   C19_sender_returns_refuted is the witness for a sender that returns on the first failed write: a
   state in which nothing can move any more.  The untrusted node's own Run (its reader, its sender, its 100-slot queue, its phased
   shutdown) is the same protocol in small; harness component "untrusted" runs a real UntrustedNode
   against a peer that never reads and ties this part to the code.

   ONE schedule of today's code is excluded by an explicit hypothesis, stated below with a witness:
   `prompt acts = true` (D27): whenever the run loop (or monitorUntrustedNodes) reads a thread counter
   as zero, every goroutine started for that class has already executed its first statement, the
   counter increment.  The code increments the counters INSIDE the goroutines; a goroutine that is
   not scheduled for the 100 ms + of the phase loop escapes the count (C19_d27_refuted: it then
   delivers a buffered transaction to the handlers after stopped = true, and what was saved is stale).
   Not reproducible against the real code without a scheduler hook; a fairness bound of the model. *)
From V.lib Require Import Base.
From V.model Require Import Shutdown.
From V.model Require Sync SyncSpec.
From V.proofs Require Import Shutdown_Proofs Shutdown_Term_Proofs Shutdown_Witness_Proofs Shutdown_Untrusted_Proofs.

(* stopped_silent: in every reachable state with stopped = true, Run has returned, no goroutine
   exists any more in any state - in particular none that could invoke a handler - and no handler
   invocation has happened while stopped was true *)
Theorem C19_stopped_silent : forall (cap : Z) (ucfg daf : bool) (acts : list act),
  prompt cap ucfg daf true true acts = true ->
  let w := run cap ucfg daf true true acts in
  stopped w = true ->
  pc_of w = RDone /\ all_dead (w_thr w) /\ d_late (w_dat w) = false.
Proof. exact stopped_silent. Qed.
Print Assumptions C19_stopped_silent.

Theorem C19_never_late : forall (cap : Z) (ucfg daf : bool) (acts : list act),
  prompt cap ucfg daf true true acts = true -> d_late (w_dat (run cap ucfg daf true true acts)) = false.
Proof. exact never_late. Qed.
Print Assumptions C19_never_late.

(* saved_on_stop: the save phase runs only when every goroutine has ended and all counters are zero;
   from the end of the save phase until the next connection, and for ever once stopped, what is stored
   is the final in-memory data *)
Theorem C19_saved_on_stop : forall (cap : Z) (ucfg daf : bool) (acts : list act),
  prompt cap ucfg daf true true acts = true ->
  let w := run cap ucfg daf true true acts in
  (pc_of w = RSave -> all_dead (w_thr w) /\ n_in (w_cnt w) = 0 /\ n_proc (w_cnt w) = 0 /\ n_un (w_cnt w) = 0) /\
  (saved_pc (pc_of w) = true -> d_disk (w_dat w) = d_mem (w_dat w)) /\
  (stopped w = true -> d_disk (w_dat w) = d_mem (w_dat w)).
Proof. exact saved_on_stop. Qed.
Print Assumptions C19_saved_on_stop.

(* stop_terminates, in three parts.  Fairness assumption: every enabled step of the run loop or of a
   goroutine eventually happens (handler callbacks, storage calls, conn.Close, the fetchers return:
   they are steps, not blocking points).
   (1) never stuck: in every reachable state of the code as it is, once stopping is set (a stop
       request, a restart, an abort) and until stopped, some step of the run loop or of a goroutine
       is enabled *)
Theorem C19_stop_progress : forall (cap : Z) (ucfg : bool) (acts : list act),
  1 <= cap -> prompt cap ucfg true true true acts = true ->
  let w := run cap ucfg true true true acts in
  stopping w = true -> stopped w = false ->
  exists a, benign a = true /\ thread_act a = true /\ prompt_ok w a = true /\ step cap ucfg true true true w a <> None.
Proof. exact stop_progress_fixed. Qed.
Print Assumptions C19_stop_progress.

(* ... for either consumer: the only reachable stuck states are the D26 states *)
Theorem C19_stop_progress_any : forall (cap : Z) (ucfg daf : bool) (acts : list act),
  1 <= cap -> prompt cap ucfg daf true true acts = true ->
  let w := run cap ucfg daf true true acts in
  stopping w = true -> stopped w = false -> d26_state cap w = false ->
  exists a, benign a = true /\ thread_act a = true /\ prompt_ok w a = true /\ step cap ucfg daf true true w a <> None.
Proof. exact stop_progress_reachable. Qed.
Print Assumptions C19_stop_progress_any.

(* (2) bounded work: after the application's stop request (Stop has set hardStop and called
       requestStop), along EVERY continuation - any interleaving, any behaviour of the peers - the number
       of enabled run-loop / goroutine steps taken is at most rank(w) - rank(w') plus the work carried
       by accepted untrusted-peer messages; rank is a natural-number measure of phase, program points,
       remaining body lengths and channel fill (model/Shutdown.v `rank`) *)
Theorem C19_stop_bounded_work : forall (cap : Z) (ucfg daf : bool) (acts acts' : list act),
  prompt cap ucfg daf true true (acts ++ acts') = true ->
  let w := run cap ucfg daf true true acts in
  stopcall w = 2 ->
  0 <= rank (run_from cap ucfg daf true true w acts') /\
  rank (run_from cap ucfg daf true true w acts') + effective cap ucfg daf w acts' <= rank w + injected cap ucfg daf w acts'.
Proof. exact stop_bounded_work_reachable. Qed.
Print Assumptions C19_stop_bounded_work.

(* ... untrusted-peer messages are accepted only while monitorUntrustedNodes is still on its way to
   "Stop all"; that goroutine is then never blocked, each of its steps brings it closer (mu_dist) and
   no other step takes it further away: under the fairness assumption the injection ends *)
Theorem C19_injection_needs_mu : forall (cap : Z) (ucfg daf : bool) (acts : list act) (n : nat),
  prompt cap ucfg daf true true acts = true ->
  let w := run cap ucfg daf true true acts in
  step cap ucfg daf true true w (AUnMsg n) <> None ->
  exists p f, thread w MU = TLive p f /\ p <> PWaitUn /\ step cap ucfg daf true true w (AStep MU KEnd 0) <> None.
Proof. exact injection_needs_mu_reachable. Qed.
Print Assumptions C19_injection_needs_mu.

Theorem C19_mu_dist_decreases : forall (cap : Z) (ucfg daf : bool) (acts : list act) (a : act) (w' : sw),
  let w := run cap ucfg daf true true acts in
  stopping w = true -> (a = AReg MU \/ exists k n, a = AStep MU k n) -> step cap ucfg daf true true w a = Some w' ->
  (forall f, thread w MU <> TLive PWaitUn f) ->
  mu_dist ucfg w' < mu_dist ucfg w.
Proof. exact mu_dist_decreases_reachable. Qed.
Print Assumptions C19_mu_dist_decreases.

Theorem C19_mu_dist_stable : forall (cap : Z) (ucfg daf : bool) (acts : list act) (a : act) (w' : sw),
  prompt cap ucfg daf true true acts = true ->
  let w := run cap ucfg daf true true acts in
  stopping w = true -> hard w = true ->
  a <> AReg MU -> (forall k n, a <> AStep MU k n) -> step cap ucfg daf true true w a = Some w' ->
  mu_dist ucfg w' <= mu_dist ucfg w.
Proof. exact mu_dist_stable_reachable. Qed.
Print Assumptions C19_mu_dist_stable.

(* (3) from every reachable state of the code as it is, after a stop request, a schedule of at most
       rank(w) run-loop / goroutine steps reaches stopped = true *)
Theorem C19_stop_reaches_stopped : forall (cap : Z) (ucfg : bool) (acts : list act),
  1 <= cap -> prompt cap ucfg true true true acts = true ->
  let w := run cap ucfg true true true acts in
  stopcall w = 2 ->
  exists acts', forallb thread_act acts' = true /\ prompt_from cap ucfg true true true w acts' = true /\
                Z.of_nat (length acts') <= rank w /\ stopped (run_from cap ucfg true true true w acts') = true.
Proof. exact stop_reaches_stopped_fixed. Qed.
Print Assumptions C19_stop_reaches_stopped.

(* D26 - the consumer BEFORE fix 99e17c5 (daf = false), capacity 100 as in the code: a reachable state
   after the stop request in which no step of the run loop or of any goroutine is enabled, and from
   which stopped is never reached whatever happens later *)
Theorem C19_d26_refuted :
  exists acts, prompt 100 false false true true acts = true /\
    let w := run 100 false false true true acts in
    stopcall w = 2 /\ stopped w = false /\ d26_state 100 w = true /\
    (forall a, thread_act a = true -> step 100 false false true true w a = None) /\
    (forall acts', stopped (run_from 100 false false true true w acts') = false).
Proof. exact d26_refuted. Qed.
Print Assumptions C19_d26_refuted.

(* a sendOutgoing that returns on the first failed write (sdrain = false): with its queue full and the
   reader waiting inside Add, after Stop no action is enabled any more - of the run loop, of any goroutine,
   of the peers - except new calls of the public API by the application, which do not help *)
Theorem C19_sender_returns_refuted :
  exists acts, prompt 100 false true true false acts = true /\
    let w := run 100 false true true false acts in
    stopcall w = 2 /\ stopped w = false /\ pc_of w = RWaitIn /\
    (forall a, a <> AApiTx -> step 100 false true true false w a = None).
Proof. exact sender_returns_refuted. Qed.
Print Assumptions C19_sender_returns_refuted.

(* The application inside Node.HandleTx / SendTx (TxChannel.Add) is one more producer of the tx channel
   (action AApiTx, thread AP): it is not started by Run and not counted by any thread counter.
   - C19_stop_progress above includes it (a caller waiting for room holds the mutex; the consumer is
     alive until the channel is closed, so the caller gets through and Close gets the mutex);
   - C19_stop_bounded_work charges every call begun (7 steps) like an untrusted-peer message; no
     assumption that callers stop calling is needed for progress or for C19_stop_reaches_stopped; for
     "every fair run terminates" the assumption is that the channel mutex is fair to Close (Go's
     sync.Mutex is: starvation mode) or that the application does not call without pause for ever;
   - a call begun after the channel was closed returns an error at once and changes nothing else;
   - no goroutine is ever parked in a send on a closed channel (the Go panic): Add keeps the mutex while
     it waits for room and Close needs the mutex. *)
Theorem C19_no_send_on_closed : forall (cap : Z) (ucfg daf : bool) (acts : list act) t c f,
  thread (run cap ucfg daf true true acts) t = TLive (PSend c) f -> ch_open (run cap ucfg daf true true acts) c = true.
Proof. exact no_send_on_closed. Qed.
Print Assumptions C19_no_send_on_closed.

Theorem C19_api_after_close : forall (cap : Z) (ucfg daf : bool) (acts : list act),
  let w := run cap ucfg daf true true acts in
  x_open (w_ch w) = false -> thread w AP = TNone ->
  exists w1 w2, step cap ucfg daf true true w AApiTx = Some w1 /\ step cap ucfg daf true true w1 (AStep AP KEnd 0) = Some w2 /\
                thread w2 AP = TNone /\ w_ch w2 = w_ch w /\ w_ctl w2 = w_ctl w /\ w_cnt w2 = w_cnt w /\ w_dat w2 = w_dat w.
Proof. exact api_after_close. Qed.
Print Assumptions C19_api_after_close.

(* an Add that waits for room OUTSIDE the mutex (step_sol): Close closes the channel under a parked
   sender - "send on closed channel"; the code on the same schedule: the run loop waits at Close *)
Theorem C19_send_outside_lock_refuted :
  send_on_closed (run_sol 1 false true true true sol_acts) = true /\
  send_on_closed (run 1 false true true true sol_acts) = false /\
  pc_of (run 1 false true true true sol_acts) = RCloseTx /\
  step 1 false true true true (run 1 false true true true sol_acts) (ARun true) = None /\
  thread (run 1 false true true true sol_acts) AP = TLive (PSend CTx) 0.
Proof. exact send_outside_lock_refuted. Qed.
Print Assumptions C19_send_outside_lock_refuted.

(* Add never drops (the completeness of delivery under back-pressure, C03, rests on it): a goroutine
   waiting for room in a channel leaves that program point only by the step that queues its item; what is
   queued leaves the channel only by the consumer taking it (or when the run loop opens new channels at
   the next connection, after every goroutine of the round has ended); C19_stop_progress gives the
   goroutine its room, C19_no_send_on_closed excludes a Close under it *)
Theorem C19_add_never_drops : forall (cap : Z) (daf : bool) w t c f k n w',
  thread w t = TLive (PSend c) f -> step cap false daf true true w (AStep t k n) = Some w' ->
  ch_len w' c = ch_len w c + 1 /\ thread w' t <> TLive (PSend c) f.
Proof. intros cap daf. exact (add_never_drops cap false daf). Qed.
Print Assumptions C19_add_never_drops.

Theorem C19_only_consumer_takes : forall (cap : Z) (ucfg daf : bool) w a w' c,
  step cap ucfg daf true true w a = Some w' -> ch_len w' c < ch_len w c ->
  (exists k n, a = AStep (match c with COut => SO | CTx => PU end) k n) \/ (exists ok, a = ARun ok /\ pc_of w = RConnect).
Proof. exact only_consumer_takes. Qed.
Print Assumptions C19_only_consumer_takes.

(* an error exit of ProcessBlock that keeps the tx repository's unconfirmed lock (unlk = false): the run
   loop reaches its save phase with every goroutine gone and can never save; nothing is enabled any more
   (except new API calls); the code on the same schedule stops *)
Theorem C19_exit_without_unlock_refuted :
  prompt 100 false true false true ul_acts = true /\
  stopcall (run 100 false true false true ul_acts) = 2 /\ stopped (run 100 false true false true ul_acts) = false /\
  pc_of (run 100 false true false true ul_acts) = RSave /\ all_dead (w_thr (run 100 false true false true ul_acts)) /\
  (forall a, a <> AApiTx -> step 100 false true false true (run 100 false true false true ul_acts) a = None) /\
  stopped (run 100 false true true true (ul_acts ++ [ARun true; ARun true; ARun true])) = true.
Proof. exact exit_without_unlock_refuted. Qed.
Print Assumptions C19_exit_without_unlock_refuted.

(* D27: without the prompt-registration hypothesis both safety theorems fail (code as it is) *)
Theorem C19_d27_refuted :
  exists acts, prompt 100 false true true true acts = false /\
    let w := run 100 false true true true acts in
    stopped w = true /\ d_late (w_dat w) = true /\ d_disk (w_dat w) <> d_mem (w_dat w) /\
    exists pre post, acts = pre ++ ARun true :: post /\ prompt 100 false true true true pre = true /\
                     pc_of (run 100 false true true true pre) = RWaitProc /\ thread (run 100 false true true true pre) PU = TSpawned.
Proof. exact d27_refuted. Qed.
Print Assumptions C19_d27_refuted.

(* reconnect_resumes.  (a) A restart (lost connection, time-out) goes through the same phases: when
   the run loop is back at its head every goroutine of the old round has ended, everything was saved,
   the in-memory data are unchanged, and the stop flags are reset. *)
Theorem C19_restart_resumes : forall (cap : Z) (ucfg daf : bool) (acts : list act),
  prompt cap ucfg daf true true acts = true ->
  let w := run cap ucfg daf true true acts in
  pc_of w = RDecide -> needs w = true -> hard w = false ->
  let w' := apply cap ucfg daf true true w (ARun true) in
  pc_of w' = RLoop /\ stopping w' = false /\ needs w' = false /\ stopped w' = false /\
  all_dead (w_thr w') /\ d_disk (w_dat w') = d_mem (w_dat w') /\ d_mem (w_dat w') = d_mem (w_dat w).
Proof. exact restart_resumes. Qed.
Print Assumptions C19_restart_resumes.

(* (b) The state reset of the reconnection keeps the chain; and the theorem of C02 (props/C02.v,
   `announce contiguous`, codes 211-214) holds for every history of the synchronisation model with
   reconnections anywhere: afterwards blocks are announced only at height tip + 1 on top of the stored
   tip - no processed height is announced again. *)
Theorem C19_reconnect_keeps_chain : forall s, Sync.chain (Sync.reconnect s) = Sync.chain s.
Proof. exact reconnect_keeps_chain. Qed.
Print Assumptions C19_reconnect_keeps_chain.

Theorem C19_reconnect_resumes :
  forall (MAXR LIM HT HDT BT DELTA : Z) (parents : list (Z * Z)) (rk : Z -> Z) (start : Z) (ops1 ops2 : list Sync.op),
    0 <= MAXR ->
    SyncSpec.sync_valid (Sync.table_fn parents) rk (ops1 ++ Sync.OReconnect :: ops2) ->
    SyncSpec.c02_monitor MAXR (ops1 ++ Sync.OReconnect :: ops2)
      (Sync.run MAXR LIM HT HDT BT DELTA parents start (ops1 ++ Sync.OReconnect :: ops2)) = None.
Proof. exact reconnect_resumes_sync. Qed.
Print Assumptions C19_reconnect_resumes.

(* the scenario runner of the correspondence check only takes steps of the transition system *)
Theorem C19_settle_reach : forall fuel listen a b c d w,
  exists acts, settle fuel listen a b c d w = run_from scap false true true true w acts.
Proof. exact settle_reach. Qed.
Print Assumptions C19_settle_reach.

(* ---- monitorUntrustedNodes with its mutex and its list (`mstep`, model/Shutdown.v) ----
   The goroutine MU of the system above in detail: untrustedLock, the list node.untrustedNodes, scan() with its
   window and its flag, the untrusted nodes (dialling / active / done, listed or not), CleanupBlock over the LIST.
   Switches lock_early (untrustedLock taken before the stop test that follows scan(), the loop left with the
   lock held) and dial_unlocked (UntrustedNode.Run does not hold the node's lock across the dial: IsActive says
   "not active" for a node that is dialling); both false = the code as it is.  mrun l = the state after the
   actions l (monitor steps, timers, node steps, stop request, restart, in-sync flag, announcements, block
   clean-ups, tracker checks, addresses told, ...), ALL lists l. *)

(* the monitor reaches "stop all" (where it takes untrustedLock to stop the listed nodes) never holding the lock *)
Theorem C19_untrusted_lock_free_at_stop_all : forall (dial_unlocked : bool) (l : list mact),
  let s := mrun false dial_unlocked l in m_pc s = MStopAll -> m_lock s = false.
Proof. intros du l. exact (lock_free_at_stop_all false du l eq_refl). Qed.
Print Assumptions C19_untrusted_lock_free_at_stop_all.

(* every untrusted node started for the list that has not finished (dialling or active) is in the list *)
Theorem C19_untrusted_running_listed : forall (lock_early : bool) (l : list mact) (n : unode),
  In n (m_nodes (mrun lock_early false l)) -> n_scan n = false -> is_done n = false -> n_listed n = true.
Proof. intros le l n. exact (running_nodes_listed le false l n eq_refl). Qed.
Print Assumptions C19_untrusted_running_listed.

(* ... so the clean-up after a block reaches every tracker: no node keeps the announcement of a confirmed tx
   and no peer is ever asked for one *)
Theorem C19_untrusted_no_confirmed_request : forall (lock_early : bool) (l : list mact),
  m_bad (mrun lock_early false l) = false /\ forall n, In n (m_nodes (mrun lock_early false l)) -> n_stale n = [].
Proof. intros le l. exact (no_confirmed_request le false l eq_refl). Qed.
Print Assumptions C19_untrusted_no_confirmed_request.

(* after a stop request every step of the monitor or of one of its nodes lowers mrank ... *)
Theorem C19_untrusted_stop_step_lowers_rank : forall (lock_early dial_unlocked : bool) (s s' : mst) (a : mact),
  m_stop s = true -> mthread_act a = true -> mstep_opt lock_early dial_unlocked s a = Some s' ->
  (mrank s' < mrank s)%nat /\ m_stop s' = true.
Proof. intros le du s s' a. exact (stop_step_lowers_rank le du s a s'). Qed.
Print Assumptions C19_untrusted_stop_step_lowers_rank.

(* ... and from every reachable state one of them is enabled until the monitor is done: the monitor (with the lock
   and IsActive's wait for a dialling node modelled) ends within mrank <= 11 + 2 * nodes steps *)
Theorem C19_untrusted_monitor_terminates : forall (l : list mact),
  let s := mrun false false l in
  m_stop s = true -> m_pc (mdrive false false (mrank s) s) = MDone.
Proof.
  intros l s St. apply (monitor_terminates false false (mrank s) s eq_refl eq_refl); auto.
  exact (all_inv_run false false l eq_refl eq_refl).
Qed.
Print Assumptions C19_untrusted_monitor_terminates.

(* lock_early: Stop inside the scan window; the monitor stands at "stop all" holding the lock it needs there,
   and whatever happens afterwards it never finishes (the run loop waits for it: Stop never returns) *)
Theorem C19_lock_early_refuted :
  let s := mrun true false lock_early_schedule in
  m_stop s = true /\ m_pc s = MStopAll /\ m_lock s = true /\
  forall l, m_pc (mrun_from true false s l) <> MDone.
Proof. exact lock_early_refuted. Qed.
Print Assumptions C19_lock_early_refuted.

(* dial_unlocked: a node dropped from the list during its slow dial runs unlisted, is asked for a confirmed tx, and
   after a stop request nothing stops it: neither the monitor nor a node can move, the monitor waits for ever *)
Theorem C19_dial_unlocked_refuted :
  let s := mrun false true dial_unlocked_schedule in
  m_bad s = true /\ m_stop s = true /\ m_pc s = MWait /\ mpick false true s = None /\
  exists n, nth_error (m_nodes s) 0 = Some n /\ n_st n = UActive /\ n_listed n = false /\ n_scan n = false.
Proof. exact dial_unlocked_refuted. Qed.
Print Assumptions C19_dial_unlocked_refuted.

(* ---- non-vacuity ----
   A prompt schedule through connect, tx traffic, a lost connection, the restart, the reconnection, a
   stop request in the middle of the second round and the phased shutdown to stopped: the hypotheses of
   the theorems are met by a run that visits every phase, invokes handlers, mutates and saves. *)
Example C19_example_acts : list act :=
  let m := AStep MI KEnd 0 in
  let regs := [AReg MI; AReg RT; AReg SO; AReg PB; AReg PU; AReg CD] in
  let msg := [APeerMsg; m; AStep MI KEnd 3; AStep MI KCall 0; AStep MI KTx 0; m; m; AStep MI KOut 0; m; m; m; m; m;
              AStep PU KEnd 0; AStep PU KEnd 0; AStep SO KEnd 0; AStep SO KEnd 0] in
  let down := [ARun true; ARun true; m; AStep RT KEnd 0; AStep PB KEnd 0; AStep CD KEnd 0; ARun true; ARun true; ARun true;
               AStep SO KEnd 0; AStep SO KEnd 0; AStep SO KEnd 0; AStep PU KEnd 0; ARun true; ARun true; ARun true] in
  [ARun true; ARun true] ++ regs ++ [m] ++ msg ++ [APeerClose; m] ++ down ++
  [ARun true; ARun true] ++ regs ++ [m] ++ msg ++ [AStopFlag; AStopReq] ++ down ++ [ARun true].
Example C19_example :
  prompt 100 false true true true C19_example_acts = true /\
  let w := run 100 false true true true C19_example_acts in
  stopped w = true /\ w_gen w = 2 /\ d_calls (w_dat w) = 6 /\ d_mem (w_dat w) = 4 /\ d_disk (w_dat w) = 4 /\
  d_late (w_dat w) = false /\ stopcall w = 2.
Proof. vm_compute. repeat split; reflexivity. Qed.

(* a state in the middle of the first round right after the stop request: the hypotheses of
   C19_stop_reaches_stopped hold and its bound is 17 steps *)
Example C19_example_stop_requested :
  let acts := firstn 28 C19_example_acts ++ [AStopFlag; AStopReq] in
  prompt 100 false true true true acts = true /\ stopcall (run 100 false true true true acts) = 2 /\ stopped (run 100 false true true true acts) = false /\
  rank (run 100 false true true true acts) = 17.
Proof. vm_compute. repeat split; reflexivity. Qed.

(* Stop arriving INSIDE the shutdown that precedes a reconnect: the trusted connection is lost,
   monitorIncoming requests a restart (stopping, needsRestart), the run loop has already logged
   "Stopping" and closed the connection when the application calls Stop (hardStop).  The restart-or-stop
   test is made at the END of the shutdown and reads hardStop there: the node stops, it does not connect
   again (w_gen stays 1).  A run loop that decided at the start of the shutdown would reconnect. *)
Example C19_example_stop_in_restart_shutdown :
  let m := AStep MI KEnd 0 in
  let pre := [ARun true; ARun true; AReg MI; AReg RT; AReg SO; AReg PB; AReg PU; AReg CD; m; APeerClose; m; ARun true; ARun true] in
  let post := [AStep RT KEnd 0; AStep PB KEnd 0; AStep CD KEnd 0; ARun true; ARun true; ARun true;
               AStep SO KEnd 0; AStep SO KEnd 0; AStep SO KEnd 0; AStep PU KEnd 0; ARun true; ARun true; ARun true; ARun true] in
  let w1 := run 100 false true true true pre in
  let w2 := run 100 false true true true (pre ++ [AStopFlag; AStopReq] ++ post) in
  prompt 100 false true true true (pre ++ [AStopFlag; AStopReq] ++ post) = true /\
  pc_of w1 = RWaitIn /\ stopping w1 = true /\ needs w1 = true /\ hard w1 = false /\ w_conn w1 = CNone /\
  stopped w2 = true /\ w_gen w2 = 1 /\ pc_of w2 = RDone /\
  (* without the Stop the same schedule restarts: the run loop is about to connect again *)
  pc_of (run 100 false true true true (pre ++ post)) = RConnect /\ stopped (run 100 false true true true (pre ++ post)) = false.
Proof. vm_compute. repeat split; reflexivity. Qed.

(* the scenario model on the two new scenario kinds: Stop inside the restart shutdown (hit, returned,
   Run returned, NOT reconnected) and the untrusted node whose peer never reads (queue full, Stop, Run returns) *)
Example C19_example_new_scenarios :
  srun [SStart; SAccept; SVersion; SHeaders 2; SBlocks 1; SCloseStop; SQuiet; SStored; SAnnounced]
  = [[0]; [0; 1; 0]; [0; 1; 1; 0]; [0; 2]; [0; 1]; [0; 1; 1; 1; 0]; [0; 0; 0]; [0; 1; 1; 1; 1; 0; 0; 1; 0; 0]; [0; 1; 1]] /\
  urun [UStart; UCounts; UFill; UCounts; UStop; UCounts] = [[0; 1; 1]; [0; 2; 1]; [0; 1]; [0; 2; 1]; [0; 1]; [0; 0; 0]] /\
  urun [UStart; UFill; UReset; UStop] = [[0; 1; 1]; [0; 1]; [0]; [0; 1]].
Proof. vm_compute. repeat split; reflexivity. Qed.

(* the application-side scenarios: 101 HandleTx calls while a relevant tx sits in a held handler (the
   101st waits for room), Stop, release: Stop and Run return, all 101 calls returned nil, no panic; and
   persistence when the node is NOT in sync at the stop (in sync cleared by a block inventory; tx fed
   locally during the initial sync): stored = in-memory, and after a restart on the same storage the
   re-announced tx is not delivered again *)
Example C19_example_api_scenarios :
  srun [SStart; SAccept; SVersion; SSync; SHold 1; STx 1 true; SApiFill 101; SStopAsync; SRelease false; SStopWait;
        SApiResult; SQuiet; SStored]
  = [[0]; [0; 1; 0]; [0; 1; 1; 0]; [0; 1]; [0]; [0; 1]; [0; 100; 1]; [0; 0]; [0]; [0; 1; 1]; [0; 1; 101; 0; 0]; [0; 0; 0];
     [0; 0; 0; 0; 1; 1; 1; 1; 0; 0]] /\
  srun [SStart; SAccept; SVersion; SSync; STx 1 true; SBlockInv; SStop; SQuiet; SStored; SRestart; SAccept; SVersion; SSync;
        STx 1 true; SStop; SQuiet; SStored]
  = [[0]; [0; 1; 0]; [0; 1; 1; 0]; [0; 1]; [0; 1]; [0; 0]; [0; 1; 1]; [0; 0; 0]; [0; 0; 0; 0; 1; 1; 1; 1; 0; 0]; [0];
     [0; 1; 0]; [0; 1; 1; 0]; [0; 1]; [0; 0]; [0; 1; 1]; [0; 0; 0]; [0; 0; 0; 0; 1; 1; 1; 1; 0; 0]] /\
  srun [SStart; SAccept; SVersion; SHeaders 2; SApiTx 1 true; SApiTx 2 false; SStop; SQuiet; SStored; SRestart; SAccept;
        SVersion; SSync; STx 1 true; STx 3 true; SStop; SQuiet; SStored]
  = [[0]; [0; 1; 0]; [0; 1; 1; 0]; [0; 2]; [0; 0; 1]; [0; 0; 0]; [0; 1; 1]; [0; 0; 0]; [0; 0; 0; 0; 1; 1; 1; 1; 0; 0]; [0];
     [0; 1; 0]; [0; 1; 1; 0]; [0; 1]; [0; 0]; [0; 1]; [0; 1; 1]; [0; 0; 0]; [0; 0; 0; 0; 1; 2; 2; 1; 0; 0]].
Proof. vm_compute. repeat split; reflexivity. Qed.

(* a block with a new relevant tx whose spent output cannot be fetched (ProcessBlock fails, processBlocks
   leaves), then Stop: Stop and Run return, everything saved; and 151 distinct relevant txs under
   back-pressure (the first sits in a held handler, 100 fill the channel, monitorIncoming waits): all 151
   delivered after the release *)
Example C19_example_round5_scenarios :
  srun [SStart; SAccept; SVersion; SHold 100; STxBlock 1 true; SRelease true; SStop; SQuiet; SStored; SAnnounced]
  = [[0]; [0; 1; 0]; [0; 1; 1; 0]; [0]; [0; 1; 1; 0]; [0]; [0; 1; 1]; [0; 0; 0]; [0; 1; 1; 1; 1; 0; 0; 1; 0; 0]; [0; 1; 1]] /\
  srun [SStart; SAccept; SVersion; SSync; SHold 1; STx 1 true; SBurstRel 150; SRelease false; SDelivered 151; SStop; SQuiet; SStored]
  = [[0]; [0; 1; 0]; [0; 1; 1; 0]; [0; 1]; [0]; [0; 1]; [0; 1]; [0]; [0; 151]; [0; 1; 1]; [0; 0; 0];
     [0; 0; 0; 0; 1; 151; 151; 1; 0; 0]].
Proof. vm_compute. split; reflexivity. Qed.

(* the scenario model (code as it is) on the regression scenario of D26: the consumer fails while the
   channel is full and monitorIncoming waits inside Add; the node stops by itself, Stop returns, nothing
   is left for the harness to empty, the monitor is silent *)
Example C19_example_d26_scenario :
  let ops := [SStart; SAccept; SVersion; SSync; SHold 100; STx 1 true; SBurst 101; SRelease true; SStop; SCounts;
              SDrain; SStopWait; SQuiet; SStored] in
  srun ops = [[0]; [0; 1; 0]; [0; 1; 1; 0]; [0; 1]; [0]; [0; 0]; [0; 1]; [0]; [0; 1; 1]; [0; 0; 0]; [0; 0]; [0; 1; 1];
              [0; 0; 0]; [0; 0; 0; 0; 1; 1; 1; 1; 0; 0]] /\
  c19_monitor ops (srun ops) = None.
Proof. vm_compute. split; reflexivity. Qed.

(* the two schedules of the refutations on the code as it is: the monitor ends / nothing bad is asked; and the
   scenario model on the new scenario kinds (Stop inside the scan window; a slow dial, then the C14 flow;
   a peer dropped and another one connected): the monitor accepts what the model predicts *)
Example C19_example_untrusted_schedules :
  m_pc (mdrive false false 40 (mrun false false lock_early_schedule)) = MDone /\
  m_bad (mrun false false dial_unlocked_schedule) = false /\
  m_pc (mdrive false false 40 (mrun false false dial_unlocked_schedule)) = MDone.
Proof. vm_compute. repeat split; reflexivity. Qed.
Example C19_example_untrusted_scenarios :
  let sync := [SStart; SAccept; SVersion; SSync] in
  let scanstop := [SUCount 1; SUPeer 2] ++ sync ++ [SWaitScan true; SUWaitSeen 0; SSleep; SStop; SQuiet; SStored; SCountsU] in
  let slow := [SUCount 1; SUPeer 3] ++ sync ++ [SSleep; SURelease 0; SUWaitConn 0; SUListed 0; SInv 7; SUInv 0 7; STxBlock 7 true;
                                               STxAge; SUGetData 0 7; SStop; SCountsU] in
  let drop := [SUCount 1; SUPeer 1; SUPeer 1] ++ sync ++ [SUWaitConn (-1); SUListed (-1); SUClose (-1); SUWaitConn (-1);
                                                          SUListed (-1); SInv 7; SUInv (-1) 7; STxAge; SUGetData (-1) 7; SStop; SCountsU] in
  srun scanstop = [[0]; [0]; [0]; [0; 1; 0]; [0; 1; 1; 0]; [0; 1]; [0; 1]; [0; 1]; [0]; [0; 1; 1]; [0; 0; 0];
                   [0; 0; 0; 0; 1; 0; 0; 1; 1; 1]; [0; 0]] /\
  srun slow = [[0]; [0]; [0]; [0; 1; 0]; [0; 1; 1; 0]; [0; 1]; [0]; [0]; [0; 1]; [0; 1; 1]; [0; 1]; [0; 1; 0]; [0; 1; 1; 1]; [0];
               [0; 1; 0]; [0; 1; 1]; [0; 0]] /\
  nth 16 (srun drop) [] = [0; 1; 1] /\
  c19_monitor scanstop (srun scanstop) = None /\ c19_monitor slow (srun slow) = None /\ c19_monitor drop (srun drop) = None /\
  (* what the monitor says about the observations of the two seeded variants *)
  c19_monitor scanstop [[0]; [0]; [0]; [0; 1; 0]; [0; 1; 1; 0]; [0; 1]; [0; 1]; [0; 1]; [0]; [0; 0; 0]; [0; -1; 0]; [0; -1]; [0; 0]] = Some (9, [902]) /\
  c19_monitor slow [[0]; [0]; [0]; [0; 1; 0]; [0; 1; 1; 0]; [0; 1]; [0]; [0]; [0; 1]; [0; 1; 0]; [0; 1]; [0; 1; 0]; [0; 1; 1; 1]; [0];
                    [0; 1; 1]; [0; 0; 0]; [0; 1]] = Some (9, [914]) /\
  c19_monitor slow [[0]; [0]; [0]; [0; 1; 0]; [0; 1; 1; 0]; [0; 1]; [0]; [0]; [0; 1]; [0; 1; 1]; [0; 1]; [0; 1; 0]; [0; 1; 1; 1]; [0];
                    [0; 1; 1]; [0; 1; 1]; [0; 0]] = Some (14, [913]).
Proof. vm_compute. repeat split; reflexivity. Qed.
