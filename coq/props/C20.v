(* C20 - Decoding hostile bytes fails cleanly: for every byte string, decoding it as a client-protocol
   message terminates with a value or an error - no panic, no allocation out of proportion to the input.
   The decoders are the generated reader formats r_T (gen/CodecGen.v); `decode` is a total function, so
   termination is by construction; its third result is the allocation count (Σ n * sizeof T over executed
   make(T, n) + bytes of values built); a make beyond runtime.makeslice's limit is DPanic.

   The LAST theorem of this file is the per-decoder obligation.  It does not check while
   pkg/client/messages.go pre-allocates from wire counts (the check then reports the witnesses below,
   replayed on the real code, as violations). *)
From Coq Require Import ZArith String List Bool.
From V.model Require Import CodecDSL.
From V.proofs Require Import Codec_Proofs Codec_Inst Codec_Bounded_Inst.
From V.gen Require Import CodecGen.
Import ListNotations.
Open Scope Z_scope.

(* meta-theorem: a bounded format never panics and allocates at most bound_A * |input| + bound_B,
   on ALL inputs, assuming the un-modelled dependency decoders return a value or an error *)
Theorem C20_bounded_sound :
  forall (odec : string -> bytes -> ores) (ochk : string -> bytes -> Z),
  (forall name bs, odec name bs <> OPanic) ->
  (forall name b, ochk name b = 0 \/ ochk name b = 1) ->
  forall f, bounded f = true -> forall bs,
    decode odec ochk f [] bs <> DPanic /\
    match decode odec ochk f [] bs with
    | DOk _ _ a | DErr a => a <= bound_A f * zlen bs + bound_B f
    | DPanic => True
    end.
Proof. exact bounded_no_panic_linear. Qed.
Print Assumptions C20_bounded_sound.

(* refutation: every reader that is NOT bounded has a concrete hostile input shorter than 100 bytes on
   which it panics or reserves >= 2^32 bytes (witness computed from the format, evaluated by vm_compute) *)
Theorem C20_unbounded_refuted :
  forall D, is_deps D -> forall n r, In (n, r) (readers D) ->
  bounded r = true \/
  exists bs, (length bs < 100)%nat /\ hostile_outcome (decode no_odec no_ochk r [] bs) = true.
Proof. exact unbounded_refuted. Qed.
Print Assumptions C20_unbounded_refuted.

(* the pinned dependency's wire.MsgTx / wire.TxOut decoders reserve memory from claimed counts *)
Theorem C20_dependency_tx_decoder_unbounded :
  bounded (d_MsgTx real_deps) = false /\ bounded (d_TxOut real_deps) = false /\
  hostile_outcome (decode no_odec no_ochk (d_MsgTx real_deps) [] (fst (witness (d_MsgTx real_deps)))) = true.
Proof. exact dependency_tx_unbounded. Qed.
Print Assumptions C20_dependency_tx_decoder_unbounded.

(* Non-vacuity of bounded: a format with a checked pre-allocation and an append loop is bounded, and
   the hostile count is an error with a small allocation *)
Example C20_example_bounded :
  let f := FStruct (FField "A" (FList (LApp 4 1024) (FVarInt 32))
                   (FField "B" (FVarBytes BGrow None) FNil)) in
  bounded f = true /\ decode no_odec no_ochk f [] huge_count = DErr 4096.
Proof. vm_compute. split; reflexivity. Qed.

(* the obligation: every decoder of the client protocol (37 payloads, TxState, MerkleProof, FeeQuote,
   Fee, and the stored client.Tx record) is bounded - with the dependency's transaction decoder
   idealised (see above) *)
Theorem C20_all_readers_bounded : Forall (fun nr => bounded (snd nr) = true) (readers ideal_deps).
Proof. exact all_readers_bounded_Forall. Qed.
Print Assumptions C20_all_readers_bounded.
