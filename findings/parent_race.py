#!/usr/bin/env python3
"""OBSERVATION (not a registered check; DESIGN 11.6): ProcessBlock's parent check and blocks.Add are not
atomic against a revert by the headers handler.  Runs the REAL headers handler and the REAL ProcessBlock
(harness component converge, ops process_mid_hold / process_mid_release): chain 0-1-2 stored, block 3
(child of 2) delivered and held in its merkle validation - after the parent check, before blocks.Add -,
a header 4 (child of 1) arrives: the handler reverts to height 1; the validation ends: block 3 is added
at height 2 on top of block 1.  Prints the stored chain and whether it is hash-linked.
Outside C02's quantifier (block-processing steps placed BETWEEN messages); exit status is always 0."""
import json, os, sys
sys.path.insert(0, os.path.join(os.path.dirname(os.path.abspath(__file__)), "..", "gen"))
import vlib

def main():
    cfg = {"parents": [[1, 0], [2, 1], [3, 2], [4, 1]], "start": 0, "m": 2000}
    ops = [["deliver", 0], ["check"], ["answer", 0], ["deliver", 0], ["check"],
           ["peer_set_best", [0, 1, 2]], ["settle", 1500],
           ["peer_set_best", [0, 1, 2, 3]], ["answer", 0], ["deliver", 0], ["answer", 0], ["deliver", 0],
           ["process_mid_hold"],
           ["inject_headers", [4]],
           ["process_mid_release"]]
    work = os.path.join(vlib.WORK, "parent_race")
    res, _ = vlib.run_harness("converge", [{"cfg": cfg, "ops": ops}], work, tag="parent_race", timeout=120)
    for op, o in zip(ops, res[0]):
        # frame: code, ready, pending, start, lasthash, requested, to_request, linked, inverse, n, ids...
        n = o[9]
        print("%-28s code=%d linked=%d inverse=%d chain=%s payload=%s" % (json.dumps(op), o[0], o[7], o[8], o[10:10 + n], o[-1:]))
    last = res[0][-1]
    print("OBSERVATION parent-race: stored chain %s hash-linked after the release" % ("IS" if last[7] == 1 else "is NOT"))
    return 0

if __name__ == "__main__":
    sys.exit(main())
