#!/usr/bin/env python3
"""Prints the runs of the C02 parent-race scenarios (gen/parentrace.py, regression of /repo fix e0141dc)
on /repo's working tree; exit 1 when a stored chain is not hash-linked.  bin/check C02 runs the same."""
import json, os, sys
sys.path.insert(0, os.path.join(os.path.dirname(os.path.abspath(__file__)), "..", "gen"))
import vlib, parentrace
r = parentrace.run(sys.argv[1] if len(sys.argv) > 1 else "quick", os.path.join(vlib.WORK, "parent_race"))
print("\n".join(r["coverage"]["parentrace"]["runs"]))
print("failures:", len(r["failures"]), "red:", r["red"])
sys.exit(1 if r["failures"] or r["red"] else 0)
