"""C01 - the node converges to the trusted peer's best chain; in-sync is notified only when caught up."""
import json
import os
import sys

sys.path.insert(0, os.path.dirname(os.path.abspath(__file__)))
import checklib
import vlib
from checklib import Suite

SETTLE = 1500          # bound of a final settling run for the small trees (it stops when nothing is enabled)
MON = {"c01": "c01_monitor"}


def nat(k):
    return "%d%%nat" % int(k)


def coq_op(o, bg=False):
    """bg: the case runs in the harness's bgblocks mode (real processBlocks goroutine): a turn of the block
    thread processes every delivered block at the head of the queue, also inside a settling run"""
    n = o[0]
    if bg and n in ("process", "process_release"):
        return "CProcessAll"
    if bg and n == "settle":
        return "(CSettleBg %s)" % nat(o[1])
    if n == "process_hold":          # the thread is held between its pop and ProcessBlock: for the monitor
        return "(CAct (AAdvance 0))"  # nothing happens to the chain
    if n == "deliver":
        return "(CAct (ADeliver %s))" % nat(o[1])
    if n == "dup":
        return "(CAct (ADup %s))" % nat(o[1])
    if n == "answer":
        return "(CAct (AAnswer %s))" % nat(o[1])
    if n == "process":
        return "(CAct AProcess)"
    if n == "check":
        return "(CAct ACheck)"
    if n == "advance":
        return "(CAct (AAdvance %s))" % vlib.z(o[1])
    if n == "timeouts":
        return "(CAct ATimeouts)"
    if n == "disconnect":
        return "(CAct ADisconnect)"
    if n == "restartnode":
        return "(CAct ARestart)"
    if n == "peer_set_best":
        return "(CAct (APeerSet %s))" % vlib.zlist(o[1])
    if n == "settle":
        return "(CSettle %s)" % nat(o[1])
    raise KeyError(n)


class Tree:
    """Block tree with forks (also forks of forks); 0 is genesis."""

    def __init__(self, rng, nmain, nforks, cap=14):
        self.parent = {}
        self.depth = {0: 0}
        prev = 0
        nid = 1
        self.main = []
        for _ in range(nmain):
            self.parent[nid] = prev
            self.depth[nid] = self.depth[prev] + 1
            self.main.append(nid)
            prev = nid
            nid += 1
        nid = max(nid, 20)
        for _ in range(nforks):
            nodes = [0] + sorted(self.parent)
            base = rng.choice(nodes)
            prev = base
            for _i in range(rng.range(1, 4)):
                if len(self.parent) >= cap:
                    break
                self.parent[nid] = prev
                self.depth[nid] = self.depth[prev] + 1
                prev = nid
                nid += 1
            nid += 7

    def max_reorg_depth(self):
        """Deepest possible reorganisation: blocks of one branch above the lowest fork point."""
        kids = {}
        for n, p in self.parent.items():
            kids.setdefault(p, []).append(n)
        forks = [p for p, k in kids.items() if len(k) > 1]
        if not forks:
            return 0
        return max(self.depth.values()) - min(self.depth[f] for f in forks)

    def path_to(self, b):
        p = []
        while b != 0:
            p.append(b)
            b = self.parent[b]
        return [0] + list(reversed(p))

    def pairs(self):
        return [[i, p] for i, p in sorted(self.parent.items())]


def peer_event(rng, t, best):
    """A new best chain with more blocks: extension by k or reorganisation from depth d."""
    cands = [n for n in t.parent if t.depth[n] > len(best) - 1]
    if not cands:
        return None
    ext = [n for n in cands if best[-1] in t.path_to(n)]
    if ext and rng.chance(3, 5):
        pool = ext
    else:
        pool = cands
    # prefer short moves
    pool = sorted(pool, key=lambda n: t.depth[n])
    n = pool[rng.below(min(len(pool), 3))] if rng.chance(2, 3) else rng.choice(pool)
    return t.path_to(n)


def gen_case(rng, idx):
    t = Tree(rng, rng.range(3, 10), rng.range(0, 3))
    nodes = sorted(t.parent)
    sk = rng.below(10)
    if sk < 5:
        start = 0
    elif sk < 8:
        start = rng.choice(nodes)            # in the middle / on a fork (possibly never on the best chain)
    else:
        start = 777                          # not known to anybody
    # a getheaders reply must be able to reach past the deepest possible reorganisation (on the network:
    # 2000 headers), otherwise the handshake locator's reply can consist of known headers only for ever
    ms = [m for m in (2, 3, 5, 8) if m >= t.max_reorg_depth()] + [2000]
    m = rng.choice(ms + ms[:1])
    hostile = rng.chance(1, 2)               # reordering / duplication / out-of-order answers
    ops = []
    best = [0]
    # the peer usually has some chain before the node connects
    if rng.chance(4, 5):
        c = peer_event(rng, t, best)
        if c:
            best = c
            ops.append(["peer_set_best", c])
    nadv = 0
    n = rng.range(6, 60)
    for _ in range(n):
        k = rng.weighted([("deliver", 30), ("answer", 18), ("process", 14), ("check", 12), ("dup", 4 if hostile else 0),
                          ("peer", 7), ("advance", 3), ("timeouts", 3), ("disconnect", 1), ("restartnode", 2),
                          ("settle_some", 6), ("settle", 3)])
        if k in ("deliver", "answer", "dup"):
            ops.append([k, rng.below(6) if hostile and rng.chance(1, 2) else 0])
        elif k == "peer":
            c = peer_event(rng, t, best)
            if c:
                best = c
                ops.append(["peer_set_best", c])
        elif k == "advance":
            if nadv < 6:
                nadv += 1
                ops.append(["advance", rng.choice([11, 41, 111])])
        elif k == "settle_some":
            ops.append(["settle", rng.range(1, 12)])
        elif k == "settle":
            ops.append(["settle", SETTLE])
        else:
            ops.append([k])
    ops.append(["settle", SETTLE])
    return {"cfg": {"parents": t.pairs(), "start": start, "m": m}, "ops": ops}


def scripted_cases():
    res = []
    # clean initial sync of 12 blocks in replies of 5 headers, then extensions and a reorg of processed blocks
    par = [[i, i - 1] for i in range(1, 13)] + [[20, 9], [21, 20], [22, 21], [23, 22], [24, 23]]
    main = list(range(0, 13))
    ops = [["peer_set_best", main[:11]], ["settle", SETTLE], ["peer_set_best", main[:12]], ["settle", SETTLE],
           ["peer_set_best", main], ["settle", SETTLE], ["peer_set_best", main[:10] + [20, 21, 22, 23, 24]], ["settle", SETTLE],
           ["restartnode"], ["settle", SETTLE]]
    res.append({"cfg": {"parents": par, "start": 4, "m": 5}, "ops": ops})
    # reorg while blocks are in flight, fork among blocks not downloaded yet
    ops = [["peer_set_best", main], ["settle", 9], ["peer_set_best", main[:10] + [20, 21, 22, 23, 24]], ["settle", 7],
           ["process"], ["deliver", 2], ["deliver", 0], ["settle", SETTLE]]
    res.append({"cfg": {"parents": par, "start": 0, "m": 2000}, "ops": ops})
    # in sync, then more announced blocks than the request window holds (10 requested + a backlog), and a fork whose
    # parent is still in the backlog (queued, not yet requested) before any block is delivered
    n = 22
    main = list(range(0, n + 1))
    for fork_parent, flen in ((17, 5), (16, 8), (12, 12), (20, 3)):
        par = [[i, i - 1] for i in range(1, n + 1)]
        fork, prev = [], fork_parent
        for j in range(flen):
            par.append([40 + j, prev])
            prev = 40 + j
            fork.append(prev)
        for deliveries in ([["deliver", 0]], [["deliver", 0], ["answer", 0], ["deliver", 0], ["process"]]):
            ops = [["peer_set_best", main[:6]], ["settle", SETTLE], ["peer_set_best", main[:21]]] + deliveries + \
                  [["peer_set_best", main[:fork_parent + 1] + fork], ["deliver", 0], ["settle", SETTLE],
                   ["peer_set_best", main[:fork_parent + 1] + fork + [90]], ["settle", SETTLE]]
            res.append({"cfg": {"parents": par + [[90, fork[-1]]], "start": 0, "m": 2000}, "ops": ops})
    # duplicated announcement while the announced blocks arrive out of request order: in sync, P, Q, R announced (one
    # message each / one message for all), the announcement of Q is duplicated, Q's block arrives before P's, the
    # duplicate is handled in exactly that window (Q received and not yet processed, P still open).  The duplicate
    # names blocks that are requested / received, so it must change nothing.
    par = [[i, i - 1] for i in range(1, 9)]
    main = list(range(0, 9))
    for single in (True, False):
        for extra_tail in (0, 1):
            ops = [["peer_set_best", main[:5]], ["settle", SETTLE]]
            if single:
                ops += [["peer_set_best", main[:6]], ["peer_set_best", main[:7]], ["peer_set_best", main[:8]], ["dup", 1],
                        ["deliver", 0], ["deliver", 0], ["deliver", 0], ["answer", 0], ["answer", 0], ["answer", 0]]
            else:
                ops += [["peer_set_best", main[:8]], ["dup", 0], ["deliver", 0], ["answer", 0]]
            # channel now: the duplicate, block 5 (P), block 6 (Q), block 7 (R)
            ops += [["deliver", 2], ["deliver", 0]]
            if extra_tail:
                ops += [["process"], ["deliver", 0], ["process"]]
            ops += [["settle", SETTLE], ["peer_set_best", main], ["settle", SETTLE]]
            res.append({"cfg": {"parents": par, "start": 0, "m": 2000}, "ops": ops})
    # several blocks requested at once, some processed while a later one is outstanding, and exactly then the request
    # queue is emptied: by a disconnect / a request time-out, or by the peer replacing the outstanding block
    par = [[i, i - 1] for i in range(1, 12)] + [[60, 8], [61, 60], [62, 61]]
    main = list(range(0, 12))
    for nproc in (1, 2, 3):
        for breaker in ([["disconnect"]], [["advance", 700], ["timeouts"]], [["peer_set_best", main[:9] + [60, 61, 62]], ["deliver", 0]],
                        [["restartnode"]]):
            ops = [["peer_set_best", main[:6]], ["settle", SETTLE], ["peer_set_best", main[:10]], ["deliver", 0], ["answer", 0]]
            for _ in range(nproc):
                ops += [["deliver", 0], ["process"]]
            ops += breaker + [["settle", SETTLE], ["peer_set_best", (main[:9] + [60, 61, 62] if breaker[0][0] == "peer_set_best" else main) ],
                              ["settle", SETTLE]]
            res.append({"cfg": {"parents": par, "start": 0, "m": 2000}, "ops": ops})
    # a backlog (more blocks known than the request window: 10 requested, the rest queued) and exactly then the
    # connection is lost / times out / the node restarts: after the reconnect nothing may be left queued that is
    # never requested again
    n = 30
    par = [[i, i - 1] for i in range(1, n + 1)]
    main = list(range(0, n + 1))
    for nproc in (0, 3):
        for breaker in ([["disconnect"]], [["advance", 700], ["timeouts"]], [["restartnode"]]):
            for first in (6, 0):
                ops = ([["peer_set_best", main[:first + 1]], ["settle", SETTLE]] if first else []) + \
                      [["peer_set_best", main[:n - 2]], ["deliver", 0], ["answer", 0], ["deliver", 0], ["deliver", 0]]
                for _ in range(nproc):
                    ops += [["answer", 0], ["deliver", 0], ["process"]]
                ops += breaker + [["settle", SETTLE], ["peer_set_best", main], ["settle", SETTLE]]
                res.append({"cfg": {"parents": par, "start": 0, "m": 2000}, "ops": ops})
    # in sync, the peer reorganises at height h, and AGAIN at the same height before the first branch's blocks have
    # all arrived (k steps of the fair schedule after the first reorganisation, k = 1..12)
    # (the peer only moves to a chain with MORE blocks: the second branch is one block longer than the first)
    par = [[i, i - 1] for i in range(1, 6)] + [[50, 4], [51, 50], [60, 4], [61, 60], [62, 61], [63, 62]]
    main = list(range(0, 6))
    for k in range(1, 13):
        for check in (0, 1):
            ops = [["peer_set_best", main], ["settle", SETTLE], ["peer_set_best", main[:5] + [50, 51]], ["settle", k]] + \
                  ([["check"]] if check else []) + \
                  [["peer_set_best", main[:5] + [60, 61, 62]], ["settle", SETTLE], ["peer_set_best", main[:5] + [60, 61, 62, 63]], ["settle", SETTLE]]
            res.append({"cfg": {"parents": par, "start": 0, "m": 2000}, "ops": ops})
    # ... the same with the first branch's BLOCKS slow: the peer answers the header request before the older block
    # requests (answer j > 0), the node has the peer's last header and only waits for blocks, and then the second
    # reorganisation is announced
    for j in (1, 2):
        for nd in (1, 2):
            for check in (0, 1):
                ops = [["peer_set_best", main], ["settle", SETTLE], ["peer_set_best", main[:5] + [50, 51]], ["deliver", 0], ["check"],
                       ["answer", j]] + [["deliver", 0]] * nd + ([["check"]] if check else []) + \
                      [["peer_set_best", main[:5] + [60, 61, 62]], ["deliver", 0], ["check"], ["settle", SETTLE],
                       ["peer_set_best", main[:5] + [60, 61, 62, 63]], ["settle", SETTLE]]
                res.append({"cfg": {"parents": par, "start": 0, "m": 2000}, "ops": ops})
    # the schedule of seeded/C01_5: in sync at [0..5]; reorganisation at height 4 to 50,51 announced, the node
    # reverts and requests 50,51 (getdata on its way), check asks for more headers; the peer answers the HEADER
    # request first (answer 1: its last header alone -> the node is "pending sync" with the blocks outstanding);
    # before 50 arrives the peer reorganises again at height 4 (60,61,62) and announces: 60's parent is the node's
    # processed tip while 50,51 are pending ("Reorg on latest block": all requests dropped, 61 does not connect);
    # then everything is consumed.  The node must ask for headers again and end on the peer's chain.
    for check1 in (0, 1):          # a check between "pending sync" and the second announcement
        for late in (0, 1):        # the stale blocks are served before / after the second announcement is handled
            for more in (0, 1):    # the peer extends once more at the end
                ops = [["peer_set_best", main], ["settle", SETTLE], ["peer_set_best", main[:5] + [50, 51]], ["deliver", 0], ["check"],
                       ["answer", 1], ["deliver", 0]] + ([["check"]] if check1 else []) + \
                      [["peer_set_best", main[:5] + [60, 61, 62]]] + ([] if late else [["answer", 0]]) + \
                      [["deliver", 0], ["settle", SETTLE]] + \
                      ([["peer_set_best", main[:5] + [60, 61, 62, 63]], ["settle", SETTLE]] if more else [])
                res.append({"cfg": {"parents": par, "start": 0, "m": 2000}, "ops": ops})
    return res


def hold_cases():
    """Interleavings of message handling INSIDE one block-processing step (bgblocks mode, real processBlocks
    goroutine): the block thread has popped a delivered block (state.NextBlock) and is held before the parent
    check of ProcessBlock while a headers message reorganises below / at the repository tip; then it resumes.
    The popped block is no longer next and is skipped; the node must still end on the peer's chain and its block
    thread must still be running.  Monitor-only (the model's block processing step is atomic)."""
    res = []
    par = [[i, i - 1] for i in range(1, 5)] + [[50, 4], [51, 50]]
    for d in (0, 1, 2, 3):                      # fork point = height 4 - d (d = 0: at the tip)
        par += [[100 * (d + 1) + 60, 4 - d]] + [[100 * (d + 1) + 60 + j, 100 * (d + 1) + 59 + j] for j in range(1, 8)]
    main = [0, 1, 2, 3, 4]
    for nr in (1, 2):                           # blocks of the first extension delivered before the hold
        for d in (1, 2, 0, 3):
            for tail in ("", "restart", "extend", "disconnect"):
                if tail and d not in (1, 2):
                    continue
                r = [50, 51][:nr]
                q = [100 * (d + 1) + 60 + j for j in range(0, d + nr + 1)]     # one block longer than the first branch
                ops = [["peer_set_best", main], ["settle", SETTLE], ["peer_set_best", main + r], ["deliver", 0], ["answer", 0]] + \
                      [["deliver", 0]] * nr + [["process_hold"], ["peer_set_best", main[:5 - d] + q], ["deliver", 0],
                                               ["process_release"]]
                if tail == "restart":
                    ops += [["restartnode"]]
                elif tail == "disconnect":
                    ops += [["answer", 0], ["deliver", 0], ["disconnect"]]
                ops += [["settle", SETTLE]]
                if tail == "extend":
                    ops += [["peer_set_best", main[:5 - d] + q + [q[-1] + 1]], ["settle", SETTLE]]
                res.append({"cfg": {"parents": par, "start": 0, "m": 2000, "bgblocks": 1}, "ops": ops, "skip_model": True})
    # the shipped default RequestMempool = true: the first check in sync asks for the mempool, the in-sync notification
    # comes with the next check.  In between a block is announced (by headers), delivered and POPPED by the block thread
    # (held before it is added): a check in that window must not notify - the node does not hold that block yet.
    par2 = [[i, i - 1] for i in range(1, 6)]
    for nb in (1, 2):
        ext = [0, 1, 2] + list(range(3, 3 + nb))
        ops = [["peer_set_best", [0, 1, 2]], ["settle", 12], ["check"], ["answer", 0], ["answer", 0], ["answer", 0],
               ["peer_set_best", ext], ["deliver", 0], ["answer", 0]] + [["deliver", 0]] * nb + \
              [["process_hold"], ["check"], ["process_release"], ["settle", SETTLE]]
        res.append({"cfg": {"parents": par2, "start": 0, "m": 2000, "bgblocks": 1, "mempool": 1}, "ops": ops, "skip_model": True})
    # the peer replaces its tip by a SIBLING (same height, more work: one new header announced alone) while the node has
    # the old tip's block outstanding / delivered / processed ("reorg on latest block").  The model's peer only switches
    # to a chain with more blocks, so these are monitor-only.
    par3 = [[i, i - 1] for i in range(1, 6)] + [[50, 4], [51, 50]]
    m4 = [0, 1, 2, 3, 4]
    for mid in ([["deliver", 0]], [["deliver", 0], ["answer", 0], ["deliver", 0]],
                [["deliver", 0], ["answer", 0], ["deliver", 0], ["process"]]):
        for tail in ([], [["peer_set_best", m4 + [50, 51]], ["settle", SETTLE]]):
            ops = [["peer_set_best", m4], ["settle", SETTLE], ["peer_set_best", m4 + [5]]] + mid + \
                  [["peer_set_best", m4 + [50]], ["deliver", 0], ["settle", SETTLE]] + tail
            res.append({"cfg": {"parents": par3, "start": 0, "m": 2000, "sibling": 1}, "ops": ops, "skip_model": True})
    # held while the next announcement simply extends the chain (nothing is skipped)
    ops = [["peer_set_best", main], ["settle", SETTLE], ["peer_set_best", main + [50]], ["deliver", 0], ["answer", 0], ["deliver", 0],
           ["process_hold"], ["peer_set_best", main + [50, 51]], ["deliver", 0], ["process_release"], ["settle", SETTLE]]
    res.append({"cfg": {"parents": par, "start": 0, "m": 2000, "bgblocks": 1}, "ops": ops, "skip_model": True})
    return res


def long_cases(rng, n):
    """Chains crossing the 1000-header file boundary of the block store, with a reorg across it."""
    res = []
    for i in range(n):
        r = rng.fork(400 + i)
        L = r.range(1003, 1012)
        fork_at = r.range(992, 999)
        flen = L - fork_at + r.range(1, 4)
        par = [[j, j - 1] for j in range(1, L + 1)]
        prev = fork_at
        fork = []
        for j in range(flen):
            par.append([5000 + j, prev])
            prev = 5000 + j
            fork.append(prev)
        main = list(range(0, L + 1))
        start = r.choice([0, 0, 990, 1001])
        ops = [["peer_set_best", main[:r.range(996, 1002)]], ["settle", 40000], ["peer_set_best", main], ["settle", 40000],
               ["peer_set_best", main[:fork_at + 1] + fork], ["settle", 40000]]
        if i % 2 == 0:
            # ... and back: the peer's best chain returns to the first branch, now longer (blocks orphaned by the
            # first reorg, some of them in an older header file, are part of the best chain again)
            ext, prev = [], L
            for j in range(flen - (L - fork_at) + 2):
                par.append([6000 + j, prev])
                prev = 6000 + j
                ext.append(prev)
            ops += [["peer_set_best", main + ext], ["settle", 40000]]
        if r.chance(1, 2):
            ops += [["restartnode"], ["settle", 40000]]
        res.append({"cfg": {"parents": par, "start": start, "m": 2000}, "ops": ops, "origin": "long"})
    return res


def injection_cases(tier):
    """In-order histories only: the peer finds a block (or reorganises its tip) at EVERY point of a sync, with the
    node's own steps (check, process, deliveries) placed explicitly around it - the worlds with something in flight
    across a peer event, which the liveness theorems do not cover and where the in-order defect fd6e285 sat (an
    announcement by inventory consumed while the last blocks were outstanding)."""
    res = []
    for n in ((4,) if tier == "quick" else (3, 4, 7)):
        par = [[i, i - 1] for i in range(1, n + 3)] + [[60, n - 1], [61, 60], [62, 61]]
        base = list(range(0, n + 1))
        events = [base + [n + 1], base[:n] + [60, 61]] if tier == "quick" else \
                 [base + [n + 1], base + [n + 1, n + 2], base[:n] + [60, 61], base[:n] + [60, 61, 62]]
        ks = range(0, 3 * n + 8, 2 if tier == "quick" else 1)
        for k in ks:
            for before in ([], [["check"]], [["check"], ["answer", 0]], [["check"], ["answer", 0], ["deliver", 0]],
                           [["process"], ["check"], ["answer", 0]]):
                for after in ([], [["deliver", 0]], [["deliver", 0], ["deliver", 0], ["process"]],
                              [["deliver", 0], ["process"], ["process"], ["process"], ["check"]]):
                    for ev in events:
                        ops = [["peer_set_best", base], ["settle", k]] + before + [["peer_set_best", ev]] + after + \
                              [["settle", SETTLE]]
                        res.append({"cfg": {"parents": par, "start": 0, "m": 2000}, "ops": ops, "origin": "scripted-injection"})
    return res


def make_cases(tier, rng, replay):
    if replay:
        return [{"cfg": replay.get("cfg", {}), "ops": replay["ops"], "origin": "replay"}]
    cases = []
    d = os.path.join(vlib.VERIF, "corpus", "C01")
    if os.path.isdir(d):
        for f in sorted(os.listdir(d)):
            if f.endswith(".json"):
                j = json.load(open(os.path.join(d, f)))
                cases.append({"cfg": j["cfg"], "ops": j["ops"], "origin": "corpus/C01/" + f})
    for c in scripted_cases():
        c["origin"] = "scripted"
        cases.append(c)
    for c in hold_cases():
        c["origin"] = "scripted-hold"
        cases.append(c)
    cases += injection_cases(tier)
    n = 150 if tier == "quick" else 3000
    for i in range(n):
        r = rng.fork(1000 + i)
        cases.append(gen_case(r, i))
    # a fraction of the ordinary histories once more with the REAL processBlocks goroutine doing the block
    # processing (bgblocks): must agree with the model exactly (a turn of the thread = every delivered block at the
    # head of the queue)
    gen = [c for c in cases if c.get("origin") is None]
    scr = [c for c in cases if c.get("origin") == "scripted"]
    for c in gen[::(12 if tier == "quick" else 25)] + scr[::9]:
        cfg = dict(c["cfg"])
        cfg["bgblocks"] = 1
        cases.append({"cfg": cfg, "ops": c["ops"], "origin": "bgblocks"})
    cases += long_cases(rng, 2 if tier == "quick" else 8)
    return cases


def suites(tier, rng, replay):
    cases = make_cases(tier, rng, replay)
    pre = ["From V.model Require Import Requests Sync SyncSpec Peer.", "From V.gen Require Import Consts."]
    for c in cases:
        cfg = c["cfg"]
        par = "[" + "; ".join("(%s, %s)" % (vlib.z(a), vlib.z(b)) for a, b in cfg["parents"]) + "]"
        c["coq_ops"] = [coq_op(o, bool(cfg.get("bgblocks"))) for o in c["ops"]]
        if any(o[0] == "process_hold" for o in c["ops"]):
            c["skip_model"] = True       # the model's block processing step is atomic: monitor-only
        c["model"] = ("cmp_run (crun maxRequestedBlocks maxPendingBlockSize handshakeTimeout headerTimeout blockTimeout "
                      "UntrustedHeaderDelta %s %s %s)" % (nat(cfg.get("m", 2000)), par, vlib.z(cfg["start"])))
    small = [c for c in cases if c.get("origin") != "long"]
    big = [c for c in cases if c.get("origin") == "long"]
    groups = [{"key": "converge", "optype": "cop", "cases": small, "per_case_model": True, "monitors": MON}]
    for i, c in enumerate(big):
        groups.append({"key": "long%d" % i, "optype": "cop", "cases": [c], "per_case_model": True, "monitors": MON})
    return [Suite("converge", "converge", pre, groups)]


def extra(tier, rng, workdir):
    """How many worlds right after a (re)connection, in random histories, fall under the liveness theorems
    C01_converges_fresh / _forked / _prestart (executable predicates evaluated on the model)."""
    import re
    import subprocess
    n = 200 if tier == "quick" else 1500
    cases = []
    for i in range(n):
        r = rng.fork(70000 + i)
        c = gen_case(r, i)
        ops = [o for o in c["ops"][:-1] if not (o[0] == "settle" and o[1] > 100 and r.chance(1, 2))]
        ops.append(r.choice([["disconnect"], ["restartnode"], ["disconnect"]]))
        c["ops"] = ops
        cases.append(c)
    files = []
    for si in range(0, len(cases), 100):
        vf = os.path.join(workdir, "reconnect_%d.v" % si)
        with open(vf, "w") as f:
            f.write("From V.lib Require Import Base.\nFrom V.model Require Import Requests Sync SyncSpec Peer.\n"
                    "From V.gen Require Import Consts.\n"
                    "From V.proofs Require Import Converge_Proofs Converge_Clean Converge_Fork Converge_Pre.\n")
            f.write("Definition after (M : nat) par start ops := fold_left (fun w o => fst (cstep maxRequestedBlocks "
                    "maxPendingBlockSize handshakeTimeout headerTimeout blockTimeout UntrustedHeaderDelta M (table_fn par) "
                    "w o)) ops (cw_init start).\n")
            f.write("Definition R := Eval vm_compute in [\n")
            rows = []
            for c in cases[si:si + 100]:
                cfg = c["cfg"]
                par = "[" + "; ".join("(%s, %s)" % (vlib.z(a), vlib.z(b)) for a, b in cfg["parents"]) + "]"
                ops = "[" + "; ".join(coq_op(o) for o in c["ops"]) + "]"
                m = nat(cfg.get("m", 2000))
                rows.append("  (let par := %s in let w := after %s par %s %s in clean_behind (table_fn par) w || "
                            "clean_forked %s (table_fn par) w || clean_behind_pre (table_fn par) w)"
                            % (par, m, vlib.z(cfg["start"]), ops, m))
            f.write(";\n".join(rows))
            f.write("].\nPrint R.\n")
        files.append(vf)
    procs = [subprocess.Popen(["timeout", "600", "coqc"] + vlib.coq_flags() + [vf], cwd=workdir, stdout=subprocess.PIPE,
                              stderr=subprocess.PIPE, text=True) for vf in files]
    tot = yes = 0
    red = []
    for vf, p in zip(files, procs):
        so, se = p.communicate()
        if p.returncode != 0:
            red.append({"what": "reconnect-coverage-evaluation", "detail": {"file": vf, "stderr": se[-1500:]}})
            continue
        mm = re.search(r"R =\s*(.*?)\n\s*: list", so, re.S)
        val = vlib.parse_coq_value("= " + mm.group(1) + "\n : x")
        tot += len(val)
        yes += sum(1 for v in val if v)
    return {"failures": [], "red": red, "evaluations": 0,
            "coverage": {"reconnect_worlds": tot, "reconnect_worlds_covered": yes}}


# ---- which out-of-order / duplicated delivery a failing non-FIFO history needs ----------------------------------
# Codes 107 / 108 are "stalled / notified too early on a history that is not in order".  The known findings of
# that kind are identified by WHAT had to be out of order: the disorder steps of the history are found from the
# channel contents in the observations, each is taken out in turn, and those whose removal makes the failure
# disappear are the signature that goes into the key.  Another failure of the same code with another signature is
# not the listed finding and is reported.

def parse_conv(ob):
    try:
        n = ob[9]
        chain = ob[10:10 + n]
        i = 10 + n
        pi = ob[i + 1:i + 1 + ob[i]]
        j = 4 + pi[3]
        nchan, nreqs = pi[j], pi[j + 1]
        j += 2
        chan, reqs = [], []
        for _ in range(nchan):
            k = pi[j]
            if k == 1:
                chan.append(("version", []))
                j += 1
            elif k == 2:
                m = pi[j + 1]
                chan.append(("headers", list(pi[j + 2:j + 2 + m])))
                j += 2 + m
            else:
                chan.append(("block" if k == 3 else "inv", [pi[j + 1]]))
                j += 2
        for _ in range(nreqs):
            k = pi[j]
            if k in (1, 2):
                m = pi[j + 1]
                reqs.append(("getheaders" if k == 1 else "getdata", list(pi[j + 2:j + 2 + m])))
                j += 2 + m
            else:
                reqs.append(("sendheaders", []))
                j += 1
        return {"chain": list(chain), "chan": chan, "reqs": reqs}
    except (IndexError, TypeError):
        return None


def msg_kind(m, chain):
    k, ids = m
    if k == "headers":
        return "headers-known" if all(x in chain for x in ids) else "headers-new"
    return k


def disorder_steps(ops, trace, upto):
    """[(index, description)] of the steps up to `upto` that take something else than the head of a queue"""
    res = []
    pre = {"chain": [0], "chan": [("version", [])], "reqs": []}
    for i, (o, ob) in enumerate(zip(ops, trace)):
        if i > upto:
            break
        if pre is not None:
            ch, chain, rq = pre["chan"], pre["chain"], pre["reqs"]
            if o[0] == "deliver" and ch and o[1] % len(ch) > 0:
                k = o[1] % len(ch)
                res.append((i, "%s-before-%s" % (msg_kind(ch[k], chain), "+".join(sorted(set(msg_kind(m, chain) for m in ch[:k]))))))
            elif o[0] == "dup" and ch:
                res.append((i, "dup-%s" % msg_kind(ch[o[1] % len(ch)], chain)))
            elif o[0] == "answer" and rq and o[1] % len(rq) > 0:
                k = o[1] % len(rq)
                res.append((i, "answer-%s-before-%s" % (rq[k][0], "+".join(sorted(set(r[0] for r in rq[:k]))))))
        pre = parse_conv(ob)
    return res


SIG_CACHE = {}
SIG_BUDGET = [40]


def disorder_signature(rec):
    ck = json.dumps([rec.get("cfg"), rec.get("ops"), rec.get("step")], sort_keys=True)
    if ck in SIG_CACHE:
        return SIG_CACHE[ck]
    ops, trace, step = rec.get("ops", []), rec.get("trace") or [], rec.get("step", 0)
    ds = disorder_steps(ops, trace, step)
    if not ds:
        sig = "none"
    elif SIG_BUDGET[0] <= 0:
        sig = "unshrunk"
    else:
        SIG_BUDGET[0] -= 1
        cases = []
        for i, _ in ds:
            if ops[i][0] == "dup":
                v = ops[:i] + ops[i + 1:]
            else:
                v = ops[:i] + [[ops[i][0], 0]] + ops[i + 1:]
            cases.append({"cfg": rec["cfg"], "ops": [list(o) for o in v]})
        try:
            for c in cases:
                c["coq_ops"] = [coq_op(o, bool(c["cfg"].get("bgblocks"))) for o in c["ops"]]
            pre = ["From V.model Require Import Requests Sync SyncSpec Peer.", "From V.gen Require Import Consts."]
            su = Suite("converge", "converge", pre, [{"key": "sig", "optype": "cop", "cases": cases, "monitors": MON}])
            r = checklib.eval_suite(su, os.path.join(vlib.WORK, "C01", "sig%d" % SIG_BUDGET[0]))
            still = set(x["case_index"] for x in r["monitor_fail"] if x["checker"] == "c01")
            need = sorted(set(d for n, (_, d) in enumerate(ds) if n not in still))
            sig = ",".join(need) if need else "any-of:" + ",".join(sorted(set(d for _, d in ds)))
        except Exception as e:      # the key must never depend on a crash of the shrinker
            sig = "unshrunk"
    SIG_CACHE[ck] = sig
    return sig


def keyfn(rec):
    ops = rec.get("ops", [])
    step = rec.get("step", 0)
    opn = ops[step][0] if 0 <= step < len(ops) else "?"
    code = (rec.get("expected") or [0])[0] if rec.get("checker") != "model" else 0
    key = "converge:%s:%s:%s" % (rec.get("checker"), code, opn)
    if rec.get("checker") == "c01" and code in (107, 108):
        key += ":" + disorder_signature(rec)
    return key


SPEC = {
    "pid": "C01",
    "props_file": "props/C01.v",
    "suites": suites,
    "extra": extra,
    "keyfn": keyfn,
    "trusted_base": [
        "Coq 8.16.1 kernel (coqc); vm_compute for evaluating model and monitor on the cases; no native_compute",
        "axioms: none declared; Print Assumptions recorded under print_assumptions",
        "hand-written models coq/model/Sync.v (node: headers / block handlers, one processBlocks iteration, check, time-outs, Reset, load) and coq/model/Peer.v (Bitcoin-node-like peer, connection, settling run); tied to the code by the correspondence run: the real handler map, ProcessBlock, check, CheckTimeouts, Reset and new Node of an in-package harness are connected to a Go transcription of Peer.v that reacts to the messages the node really emits; every observation (node digest from the real BlockRepository queries, peer state, channel contents, what the node sent) must equal the model's",
        "the block repository enters through its abstract interface (list of headers), justified by C09's refinement theorem",
        "modelled, not verified: hashes are ids of a block tree; block bodies served by the peer are valid; the peer is the model's peer (getheaders reply capped at m headers, announcements by headers only after sendheaders)",
    ],
    "assumptions": [
        "real TCP, timers and goroutine fairness are not in the model: a time-out is a model event (the clock is advanced by ageing the stored timestamps, CheckTimeouts is called by the schedule); every handler call, processBlocks iteration and check call is one atomic step",
        "a closed connection loses what was in flight; the peer greets every new connection with version and has forgotten sendheaders",
        "the peer's best chain only changes to a chain with more blocks (most work at constant difficulty)",
        "a getheaders reply (m headers; 2000 on the network) reaches past the deepest reorganisation the node has to undo after a reconnect: the generator keeps m >= the deepest possible reorganisation of the tree; below that the handshake reply consists of known headers only and the node loops on the header time-out (model and code agree; theorem C01_converges_fresh_forked states the condition f <= i + M)",
        "liveness theorems cover freshly (re)connected worlds (three executable predicates; the check recounts how many generated reconnect worlds satisfy one of them: coverage keys reconnect_worlds / reconnect_worlds_covered); worlds with messages in flight across a peer event are covered by the correspondence exploration only",
    ],
    "rule": "block trees of 3-14 blocks with 0-3 forks (also forks of forks), start block at genesis / in the middle or on a fork / unknown, getheaders replies capped at 2, 3, 5, 8 or 2000 headers; histories of peer best-chain changes (extend by k, reorganise from depth d) before, during and after the initial sync; deliveries in order or reordered / duplicated / delayed, peer answers in or out of order, process / check steps anywhere, clock advances, time-outs, lost connections, node restarts, partial settling runs; every history ends with a settling run; plus chains of 1003-1012 blocks crossing the 1000-header file boundary with a reorganisation across it; distinct = distinct (cfg, ops)",
}

if __name__ == "__main__":
    checklib.run_check(SPEC)
